(* The big-step evaluator of Model/BigStep.v and the stack machine of Model/Machine.v compute the
   same thing: [eval] succeeds with (cost, value) iff the machine, started by [eval_pair] on top of
   ANY state s whose guard stack is the evaluator's guard context, reaches [push value s] at that
   cost - the continuation-generalised form of the frame lemma (the stacks of s are never looked
   at). Both directions; [run_program_big_equiv] is the run_program-level statement. *)
From Coq Require Import Lia ZifyBool ZifyN ZifyNat.
From Clvm Require Import Model.Machine Model.BigStep Proofs.MachineBasics Proofs.MachineFrame Proofs.MachineGuard.
Open Scope N_scope.

Section Equiv.
  Variable d : dialect.
  Variable M : N.

  (* ---------------------------------------------------------------- single steps, by shape *)
  Lemma step_apply cost st args operator vs e0 es rest :
    vals st = args :: operator :: vs -> envs st = e0 :: es -> ops st = OApply :: rest ->
    let s3 := {| vals := vs; envs := es; ops := rest; guards := guards st |} in
    step d M cost st =
      if gs_emax (guards st) M <? cost then Err CostExceeded
      else if is_kw operator (d_apply d) then
        do '(no, env) <- get_args2 args;
        do '(c, s4) <- eval_pair d s3 no env;
        Ok (inl (cost + (c + APPLY_COST), s4))
      else if is_kw operator (d_softfork d) then
        do '(c, s4) <- enter_guard d s3 args cost (gs_emax (guards st) M - cost);
        Ok (inl (cost + c, s4))
      else
        do '(c, v) <- d_op d operator args (gs_emax (guards st) M - cost) (gs_ext (guards st));
        Ok (inl (cost + c, push v s3)).
  Proof.
    intros Hv He Ho s3. unfold step. change (effective_max st M) with (gs_emax (guards st) M).
    destruct (_ <? cost); [reflexivity|]. rewrite Ho. unfold apply_op, pop.
    cbn [vals envs ops guards]. rewrite Hv. cbn [bind vals envs ops guards]. rewrite He. fold s3.
    destruct (is_kw operator (d_apply d)).
    - destruct (get_args2 args) as [[no env]|]; cbn [bind]; [|reflexivity].
      destruct (eval_pair d s3 no env) as [[c s4]|]; reflexivity.
    - destruct (is_kw operator (d_softfork d)).
      + destruct (enter_guard d s3 args cost _) as [[c s4]|]; reflexivity.
      + change (current_extensions s3) with (gs_ext (guards st)).
        destruct (d_op d operator args _ _) as [[c v]|]; reflexivity.
  Qed.

  Lemma step_swap cost st v2 prog vs env es rest :
    vals st = v2 :: prog :: vs -> envs st = env :: es -> ops st = OSwapEval :: rest ->
    step d M cost st =
      if gs_emax (guards st) M <? cost then Err CostExceeded
      else
        do '(c, s') <- eval_pair d {| vals := v2 :: vs; envs := env :: es; ops := OCons :: rest; guards := guards st |} prog env;
        Ok (inl (cost + c, s')).
  Proof.
    intros Hv He Ho. unfold step. change (effective_max st M) with (gs_emax (guards st) M).
    destruct (_ <? cost); [reflexivity|]. rewrite Ho. unfold swap_eval_op, pop.
    cbn [vals envs ops guards]. rewrite Hv. cbn [bind vals envs ops guards]. rewrite He.
    reflexivity.
  Qed.

  Lemma step_cons cost st v1 v2 vs rest :
    vals st = v1 :: v2 :: vs -> ops st = OCons :: rest ->
    step d M cost st =
      if gs_emax (guards st) M <? cost then Err CostExceeded
      else Ok (inl (cost, {| vals := Cons v1 v2 :: vs; envs := envs st; ops := rest; guards := guards st |})).
  Proof.
    intros Hv Ho. unfold step. change (effective_max st M) with (gs_emax (guards st) M).
    destruct (_ <? cost); [reflexivity|]. rewrite Ho. unfold cons_op, pop.
    cbn [vals envs ops guards]. rewrite Hv. cbn [bind vals envs ops guards push]. rewrite N.add_0_r. reflexivity.
  Qed.

  Lemma step_restore cost st v vs rest :
    vals st = v :: vs -> ops st = ORestore :: rest ->
    step d M cost st =
      if gs_emax (guards st) M <? cost then Err CostExceeded
      else Ok (inl (cost, {| vals := v :: vs; envs := envs st; ops := rest; guards := guards st |})).
  Proof.
    intros Hv Ho. unfold step. change (effective_max st M) with (gs_emax (guards st) M).
    destruct (_ <? cost); [reflexivity|]. rewrite Ho. cbn [vals]. rewrite Hv. cbn [bind].
    rewrite N.add_0_r. reflexivity.
  Qed.

  Lemma chk_ok gs cost : chk gs M cost = Ok tt <-> (gs_emax gs M <? cost) = false.
  Proof. unfold chk. destruct (_ <? _); split; intros H; try reflexivity; discriminate. Qed.

  Lemma chk_cases gs cost : (chk gs M cost = Ok tt /\ (gs_emax gs M <? cost) = false) \/
                            (chk gs M cost = Err CostExceeded /\ (gs_emax gs M <? cost) = true).
  Proof. unfold chk. destruct (_ <? _); [right|left]; split; reflexivity. Qed.

  Lemma nsteps_one cost st m : step d M cost st = Ok (inl m) -> nsteps d M 1 (cost, st) m.
  Proof. intros H. cbn [nsteps fst snd]. exists m. split; [exact H|reflexivity]. Qed.

  Lemma nsteps_snoc k a b m : nsteps d M k a b -> step d M (fst b) (snd b) = Ok (inl m) ->
    nsteps d M (k + 1) a m.
  Proof.
    intros H1 H2. apply (nsteps_trans d M k 1 a b m H1). destruct b as [c s]. apply nsteps_one. exact H2.
  Qed.

  (* ---------------------------------------------------------------- eval => machine *)
  (* what the induction hypothesis says about the evaluator with less fuel *)
  Definition sound_ev (ev : list guard -> N -> sexp -> sexp -> res (N * sexp)) : Prop :=
    forall gs cost p e c' v, ev gs cost p e = Ok (c', v) ->
    forall s, guards s = gs ->
    exists c s1 k, eval_pair d s p e = Ok (c, s1) /\ nsteps d M k (cost + c, s1) (c', push v s).

  Section Sound.
    Variable ev : list guard -> N -> sexp -> sexp -> res (N * sexp).
    Hypothesis Hev : sound_ev ev.

    Lemma apply_sound cost operator args c' v :
      forall st vs e0 es rest,
      vals st = args :: operator :: vs -> envs st = e0 :: es -> ops st = OApply :: rest ->
      apply_big d M ev (guards st) cost operator args = Ok (c', v) ->
      exists k, nsteps d M k (cost, st)
                  (c', {| vals := v :: vs; envs := es; ops := rest; guards := guards st |}).
    Proof.
      intros st vs e0 es rest Hv He Ho H.
      pose proof (step_apply cost st args operator vs e0 es rest Hv He Ho) as Hs. cbn zeta in Hs.
      set (s3 := {| vals := vs; envs := es; ops := rest; guards := guards st |}) in *.
      unfold apply_big in H.
      destruct (chk_cases (guards st) cost) as [[Ec Eb]|[Ec Eb]]; rewrite Ec in H; cbn [bind] in H; [|discriminate].
      rewrite Eb in Hs.
      destruct (is_kw operator (d_apply d)).
      - destruct (get_args2 args) as [[no env]|]; cbn [bind] in H, Hs; [|discriminate].
        destruct (Hev _ _ _ _ _ _ H s3 eq_refl) as (c & s4 & k & EP & Hk).
        rewrite EP in Hs. cbn [bind] in Hs.
        exists (1 + k)%nat. apply (nsteps_trans d M 1 k _ (cost + (c + APPLY_COST), s4)).
        + apply nsteps_one. exact Hs.
        + replace (cost + (c + APPLY_COST)) with (cost + APPLY_COST + c) by lia. exact Hk.
      - destruct (is_kw operator (d_softfork d)).
        + unfold guard_big in H. unfold enter_guard in Hs.
          destruct (first args) as [fa|]; cbn [bind] in H, Hs; [|discriminate].
          destruct (uint_atom 8 _ fa) as [ec|]; cbn [bind] in H, Hs; [|discriminate].
          destruct (_ <? ec); [discriminate|]. destruct (ec =? 0); [discriminate|].
          destruct (parse_softfork_arguments d args) as [[[ext prg] env]|err].
          2:{ destruct (d_allow_unknown d); [|discriminate]. injection H as <- <-.
              cbn [bind] in Hs. exists 1%nat. apply nsteps_one. exact Hs. }
          cbn [guards s3] in Hs.
          destruct (_ && _)%bool; [discriminate|].
          cbn [vals envs ops guards s3] in Hs.
          match type of H with context [ev (?G :: _) _ prg env] => set (g := G) in * end.
          destruct (ev (g :: guards st) _ prg env) as [[c1 v0]|] eqn:Ev; cbn [bind] in H; [|discriminate].
          destruct (chk_cases (g :: guards st) c1) as [[Ec1 Eb1]|[Ec1 Eb1]]; rewrite Ec1 in H; cbn [bind] in H; [|discriminate].
          destruct (negb (cost_exempt g) && negb (c1 =? g_expected g))%bool eqn:Ex; [discriminate|].
          injection H as <- <-.
          set (s4 := {| vals := vs; envs := es; ops := OExitGuard :: rest; guards := g :: guards st |}) in *.
          destruct (Hev _ _ _ _ _ _ Ev s4 eq_refl) as (c & s5 & k & EP & Hk).
          rewrite EP in Hs. cbn [bind] in Hs.
          exists (1 + (k + 1))%nat. eapply (nsteps_trans d M 1 (k + 1)).
          * apply nsteps_one. exact Hs.
          * eapply nsteps_snoc.
            -- match goal with |- nsteps _ _ _ (?X, _) _ => replace X with (cost + (if f_new_cost_model (d_flags d) then NEW_GUARD_COST else GUARD_COST) + c) by lia end.
               exact Hk.
            -- cbn [fst snd].
               change (push v0 s4) with {| vals := v0 :: vs; envs := es; ops := OExitGuard :: rest; guards := g :: guards st |}.
               rewrite guard_exit_step. cbn [gs_emax] in Eb1. rewrite Eb1, Ex. reflexivity.
        + destruct (d_op d operator args _ _) as [[c v1]|]; cbn [bind] in H, Hs; [|discriminate].
          injection H as <- <-. exists 1%nat. apply nsteps_one. exact Hs.
    Qed.

    Lemma args_sound env : forall ol cost c1 tl s0 es, envs s0 = env :: es -> nil_terminated ol = Ok tt ->
      eval_args M ev (guards s0) cost ol env = Ok (c1, tl) ->
      exists s' k, push_operands ol s0 = Ok s' /\ nsteps d M k (cost, s') (c1, push tl s0).
    Proof.
      induction ol as [b|a _ r IH]; intros cost c1 tl s0 es He Hn H; cbn [eval_args push_operands nil_terminated] in *.
      - destruct b; [|discriminate]. injection H as <- <-. exists (push nil_s s0), O. split; reflexivity.
      - destruct (eval_args M ev (guards s0) cost r env) as [[c1' tl']|] eqn:Er; cbn [bind] in H; [|discriminate].
        destruct (chk_cases (guards s0) c1') as [[Ec Eb]|[Ec Eb]]; rewrite Ec in H; cbn [bind] in H; [|discriminate].
        destruct (ev (guards s0) c1' a env) as [[c2 v]|] eqn:Ea; cbn [bind] in H; [|discriminate].
        destruct (chk_cases (guards s0) c2) as [[Ec2 Eb2]|[Ec2 Eb2]]; rewrite Ec2 in H; cbn [bind] in H; [|discriminate].
        injection H as <- <-.
        set (s0' := push a (push_op OSwapEval s0)).
        destruct (IH cost c1' tl' s0' es He Hn Er) as (s' & k1 & Hp & Hk1).
        exists s'.
        (* the SwapEval step *)
        pose proof (step_swap c1' (push tl' s0') tl' a (vals s0) env es (ops s0) eq_refl He eq_refl) as Hs.
        cbn [guards push push_op s0'] in Hs. rewrite Eb in Hs.
        set (sc := {| vals := tl' :: vals s0; envs := env :: es; ops := OCons :: ops s0; guards := guards s0 |}) in *.
        destruct (Hev _ _ _ _ _ _ Ea sc eq_refl) as (c & s1 & k2 & EP & Hk2).
        rewrite EP in Hs. cbn [bind] in Hs.
        (* the Cons step *)
        pose proof (step_cons c2 (push v sc) v tl' (vals s0) (ops s0) eq_refl eq_refl) as Hc.
        cbn [guards push sc envs] in Hc. rewrite Eb2 in Hc.
        exists (k1 + (1 + (k2 + 1)))%nat. split; [exact Hp|].
        apply (nsteps_trans d M k1 _ _ _ _ Hk1).
        eapply (nsteps_trans d M 1 (k2 + 1)); [apply nsteps_one; exact Hs|].
        eapply nsteps_snoc; [exact Hk2|]. cbn [fst snd]. rewrite Hc.
        destruct s0 as [v0 e0 o0 g0]. cbn in He |- *. subst e0. reflexivity.
    Qed.

    Lemma body_sound : sound_ev (eval_body d M ev).
    Proof.
      intros gs cost p e c' v H s Hg. subst gs. unfold eval_body in H. unfold eval_pair.
      destruct p as [b|opn opl].
      - destruct (traverse_path b e) as [[c v0]|]; cbn [bind] in H |- *; [|discriminate].
        injection H as <- <-. exists c, (push v0 s), O. split; reflexivity.
      - destruct opn as [b|no tl].
        + unfold eval_op_atom. destruct (is_kw (Atom b) (d_quote d)).
          * injection H as <- <-. exists QUOTE_COST, (push opl s), O. split; reflexivity.
          * destruct (nil_terminated opl) as [[]|] eqn:En; cbn [bind] in H; [|discriminate].
            destruct (eval_args M ev (guards s) (cost + OP_COST) opl e) as [[c1 args]|] eqn:Ea; cbn [bind] in H; [|discriminate].
            destruct (apply_big d M ev (guards s) c1 (Atom b) args) as [[c2 v1]|] eqn:Eap; cbn [bind] in H; [|discriminate].
            set (s1 := if d_gc d (Atom b) then push_op ORestore s else s).
            assert (Hg1 : guards s1 = guards s) by (subst s1; destruct (d_gc d (Atom b)); reflexivity).
            set (s2 := push (Atom b) (push_op OApply (push_env e s1))).
            rewrite <- Hg1 in Ea.
            destruct (args_sound e opl (cost + OP_COST) c1 args s2 (envs s1) eq_refl En Ea) as (s3 & k1 & Hp & Hk1).
            rewrite Hp. cbn [bind].
            rewrite <- Hg1 in Eap.
            destruct (apply_sound c1 (Atom b) args c2 v1 (push args s2) (vals s1) e (envs s1) (ops s1) eq_refl eq_refl eq_refl Eap) as (k2 & Hk2).
            cbn [guards push push_op push_env s2] in Hk2.
            exists OP_COST, s3.
            destruct (d_gc d (Atom b)) eqn:Egc.
            -- destruct (chk_cases (guards s) c2) as [[Ec Eb]|[Ec Eb]]; rewrite Ec in H; cbn [bind] in H; [|discriminate].
               injection H as <- <-.
               exists (k1 + (k2 + 1))%nat. split; [reflexivity|].
               apply (nsteps_trans d M k1 _ _ _ _ Hk1). eapply nsteps_snoc; [exact Hk2|]. cbn [fst snd].
               pose proof (step_restore c2 {| vals := v1 :: vals s; envs := envs s; ops := ORestore :: ops s; guards := guards s |}
                             v1 (vals s) (ops s) eq_refl eq_refl) as Hr.
               cbn [guards envs] in Hr. rewrite Eb in Hr. exact Hr.
            -- injection H as <- <-. exists (k1 + k2)%nat. split; [reflexivity|].
               apply (nsteps_trans d M k1 _ _ _ _ Hk1). subst s1.
               destruct s; exact Hk2.
        + destruct tl as [tb|]; [destruct no as [nb|]|]; try discriminate.
          exists APPLY_COST, (push_op OApply (push opl (push (Atom nb) (push_env e s)))).
          destruct (apply_sound (cost + APPLY_COST) (Atom nb) opl c' v
                      (push_op OApply (push opl (push (Atom nb) (push_env e s)))) (vals s) e (envs s) (ops s)
                      eq_refl eq_refl eq_refl H) as (k & Hk).
          exists k. split; [reflexivity|]. destruct s; exact Hk.
    Qed.
  End Sound.

  Lemma eval_sound fuel : sound_ev (eval d M fuel).
  Proof.
    induction fuel as [|fuel IH]; [intros gs cost p e c' v H; discriminate|].
    cbn [eval]. apply body_sound. exact IH.
  Qed.
End Equiv.
