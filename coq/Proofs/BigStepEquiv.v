(* The big-step evaluator of Model/BigStep.v and the stack machine of Model/Machine.v compute the
   same thing: [eval] succeeds with (cost, value) iff the machine, started by [eval_pair] on top of
   ANY state s whose guard stack is the evaluator's guard context, reaches [push value s] at that
   cost - the continuation-generalised form of the frame lemma (the stacks of s are never looked
   at). Both directions; [run_program_big_equiv] is the run_program-level statement. *)
From Coq Require Import Lia ZifyBool ZifyN ZifyNat.
From Clvm Require Import Model.Machine Model.BigStep Proofs.MachineBasics Proofs.MachineFrame Proofs.MachineGuard.
Open Scope N_scope.

Section Equiv.
  Variable d : dialect.
  Variable M : N.

  (* ---------------------------------------------------------------- single steps, by shape *)
  Lemma step_apply cost st args operator vs e0 es rest :
    vals st = args :: operator :: vs -> envs st = e0 :: es -> ops st = OApply :: rest ->
    let s3 := {| vals := vs; envs := es; ops := rest; guards := guards st |} in
    step d M cost st =
      if gs_emax (guards st) M <? cost then Err CostExceeded
      else if is_kw operator (d_apply d) then
        do '(no, env) <- get_args2 args;
        do '(c, s4) <- eval_pair d s3 no env;
        Ok (inl (cost + (c + APPLY_COST), s4))
      else if is_kw operator (d_softfork d) then
        do '(c, s4) <- enter_guard d s3 args cost (gs_emax (guards st) M - cost);
        Ok (inl (cost + c, s4))
      else
        do '(c, v) <- d_op d operator args (gs_emax (guards st) M - cost) (gs_ext (guards st));
        Ok (inl (cost + c, push v s3)).
  Proof.
    intros Hv He Ho s3. unfold step. change (effective_max st M) with (gs_emax (guards st) M).
    destruct (_ <? cost); [reflexivity|]. rewrite Ho. unfold apply_op, pop.
    cbn [vals envs ops guards]. rewrite Hv. cbn [bind vals envs ops guards]. rewrite He. fold s3.
    destruct (is_kw operator (d_apply d)).
    - destruct (get_args2 args) as [[no env]|]; cbn [bind]; [|reflexivity].
      destruct (eval_pair d s3 no env) as [[c s4]|]; reflexivity.
    - destruct (is_kw operator (d_softfork d)).
      + destruct (enter_guard d s3 args cost _) as [[c s4]|]; reflexivity.
      + change (current_extensions s3) with (gs_ext (guards st)).
        destruct (d_op d operator args _ _) as [[c v]|]; reflexivity.
  Qed.

  Lemma step_swap cost st v2 prog vs env es rest :
    vals st = v2 :: prog :: vs -> envs st = env :: es -> ops st = OSwapEval :: rest ->
    step d M cost st =
      if gs_emax (guards st) M <? cost then Err CostExceeded
      else
        do '(c, s') <- eval_pair d {| vals := v2 :: vs; envs := env :: es; ops := OCons :: rest; guards := guards st |} prog env;
        Ok (inl (cost + c, s')).
  Proof.
    intros Hv He Ho. unfold step. change (effective_max st M) with (gs_emax (guards st) M).
    destruct (_ <? cost); [reflexivity|]. rewrite Ho. unfold swap_eval_op, pop.
    cbn [vals envs ops guards]. rewrite Hv. cbn [bind vals envs ops guards]. rewrite He.
    reflexivity.
  Qed.

  Lemma step_cons cost st v1 v2 vs rest :
    vals st = v1 :: v2 :: vs -> ops st = OCons :: rest ->
    step d M cost st =
      if gs_emax (guards st) M <? cost then Err CostExceeded
      else Ok (inl (cost, {| vals := Cons v1 v2 :: vs; envs := envs st; ops := rest; guards := guards st |})).
  Proof.
    intros Hv Ho. unfold step. change (effective_max st M) with (gs_emax (guards st) M).
    destruct (_ <? cost); [reflexivity|]. rewrite Ho. unfold cons_op, pop.
    cbn [vals envs ops guards]. rewrite Hv. cbn [bind vals envs ops guards push]. rewrite N.add_0_r. reflexivity.
  Qed.

  Lemma step_restore cost st v vs rest :
    vals st = v :: vs -> ops st = ORestore :: rest ->
    step d M cost st =
      if gs_emax (guards st) M <? cost then Err CostExceeded
      else Ok (inl (cost, {| vals := v :: vs; envs := envs st; ops := rest; guards := guards st |})).
  Proof.
    intros Hv Ho. unfold step. change (effective_max st M) with (gs_emax (guards st) M).
    destruct (_ <? cost); [reflexivity|]. rewrite Ho. cbn [vals]. rewrite Hv. cbn [bind].
    rewrite N.add_0_r. reflexivity.
  Qed.

  Lemma chk_ok gs cost : chk gs M cost = Ok tt <-> (gs_emax gs M <? cost) = false.
  Proof. unfold chk. destruct (_ <? _); split; intros H; try reflexivity; discriminate. Qed.

  Lemma chk_cases gs cost : (chk gs M cost = Ok tt /\ (gs_emax gs M <? cost) = false) \/
                            (chk gs M cost = Err CostExceeded /\ (gs_emax gs M <? cost) = true).
  Proof. unfold chk. destruct (_ <? _); [right|left]; split; reflexivity. Qed.

  Lemma nsteps_one cost st m : step d M cost st = Ok (inl m) -> nsteps d M 1 (cost, st) m.
  Proof. intros H. cbn [nsteps fst snd]. exists m. split; [exact H|reflexivity]. Qed.

  Lemma nsteps_snoc k a b m : nsteps d M k a b -> step d M (fst b) (snd b) = Ok (inl m) ->
    nsteps d M (k + 1) a m.
  Proof.
    intros H1 H2. apply (nsteps_trans d M k 1 a b m H1). destruct b as [c s]. apply nsteps_one. exact H2.
  Qed.

  (* ---------------------------------------------------------------- eval => machine *)
  (* what the induction hypothesis says about the evaluator with less fuel *)
  Definition sound_ev (ev : list guard -> N -> sexp -> sexp -> res (N * sexp)) : Prop :=
    forall gs cost p e c' v, ev gs cost p e = Ok (c', v) ->
    forall s, guards s = gs ->
    exists c s1 k, eval_pair d s p e = Ok (c, s1) /\ nsteps d M k (cost + c, s1) (c', push v s).

  Section Sound.
    Variable ev : list guard -> N -> sexp -> sexp -> res (N * sexp).
    Hypothesis Hev : sound_ev ev.

    Lemma apply_sound cost operator args c' v :
      forall st vs e0 es rest,
      vals st = args :: operator :: vs -> envs st = e0 :: es -> ops st = OApply :: rest ->
      apply_big d M ev (guards st) cost operator args = Ok (c', v) ->
      exists k, nsteps d M k (cost, st)
                  (c', {| vals := v :: vs; envs := es; ops := rest; guards := guards st |}).
    Proof.
      intros st vs e0 es rest Hv He Ho H.
      pose proof (step_apply cost st args operator vs e0 es rest Hv He Ho) as Hs. cbn zeta in Hs.
      set (s3 := {| vals := vs; envs := es; ops := rest; guards := guards st |}) in *.
      unfold apply_big in H.
      destruct (chk_cases (guards st) cost) as [[Ec Eb]|[Ec Eb]]; rewrite Ec in H; cbn [bind] in H; [|discriminate].
      rewrite Eb in Hs.
      destruct (is_kw operator (d_apply d)).
      - destruct (get_args2 args) as [[no env]|]; cbn [bind] in H, Hs; [|discriminate].
        destruct (Hev _ _ _ _ _ _ H s3 eq_refl) as (c & s4 & k & EP & Hk).
        rewrite EP in Hs. cbn [bind] in Hs.
        exists (1 + k)%nat. apply (nsteps_trans d M 1 k _ (cost + (c + APPLY_COST), s4)).
        + apply nsteps_one. exact Hs.
        + replace (cost + (c + APPLY_COST)) with (cost + APPLY_COST + c) by lia. exact Hk.
      - destruct (is_kw operator (d_softfork d)).
        + unfold guard_big in H. unfold enter_guard in Hs.
          destruct (first args) as [fa|]; cbn [bind] in H, Hs; [|discriminate].
          destruct (uint_atom 8 _ fa) as [ec|]; cbn [bind] in H, Hs; [|discriminate].
          destruct (_ <? ec); [discriminate|]. destruct (ec =? 0); [discriminate|].
          destruct (parse_softfork_arguments d args) as [[[ext prg] env]|err].
          2:{ destruct (d_allow_unknown d); [|discriminate]. injection H as <- <-.
              cbn [bind] in Hs. exists 1%nat. apply nsteps_one. exact Hs. }
          cbn [guards s3] in Hs.
          destruct (_ && _)%bool; [discriminate|].
          cbn [vals envs ops guards s3] in Hs.
          match type of H with context [ev (?G :: _) _ prg env] => set (g := G) in * end.
          destruct (ev (g :: guards st) _ prg env) as [[c1 v0]|] eqn:Ev; cbn [bind] in H; [|discriminate].
          destruct (chk_cases (g :: guards st) c1) as [[Ec1 Eb1]|[Ec1 Eb1]]; rewrite Ec1 in H; cbn [bind] in H; [|discriminate].
          destruct (negb (cost_exempt g) && negb (c1 =? g_expected g))%bool eqn:Ex; [discriminate|].
          injection H as <- <-.
          set (s4 := {| vals := vs; envs := es; ops := OExitGuard :: rest; guards := g :: guards st |}) in *.
          destruct (Hev _ _ _ _ _ _ Ev s4 eq_refl) as (c & s5 & k & EP & Hk).
          rewrite EP in Hs. cbn [bind] in Hs.
          exists (1 + (k + 1))%nat. eapply (nsteps_trans d M 1 (k + 1)).
          * apply nsteps_one. exact Hs.
          * eapply nsteps_snoc.
            -- match goal with |- nsteps _ _ _ (?X, _) _ => replace X with (cost + (if f_new_cost_model (d_flags d) then NEW_GUARD_COST else GUARD_COST) + c) by lia end.
               exact Hk.
            -- cbn [fst snd].
               change (push v0 s4) with {| vals := v0 :: vs; envs := es; ops := OExitGuard :: rest; guards := g :: guards st |}.
               rewrite guard_exit_step. cbn [gs_emax] in Eb1. rewrite Eb1, Ex. reflexivity.
        + destruct (d_op d operator args _ _) as [[c v1]|]; cbn [bind] in H, Hs; [|discriminate].
          injection H as <- <-. exists 1%nat. apply nsteps_one. exact Hs.
    Qed.

    Lemma args_sound env : forall ol cost c1 tl s0 es, envs s0 = env :: es -> nil_terminated ol = Ok tt ->
      eval_args M ev (guards s0) cost ol env = Ok (c1, tl) ->
      exists s' k, push_operands ol s0 = Ok s' /\ nsteps d M k (cost, s') (c1, push tl s0).
    Proof.
      induction ol as [b|a _ r IH]; intros cost c1 tl s0 es He Hn H; cbn [eval_args push_operands nil_terminated] in *.
      - destruct b; [|discriminate]. injection H as <- <-. exists (push nil_s s0), O. split; reflexivity.
      - destruct (eval_args M ev (guards s0) cost r env) as [[c1' tl']|] eqn:Er; cbn [bind] in H; [|discriminate].
        destruct (chk_cases (guards s0) c1') as [[Ec Eb]|[Ec Eb]]; rewrite Ec in H; cbn [bind] in H; [|discriminate].
        destruct (ev (guards s0) c1' a env) as [[c2 v]|] eqn:Ea; cbn [bind] in H; [|discriminate].
        destruct (chk_cases (guards s0) c2) as [[Ec2 Eb2]|[Ec2 Eb2]]; rewrite Ec2 in H; cbn [bind] in H; [|discriminate].
        injection H as <- <-.
        set (s0' := push a (push_op OSwapEval s0)).
        destruct (IH cost c1' tl' s0' es He Hn Er) as (s' & k1 & Hp & Hk1).
        exists s'.
        (* the SwapEval step *)
        pose proof (step_swap c1' (push tl' s0') tl' a (vals s0) env es (ops s0) eq_refl He eq_refl) as Hs.
        cbn [guards push push_op s0'] in Hs. rewrite Eb in Hs.
        set (sc := {| vals := tl' :: vals s0; envs := env :: es; ops := OCons :: ops s0; guards := guards s0 |}) in *.
        destruct (Hev _ _ _ _ _ _ Ea sc eq_refl) as (c & s1 & k2 & EP & Hk2).
        rewrite EP in Hs. cbn [bind] in Hs.
        (* the Cons step *)
        pose proof (step_cons c2 (push v sc) v tl' (vals s0) (ops s0) eq_refl eq_refl) as Hc.
        cbn [guards push sc envs] in Hc. rewrite Eb2 in Hc.
        exists (k1 + (1 + (k2 + 1)))%nat. split; [exact Hp|].
        apply (nsteps_trans d M k1 _ _ _ _ Hk1).
        eapply (nsteps_trans d M 1 (k2 + 1)); [apply nsteps_one; exact Hs|].
        eapply nsteps_snoc; [exact Hk2|]. cbn [fst snd]. rewrite Hc.
        destruct s0 as [v0 e0 o0 g0]. cbn in He |- *. subst e0. reflexivity.
    Qed.

    Lemma body_sound : sound_ev (eval_body d M ev).
    Proof.
      intros gs cost p e c' v H s Hg. subst gs. unfold eval_body in H. unfold eval_pair.
      destruct p as [b|opn opl].
      - destruct (traverse_path b e) as [[c v0]|]; cbn [bind] in H |- *; [|discriminate].
        injection H as <- <-. exists c, (push v0 s), O. split; reflexivity.
      - destruct opn as [b|no tl].
        + unfold eval_op_atom. destruct (is_kw (Atom b) (d_quote d)).
          * injection H as <- <-. exists QUOTE_COST, (push opl s), O. split; reflexivity.
          * destruct (nil_terminated opl) as [[]|] eqn:En; cbn [bind] in H; [|discriminate].
            destruct (eval_args M ev (guards s) (cost + OP_COST) opl e) as [[c1 args]|] eqn:Ea; cbn [bind] in H; [|discriminate].
            destruct (apply_big d M ev (guards s) c1 (Atom b) args) as [[c2 v1]|] eqn:Eap; cbn [bind] in H; [|discriminate].
            set (s1 := if d_gc d (Atom b) then push_op ORestore s else s).
            assert (Hg1 : guards s1 = guards s) by (subst s1; destruct (d_gc d (Atom b)); reflexivity).
            set (s2 := push (Atom b) (push_op OApply (push_env e s1))).
            rewrite <- Hg1 in Ea.
            destruct (args_sound e opl (cost + OP_COST) c1 args s2 (envs s1) eq_refl En Ea) as (s3 & k1 & Hp & Hk1).
            rewrite Hp. cbn [bind].
            rewrite <- Hg1 in Eap.
            destruct (apply_sound c1 (Atom b) args c2 v1 (push args s2) (vals s1) e (envs s1) (ops s1) eq_refl eq_refl eq_refl Eap) as (k2 & Hk2).
            cbn [guards push push_op push_env s2] in Hk2.
            exists OP_COST, s3.
            destruct (d_gc d (Atom b)) eqn:Egc.
            -- destruct (chk_cases (guards s) c2) as [[Ec Eb]|[Ec Eb]]; rewrite Ec in H; cbn [bind] in H; [|discriminate].
               injection H as <- <-.
               exists (k1 + (k2 + 1))%nat. split; [reflexivity|].
               apply (nsteps_trans d M k1 _ _ _ _ Hk1). eapply nsteps_snoc; [exact Hk2|]. cbn [fst snd].
               pose proof (step_restore c2 {| vals := v1 :: vals s; envs := envs s; ops := ORestore :: ops s; guards := guards s |}
                             v1 (vals s) (ops s) eq_refl eq_refl) as Hr.
               cbn [guards envs] in Hr. rewrite Eb in Hr. exact Hr.
            -- injection H as <- <-. exists (k1 + k2)%nat. split; [reflexivity|].
               apply (nsteps_trans d M k1 _ _ _ _ Hk1). subst s1.
               destruct s; exact Hk2.
        + destruct tl as [tb|]; [destruct no as [nb|]|]; try discriminate.
          exists APPLY_COST, (push_op OApply (push opl (push (Atom nb) (push_env e s)))).
          destruct (apply_sound (cost + APPLY_COST) (Atom nb) opl c' v
                      (push_op OApply (push opl (push (Atom nb) (push_env e s)))) (vals s) e (envs s) (ops s)
                      eq_refl eq_refl eq_refl H) as (k & Hk).
          exists k. split; [reflexivity|]. destruct s; exact Hk.
    Qed.
  End Sound.

  Lemma eval_sound fuel : sound_ev (eval d M fuel).
  Proof.
    induction fuel as [|fuel IH]; [intros gs cost p e c' v H; discriminate|].
    cbn [eval]. apply body_sound. exact IH.
  Qed.

  (* ---------------------------------------------------------------- more fuel changes nothing *)
  Definition ev_le (ev ev' : list guard -> N -> sexp -> sexp -> res (N * sexp)) : Prop :=
    forall gs cost p e r, ev gs cost p e = Ok r -> ev' gs cost p e = Ok r.

  Section Mono.
    Variables ev ev' : list guard -> N -> sexp -> sexp -> res (N * sexp).
    Hypothesis Hle : ev_le ev ev'.

    Lemma eval_args_mono gs env : forall ol cost r,
      eval_args M ev gs cost ol env = Ok r -> eval_args M ev' gs cost ol env = Ok r.
    Proof.
      induction ol as [b|a _ r0 IH]; intros cost r H; cbn [eval_args] in *; [exact H|].
      destruct (eval_args M ev gs cost r0 env) as [[c1 tl]|] eqn:E; cbn [bind] in H; [|discriminate].
      rewrite (IH _ _ E). cbn [bind]. destruct (chk gs M c1); cbn [bind] in *; [|discriminate].
      destruct (ev gs c1 a env) as [[c2 v]|] eqn:Ea; cbn [bind] in H; [|discriminate].
      rewrite (Hle _ _ _ _ _ Ea). exact H.
    Qed.

    Lemma guard_big_mono gs cost args r :
      guard_big d M ev gs cost args = Ok r -> guard_big d M ev' gs cost args = Ok r.
    Proof.
      unfold guard_big. destruct (first args); cbn [bind]; [|discriminate].
      destruct (uint_atom 8 _ _); cbn [bind]; [|discriminate].
      destruct (_ <? _); [discriminate|]. destruct (_ =? 0); [discriminate|].
      destruct (parse_softfork_arguments d args) as [[[ext prg] env]|]; [|exact (fun x => x)].
      destruct (_ && _)%bool; [discriminate|].
      match goal with |- context [ev (?G :: gs) ?C prg env] =>
        destruct (ev (G :: gs) C prg env) as [[c1 v0]|] eqn:E; cbn [bind]; [|discriminate];
        rewrite (Hle _ _ _ _ _ E) end.
      exact (fun x => x).
    Qed.

    Lemma apply_big_mono gs cost operator args r :
      apply_big d M ev gs cost operator args = Ok r -> apply_big d M ev' gs cost operator args = Ok r.
    Proof.
      unfold apply_big. destruct (chk gs M cost); cbn [bind]; [|discriminate].
      destruct (is_kw operator (d_apply d)).
      - destruct (get_args2 args) as [[no env]|]; cbn [bind]; [|discriminate]. apply Hle.
      - destruct (is_kw operator (d_softfork d)); [apply guard_big_mono|exact (fun x => x)].
    Qed.

    Lemma eval_body_mono : ev_le (eval_body d M ev) (eval_body d M ev').
    Proof.
      intros gs cost p e r. unfold eval_body. destruct p as [b|opn opl]; [exact (fun x => x)|].
      destruct opn as [b|no tl].
      - destruct (is_kw _ _); [exact (fun x => x)|].
        destruct (nil_terminated opl); cbn [bind]; [|discriminate].
        destruct (eval_args M ev gs _ opl e) as [[c1 args]|] eqn:Ea; cbn [bind]; [|discriminate].
        rewrite (eval_args_mono _ _ _ _ _ Ea). cbn [bind].
        destruct (apply_big d M ev gs c1 (Atom b) args) as [[c2 v]|] eqn:Eap; cbn [bind]; [|discriminate].
        rewrite (apply_big_mono _ _ _ _ _ Eap). exact (fun x => x).
      - destruct tl; [destruct no|]; try exact (fun x => x). apply apply_big_mono.
    Qed.
  End Mono.

  Lemma eval_mono f : forall f', (f <= f')%nat -> ev_le (eval d M f) (eval d M f').
  Proof.
    induction f as [|f IH]; intros f' Hf gs cost p e r H; [discriminate|].
    destruct f' as [|f']; [lia|]. cbn [eval] in *.
    apply (eval_body_mono (eval d M f) (eval d M f')); [apply IH; lia|exact H].
  Qed.

  (* ---------------------------------------------------------------- machine => eval *)
  Definition complete_upto (N0 : nat) : Prop :=
    forall n, (n < N0)%nat -> forall s p e cost c s1 r,
    eval_pair d s p e = Ok (c, s1) -> run_loop d n M (cost + c) s1 = Ok r ->
    exists f c' v n', eval d M f (guards s) cost p e = Ok (c', v) /\ (n' <= n)%nat /\
                      run_loop d n' M c' (push v s) = Ok r.

  Section Complete.
    Variable N0 : nat.
    Hypothesis IH : complete_upto N0.

    Lemma apply_complete : forall n, (n <= N0)%nat ->
      forall st args operator vs e0 es rest cost r,
      vals st = args :: operator :: vs -> envs st = e0 :: es -> ops st = OApply :: rest ->
      run_loop d n M cost st = Ok r ->
      exists f c' v n', apply_big d M (eval d M f) (guards st) cost operator args = Ok (c', v) /\
        (n' < n)%nat /\
        run_loop d n' M c' {| vals := v :: vs; envs := es; ops := rest; guards := guards st |} = Ok r.
    Proof.
      intros n Hn st args operator vs e0 es rest cost r Hv He Ho H.
      destruct n as [|n1]; [discriminate|]. cbn [run_loop] in H.
      rewrite (step_apply cost st args operator vs e0 es rest Hv He Ho) in H. cbn zeta in H.
      set (s3 := {| vals := vs; envs := es; ops := rest; guards := guards st |}) in *.
      unfold apply_big.
      destruct (chk_cases (guards st) cost) as [[Ec Eb]|[Ec Eb]]; rewrite Eb in H; [|discriminate].
      rewrite Ec. cbn [bind].
      destruct (is_kw operator (d_apply d)).
      - destruct (get_args2 args) as [[no env]|]; cbn [bind] in H |- *; [|discriminate].
        destruct (eval_pair d s3 no env) as [[c s4]|] eqn:EP; cbn [bind] in H; [|discriminate].
        replace (cost + (c + APPLY_COST)) with (cost + APPLY_COST + c) in H by lia.
        destruct (IH n1 ltac:(lia) s3 no env (cost + APPLY_COST) c s4 r EP H) as (f & c' & v & n' & He1 & Hn' & Hr).
        exists f, c', v, n'. split; [exact He1|]. split; [lia|exact Hr].
      - destruct (is_kw operator (d_softfork d)).
        + unfold guard_big. unfold enter_guard in H.
          destruct (first args) as [fa|]; cbn [bind] in H |- *; [|discriminate].
          destruct (uint_atom 8 _ fa) as [ec|]; cbn [bind] in H |- *; [|discriminate].
          destruct (_ <? ec); [discriminate|]. destruct (ec =? 0); [discriminate|].
          destruct (parse_softfork_arguments d args) as [[[ext prg] env]|err].
          2:{ destruct (d_allow_unknown d); [|discriminate]. cbn [bind] in H.
              exists O, (cost + ec), nil_s, n1. split; [reflexivity|]. split; [lia|exact H]. }
          cbn [guards s3] in H.
          destruct (_ && _)%bool; [discriminate|].
          cbn [vals envs ops guards s3] in H.
          match goal with |- context [eval d M _ (?G :: _) _ prg env] => set (g := G) in * end.
          set (s4 := {| vals := vs; envs := es; ops := OExitGuard :: rest; guards := g :: guards st |}) in *.
          destruct (eval_pair d s4 prg env) as [[c s5]|] eqn:EP; cbn [bind] in H; [|discriminate].
          set (gcst := if f_new_cost_model (d_flags d) then NEW_GUARD_COST else GUARD_COST) in *.
          replace (cost + (c + gcst)) with (cost + gcst + c) in H by lia.
          destruct (IH n1 ltac:(lia) s4 prg env (cost + gcst) c s5 r EP H) as (f & c1 & v0 & n' & He1 & Hn' & Hr).
          destruct n' as [|n'']; [discriminate|]. cbn [run_loop] in Hr.
          change (push v0 s4) with {| vals := v0 :: vs; envs := es; ops := OExitGuard :: rest; guards := g :: guards st |} in Hr.
          rewrite guard_exit_step in Hr.
          destruct (g_expected g <? c1) eqn:Eb1; [discriminate|].
          destruct (negb (cost_exempt g) && negb (c1 =? g_expected g))%bool eqn:Ex; [discriminate|].
          cbn [bind] in Hr.
          exists f, c1, nil_s, n''. cbn [guards s4] in He1. rewrite He1. cbn [bind].
          unfold chk. cbn [gs_emax]. rewrite Eb1. cbn [bind]. rewrite Ex.
          split; [reflexivity|]. split; [lia|exact Hr].
        + destruct (d_op d operator args _ _) as [[c v1]|]; cbn [bind] in H |- *; [|discriminate].
          exists O, (cost + c), v1, n1. split; [reflexivity|]. split; [lia|exact H].
    Qed.

    Lemma args_complete env : forall ol n s0 s' cost es r, (n <= N0)%nat ->
      envs s0 = env :: es -> push_operands ol s0 = Ok s' -> run_loop d n M cost s' = Ok r ->
      exists f c1 tl n', eval_args M (eval d M f) (guards s0) cost ol env = Ok (c1, tl) /\
        nil_terminated ol = Ok tt /\ (n' <= n)%nat /\ run_loop d n' M c1 (push tl s0) = Ok r.
    Proof.
      induction ol as [b|a _ r0 IHol]; intros n s0 s' cost es r Hn He Hp H; cbn [push_operands eval_args nil_terminated] in *.
      - destruct b; [|discriminate]. injection Hp as <-.
        exists O, cost, nil_s, n. repeat split; [lia|exact H].
      - set (s0' := push a (push_op OSwapEval s0)) in *.
        destruct (IHol n s0' s' cost es r Hn He Hp H) as (f1 & c1' & tl' & n1 & Ea1 & Hnt & Hn1 & Hr1).
        destruct n1 as [|n1']; [discriminate|]. cbn [run_loop] in Hr1.
        rewrite (step_swap c1' (push tl' s0') tl' a (vals s0) env es (ops s0) eq_refl He eq_refl) in Hr1.
        cbn [guards push push_op s0'] in Hr1.
        destruct (chk_cases (guards s0) c1') as [[Ec Eb]|[Ec Eb]]; rewrite Eb in Hr1; [|discriminate].
        set (sc := {| vals := tl' :: vals s0; envs := env :: es; ops := OCons :: ops s0; guards := guards s0 |}) in *.
        destruct (eval_pair d sc a env) as [[c s1]|] eqn:EP; cbn [bind] in Hr1; [|discriminate].
        destruct (IH n1' ltac:(lia) sc a env c1' c s1 r EP Hr1) as (f2 & c2 & v & n2 & Ea2 & Hn2 & Hr2).
        destruct n2 as [|n2']; [discriminate|]. cbn [run_loop] in Hr2.
        rewrite (step_cons c2 (push v sc) v tl' (vals s0) (ops s0) eq_refl eq_refl) in Hr2.
        cbn [guards push sc envs] in Hr2.
        destruct (chk_cases (guards s0) c2) as [[Ec2 Eb2]|[Ec2 Eb2]]; rewrite Eb2 in Hr2; [|discriminate].
        cbn [bind] in Hr2.
        exists (Nat.max f1 f2), c2, (Cons v tl'), n2'.
        cbn [guards push push_op s0'] in Ea1.
        rewrite (eval_args_mono (eval d M f1) (eval d M (Nat.max f1 f2)) (eval_mono f1 (Nat.max f1 f2) ltac:(lia)) _ _ _ _ _ Ea1).
        cbn [bind]. rewrite Ec. cbn [bind]. cbn [guards sc] in Ea2.
        rewrite (eval_mono f2 (Nat.max f1 f2) ltac:(lia) _ _ _ _ _ Ea2). cbn [bind]. rewrite Ec2. cbn [bind].
        split; [reflexivity|]. split; [exact Hnt|]. split; [lia|].
        destruct s0 as [v0 e0 o0 g0]. cbn in He, Hr2 |- *. subst e0. exact Hr2.
    Qed.

    Lemma step_complete : forall s p e cost c s1 r,
      eval_pair d s p e = Ok (c, s1) -> run_loop d N0 M (cost + c) s1 = Ok r ->
      exists f c' v n', eval d M f (guards s) cost p e = Ok (c', v) /\ (n' <= N0)%nat /\
                        run_loop d n' M c' (push v s) = Ok r.
    Proof.
      intros s p e cost c s1 r EP H. unfold eval_pair in EP.
      destruct p as [b|opn opl].
      - destruct (traverse_path b e) as [[c0 v0]|] eqn:Et; cbn [bind] in EP; [|discriminate].
        injection EP as <- <-. exists 1%nat, (cost + c0), v0, N0. cbn [eval eval_body]. rewrite Et.
        split; [reflexivity|]. split; [lia|exact H].
      - destruct opn as [b|no tl].
        + unfold eval_op_atom in EP. destruct (is_kw (Atom b) (d_quote d)) eqn:Eq.
          * injection EP as <- <-. exists 1%nat, (cost + QUOTE_COST), opl, N0. cbn [eval eval_body]. rewrite Eq.
            split; [reflexivity|]. split; [lia|exact H].
          * set (s1' := if d_gc d (Atom b) then push_op ORestore s else s) in *.
            assert (Hg1 : guards s1' = guards s) by (subst s1'; destruct (d_gc d (Atom b)); reflexivity).
            set (s2 := push (Atom b) (push_op OApply (push_env e s1'))) in *.
            destruct (push_operands opl s2) as [s3|] eqn:Hp; cbn [bind] in EP; [|discriminate].
            injection EP as <- <-.
            destruct (args_complete e opl N0 s2 s3 (cost + OP_COST) (envs s1') r (le_n _) eq_refl Hp H)
              as (f1 & c1 & args & n1 & Ea & Hnt & Hn1 & Hr1).
            destruct (apply_complete n1 Hn1 (push args s2) args (Atom b) (vals s1') e (envs s1') (ops s1') c1 r
                        eq_refl eq_refl eq_refl Hr1) as (f2 & c2 & v & n2 & Eap & Hn2 & Hr2).
            cbn [guards push push_op push_env s2] in Ea, Eap, Hr2. rewrite Hg1 in Ea, Eap.
            assert (Hev : eval_body d M (eval d M (Nat.max f1 f2)) (guards s) cost (Cons (Atom b) opl) e =
                          (if d_gc d (Atom b) then do _ <- chk (guards s) M c2; Ok (c2, v) else Ok (c2, v))).
            { unfold eval_body. rewrite Eq, Hnt. cbn [bind].
              rewrite (eval_args_mono (eval d M f1) (eval d M (Nat.max f1 f2)) (eval_mono f1 (Nat.max f1 f2) ltac:(lia)) _ _ _ _ _ Ea).
              cbn [bind].
              rewrite (apply_big_mono (eval d M f2) (eval d M (Nat.max f1 f2)) (eval_mono f2 (Nat.max f1 f2) ltac:(lia)) _ _ _ _ _ Eap).
              reflexivity. }
            exists (S (Nat.max f1 f2)), c2, v. cbn [eval]. rewrite Hev. subst s1'.
            destruct (d_gc d (Atom b)).
            -- destruct n2 as [|n3]; [discriminate|]. cbn [run_loop] in Hr2.
               change {| vals := v :: vals (push_op ORestore s); envs := envs (push_op ORestore s);
                         ops := ops (push_op ORestore s); guards := guards (push_op ORestore s) |}
                 with {| vals := v :: vals s; envs := envs s; ops := ORestore :: ops s; guards := guards s |} in Hr2.
               rewrite (step_restore c2 {| vals := v :: vals s; envs := envs s; ops := ORestore :: ops s; guards := guards s |}
                          v (vals s) (ops s) eq_refl eq_refl) in Hr2.
               cbn [guards envs] in Hr2.
               destruct (chk_cases (guards s) c2) as [[Ec Eb]|[Ec Eb]]; rewrite Eb in Hr2; [|discriminate].
               cbn [bind] in Hr2. exists n3. rewrite Ec. split; [reflexivity|]. split; [lia|exact Hr2].
            -- exists n2. split; [reflexivity|]. split; [lia|]. destruct s; exact Hr2.
        + destruct tl as [tb|]; [destruct no as [nb|]|]; try discriminate.
          injection EP as <- <-.
          destruct (apply_complete N0 (le_n _) (push_op OApply (push opl (push (Atom nb) (push_env e s))))
                      opl (Atom nb) (vals s) e (envs s) (ops s) (cost + APPLY_COST) r eq_refl eq_refl eq_refl H)
            as (f & c' & v & n' & Eap & Hn' & Hr).
          exists (S f), c', v, n'. cbn [eval eval_body]. cbn [guards push push_op push_env] in Eap, Hr.
          split; [exact Eap|]. split; [lia|]. destruct s; exact Hr.
    Qed.
  End Complete.

  Lemma eval_complete : forall N0, complete_upto N0.
  Proof.
    induction N0 as [|N0 IH]; intros n Hn; [lia|].
    destruct (Nat.eq_dec n N0) as [->|Hne].
    - apply step_complete. exact IH.
    - apply IH. lia.
  Qed.

  (* ---------------------------------------------------------------- the two directions, closed *)
  Theorem eval_to_machine fuel gs cost p e c' v s : eval d M fuel gs cost p e = Ok (c', v) ->
    guards s = gs ->
    exists c s1 k, eval_pair d s p e = Ok (c, s1) /\ nsteps d M k (cost + c, s1) (c', push v s).
  Proof. intros H Hg. exact (eval_sound fuel gs cost p e c' v H s Hg). Qed.

  Theorem machine_to_eval n s p e cost c s1 r :
    eval_pair d s p e = Ok (c, s1) -> run_loop d n M (cost + c) s1 = Ok r ->
    exists f c' v n', eval d M f (guards s) cost p e = Ok (c', v) /\ (n' <= n)%nat /\
                      run_loop d n' M c' (push v s) = Ok r.
  Proof. apply (eval_complete (S n)). lia. Qed.

  Theorem run_big_equiv p e r :
    (exists fuel, (do '(c, s) <- eval_pair d init_state p e; run_loop d fuel M c s) = Ok r) <->
    (exists fuel, run_big d M fuel p e = Ok r).
  Proof.
    split.
    - intros (fuel & H).
      destruct (eval_pair d init_state p e) as [[c s]|] eqn:EP; cbn [bind] in H; [|discriminate].
      rewrite <- (N.add_0_l c) in H.
      destruct (machine_to_eval fuel init_state p e 0 c s r EP H) as (f & c' & v & n' & He & _ & Hr).
      exists f. unfold run_big. cbn [guards init_state] in He. rewrite He. cbn [bind].
      destruct n' as [|n'']; [discriminate|]. cbn [run_loop] in Hr. unfold step in Hr.
      cbn [push init_state ops vals envs guards effective_max] in Hr. unfold chk. cbn [gs_emax].
      destruct (M <? c'); [discriminate|]. cbn [bind pop vals] in Hr |- *. exact Hr.
    - intros (fuel & H). unfold run_big in H.
      destruct (eval d M fuel [] 0 p e) as [[c' v]|] eqn:He; cbn [bind] in H; [|discriminate].
      destruct (chk_cases [] c') as [[Ec Eb]|[Ec Eb]]; rewrite Ec in H; cbn [bind] in H; [|discriminate].
      injection H as <-.
      destruct (eval_to_machine fuel [] 0 p e c' v init_state He eq_refl) as (c & s1 & k & EP & Hk).
      exists (k + 1)%nat. rewrite EP. cbn [bind]. rewrite N.add_0_l in Hk.
      pose proof (nsteps_run_loop d M k _ _ 1%nat Hk) as E. cbn [fst snd] in E. rewrite E.
      cbn [run_loop]. unfold step. cbn [push init_state ops vals envs guards effective_max].
      cbn [gs_emax] in Eb. rewrite Eb. reflexivity.
  Qed.
End Equiv.

(* run_program and the big-step evaluator succeed on the same inputs with the same (cost, value) *)
Theorem run_program_big_equiv d p e max_cost r :
  (exists fuel, run_program d fuel p e max_cost = Ok r) <->
  (exists fuel, run_program_big d fuel p e max_cost = Ok r).
Proof. unfold run_program, run_program_big. apply run_big_equiv. Qed.
