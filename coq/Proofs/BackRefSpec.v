(* The abstract stack decoder of the back-reference format refines the recursive grammar
   [parse_br]: frame lemmas in the style of Proofs/DecoderGeneric.v, with the stack threaded. *)
From Clvm Require Import Model.BackRef Proofs.BytesLemmas Proofs.DecoderGeneric Proofs.ClassicProofs
  Proofs.BackRefBasics.
From Coq Require Import Lia ZifyBool ZifyN ZifyNat.
Open Scope N_scope.
Arguments N.add : simpl never.
Arguments N.sub : simpl never.
Arguments N.mul : simpl never.
Arguments N.eqb : simpl never.
Arguments N.ltb : simpl never.
Arguments N.leb : simpl never.

Lemma parse_br_shrinks : forall f bs stk v rest,
  parse_br f bs stk = Ok (v, rest) -> (length rest < length bs)%nat.
Proof.
  induction f as [|f IH]; intros bs stk v rest H; cbn in H; [discriminate|].
  destruct bs as [|b r]; [discriminate|].
  destruct (b =? 255).
  - destruct (parse_br f r stk) as [[l r1]|] eqn:E1; cbn in H; [|discriminate].
    destruct (parse_br f r1 (l :: stk)) as [[rt r2]|] eqn:E2; cbn in H; [|discriminate].
    injection H as <- <-. apply IH in E1. apply IH in E2. cbn. lia.
  - destruct (b =? 254).
    + destruct (parse_path r) as [[p r1]|] eqn:E1; cbn in H; [|discriminate].
      destruct (backref_lookup p stk) as [t|]; cbn in H; [|discriminate].
      injection H as <- <-. apply parse_path_shrinks in E1. cbn. lia.
    + apply read_atom_node_shrinks in H. cbn. lia.
Qed.

Lemma parse_br_fuel : forall f bs stk, (length bs < f)%nat -> parse_br f bs stk <> Err OutOfFuel.
Proof.
  induction f as [|f IH]; intros bs stk Hf; [lia|]. cbn.
  destruct bs as [|b r]; [discriminate|]. cbn in Hf.
  destruct (b =? 255).
  - destruct (parse_br f r stk) as [[l r1]|] eqn:E1; cbn.
    + pose proof (parse_br_shrinks _ _ _ _ _ E1) as Hs.
      destruct (parse_br f r1 (l :: stk)) as [[rt r2]|] eqn:E2; cbn; [discriminate|].
      intros Hc. injection Hc as ->. apply (IH r1 (l :: stk)); [lia|assumption].
    + intros Hc. injection Hc as ->. apply (IH r stk); [lia|assumption].
  - destruct (b =? 254).
    + destruct (parse_path r) as [[p r1]|e] eqn:E1; cbn.
      * destruct (backref_lookup p stk) as [t|e] eqn:E2; cbn; [discriminate|].
        apply backref_lookup_err in E2. subst. discriminate.
      * intros Hc. injection Hc as ->. apply (parse_path_err _ _ E1). left. reflexivity.
    + destruct (read_atom_node b r) as [[a r']|e] eqn:E; [discriminate|].
      intros Hc. injection Hc as ->. apply (read_atom_node_err _ _ _ E). left. reflexivity.
Qed.

Lemma parse_br_err_good : forall f bs stk e, parse_br f bs stk = Err e -> e <> OutOfFuel -> ~ bad_err e.
Proof.
  induction f as [|f IH]; intros bs stk e H Hne; cbn in H; [congruence|].
  destruct bs as [|b r].
  - injection H as <-. intros [Hc|[n Hc]]; discriminate.
  - destruct (b =? 255).
    + destruct (parse_br f r stk) as [[l r1]|] eqn:E1; cbn in H.
      * destruct (parse_br f r1 (l :: stk)) as [[rt r2]|] eqn:E2; cbn in H; [discriminate|].
        injection H as <-. eapply IH; eassumption.
      * injection H as <-. eapply IH; eassumption.
    + destruct (b =? 254).
      * destruct (parse_path r) as [[p r1]|e1] eqn:E1; cbn in H.
        -- destruct (backref_lookup p stk) as [t|e2] eqn:E2; cbn in H; [discriminate|].
           injection H as <-. apply backref_lookup_err in E2. subst. intros [Hc|[n Hc]]; discriminate.
        -- injection H as <-. eapply parse_path_err; eassumption.
      * eapply read_atom_node_err; eassumption.
Qed.

(* a successfully parsed item: the machine pushes exactly that item, in at most 2 * consumed steps,
   and adds a pair count that does not depend on the state *)
Lemma abs_loop_ok : forall f bs stk v rest, parse_br f bs stk = Ok (v, rest) ->
  exists n dc, (n <= 2 * (length bs - length rest))%nat /\ (1 <= n)%nat /\
    forall k ops c, abs_loop (n + k) (OpSExp :: ops) (stk, c) bs = abs_loop k ops (v :: stk, c + dc) rest.
Proof.
  induction f as [|f IH]; intros bs stk v rest H; cbn in H; [discriminate|].
  destruct bs as [|b r]; [discriminate|].
  destruct (b =? 255) eqn:Eb.
  - destruct (parse_br f r stk) as [[l r1]|] eqn:E1; cbn in H; [|discriminate].
    destruct (parse_br f r1 (l :: stk)) as [[rt r2]|] eqn:E2; cbn in H; [|discriminate].
    injection H as <- <-.
    pose proof (parse_br_shrinks _ _ _ _ _ E1) as S1. pose proof (parse_br_shrinks _ _ _ _ _ E2) as S2.
    destruct (IH _ _ _ _ E1) as (n1 & d1 & B1 & P1 & H1). destruct (IH _ _ _ _ E2) as (n2 & d2 & B2 & P2 & H2).
    exists (S (n1 + (n2 + 1))), (d1 + d2 + 2). split; [cbn [length]; lia|]. split; [lia|].
    intros k ops c. unfold abs_loop in *. cbn [Nat.add br_loop]. rewrite Eb.
    rewrite <- Nat.add_assoc. rewrite H1. rewrite <- Nat.add_assoc. rewrite H2.
    cbn [Nat.add br_loop abs_on_cons]. replace (c + d1 + d2 + 2) with (c + (d1 + d2 + 2)) by lia. reflexivity.
  - destruct (b =? 254) eqn:Eb2.
    + destruct (parse_path r) as [[p r1]|] eqn:E1; cbn in H; [|discriminate].
      destruct (backref_lookup p stk) as [t|] eqn:E2; cbn in H; [|discriminate].
      injection H as <- <-. pose proof (parse_path_shrinks _ _ _ E1) as S1.
      exists 1%nat, 1. split; [cbn [length]; lia|]. split; [lia|].
      intros k ops c. unfold abs_loop. cbn [Nat.add br_loop]. rewrite Eb, Eb2.
      unfold abs_on_backref. rewrite E1. cbn [bind]. rewrite E2. cbn [bind]. reflexivity.
    + pose proof (read_atom_node_shrinks _ _ _ _ H) as S1.
      exists 1%nat, 1. split; [cbn [length]; lia|]. split; [lia|].
      intros k ops c. unfold abs_loop. cbn [Nat.add br_loop]. rewrite Eb, Eb2.
      unfold abs_on_atom. rewrite H. cbn [bind]. reflexivity.
Qed.

Lemma abs_loop_err : forall f bs stk e, parse_br f bs stk = Err e -> e <> OutOfFuel ->
  exists n stk' dc, (n <= 2 * length bs + 1)%nat /\ (1 <= n)%nat /\
    forall k ops c, abs_loop (n + k) (OpSExp :: ops) (stk, c) bs = ((stk', c + dc), Err e).
Proof.
  induction f as [|f IH]; intros bs stk e H Hne; cbn in H; [congruence|].
  destruct bs as [|b r].
  - injection H as <-. exists 1%nat, stk, 0. split; [cbn; lia|]. split; [lia|].
    intros. unfold abs_loop. cbn. replace (c + 0) with c by lia. reflexivity.
  - destruct (b =? 255) eqn:Eb.
    + destruct (parse_br f r stk) as [[l r1]|] eqn:E1; cbn in H.
      * destruct (parse_br f r1 (l :: stk)) as [[rt r2]|] eqn:E2; cbn in H; [discriminate|].
        injection H as <-.
        pose proof (parse_br_shrinks _ _ _ _ _ E1) as S1.
        destruct (abs_loop_ok _ _ _ _ _ E1) as (n1 & d1 & B1 & P1 & H1).
        destruct (IH _ _ _ E2 Hne) as (n2 & stk' & d2 & B2 & P2 & H2).
        exists (S (n1 + n2)), stk', (d1 + d2). split; [cbn [length]; lia|]. split; [lia|].
        intros k ops c. unfold abs_loop in *. cbn [Nat.add br_loop]. rewrite Eb.
        rewrite <- Nat.add_assoc. rewrite H1. rewrite H2.
        replace (c + d1 + d2) with (c + (d1 + d2)) by lia. reflexivity.
      * injection H as <-. destruct (IH _ _ _ E1 Hne) as (n1 & stk' & d1 & B1 & P1 & H1).
        exists (S n1), stk', d1. split; [cbn [length]; lia|]. split; [lia|].
        intros k ops c. unfold abs_loop in *. cbn [Nat.add br_loop]. rewrite Eb. apply H1.
    + destruct (b =? 254) eqn:Eb2.
      * exists 1%nat, stk, 0. split; [cbn [length]; lia|]. split; [lia|].
        intros k ops c. unfold abs_loop. cbn [Nat.add br_loop]. rewrite Eb, Eb2.
        unfold abs_on_backref. replace (c + 0) with c by lia.
        destruct (parse_path r) as [[p r1]|e1] eqn:E1; cbn in H |- *.
        -- destruct (backref_lookup p stk) as [t|e2] eqn:E2; cbn in H |- *; [discriminate|].
           injection H as <-. reflexivity.
        -- injection H as <-. reflexivity.
      * exists 1%nat, stk, 0. split; [cbn [length]; lia|]. split; [lia|].
        intros k ops c. unfold abs_loop. cbn [Nat.add br_loop]. rewrite Eb, Eb2.
        unfold abs_on_atom. rewrite H. cbn [bind]. replace (c + 0) with c by lia. reflexivity.
Qed.

(* the abstract decoder, started on a whole input, is the recursive grammar *)
Theorem de_br_abs_spec : forall bs, snd (de_br_abs bs) = de_br_spec bs.
Proof.
  intros bs. unfold de_br_abs, de_br_spec, de_fuel.
  destruct (parse_br (S (length bs)) bs []) as [[v rest]|e] eqn:E.
  - destruct (abs_loop_ok _ _ _ _ _ E) as (n & dc & B & P & Hn).
    replace (2 * length bs + 2)%nat with (n + (2 * length bs + 2 - n))%nat by lia.
    rewrite Hn. destruct (2 * length bs + 2 - n)%nat eqn:Ek; [lia|]. reflexivity.
  - assert (Hne : e <> OutOfFuel).
    { intros ->. apply (parse_br_fuel (S (length bs)) bs []); [lia|assumption]. }
    destruct (abs_loop_err _ _ _ _ E Hne) as (n & stk' & dc & B & P & Hn).
    replace (2 * length bs + 2)%nat with (n + (2 * length bs + 2 - n))%nat by lia.
    rewrite Hn. reflexivity.
Qed.

(* the grammar itself never panics and its fuel (the input length) suffices *)
Theorem de_br_spec_total : forall bs e, de_br_spec bs = Err e -> ~ bad_err e.
Proof.
  intros bs e H. unfold de_br_spec in H. apply (parse_br_err_good _ _ _ _ H).
  intros ->. apply (parse_br_fuel (S (length bs)) bs []); [lia|assumption].
Qed.
