(* C04 (interpreter part): the RestoreAllocator operations that a GC-enabled dialect schedules
   are stuttering steps of the machine. A dialect [d] and the same dialect with [d_gc] switched
   off run through the same states up to the Restore operations on the op stack, so they return
   the same result, cost and error; only the number of loop iterations differs. *)
From Coq Require Import Lia ZifyBool ZifyN ZifyNat.
From Clvm Require Import Model.Machine Proofs.MachineBasics Proofs.MachineTotal.
Open Scope N_scope.

Definition no_gc (d : dialect) : dialect :=
  {| d_flags := d_flags d; d_quote := d_quote d; d_apply := d_apply d; d_softfork := d_softfork d;
     d_ext := d_ext d; d_allow_unknown := d_allow_unknown d; d_gc := fun _ => false; d_op := d_op d |}.

Definition is_restore (o : operation) : bool := match o with ORestore => true | _ => false end.
Definition erase_ops (o : list operation) : list operation := filter (fun x => negb (is_restore x)) o.
Definition erase (s : mstate) : mstate :=
  {| vals := vals s; envs := envs s; ops := erase_ops (ops s); guards := guards s |}.

Definition lift_e {A} (r : res (A * mstate)) : res (A * mstate) :=
  match r with Ok (a, s) => Ok (a, erase s) | Err e => Err e end.

Lemma erase_push v s : erase (push v s) = push v (erase s). Proof. reflexivity. Qed.
Lemma erase_push_env v s : erase (push_env v s) = push_env v (erase s). Proof. reflexivity. Qed.
Lemma erase_push_op o s : is_restore o = false -> erase (push_op o s) = push_op o (erase s).
Proof. intros H. unfold erase, push_op; cbn. unfold erase_ops; cbn. rewrite H. reflexivity. Qed.
Lemma erase_push_restore s : erase (push_op ORestore s) = erase s.
Proof. reflexivity. Qed.

Lemma pop_erase s : pop (erase s) = lift_e (pop s).
Proof. unfold pop, erase; cbn. destruct (vals s); reflexivity. Qed.

Lemma push_operands_erase opl : forall s,
  push_operands opl (erase s) = res_map erase (push_operands opl s).
Proof.
  induction opl as [b|a _ r IH]; intros s; cbn [push_operands].
  - destruct b; reflexivity.
  - rewrite <- erase_push_op by reflexivity. rewrite <- erase_push. apply IH.
Qed.

Section GC.
  Variable d : dialect.

  Lemma eval_pair_erase s p e : eval_pair (no_gc d) (erase s) p e = lift_e (eval_pair d s p e).
  Proof.
    unfold eval_pair. destruct p as [b|opn opl].
    - destruct (traverse_path b e) as [[c v]|]; reflexivity.
    - destruct opn as [b|no tl].
      + unfold eval_op_atom. cbn [d_quote no_gc d_gc]. destruct (is_kw _ _); [reflexivity|].
        destruct (d_gc d (Atom b)).
        * rewrite <- (erase_push_restore s) at 1.
          rewrite <- erase_push_env, <- erase_push_op by reflexivity. rewrite <- erase_push.
          rewrite push_operands_erase. destruct (push_operands opl _); reflexivity.
        * rewrite <- erase_push_env, <- erase_push_op by reflexivity. rewrite <- erase_push.
          rewrite push_operands_erase. destruct (push_operands opl _); reflexivity.
      + destruct tl; [destruct no|]; reflexivity.
  Qed.

  Lemma parse_no_gc ol : parse_softfork_arguments (no_gc d) ol = parse_softfork_arguments d ol.
  Proof. reflexivity. Qed.

  (* a step whose top operation is not a Restore is the same step of the GC-free dialect on the
     erased state *)
  Lemma step_erase M cost s o r0 : ops s = o :: r0 -> is_restore o = false ->
    step (no_gc d) M cost (erase s) =
    match step d M cost s with
    | Ok (inl (c, s')) => Ok (inl (c, erase s'))
    | Ok (inr (c, s')) => Ok (inr (c, erase s'))
    | Err e => Err e
    end.
  Proof.
    intros Eo Ho. unfold step. change (effective_max (erase s) M) with (effective_max s M).
    destruct (_ <? _); [reflexivity|].
    cbn [ops erase]. rewrite Eo. unfold erase_ops. cbn [filter]. rewrite Ho. cbn [negb].
    fold (erase_ops r0).
    set (s0 := {| vals := vals s; envs := envs s; ops := r0; guards := guards s |}).
    change {| vals := vals (erase s); envs := envs (erase s); ops := erase_ops r0; guards := guards (erase s) |} with (erase s0).
    destruct o; try discriminate.
    - (* apply *)
      unfold apply_op. rewrite pop_erase. destruct (pop s0) as [[ol sa]|]; cbn [lift_e bind]; [|reflexivity].
      rewrite pop_erase. destruct (pop sa) as [[opr sb]|]; cbn [lift_e bind]; [|reflexivity].
      cbn [envs erase]. destruct (envs sb) as [|e0 envs']; [reflexivity|].
      set (s3 := {| vals := vals sb; envs := envs'; ops := ops sb; guards := guards sb |}).
      change {| vals := vals (erase sb); envs := envs'; ops := ops (erase sb); guards := guards (erase sb) |} with (erase s3).
      cbn [d_apply d_softfork no_gc].
      destruct (is_kw opr (d_apply d)).
      + destruct (get_args2 ol) as [[no env]|]; cbn [bind]; [|reflexivity].
        rewrite eval_pair_erase. destruct (eval_pair d s3 no env) as [[c s4]|]; reflexivity.
      + destruct (is_kw opr (d_softfork d)).
        * unfold enter_guard. cbn [d_flags no_gc d_allow_unknown].
          destruct (first ol); cbn [bind]; [|reflexivity].
          destruct (uint_atom 8 _ _) as [ec|]; cbn [bind]; [|reflexivity].
          destruct (_ <? _); [reflexivity|]. destruct (_ =? 0); [reflexivity|].
          rewrite parse_no_gc. destruct (parse_softfork_arguments d ol) as [[[ext prg] env]|].
          2:{ destruct (d_allow_unknown d); reflexivity. }
          cbn [guards erase]. destruct (_ && _)%bool; [reflexivity|].
          match goal with |- context [eval_pair (no_gc d) ?S prg env] =>
            change S with (erase {| vals := vals s3; envs := envs s3; ops := OExitGuard :: ops s3;
                                    guards := {| g_expected := match ext with OsPreHardFork => match guards s3 with g :: _ => g_expected g | [] => cost + (effective_max s M - cost) end | _ => cost + ec end; g_opset := ext |} :: guards s3 |}) end.
          rewrite eval_pair_erase.
          match goal with |- context [eval_pair d ?S prg env] => destruct (eval_pair d S prg env) as [[c s5]|] end; reflexivity.
        * cbn [d_op no_gc]. change (current_extensions (erase s3)) with (current_extensions s3).
          destruct (d_op d opr ol _ _) as [[c v]|]; reflexivity.
    - (* cons *)
      unfold cons_op. rewrite pop_erase. destruct (pop s0) as [[v1 sa]|]; cbn [lift_e bind]; [|reflexivity].
      rewrite pop_erase. destruct (pop sa) as [[v2 sb]|]; reflexivity.
    - (* exit guard *)
      unfold exit_guard. cbn [guards vals erase]. destruct (guards s0); [reflexivity|].
      destruct (_ && _)%bool; [reflexivity|]. destruct (vals s0); reflexivity.
    - (* swap eval *)
      unfold swap_eval_op. rewrite pop_erase. destruct (pop s0) as [[v2 sa]|]; cbn [lift_e bind]; [|reflexivity].
      rewrite pop_erase. destruct (pop sa) as [[prog sb]|]; cbn [lift_e bind]; [|reflexivity].
      cbn [envs erase]. destruct (envs sb); [reflexivity|].
      rewrite <- erase_push, <- erase_push_op by reflexivity. rewrite eval_pair_erase.
      destruct (eval_pair d _ prog s1) as [[c s5]|]; reflexivity.
  Qed.

  Hypothesis Hop : forall b a m ext e, d_op d (Atom b) a m ext = Err e -> machine_bug e = false.

  Lemma erase_stack_ok_vals s r0 : stack_ok s -> ops s = ORestore :: r0 -> exists v vs, vals s = v :: vs.
  Proof.
    unfold stack_ok, oks. intros H E. rewrite E in H. cbn [ok_stacks] in H.
    destruct (vals s) as [|v vs]; [discriminate|]. exists v, vs. reflexivity.
  Qed.

  Lemma step_restore M cost s r0 : stack_ok s -> ops s = ORestore :: r0 ->
    step d M cost s =
    if effective_max s M <? cost then Err CostExceeded
    else Ok (inl (cost, {| vals := vals s; envs := envs s; ops := r0; guards := guards s |})).
  Proof.
    intros Hs E. destruct (erase_stack_ok_vals s r0 Hs E) as (v & vs & Ev).
    unfold step. destruct (_ <? _); [reflexivity|]. rewrite E. cbn [vals]. rewrite Ev. cbn [bind].
    rewrite N.add_0_r. reflexivity.
  Qed.

  Lemma run_loop_S (dd : dialect) f M cost s :
    run_loop dd (S f) M cost s =
    (do r <- step dd M cost s;
     match r with
     | inl (cost', s') => run_loop dd f M cost' s'
     | inr (cost', s') => do '(v, _) <- pop s'; Ok (cost', v)
     end).
  Proof. reflexivity. Qed.

  Lemma run_loop_fuel_mono (dd : dialect) fuel : forall M cost s r,
    run_loop dd fuel M cost s = r -> r <> Err OutOfFuel -> run_loop dd (S fuel) M cost s = r.
  Proof.
    induction fuel as [|fuel IH]; intros M cost s r H Hr; [cbn in H; congruence|].
    rewrite run_loop_S in H. rewrite run_loop_S.
    destruct (step dd M cost s) as [[[c s']|[c s']]|e]; cbn [bind] in *; try exact H.
    apply IH; assumption.
  Qed.

  Lemma stack_ok_next M cost s c s' : stack_ok s -> step d M cost s = Ok (inl (c, s')) -> stack_ok s'.
  Proof. intros Hs E. pose proof (step_total d Hop M cost s Hs) as T. rewrite E in T. exact T. Qed.

  (* with Restore operations -> without *)
  Lemma run_loop_gc_to_nogc fuel : forall M cost s r, stack_ok s ->
    run_loop d fuel M cost s = r -> r <> Err OutOfFuel ->
    run_loop (no_gc d) fuel M cost (erase s) = r.
  Proof.
    induction fuel as [|fuel IH]; intros M cost s r Hs H Hr; [cbn in H; congruence|].
    destruct (ops s) as [|o r0] eqn:Eo.
    - (* the loop ends here in both *)
      cbn [run_loop] in *. unfold step in *. change (effective_max (erase s) M) with (effective_max s M).
      destruct (_ <? _); [exact H|]. cbn [ops erase]. rewrite Eo in *. cbn [erase_ops filter bind] in *.
      rewrite pop_erase. destruct (pop s) as [[v s0]|]; exact H.
    - destruct (is_restore o) eqn:Ro.
      + destruct o; try discriminate.
        cbn [run_loop] in H. rewrite (step_restore M cost s r0 Hs Eo) in H.
        destruct (effective_max s M <? cost) eqn:Ec; cbn [bind] in H.
        * subst r. cbn [run_loop]. unfold step. change (effective_max (erase s) M) with (effective_max s M).
          rewrite Ec. reflexivity.
        * set (s' := {| vals := vals s; envs := envs s; ops := r0; guards := guards s |}) in *.
          assert (Hs' : stack_ok s').
          { apply (stack_ok_next M cost s cost s' Hs). rewrite (step_restore M cost s r0 Hs Eo), Ec. reflexivity. }
          assert (Ee : erase s = erase s').
          { unfold erase; cbn. rewrite Eo. reflexivity. }
          rewrite Ee. apply run_loop_fuel_mono; [|exact Hr]. apply IH; assumption.
      + cbn [run_loop] in *. rewrite (step_erase M cost s o r0 Eo Ro).
        destruct (step d M cost s) as [[[c s']|[c s']]|e] eqn:Es; cbn [bind] in *.
        * apply IH; [|exact H|exact Hr]. eapply stack_ok_next; eassumption.
        * rewrite pop_erase. destruct (pop s') as [[v s0]|]; exact H.
        * exact H.
  Qed.

  (* without -> with: the GC run needs more loop iterations *)
  Lemma run_loop_nogc_to_gc fuel : forall M cost s r, stack_ok s ->
    run_loop (no_gc d) fuel M cost (erase s) = r -> r <> Err OutOfFuel ->
    exists fuel', run_loop d fuel' M cost s = r.
  Proof.
    induction fuel as [|fuel IH]; intros M cost s r Hs H Hr; [cbn in H; congruence|].
    remember (ops s) as l eqn:El. revert s Hs H El.
    induction l as [|o r0 IHl]; intros s Hs H El; symmetry in El.
    - exists 1%nat. cbn [run_loop] in *. unfold step in *. change (effective_max (erase s) M) with (effective_max s M) in H.
      destruct (_ <? _); [exact H|]. cbn [ops erase] in H. rewrite El in *. cbn [erase_ops filter bind] in *.
      rewrite pop_erase in H. destruct (pop s) as [[v s0]|]; exact H.
    - destruct (is_restore o) eqn:Ro.
      + destruct o; try discriminate.
        destruct (effective_max s M <? cost) eqn:Ec.
        * exists 1%nat. cbn [run_loop]. rewrite (step_restore M cost s r0 Hs El), Ec. cbn [bind].
          cbn [run_loop] in H. unfold step in H. change (effective_max (erase s) M) with (effective_max s M) in H.
          rewrite Ec in H. exact H.
        * set (s' := {| vals := vals s; envs := envs s; ops := r0; guards := guards s |}).
          assert (Hs' : stack_ok s').
          { apply (stack_ok_next M cost s cost s' Hs). rewrite (step_restore M cost s r0 Hs El), Ec. reflexivity. }
          assert (Ee : erase s = erase s') by (unfold erase; cbn; rewrite El; reflexivity).
          rewrite Ee in H. destruct (IHl s' Hs' H eq_refl) as [f' Hf'].
          exists (S f'). cbn [run_loop]. rewrite (step_restore M cost s r0 Hs El), Ec. cbn [bind]. exact Hf'.
      + cbn [run_loop] in H. rewrite (step_erase M cost s o r0 El Ro) in H.
        destruct (step d M cost s) as [[[c s']|[c s']]|e] eqn:Es; cbn [bind] in H.
        * destruct (IH M c s' r (stack_ok_next M cost s c s' Hs Es) H Hr) as [f' Hf'].
          exists (S f'). cbn [run_loop]. rewrite Es. cbn [bind]. exact Hf'.
        * exists 1%nat. cbn [run_loop]. rewrite Es. cbn [bind]. rewrite pop_erase in H. destruct (pop s') as [[v s0]|]; exact H.
        * exists 1%nat. cbn [run_loop]. rewrite Es. exact H.
  Qed.

  Lemma eval_pair_stack_ok p e c s : eval_pair d init_state p e = Ok (c, s) -> stack_ok s.
  Proof. intros H. unfold stack_ok. rewrite (eval_pair_oks _ _ _ _ _ _ H). reflexivity. Qed.

  Theorem gc_to_nogc fuel p e M r :
    run_program d fuel p e M = r -> r <> Err OutOfFuel -> run_program (no_gc d) fuel p e M = r.
  Proof.
    unfold run_program. change init_state with (erase init_state) at 2. rewrite eval_pair_erase.
    destruct (eval_pair d init_state p e) as [[c s]|err] eqn:E; cbn [lift_e bind]; [|exact (fun H _ => H)].
    apply run_loop_gc_to_nogc. eapply eval_pair_stack_ok; exact E.
  Qed.

  Theorem nogc_to_gc fuel p e M r :
    run_program (no_gc d) fuel p e M = r -> r <> Err OutOfFuel -> exists fuel', run_program d fuel' p e M = r.
  Proof.
    unfold run_program. change init_state with (erase init_state) at 1. rewrite eval_pair_erase.
    destruct (eval_pair d init_state p e) as [[c s]|err] eqn:E; cbn [lift_e bind].
    - apply run_loop_nogc_to_gc. eapply eval_pair_stack_ok; exact E.
    - intros H _. exists O. exact H.
  Qed.
End GC.
