(* The precomputed small-atom hashes of src/more_ops.rs, as re-read by the translator on this
   run, are sha256(1 || canonical bytes of i): decided by evaluation over the whole table. *)
From Clvm Require Import Model.TreeHashOp Model.Sha256 Model.Classic Gen.Tables Proofs.TreeHashProofs.
From Coq Require Import Lia.
Local Open Scope N_scope.

Definition entry_ok (i : nat) (h : bytes) : bool :=
  bytes_eqb h (sha256 (1 :: small_bytes (N.of_nat i))).

Fixpoint table_check (i : nat) (l : list bytes) : bool :=
  match l with [] => true | h :: r => entry_ok i h && table_check (S i) r end.

Lemma table_sweep : table_check 0 src_precomputed_hashes = true.
Proof. vm_compute. reflexivity. Qed.

Lemma table_check_nth : forall l i0 j h, table_check i0 l = true -> nth_error l j = Some h ->
  h = sha256 (1 :: small_bytes (N.of_nat (i0 + j))).
Proof.
  induction l as [|x l IH]; intros i0 j h Hc Hj; [destruct j; discriminate|].
  cbn in Hc. apply andb_prop in Hc. destruct Hc as [H1 H2].
  destruct j as [|j]; cbn in Hj.
  - inversion Hj; subst. rewrite Nat.add_0_r. unfold entry_ok in H1.
    now apply BytesLemmas.bytes_eqb_eq in H1.
  - replace (i0 + S j)%nat with (S i0 + j)%nat by lia. now apply IH.
Qed.

Lemma get_n_nth {A} (l : list A) i h : get_n l i = Some h -> nth_error l (N.to_nat i) = Some h.
Proof. unfold get_n. destruct (i <? N.of_nat (length l)); [auto|discriminate]. Qed.

Theorem precomputed_table_ok : table_ok sha256 src_precomputed_hashes.
Proof.
  intros i h Hg. apply get_n_nth in Hg.
  pose proof (table_check_nth _ 0%nat _ _ table_sweep Hg) as Hx.
  rewrite Nat.add_0_l, Nnat.N2Nat.id in Hx. exact Hx.
Qed.

Lemma table_length : length src_precomputed_hashes = 37%nat.
Proof. reflexivity. Qed.
