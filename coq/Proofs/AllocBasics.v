(* Basic facts about the allocator model: initial counts, the F2 witnesses. *)
From Clvm Require Import Model.AllocHist.
From Coq Require Import Lia ZifyBool ZifyN ZifyNat.
Open Scope N_scope.
Arguments N.add : simpl never.
Arguments N.sub : simpl never.
Arguments N.mul : simpl never.
Arguments N.eqb : simpl never.
Arguments N.ltb : simpl never.
Arguments N.leb : simpl never.

Definition a_final (fx : bool) (limit : N) (h : list op) : option ast :=
  match a_init limit with Ok st => Some (fst (a_run fx st h)) | Err _ => None end.
Definition r_final (limit : N) (h : list op) : rst := fst (r_run (r_init limit) h).

Definition a_counts (st : ast) : N * N * N := counts (a_al st).
Definition rs_counts (st : rst) : N * N * N := r_counts (r_st st).

Lemma init_counts limit a : new_limited limit = Ok a -> counts a = (2, 0, 1).
Proof.
  unfold new_limited. destruct (U32_MAX <? limit); [discriminate|].
  intros H. inversion H; subst. reflexivity.
Qed.

(* finding F2 on the code as it is: new_small_number(0x80); new_substr(it, 1, 2) -> the slice [0x80]
   is not a canonical small integer, it is copied to the heap: heap_size 4 although the reference
   (substrings share their parent's bytes) says 3 *)
Definition f2_history : list op := [ONewSmall 0x80; ONewSubstr 0 1 2].

Lemma f2_counts_differ :
  option_map a_counts (a_final false 1000 f2_history) = Some (4, 0, 4) /\
  rs_counts (r_final 1000 f2_history) = (4, 0, 3) /\
  option_map a_f2 (a_final false 1000 f2_history) = Some true.
Proof. vm_compute. repeat split. Qed.

(* ... and with heap limit 3 the heap size exceeds the limit *)
Lemma f2_limit_exceeded :
  option_map a_counts (a_final false 3 f2_history) = Some (4, 0, 4).
Proof. vm_compute. reflexivity. Qed.
