(* Running a curried program = running the module on the environment with the curried arguments
   prepended, at a cost that is larger by a closed-form constant (C28, last clause).

   Two parts, both on the big-step evaluator of Model/BigStep.v (equivalent to run_program for
   every outcome but fuel exhaustion: Proofs/BigStepErrors.v):

   1. [eval_shift]: the evaluator is invariant under a shift of the cost counter: starting K
      later, with the budget and the expected costs of all open guards K larger, gives the same
      outcome with the cost K larger (every budget check compares the same difference, every
      operator sees the same remaining budget). For every dialect.

   2. [fixed_eval], [curry_run_big]: in a dialect whose quote / apply keywords are 1 / 2 and whose
      operator 4 is cons at CONS_COST, `(a (q . m) (c (q . a1) (c (q . a2) ... 1)))` on e spends
      curry_cost n = OP_COST + QUOTE_COST + APPLY_COST + 44 + n * (OP_COST + QUOTE_COST + CONS_COST)
      (44 = the path lookup of `1`) and then evaluates m on (a1 a2 ... an . e). *)
From Coq Require Import Lia ZifyBool ZifyN ZifyNat List.
From Clvm Require Import Model.Machine Model.Dialect Model.BigStep Model.PyCodec
  Proofs.MachineBasics Proofs.BigStepEquiv Proofs.BigStepErrors Proofs.PyCodecProofs.
Import ListNotations.
Open Scope N_scope.

Definition shift_g (K : N) (g : guard) : guard :=
  {| g_expected := g_expected g + K; g_opset := g_opset g |}.
Definition shift_gs (K : N) (gs : list guard) : list guard := map (shift_g K) gs.
Definition shift_res (K : N) (r : res (N * sexp)) : res (N * sexp) :=
  match r with Ok (c, v) => Ok (c + K, v) | Err e => Err e end.

Section Shift.
  Variable d : dialect.
  Variable M K : N.

  Lemma gs_emax_shift gs : gs_emax (shift_gs K gs) (M + K) = gs_emax gs M + K.
  Proof. destruct gs; reflexivity. Qed.

  Lemma gs_ext_shift gs : gs_ext (shift_gs K gs) = gs_ext gs.
  Proof. destruct gs; reflexivity. Qed.

  Lemma chk_shift gs c : chk (shift_gs K gs) (M + K) (c + K) = chk gs M c.
  Proof.
    unfold chk. rewrite gs_emax_shift.
    assert (E : (gs_emax gs M + K <? c + K) = (gs_emax gs M <? c)) by lia. rewrite E. reflexivity.
  Qed.

  Section Rec.
    Variables ev ev' : list guard -> N -> sexp -> sexp -> res (N * sexp).
    Hypothesis Hev : forall gs cost p e,
      ev' (shift_gs K gs) (cost + K) p e = shift_res K (ev gs cost p e).

    Lemma args_shift gs env : forall ol cost,
      eval_args (M + K) ev' (shift_gs K gs) (cost + K) ol env = shift_res K (eval_args M ev gs cost ol env).
    Proof.
      induction ol as [b|a _ r IH]; intros cost; cbn [eval_args]; [reflexivity|].
      rewrite IH. destruct (eval_args M ev gs cost r env) as [[c1 tl]|]; cbn [bind shift_res]; [|reflexivity].
      rewrite chk_shift. destruct (chk gs M c1); cbn [bind shift_res]; [|reflexivity].
      rewrite Hev. destruct (ev gs c1 a env) as [[c2 v]|]; cbn [bind shift_res]; [|reflexivity].
      rewrite chk_shift. destruct (chk gs M c2); reflexivity.
    Qed.

    Lemma guard_shift gs cost args :
      guard_big d (M + K) ev' (shift_gs K gs) (cost + K) args = shift_res K (guard_big d M ev gs cost args).
    Proof.
      unfold guard_big. cbv zeta. rewrite gs_emax_shift.
      replace (gs_emax gs M + K - (cost + K)) with (gs_emax gs M - cost) by lia.
      destruct (first args) as [fa|]; cbn [bind shift_res]; [|reflexivity].
      destruct (uint_atom 8 _ fa) as [ec|]; cbn [bind shift_res]; [|reflexivity].
      destruct (_ <? ec); [reflexivity|]. destruct (ec =? 0); [reflexivity|].
      destruct (parse_softfork_arguments d args) as [[[ext prg] env]|err].
      2:{ destruct (d_allow_unknown d); cbn [shift_res]; [|reflexivity]. f_equal. f_equal. lia. }
      unfold shift_gs at 1. rewrite map_length. fold (shift_gs K gs).
      destruct (_ && _)%bool; [reflexivity|].
      match goal with |- context [ev' (?G' :: shift_gs K gs) _ prg env] => set (g' := G') end.
      match goal with |- context [ev (?G :: gs) _ prg env] => set (g := G) end.
      assert (Eg : g' = shift_g K g).
      { subst g g'. unfold shift_g. cbn [g_expected g_opset]. f_equal.
        destruct ext; try lia; destruct gs as [|g0 gs0]; cbn [shift_gs map shift_g g_expected]; lia. }
      rewrite Eg. change (shift_g K g :: shift_gs K gs) with (shift_gs K (g :: gs)).
      set (gc := if f_new_cost_model (d_flags d) then NEW_GUARD_COST else GUARD_COST).
      replace (cost + K + gc) with (cost + gc + K) by lia. rewrite Hev.
      destruct (ev (g :: gs) (cost + gc) prg env) as [[c1 v0]|]; cbn [bind shift_res]; [|reflexivity].
      rewrite chk_shift. destruct (chk (g :: gs) M c1); cbn [bind shift_res]; [|reflexivity].
      change (cost_exempt (shift_g K g)) with (cost_exempt g).
      change (g_expected (shift_g K g)) with (g_expected g + K).
      assert (E : (c1 + K =? g_expected g + K) = (c1 =? g_expected g)) by lia. rewrite E.
      destruct (negb (cost_exempt g) && negb (c1 =? g_expected g))%bool; reflexivity.
    Qed.

    Lemma apply_shift gs cost operator args :
      apply_big d (M + K) ev' (shift_gs K gs) (cost + K) operator args =
      shift_res K (apply_big d M ev gs cost operator args).
    Proof.
      unfold apply_big. rewrite chk_shift. destruct (chk gs M cost); cbn [bind shift_res]; [|reflexivity].
      destruct (is_kw operator (d_apply d)).
      - destruct (get_args2 args) as [[no env]|]; cbn [bind shift_res]; [|reflexivity].
        replace (cost + K + APPLY_COST) with (cost + APPLY_COST + K) by lia. apply Hev.
      - destruct (is_kw operator (d_softfork d)); [apply guard_shift|].
        rewrite gs_emax_shift, gs_ext_shift.
        replace (gs_emax gs M + K - (cost + K)) with (gs_emax gs M - cost) by lia.
        destruct (d_op d operator args _ _) as [[c v]|]; cbn [bind shift_res]; [|reflexivity].
        f_equal. f_equal. lia.
    Qed.

    Lemma body_shift gs cost p e :
      eval_body d (M + K) ev' (shift_gs K gs) (cost + K) p e = shift_res K (eval_body d M ev gs cost p e).
    Proof.
      unfold eval_body. destruct p as [b|[b|no tl] opl].
      - destruct (traverse_path b e) as [[c v]|]; cbn [bind shift_res]; [|reflexivity].
        f_equal. f_equal. lia.
      - destruct (is_kw (Atom b) (d_quote d)). { cbn [shift_res]. f_equal. f_equal. lia. }
        destruct (nil_terminated opl); cbn [bind shift_res]; [|reflexivity].
        replace (cost + K + OP_COST) with (cost + OP_COST + K) by lia. rewrite args_shift.
        destruct (eval_args M ev gs (cost + OP_COST) opl e) as [[c1 args]|]; cbn [bind shift_res]; [|reflexivity].
        rewrite apply_shift.
        destruct (apply_big d M ev gs c1 (Atom b) args) as [[c2 v]|]; cbn [bind shift_res]; [|reflexivity].
        destruct (d_gc d (Atom b)); [|reflexivity].
        rewrite chk_shift. destruct (chk gs M c2); reflexivity.
      - destruct tl; destruct no; try reflexivity.
        replace (cost + K + APPLY_COST) with (cost + APPLY_COST + K) by lia. apply apply_shift.
    Qed.
  End Rec.

  Theorem eval_shift : forall f gs cost p e,
    eval d (M + K) f (shift_gs K gs) (cost + K) p e = shift_res K (eval d M f gs cost p e).
  Proof.
    induction f as [|f IH]; intros gs cost p e; [reflexivity|].
    cbn [eval]. apply body_shift. exact IH.
  Qed.
End Shift.

(* ------------------------------------------------------------------ the curried program *)

(* what the curry construction needs of a dialect: quote = 1, apply = 2, softfork is not 4, and
   operator 4 is cons *)
Definition curry_dialect (d : dialect) : Prop :=
  d_quote d = 1 /\ d_apply d = 2 /\ d_softfork d <> 4 /\
  forall a b mc ext, d_op d (Atom [4]) (Cons a (Cons b nil_s)) mc ext = Ok (CONS_COST, Cons a b).

(* (a1 a2 ... an . e) *)
Definition env_prepend (args : list sexp) (e : sexp) : sexp := fold_right Cons e args.

Definition PATH1_COST : N := 44.
Definition CURRY_ARG_COST : N := OP_COST + QUOTE_COST + CONS_COST.
Definition fixed_cost (n : nat) : N := PATH1_COST + N.of_nat n * CURRY_ARG_COST.
Definition curry_cost (n : nat) : N := OP_COST + QUOTE_COST + APPLY_COST + fixed_cost n.

Lemma curry_cost_closed n : curry_cost n = 155 + 71 * N.of_nat n.
Proof. unfold curry_cost, fixed_cost, CURRY_ARG_COST, PATH1_COST, OP_COST, QUOTE_COST, APPLY_COST, CONS_COST. lia. Qed.

Lemma is_kw_4 kw : kw <> 4 -> is_kw (Atom [4]) kw = false.
Proof. intros H. change (is_kw (Atom [4]) kw) with (4 =? kw). lia. Qed.

Section Curry.
  Variable d : dialect.
  Hypothesis Hd : curry_dialect d.
  Variable M : N.

  Lemma chk_pass gs c : c <= gs_emax gs M -> chk gs M c = Ok tt.
  Proof. intros H. unfold chk. assert (E : (gs_emax gs M <? c) = false) by lia. rewrite E. reflexivity. Qed.

  Lemma eval_S f gs cost p e : eval d M (S f) gs cost p e = eval_body d M (eval d M f) gs cost p e.
  Proof. reflexivity. Qed.

  Lemma body_op ev gs cost b opl e : is_kw (Atom b) (d_quote d) = false ->
    eval_body d M ev gs cost (Cons (Atom b) opl) e =
    (do _ <- nil_terminated opl;
     do '(c1, args) <- eval_args M ev gs (cost + OP_COST) opl e;
     do '(c2, v) <- apply_big d M ev gs c1 (Atom b) args;
     if d_gc d (Atom b) then do _ <- chk gs M c2; Ok (c2, v) else Ok (c2, v)).
  Proof. intros H. cbn [eval_body]. rewrite H. reflexivity. Qed.

  (* evaluating the two-element operand list (x y) when both evaluations are known *)
  Lemma args2 ev gs cost x y e cy vy cx vx :
    ev gs cost y e = Ok (cy, vy) -> ev gs cy x e = Ok (cx, vx) -> cx <= gs_emax gs M -> cost <= cy <= cx ->
    eval_args M ev gs cost (Cons x (Cons y nil_s)) e = Ok (cx, Cons vx (Cons vy nil_s)).
  Proof.
    intros Ey Ex Hb Hc. cbn [eval_args nil_s bind].
    rewrite chk_pass by lia. cbn [bind]. rewrite Ey. cbn [bind].
    rewrite chk_pass by lia. cbn [bind]. rewrite chk_pass by lia. cbn [bind]. rewrite Ex. cbn [bind].
    rewrite chk_pass by lia. reflexivity.
  Qed.

  Lemma quote_eval f gs cost x e : eval d M (S f) gs cost (Cons (Atom [1]) x) e = Ok (cost + QUOTE_COST, x).
  Proof.
    destruct Hd as (Hq & _). rewrite eval_S. cbn [eval_body]. rewrite Hq. reflexivity.
  Qed.

  (* the argument-list builder: (c (q . a1) (c (q . a2) ... 1)) evaluates to (a1 a2 ... . e) *)
  Lemma fixed_eval : forall args f gs cost e, (length args < f)%nat ->
    cost + fixed_cost (length args) <= gs_emax gs M ->
    eval d M f gs cost (fixed_rec args) e = Ok (cost + fixed_cost (length args), env_prepend args e).
  Proof.
    destruct Hd as (Hq & Ha & Hs & Hc).
    induction args as [|a r IH]; intros f gs cost e Hf Hb; (destruct f as [|f]; [cbn in Hf; lia|]).
    - rewrite eval_S. cbn [fixed_rec eval_body]. change (traverse_path [1] e) with (Ok (44, e) : res (N * sexp)).
      reflexivity.
    - cbn [length] in Hf, Hb.
      assert (E : fixed_cost (S (length r)) = fixed_cost (length r) + 71).
      { unfold fixed_cost, CURRY_ARG_COST, PATH1_COST, OP_COST, QUOTE_COST, CONS_COST. lia. }
      rewrite E in Hb.
      destruct f as [|f']; [lia|].
      change (fixed_rec (a :: r)) with (Cons (Atom [4]) (Cons (Cons (Atom [1]) a) (Cons (fixed_rec r) nil_s))).
      rewrite eval_S. rewrite body_op by (rewrite Hq; reflexivity).
      cbn [nil_terminated nil_s bind]. fold nil_s.
      rewrite (args2 (eval d M (S f')) gs (cost + OP_COST) (Cons (Atom [1]) a) (fixed_rec r) e
                 (cost + OP_COST + fixed_cost (length r)) (env_prepend r e)
                 (cost + OP_COST + fixed_cost (length r) + QUOTE_COST) a).
      2:{ apply IH; [lia|unfold OP_COST; lia]. }
      2:{ apply quote_eval. }
      2:{ unfold OP_COST, QUOTE_COST; lia. }
      2:{ unfold OP_COST, QUOTE_COST; lia. }
      cbn [bind]. unfold apply_big.
      rewrite chk_pass by (unfold OP_COST, QUOTE_COST; lia).
      cbn [bind]. rewrite Ha. change (is_kw (Atom [4]) 2) with false. cbv iota.
      rewrite (is_kw_4 _ Hs). rewrite Hc. cbn [bind env_prepend fold_right length].
      assert (E2 : cost + OP_COST + fixed_cost (length r) + QUOTE_COST + CONS_COST =
                   cost + fixed_cost (S (length r))).
      { rewrite E. unfold OP_COST, QUOTE_COST, CONS_COST. lia. }
      rewrite E2.
      destruct (d_gc d (Atom [4])); [|reflexivity].
      rewrite chk_pass by lia. reflexivity.
  Qed.
End Curry.

(* the run of the curried program, with K more budget, is the run of the module on the extended
   environment with K added to the cost: same value, same error *)
Theorem curry_run_big d : curry_dialect d -> forall B m args e f, (length args + 1 < f)%nat ->
  run_big d (B + curry_cost (length args)) (S f) (py_curry m args) e =
  shift_res (curry_cost (length args)) (run_big d B f m (env_prepend args e)).
Proof.
  intros Hd B m args e f Hf. pose proof Hd as (Hq & Ha & Hs & Hc).
  set (K := curry_cost (length args)).
  assert (HK : K = 1 + 20 + 90 + fixed_cost (length args)) by reflexivity.
  unfold run_big, py_curry. rewrite py_fixed_args_rec.
  change (py_list3 (Atom PY_A_KW) (Cons (Atom PY_Q_KW) m) (fixed_rec args))
    with (Cons (Atom [2]) (Cons (Cons (Atom [1]) m) (Cons (fixed_rec args) nil_s))).
  destruct f as [|f']; [lia|].
  rewrite (eval_S d). rewrite body_op by (rewrite Hq; reflexivity).
  cbn [nil_terminated nil_s bind]. fold nil_s.
  rewrite (args2 (B + K) (eval d (B + K) (S f')) [] (0 + OP_COST) (Cons (Atom [1]) m) (fixed_rec args) e
             (0 + OP_COST + fixed_cost (length args)) (env_prepend args e)
             (0 + OP_COST + fixed_cost (length args) + QUOTE_COST) m).
  2:{ apply (fixed_eval d Hd); [lia|cbn [gs_emax]; unfold OP_COST; lia]. }
  2:{ apply (quote_eval d Hd). }
  2:{ cbn [gs_emax]. unfold OP_COST, QUOTE_COST; lia. }
  2:{ unfold OP_COST, QUOTE_COST; lia. }
  cbn [bind]. unfold apply_big.
  rewrite chk_pass by (cbn [gs_emax]; unfold OP_COST, QUOTE_COST; lia). cbn [bind].
  rewrite Ha. change (is_kw (Atom [2]) 2) with true. cbv iota. cbn [get_args2 nil_s bind].
  replace (0 + OP_COST + fixed_cost (length args) + QUOTE_COST + APPLY_COST) with (0 + K)
    by (unfold OP_COST, QUOTE_COST, APPLY_COST; lia).
  change (eval d (B + K) (S f') [] (0 + K)) with (eval d (B + K) (S f') (shift_gs K []) (0 + K)).
  rewrite eval_shift.
  destruct (eval d B (S f') [] 0 m (env_prepend args e)) as [[c v]|err]; cbn [bind shift_res]; [|reflexivity].
  assert (Ec : chk [] (B + K) (c + K) = chk [] B c).
  { unfold chk. cbn [gs_emax]. assert (E : (B + K <? c + K) = (B <? c)) by lia. rewrite E. reflexivity. }
  destruct (d_gc d (Atom [2])); rewrite ?Ec; destruct (chk [] B c) as [[]|]; cbn [bind shift_res]; rewrite ?Ec; reflexivity.
Qed.

Lemma shift_res_oof K R : R <> Err OutOfFuel -> shift_res K R <> Err OutOfFuel.
Proof. destruct R as [[c v]|e]; cbn [shift_res]; [discriminate|exact (fun H => H)]. Qed.

Lemma shift_res_inj K R R' : shift_res K R = shift_res K R' -> R = R'.
Proof.
  destruct R as [[c v]|e], R' as [[c' v']|e']; cbn [shift_res]; intros H; try discriminate.
  - injection H as H1 H2. f_equal. f_equal; [lia|exact H2].
  - exact H.
Qed.

Lemma run_big_mono' d B f f' p e R : (f <= f')%nat -> run_big d B f p e = R -> R <> Err OutOfFuel ->
  run_big d B f' p e = R.
Proof.
  intros Hf H HR. unfold run_big in *.
  destruct (eval d B f [] 0 p e) as [[c v]|err] eqn:E.
  - rewrite (eval_mono' d B f f' Hf _ _ _ _ _ E (not_oof_ok _)). exact H.
  - cbn [bind] in H. subst R. rewrite (eval_mono' d B f f' Hf _ _ _ _ _ E HR). reflexivity.
Qed.

(* on the big-step evaluator, every outcome but fuel exhaustion *)
Theorem curry_run_big_outcomes d : curry_dialect d -> forall B m args e R, R <> Err OutOfFuel ->
  ((exists fuel, run_big d (B + curry_cost (length args)) fuel (py_curry m args) e =
                 shift_res (curry_cost (length args)) R) <->
   (exists fuel, run_big d B fuel m (env_prepend args e) = R)).
Proof.
  intros Hd B m args e R HR. split.
  - intros (fuel & H).
    set (f := Nat.max fuel (length args + 2)).
    pose proof (run_big_mono' d _ fuel (S f) _ _ _ ltac:(lia) H (shift_res_oof _ _ HR)) as H1.
    rewrite (curry_run_big d Hd B m args e f ltac:(lia)) in H1.
    exists f. exact (shift_res_inj _ _ _ H1).
  - intros (fuel & H).
    set (f := Nat.max fuel (length args + 2)).
    exists (S f). rewrite (curry_run_big d Hd B m args e f ltac:(lia)).
    rewrite (run_big_mono' d B fuel f _ _ _ ltac:(lia) H HR). reflexivity.
Qed.

(* ------------------------------------------------------------------ run_program *)

(* [budget b]: the effective budget of run_program's max_cost argument *)
Definition budget (max_cost : N) : N := if max_cost =? 0 then COST_MAX else max_cost.

Theorem curry_run_program d : curry_dialect d -> forall max_cost max_cost' m args e R,
  budget max_cost' = budget max_cost + curry_cost (length args) -> R <> Err OutOfFuel ->
  ((exists fuel, run_program d fuel (py_curry m args) e max_cost' = shift_res (curry_cost (length args)) R) <->
   (exists fuel, run_program d fuel m (env_prepend args e) max_cost = R)).
Proof.
  intros Hd mc mc' m args e R Hb HR.
  rewrite (run_program_big_outcomes d _ e mc' _ (shift_res_oof _ _ HR)).
  rewrite (run_program_big_outcomes d m _ mc R HR).
  unfold run_program_big. fold (budget mc) (budget mc'). rewrite Hb.
  apply curry_run_big_outcomes; assumption.
Qed.

(* ------------------------------------------------------------------ the three dialects *)
Lemma chia_curry_dialect P flags : curry_dialect (chia_dialect P flags).
Proof. repeat split; try discriminate. Qed.

Lemma hiding_curry_dialect P flags : curry_dialect (hiding_dialect P flags).
Proof. repeat split; try discriminate. Qed.

Lemma runtime_curry_dialect P flags : curry_dialect (runtime_dialect P flags).
Proof. repeat split; try discriminate. Qed.
