(* C01, operator level (part 2): the operators that the Rust computes with an accumulator loop
   over the argument list, checking the budget on the way (+ - * concat sha256 logand logior
   logxor), against the closed forms of the reference: cost = base + per_arg * n + per_byte *
   total length, value = sum / product / fold / concatenation. Each loop lemma has two halves:
   when every argument is an atom and the budget covers the closed-form cost the loop returns
   exactly the closed form; when some argument is a pair the loop fails whatever the budget. *)
From Coq Require Import Lia ZifyBool ZifyN ZifyNat.
From Clvm Require Import Model.Dialect Model.RefClvm Proofs.RefClvmBasics.
Open Scope N_scope.
Arguments malloc_cost : simpl never.
Arguments int_result : simpl never.
Arguments bytes_result : simpl never.
Arguments check_cost : simpl never.
Arguments limbs : simpl never.
Arguments ref_limbs : simpl never.
Arguments bytes_of_int : simpl never.
Arguments int_of_bytes : simpl never.

Section Loops.
  Variable fl : flagset.
  Hypothesis Hfl : plain_flags fl.
  Ltac nf := rewrite ?(pf_ncm _ Hfl), ?(pf_lim _ Hfl), ?(pf_mal _ Hfl), ?(pf_dis _ Hfl) in *.

(* ---- + ---- *)
Lemma add_loop_closed pa pb args : forall cost acc M,
  match atoms (items args) with
  | Some bs =>
      cost + pa * count bs + pb * total_len bs <= M ->
      add_loop false pa pb args cost acc M =
      Ok (cost + pa * count bs + pb * total_len bs, (acc + zsum (ints bs))%Z)
  | None => exists e, add_loop false pa pb args cost acc M = Err e
  end.
Proof.
  induction args as [b|a _ r IH]; intros cost acc M.
  - cbn. intros _. apply ok2; [try rewrite (@count_nil bytes); lia|lia].
  - cbn [items add_loop]. destruct a as [b|]; [|cbn; unfold bad_arg; eauto].
    rewrite atoms_cons_atom. specialize (IH (cost + pa + blen b * pb) (acc + int_of_bytes b)%Z M).
    destruct (atoms (items r)) as [bs|].
    + intros HM. rewrite count_cons, total_len_cons in HM |- *. rewrite ?N.mul_add_distr_l, ?N.mul_1_r in HM |- *. cbn [ints map]. rewrite zsum_cons.
      rewrite check_cost_ok by nia. cbn [bind]. rewrite IH by nia. apply ok2; [nia|unfold ints; cbn [map]; lia].
    + destruct (check_cost_cases (cost + pa + blen b * pb) M) as [-> | ->]; cbn [bind]; eauto.
Qed.

Lemma add_agrees args M : covers M (ref_add (items args)) ->
  agrees (op_add fl args M) (ref_add (items args)).
Proof.
  intros HM. unfold op_add, arith_costs, ref_add in *. nf.
  pose proof (add_loop_closed ARITH_COST_PER_ARG ARITH_COST_PER_BYTE args ARITH_BASE_COST 0%Z M) as L.
  destruct (atoms (items args)) as [bs|].
  - apply covers_ok in HM. unfold int_result in *.
    unfold ARITH_COST_PER_ARG, ARITH_COST_PER_BYTE, ARITH_BASE_COST,
      rc_arith_base, rc_arith_per_arg, rc_arith_per_byte, rc_malloc_per_byte in *.
    set (q := bytes_of_int (zsum (ints bs))) in *.
    rewrite L by lia. cbn. unfold malloc_cost, MALLOC_COST_PER_BYTE. rewrite Z.add_0_l. fold q.
    apply ok2; [lia|reflexivity].
  - destruct L as [e ->]. cbn. eauto.
Qed.

(* ---- - ---- *)
Lemma sub_loop_closed pa pb args : forall cost acc M,
  match atoms (items args) with
  | Some bs =>
      cost + pa * count bs + pb * total_len bs <= M ->
      sub_loop false pa pb args cost acc false M =
      Ok (cost + pa * count bs + pb * total_len bs, (acc - zsum (ints bs))%Z)
  | None => exists e, sub_loop false pa pb args cost acc false M = Err e
  end.
Proof.
  induction args as [b|a _ r IH]; intros cost acc M.
  - cbn. intros _. apply ok2; [try rewrite (@count_nil bytes); lia|lia].
  - cbn [items sub_loop]. destruct a as [b|].
    2:{ cbn. destruct (check_cost_cases (cost + pa) M) as [-> | ->]; cbn; unfold bad_arg; eauto. }
    rewrite atoms_cons_atom. specialize (IH (cost + pa + blen b * pb) (acc - int_of_bytes b)%Z M).
    destruct (atoms (items r)) as [bs|].
    + intros HM. rewrite count_cons, total_len_cons in HM |- *. rewrite ?N.mul_add_distr_l, ?N.mul_1_r in HM |- *. cbn [ints map]. rewrite zsum_cons.
      rewrite check_cost_ok by nia. cbn [bind]. rewrite check_cost_ok by nia. cbn [bind].
      rewrite IH by nia. apply ok2; [nia|unfold ints; cbn [map]; lia].
    + destruct (check_cost_cases (cost + pa) M) as [-> | ->]; cbn [bind]; eauto.
      destruct (check_cost_cases (cost + pa + blen b * pb) M) as [-> | ->]; cbn [bind]; eauto.
Qed.

Lemma sub_loop_first pa pb args cost M :
  match atoms (items args) with
  | Some bs =>
      cost + pa * count bs + pb * total_len bs <= M ->
      sub_loop false pa pb args cost 0%Z true M =
      Ok (cost + pa * count bs + pb * total_len bs,
          match ints bs with [] => 0 | z :: zs => z - zsum zs end%Z)
  | None => exists e, sub_loop false pa pb args cost 0%Z true M = Err e
  end.
Proof.
  destruct args as [b|a r].
  - cbn. intros _. apply ok2; [try rewrite (@count_nil bytes); lia|reflexivity].
  - cbn [items sub_loop]. destruct a as [b|].
    2:{ cbn. destruct (check_cost_cases (cost + pa) M) as [-> | ->]; cbn; unfold bad_arg; eauto. }
    rewrite atoms_cons_atom.
    pose proof (sub_loop_closed pa pb r (cost + pa + blen b * pb) (0 + int_of_bytes b)%Z M) as L.
    destruct (atoms (items r)) as [bs|].
    + intros HM. rewrite count_cons, total_len_cons in HM |- *. rewrite ?N.mul_add_distr_l, ?N.mul_1_r in HM |- *. cbn [ints map].
      rewrite check_cost_ok by nia. cbn [bind]. rewrite check_cost_ok by nia. cbn [bind].
      rewrite L by nia. apply ok2; [nia|unfold ints; cbn [map]; lia].
    + destruct (check_cost_cases (cost + pa) M) as [-> | ->]; cbn [bind]; eauto.
      destruct (check_cost_cases (cost + pa + blen b * pb) M) as [-> | ->]; cbn [bind]; eauto.
Qed.

Lemma sub_agrees args M : covers M (ref_sub (items args)) ->
  agrees (op_subtract fl args M) (ref_sub (items args)).
Proof.
  intros HM. unfold op_subtract, arith_costs, ref_sub in *. nf.
  pose proof (sub_loop_first ARITH_COST_PER_ARG ARITH_COST_PER_BYTE args ARITH_BASE_COST M) as L.
  destruct (atoms (items args)) as [bs|].
  - apply covers_ok in HM. unfold int_result in *.
    unfold ARITH_COST_PER_ARG, ARITH_COST_PER_BYTE, ARITH_BASE_COST,
      rc_arith_base, rc_arith_per_arg, rc_arith_per_byte, rc_malloc_per_byte in *.
    set (q := bytes_of_int _) in *.
    rewrite L by lia. cbn. unfold malloc_cost, MALLOC_COST_PER_BYTE. fold q.
    apply ok2; [lia|reflexivity].
  - destruct L as [e ->]. cbn. eauto.
Qed.

(* ---- * ---- *)
Lemma mul_fold_mono bs : forall c v vs c' v' vs',
  fold_left mul_step bs (c, v, vs) = (c', v', vs') -> c <= c'.
Proof.
  induction bs as [|b bs IH]; intros c v vs c' v' vs' E; cbn in E.
  - injection E as <- _ _. lia.
  - apply IH in E. unfold rc_mul_per_op, rc_mul_linear_per_byte, rc_mul_square_divider in E. lia.
Qed.

Lemma mul_loop_closed args : forall cost total l0 M,
  match atoms (items args) with
  | Some bs =>
      forall c' v' vs', fold_left mul_step bs (cost, total, l0) = (c', v', vs') -> c' <= M ->
      mul_loop false false MUL_SQUARE_COST_PER_BYTE_DIVIDER args cost total l0 M = Ok (c', v')
  | None => exists e, mul_loop false false MUL_SQUARE_COST_PER_BYTE_DIVIDER args cost total l0 M = Err e
  end.
Proof.
  induction args as [b|a _ r IH]; intros cost total l0 M.
  - cbn. intros c' v' vs' E _. injection E as <- <- _. reflexivity.
  - cbn [items mul_loop]. destruct a as [b|]; [|cbn; unfold bad_arg; eauto].
    rewrite atoms_cons_atom. cbn [andb negb].
    set (cost1 := cost + MUL_COST_PER_OP + (l0 + blen b) * MUL_LINEAR_COST_PER_BYTE
                  + l0 * blen b / MUL_SQUARE_COST_PER_BYTE_DIVIDER).
    specialize (IH cost1 (total * int_of_bytes b)%Z (limbs (total * int_of_bytes b)) M).
    assert (Hstep : mul_step (cost, total, l0) b = (cost1, (total * int_of_bytes b)%Z, limbs (total * int_of_bytes b))).
    { unfold mul_step, cost1. rewrite ref_limbs_limbs.
      unfold rc_mul_per_op, rc_mul_linear_per_byte, rc_mul_square_divider, MUL_COST_PER_OP,
        MUL_LINEAR_COST_PER_BYTE, MUL_SQUARE_COST_PER_BYTE_DIVIDER.
      rewrite (N.mul_comm (blen b) l0), (N.add_comm (blen b) l0). reflexivity. }
    destruct (atoms (items r)) as [bs|].
    + intros c' v' vs' E HM. cbn [fold_left] in E. rewrite Hstep in E.
      pose proof (mul_fold_mono _ _ _ _ _ _ _ E) as Hmono.
      fold cost1. rewrite check_cost_ok by lia. cbn [bind]. exact (IH _ _ _ E HM).
    + fold cost1. destruct (check_cost_cases cost1 M) as [-> | ->]; cbn [bind]; eauto.
Qed.

Lemma mul_agrees args M : covers M (ref_mul (items args)) ->
  agrees (op_multiply fl args M) (ref_mul (items args)).
Proof.
  intros HM. unfold op_multiply, ref_mul in *. nf. cbn [andb negb].
  destruct args as [t|a r].
  - cbn. unfold int_result, malloc_cost, MUL_BASE_COST, rc_mul_base, MALLOC_COST_PER_BYTE, rc_malloc_per_byte.
    apply ok2; [lia|reflexivity].
  - cbn [items] in *. destruct a as [b|]; [|cbn; unfold bad_arg; eauto].
    rewrite atoms_cons_atom in *. cbn [bind].
    pose proof (mul_loop_closed r MUL_BASE_COST (int_of_bytes b) (blen b) M) as L.
    destruct (atoms (items r)) as [bs|].
    + change rc_mul_base with MUL_BASE_COST in *.
      destruct (fold_left mul_step bs (MUL_BASE_COST, int_of_bytes b, blen b)) as [[c' v'] vs'] eqn:E.
      apply covers_ok in HM. unfold int_result in *. unfold rc_malloc_per_byte in *.
      rewrite (L _ _ _ eq_refl) by lia. cbn. unfold malloc_cost, MALLOC_COST_PER_BYTE.
      apply ok2; [lia|reflexivity].
    + destruct L as [e ->]. cbn. eauto.
Qed.

(* ---- concat ---- *)
Lemma blen_app a b : blen (a ++ b) = blen a + blen b.
Proof. unfold blen. rewrite app_length. lia. Qed.

Lemma blen_concat bs : blen (concat bs) = total_len bs.
Proof.
  induction bs as [|b bs IH]; [reflexivity|].
  cbn [concat]. rewrite blen_app, total_len_cons, IH. reflexivity.
Qed.

Lemma concat_rev_acc (l : list bytes) : forall a : bytes, fold_left (fun acc t => t ++ acc) l a = concat (rev l) ++ a.
Proof.
  induction l as [|t l IH]; intros a; cbn; [reflexivity|].
  rewrite IH, concat_app. cbn. rewrite app_nil_r, <- app_assoc. reflexivity.
Qed.

Lemma concat_rev_rev bs terms : concat_rev (rev bs ++ terms) = concat_rev terms ++ concat bs.
Proof.
  unfold concat_rev. rewrite !concat_rev_acc, !app_nil_r, rev_app_distr, rev_involutive, concat_app.
  reflexivity.
Qed.

Lemma concat_loop_closed args : forall cost terms M,
  match atoms (items args) with
  | Some bs =>
      cost + 135 * count bs + 13 * total_len bs <= M ->
      concat_loop args cost terms M = Ok (cost + 135 * count bs + 13 * total_len bs, rev bs ++ terms)
  | None => exists e, concat_loop args cost terms M = Err e
  end.
Proof.
  induction args as [b|a _ r IH]; intros cost terms M.
  - cbn. intros _. apply ok2; [try rewrite (@count_nil bytes); lia|reflexivity].
  - cbn [items concat_loop]. destruct a as [b|]; [|cbn; unfold bad_arg; eauto].
    rewrite atoms_cons_atom. unfold CONCAT_COST_PER_ARG, CONCAT_COST_PER_BYTE, MALLOC_COST_PER_BYTE. cbv zeta.
    specialize (IH (cost + 135 + blen b * (3 + 10)) (b :: terms) M).
    destruct (atoms (items r)) as [bs|].
    + intros HM. rewrite count_cons, total_len_cons in HM |- *.
      rewrite check_cost_ok by lia. cbn [bind]. rewrite IH by lia.
      apply ok2; [lia|]. cbn [rev]. now rewrite <- app_assoc.
    + destruct (check_cost_cases (cost + 135 + blen b * (3 + 10)) M) as [-> | ->]; cbn [bind]; eauto.
Qed.

Lemma concat_agrees args M : covers M (ref_concat (items args)) ->
  agrees (op_concat fl args M) (ref_concat (items args)).
Proof.
  intros HM. unfold op_concat, ref_concat in *.
  pose proof (concat_loop_closed args CONCAT_BASE_COST [] M) as L.
  destruct (atoms (items args)) as [bs|].
  - apply covers_ok in HM. unfold bytes_result in *. rewrite blen_concat in *.
    unfold CONCAT_BASE_COST, rc_concat_base, rc_concat_per_arg, rc_concat_per_byte, rc_malloc_per_byte in *.
    rewrite L by lia. cbn. rewrite concat_rev_rev. cbn.
    apply ok2; [lia|reflexivity].
  - destruct L as [e ->]. cbn. eauto.
Qed.

(* ---- sha256 ---- *)
Definition sha_loop (pa pb m : N) :=
  fix loop (args : sexp) (cost : N) (terms : list bytes) : res (N * list bytes) :=
    match args with
    | Atom _ => Ok (cost, terms)
    | Cons arg rest =>
        let cost := cost + pa in
        match arg with
        | Cons _ _ => bad_arg
        | Atom b => let cost := cost + blen b * pb in
                    do _ <- check_cost cost m; loop rest cost (b :: terms)
        end
    end.

Lemma sha_loop_closed pa pb args : forall cost terms M,
  match atoms (items args) with
  | Some bs =>
      cost + pa * count bs + pb * total_len bs <= M ->
      sha_loop pa pb M args cost terms = Ok (cost + pa * count bs + pb * total_len bs, rev bs ++ terms)
  | None => exists e, sha_loop pa pb M args cost terms = Err e
  end.
Proof.
  induction args as [b|a _ r IH]; intros cost terms M.
  - cbn. intros _. apply ok2; [try rewrite (@count_nil bytes); lia|reflexivity].
  - cbn [items sha_loop]. destruct a as [b|]; [|cbn; unfold bad_arg; eauto].
    rewrite atoms_cons_atom. cbv zeta.
    specialize (IH (cost + pa + blen b * pb) (b :: terms) M).
    destruct (atoms (items r)) as [bs|].
    + intros HM. rewrite count_cons, total_len_cons in HM |- *. rewrite ?N.mul_add_distr_l, ?N.mul_1_r in HM |- *.
      rewrite check_cost_ok by nia. cbn [bind]. fold (sha_loop pa pb M). rewrite IH by nia.
      apply ok2; [nia|]. cbn [rev]. now rewrite <- app_assoc.
    + destruct (check_cost_cases (cost + pa + blen b * pb) M) as [-> | ->]; cbn [bind]; eauto.
Qed.

Lemma sha256_agrees H args M : covers M (ref_sha256 H (items args)) ->
  agrees (op_sha256 H fl args M) (ref_sha256 H (items args)).
Proof.
  intros HM. unfold ref_sha256 in *.
  assert (E : op_sha256 H fl args M =
              do '(cost, terms) <- sha_loop SHA256_COST_PER_ARG SHA256_COST_PER_BYTE M args SHA256_BASE_COST [];
              atom_and_cost cost (H (concat_rev terms))).
  { unfold op_sha256. rewrite (pf_ncm _ Hfl). reflexivity. }
  rewrite E. clear E.
  pose proof (sha_loop_closed SHA256_COST_PER_ARG SHA256_COST_PER_BYTE args SHA256_BASE_COST [] M) as L.
  destruct (atoms (items args)) as [bs|].
  - apply covers_ok in HM. unfold bytes_result in *.
    unfold SHA256_COST_PER_ARG, SHA256_COST_PER_BYTE, SHA256_BASE_COST,
      rc_sha256_base, rc_sha256_per_arg, rc_sha256_per_byte, rc_malloc_per_byte in *.
    rewrite L by lia. cbn. rewrite concat_rev_rev. cbn.
    unfold atom_and_cost, MALLOC_COST_PER_BYTE. apply ok2; [lia|reflexivity].
  - destruct L as [e ->]. cbn. eauto.
Qed.

(* ---- logand / logior / logxor: the Rust folds negative and non-negative arguments into two
   accumulators and combines them at the end ---- *)
Section Logop.
  Variable f : Z -> Z -> Z.
  Hypothesis f_assoc : forall a b c, f a (f b c) = f (f a b) c.
  Hypothesis f_comm : forall a b, f a b = f b a.

  Lemma binop_loop_closed args : forall cost pos neg M,
    match atoms (items args) with
    | Some bs =>
        cost + 264 * count bs + 3 * total_len bs <= M ->
        exists p n, binop_loop false f args cost pos neg M =
                    Ok (cost + 264 * count bs + 3 * total_len bs, (p, n))
                    /\ f p n = fold_left f (ints bs) (f pos neg)
    | None => exists e, binop_loop false f args cost pos neg M = Err e
    end.
  Proof.
    induction args as [b|a _ r IH]; intros cost pos neg M.
    - cbn. intros _. exists pos, neg. split; [|reflexivity].
      apply ok2; [try rewrite (@count_nil bytes); lia|reflexivity].
    - cbn [items binop_loop]. destruct a as [b|]; [|cbn; unfold bad_arg; eauto].
      rewrite atoms_cons_atom. unfold LOG_COST_PER_BYTE, LOG_COST_PER_ARG.
      pose proof (IH (cost + blen b * 3 + 264) pos (f neg (int_of_bytes b)) M) as IHn.
      pose proof (IH (cost + blen b * 3 + 264) (f pos (int_of_bytes b)) neg M) as IHp.
      destruct (atoms (items r)) as [bs|].
      + intros HM. rewrite count_cons, total_len_cons in HM |- *.
        rewrite check_cost_ok by lia. cbn [bind]. cbn [ints map fold_left].
        destruct (int_of_bytes b <? 0)%Z.
        * destruct IHn as (p & n & E & V); [lia|]. exists p, n. split.
          -- rewrite E. apply ok2; [lia|reflexivity].
          -- rewrite V. fold (ints bs). now rewrite f_assoc.
        * destruct IHp as (p & n & E & V); [lia|]. exists p, n. split.
          -- rewrite E. apply ok2; [lia|reflexivity].
          -- rewrite V. fold (ints bs). f_equal.
             rewrite <- f_assoc, (f_comm (int_of_bytes b) neg), f_assoc. reflexivity.
      + destruct (check_cost_cases (cost + blen b * 3 + 264) M) as [-> | ->]; cbn [bind]; eauto.
        destruct (int_of_bytes b <? 0)%Z; eauto.
  Qed.

  Lemma logop_agrees init args M : f init init = init ->
    covers M (ref_logop f init (items args)) ->
    agrees (binop_reduction init f fl args M) (ref_logop f init (items args)).
  Proof.
    intros Hinit HM. unfold binop_reduction, ref_logop in *. nf.
    pose proof (binop_loop_closed args LOG_BASE_COST init init M) as L.
    destruct (atoms (items args)) as [bs|].
    - apply covers_ok in HM. unfold int_result in *.
      unfold LOG_BASE_COST, rc_log_base, rc_log_per_arg, rc_log_per_byte, rc_malloc_per_byte in *.
      destruct L as (p & n & E & V).
      { set (q := bytes_of_int _) in HM. lia. }
      rewrite E. cbn. rewrite V, Hinit. unfold malloc_cost, MALLOC_COST_PER_BYTE.
      apply ok2; [lia|reflexivity].
    - destruct L as [e ->]. cbn. eauto.
  Qed.
End Logop.

Lemma logand_agrees args M : covers M (ref_logop Z.land (-1)%Z (items args)) ->
  agrees (op_logand fl args M) (ref_logop Z.land (-1)%Z (items args)).
Proof.
  apply logop_agrees; [intros; apply Z.land_assoc|intros; apply Z.land_comm|reflexivity].
Qed.
Lemma logior_agrees args M : covers M (ref_logop Z.lor 0%Z (items args)) ->
  agrees (op_logior fl args M) (ref_logop Z.lor 0%Z (items args)).
Proof.
  apply logop_agrees; [intros; apply Z.lor_assoc|intros; apply Z.lor_comm|reflexivity].
Qed.
Lemma logxor_agrees args M : covers M (ref_logop Z.lxor 0%Z (items args)) ->
  agrees (op_logxor fl args M) (ref_logop Z.lxor 0%Z (items args)).
Proof.
  apply logop_agrees; [intros; symmetry; apply Z.lxor_assoc|intros; apply Z.lxor_comm|reflexivity].
Qed.
End Loops.
