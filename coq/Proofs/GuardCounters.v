(* Counter restoration by a softfork guard (C31, C08), on the allocator models of C12.
   run_program.rs takes `self.allocator.checkpoint()` when a guard is entered and calls
   `restore_checkpoint` unconditionally when it is left (the translator pins both sites). Between
   the two the guard body performs arbitrary allocator operations, including nested guards and
   GC roll-backs, none of which restores to a checkpoint older than the guard's own.
   Reference level: whatever such a body does, the restore brings the three counts back to their
   values at guard entry. Arena level (through the whole-history simulation C12_history): the same
   for the real accounting - ghost counters included. *)
From Clvm Require Import Model.Alloc Model.AllocRef Model.AllocHist Proofs.AllocBasics Proofs.AllocSim Proofs.AllocStraddle.
From Coq Require Import List NArith Lia.
Import ListNotations.
Open Scope N_scope.

Definition restore_index (o : op) : option N :=
  match o with ORestore k | ORestoreT k | OMaybeRestore k _ => Some k | _ => None end.

(* along the reference run from [st], no operation restores to one of the [L] oldest checkpoints *)
Fixpoint body_local (L : nat) (st : rst) (h : list op) : bool :=
  match h with
  | [] => true
  | o :: r =>
      (match restore_index o with
       | Some k => Nat.ltb (N.to_nat k) (length (r_cps st) - L)
       | None => true
       end) && body_local L (fst (r_step st o)) r
  end.

Lemma r_fail_cps st e : r_cps (fst (r_fail st e)) = r_cps st.
Proof. unfold r_fail. destruct (is_panic e); reflexivity. Qed.
Lemma r_ret_node_cps st r : r_cps (fst (r_ret_node st r)) = r_cps st.
Proof. unfold r_ret_node. destruct r as [[s t]|e]; [reflexivity|apply r_fail_cps]. Qed.
Lemma r_ret_unit_cps st r : r_cps (fst (r_ret_unit st r)) = r_cps st.
Proof. unfold r_ret_unit. destruct r as [s|e]; [reflexivity|apply r_fail_cps]. Qed.
Lemma r_ret_read_cps st r : r_cps (fst (r_ret_read st r)) = r_cps st.
Proof. unfold r_ret_read. destruct r as [s|e]; [reflexivity|apply r_fail_cps]. Qed.

(* one step: the checkpoint list is kept, grows by one, or loses its [k] newest entries *)
Lemma r_step_cps st o :
  r_cps (fst (r_step st o)) = r_cps st \/
  (exists c, r_cps (fst (r_step st o)) = c :: r_cps st) \/
  (exists k, restore_index o = Some k /\ r_cps (fst (r_step st o)) = skipn (N.to_nat k) (r_cps st)).
Proof.
  unfold r_step. destruct (r_dead st); [left; reflexivity|].
  destruct o; cbn [r_step_live restore_index];
    try (left; first [apply r_ret_node_cps | apply r_ret_unit_cps | apply r_ret_read_cps | reflexivity]).
  - destruct (nth_N (r_nodes st) i), (nth_N (r_nodes st) j); left; try reflexivity. apply r_ret_node_cps.
  - destruct (nth_N (r_nodes st) i); left; [apply r_ret_node_cps|reflexivity].
  - destruct (get_all (r_nodes st) is); left; [apply r_ret_node_cps|reflexivity].
  - right; left. eexists. reflexivity.
  - right; left. eexists. reflexivity.
  - destruct (nth_N (r_cps st) k) as [[c nl|nl]|]; try (left; reflexivity).
    right; right. exists k. split; reflexivity.
  - destruct (nth_N (r_cps st) k) as [[c nl|nl]|]; try (left; reflexivity).
    right; right. exists k. split; reflexivity.
  - destruct (nth_N (r_cps st) k) as [[c nl|nl]|]; try (left; reflexivity).
    destruct (nth_N (r_nodes st) i); [|left; reflexivity].
    right; right. exists k. split; reflexivity.
  - destruct (nth_N (r_nodes st) i); left; [apply r_ret_read_cps|reflexivity].
  - destruct (nth_N (r_nodes st) i); left; [apply r_ret_read_cps|reflexivity].
  - destruct (nth_N (r_nodes st) i), (nth_N (r_nodes st) j); left; try reflexivity. apply r_ret_read_cps.
  - destruct (nth_N (r_nodes st) i); left; reflexivity.
  - destruct (nth_N (r_nodes st) i); left; [apply r_ret_read_cps|reflexivity].
  - destruct (nth_N (r_nodes st) i) as [[b|l r]|]; left; reflexivity.
  - destruct (nth_N (r_nodes st) i) as [[b|l r]|]; left; reflexivity.
Qed.

(* the guard's checkpoint and everything older survive a local body *)
Lemma body_keeps_suffix : forall h st base,
  (exists extra, r_cps st = extra ++ base) ->
  body_local (length base) st h = true ->
  exists extra, r_cps (fst (r_run st h)) = extra ++ base.
Proof.
  induction h as [|o r IH]; intros st base [extra E] Hl; cbn [r_run body_local] in *.
  - exists extra. exact E.
  - apply andb_prop in Hl as [Hk Hr].
    destruct (r_step st o) as [st1 ob] eqn:S. cbn [fst] in Hr.
    destruct (r_run st1 r) as [st2 obs] eqn:R. cbn [fst].
    assert (E1 : exists extra1, r_cps st1 = extra1 ++ base).
    { pose proof (r_step_cps st o) as C. rewrite S in C. cbn [fst] in C.
      destruct C as [C|[[c C]|[k [Hi C]]]].
      - exists extra. rewrite C. exact E.
      - exists (c :: extra). rewrite C, E. reflexivity.
      - rewrite Hi in Hk. apply PeanoNat.Nat.ltb_lt in Hk.
        rewrite E, app_length in Hk.
        exists (skipn (N.to_nat k) extra). rewrite C, E.
        rewrite skipn_app. replace (N.to_nat k - length extra)%nat with 0%nat by lia. reflexivity. }
    specialize (IH st1 base E1 Hr). rewrite R in IH. exact IH.
Qed.

Lemma nth_N_app_len {A} (l1 l2 : list A) x : nth_N (l1 ++ x :: l2) (N.of_nat (length l1)) = Some x.
Proof.
  unfold nth_N. rewrite Nnat.Nat2N.id. rewrite nth_error_app2 by lia.
  replace (length l1 - length l1)%nat with 0%nat by lia. reflexivity.
Qed.

(* REFERENCE: enter (checkpoint), any local body, leave (restore to the guard's own checkpoint, whose
   index is the number of newer checkpoints still alive): the counts are those at entry *)
Theorem ref_guard_counts : forall st body,
  r_dead st = false ->
  let st1 := fst (r_step st OCheckpoint) in
  body_local (length (r_cps st1)) st1 body = true ->
  let st2 := fst (r_run st1 body) in
  r_dead st2 = false ->
  let k := N.of_nat (length (r_cps st2) - length (r_cps st1)) in
  rs_counts (fst (r_step st2 (ORestore k))) = rs_counts st /\
  r_dead (fst (r_step st2 (ORestore k))) = false.
Proof.
  intros st body Hd st1 Hl st2 Hd2 k.
  assert (C1 : r_cps st1 = RFull (r_counts (r_st st)) (nlen (r_nodes st)) :: r_cps st).
  { subst st1. unfold r_step. rewrite Hd. reflexivity. }
  destruct (body_keeps_suffix body st1 (r_cps st1) (ex_intro _ [] eq_refl) Hl) as [extra E].
  fold st2 in E.
  assert (Hk : k = N.of_nat (length extra)).
  { subst k. rewrite E, app_length. f_equal. lia. }
  unfold r_step. rewrite Hd2. cbn [r_step_live].
  rewrite Hk, E, C1, nth_N_app_len. cbn [fst]. split; [|reflexivity].
  unfold rs_counts. cbn [r_st]. unfold r_counts, r_set_counts. cbn. reflexivity.
Qed.

Lemma r_run_cons_fst s o t : fst (r_run s (o :: t)) = fst (r_run (fst (r_step s o)) t).
Proof. cbn [r_run]. destruct (r_step s o) as [s1 ob]. cbn [fst]. destruct (r_run s1 t). reflexivity. Qed.

Lemma r_run_app_fst : forall h1 h2 s, fst (r_run s (h1 ++ h2)) = fst (r_run (fst (r_run s h1)) h2).
Proof.
  induction h1 as [|o r IH]; intros h2 s; [reflexivity|].
  rewrite <- app_comm_cons, !r_run_cons_fst. apply IH.
Qed.

(* the same statement about whole histories from the initial state *)
Corollary ref_guard_counts_hist : forall limit pre body,
  let st := r_final limit pre in
  r_dead st = false ->
  let st1 := fst (r_step st OCheckpoint) in
  body_local (length (r_cps st1)) st1 body = true ->
  let st2 := fst (r_run st1 body) in
  r_dead st2 = false ->
  let k := N.of_nat (length (r_cps st2) - length (r_cps st1)) in
  rs_counts (r_final limit (pre ++ OCheckpoint :: body ++ [ORestore k])) = rs_counts st.
Proof.
  intros limit pre body st Hd st1 Hl st2 Hd2 k.
  destruct (ref_guard_counts st body Hd Hl Hd2) as [H _]. fold st1 st2 k in H.
  rewrite <- H. f_equal. unfold r_final.
  rewrite r_run_app_fst, r_run_cons_fst, r_run_app_fst, r_run_cons_fst. reflexivity.
Qed.

(* ARENA: the real allocator's atom / pair / heap counts (ghost counters included) after
   enter - body - leave equal the counts at entry, for every history in which the arena neither
   panics nor takes the F2 branch *)
Theorem arena_guard_counts : forall fx limit pre body st_pre st_end,
  1 <= limit ->
  let rs := r_final limit pre in
  let rs1 := fst (r_step rs OCheckpoint) in
  let rs2 := fst (r_run rs1 body) in
  let k := N.of_nat (length (r_cps rs2) - length (r_cps rs1)) in
  let h := pre ++ OCheckpoint :: body ++ [ORestore k] in
  Forall wf_op2 h ->
  a_final fx limit pre = Some st_pre -> a_dead st_pre = false -> a_f2 st_pre = false ->
  (forall st0, a_init limit = Ok st0 -> substr_clean fx st0 pre) ->
  a_final fx limit h = Some st_end -> a_dead st_end = false -> a_f2 st_end = false ->
  (forall st0, a_init limit = Ok st0 -> substr_clean fx st0 h) ->
  body_local (length (r_cps rs1)) rs1 body = true -> r_dead rs2 = false ->
  a_counts st_end = a_counts st_pre.
Proof.
  intros fx limit pre body st_pre st_end Hl rs rs1 rs2 k h Hwf Hp Hpd Hpf Hpc He Hed Hef Hec Hloc Hd2.
  assert (Hwfp : Forall wf_op2 pre) by (unfold h in Hwf; apply Forall_app in Hwf; tauto).
  destruct (history_counts_ns fx limit pre st_pre Hl Hwfp Hp Hpd Hpf Hpc) as [Cp [Dp _]].
  destruct (history_counts_ns fx limit h st_end Hl Hwf He Hed Hef Hec) as [Ce _].
  rewrite Ce, Cp. exact (ref_guard_counts_hist limit pre body Dp Hloc Hd2).
Qed.
