(* C19, salt claim, the part that is about incremental.rs: add / restore consult the tree cache
   only through find_path's answers. Two oracles that answer alike give the same result, call by
   call and over whole histories. *)
From Clvm Require Import Model.Incremental.
Open Scope N_scope.

Definition same_answers (o1 o2 : oracle) : Prop := forall s n, o1 s n = o2 s n.

Lemma find_path_ext o1 o2 s n : same_answers o1 o2 -> find_path o1 s n = find_path o2 s n.
Proof.
  intros H. unfold find_path. destruct n as [[|x b]|l r|]; try reflexivity.
  - destruct (has_hole (SAtom (x :: b))); [reflexivity|apply H].
  - destruct (has_hole (SCons l r)); [reflexivity|apply H].
Qed.

Lemma emit_node_ext o1 o2 s n : same_answers o1 o2 -> emit_node o1 s n = emit_node o2 s n.
Proof. intros H. unfold emit_node. rewrite (find_path_ext o1 o2 s n H). reflexivity. Qed.

Lemma add_loop_ext o1 o2 : same_answers o1 o2 -> forall f s, add_loop f o1 s = add_loop f o2 s.
Proof.
  intros H. induction f as [|f IH]; intros s; [reflexivity|].
  cbn [add_loop]. destruct (write_stk s) as [|node ws]; [reflexivity|].
  destruct (is_hole node); [reflexivity|].
  destruct (read_ops s) as [|[|n0] ops1]; try reflexivity.
  rewrite (emit_node_ext o1 o2 _ node H).
  destruct (emit_node o2 _ node) as [s3|]; [|reflexivity]. cbn [bind].
  destruct (pop_conses (read_ops s3) (tc_stk s3)) as [[ops3 tc3]|]; [|reflexivity]. cbn [bind].
  apply IH.
Qed.

Lemma add_ext o1 o2 s n : same_answers o1 o2 -> add o1 s n = add o2 s n.
Proof.
  intros H. unfold add. destruct (read_ops s); [reflexivity|].
  rewrite (add_loop_ext o1 o2 H). reflexivity.
Qed.

Theorem run_history_ext o1 o2 : same_answers o1 o2 ->
  forall ops s undos obs, run_history o1 ops s undos obs = run_history o2 ops s undos obs.
Proof.
  intros H. induction ops as [|[n|k] r IH]; intros s undos obs; [reflexivity| |].
  - cbn [run_history]. rewrite (add_ext o1 o2 s n H).
    destruct (add o2 s n) as [[[d u] s']|]; [|reflexivity]. cbn [bind]. apply IH.
  - cbn [run_history]. destruct (nth_error undos k); [apply IH|reflexivity].
Qed.
