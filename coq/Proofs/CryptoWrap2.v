(* C32 (a), continued: wrapper characterisations of the remaining operators (see CryptoWrap.v). *)
From Coq Require Import Lia ZifyBool ZifyN ZifyNat.
From Clvm Require Import Model.OpsCrypto Proofs.BytesLemmas Proofs.CryptoWrap.
Open Scope N_scope.
Arguments N.add : simpl never.
Arguments N.sub : simpl never.
Arguments N.mul : simpl never.
Arguments N.eqb : simpl never.
Arguments N.ltb : simpl never.
Arguments N.leb : simpl never.
Arguments Z.modulo : simpl never.

Lemma check_cost_Ok k m u : check_cost k m = Ok u -> k <= m.
Proof. intros H. destruct (check_cost_cases k m) as [[Hc _]|[_ E]]; [exact Hc|rewrite E in H; discriminate H]. Qed.

(* forward reasoning on a hypothesis  <operator body> = Ok r  or  = Err e *)
Ltac fwd H :=
  repeat match type of H with
  | bind ?x _ = _ => let E := fresh "E" in destruct x eqn:E; cbn [bind] in H; [|try discriminate H]
  | (match ?p with pair _ _ => _ end) = _ => destruct p
  | (if ?b then _ else _) = _ => let E := fresh "E" in destruct b eqn:E; try discriminate H
  end.

(* ---------------- point decoding ---------------- *)
Definition g1_ok (P : prims) (b : bytes) : Prop := blen b = 48 /\ p_g1_valid P b = true.
Definition g2_ok (P : prims) (b : bytes) : Prop := blen b = 96 /\ p_g2_valid P b = true.

Lemma g1_point_Ok P t b : g1_point P t = Ok b <-> t = Atom b /\ g1_ok P b.
Proof.
  unfold g1_point, g1_ok. split.
  - intros H. destruct t as [b0|]; [|discriminate H].
    destruct (N.eqb_spec (blen b0) 48) as [E|E]; cbn [negb] in H; [|discriminate H].
    destruct (p_g1_valid P b0) eqn:V; [|discriminate H]. apply Ok_inj in H. subst. auto.
  - intros (-> & E & V). rewrite E, V. reflexivity.
Qed.
Lemma g2_point_Ok P t b : g2_point P t = Ok b <-> t = Atom b /\ g2_ok P b.
Proof.
  unfold g2_point, g2_ok. split.
  - intros H. destruct t as [b0|]; [|discriminate H].
    destruct (N.eqb_spec (blen b0) 96) as [E|E]; cbn [negb] in H; [|discriminate H].
    destruct (p_g2_valid P b0) eqn:V; [|discriminate H]. apply Ok_inj in H. subst. auto.
  - intros (-> & E & V). rewrite E, V. reflexivity.
Qed.
Lemma g1_point_Err P t e : g1_point P t = Err e -> e = InvalidAllocArg 0.
Proof. unfold g1_point, alloc_arg. destruct t; [|intros H; inversion H; reflexivity].
  destruct (negb _); [intros H; inversion H; reflexivity|]. destruct (p_g1_valid _ _); intros H; inversion H; reflexivity. Qed.
Lemma g2_point_Err P t e : g2_point P t = Err e -> e = InvalidAllocArg 0.
Proof. unfold g2_point, alloc_arg. destruct t; [|intros H; inversion H; reflexivity].
  destruct (negb _); [intros H; inversion H; reflexivity|]. destruct (p_g2_valid _ _); intros H; inversion H; reflexivity. Qed.

(* ---------------- the additive loops ---------------- *)
Section AddLoops.
Variable P : prims.

(* point_add: charge, check, decode *)
Lemma point_add_loop_spec a : forall cost total m c x,
  point_add_loop P a cost total m = Ok (c, x) <->
  exists pts, arg_list a = map Atom pts /\ Forall (g1_ok P) pts /\
    c = cost + N.of_nat (length pts) * POINT_ADD_COST_PER_ARG /\ (pts <> [] -> c <= m) /\
    x = fold_left (p_g1_add P) pts total.
Proof.
  induction a as [b|arg _ rest IH]; intros cost total m c x; cbn [point_add_loop arg_list].
  - split.
    + intros H. apply Ok_inj in H. inversion H; subst. exists []. cbn. repeat split; auto; try lia. congruence.
    + intros (pts & Hl & _ & -> & _ & ->). destruct pts; [|discriminate Hl]. cbn. f_equal. f_equal. lia.
  - split.
    + intros H. destruct (check_cost _ m) eqn:E; cbn [bind] in H; [|discriminate H].
      destruct (g1_point P arg) as [b|] eqn:E0; cbn [bind] in H; [|discriminate H].
      apply check_cost_Ok in E. apply g1_point_Ok in E0. destruct E0 as [-> Hok].
      apply IH in H. destruct H as (pts & Hl & Hf & -> & Hm & ->).
      exists (b :: pts). cbn [map length fold_left]. rewrite Hl. repeat split; auto; try lia.
      intros _. destruct pts as [|b' pts]; [cbn; lia|]. assert (Hne : b' :: pts <> []) by congruence. specialize (Hm Hne). lia.
    + intros (pts & Hl & Hf & -> & Hm & ->). destruct pts as [|b pts]; [discriminate Hl|].
      cbn [map] in Hl. inversion Hl; subst. inversion Hf; subst.
      assert (Hne : b :: pts <> []) by congruence. specialize (Hm Hne). cbn [length] in Hm.
      rewrite check_cost_ok by lia. cbn [bind].
      replace (g1_point P (Atom b)) with (Ok b) by (symmetry; apply g1_point_Ok; auto). cbn [bind].
      apply IH. exists pts. cbn [length fold_left]. repeat split; auto; lia.
Qed.

(* g2_add: decode, charge, check *)
Lemma g2_add_loop_spec a : forall cost total m c x,
  g2_add_loop P a cost total m = Ok (c, x) <->
  exists pts, arg_list a = map Atom pts /\ Forall (g2_ok P) pts /\
    c = cost + N.of_nat (length pts) * BLS_G2_ADD_COST_PER_ARG /\ (pts <> [] -> c <= m) /\
    x = fold_left (p_g2_add P) pts total.
Proof.
  induction a as [b|arg _ rest IH]; intros cost total m c x; cbn [g2_add_loop arg_list].
  - split.
    + intros H. apply Ok_inj in H. inversion H; subst. exists []. cbn. repeat split; auto; try lia. congruence.
    + intros (pts & Hl & _ & -> & _ & ->). destruct pts; [|discriminate Hl]. cbn. f_equal. f_equal. lia.
  - split.
    + intros H. destruct (g2_point P arg) as [b|] eqn:E; cbn [bind] in H; [|discriminate H].
      destruct (check_cost _ m) eqn:E0; cbn [bind] in H; [|discriminate H].
      apply check_cost_Ok in E0. apply g2_point_Ok in E. destruct E as [-> Hok].
      apply IH in H. destruct H as (pts & Hl & Hf & -> & Hm & ->).
      exists (b :: pts). cbn [map length fold_left]. rewrite Hl. repeat split; auto; try lia.
      intros _. destruct pts as [|b' pts]; [cbn; lia|]. assert (Hne : b' :: pts <> []) by congruence. specialize (Hm Hne). lia.
    + intros (pts & Hl & Hf & -> & Hm & ->). destruct pts as [|b pts]; [discriminate Hl|].
      cbn [map] in Hl. inversion Hl; subst. inversion Hf; subst.
      assert (Hne : b :: pts <> []) by congruence. specialize (Hm Hne). cbn [length] in Hm.
      replace (g2_point P (Atom b)) with (Ok b) by (symmetry; apply g2_point_Ok; auto). cbn [bind].
      rewrite check_cost_ok by lia. cbn [bind].
      apply IH. exists pts. cbn [length fold_left]. repeat split; auto; lia.
Qed.

(* subtraction: the first operand as it is, every later one negated and added *)
Definition sub_step (add : bytes -> bytes -> bytes) (neg : bytes -> bytes) (acc p : bytes) : bytes :=
  add acc (neg p).
Definition sub_all add neg (inf : bytes) (pts : list bytes) : bytes :=
  match pts with [] => inf | p :: r => fold_left (sub_step add neg) r p end.

Lemma subtract_loop_rest pf add neg ok per a :
  (forall t b, pf t = Ok b <-> t = Atom b /\ ok b) ->
  forall cost total m c x,
  subtract_loop pf add neg a cost per total false m = Ok (c, x) <->
  exists pts, arg_list a = map Atom pts /\ Forall ok pts /\
    c = cost + N.of_nat (length pts) * per /\ (pts <> [] -> c <= m) /\
    x = fold_left (sub_step add neg) pts total.
Proof.
  intros Hpf. induction a as [b|arg _ rest IH]; intros cost total m c x; cbn [subtract_loop arg_list].
  - split.
    + intros H. apply Ok_inj in H. inversion H; subst. exists []. cbn. repeat split; auto; try lia. congruence.
    + intros (pts & Hl & _ & -> & _ & ->). destruct pts; [|discriminate Hl]. cbn. f_equal. f_equal. lia.
  - split.
    + intros H. destruct (pf arg) as [b|] eqn:E; cbn [bind] in H; [|discriminate H].
      destruct (check_cost _ m) eqn:E0; cbn [bind] in H; [|discriminate H].
      apply check_cost_Ok in E0. apply Hpf in E. destruct E as [-> Hok].
      apply IH in H. destruct H as (pts & Hl & Hf & -> & Hm & ->).
      exists (b :: pts). cbn [map length fold_left]. rewrite Hl. repeat split; auto; try lia.
      intros _. destruct pts as [|b' pts]; [cbn; lia|]. assert (Hne : b' :: pts <> []) by congruence. specialize (Hm Hne). lia.
    + intros (pts & Hl & Hf & -> & Hm & ->). destruct pts as [|b pts]; [discriminate Hl|].
      cbn [map] in Hl. inversion Hl; subst. inversion Hf; subst.
      assert (Hne : b :: pts <> []) by congruence. specialize (Hm Hne). cbn [length] in Hm.
      replace (pf (Atom b)) with (Ok b) by (symmetry; apply Hpf; auto). cbn [bind].
      rewrite check_cost_ok by lia. cbn [bind].
      apply IH. exists pts. cbn [length fold_left]. repeat split; auto; lia.
Qed.

Lemma subtract_loop_spec pf add neg ok per inf a :
  (forall t b, pf t = Ok b <-> t = Atom b /\ ok b) ->
  forall cost m c x,
  subtract_loop pf add neg a cost per inf true m = Ok (c, x) <->
  exists pts, arg_list a = map Atom pts /\ Forall ok pts /\
    c = cost + N.of_nat (length pts) * per /\ (pts <> [] -> c <= m) /\
    x = sub_all add neg inf pts.
Proof.
  intros Hpf cost m c x. destruct a as [b|arg rest]; cbn [subtract_loop arg_list].
  - split.
    + intros H. apply Ok_inj in H. inversion H; subst. exists []. cbn. repeat split; auto; try lia. congruence.
    + intros (pts & Hl & _ & -> & _ & ->). destruct pts; [|discriminate Hl]. cbn. f_equal. f_equal. lia.
  - split.
    + intros H. destruct (pf arg) as [b|] eqn:E; cbn [bind] in H; [|discriminate H].
      destruct (check_cost _ m) eqn:E0; cbn [bind] in H; [|discriminate H].
      apply check_cost_Ok in E0. apply Hpf in E. destruct E as [-> Hok].
      apply (subtract_loop_rest pf add neg ok per rest Hpf) in H.
      destruct H as (pts & Hl & Hf & -> & Hm & ->).
      exists (b :: pts). cbn [map length sub_all]. rewrite Hl. repeat split; auto; try lia.
      intros _. destruct pts as [|b' pts]; [cbn; lia|]. assert (Hne : b' :: pts <> []) by congruence. specialize (Hm Hne). lia.
    + intros (pts & Hl & Hf & -> & Hm & ->). destruct pts as [|b pts]; [discriminate Hl|].
      cbn [map] in Hl. inversion Hl; subst. inversion Hf; subst.
      assert (Hne : b :: pts <> []) by congruence. specialize (Hm Hne). cbn [length] in Hm.
      replace (pf (Atom b)) with (Ok b) by (symmetry; apply Hpf; auto). cbn [bind].
      rewrite check_cost_ok by lia. cbn [bind].
      apply (subtract_loop_rest pf add neg ok per rest Hpf). exists pts. cbn [length sub_all].
      repeat split; auto; lia.
Qed.

(* ---- the operators ---- *)
Theorem wrap_point_add f a m r :
  op_point_add P f a m = Ok r <->
  exists pts, arg_list a = map Atom pts /\ Forall (g1_ok P) pts /\
    let c := POINT_ADD_BASE_COST + N.of_nat (length pts) * POINT_ADD_COST_PER_ARG in
    (pts <> [] -> c <= m) /\
    r = (c + 48 * MALLOC_COST_PER_BYTE, Atom (fold_left (p_g1_add P) pts g1_infinity)).
Proof.
  unfold op_point_add. split.
  - intros H. fwd H. apply point_add_loop_spec in E. destruct E as (pts & Hl & Hf & -> & Hm & ->).
    exists pts. apply Ok_inj in H. subst r. auto.
  - intros (pts & Hl & Hf & Hm & ->).
    replace (point_add_loop P a POINT_ADD_BASE_COST g1_infinity m)
      with (Ok (POINT_ADD_BASE_COST + N.of_nat (length pts) * POINT_ADD_COST_PER_ARG, fold_left (p_g1_add P) pts g1_infinity)).
    + reflexivity.
    + symmetry. apply point_add_loop_spec. exists pts. auto.
Qed.

Theorem wrap_g2_add f a m r :
  op_bls_g2_add P f a m = Ok r <->
  BLS_G2_ADD_BASE_COST <= m /\
  exists pts, arg_list a = map Atom pts /\ Forall (g2_ok P) pts /\
    let c := BLS_G2_ADD_BASE_COST + N.of_nat (length pts) * BLS_G2_ADD_COST_PER_ARG in
    c <= m /\
    r = (c + 96 * MALLOC_COST_PER_BYTE, Atom (fold_left (p_g2_add P) pts g2_infinity)).
Proof.
  unfold op_bls_g2_add. split.
  - intros H. fwd H. apply check_cost_Ok in E. apply g2_add_loop_spec in E0.
    destruct E0 as (pts & Hl & Hf & -> & Hm & ->). split; [exact E|].
    exists pts. apply Ok_inj in H. subst r. repeat split; auto.
    destruct pts; [cbn; lia|apply Hm; congruence].
  - intros (Hb & pts & Hl & Hf & Hm & ->). rewrite check_cost_ok by exact Hb. cbn [bind].
    replace (g2_add_loop P a BLS_G2_ADD_BASE_COST g2_infinity m)
      with (Ok (BLS_G2_ADD_BASE_COST + N.of_nat (length pts) * BLS_G2_ADD_COST_PER_ARG, fold_left (p_g2_add P) pts g2_infinity)).
    + reflexivity.
    + symmetry. apply g2_add_loop_spec. exists pts. auto.
Qed.

Theorem wrap_g1_subtract f a m r :
  op_bls_g1_subtract P f a m = Ok r <->
  BLS_G1_SUBTRACT_BASE_COST <= m /\
  exists pts, arg_list a = map Atom pts /\ Forall (g1_ok P) pts /\
    let c := BLS_G1_SUBTRACT_BASE_COST + N.of_nat (length pts) * BLS_G1_SUBTRACT_COST_PER_ARG in
    c <= m /\
    r = (c + 48 * MALLOC_COST_PER_BYTE, Atom (sub_all (p_g1_add P) (p_g1_neg P) g1_infinity pts)).
Proof.
  unfold op_bls_g1_subtract. split.
  - intros H. fwd H. apply check_cost_Ok in E.
    apply (subtract_loop_spec _ _ _ (g1_ok P) _ _ _ (g1_point_Ok P)) in E0.
    destruct E0 as (pts & Hl & Hf & -> & Hm & ->). split; [exact E|].
    exists pts. apply Ok_inj in H. subst r. repeat split; auto.
    destruct pts; [cbn; lia|apply Hm; congruence].
  - intros (Hb & pts & Hl & Hf & Hm & ->). rewrite check_cost_ok by exact Hb. cbn [bind].
    replace (subtract_loop (g1_point P) (p_g1_add P) (p_g1_neg P) a BLS_G1_SUBTRACT_BASE_COST
               BLS_G1_SUBTRACT_COST_PER_ARG g1_infinity true m)
      with (Ok (BLS_G1_SUBTRACT_BASE_COST + N.of_nat (length pts) * BLS_G1_SUBTRACT_COST_PER_ARG,
                sub_all (p_g1_add P) (p_g1_neg P) g1_infinity pts)).
    + reflexivity.
    + symmetry. apply (subtract_loop_spec _ _ _ (g1_ok P) _ _ _ (g1_point_Ok P)). exists pts. auto.
Qed.

Theorem wrap_g2_subtract f a m r :
  op_bls_g2_subtract P f a m = Ok r <->
  BLS_G2_SUBTRACT_BASE_COST <= m /\
  exists pts, arg_list a = map Atom pts /\ Forall (g2_ok P) pts /\
    let c := BLS_G2_SUBTRACT_BASE_COST + N.of_nat (length pts) * BLS_G2_SUBTRACT_COST_PER_ARG in
    c <= m /\
    r = (c + 96 * MALLOC_COST_PER_BYTE, Atom (sub_all (p_g2_add P) (p_g2_neg P) g2_infinity pts)).
Proof.
  unfold op_bls_g2_subtract. split.
  - intros H. fwd H. apply check_cost_Ok in E.
    apply (subtract_loop_spec _ _ _ (g2_ok P) _ _ _ (g2_point_Ok P)) in E0.
    destruct E0 as (pts & Hl & Hf & -> & Hm & ->). split; [exact E|].
    exists pts. apply Ok_inj in H. subst r. repeat split; auto.
    destruct pts; [cbn; lia|apply Hm; congruence].
  - intros (Hb & pts & Hl & Hf & Hm & ->). rewrite check_cost_ok by exact Hb. cbn [bind].
    replace (subtract_loop (g2_point P) (p_g2_add P) (p_g2_neg P) a BLS_G2_SUBTRACT_BASE_COST
               BLS_G2_SUBTRACT_COST_PER_ARG g2_infinity true m)
      with (Ok (BLS_G2_SUBTRACT_BASE_COST + N.of_nat (length pts) * BLS_G2_SUBTRACT_COST_PER_ARG,
                sub_all (p_g2_add P) (p_g2_neg P) g2_infinity pts)).
    + reflexivity.
    + symmetry. apply (subtract_loop_spec _ _ _ (g2_ok P) _ _ _ (g2_point_Ok P)). exists pts. auto.
Qed.

End AddLoops.

(* ---------------- scalar multiplication ---------------- *)
Definition g1_mul_cost (f : flagset) (s : bytes) : N :=
  (if f_new_cost_model f then NEW_BLS_G1_MULTIPLY_BASE_COST else BLS_G1_MULTIPLY_BASE_COST) +
  blen s * (if f_new_cost_model f then NEW_BLS_G1_MULTIPLY_COST_PER_BYTE else BLS_G1_MULTIPLY_COST_PER_BYTE).
Definition g2_mul_cost (f : flagset) (s : bytes) : N :=
  (if f_new_cost_model f then NEW_BLS_G2_MULTIPLY_BASE_COST else BLS_G2_MULTIPLY_BASE_COST) +
  blen s * (if f_new_cost_model f then NEW_BLS_G2_MULTIPLY_COST_PER_BYTE else BLS_G2_MULTIPLY_COST_PER_BYTE).
(* the pre-hard-fork LIMITS rule on the scalar's length *)
Definition scalar_too_long (f : flagset) (s : bytes) : bool :=
  f_limits f && negb (f_new_cost_model f) && (1024 <? blen s).

Theorem wrap_g1_multiply P f a m r :
  op_bls_g1_multiply P f a m = Ok r <->
  exists b s t,
    a = Cons (Atom b) (Cons (Atom s) (Atom t)) /\ g1_ok P b /\ scalar_too_long f s = false /\
    g1_mul_cost f s <= m /\
    r = (g1_mul_cost f s + 48 * MALLOC_COST_PER_BYTE,
         Atom (p_g1_mul P b (int_of_bytes s mod GROUP_ORDER)%Z)).
Proof.
  unfold op_bls_g1_multiply, g1_mul_cost, scalar_too_long. split.
  - intros H. destruct a as [|p0 [|p1 [t|]]]; try discriminate H. cbn [get_args2 bind] in H.
    destruct (check_cost _ m) eqn:E1; cbn [bind] in H; [|discriminate H].
    destruct (g1_point P p0) as [b|] eqn:E2; cbn [bind] in H; [|discriminate H].
    apply g1_point_Ok in E2. destruct E2 as [-> Hok].
    destruct p1 as [s|]; [|discriminate H]. cbn [int_atom bind] in H.
    destruct (f_limits f && negb (f_new_cost_model f) && (1024 <? blen s)) eqn:E3; [discriminate H|].
    destruct (check_cost _ m) eqn:E4 in H; cbn [bind] in H; [|discriminate H].
    apply check_cost_Ok in E4. apply Ok_inj in H. rewrite mod_group_order_spec in H.
    exists b, s, t. repeat split; auto. apply Hok. apply Hok.
  - intros (b & s & t & -> & Hok & E3 & Hm & ->). cbn [get_args2 bind].
    rewrite check_cost_ok by (destruct (f_new_cost_model f); lia). cbn [bind].
    replace (g1_point P (Atom b)) with (Ok b) by (symmetry; apply g1_point_Ok; auto). cbn [bind int_atom].
    rewrite E3. rewrite check_cost_ok by exact Hm. cbn [bind]. rewrite mod_group_order_spec. reflexivity.
Qed.

Theorem wrap_g2_multiply P f a m r :
  op_bls_g2_multiply P f a m = Ok r <->
  exists b s t,
    a = Cons (Atom b) (Cons (Atom s) (Atom t)) /\ g2_ok P b /\ scalar_too_long f s = false /\
    g2_mul_cost f s <= m /\
    r = (g2_mul_cost f s + 96 * MALLOC_COST_PER_BYTE,
         Atom (p_g2_mul P b (int_of_bytes s mod GROUP_ORDER)%Z)).
Proof.
  unfold op_bls_g2_multiply, g2_mul_cost, scalar_too_long. split.
  - intros H. destruct a as [|p0 [|p1 [t|]]]; try discriminate H. cbn [get_args2 bind] in H.
    destruct (check_cost _ m) eqn:E1; cbn [bind] in H; [|discriminate H].
    destruct (g2_point P p0) as [b|] eqn:E2; cbn [bind] in H; [|discriminate H].
    apply g2_point_Ok in E2. destruct E2 as [-> Hok].
    destruct p1 as [s|]; [|discriminate H]. cbn [int_atom bind] in H.
    destruct (f_limits f && negb (f_new_cost_model f) && (1024 <? blen s)) eqn:E3; [discriminate H|].
    destruct (check_cost _ m) eqn:E4 in H; cbn [bind] in H; [|discriminate H].
    apply check_cost_Ok in E4. apply Ok_inj in H. rewrite mod_group_order_spec in H.
    exists b, s, t. repeat split; auto. apply Hok. apply Hok.
  - intros (b & s & t & -> & Hok & E3 & Hm & ->). cbn [get_args2 bind].
    rewrite check_cost_ok by (destruct (f_new_cost_model f); lia). cbn [bind].
    replace (g2_point P (Atom b)) with (Ok b) by (symmetry; apply g2_point_Ok; auto). cbn [bind int_atom].
    rewrite E3. rewrite check_cost_ok by exact Hm. cbn [bind]. rewrite mod_group_order_spec. reflexivity.
Qed.

(* ---------------- negation ---------------- *)
Lemma blen_flip_sign b : blen (flip_sign b) = blen b.
Proof. destruct b; reflexivity. Qed.

(* strict: the argument must be a valid point; relaxed (RELAXED_BLS): any byte string of the right
   size. The result is the argument itself when the top three bits are 110 (compressed
   infinity), otherwise the argument with the sign bit (0x20 of the first byte) flipped. *)
Theorem wrap_negate size base valid f a m r :
  negate_op size base valid f a m = Ok r <->
  exists b t,
    a = Cons (Atom b) (Atom t) /\ blen b = size /\ (f_relaxed_bls f = false -> valid b = true) /\
    r = (base + size * MALLOC_COST_PER_BYTE, Atom (if is_inf_flag b then b else flip_sign b)).
Proof.
  unfold negate_op. split.
  - intros H. destruct a as [|p0 [t|]]; try discriminate H. cbn [get_args1 bind] in H.
    destruct p0 as [b|]; [|discriminate H]. cbn [atom_of bind] in H.
    destruct (N.eqb_spec (blen b) size) as [E1|E1]; cbn [negb] in H; [|discriminate H].
    destruct (negb (f_relaxed_bls f) && negb (valid b)) eqn:E2; [discriminate H|].
    exists b, t. split; [reflexivity|]. split; [exact E1|]. split.
    + intros Hr. rewrite Hr in E2. cbn in E2. destruct (valid b); [reflexivity|discriminate E2].
    + destruct (is_inf_flag b); [apply Ok_inj in H; symmetry; exact H|].
      unfold atom_and_cost in H. apply Ok_inj in H. rewrite blen_flip_sign, E1 in H. symmetry. exact H.
  - intros (b & t & -> & E1 & Hv & ->). cbn [get_args1 bind atom_of]. rewrite E1, N.eqb_refl. cbn [negb].
    replace (negb (f_relaxed_bls f) && negb (valid b)) with false.
    + destruct (is_inf_flag b); [reflexivity|]. unfold atom_and_cost. rewrite blen_flip_sign, E1. reflexivity.
    + destruct (f_relaxed_bls f); [reflexivity|]. rewrite Hv by reflexivity. reflexivity.
Qed.

(* With the one fact about the encoding that negate relies on — negating a valid point other
   than infinity flips the sign bit of its compressed encoding, and infinity (the only valid
   encoding with the infinity flag) is its own negative — the strict operator IS the group
   negation primitive. *)
Theorem wrap_g1_negate_strict P f a m r :
  (forall b, g1_ok P b -> p_g1_neg P b = if is_inf_flag b then b else flip_sign b) ->
  f_relaxed_bls f = false ->
  op_bls_g1_negate P f a m = Ok r <->
  exists b t, a = Cons (Atom b) (Atom t) /\ g1_ok P b /\
    r = (BLS_G1_NEGATE_BASE_COST + 48 * MALLOC_COST_PER_BYTE, Atom (p_g1_neg P b)).
Proof.
  intros Henc Hs. unfold op_bls_g1_negate. rewrite wrap_negate. split.
  - intros (b & t & -> & E1 & Hv & ->). exists b, t. split; [reflexivity|].
    assert (Hok : g1_ok P b) by (split; auto). split; [exact Hok|]. rewrite (Henc b Hok). reflexivity.
  - intros (b & t & -> & Hok & ->). exists b, t. split; [reflexivity|]. split; [apply Hok|].
    split; [intros _; apply Hok|]. rewrite (Henc b Hok). reflexivity.
Qed.

(* ---------------- hash to curve ---------------- *)
Lemma map_args_spec a msg dst :
  map_args a = Ok (msg, dst) <->
  (exists t, a = Cons msg (Atom t) /\ dst = None) \/
  (exists d t, a = Cons msg (Cons d (Atom t)) /\ dst = Some d).
Proof.
  unfold map_args. split.
  - intros H. destruct a as [t|x [t|y [t|z r]]]; cbn in H; try discriminate H.
    + apply Ok_inj in H. inversion H; subst. left. eauto.
    + apply Ok_inj in H. inversion H; subst. right. eauto.
  - intros [(t & -> & ->)|(d & t & -> & ->)]; reflexivity.
Qed.

Definition map_cost (base cpb cpd : N) (msg dst : bytes) : N := base + blen msg * cpb + blen dst * cpd.
Definition g1_map_cost (f : flagset) (msg dst : bytes) : N :=
  if f_new_cost_model f
  then map_cost NEW_BLS_MAP_TO_G1_BASE_COST NEW_BLS_MAP_TO_G1_COST_PER_BYTE NEW_BLS_MAP_TO_G1_COST_PER_DST_BYTE msg dst
  else map_cost BLS_MAP_TO_G1_BASE_COST BLS_MAP_TO_G1_COST_PER_BYTE BLS_MAP_TO_G1_COST_PER_DST_BYTE msg dst.
Definition g2_map_cost (f : flagset) (msg dst : bytes) : N :=
  if f_new_cost_model f
  then map_cost NEW_BLS_MAP_TO_G2_BASE_COST NEW_BLS_MAP_TO_G2_COST_PER_BYTE NEW_BLS_MAP_TO_G2_COST_PER_DST_BYTE msg dst
  else map_cost BLS_MAP_TO_G2_BASE_COST BLS_MAP_TO_G2_COST_PER_BYTE BLS_MAP_TO_G2_COST_PER_DST_BYTE msg dst.

(* one or two atoms: message and optional domain-separation tag (default: the AUG scheme's) *)
Definition map_arg_shape (DST : bytes) (a : sexp) (msg dst : bytes) : Prop :=
  (exists t, a = Cons (Atom msg) (Atom t) /\ dst = DST) \/
  (exists t, a = Cons (Atom msg) (Cons (Atom dst) (Atom t))).

Theorem wrap_g1_map P f a m r :
  op_bls_map_to_g1 P f a m = Ok r <->
  exists msg dst, map_arg_shape DST_G1 a msg dst /\ g1_map_cost f msg dst <= m /\
    r = (g1_map_cost f msg dst + 48 * MALLOC_COST_PER_BYTE, Atom (p_g1_map P msg dst)).
Proof.
  unfold op_bls_map_to_g1, g1_map_cost, map_cost, map_arg_shape. split.
  - intros H. destruct (map_args a) as [[mt dt]|] eqn:E0; cbn [bind] in H; [|discriminate H].
    apply map_args_spec in E0.
    destruct (f_new_cost_model f); cbn beta iota in H;
      (destruct (check_cost _ m) eqn:E1 in H; cbn [bind] in H; [|discriminate H];
       destruct mt as [msg|]; [|discriminate H]; cbn [atom_of bind] in H;
       destruct (check_cost _ m) eqn:E2 in H; cbn [bind] in H; [|discriminate H];
       destruct E0 as [(t & -> & ->)|(d & t & -> & ->)];
       [ cbn [bind] in H; destruct (check_cost _ m) eqn:E3 in H; cbn [bind] in H; [|discriminate H];
         apply check_cost_Ok in E3; apply Ok_inj in H; exists msg, DST_G1; split; [left; eauto|]; split; [exact E3|congruence]
       | destruct d as [dst|]; [|discriminate H]; cbn [atom_of bind] in H;
         destruct (check_cost _ m) eqn:E3 in H; cbn [bind] in H; [|discriminate H];
         apply check_cost_Ok in E3; apply Ok_inj in H; exists msg, dst; split; [right; eauto|]; split; [exact E3|congruence] ]).
  - intros (msg & dst & Hs & Hm & ->).
    destruct Hs as [(t & -> & ->)|(t & ->)]; unfold map_args; cbn [get_varargs bind];
      (destruct (f_new_cost_model f); cbn beta iota;
       rewrite check_cost_ok by lia; cbn [bind atom_of]; rewrite check_cost_ok by lia; cbn [bind];
       rewrite check_cost_ok by exact Hm; reflexivity).
Qed.

Theorem wrap_g2_map P f a m r :
  op_bls_map_to_g2 P f a m = Ok r <->
  exists msg dst, map_arg_shape DST_G2 a msg dst /\
    (if f_new_cost_model f then NEW_BLS_MAP_TO_G2_BASE_COST else BLS_MAP_TO_G2_BASE_COST) <= m /\
    g2_map_cost f msg dst <= m /\
    r = (g2_map_cost f msg dst + 96 * MALLOC_COST_PER_BYTE, Atom (p_g2_map P msg dst)).
Proof.
  unfold op_bls_map_to_g2, g2_map_cost, map_cost, map_arg_shape. split.
  - intros H. destruct (map_args a) as [[mt dt]|] eqn:E0; cbn [bind] in H; [|discriminate H].
    apply map_args_spec in E0.
    destruct (f_new_cost_model f); cbn beta iota in H;
      (destruct (check_cost _ m) eqn:E1 in H; cbn [bind] in H; [|discriminate H]; apply check_cost_Ok in E1;
       destruct mt as [msg|]; [|discriminate H]; cbn [atom_of bind] in H;
       destruct E0 as [(t & -> & ->)|(d & t & -> & ->)];
       [ cbn [bind] in H; destruct (check_cost _ m) eqn:E3 in H; cbn [bind] in H; [|discriminate H];
         apply check_cost_Ok in E3; apply Ok_inj in H; exists msg, DST_G2; split; [left; eauto|]; split; [exact E1|]; split; [exact E3|congruence]
       | destruct d as [dst|]; [|discriminate H]; cbn [atom_of bind] in H;
         destruct (check_cost _ m) eqn:E3 in H; cbn [bind] in H; [|discriminate H];
         apply check_cost_Ok in E3; apply Ok_inj in H; exists msg, dst; split; [right; eauto|]; split; [exact E1|]; split; [exact E3|congruence] ]).
  - intros (msg & dst & Hs & Hb & Hm & ->).
    destruct Hs as [(t & -> & ->)|(t & ->)]; unfold map_args; cbn [get_varargs bind];
      (destruct (f_new_cost_model f); cbn beta iota;
       rewrite check_cost_ok by exact Hb; cbn [bind atom_of];
       rewrite check_cost_ok by exact Hm; reflexivity).
Qed.

(* ---------------- ECDSA ---------------- *)
Definition secp_args (pk_ok sig_ok : bytes -> bool) (a : sexp) (pk msg sg : bytes) : Prop :=
  (exists t, a = Cons (Atom pk) (Cons (Atom msg) (Cons (Atom sg) (Atom t)))) /\
  pk_ok pk = true /\ blen msg = 32 /\ sig_ok sg = true.

Ltac secp_fwd H :=
  unfold secp_verify, bad_arg in H;
  match type of H with bind (check_cost ?c ?m) _ = _ =>
    let E0 := fresh "E0" in destruct (check_cost_cases c m) as [[Hc E0]|[Hc E0]]; rewrite E0 in H; cbn [bind] in H end.

Theorem wrap_secp_ok cost pk_ok sig_ok verify f a m r :
  secp_verify cost pk_ok sig_ok verify f a m = Ok r <->
  cost <= m /\ r = (cost, nil_s) /\
  exists pk msg sg, secp_args pk_ok sig_ok a pk msg sg /\ verify pk msg sg = true.
Proof.
  unfold secp_args. split.
  - intros H. secp_fwd H; [|discriminate H].
    destruct a as [t0|p0 [t0|p1 [t0|p2 [t|]]]]; try discriminate H. cbn [get_args3 bind] in H.
    destruct p0 as [pk|]; [|discriminate H]. cbn [atom_of bind] in H.
    destruct (pk_ok pk) eqn:E1; cbn [negb] in H; [|discriminate H].
    destruct p1 as [msg|]; [|discriminate H]. cbn [atom_of bind] in H.
    destruct (N.eqb_spec (blen msg) 32) as [E2|E2]; cbn [negb] in H; [|discriminate H].
    destruct p2 as [sg|]; [|discriminate H]. cbn [atom_of bind] in H.
    destruct (sig_ok sg) eqn:E3; cbn [negb] in H; [|discriminate H].
    destruct (verify pk msg sg) eqn:E4; [|discriminate H].
    apply Ok_inj in H. subst r. split; [exact Hc|]. split; [reflexivity|].
    exists pk, msg, sg. repeat split; eauto.
  - intros (Hc & -> & pk & msg & sg & ((t & ->) & E1 & E2 & E3) & E4).
    unfold secp_verify. rewrite check_cost_ok by exact Hc. cbn [bind get_args3 atom_of].
    rewrite E1, E2, N.eqb_refl, E3, E4. reflexivity.
Qed.

Theorem wrap_secp_failed cost pk_ok sig_ok verify f a m :
  secp_verify cost pk_ok sig_ok verify f a m = Err Secp256Failed <->
  cost <= m /\ exists pk msg sg, secp_args pk_ok sig_ok a pk msg sg /\ verify pk msg sg = false.
Proof.
  unfold secp_args. split.
  - intros H. secp_fwd H; [|discriminate H].
    destruct a as [t0|p0 [t0|p1 [t0|p2 [t|]]]]; try discriminate H. cbn [get_args3 bind] in H.
    destruct p0 as [pk|]; [|discriminate H]. cbn [atom_of bind] in H.
    destruct (pk_ok pk) eqn:E1; cbn [negb] in H; [|discriminate H].
    destruct p1 as [msg|]; [|discriminate H]. cbn [atom_of bind] in H.
    destruct (N.eqb_spec (blen msg) 32) as [E2|E2]; cbn [negb] in H; [|discriminate H].
    destruct p2 as [sg|]; [|discriminate H]. cbn [atom_of bind] in H.
    destruct (sig_ok sg) eqn:E3; cbn [negb] in H; [|discriminate H].
    destruct (verify pk msg sg) eqn:E4; [discriminate H|].
    split; [exact Hc|]. exists pk, msg, sg. repeat split; eauto.
  - intros (Hc & pk & msg & sg & ((t & ->) & E1 & E2 & E3) & E4).
    unfold secp_verify. rewrite check_cost_ok by exact Hc. cbn [bind get_args3 atom_of].
    rewrite E1, E2, N.eqb_refl, E3, E4. reflexivity.
Qed.

Theorem wrap_secp_err cost pk_ok sig_ok verify f a m e :
  secp_verify cost pk_ok sig_ok verify f a m = Err e ->
  e = CostExceeded \/ e = InvalidOpArg 0 \/ e = Secp256Failed.
Proof.
  intros H. secp_fwd H; [|inversion H; auto].
  destruct a as [t0|p0 [t0|p1 [t0|p2 [t|]]]]; cbn [get_args3 bind] in H; try (inversion H; auto; fail).
  destruct p0 as [pk|]; cbn [atom_of bind] in H; [|inversion H; auto].
  destruct (pk_ok pk); cbn [negb] in H; [|inversion H; auto].
  destruct p1 as [msg|]; cbn [atom_of bind] in H; [|inversion H; auto].
  destruct (negb (blen msg =? 32)); [inversion H; auto|].
  destruct p2 as [sg|]; cbn [atom_of bind] in H; [|inversion H; auto].
  destruct (sig_ok sg); cbn [negb] in H; [|inversion H; auto].
  destruct (verify pk msg sg); [discriminate H|inversion H; auto].
Qed.

(* ---------------- keccak256 ---------------- *)
Lemma blen_app (a b : bytes) : blen (a ++ b) = blen a + blen b.
Proof. unfold blen. rewrite app_length. lia. Qed.

Lemma keccak_loop_spec cpa cpb a : forall cost m c x,
  keccak_loop a cost cpa cpb m = Ok (c, x) <->
  exists chunks, arg_list a = map Atom chunks /\ x = concat chunks /\
    c = cost + N.of_nat (length chunks) * cpa + blen (concat chunks) * cpb /\
    (chunks <> [] -> c <= m).
Proof.
  induction a as [b|arg _ rest IH]; intros cost m c x; cbn [keccak_loop arg_list].
  - split.
    + intros H. apply Ok_inj in H. inversion H; subst. exists []. cbn. repeat split; auto; try lia. congruence.
    + intros (ch & Hl & -> & -> & _). destruct ch; [|discriminate Hl]. cbn. f_equal. f_equal. lia.
  - split.
    + intros H. destruct arg as [blob|]; [|discriminate H]. cbn [atom_of bind] in H.
      destruct (check_cost _ m) eqn:E0; cbn [bind] in H; [|discriminate H]. apply check_cost_Ok in E0.
      destruct (keccak_loop rest _ cpa cpb m) as [[c0 bs]|] eqn:E1; cbn [bind] in H; [|discriminate H].
      apply Ok_inj in H. inversion H; subst. apply IH in E1. destruct E1 as (ch & Hl & -> & -> & Hm).
      exists (blob :: ch). cbn [map concat length]. rewrite Hl, blen_app. repeat split; auto; try lia.
      intros _. destruct ch as [|b' ch]; [cbn; cbn in E0; lia|]. assert (Hne : b' :: ch <> []) by congruence.
      specialize (Hm Hne). lia.
    + intros (ch & Hl & -> & -> & Hm). destruct ch as [|blob ch]; [discriminate Hl|].
      cbn [map] in Hl. inversion Hl; subst. cbn [atom_of bind].
      assert (Hne : blob :: ch <> []) by congruence. specialize (Hm Hne).
      cbn [length concat] in Hm. rewrite blen_app in Hm.
      rewrite check_cost_ok by lia. cbn [bind].
      replace (keccak_loop rest (cost + cpa + blen blob * cpb) cpa cpb m)
        with (Ok (cost + cpa + blen blob * cpb + N.of_nat (length ch) * cpa + blen (concat ch) * cpb, concat ch)).
      * cbn [bind concat length]. rewrite blen_app. f_equal. f_equal. lia.
      * symmetry. apply IH. exists ch. repeat split; auto. intros _. lia.
Qed.

Definition keccak_cost (f : flagset) (chunks : list bytes) : N :=
  if f_new_cost_model f
  then NEW_KECCAK256_BASE_COST + N.of_nat (length chunks) * NEW_KECCAK256_COST_PER_ARG
       + blen (concat chunks) * NEW_KECCAK256_COST_PER_BYTE
  else KECCAK256_BASE_COST + N.of_nat (length chunks) * KECCAK256_COST_PER_ARG
       + blen (concat chunks) * KECCAK256_COST_PER_BYTE.

(* keccak256 of the concatenation of the arguments; the budget is only consulted after an
   argument has been charged (so the empty argument list never fails) *)
Theorem wrap_keccak256 P f a m r :
  op_keccak256 P f a m = Ok r <->
  exists chunks, arg_list a = map Atom chunks /\ (chunks <> [] -> keccak_cost f chunks <= m) /\
    let h := p_keccak256 P (concat chunks) in
    r = (keccak_cost f chunks + blen h * MALLOC_COST_PER_BYTE, Atom h).
Proof.
  unfold op_keccak256, keccak_cost. destruct (f_new_cost_model f); cbn beta iota.
  all: split;
    [ intros H; match type of H with bind ?x _ = _ => destruct x as [[c0 inp]|] eqn:E end; cbn [bind] in H; [|discriminate H];
      apply keccak_loop_spec in E; destruct E as (ch & Hl & -> & -> & Hm);
      exists ch; unfold atom_and_cost in H; apply Ok_inj in H; subst r; auto
    | intros (ch & Hl & Hm & ->);
      match goal with |- bind (keccak_loop ?a0 ?b ?x ?y ?m0) _ = _ =>
        replace (keccak_loop a0 b x y m0)
          with (Ok (b + N.of_nat (length ch) * x + blen (concat ch) * y, concat ch))
          by (symmetry; apply keccak_loop_spec; exists ch; auto) end;
      reflexivity ].
Qed.

(* ---------------- pairing identity and aggregate verification ---------------- *)
Lemma sexp_ind2' (Q : sexp -> Prop) :
  (forall b, Q (Atom b)) -> (forall x b, Q (Cons x (Atom b))) ->
  (forall x y r, Q r -> Q (Cons x (Cons y r))) -> forall a, Q a.
Proof.
  intros Ha H1 H2. fix IH 1. intros [b|x [b|y r]]; [apply Ha|apply H1|apply H2, IH].
Qed.

(* a proper (nil-terminated) list *)
Definition nil_list (l : list sexp) : sexp := fold_right Cons nil_s l.
Definition flat2 (items : list (bytes * bytes)) : list sexp :=
  concat (map (fun it => [Atom (fst it); Atom (snd it)]) items).

Section Pairing.
Variable P : prims.
Definition pair_ok (it : bytes * bytes) : Prop := g1_ok P (fst it) /\ g2_ok P (snd it).

Lemma pairing_loop_fwd cpa a : forall cost m c items,
  pairing_loop P a cost cpa m = Ok (c, items) ->
  a = nil_list (flat2 items) /\ Forall pair_ok items /\
  c = cost + N.of_nat (length items) * cpa /\ (items <> [] -> c <= m).
Proof.
  induction a as [b|x b|x y r IH] using sexp_ind2'; intros cost m c items H; cbn [pairing_loop] in H.
  - destruct b.
    + apply Ok_inj in H. inversion H; subst. cbn. repeat split; auto; try lia. congruence.
    + destruct (check_cost _ m); discriminate H.
  - destruct (check_cost _ m); cbn [bind] in H; [|discriminate H].
    destruct (g1_point P x); discriminate H.
  - destruct (check_cost _ m) eqn:E0; cbn [bind] in H; [|discriminate H]. apply check_cost_Ok in E0.
    destruct (g1_point P x) as [g1|] eqn:E1; cbn [bind] in H; [|discriminate H].
    destruct (g2_point P y) as [g2|] eqn:E2; cbn [bind] in H; [|discriminate H].
    destruct (pairing_loop P r (cost + cpa) cpa m) as [[c0 its]|] eqn:E3; cbn [bind] in H; [|discriminate H].
    apply Ok_inj in H. inversion H; subst. apply IH in E3. destruct E3 as (-> & Hf & -> & Hm).
    apply g1_point_Ok in E1. apply g2_point_Ok in E2. destruct E1 as [-> Hg1]. destruct E2 as [-> Hg2].
    repeat split.
    + constructor; [split; assumption|exact Hf].
    + cbn [length]. lia.
    + intros _. destruct its as [|i its]; [cbn; lia|]. assert (Hne : i :: its <> []) by congruence.
      specialize (Hm Hne). cbn [length] in *. lia.
Qed.

Lemma pairing_loop_bwd cpa items : forall cost m,
  Forall pair_ok items -> (items <> [] -> cost + N.of_nat (length items) * cpa <= m) ->
  pairing_loop P (nil_list (flat2 items)) cost cpa m = Ok (cost + N.of_nat (length items) * cpa, items).
Proof.
  induction items as [|[g1 g2] its IH]; intros cost m Hf Hm.
  - cbn. f_equal. f_equal. lia.
  - inversion Hf as [|? ? [Hg1 Hg2] Hf']; subst. cbn [fst snd] in *.
    assert (Hne : (g1, g2) :: its <> []) by congruence. specialize (Hm Hne). cbn [length] in Hm.
    change (nil_list (flat2 ((g1, g2) :: its))) with (Cons (Atom g1) (Cons (Atom g2) (nil_list (flat2 its)))).
    cbn [pairing_loop]. rewrite check_cost_ok by lia. cbn [bind].
    replace (g1_point P (Atom g1)) with (Ok g1) by (symmetry; apply g1_point_Ok; auto).
    replace (g2_point P (Atom g2)) with (Ok g2) by (symmetry; apply g2_point_Ok; auto). cbn [bind].
    rewrite IH; [|exact Hf'|intros _; lia]. cbn [bind length]. f_equal. f_equal. lia.
Qed.

Ltac ccE E1 :=
  match type of E1 with context [check_cost ?c ?m] =>
    let H := fresh "Hcc" in
    destruct (check_cost_cases c m) as [[_ H]|[_ H]]; rewrite H in E1; cbn [bind] in E1; [|discriminate E1] end.

Lemma pairing_loop_errs cpa m a : forall cost e,
  pairing_loop P a cost cpa m = Err e -> e = BLSPairingIdentityFailed -> False.
Proof.
  induction a as [b|x b|x y r IH] using sexp_ind2'; intros cost e E1 ->; cbn [pairing_loop] in E1; unfold bad_arg in E1.
  - destruct b; [discriminate E1|]. ccE E1. discriminate E1.
  - ccE E1.
    destruct (g1_point P x) eqn:G; cbn [bind] in E1; [discriminate E1|]. apply g1_point_Err in G. inversion E1; subst. discriminate.
  - ccE E1.
    destruct (g1_point P x) eqn:G; cbn [bind] in E1; [|apply g1_point_Err in G; inversion E1; subst; discriminate].
    destruct (g2_point P y) eqn:G2; cbn [bind] in E1; [|apply g2_point_Err in G2; inversion E1; subst; discriminate].
    destruct (pairing_loop P r (cost + cpa) cpa m) as [[c1 its]|e1] eqn:E2; cbn [bind] in E1; [discriminate E1|].
    inversion E1; subst. eapply IH; [exact E2|reflexivity].
Qed.

Definition pairing_body (base cpa : N) (a : sexp) (m : N) : res (N * sexp) :=
  do _ <- check_cost base m;
  do '(cost, items) <- pairing_loop P a base cpa m;
  if negb (p_pairing_identity P items) then Err BLSPairingIdentityFailed else Ok (cost, nil_s).

Lemma pairing_body_eq f a m :
  op_bls_pairing_identity P f a m =
  pairing_body (if f_new_cost_model f then NEW_BLS_PAIRING_BASE_COST else BLS_PAIRING_BASE_COST)
               (if f_new_cost_model f then NEW_BLS_PAIRING_COST_PER_ARG else BLS_PAIRING_COST_PER_ARG) a m.
Proof. unfold op_bls_pairing_identity, pairing_body. destruct (f_new_cost_model f); reflexivity. Qed.

Lemma pairing_body_ok base cpa a m r :
  pairing_body base cpa a m = Ok r <->
  exists items, a = nil_list (flat2 items) /\ Forall pair_ok items /\
    base + N.of_nat (length items) * cpa <= m /\ p_pairing_identity P items = true /\
    r = (base + N.of_nat (length items) * cpa, nil_s).
Proof.
  unfold pairing_body. split.
  - intros H. destruct (check_cost_cases base m) as [[Hc E0]|[Hc E0]]; rewrite E0 in H; cbn [bind] in H; [|discriminate H].
    destruct (pairing_loop P a base cpa m) as [[c0 items]|e0] eqn:E1; cbn [bind] in H; [|discriminate H].
    apply pairing_loop_fwd in E1. destruct E1 as (-> & Hf & -> & Hm).
    destruct (p_pairing_identity P items) eqn:E2; cbn [negb] in H; [|discriminate H].
    apply Ok_inj in H. exists items. repeat split; auto.
    destruct items as [|i its]; [cbn; lia|apply Hm; congruence].
  - intros (items & -> & Hf & Hm & E2 & ->).
    rewrite check_cost_ok by lia. cbn [bind].
    rewrite pairing_loop_bwd by (auto; intros _; exact Hm). cbn [bind]. rewrite E2. reflexivity.
Qed.

Lemma pairing_body_failed base cpa a m :
  pairing_body base cpa a m = Err BLSPairingIdentityFailed <->
  exists items, a = nil_list (flat2 items) /\ Forall pair_ok items /\
    base + N.of_nat (length items) * cpa <= m /\ p_pairing_identity P items = false.
Proof.
  unfold pairing_body. split.
  - intros H. destruct (check_cost_cases base m) as [[Hc E0]|[Hc E0]]; rewrite E0 in H; cbn [bind] in H; [|discriminate H].
    destruct (pairing_loop P a base cpa m) as [[c0 items]|e0] eqn:E1; cbn [bind] in H.
    + apply pairing_loop_fwd in E1. destruct E1 as (-> & Hf & -> & Hm).
      destruct (p_pairing_identity P items) eqn:E2; cbn [negb] in H; [discriminate H|].
      exists items. repeat split; auto.
      destruct items as [|i its]; [cbn; lia|apply Hm; congruence].
    + exfalso. inversion H; subst. exact (pairing_loop_errs _ _ _ _ _ E1 eq_refl).
  - intros (items & -> & Hf & Hm & E2).
    rewrite check_cost_ok by lia. cbn [bind].
    rewrite pairing_loop_bwd by (auto; intros _; exact Hm). cbn [bind]. rewrite E2. reflexivity.
Qed.

Definition pairing_cost (f : flagset) (n : nat) : N :=
  (if f_new_cost_model f then NEW_BLS_PAIRING_BASE_COST else BLS_PAIRING_BASE_COST) +
  N.of_nat n * (if f_new_cost_model f then NEW_BLS_PAIRING_COST_PER_ARG else BLS_PAIRING_COST_PER_ARG).

(* a proper list g1 g2 g1 g2 ... of valid points, taken pairwise *)
Theorem wrap_pairing_identity f a m r :
  op_bls_pairing_identity P f a m = Ok r <->
  exists items, a = nil_list (flat2 items) /\ Forall pair_ok items /\
    pairing_cost f (length items) <= m /\ p_pairing_identity P items = true /\
    r = (pairing_cost f (length items), nil_s).
Proof. rewrite pairing_body_eq. apply pairing_body_ok. Qed.

Theorem wrap_pairing_identity_failed f a m :
  op_bls_pairing_identity P f a m = Err BLSPairingIdentityFailed <->
  exists items, a = nil_list (flat2 items) /\ Forall pair_ok items /\
    pairing_cost f (length items) <= m /\ p_pairing_identity P items = false.
Proof. rewrite pairing_body_eq. apply pairing_body_failed. Qed.

End Pairing.

Section Verify.
Variable P : prims.
Definition pkmsg_ok (it : bytes * bytes) : Prop := g1_ok P (fst it).

(* cost of the (pk, msg) pairs *)
Definition verify_items_cost (cpa cpb cpd : N) (items : list (bytes * bytes)) : N :=
  fold_right (fun it acc => cpa + blen (snd it) * cpb + blen DST_G2 * cpd + acc) 0 items.

Lemma verify_loop_fwd cpa cpb cpd a : forall cost m c items,
  verify_loop P a cost cpa cpb cpd m = Ok (c, items) ->
  a = nil_list (flat2 items) /\ Forall pkmsg_ok items /\
  c = cost + verify_items_cost cpa cpb cpd items /\ (items <> [] -> c <= m).
Proof.
  induction a as [b|x b|x y r IH] using sexp_ind2'; intros cost m c items H; cbn [verify_loop] in H.
  - destruct b; [|discriminate H].
    apply Ok_inj in H. inversion H; subst. cbn. repeat split; auto; try lia. congruence.
  - destruct (g1_point P x); discriminate H.
  - destruct (g1_point P x) as [pk|] eqn:E1; cbn [bind] in H; [|discriminate H].
    destruct y as [msg|]; [|discriminate H]. cbn [atom_of bind] in H.
    destruct (check_cost _ m) eqn:E0; cbn [bind] in H; [|discriminate H]. apply check_cost_Ok in E0.
    destruct (verify_loop P r _ cpa cpb cpd m) as [[c0 its]|] eqn:E3; cbn [bind] in H; [|discriminate H].
    apply Ok_inj in H. inversion H; subst. apply IH in E3. destruct E3 as (-> & Hf & -> & Hm).
    apply g1_point_Ok in E1. destruct E1 as [-> Hg1].
    repeat split.
    + constructor; [exact Hg1|exact Hf].
    + cbn [verify_items_cost fold_right snd]. fold (verify_items_cost cpa cpb cpd its). lia.
    + intros _. destruct its as [|i its]; [cbn [verify_items_cost fold_right]; lia|]. assert (Hne : i :: its <> []) by congruence.
      specialize (Hm Hne). lia.
Qed.

Lemma verify_loop_bwd cpa cpb cpd items : forall cost m,
  Forall pkmsg_ok items -> (items <> [] -> cost + verify_items_cost cpa cpb cpd items <= m) ->
  verify_loop P (nil_list (flat2 items)) cost cpa cpb cpd m = Ok (cost + verify_items_cost cpa cpb cpd items, items).
Proof.
  induction items as [|[pk msg] its IH]; intros cost m Hf Hm.
  - cbn. f_equal. f_equal. lia.
  - inversion Hf as [|? ? Hg1 Hf']; subst. unfold pkmsg_ok in Hg1. cbn [fst snd] in *.
    assert (Hne : (pk, msg) :: its <> []) by congruence. specialize (Hm Hne).
    cbn [verify_items_cost fold_right snd] in Hm. fold (verify_items_cost cpa cpb cpd its) in Hm.
    change (nil_list (flat2 ((pk, msg) :: its))) with (Cons (Atom pk) (Cons (Atom msg) (nil_list (flat2 its)))).
    cbn [verify_loop].
    replace (g1_point P (Atom pk)) with (Ok pk) by (symmetry; apply g1_point_Ok; auto). cbn [bind atom_of].
    rewrite check_cost_ok by lia. cbn [bind].
    rewrite IH; [|exact Hf'|intros _; lia]. cbn [bind verify_items_cost fold_right snd].
    fold (verify_items_cost cpa cpb cpd its). f_equal. f_equal. lia.
Qed.

Ltac ccE' E1 :=
  match type of E1 with context [check_cost ?c ?m] =>
    let H := fresh "Hcc" in
    destruct (check_cost_cases c m) as [[_ H]|[_ H]]; rewrite H in E1; cbn [bind] in E1; [|discriminate E1] end.

Lemma verify_loop_errs cpa cpb cpd m a : forall cost e,
  verify_loop P a cost cpa cpb cpd m = Err e -> e = BLSVerifyFailed -> False.
Proof.
  induction a as [b|x b|x y r IH] using sexp_ind2'; intros cost e E1 ->; cbn [verify_loop] in E1; unfold bad_arg in E1.
  - destruct b; discriminate E1.
  - destruct (g1_point P x) eqn:G; cbn [bind] in E1; [discriminate E1|]. apply g1_point_Err in G. inversion E1; subst. discriminate.
  - destruct (g1_point P x) eqn:G; cbn [bind] in E1; [|apply g1_point_Err in G; inversion E1; subst; discriminate].
    destruct y as [msg|]; cbn [atom_of bind] in E1; [|discriminate E1].
    ccE' E1.
    destruct (verify_loop P r _ cpa cpb cpd m) as [[c1 its]|e1] eqn:E2; cbn [bind] in E1; [discriminate E1|].
    inversion E1; subst. eapply IH; [exact E2|reflexivity].
Qed.

Definition verify_body (base cpa cpb cpd : N) (a : sexp) (m : N) : res (N * sexp) :=
  do _ <- check_cost base m;
  do sig_node <- first a;
  do signature <- g2_point P sig_node;
  do args <- rest a;
  do '(cost, items) <- verify_loop P args base cpa cpb cpd m;
  if negb (p_aggregate_verify P signature items) then Err BLSVerifyFailed else Ok (cost, nil_s).

Lemma verify_body_eq f a m :
  op_bls_verify P f a m =
  verify_body (if f_new_cost_model f then NEW_BLS_PAIRING_BASE_COST else BLS_PAIRING_BASE_COST)
              (if f_new_cost_model f then NEW_BLS_PAIRING_COST_PER_ARG else BLS_PAIRING_COST_PER_ARG)
              (if f_new_cost_model f then NEW_BLS_MAP_TO_G2_COST_PER_BYTE else BLS_MAP_TO_G2_COST_PER_BYTE)
              (if f_new_cost_model f then NEW_BLS_MAP_TO_G2_COST_PER_DST_BYTE else BLS_MAP_TO_G2_COST_PER_DST_BYTE) a m.
Proof. unfold op_bls_verify, verify_body. destruct (f_new_cost_model f); reflexivity. Qed.

Definition verify_shape (a : sexp) (sg : bytes) (items : list (bytes * bytes)) : Prop :=
  a = Cons (Atom sg) (nil_list (flat2 items)) /\ g2_ok P sg /\ Forall pkmsg_ok items.

Lemma verify_body_ok base cpa cpb cpd a m r :
  verify_body base cpa cpb cpd a m = Ok r <->
  exists sg items, verify_shape a sg items /\
    base + verify_items_cost cpa cpb cpd items <= m /\ p_aggregate_verify P sg items = true /\
    r = (base + verify_items_cost cpa cpb cpd items, nil_s).
Proof.
  unfold verify_body, verify_shape. split.
  - intros H. destruct (check_cost_cases base m) as [[Hc E0]|[Hc E0]]; rewrite E0 in H; cbn [bind] in H; [|discriminate H].
    destruct a as [b|sn args]; cbn [first rest bind] in H; [discriminate H|].
    destruct (g2_point P sn) as [sg|e0] eqn:E1; cbn [bind] in H; [|discriminate H].
    apply g2_point_Ok in E1. destruct E1 as [-> Hsg].
    destruct (verify_loop P args base cpa cpb cpd m) as [[c0 items]|e0] eqn:E2; cbn [bind] in H; [|discriminate H].
    apply verify_loop_fwd in E2. destruct E2 as (-> & Hf & -> & Hm).
    destruct (p_aggregate_verify P sg items) eqn:E3; cbn [negb] in H; [|discriminate H].
    apply Ok_inj in H. exists sg, items. repeat split; auto; try apply Hsg.
    destruct items as [|i its]; [cbn; lia|apply Hm; congruence].
  - intros (sg & items & (-> & Hsg & Hf) & Hm & E2 & ->).
    rewrite check_cost_ok by lia. cbn [bind first rest].
    replace (g2_point P (Atom sg)) with (Ok sg) by (symmetry; apply g2_point_Ok; auto). cbn [bind].
    rewrite verify_loop_bwd by (auto; intros _; exact Hm). cbn [bind]. rewrite E2. reflexivity.
Qed.

Lemma verify_body_failed base cpa cpb cpd a m :
  verify_body base cpa cpb cpd a m = Err BLSVerifyFailed <->
  exists sg items, verify_shape a sg items /\
    base + verify_items_cost cpa cpb cpd items <= m /\ p_aggregate_verify P sg items = false.
Proof.
  unfold verify_body, verify_shape. split.
  - intros H. destruct (check_cost_cases base m) as [[Hc E0]|[Hc E0]]; rewrite E0 in H; cbn [bind] in H; [|discriminate H].
    destruct a as [b|sn args]; cbn [first rest bind] in H; [discriminate H|].
    destruct (g2_point P sn) as [sg|e0] eqn:E1; cbn [bind] in H.
    2:{ apply g2_point_Err in E1. subst. discriminate H. }
    apply g2_point_Ok in E1. destruct E1 as [-> Hsg].
    destruct (verify_loop P args base cpa cpb cpd m) as [[c0 items]|e0] eqn:E2; cbn [bind] in H.
    + apply verify_loop_fwd in E2. destruct E2 as (-> & Hf & -> & Hm).
      destruct (p_aggregate_verify P sg items) eqn:E3; cbn [negb] in H; [discriminate H|].
      exists sg, items. repeat split; auto; try apply Hsg.
      destruct items as [|i its]; [cbn; lia|apply Hm; congruence].
    + exfalso. inversion H; subst. exact (verify_loop_errs _ _ _ _ _ _ _ E2 eq_refl).
  - intros (sg & items & (-> & Hsg & Hf) & Hm & E2).
    rewrite check_cost_ok by lia. cbn [bind first rest].
    replace (g2_point P (Atom sg)) with (Ok sg) by (symmetry; apply g2_point_Ok; auto). cbn [bind].
    rewrite verify_loop_bwd by (auto; intros _; exact Hm). cbn [bind]. rewrite E2. reflexivity.
Qed.

Definition verify_cost (f : flagset) (items : list (bytes * bytes)) : N :=
  (if f_new_cost_model f then NEW_BLS_PAIRING_BASE_COST else BLS_PAIRING_BASE_COST) +
  verify_items_cost (if f_new_cost_model f then NEW_BLS_PAIRING_COST_PER_ARG else BLS_PAIRING_COST_PER_ARG)
                    (if f_new_cost_model f then NEW_BLS_MAP_TO_G2_COST_PER_BYTE else BLS_MAP_TO_G2_COST_PER_BYTE)
                    (if f_new_cost_model f then NEW_BLS_MAP_TO_G2_COST_PER_DST_BYTE else BLS_MAP_TO_G2_COST_PER_DST_BYTE)
                    items.

(* a proper list: signature, then public key / message pairs *)
Theorem wrap_bls_verify f a m r :
  op_bls_verify P f a m = Ok r <->
  exists sg items, verify_shape a sg items /\ verify_cost f items <= m /\
    p_aggregate_verify P sg items = true /\ r = (verify_cost f items, nil_s).
Proof. rewrite verify_body_eq. apply verify_body_ok. Qed.

Theorem wrap_bls_verify_failed f a m :
  op_bls_verify P f a m = Err BLSVerifyFailed <->
  exists sg items, verify_shape a sg items /\ verify_cost f items <= m /\
    p_aggregate_verify P sg items = false.
Proof. rewrite verify_body_eq. apply verify_body_failed. Qed.

End Verify.
