(* C01, operator level (part 1): the core operators, comparisons, strlen, substr, the boolean
   operators, lognot, shifts, division: operators without an accumulator loop. For every argument
   tree and every budget the transcribed Rust operator (no flags) [agrees] with the closed form
   of the reference; none of these operators reads the budget. *)
From Coq Require Import Lia ZifyBool ZifyN ZifyNat.
From Clvm Require Import Model.Dialect Model.RefClvm Proofs.RefClvmBasics.
Open Scope N_scope.

Arguments shift_number : simpl never.
Arguments limbs : simpl never.
Arguments ref_limbs : simpl never.
Arguments malloc_cost : simpl never.
Arguments int_result : simpl never.
Arguments as_i32 : simpl never.
Arguments slice : simpl never.
Arguments index_arg : simpl never.
Arguments i32_atom : simpl never.
Arguments check_cost : simpl never.

Section Ops.
  (* any flag set without NEW_COST_MODEL, LIMITS, MALACHITE, DISABLE_OP: the empty one, and the
     one operators see inside a softfork guard of extension 1 (keccak enabled) *)
  Variable fl : flagset.
  Hypothesis Hfl : plain_flags fl.
  Ltac nf := rewrite ?(pf_ncm _ Hfl), ?(pf_lim _ Hfl), ?(pf_mal _ Hfl), ?(pf_dis _ Hfl) in *.

  Lemma if_agrees args M : agrees (op_if fl args M) (ref_if (items args)).
  Proof.
    unfold op_if, ref_if. nf. rewrite get_args3_items.
    destruct (items args) as [|c [|a [|b [|d l]]]]; cbn; eauto.
  Qed.

  Lemma cons_agrees args M : agrees (op_cons fl args M) (ref_cons (items args)).
  Proof.
    unfold op_cons, ref_cons. rewrite get_args2_items.
    destruct (items args) as [|a [|b [|d l]]]; cbn; eauto.
  Qed.

  Lemma first_agrees args M : agrees (op_first fl args M) (ref_first (items args)).
  Proof.
    unfold op_first, ref_first. rewrite get_args1_items.
    destruct (items args) as [|a [|d l]]; cbn; eauto; destruct a; cbn; eauto.
  Qed.

  Lemma rest_agrees args M : agrees (op_rest fl args M) (ref_rest (items args)).
  Proof.
    unfold op_rest, ref_rest. rewrite get_args1_items.
    destruct (items args) as [|a [|d l]]; cbn; eauto; destruct a; cbn; eauto.
  Qed.

  Lemma listp_agrees args M : agrees (op_listp fl args M) (ref_listp (items args)).
  Proof.
    unfold op_listp, ref_listp. nf. rewrite get_args1_items.
    destruct (items args) as [|a [|d l]]; cbn; eauto; destruct a; cbn; eauto.
  Qed.

  Lemma eq_agrees args M : agrees (op_eq fl args M) (ref_eq (items args)).
  Proof.
    unfold op_eq, ref_eq. rewrite get_args2_items.
    destruct (items args) as [|a [|b [|d l]]]; cbn; eauto;
      destruct a as [x|]; cbn; eauto; destruct b as [y|]; cbn; eauto.
    rewrite lex_cmp_eq. unfold EQ_BASE_COST, EQ_COST_PER_BYTE, rc_eq_base, rc_eq_per_byte.
    apply ok2; [lia|]. destruct (lex_cmp x y); reflexivity.
  Qed.

  Lemma gr_bytes_agrees args M : agrees (op_gr_bytes fl args M) (ref_gr_bytes (items args)).
  Proof.
    unfold op_gr_bytes, ref_gr_bytes. rewrite get_args2_items.
    destruct (items args) as [|a [|b [|d l]]]; cbn; eauto;
      destruct a as [x|]; cbn; eauto; destruct b as [y|]; cbn; eauto.
    rewrite lex_cmp_gt. unfold GRS_BASE_COST, GRS_COST_PER_BYTE, rc_grs_base, rc_grs_per_byte.
    apply ok2; [lia|]. destruct (lex_cmp x y); reflexivity.
  Qed.

  Lemma gr_agrees args M : agrees (op_gr fl args M) (ref_gr (items args)).
  Proof.
    unfold op_gr, ref_gr. nf. rewrite get_args2_items.
    destruct (items args) as [|a [|b [|d l]]]; cbn; eauto;
      destruct a as [x|]; cbn; eauto; destruct b as [y|]; cbn; eauto.
    unfold GR_BASE_COST, GR_COST_PER_BYTE, rc_gr_base, rc_gr_per_byte.
    apply ok2; [lia|]. destruct (int_of_bytes y <? int_of_bytes x)%Z; reflexivity.
  Qed.

  Lemma strlen_agrees args M : agrees (op_strlen fl args M) (ref_strlen (items args)).
  Proof.
    unfold op_strlen, ref_strlen. rewrite get_args1_items.
    destruct (items args) as [|a [|d l]]; cbn; eauto; destruct a as [x|]; cbn; eauto.
    unfold malloc_cost, int_result, STRLEN_BASE_COST, STRLEN_COST_PER_BYTE, MALLOC_COST_PER_BYTE,
      rc_strlen_base, rc_strlen_per_byte, rc_malloc_per_byte.
    apply ok2; [lia|reflexivity].
  Qed.

  Lemma lognot_agrees args M : agrees (op_lognot fl args M) (ref_lognot (items args)).
  Proof.
    unfold op_lognot, ref_lognot. rewrite get_args1_items.
    destruct (items args) as [|a [|d l]]; cbn; eauto; destruct a as [x|]; cbn; eauto.
    unfold malloc_cost, int_result, LOGNOT_BASE_COST, LOGNOT_COST_PER_BYTE, MALLOC_COST_PER_BYTE,
      rc_lognot_base, rc_lognot_per_byte, rc_malloc_per_byte.
    replace (Z.lnot (int_of_bytes x)) with (- int_of_bytes x - 1)%Z by (unfold Z.lnot; lia).
    apply ok2; [lia|reflexivity].
  Qed.

  Lemma not_agrees args M : agrees (op_not fl args M) (ref_not (items args)).
  Proof.
    unfold op_not, ref_not. rewrite get_args1_items.
    destruct (items args) as [|a [|d l]]; cbn; eauto.
  Qed.

  (* any / all *)
  Lemma bool_loop_closed is_any args : forall cost acc M,
    cost + 300 * count (items args) <= M ->
    bool_loop args cost acc is_any M =
    Ok (cost + 300 * count (items args),
        if is_any then acc || existsb (fun a => negb (is_nil a)) (items args)
        else acc && forallb (fun a => negb (is_nil a)) (items args)).
  Proof.
    induction args as [b|a _ r IH]; intros cost acc M HM.
    - cbn [bool_loop items existsb forallb]. rewrite (@count_nil sexp).
      apply ok2; [lia|]. destruct is_any; [now rewrite orb_false_r|now rewrite andb_true_r].
    - cbn [bool_loop items] in HM |- *. rewrite count_cons in HM |- *. unfold BOOL_COST_PER_ARG.
      rewrite check_cost_ok by lia. cbn [bind]. rewrite IH by lia.
      apply ok2; [lia|]. cbn [existsb forallb]. change (is_nil a) with (nilp a).
      destruct is_any; [now rewrite <- orb_assoc|now rewrite <- andb_assoc].
  Qed.

  Lemma any_agrees args M : covers M (ref_any (items args)) ->
    agrees (op_any fl args M) (ref_any (items args)).
  Proof.
    intros HM. apply covers_ok in HM. unfold rc_bool_base, rc_bool_per_arg in HM.
    unfold op_any, ref_any, BOOL_BASE_COST. rewrite bool_loop_closed by lia. cbn.
    unfold rc_bool_base, rc_bool_per_arg. apply ok2; [lia|]. destruct (existsb _ _); reflexivity.
  Qed.

  Lemma all_agrees args M : covers M (ref_all (items args)) ->
    agrees (op_all fl args M) (ref_all (items args)).
  Proof.
    intros HM. apply covers_ok in HM. unfold rc_bool_base, rc_bool_per_arg in HM.
    unfold op_all, ref_all, BOOL_BASE_COST. rewrite bool_loop_closed by lia. cbn.
    unfold rc_bool_base, rc_bool_per_arg. apply ok2; [lia|]. destruct (forallb _ _); reflexivity.
  Qed.

  (* shifts *)
  Lemma shift_number_shiftl i0 a1 : shift_number i0 a1 = Z.shiftl i0 a1.
  Proof.
    unfold shift_number. destruct (0 <? a1)%Z; [reflexivity|].
    unfold Z.shiftr. now rewrite Z.opp_involutive.
  Qed.

  Lemma i32_atom_index t :
    i32_atom t = match index_arg t with Some z => Ok z | None => bad_arg end.
  Proof.
    destruct t as [b|]; [|reflexivity]. unfold i32_atom, index_arg.
    destruct (Nat.ltb_spec 4 (length b)), (Nat.leb_spec (length b) 4); try reflexivity; lia.
  Qed.

  Lemma shift_range a1 : ((a1 <? -65535) || (65535 <? a1))%Z = (65535 <? Z.abs a1)%Z.
  Proof. lia. Qed.

  Lemma ash_agrees args M : agrees (op_ash fl args M) (ref_ash (items args)).
  Proof.
    unfold op_ash, ref_ash. rewrite get_args2_items.
    destruct (items args) as [|a [|b [|d l]]]; cbn; eauto; destruct a as [x|]; cbn; eauto.
    rewrite i32_atom_index. unfold shift_arg. destruct (index_arg b) as [s|]; cbn; eauto.
    rewrite shift_range. destruct (65535 <? Z.abs s)%Z; cbn; eauto.
    rewrite shift_number_shiftl, ref_limbs_limbs.
    unfold malloc_cost, int_result, ASHIFT_BASE_COST, ASHIFT_COST_PER_BYTE, MALLOC_COST_PER_BYTE,
      rc_ashift_base, rc_ashift_per_byte, rc_malloc_per_byte.
    apply ok2; [lia|reflexivity].
  Qed.

  Lemma lsh_agrees args M : agrees (op_lsh fl args M) (ref_lsh (items args)).
  Proof.
    unfold op_lsh, ref_lsh. rewrite get_args2_items.
    destruct (items args) as [|a [|b [|d l]]]; cbn; eauto; destruct a as [x|]; cbn; eauto.
    rewrite i32_atom_index. unfold shift_arg. destruct (index_arg b) as [s|]; cbn; eauto.
    rewrite shift_range. destruct (65535 <? Z.abs s)%Z; cbn; eauto.
    rewrite shift_number_shiftl, ref_limbs_limbs.
    unfold malloc_cost, int_result, LSHIFT_BASE_COST, LSHIFT_COST_PER_BYTE, MALLOC_COST_PER_BYTE,
      rc_lshift_base, rc_lshift_per_byte, rc_malloc_per_byte.
    apply ok2; [lia|reflexivity].
  Qed.

  (* / and divmod: the only operators of this file that read the budget (one check_cost) *)
  Lemma div_agrees args M : covers M (ref_div current_adapters (items args)) ->
    agrees (op_div fl args M) (ref_div current_adapters (items args)).
  Proof.
    intros HM. unfold op_div. nf. unfold op_div_num, ref_div in *. nf. rewrite get_args2_items.
    destruct (items args) as [|a [|b [|d l]]]; cbn; eauto;
      destruct a as [x|]; cbn; eauto; destruct b as [y|]; cbn; eauto.
    cbn in HM. unfold DIV_BASE_COST, DIV_COST_PER_BYTE.
    destruct (int_of_bytes y =? 0)%Z eqn:E0.
    - cbn. destruct (check_cost_cases (988 + (blen x + blen y) * 4) M) as [->| ->]; cbn; eauto.
    - apply covers_ok in HM. unfold int_result in *.
      set (q := bytes_of_int (int_of_bytes x / int_of_bytes y)%Z) in *. clearbody q.
      unfold rc_div_base, rc_div_per_byte, rc_malloc_per_byte in *.
      rewrite check_cost_ok by lia. cbn.
      unfold malloc_cost, MALLOC_COST_PER_BYTE. apply ok2; [lia|reflexivity].
  Qed.

  Lemma divmod_agrees args M : covers M (ref_divmod (items args)) ->
    agrees (op_divmod fl args M) (ref_divmod (items args)).
  Proof.
    intros HM. unfold op_divmod. nf. unfold op_divmod_num, ref_divmod in *. nf. rewrite get_args2_items.
    destruct (items args) as [|a [|b [|d l]]]; cbn; eauto;
      destruct a as [x|]; cbn; eauto; destruct b as [y|]; cbn; eauto.
    cbn in HM. unfold DIVMOD_BASE_COST, DIVMOD_COST_PER_BYTE.
    destruct (int_of_bytes y =? 0)%Z eqn:E0.
    - cbn. destruct (check_cost_cases (1116 + (blen x + blen y) * 6) M) as [->| ->]; cbn; eauto.
    - apply covers_ok in HM.
      set (q := bytes_of_int (int_of_bytes x / int_of_bytes y)%Z) in *. clearbody q.
      set (r := bytes_of_int (int_of_bytes x mod int_of_bytes y)%Z) in *. clearbody r.
      unfold rc_divmod_base, rc_divmod_per_byte, rc_malloc_per_byte in *.
      rewrite check_cost_ok by lia. cbn.
      unfold MALLOC_COST_PER_BYTE. apply ok2; [lia|reflexivity].
  Qed.

  (* substr; [size as i32] is the size itself below 2^31 *)
  Lemma get_varargs_items n : forall args,
    get_varargs n args = if (length (items args) <=? n)%nat then Ok (items args) else bad_arg.
  Proof.
    induction n as [|n IH]; intros [b|a r]; cbn [get_varargs items length]; try reflexivity.
    rewrite IH. change (S (length (items r)) <=? S n)%nat with (length (items r) <=? n)%nat.
    destruct (length (items r) <=? n)%nat; reflexivity.
  Qed.

  Lemma as_i32_small n : n < 2147483648 -> as_i32 n = Z.of_N n.
  Proof.
    intros Hn. unfold as_i32. rewrite N.mod_small by lia.
    destruct (n <? 2147483648) eqn:E; [reflexivity|lia].
  Qed.

  Lemma slice_agrees b (s e : Z) : blen b < 2147483648 ->
    agrees (if ((e <? 0)%Z || (s <? 0)%Z || (blen b <? Z.to_N e) || (e <? s)%Z) then bad_arg
            else Ok (1, Atom (firstn (Z.to_nat e - Z.to_nat s) (skipn (Z.to_nat s) b))))
           (slice b s e).
  Proof.
    intros Hb. unfold slice.
    destruct ((0 <=? s) && (s <=? e) && (e <=? Z.of_N (blen b)))%Z eqn:E1;
      destruct ((e <? 0)%Z || (s <? 0)%Z || (blen b <? Z.to_N e) || (e <? s)%Z) eqn:E2;
      cbn; unfold bad_arg, fail; eauto; try lia.
    apply ok2; [reflexivity|]. now rewrite skipn_firstn_comm.
  Qed.

  Lemma substr_agrees args M :
    (forall b, In (Atom b) (items args) -> blen b < 2147483648) ->
    agrees (op_substr fl args M) (ref_substr (items args)).
  Proof.
    intros Hsz. unfold op_substr, ref_substr. nf. rewrite get_varargs_items.
    destruct (items args) as [|a [|st [|en [|d l]]]]; cbn; unfold bad_arg, fail; eauto.
    - destruct a as [x|]; cbn; eauto.
    - destruct a as [x|]; cbn; eauto.
      assert (Hx : blen x < 2147483648) by (apply Hsz; left; reflexivity).
      rewrite i32_atom_index. destruct (index_arg st) as [s|]; cbn; eauto.
      rewrite as_i32_small by exact Hx. apply slice_agrees. exact Hx.
    - destruct a as [x|]; cbn; eauto.
      assert (Hx : blen x < 2147483648) by (apply Hsz; left; reflexivity).
      rewrite !i32_atom_index. destruct (index_arg st) as [s|]; cbn; eauto.
      destruct (index_arg en) as [e|]; cbn; eauto.
      apply slice_agrees. exact Hx.
    - destruct a as [x|]; cbn; eauto.
  Qed.
End Ops.
