(* Proofs/BigStepEquiv.v relates the successes of the big-step evaluator and of the machine. This
   file does the same for every outcome except fuel exhaustion: an error of the evaluator is the
   same error of the machine ([eval_err_sound]) and whatever the machine's outcome is - a result
   or an error - the evaluator either reports that very error or returns a value from which the
   machine's continuation produces the outcome ([machine_outcome_to_eval]). Closed form:
   [run_program_big_outcomes]. *)
From Coq Require Import Lia ZifyBool ZifyN ZifyNat.
From Clvm Require Import Model.Machine Model.BigStep Proofs.MachineBasics Proofs.MachineFrame Proofs.MachineGuard
  Proofs.BigStepEquiv.
Open Scope N_scope.

Lemma push_operands_nil_terminated ol : forall s,
  match nil_terminated ol with
  | Ok _ => exists s', push_operands ol s = Ok s'
  | Err e => push_operands ol s = Err e
  end.
Proof.
  induction ol as [b|a _ r IH]; intros s; cbn [nil_terminated push_operands].
  - destruct b; [eexists; reflexivity|reflexivity].
  - apply IH.
Qed.

Section Errors.
  Variable d : dialect.
  Variable M : N.

  (* the machine, continued from cs, fails with err after finitely many steps *)
  Definition stuck (err : errkind) (cs : N * mstate) : Prop :=
    exists k cs', nsteps d M k cs cs' /\ step d M (fst cs') (snd cs') = Err err.

  Lemma stuck_now err cost st : step d M cost st = Err err -> stuck err (cost, st).
  Proof. intros H. exists O, (cost, st). split; [reflexivity|exact H]. Qed.

  Lemma stuck_after k a b err : nsteps d M k a b -> stuck err b -> stuck err a.
  Proof.
    intros H (k2 & cs' & H2 & E). exists (k + k2)%nat, cs'. split; [|exact E].
    eapply nsteps_trans; eassumption.
  Qed.

  Lemma stuck_step cost st m err : step d M cost st = Ok (inl m) -> stuck err m -> stuck err (cost, st).
  Proof. intros H. apply (stuck_after 1). apply nsteps_one. exact H. Qed.

  Lemma stuck_run_loop err cs : stuck err cs -> exists k, forall fuel, (k < fuel)%nat ->
    run_loop d fuel M (fst cs) (snd cs) = Err err.
  Proof.
    intros (k & cs' & H & E). exists k. intros fuel Hf.
    replace fuel with (k + (fuel - k))%nat by lia. rewrite (nsteps_run_loop d M k _ _ _ H).
    destruct (fuel - k)%nat as [|r] eqn:Er; [lia|]. cbn [run_loop]. rewrite E. reflexivity.
  Qed.

  (* ---------------------------------------------------------------- eval error => machine error *)
  Definition sound_err (ev : list guard -> N -> sexp -> sexp -> res (N * sexp)) : Prop :=
    forall gs cost p e err, ev gs cost p e = Err err -> err <> OutOfFuel ->
    forall s, guards s = gs ->
    match eval_pair d s p e with
    | Err e' => e' = err
    | Ok (c, s1) => stuck err (cost + c, s1)
    end.

  Section SoundErr.
    Variable ev : list guard -> N -> sexp -> sexp -> res (N * sexp).
    Hypothesis Hev : sound_ev d M ev.
    Hypothesis Her : sound_err ev.

    (* an error of the evaluator called on state s0 with program p, seen from a step whose result
       is [eval_pair d s0 p e] followed by a cost update [upd] *)
    Lemma ev_err_step gs cost0 p e err s0 (upd : N -> N) cost st :
      ev gs cost0 p e = Err err -> err <> OutOfFuel -> guards s0 = gs ->
      (forall c, upd c = cost0 + c) ->
      step d M cost st = (do '(c, s') <- eval_pair d s0 p e; Ok (inl (upd c, s'))) ->
      stuck err (cost, st).
    Proof.
      intros H Hne Hg Hupd Hs. pose proof (Her _ _ _ _ _ H Hne s0 Hg) as T.
      destruct (eval_pair d s0 p e) as [[c s1]|e']; cbn [bind] in Hs.
      - eapply stuck_step; [exact Hs|]. rewrite Hupd. exact T.
      - subst e'. apply stuck_now. exact Hs.
    Qed.

    Lemma apply_err cost operator args err :
      forall st vs e0 es rest,
      vals st = args :: operator :: vs -> envs st = e0 :: es -> ops st = OApply :: rest ->
      apply_big d M ev (guards st) cost operator args = Err err -> err <> OutOfFuel ->
      stuck err (cost, st).
    Proof.
      intros st vs e0 es rest Hv He Ho H Hne.
      pose proof (step_apply d M cost st args operator vs e0 es rest Hv He Ho) as Hs. cbn zeta in Hs.
      set (s3 := {| vals := vs; envs := es; ops := rest; guards := guards st |}) in *.
      unfold apply_big in H.
      destruct (chk_cases M (guards st) cost) as [[Ec Eb]|[Ec Eb]]; rewrite Ec in H; cbn [bind] in H; rewrite Eb in Hs.
      2:{ injection H as <-. apply stuck_now. exact Hs. }
      destruct (is_kw operator (d_apply d)).
      - destruct (get_args2 args) as [[no env]|]; cbn [bind] in H, Hs.
        2:{ injection H as <-. apply stuck_now. exact Hs. }
        eapply (ev_err_step _ _ _ _ _ s3 (fun c => cost + (c + APPLY_COST))); [exact H|exact Hne|reflexivity| |].
        + intros c. lia.
        + rewrite Hs. destruct (eval_pair d s3 no env) as [[c s4]|]; reflexivity.
      - destruct (is_kw operator (d_softfork d)).
        + unfold guard_big in H. unfold enter_guard in Hs.
          destruct (first args) as [fa|]; cbn [bind] in H, Hs.
          2:{ injection H as <-. apply stuck_now. exact Hs. }
          destruct (uint_atom 8 _ fa) as [ec|]; cbn [bind] in H, Hs.
          2:{ injection H as <-. apply stuck_now. exact Hs. }
          destruct (_ <? ec); [injection H as <-; apply stuck_now; exact Hs|].
          destruct (ec =? 0); [injection H as <-; apply stuck_now; exact Hs|].
          destruct (parse_softfork_arguments d args) as [[[ext prg] env]|err0].
          2:{ destruct (d_allow_unknown d); [discriminate|]. injection H as <-. apply stuck_now. exact Hs. }
          cbn [guards s3] in Hs.
          destruct (_ && _)%bool; [injection H as <-; apply stuck_now; exact Hs|].
          cbn [vals envs ops guards s3] in Hs.
          match type of H with context [ev (?G :: _) _ prg env] => set (g := G) in * end.
          set (s4 := {| vals := vs; envs := es; ops := OExitGuard :: rest; guards := g :: guards st |}) in *.
          set (gcst := if f_new_cost_model (d_flags d) then NEW_GUARD_COST else GUARD_COST) in *.
          destruct (ev (g :: guards st) (cost + gcst) prg env) as [[c1 v0]|err1] eqn:Ev; cbn [bind] in H.
          * (* the body returned; the failure is at the ExitGuard step *)
            destruct (Hev _ _ _ _ _ _ Ev s4 eq_refl) as (c & s5 & k & EP & Hk).
            rewrite EP in Hs. cbn [bind] in Hs.
            eapply stuck_step; [exact Hs|]. replace (cost + (c + gcst)) with (cost + gcst + c) by lia.
            eapply stuck_after; [exact Hk|]. apply stuck_now.
            change (push v0 s4) with {| vals := v0 :: vs; envs := es; ops := OExitGuard :: rest; guards := g :: guards st |}.
            rewrite guard_exit_step.
            destruct (chk_cases M (g :: guards st) c1) as [[Ec1 Eb1]|[Ec1 Eb1]]; rewrite Ec1 in H; cbn [bind] in H;
              cbn [gs_emax] in Eb1; rewrite Eb1.
            2:{ injection H as <-. reflexivity. }
            destruct (negb (cost_exempt g) && negb (c1 =? g_expected g))%bool; [|discriminate].
            injection H as <-. reflexivity.
          * injection H as <-.
            eapply (ev_err_step _ _ _ _ _ s4 (fun c => cost + (c + gcst))); [exact Ev|exact Hne|reflexivity| |].
            -- intros c. lia.
            -- rewrite Hs. destruct (eval_pair d s4 prg env) as [[c s5]|]; reflexivity.
        + destruct (d_op d operator args _ _) as [[c v1]|]; cbn [bind] in H, Hs; [discriminate|].
          injection H as <-. apply stuck_now. exact Hs.
    Qed.

    Lemma args_err env : forall ol cost err s0 es,
      envs s0 = env :: es -> nil_terminated ol = Ok tt ->
      eval_args M ev (guards s0) cost ol env = Err err -> err <> OutOfFuel ->
      exists s', push_operands ol s0 = Ok s' /\ stuck err (cost, s').
    Proof.
      induction ol as [b|a _ r IH]; intros cost err s0 es He Hn H Hne; cbn [eval_args push_operands nil_terminated] in *.
      - discriminate.
      - set (s0' := push a (push_op OSwapEval s0)).
        destruct (eval_args M ev (guards s0) cost r env) as [[c1' tl']|err1] eqn:Er; cbn [bind] in H.
        2:{ injection H as <-. exact (IH cost err1 s0' es He Hn Er Hne). }
        destruct (args_sound d M ev Hev env r cost c1' tl' s0' es He Hn Er) as (s' & k1 & Hp & Hk1).
        exists s'. split; [exact Hp|]. eapply stuck_after; [exact Hk1|].
        pose proof (step_swap d M c1' (push tl' s0') tl' a (vals s0) env es (ops s0) eq_refl He eq_refl) as Hs.
        cbn [guards push push_op s0'] in Hs.
        destruct (chk_cases M (guards s0) c1') as [[Ec Eb]|[Ec Eb]]; rewrite Ec in H; cbn [bind] in H; rewrite Eb in Hs.
        2:{ injection H as <-. apply stuck_now. exact Hs. }
        set (sc := {| vals := tl' :: vals s0; envs := env :: es; ops := OCons :: ops s0; guards := guards s0 |}) in *.
        destruct (ev (guards s0) c1' a env) as [[c2 v]|err2] eqn:Ea; cbn [bind] in H.
        + destruct (Hev _ _ _ _ _ _ Ea sc eq_refl) as (c & s1 & k2 & EP & Hk2).
          rewrite EP in Hs. cbn [bind] in Hs.
          eapply stuck_step; [exact Hs|]. eapply stuck_after; [exact Hk2|]. apply stuck_now.
          rewrite (step_cons d M c2 (push v sc) v tl' (vals s0) (ops s0) eq_refl eq_refl).
          cbn [guards push sc].
          destruct (chk_cases M (guards s0) c2) as [[Ec2 Eb2]|[Ec2 Eb2]]; rewrite Ec2 in H; cbn [bind] in H; [discriminate|].
          rewrite Eb2. injection H as <-. reflexivity.
        + injection H as <-.
          eapply (ev_err_step _ _ _ _ _ sc (fun c => c1' + c)); [exact Ea|exact Hne|reflexivity|reflexivity|exact Hs].
    Qed.

    Lemma body_err : sound_err (eval_body d M ev).
    Proof.
      intros gs cost p e err H Hne s Hg. subst gs. unfold eval_body in H. unfold eval_pair.
      destruct p as [b|opn opl].
      - destruct (traverse_path b e) as [[c v0]|]; cbn [bind] in H |- *; [discriminate|].
        injection H as <-. reflexivity.
      - destruct opn as [b|no tl].
        + unfold eval_op_atom. destruct (is_kw (Atom b) (d_quote d)); [discriminate|].
          set (s1 := if d_gc d (Atom b) then push_op ORestore s else s).
          assert (Hg1 : guards s1 = guards s) by (subst s1; destruct (d_gc d (Atom b)); reflexivity).
          set (s2 := push (Atom b) (push_op OApply (push_env e s1))).
          pose proof (push_operands_nil_terminated opl s2) as Hpn.
          destruct (nil_terminated opl) as [[]|en] eqn:En; cbn [bind] in H.
          2:{ injection H as <-. rewrite Hpn. reflexivity. }
          destruct (eval_args M ev (guards s) (cost + OP_COST) opl e) as [[c1 args]|err1] eqn:Ea; cbn [bind] in H;
            rewrite <- Hg1 in Ea.
          2:{ injection H as <-.
              destruct (args_err e opl (cost + OP_COST) err1 s2 (envs s1) eq_refl En Ea Hne) as (s3 & Hp & Hst).
              rewrite Hp. cbn [bind]. exact Hst. }
          destruct (args_sound d M ev Hev e opl (cost + OP_COST) c1 args s2 (envs s1) eq_refl En Ea) as (s3 & k1 & Hp & Hk1).
          rewrite Hp. cbn [bind]. eapply stuck_after; [exact Hk1|].
          destruct (apply_big d M ev (guards s) c1 (Atom b) args) as [[c2 v1]|err2] eqn:Eap; cbn [bind] in H;
            rewrite <- Hg1 in Eap.
          2:{ injection H as <-.
              exact (apply_err c1 (Atom b) args err2 (push args s2) (vals s1) e (envs s1) (ops s1) eq_refl eq_refl eq_refl Eap Hne). }
          destruct (apply_sound d M ev Hev c1 (Atom b) args c2 v1 (push args s2) (vals s1) e (envs s1) (ops s1) eq_refl eq_refl eq_refl Eap) as (k2 & Hk2).
          eapply stuck_after; [exact Hk2|]. cbn [guards push push_op push_env s2].
          subst s1. destruct (d_gc d (Atom b)); [|discriminate].
          destruct (chk_cases M (guards s) c2) as [[Ec Eb]|[Ec Eb]]; rewrite Ec in H; cbn [bind] in H; [discriminate|].
          injection H as <-. apply stuck_now.
          pose proof (step_restore d M c2 {| vals := v1 :: vals s; envs := envs s; ops := ORestore :: ops s; guards := guards s |}
                        v1 (vals s) (ops s) eq_refl eq_refl) as Hr.
          cbn [guards envs] in Hr. rewrite Eb in Hr. exact Hr.
        + destruct tl as [tb|]; [destruct no as [nb|]|]; try (injection H as <-; reflexivity).
          exact (apply_err (cost + APPLY_COST) (Atom nb) opl err
                   (push_op OApply (push opl (push (Atom nb) (push_env e s)))) (vals s) e (envs s) (ops s)
                   eq_refl eq_refl eq_refl H Hne).
    Qed.
  End SoundErr.

  Lemma eval_err_sound fuel : sound_err (eval d M fuel).
  Proof.
    induction fuel as [|fuel IH]; [intros gs cost p e err H Hne; injection H as <-; congruence|].
    cbn [eval]. apply body_err; [apply eval_sound|exact IH].
  Qed.

  (* ---------------------------------------------------------------- more fuel, any outcome *)
  Definition ev_le' (ev ev' : list guard -> N -> sexp -> sexp -> res (N * sexp)) : Prop :=
    forall gs cost p e R, ev gs cost p e = R -> R <> Err OutOfFuel -> ev' gs cost p e = R.

  Lemma not_oof_ok {A} (a : A) : Ok a <> Err OutOfFuel. Proof. discriminate. Qed.

  Section Mono'.
    Variables ev ev' : list guard -> N -> sexp -> sexp -> res (N * sexp).
    Hypothesis Hle : ev_le' ev ev'.

    Lemma ev_le_bind {B} gs cost p e (k : N * sexp -> res B) R :
      bind (ev gs cost p e) k = R -> R <> Err OutOfFuel -> bind (ev' gs cost p e) k = R.
    Proof.
      intros H Hne. destruct (ev gs cost p e) as [x|err] eqn:E.
      - rewrite (Hle _ _ _ _ _ E (not_oof_ok x)). exact H.
      - cbn [bind] in H. subst R. rewrite (Hle _ _ _ _ _ E ltac:(congruence)). reflexivity.
    Qed.

    Lemma eval_args_mono' gs env : forall ol cost R,
      eval_args M ev gs cost ol env = R -> R <> Err OutOfFuel -> eval_args M ev' gs cost ol env = R.
    Proof.
      induction ol as [b|a _ r0 IH]; intros cost R H Hne; cbn [eval_args] in *; [exact H|].
      destruct (eval_args M ev gs cost r0 env) as [[c1 tl]|err] eqn:E.
      - rewrite (IH _ _ E (not_oof_ok _)). cbn [bind] in *.
        destruct (chk gs M c1); cbn [bind] in *; [|exact H].
        apply ev_le_bind; assumption.
      - cbn [bind] in H. subst R. rewrite (IH _ _ E Hne). reflexivity.
    Qed.

    Lemma guard_big_mono' gs cost args R :
      guard_big d M ev gs cost args = R -> R <> Err OutOfFuel -> guard_big d M ev' gs cost args = R.
    Proof.
      unfold guard_big. destruct (first args); cbn [bind]; [|exact (fun x _ => x)].
      destruct (uint_atom 8 _ _); cbn [bind]; [|exact (fun x _ => x)].
      destruct (_ <? _); [exact (fun x _ => x)|]. destruct (_ =? 0); [exact (fun x _ => x)|].
      destruct (parse_softfork_arguments d args) as [[[ext prg] env]|]; [|exact (fun x _ => x)].
      destruct (_ && _)%bool; [exact (fun x _ => x)|].
      apply ev_le_bind.
    Qed.

    Lemma apply_big_mono' gs cost operator args R :
      apply_big d M ev gs cost operator args = R -> R <> Err OutOfFuel ->
      apply_big d M ev' gs cost operator args = R.
    Proof.
      unfold apply_big. destruct (chk gs M cost); cbn [bind]; [|exact (fun x _ => x)].
      destruct (is_kw operator (d_apply d)).
      - destruct (get_args2 args) as [[no env]|]; cbn [bind]; [|exact (fun x _ => x)]. apply Hle.
      - destruct (is_kw operator (d_softfork d)); [apply guard_big_mono'|exact (fun x _ => x)].
    Qed.

    Lemma eval_body_mono' : ev_le' (eval_body d M ev) (eval_body d M ev').
    Proof.
      intros gs cost p e R. unfold eval_body. destruct p as [b|opn opl]; [exact (fun x _ => x)|].
      destruct opn as [b|no tl].
      - destruct (is_kw _ _); [exact (fun x _ => x)|].
        destruct (nil_terminated opl); cbn [bind]; [|exact (fun x _ => x)].
        intros H Hne.
        destruct (eval_args M ev gs _ opl e) as [[c1 args]|err] eqn:Ea.
        + rewrite (eval_args_mono' _ _ _ _ _ Ea (not_oof_ok _)). cbn [bind] in *.
          destruct (apply_big d M ev gs c1 (Atom b) args) as [[c2 v]|err] eqn:Eap.
          * rewrite (apply_big_mono' _ _ _ _ _ Eap (not_oof_ok _)). exact H.
          * cbn [bind] in H. subst R. rewrite (apply_big_mono' _ _ _ _ _ Eap Hne). reflexivity.
        + cbn [bind] in H. subst R. rewrite (eval_args_mono' _ _ _ _ _ Ea Hne). reflexivity.
      - destruct tl; [destruct no|]; try exact (fun x _ => x). apply apply_big_mono'.
    Qed.
  End Mono'.

  Lemma eval_mono' f : forall f', (f <= f')%nat -> ev_le' (eval d M f) (eval d M f').
  Proof.
    induction f as [|f IH]; intros f' Hf gs cost p e R H Hne; [cbn in H; congruence|].
    destruct f' as [|f']; [lia|]. cbn [eval] in *.
    apply (eval_body_mono' (eval d M f) (eval d M f')); [apply IH; lia|exact H|exact Hne].
  Qed.

  (* an error of eval_pair itself is the evaluator's error at once *)
  Lemma eval_pair_err_eval s p e err f gs cost :
    eval_pair d s p e = Err err -> eval d M (S f) gs cost p e = Err err.
  Proof.
    intros EP. cbn [eval]. unfold eval_body. unfold eval_pair in EP.
    destruct p as [b|opn opl].
    - destruct (traverse_path b e) as [[c0 v0]|]; cbn [bind] in EP |- *; [discriminate|congruence].
    - destruct opn as [b|no' tl].
      + unfold eval_op_atom in EP. destruct (is_kw (Atom b) (d_quote d)); [discriminate|].
        match type of EP with (do s3' <- push_operands opl ?S; _) = _ =>
          pose proof (push_operands_nil_terminated opl S) as Hp end.
        destruct (nil_terminated opl) as [[]|en].
        * destruct Hp as (s' & Hp). rewrite Hp in EP. discriminate.
        * rewrite Hp in EP. cbn [bind] in EP |- *. congruence.
      + unfold bad_arg in *. destruct tl; [destruct no'|]; try discriminate; congruence.
  Qed.

  (* ---------------------------------------------------------------- machine outcome => eval *)
  Definition outcome_upto (N0 : nat) : Prop :=
    forall n, (n < N0)%nat -> forall s p e cost c s1 R, R <> Err OutOfFuel ->
    eval_pair d s p e = Ok (c, s1) -> run_loop d n M (cost + c) s1 = R ->
    (exists f err, eval d M f (guards s) cost p e = Err err /\ R = Err err) \/
    (exists f c' v n', eval d M f (guards s) cost p e = Ok (c', v) /\ (n' <= n)%nat /\
                       run_loop d n' M c' (push v s) = R).

  Section Outcome.
    Variable N0 : nat.
    Hypothesis IH : outcome_upto N0.

    Lemma apply_outcome : forall n, (n <= N0)%nat ->
      forall st args operator vs e0 es rest cost R, R <> Err OutOfFuel ->
      vals st = args :: operator :: vs -> envs st = e0 :: es -> ops st = OApply :: rest ->
      run_loop d n M cost st = R ->
      (exists f err, apply_big d M (eval d M f) (guards st) cost operator args = Err err /\ R = Err err) \/
      (exists f c' v n', apply_big d M (eval d M f) (guards st) cost operator args = Ok (c', v) /\
        (n' < n)%nat /\
        run_loop d n' M c' {| vals := v :: vs; envs := es; ops := rest; guards := guards st |} = R).
    Proof.
      intros n Hn st args operator vs e0 es rest cost R HR Hv He Ho H.
      destruct n as [|n1]; [cbn in H; congruence|]. cbn [run_loop] in H.
      rewrite (step_apply d M cost st args operator vs e0 es rest Hv He Ho) in H. cbn zeta in H.
      set (s3 := {| vals := vs; envs := es; ops := rest; guards := guards st |}) in *.
      unfold apply_big.
      destruct (chk_cases M (guards st) cost) as [[Ec Eb]|[Ec Eb]]; rewrite Eb in H; rewrite Ec; cbn [bind].
      2:{ left. exists O, CostExceeded. split; [reflexivity|symmetry; exact H]. }
      destruct (is_kw operator (d_apply d)).
      - destruct (get_args2 args) as [[no env]|err]; cbn [bind] in H |- *.
        2:{ left. exists O, err. split; [reflexivity|symmetry; exact H]. }
        destruct (eval_pair d s3 no env) as [[c s4]|err] eqn:EP; cbn [bind] in H.
        + replace (cost + (c + APPLY_COST)) with (cost + APPLY_COST + c) in H by lia.
          destruct (IH n1 ltac:(lia) s3 no env (cost + APPLY_COST) c s4 R HR EP H)
            as [(f & err & He1 & ->)|(f & c' & v & n' & He1 & Hn' & Hr)].
          * left. exists f, err. split; [exact He1|reflexivity].
          * right. exists f, c', v, n'. split; [exact He1|]. split; [lia|exact Hr].
        + left. exists 1%nat, err. split; [|symmetry; exact H].
          exact (eval_pair_err_eval s3 no env err O _ _ EP).
      - destruct (is_kw operator (d_softfork d)).
        + unfold guard_big. unfold enter_guard in H.
          destruct (first args) as [fa|err]; cbn [bind] in H |- *.
          2:{ left. exists O, err. split; [reflexivity|symmetry; exact H]. }
          destruct (uint_atom 8 _ fa) as [ec|err]; cbn [bind] in H |- *.
          2:{ left. exists O, err. split; [reflexivity|symmetry; exact H]. }
          destruct (_ <? ec); [left; exists O, CostExceeded; split; [reflexivity|symmetry; exact H]|].
          destruct (ec =? 0); [left; exists O, CostExceeded; split; [reflexivity|symmetry; exact H]|].
          destruct (parse_softfork_arguments d args) as [[[ext prg] env]|err].
          2:{ destruct (d_allow_unknown d).
              - cbn [bind] in H. right. exists O, (cost + ec), nil_s, n1. split; [reflexivity|]. split; [lia|exact H].
              - left. exists O, err. split; [reflexivity|symmetry; exact H]. }
          cbn [guards s3] in H.
          destruct (_ && _)%bool; [left; exists O, SoftforkStackDepth; split; [reflexivity|symmetry; exact H]|].
          cbn [vals envs ops guards s3] in H.
          match goal with |- context [eval d M _ (?G :: _) _ prg env] => set (g := G) in * end.
          set (s4 := {| vals := vs; envs := es; ops := OExitGuard :: rest; guards := g :: guards st |}) in *.
          set (gcst := if f_new_cost_model (d_flags d) then NEW_GUARD_COST else GUARD_COST) in *.
          destruct (eval_pair d s4 prg env) as [[c s5]|err] eqn:EP; cbn [bind] in H.
          * replace (cost + (c + gcst)) with (cost + gcst + c) in H by lia.
            destruct (IH n1 ltac:(lia) s4 prg env (cost + gcst) c s5 R HR EP H)
              as [(f & err & He1 & ->)|(f & c1 & v0 & n' & He1 & Hn' & Hr)]; cbn [guards s4] in He1.
            -- left. exists f, err. rewrite He1. split; reflexivity.
            -- destruct n' as [|n'']; [cbn in Hr; congruence|]. cbn [run_loop] in Hr.
               change (push v0 s4) with {| vals := v0 :: vs; envs := es; ops := OExitGuard :: rest; guards := g :: guards st |} in Hr.
               rewrite guard_exit_step in Hr.
               destruct (g_expected g <? c1) eqn:Eb1.
               { left. exists f, CostExceeded. rewrite He1. cbn [bind]. unfold chk. cbn [gs_emax]. rewrite Eb1.
                 split; [reflexivity|symmetry; exact Hr]. }
               destruct (negb (cost_exempt g) && negb (c1 =? g_expected g))%bool eqn:Ex.
               { left. exists f, SoftforkCostMismatch. rewrite He1. cbn [bind]. unfold chk. cbn [gs_emax]. rewrite Eb1.
                 cbn [bind]. rewrite Ex. split; [reflexivity|symmetry; exact Hr]. }
               cbn [bind] in Hr. right.
               exists f, c1, nil_s, n''. rewrite He1. cbn [bind].
               unfold chk. cbn [gs_emax]. rewrite Eb1. cbn [bind]. rewrite Ex.
               split; [reflexivity|]. split; [lia|exact Hr].
          * left. exists 1%nat, err.
            pose proof (eval_pair_err_eval s4 prg env err O (g :: guards st) (cost + gcst) EP) as E1.
            rewrite E1. split; [reflexivity|symmetry; exact H].
        + destruct (d_op d operator args _ _) as [[c v1]|err]; cbn [bind] in H |- *.
          * right. exists O, (cost + c), v1, n1. split; [reflexivity|]. split; [lia|exact H].
          * left. exists O, err. split; [reflexivity|symmetry; exact H].
    Qed.
    Lemma push_operands_ok_nil ol s s' : push_operands ol s = Ok s' -> nil_terminated ol = Ok tt.
    Proof.
      intros H. pose proof (push_operands_nil_terminated ol s) as T.
      destruct (nil_terminated ol) as [[]|en]; [reflexivity|]. rewrite T in H. discriminate.
    Qed.

    Lemma args_outcome env : forall ol n s0 s' cost es R, (n <= N0)%nat -> R <> Err OutOfFuel ->
      envs s0 = env :: es -> push_operands ol s0 = Ok s' -> run_loop d n M cost s' = R ->
      (exists f err, eval_args M (eval d M f) (guards s0) cost ol env = Err err /\ R = Err err) \/
      (exists f c1 tl n', eval_args M (eval d M f) (guards s0) cost ol env = Ok (c1, tl) /\
        (n' <= n)%nat /\ run_loop d n' M c1 (push tl s0) = R).
    Proof.
      induction ol as [b|a _ r0 IHol]; intros n s0 s' cost es R Hn HR He Hp H; cbn [push_operands eval_args] in *.
      - destruct b; [|discriminate]. injection Hp as <-.
        right. exists O, cost, nil_s, n. split; [reflexivity|]. split; [lia|exact H].
      - set (s0' := push a (push_op OSwapEval s0)) in *.
        destruct (IHol n s0' s' cost es R Hn HR He Hp H) as [(f1 & err & Ea1 & ->)|(f1 & c1' & tl' & n1 & Ea1 & Hn1 & Hr1)];
          cbn [guards push push_op s0'] in Ea1.
        { left. exists f1, err. rewrite Ea1. split; reflexivity. }
        destruct n1 as [|n1']; [cbn in Hr1; congruence|]. cbn [run_loop] in Hr1.
        rewrite (step_swap d M c1' (push tl' s0') tl' a (vals s0) env es (ops s0) eq_refl He eq_refl) in Hr1.
        cbn [guards push push_op s0'] in Hr1.
        destruct (chk_cases M (guards s0) c1') as [[Ec Eb]|[Ec Eb]]; rewrite Eb in Hr1.
        2:{ left. exists f1, CostExceeded. rewrite Ea1. cbn [bind]. rewrite Ec. split; [reflexivity|symmetry; exact Hr1]. }
        set (sc := {| vals := tl' :: vals s0; envs := env :: es; ops := OCons :: ops s0; guards := guards s0 |}) in *.
        destruct (eval_pair d sc a env) as [[c s1]|err] eqn:EP; cbn [bind] in Hr1.
        2:{ left. exists (S f1), err.
            rewrite (eval_args_mono' (eval d M f1) (eval d M (S f1)) (eval_mono' f1 (S f1) ltac:(lia)) _ _ _ _ _ Ea1 (not_oof_ok _)).
            cbn [bind]. rewrite Ec. cbn [bind].
            rewrite (eval_pair_err_eval sc a env err f1 (guards s0) c1' EP). split; [reflexivity|symmetry; exact Hr1]. }
        destruct (IH n1' ltac:(lia) sc a env c1' c s1 R HR EP Hr1)
          as [(f2 & err & Ea2 & ->)|(f2 & c2 & v & n2 & Ea2 & Hn2 & Hr2)]; cbn [guards sc] in Ea2.
        { left. exists (Nat.max f1 f2), err.
          rewrite (eval_args_mono' (eval d M f1) (eval d M (Nat.max f1 f2)) (eval_mono' f1 (Nat.max f1 f2) ltac:(lia)) _ _ _ _ _ Ea1 (not_oof_ok _)).
          cbn [bind]. rewrite Ec. cbn [bind].
          rewrite (eval_mono' f2 (Nat.max f1 f2) ltac:(lia) _ _ _ _ _ Ea2 HR). split; reflexivity. }
        destruct n2 as [|n2']; [cbn in Hr2; congruence|]. cbn [run_loop] in Hr2.
        rewrite (step_cons d M c2 (push v sc) v tl' (vals s0) (ops s0) eq_refl eq_refl) in Hr2.
        cbn [guards push sc envs] in Hr2.
        assert (Hev2 : eval_args M (eval d M (Nat.max f1 f2)) (guards s0) cost (Cons a r0) env =
                       (do _ <- chk (guards s0) M c2; Ok (c2, Cons v tl'))).
        { cbn [eval_args].
          rewrite (eval_args_mono' (eval d M f1) (eval d M (Nat.max f1 f2)) (eval_mono' f1 (Nat.max f1 f2) ltac:(lia)) _ _ _ _ _ Ea1 (not_oof_ok _)).
          cbn [bind]. rewrite Ec. cbn [bind].
          rewrite (eval_mono' f2 (Nat.max f1 f2) ltac:(lia) _ _ _ _ _ Ea2 (not_oof_ok _)). reflexivity. }
        destruct (chk_cases M (guards s0) c2) as [[Ec2 Eb2]|[Ec2 Eb2]]; rewrite Eb2 in Hr2; rewrite Ec2 in Hev2; cbn [bind] in Hev2, Hr2.
        2:{ left. exists (Nat.max f1 f2), CostExceeded. split; [exact Hev2|symmetry; exact Hr2]. }
        right. exists (Nat.max f1 f2), c2, (Cons v tl'), n2'. split; [exact Hev2|]. split; [lia|].
        destruct s0 as [v0 e0 o0 g0]. cbn in He, Hr2 |- *. subst e0. exact Hr2.
    Qed.

    Lemma step_outcome : forall s p e cost c s1 R, R <> Err OutOfFuel ->
      eval_pair d s p e = Ok (c, s1) -> run_loop d N0 M (cost + c) s1 = R ->
      (exists f err, eval d M f (guards s) cost p e = Err err /\ R = Err err) \/
      (exists f c' v n', eval d M f (guards s) cost p e = Ok (c', v) /\ (n' <= N0)%nat /\
                         run_loop d n' M c' (push v s) = R).
    Proof.
      intros s p e cost c s1 R HR EP H. unfold eval_pair in EP.
      destruct p as [b|opn opl].
      - destruct (traverse_path b e) as [[c0 v0]|] eqn:Et; cbn [bind] in EP; [|discriminate].
        injection EP as <- <-. right. exists 1%nat, (cost + c0), v0, N0. cbn [eval eval_body]. rewrite Et.
        split; [reflexivity|]. split; [lia|exact H].
      - destruct opn as [b|no tl].
        + unfold eval_op_atom in EP. destruct (is_kw (Atom b) (d_quote d)) eqn:Eq.
          * injection EP as <- <-. right. exists 1%nat, (cost + QUOTE_COST), opl, N0. cbn [eval eval_body]. rewrite Eq.
            split; [reflexivity|]. split; [lia|exact H].
          * set (s1' := if d_gc d (Atom b) then push_op ORestore s else s) in *.
            assert (Hg1 : guards s1' = guards s) by (subst s1'; destruct (d_gc d (Atom b)); reflexivity).
            set (s2 := push (Atom b) (push_op OApply (push_env e s1'))) in *.
            destruct (push_operands opl s2) as [s3|] eqn:Hp; cbn [bind] in EP; [|discriminate].
            injection EP as <- <-.
            pose proof (push_operands_ok_nil _ _ _ Hp) as Hnt.
            destruct (args_outcome e opl N0 s2 s3 (cost + OP_COST) (envs s1') R (le_n _) HR eq_refl Hp H)
              as [(f1 & err & Ea & ->)|(f1 & c1 & args & n1 & Ea & Hn1 & Hr1)];
              cbn [guards push push_op push_env s2] in Ea; rewrite Hg1 in Ea.
            { left. exists (S f1), err. cbn [eval]. unfold eval_body. rewrite Eq, Hnt. cbn [bind]. rewrite Ea.
              split; reflexivity. }
            destruct (apply_outcome n1 Hn1 (push args s2) args (Atom b) (vals s1') e (envs s1') (ops s1') c1 R HR
                        eq_refl eq_refl eq_refl Hr1)
              as [(f2 & err & Eap & ->)|(f2 & c2 & v & n2 & Eap & Hn2 & Hr2)];
              cbn [guards push push_op push_env s2] in Eap; rewrite Hg1 in Eap.
            { left. exists (S (Nat.max f1 f2)), err. cbn [eval]. unfold eval_body. rewrite Eq, Hnt. cbn [bind].
              rewrite (eval_args_mono' (eval d M f1) (eval d M (Nat.max f1 f2)) (eval_mono' f1 (Nat.max f1 f2) ltac:(lia)) _ _ _ _ _ Ea (not_oof_ok _)).
              cbn [bind].
              rewrite (apply_big_mono' (eval d M f2) (eval d M (Nat.max f1 f2)) (eval_mono' f2 (Nat.max f1 f2) ltac:(lia)) _ _ _ _ _ Eap HR).
              split; reflexivity. }
            cbn [guards push push_op push_env s2] in Hr2.
            assert (Hev : eval_body d M (eval d M (Nat.max f1 f2)) (guards s) cost (Cons (Atom b) opl) e =
                          (if d_gc d (Atom b) then do _ <- chk (guards s) M c2; Ok (c2, v) else Ok (c2, v))).
            { unfold eval_body. rewrite Eq, Hnt. cbn [bind].
              rewrite (eval_args_mono' (eval d M f1) (eval d M (Nat.max f1 f2)) (eval_mono' f1 (Nat.max f1 f2) ltac:(lia)) _ _ _ _ _ Ea (not_oof_ok _)).
              cbn [bind].
              rewrite (apply_big_mono' (eval d M f2) (eval d M (Nat.max f1 f2)) (eval_mono' f2 (Nat.max f1 f2) ltac:(lia)) _ _ _ _ _ Eap (not_oof_ok _)).
              reflexivity. }
            subst s1'. destruct (d_gc d (Atom b)).
            -- destruct n2 as [|n3]; [cbn in Hr2; congruence|]. cbn [run_loop] in Hr2.
               change {| vals := v :: vals (push_op ORestore s); envs := envs (push_op ORestore s);
                         ops := ops (push_op ORestore s); guards := guards (push_op ORestore s) |}
                 with {| vals := v :: vals s; envs := envs s; ops := ORestore :: ops s; guards := guards s |} in Hr2.
               rewrite (step_restore d M c2 {| vals := v :: vals s; envs := envs s; ops := ORestore :: ops s; guards := guards s |}
                          v (vals s) (ops s) eq_refl eq_refl) in Hr2.
               cbn [guards envs] in Hr2.
               destruct (chk_cases M (guards s) c2) as [[Ec Eb]|[Ec Eb]]; rewrite Eb in Hr2; rewrite Ec in Hev; cbn [bind] in Hr2, Hev.
               ++ right. exists (S (Nat.max f1 f2)), c2, v, n3. cbn [eval]. split; [exact Hev|]. split; [lia|exact Hr2].
               ++ left. exists (S (Nat.max f1 f2)), CostExceeded. cbn [eval]. split; [exact Hev|symmetry; exact Hr2].
            -- right. exists (S (Nat.max f1 f2)), c2, v, n2. cbn [eval]. split; [exact Hev|]. split; [lia|].
               destruct s; exact Hr2.
        + destruct tl as [tb|]; [destruct no as [nb|]|]; try discriminate.
          injection EP as <- <-.
          destruct (apply_outcome N0 (le_n _) (push_op OApply (push opl (push (Atom nb) (push_env e s))))
                      opl (Atom nb) (vals s) e (envs s) (ops s) (cost + APPLY_COST) R HR eq_refl eq_refl eq_refl H)
            as [(f & err & Eap & ->)|(f & c' & v & n' & Eap & Hn' & Hr)];
            cbn [guards push push_op push_env] in Eap.
          * left. exists (S f), err. cbn [eval eval_body]. split; [exact Eap|reflexivity].
          * right. exists (S f), c', v, n'. cbn [eval eval_body]. cbn [guards push push_op push_env] in Hr.
            split; [exact Eap|]. split; [lia|]. destruct s; exact Hr.
    Qed.
  End Outcome.

  Lemma eval_outcome : forall N0, outcome_upto N0.
  Proof.
    induction N0 as [|N0 IH]; intros n Hn; [lia|].
    destruct (Nat.eq_dec n N0) as [->|Hne].
    - apply step_outcome. exact IH.
    - apply IH. lia.
  Qed.

  (* whatever the machine's outcome (other than fuel exhaustion): the evaluator reports that
     error, or returns (c', v) and the continuation produces the outcome from [push v s] *)
  Theorem machine_outcome_to_eval n s p e cost c s1 R : R <> Err OutOfFuel ->
    eval_pair d s p e = Ok (c, s1) -> run_loop d n M (cost + c) s1 = R ->
    (exists f err, eval d M f (guards s) cost p e = Err err /\ R = Err err) \/
    (exists f c' v n', eval d M f (guards s) cost p e = Ok (c', v) /\ (n' <= n)%nat /\
                       run_loop d n' M c' (push v s) = R).
  Proof. apply (eval_outcome (S n)). lia. Qed.

  (* the two semantics have the same outcomes *)
  Theorem run_big_outcomes p e R : R <> Err OutOfFuel ->
    ((exists fuel, (do '(c, s) <- eval_pair d init_state p e; run_loop d fuel M c s) = R) <->
     (exists fuel, run_big d M fuel p e = R)).
  Proof.
    intros HR. split.
    - intros (fuel & H).
      destruct (eval_pair d init_state p e) as [[c s]|err] eqn:EP; cbn [bind] in H.
      2:{ exists 1%nat. unfold run_big. rewrite (eval_pair_err_eval init_state p e err O [] 0 EP). exact H. }
      rewrite <- (N.add_0_l c) in H.
      destruct (machine_outcome_to_eval fuel init_state p e 0 c s R HR EP H)
        as [(f & err & He & ->)|(f & c' & v & n' & He & _ & Hr)]; cbn [guards init_state] in He.
      + exists f. unfold run_big. rewrite He. reflexivity.
      + exists f. unfold run_big. rewrite He. cbn [bind].
        destruct n' as [|n'']; [cbn in Hr; congruence|]. cbn [run_loop] in Hr. unfold step in Hr.
        cbn [push init_state ops vals envs guards effective_max] in Hr. unfold chk. cbn [gs_emax].
        destruct (M <? c'); cbn [bind pop vals] in Hr |- *; exact Hr.
    - intros (fuel & H). destruct R as [r|err].
      + apply (proj2 (run_big_equiv d M p e r)). exists fuel. exact H.
      + assert (Hne : err <> OutOfFuel) by congruence.
        unfold run_big in H.
        destruct (eval d M fuel [] 0 p e) as [[c' v]|err1] eqn:He; cbn [bind] in H.
        * destruct (chk_cases M [] c') as [[Ec Eb]|[Ec Eb]]; rewrite Ec in H; cbn [bind] in H; [discriminate|].
          injection H as <-.
          destruct (eval_to_machine d M fuel [] 0 p e c' v init_state He eq_refl) as (c & s1 & k & EP & Hk).
          rewrite EP. cbn [bind]. rewrite N.add_0_l in Hk.
          assert (St : stuck CostExceeded (c, s1)).
          { eapply stuck_after; [exact Hk|]. apply stuck_now. unfold step.
            cbn [push init_state ops vals envs guards effective_max]. cbn [gs_emax] in Eb. rewrite Eb. reflexivity. }
          destruct (stuck_run_loop _ _ St) as (k0 & Hk0). exists (S k0). apply Hk0. lia.
        * injection H as ->.
          pose proof (eval_err_sound fuel [] 0 p e err He Hne init_state eq_refl) as T.
          destruct (eval_pair d init_state p e) as [[c s1]|e']; cbn [bind].
          -- rewrite N.add_0_l in T. destruct (stuck_run_loop _ _ T) as (k0 & Hk0). exists (S k0). apply Hk0. lia.
          -- subst e'. exists O. reflexivity.
  Qed.
End Errors.

(* run_program and the big-step evaluator have the same outcomes - results and errors *)
Theorem run_program_big_outcomes d p e max_cost R : R <> Err OutOfFuel ->
  ((exists fuel, run_program d fuel p e max_cost = R) <->
   (exists fuel, run_program_big d fuel p e max_cost = R)).
Proof. unfold run_program, run_program_big. apply run_big_outcomes. Qed.

