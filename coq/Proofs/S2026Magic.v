(* Proofs about Model/S2026.v, part 6: both back-reference decoders (Model/BackRef.v: the current
   node_from_stream_backrefs and the legacy node_from_stream_backrefs_old), the back-reference
   grammar de_br_spec and the back-reference length probe reject every blob that starts with the
   2026 magic prefix: its first byte 0xfd is neither the cons marker 0xff nor the back-reference
   marker 0xfe, and as the first byte of an atom it announces a size prefix longer than the format
   allows. The pair counters are left untouched. *)
From Clvm Require Import Model.S2026 Model.Classic Model.BackRef Proofs.S2026Probe.
Local Open Scope N_scope.

Lemma de_fuel_S bs : de_fuel bs = S (2 * length bs + 1).
Proof. unfold de_fuel. rewrite <- plus_n_Sm. now rewrite Nat.add_1_r. Qed.

Lemma magic_split r : magic ++ r = 0xfd :: ([0xff; 0x32; 0x30; 0x32; 0x36] ++ r).
Proof. reflexivity. Qed.

Lemma read_atom_magic r : read_atom_node 0xfd ([0xff; 0x32; 0x30; 0x32; 0x36] ++ r) = Err SerializationError.
Proof.
  unfold read_atom_node. pose proof (parse_atom_rejects_magic r) as H. cbn [magic app] in H.
  destruct H as [_ [_ H]]. cbn [app]. rewrite H. reflexivity.
Qed.

Lemma br_loop_first {St} (on_atom : N -> bytes -> St -> res (St * bytes)) on_backref on_cons f ops (st : St) r e :
  on_atom 0xfd r st = Err e ->
  br_loop on_atom on_backref on_cons (S f) (OpSExp :: ops) st (0xfd :: r) = (st, Err e).
Proof.
  intros H. cbn [br_loop]. change (0xfd =? 0xff) with false. change (0xfd =? 0xfe) with false.
  cbv iota. rewrite H. reflexivity.
Qed.

Theorem backrefs_reject_magic r :
  node_from_stream_backrefs (magic ++ r) = (0, Err SerializationError).
Proof.
  unfold node_from_stream_backrefs, new_loop. rewrite de_fuel_S, magic_split.
  rewrite (br_loop_first new_on_atom new_on_backref new_on_cons _ _ _ _ SerializationError).
  - reflexivity.
  - unfold new_on_atom. rewrite read_atom_magic. reflexivity.
Qed.

Theorem backrefs_old_reject_magic r :
  node_from_stream_backrefs_old (magic ++ r) = (0, Err SerializationError).
Proof.
  unfold node_from_stream_backrefs_old, old_loop. rewrite de_fuel_S, magic_split.
  rewrite (br_loop_first old_on_atom old_on_backref old_on_cons _ _ _ _ SerializationError).
  - reflexivity.
  - unfold old_on_atom. rewrite read_atom_magic. reflexivity.
Qed.

Theorem br_spec_rejects_magic r : de_br_spec (magic ++ r) = Err SerializationError.
Proof.
  unfold de_br_spec. rewrite magic_split. cbn [parse_br].
  change (0xfd =? 0xff) with false. change (0xfd =? 0xfe) with false. cbv iota.
  apply read_atom_magic.
Qed.

Theorem br_probe_rejects_magic r : serialized_length_from_bytes (magic ++ r) = Err SerializationError.
Proof.
  unfold serialized_length_from_bytes, probe_loop. rewrite de_fuel_S, magic_split.
  rewrite (br_loop_first probe_on_atom probe_on_backref probe_on_cons _ _ _ _ SerializationError).
  - reflexivity.
  - unfold probe_on_atom. change ((0xfd =? 0x80) || (0xfd <=? 0x7f)) with false. cbv iota.
    pose proof (parse_atom_rejects_magic r) as H. cbn [magic app] in H. destruct H as [_ [_ H]].
    unfold parse_atom_node in H. cbn [app].
    destruct (decode_size 0xfd (0xff :: 0x32 :: 0x30 :: 0x32 :: 0x36 :: r)) as [[sz r1]|e] eqn:E; [|].
    + exfalso. revert E. vm_compute. discriminate.
    + revert E. vm_compute. intros E. inversion E. reflexivity.
Qed.
