(* C10: a successful operator call charges exactly the documented cost (Model/CostSpec.v). *)
From Coq Require Import Lia ZifyBool ZifyN ZifyNat.
From Clvm Require Import Model.CostSpec Proofs.OpContractsCrypto Proofs.UnknownProofs Proofs.OpContractsMore.
Open Scope N_scope.
Arguments N.add : simpl never.
Arguments N.sub : simpl never.
Arguments N.mul : simpl never.
Arguments N.div : simpl never.
Arguments N.eqb : simpl never.
Arguments N.ltb : simpl never.
Arguments N.leb : simpl never.
Arguments N.max : simpl never.
Arguments N.of_nat : simpl never.

Lemma n_args_cons x r : n_args (Cons x r) = 1 + n_args r.
Proof. unfold n_args. cbn [arg_list length]. lia. Qed.
Lemma n_args_atom b : n_args (Atom b) = 0.
Proof. reflexivity. Qed.
Lemma sum_lens_cons b bs : sum_lens (b :: bs) = blen b + sum_lens bs.
Proof. reflexivity. Qed.

Ltac ok_inv H := apply Ok_inj2 in H; inversion H; clear H; subst.
Ltac chk H m :=
  match type of H with context [check_cost ?c m] =>
    destruct (check_cost c m); cbn [bind] in H; [|discriminate H] end.

(* ---------------- add / subtract ---------------- *)
Lemma add_loop_old_cost pa pb a : forall cost acc m c t,
  add_loop false pa pb a cost acc m = Ok (c, t) ->
  c = cost + n_args a * pa + sum_lens (arg_atoms a) * pb.
Proof.
  induction a as [b|x _ r IH]; intros cost acc m c t H; cbn [add_loop] in H.
  - ok_inv H. rewrite n_args_atom. cbn [arg_atoms sum_lens fold_right]. lia.
  - destruct x as [b|]; [|discriminate H]. cbv zeta in H. chk H m.
    apply IH in H. rewrite n_args_cons. cbn [arg_atoms]. rewrite sum_lens_cons. lia.
Qed.

Lemma add_loop_new_cost pb a : forall cost acc m c t fst,
  add_loop true NEW_ARITH_COST_PER_ARG pb a cost acc m = Ok (c, t) -> pb = NEW_ARITH_COST_PER_BYTE ->
  c = cost + new_arith_steps false (arg_atoms a) acc fst.
Proof.
  induction a as [b|x _ r IH]; intros cost acc m c t fst H Hpb; cbn [add_loop] in H.
  - ok_inv H. cbn [arg_atoms new_arith_steps]. lia.
  - destruct x as [b|]; [|discriminate H]. cbv zeta in H. chk H m.
    apply (IH _ _ _ _ _ false) in H; [|exact Hpb]. cbn [arg_atoms new_arith_steps andb]. subst pb. lia.
Qed.

Theorem add_cost f a m c v : op_add f a m = Ok (c, v) -> c = spec_add f a v.
Proof.
  unfold op_add, spec_add, spec_arith, arith_costs. intros H.
  destruct (f_new_cost_model f).
  - destruct (add_loop _ _ _ _ _ _ _) as [[c0 t]|] eqn:E; cbn [bind] in H; [|discriminate H].
    unfold malloc_cost in H. ok_inv H. apply (add_loop_new_cost _ _ _ _ _ _ _ true) in E; [|reflexivity].
    unfold malloc, result_len. lia.
  - destruct (add_loop _ _ _ _ _ _ _) as [[c0 t]|] eqn:E; cbn [bind] in H; [|discriminate H].
    unfold malloc_cost in H. ok_inv H. apply add_loop_old_cost in E. unfold malloc, result_len. lia.
Qed.

Lemma sub_loop_old_cost pa pb a : forall cost acc fst m c t,
  sub_loop false pa pb a cost acc fst m = Ok (c, t) ->
  c = cost + n_args a * pa + sum_lens (arg_atoms a) * pb.
Proof.
  induction a as [b|x _ r IH]; intros cost acc fst m c t H; cbn [sub_loop] in H.
  - ok_inv H. rewrite n_args_atom. cbn [arg_atoms sum_lens fold_right]. lia.
  - cbv zeta in H. chk H m. destruct x as [b|]; [|discriminate H]. chk H m.
    apply IH in H. rewrite n_args_cons. cbn [arg_atoms]. rewrite sum_lens_cons. lia.
Qed.

Lemma sub_loop_new_cost pb a : forall cost acc fst m c t,
  sub_loop true NEW_ARITH_COST_PER_ARG pb a cost acc fst m = Ok (c, t) -> pb = NEW_ARITH_COST_PER_BYTE ->
  c = cost + new_arith_steps true (arg_atoms a) acc fst.
Proof.
  induction a as [b|x _ r IH]; intros cost acc fst m c t H Hpb; cbn [sub_loop] in H.
  - ok_inv H. cbn [arg_atoms new_arith_steps]. lia.
  - cbv zeta in H. chk H m. destruct x as [b|]; [|discriminate H]. chk H m.
    apply IH in H; [|exact Hpb]. cbn [arg_atoms new_arith_steps andb]. subst pb.
    destruct fst; cbn [negb] in *; lia.
Qed.

Theorem subtract_cost f a m c v : op_subtract f a m = Ok (c, v) -> c = spec_subtract f a v.
Proof.
  unfold op_subtract, spec_subtract, spec_arith, arith_costs. intros H.
  destruct (f_new_cost_model f).
  - destruct (sub_loop _ _ _ _ _ _ _ _) as [[c0 t]|] eqn:E; cbn [bind] in H; [|discriminate H].
    unfold malloc_cost in H. ok_inv H. apply sub_loop_new_cost in E; [|reflexivity].
    unfold malloc, result_len. lia.
  - destruct (sub_loop _ _ _ _ _ _ _ _) as [[c0 t]|] eqn:E; cbn [bind] in H; [|discriminate H].
    unfold malloc_cost in H. ok_inv H. apply sub_loop_old_cost in E. unfold malloc, result_len. lia.
Qed.

(* ---------------- multiply ---------------- *)
Lemma mul_loop_cost limits ncm d a : forall cost total l0 m c t,
  mul_loop limits ncm d a cost total l0 m = Ok (c, t) ->
  c = cost + mul_steps d (arg_atoms a) total l0.
Proof.
  induction a as [b|x _ r IH]; intros cost total l0 m c t H; cbn [mul_loop] in H.
  - ok_inv H. cbn [arg_atoms mul_steps]. lia.
  - destruct x as [b|]; [|discriminate H]. cbv zeta in H.
    destruct (limits && negb ncm && (256 <? blen b)); [discriminate H|]. chk H m.
    destruct (limits && negb ncm && (1024 <? _)); [discriminate H|].
    apply IH in H. cbn [arg_atoms mul_steps]. cbv zeta. rewrite H. dlia.
Qed.

Theorem multiply_cost f a m c v : op_multiply f a m = Ok (c, v) -> c = spec_multiply f a v.
Proof.
  unfold op_multiply, spec_multiply. cbv zeta. intros H.
  destruct a as [b|x r].
  - unfold malloc_cost in H. ok_inv H. cbn [arg_atoms]. unfold malloc, result_len.
    destruct (f_new_cost_model f); lia.
  - destruct x as [b|]; [|discriminate H]. cbn [arg_atoms].
    destruct (f_limits f && negb (f_new_cost_model f) && (256 <? blen b)); [discriminate H|].
    destruct (f_new_cost_model f); cbn [bind] in H.
    + chk H m. cbn [bind] in H.
      destruct (mul_loop _ _ _ _ _ _ _ _) as [[c0 t]|] eqn:E; cbn [bind] in H; [|discriminate H].
      unfold malloc_cost in H. ok_inv H. apply mul_loop_cost in E. unfold malloc, result_len. lia.
    + destruct (mul_loop _ _ _ _ _ _ _ _) as [[c0 t]|] eqn:E; cbn [bind] in H; [|discriminate H].
      unfold malloc_cost in H. ok_inv H. apply mul_loop_cost in E. unfold malloc, result_len. lia.
Qed.

(* ---------------- div family, modpow ---------------- *)
Ltac args2 a H :=
  destruct a as [?|[b0|? ?] [?|[b1|? ?] [?|? ?]]]; cbn [get_args2 bind int_atom_lazy malachite_int_atom_lazy int_atom atom_of] in H;
  try discriminate H.

Lemma new_div_cost a0 a1 c : compute_new_div_cost a0 a1 = Ok c ->
  c = NEW_DIV_BASE_COST + (a0 + a1) * NEW_DIV_LINEAR_COST_PER_BYTE + (a0 * a1) / NEW_DIV_SQUARE_COST_PER_BYTE_DIVIDER.
Proof.
  unfold compute_new_div_cost. intros H. destruct (checked_mul a0 a1) eqn:E; cbn [ok_or_cost bind] in H; [|discriminate H].
  unfold checked_mul in E. destruct (a0 * a1 <? two64); inversion E; subst. ok_inv H. reflexivity.
Qed.

Ltac div_tail H m :=
  unfold spec_div, spec_mod, spec_divmod, spec_div_family, two_lens; cbn [arg_atoms];
  destruct (_ && _ && _); [discriminate H|]; destruct (_ && _ && _); [discriminate H|];
  match type of H with context [if f_new_cost_model ?f then _ else _] => destruct (f_new_cost_model f) end;
  [ match type of H with context [compute_new_div_cost ?x ?y] =>
      let E := fresh "E" in destruct (compute_new_div_cost x y) eqn:E; cbn [bind] in H; [|discriminate H];
      apply new_div_cost in E end
  | cbn [bind] in H ];
  chk H m; match type of H with context [if ?b then _ else _] => destruct b; [discriminate H|] end;
  unfold malloc_cost in H; ok_inv H; unfold malloc, result_len; try dlia.

Theorem div_num_cost f a m c v : op_div_num f a m = Ok (c, v) -> c = spec_div f a v.
Proof. unfold op_div_num. intros H. args2 a H. div_tail H m. Qed.
Theorem mod_num_cost f a m c v : op_mod_num f a m = Ok (c, v) -> c = spec_mod f a v.
Proof. unfold op_mod_num. intros H. args2 a H. div_tail H m. Qed.
Theorem divmod_num_cost f a m c v : op_divmod_num f a m = Ok (c, v) -> c = spec_divmod f a v.
Proof. unfold op_divmod_num. intros H. args2 a H. div_tail H m. Qed.

Lemma modpow_cost_formula b e m ncm c : compute_modpow_cost b e m ncm = Ok c ->
  c = if ncm then MODPOW_BASE_COST + e * NEW_MODPOW_EXPONENT_MULTIPLIER * (m * m + NEW_MODPOW_PER_ITERATION_COST) + b * m
      else MODPOW_BASE_COST + b * MODPOW_COST_PER_BYTE_BASE_VALUE + e * e * MODPOW_COST_PER_BYTE_EXPONENT
           + m * m * MODPOW_COST_PER_BYTE_MOD.
Proof.
  unfold compute_modpow_cost. destruct ncm; intros H.
  - repeat match type of H with
           | context [checked_mul ?x ?y] =>
               let E := fresh "E" in destruct (checked_mul x y) eqn:E; cbn [ok_or_cost bind] in H; [|discriminate H];
               apply OpContractsMore.checked_mul_ok in E; subst
           | context [checked_add ?x ?y] =>
               let E := fresh "E" in destruct (checked_add x y) eqn:E; cbn [ok_or_cost bind] in H; [|discriminate H];
               apply OpContractsMore.checked_add_ok in E; subst
           end.
    ok_inv H. reflexivity.
  - ok_inv H. reflexivity.
Qed.

Theorem modpow_num_cost f a m c v : op_modpow_num f a m = Ok (c, v) -> c = spec_modpow f a v.
Proof.
  unfold op_modpow_num. cbv zeta. intros H.
  destruct a as [?|[b0|? ?] [?|[b1|? ?] [?|[b2|? ?] [?|? ?]]]]; cbn [get_args3 bind int_atom_lazy] in H; try discriminate H.
  destruct (compute_modpow_cost _ _ _ _) eqn:E; cbn [bind] in H; [|discriminate H].
  apply modpow_cost_formula in E. chk H m.
  destruct (_ && _ && _); [discriminate H|]. destruct (_ <? _)%Z; [discriminate H|].
  destruct (_ =? _)%Z; [discriminate H|]. unfold malloc_cost in H. ok_inv H.
  unfold spec_modpow, malloc, result_len. cbn [arg_atoms]. destruct (f_new_cost_model f); lia.
Qed.

(* the exported operators: through the twin equality *)
Theorem div_cost f a m c v : op_div f a m = Ok (c, v) -> c = spec_div f a v.
Proof.
  unfold op_div, op_div_malachite. rewrite (OpContractsMore.div_twins _ OpContractsMore.malachite_lib_ok).
  destruct (f_malachite f); apply div_num_cost.
Qed.
Theorem mod_cost f a m c v : op_mod f a m = Ok (c, v) -> c = spec_mod f a v.
Proof.
  unfold op_mod, op_mod_malachite. rewrite (OpContractsMore.mod_twins _ OpContractsMore.malachite_lib_ok).
  destruct (f_malachite f); apply mod_num_cost.
Qed.
Theorem divmod_cost f a m c v : op_divmod f a m = Ok (c, v) -> c = spec_divmod f a v.
Proof.
  unfold op_divmod, op_divmod_malachite. rewrite (OpContractsMore.divmod_twins _ OpContractsMore.malachite_lib_ok).
  destruct (f_malachite f); apply divmod_num_cost.
Qed.
Theorem modpow_cost f a m c v : op_modpow f a m = Ok (c, v) -> c = spec_modpow f a v.
Proof.
  unfold op_modpow, op_modpow_malachite. rewrite (OpContractsMore.modpow_twins _ OpContractsMore.malachite_lib_ok).
  destruct (f_malachite f); apply modpow_num_cost.
Qed.

(* ---------------- comparisons, strings ---------------- *)
Theorem gr_cost f a m c v : op_gr f a m = Ok (c, v) -> c = spec_gr f a v.
Proof.
  unfold op_gr, spec_gr, two_lens. intros H.
  destruct (f_new_cost_model f); args2 a H; cbn [arg_atoms]; ok_inv H; reflexivity.
Qed.

Theorem gr_bytes_cost f a m c v : op_gr_bytes f a m = Ok (c, v) -> c = spec_gr_bytes f a v.
Proof.
  unfold op_gr_bytes, spec_gr_bytes, two_lens. intros H. args2 a H. cbn [arg_atoms]. ok_inv H. reflexivity.
Qed.

Theorem strlen_cost f a m c v : op_strlen f a m = Ok (c, v) -> c = spec_strlen f a v.
Proof.
  unfold op_strlen, spec_strlen. intros H.
  destruct a as [?|[b0|? ?] [?|? ?]]; cbn [get_args1 bind atom_of] in H; try discriminate H.
  cbv zeta in H. unfold malloc_cost in H. ok_inv H. cbn [arg_atoms firstn]. rewrite sum_lens_cons.
  unfold malloc, result_len. cbn [sum_lens fold_right]. lia.
Qed.

Theorem substr_cost f a m c v : op_substr f a m = Ok (c, v) -> c = spec_substr f a v.
Proof.
  unfold op_substr, spec_substr. cbv zeta. intros H.
  destruct (get_varargs 3 a) as [[|a0 [|st tl]]|]; cbn [bind] in H; try discriminate H.
  destruct (atom_of a0); cbn [bind] in H; [|discriminate H].
  destruct (i32_atom st); cbn [bind] in H; [|discriminate H].
  destruct (match tl with [] => _ | _ => _ end); cbn [bind] in H; [|discriminate H].
  destruct (_ || _ || _ || _); [discriminate H|]. ok_inv H. reflexivity.
Qed.

Lemma concat_rev_len terms : forall acc,
  blen (fold_left (fun acc t => t ++ acc) terms acc) = sum_lens terms + blen acc.
Proof.
  induction terms as [|t r IH]; intros acc; cbn [fold_left].
  - cbn. lia.
  - rewrite IH. rewrite sum_lens_cons. unfold blen. rewrite app_length. lia.
Qed.

Lemma concat_loop_cost a : forall cost terms m c ts,
  concat_loop a cost terms m = Ok (c, ts) ->
  c = cost + n_args a * CONCAT_COST_PER_ARG + sum_lens (arg_atoms a) * (CONCAT_COST_PER_BYTE + MALLOC_COST_PER_BYTE) /\
  sum_lens ts = sum_lens terms + sum_lens (arg_atoms a).
Proof.
  induction a as [b|x _ r IH]; intros cost terms m c ts H; cbn [concat_loop] in H.
  - ok_inv H. rewrite n_args_atom. cbn [arg_atoms sum_lens fold_right]. lia.
  - destruct x as [b|]; [|discriminate H]. cbv zeta in H. chk H m.
    apply IH in H. destruct H as [H1 H2]. rewrite n_args_cons. cbn [arg_atoms]. rewrite !sum_lens_cons in *. lia.
Qed.

Theorem concat_cost f a m c v : op_concat f a m = Ok (c, v) -> c = spec_concat f a v.
Proof.
  unfold op_concat, spec_concat. intros H.
  destruct (concat_loop _ _ _ _) as [[c0 ts]|] eqn:E; cbn [bind] in H; [|discriminate H].
  ok_inv H. apply concat_loop_cost in E. destruct E as [E1 E2].
  unfold malloc, result_len, concat_rev. rewrite concat_rev_len. cbn [sum_lens fold_right] in *.
  change (blen []) with 0. lia.
Qed.

(* ---------------- shifts, lognot, booleans ---------------- *)
Section NeedsRoundTrip.
  (* decoding the minimal encoding gives the number back (Proofs/IntEncBasics-style fact, taken
     as a premise here and discharged in Props/C10.v where available) *)
  Hypothesis int_bytes_roundtrip : forall z, int_of_bytes (bytes_of_int z) = z.

  Theorem ash_cost f a m c v : op_ash f a m = Ok (c, v) -> c = spec_ash f a v.
  Proof.
    unfold op_ash, spec_ash, spec_shift. intros H. args2 a H.
    destruct (i32_atom _); cbn [bind] in H; [|discriminate H].
    destruct (_ || _)%Z; [discriminate H|]. cbv zeta in H. unfold malloc_cost in H. ok_inv H.
    cbn [arg_atoms firstn]. rewrite sum_lens_cons. cbn [sum_lens fold_right]. cbv zeta.
    rewrite int_bytes_roundtrip. unfold malloc, result_len. lia.
  Qed.

  Theorem lsh_cost f a m c v : op_lsh f a m = Ok (c, v) -> c = spec_lsh f a v.
  Proof.
    unfold op_lsh, spec_lsh, spec_shift. intros H. args2 a H.
    destruct (i32_atom _); cbn [bind] in H; [|discriminate H].
    destruct (_ || _)%Z; [discriminate H|]. cbv zeta in H. unfold malloc_cost in H. ok_inv H.
    cbn [arg_atoms firstn]. rewrite sum_lens_cons. cbn [sum_lens fold_right]. cbv zeta.
    rewrite int_bytes_roundtrip. unfold malloc, result_len. lia.
  Qed.
End NeedsRoundTrip.

Theorem lognot_cost f a m c v : op_lognot f a m = Ok (c, v) -> c = spec_lognot f a v.
Proof.
  unfold op_lognot, spec_lognot. intros H.
  destruct a as [?|[b0|? ?] [?|? ?]]; cbn [get_args1 bind int_atom] in H; try discriminate H.
  cbv zeta in H. unfold malloc_cost in H. ok_inv H. cbn [arg_atoms firstn]. rewrite sum_lens_cons.
  unfold malloc, result_len. cbn [sum_lens fold_right]. lia.
Qed.

Theorem not_cost f a m c v : op_not f a m = Ok (c, v) -> c = spec_not f a v.
Proof.
  unfold op_not, spec_not. intros H. destruct (get_args1 a); cbn [bind] in H; [|discriminate H]. ok_inv H. reflexivity.
Qed.

Lemma bool_loop_cost is_any a : forall cost acc m c r,
  bool_loop a cost acc is_any m = Ok (c, r) -> c = cost + n_args a * BOOL_COST_PER_ARG.
Proof.
  induction a as [b|x _ r IH]; intros cost acc m c r0 H; cbn [bool_loop] in H.
  - ok_inv H. rewrite n_args_atom. lia.
  - cbv zeta in H. chk H m. apply IH in H. rewrite n_args_cons. lia.
Qed.

Theorem any_cost f a m c v : op_any f a m = Ok (c, v) -> c = spec_any f a v.
Proof.
  unfold op_any, spec_any. intros H. destruct (bool_loop _ _ _ _ _) as [[c0 r]|] eqn:E; cbn [bind] in H; [|discriminate H].
  ok_inv H. apply bool_loop_cost in E. exact E.
Qed.
Theorem all_cost f a m c v : op_all f a m = Ok (c, v) -> c = spec_all f a v.
Proof.
  unfold op_all, spec_all, spec_any. intros H. destruct (bool_loop _ _ _ _ _) as [[c0 r]|] eqn:E; cbn [bind] in H; [|discriminate H].
  ok_inv H. apply bool_loop_cost in E. exact E.
Qed.

(* ---------------- logand / logior / logxor ---------------- *)
Lemma binop_loop_old_cost opf a : forall cost p n m c r,
  binop_loop false opf a cost p n m = Ok (c, r) ->
  c = cost + n_args a * LOG_COST_PER_ARG + sum_lens (arg_atoms a) * LOG_COST_PER_BYTE.
Proof.
  induction a as [b|x _ r IH]; intros cost p n m c r0 H; cbn [binop_loop] in H.
  - ok_inv H. rewrite n_args_atom. cbn [arg_atoms sum_lens fold_right]. lia.
  - destruct x as [b|]; [|discriminate H]. cbv zeta in H. chk H m.
    destruct (_ <? _)%Z; apply IH in H; rewrite n_args_cons; cbn [arg_atoms]; rewrite sum_lens_cons; lia.
Qed.

(* what the code charges under the new model *)
Lemma binop_loop_new_cost opf a : forall cost p n m c r,
  binop_loop true opf a cost p n m = Ok (c, r) ->
  c = cost + n_args a * LOG_COST_PER_ARG + code_logic_bytes opf (arg_atoms a) p * LOG_COST_PER_BYTE.
Proof.
  induction a as [b|x _ r IH]; intros cost p n m c r0 H; cbn [binop_loop] in H.
  - ok_inv H. rewrite n_args_atom. cbn [arg_atoms code_logic_bytes]. lia.
  - destruct x as [b|]; [|discriminate H]. cbv zeta in H. chk H m.
    apply IH in H. rewrite n_args_cons. cbn [arg_atoms code_logic_bytes]. lia.
Qed.

Theorem logic_cost iv opf f a m c v :
  logic_docs_agree iv opf f a ->
  binop_reduction iv opf f a m = Ok (c, v) -> c = spec_logic iv opf f a v.
Proof.
  unfold binop_reduction, spec_logic, logic_docs_agree. cbv zeta. intros Hd H.
  destruct (binop_loop _ _ _ _ _ _ _) as [[c0 [p n]]|] eqn:E; cbn [bind] in H; [|discriminate H].
  unfold malloc_cost in H. ok_inv H. unfold malloc, result_len.
  destruct (f_new_cost_model f).
  - apply binop_loop_new_cost in E. rewrite (Hd eq_refl). lia.
  - apply binop_loop_old_cost in E. lia.
Qed.

(* pre-hard-fork the documented formula always holds *)
Theorem logic_cost_old iv opf f a m c v :
  f_new_cost_model f = false ->
  binop_reduction iv opf f a m = Ok (c, v) -> c = spec_logic iv opf f a v.
Proof. intros Hf. apply logic_cost. intros Hn. congruence. Qed.

(* F5: (logior 0x400000 0x01) under NEW_COST_MODEL costs 676, the documented formula gives 670;
   (logand nil) costs 367 (accumulator -1 has one limb), documented 364 *)
Lemma f5_logior :
  let a := Cons (Atom [64; 0; 0]) (Cons (Atom [1]) (Atom [])) in
  let f := flags_of_N 0x2000 in
  op_logior f a U64_MAX = Ok (676, Atom [64; 0; 1]) /\ spec_logior f a (Atom [64; 0; 1]) = 670 /\
  ~ logic_docs_agree 0%Z Z.lor f a.
Proof.
  cbv zeta. split; [vm_compute; reflexivity|]. split; [vm_compute; reflexivity|].
  intros Hd. specialize (Hd eq_refl). vm_compute in Hd. discriminate Hd.
Qed.
Lemma f5_logand :
  let a := Cons (Atom []) (Atom []) in
  let f := flags_of_N 0x2000 in
  op_logand f a U64_MAX = Ok (367, Atom []) /\ spec_logand f a (Atom []) = 364.
Proof. cbv zeta. split; vm_compute; reflexivity. Qed.

(* ---------------- sha256, sha256tree ---------------- *)
Lemma sha256_loop_cost pa pb m a : forall cost terms c ts,
  (fix loop (args : sexp) (cost : N) (terms : list bytes) : res (N * list bytes) :=
     match args with
     | Atom _ => Ok (cost, terms)
     | Cons arg rest =>
         let cost := cost + pa in
         match arg with
         | Cons _ _ => bad_arg
         | Atom b => let cost := cost + blen b * pb in
                     do _ <- check_cost cost m; loop rest cost (b :: terms)
         end
     end) a cost terms = Ok (c, ts) ->
  c = cost + n_args a * pa + sum_lens (arg_atoms a) * pb.
Proof.
  induction a as [b|x _ r IH]; intros cost terms c ts H.
  - ok_inv H. rewrite n_args_atom. cbn [arg_atoms sum_lens fold_right]. lia.
  - destruct x as [b|]; [|discriminate H]. cbv zeta in H. chk H m.
    apply IH in H. rewrite n_args_cons. cbn [arg_atoms]. rewrite sum_lens_cons. lia.
Qed.

Theorem sha256_cost Hf f a m c v : (forall b, blen (Hf b) = 32) ->
  op_sha256 Hf f a m = Ok (c, v) -> c = spec_sha256 f a v.
Proof.
  unfold op_sha256, spec_sha256. intros H32 H.
  destruct (f_new_cost_model f); cbv zeta in H;
    match type of H with context [bind ?l _] => destruct l as [[c0 ts]|] eqn:E; cbn [bind] in H; [|discriminate H] end;
    unfold atom_and_cost in H; ok_inv H; apply sha256_loop_cost in E; unfold malloc, result_len; lia.
Qed.

Lemma tree_hash_walk_cost Hf pb t : forall cost m c h,
  tree_hash_walk Hf pb t cost m = Ok (c, h) ->
  c = cost + SHA256TREE_PAIR_COST * tree_pairs t + pb * tree_atom_bytes t.
Proof.
  induction t as [b|l IHl r IHr]; intros cost m c h H; cbn [tree_hash_walk] in H; cbv zeta in H.
  - chk H m. ok_inv H. cbn [tree_pairs tree_atom_bytes]. lia.
  - chk H m.
    destruct (tree_hash_walk Hf pb r _ m) as [[c1 hr]|] eqn:Er; cbn [bind] in H; [|discriminate H].
    destruct (tree_hash_walk Hf pb l _ m) as [[c2 hl]|] eqn:El; cbn [bind] in H; [|discriminate H].
    ok_inv H. apply IHr in Er. apply IHl in El. cbn [tree_pairs tree_atom_bytes]. lia.
Qed.

(* sha256tree: base + per pair + per byte over the fully expanded tree, shared or not (the tree
   type has no sharing: a shared sub-tree is counted every time it occurs) *)
Theorem sha256_tree_cost Hf f a m c v :
  op_sha256_tree Hf f a m = Ok (c, v) -> c = spec_sha256_tree f a v.
Proof.
  unfold op_sha256_tree, spec_sha256_tree, tree_hash_costed. cbv zeta. intros H.
  destruct a as [?|t [?|? ?]]; cbn [get_args1 bind] in H; try discriminate H.
  destruct (tree_hash_walk _ _ _ _ _) as [[c0 h]|] eqn:E; cbn [bind] in H; [|discriminate H].
  chk H m. ok_inv H. apply tree_hash_walk_cost in E. lia.
Qed.

(* ---------------- core ---------------- *)
Theorem if_cost f a m c v : op_if f a m = Ok (c, v) -> c = spec_if f a v.
Proof. unfold op_if, spec_if. intros H. destruct (get_args3 a) as [[[x y] z]|]; cbn [bind] in H; [|discriminate H]. ok_inv H. reflexivity. Qed.
Theorem cons_cost f a m c v : op_cons f a m = Ok (c, v) -> c = spec_cons f a v.
Proof. unfold op_cons, spec_cons. intros H. destruct (get_args2 a) as [[x y]|]; cbn [bind] in H; [|discriminate H]. ok_inv H. reflexivity. Qed.
Theorem first_cost f a m c v : op_first f a m = Ok (c, v) -> c = spec_first f a v.
Proof.
  unfold op_first, spec_first. intros H. destruct (get_args1 a) as [x|]; cbn [bind] in H; [|discriminate H].
  destruct (first x); cbn [bind] in H; [|discriminate H]. ok_inv H. reflexivity.
Qed.
Theorem rest_cost f a m c v : op_rest f a m = Ok (c, v) -> c = spec_rest f a v.
Proof.
  unfold op_rest, spec_rest. intros H. destruct (get_args1 a) as [x|]; cbn [bind] in H; [|discriminate H].
  destruct (rest x); cbn [bind] in H; [|discriminate H]. ok_inv H. reflexivity.
Qed.
Theorem listp_cost f a m c v : op_listp f a m = Ok (c, v) -> c = spec_listp f a v.
Proof. unfold op_listp, spec_listp. intros H. destruct (get_args1 a) as [x|]; cbn [bind] in H; [|discriminate H]. ok_inv H. reflexivity. Qed.
Theorem eq_cost f a m c v : op_eq f a m = Ok (c, v) -> c = spec_eq f a v.
Proof.
  unfold op_eq, spec_eq, two_lens. intros H. args2 a H. cbn [arg_atoms]. ok_inv H. reflexivity.
Qed.
