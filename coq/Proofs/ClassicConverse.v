(* C15 converse / C16 canonical equivalence: an input that the classic decoder accepts and that
   is_canonical_serialization judges canonical is exactly the serialization of the decoded tree.
   Atom level: decode_size_with_offset inverted on a first byte + size bytes; the canonical
   check's minimum per prefix length forces the encoder's (minimal) prefix class. Tree level:
   induction over the run of the recursive grammar [parse_rec], following the counter loop. *)
From Clvm Require Import Model.Classic Proofs.BytesLemmas Proofs.DecoderGeneric Proofs.ClassicAtoms
  Proofs.ClassicProofs Proofs.ClassicWriter.
From Coq Require Import Lia ZifyBool ZifyN ZifyNat.
Ltac Zify.zify_post_hook ::= Z.div_mod_to_equations.
Open Scope N_scope.

(* ---------- big-endian bytes of a value: inverse direction ---------- *)
Lemma be_value_snoc m x : be_value (m ++ [x]) = be_value m * 256 + x.
Proof. unfold be_value. rewrite be_acc_app. cbn [be_acc]. lia. Qed.

Lemma be_bytes_of_be_value m : wf_bytes m = true -> be_bytes_of (length m) (be_value m) = m.
Proof.
  induction m as [|x m IH] using rev_ind; intros Hwf; [reflexivity|].
  rewrite wf_bytes_app in Hwf. apply andb_prop in Hwf. destruct Hwf as [Hm Hx].
  cbn in Hx. rewrite andb_true_r in Hx. unfold wf_byte in Hx.
  rewrite app_length. cbn [length]. rewrite Nat.add_1_r. cbn [be_bytes_of].
  rewrite be_value_snoc.
  replace ((be_value m * 256 + x) / 256) with (be_value m) by lia.
  replace ((be_value m * 256 + x) mod 256) with x by lia.
  rewrite (IH Hm). reflexivity.
Qed.

(* ---------- decode_size_with_offset inverted ---------- *)
Lemma decode_size_inv b r k size r1 :
  wf_byte b = true -> wf_bytes r = true -> 0x80 <= b -> b <> 0xff ->
  decode_size_with_offset b r = Ok (k, size, r1) ->
  exists hi more,
    1 <= k <= 6 /\ b = tag_of k + hi /\ hi < hibound k /\ r = more ++ r1 /\
    length more = N.to_nat (k - 1) /\ wf_bytes more = true /\ wf_bytes r1 = true /\
    size = hi * 256 ^ (k - 1) + be_value more /\ size < 0x400000000.
Proof.
  intros Hb Hr H80 Nff Hd. unfold wf_byte in Hb.
  pose proof (byte_class_spec b ltac:(lia)) as Hcl. cbv zeta in Hcl.
  set (c := leading_ones8 b) in *. destruct Hcl as (Hc & Hc8 & Hct).
  assert (Hc7 : c < 8) by (destruct (N.eq_dec c 8) as [E|E]; [apply Hc8 in E; contradiction|lia]).
  destruct (Hct Hc7) as [Ht Hhi]. set (hi := b - tag_of c) in *.
  assert (Eb : b = tag_of c + hi) by (subst hi; lia).
  destruct (take_exact (N.to_nat (c - 1)) r) as [[more r']|] eqn:Et.
  - apply take_exact_spec in Et. destruct Et as [Er Hl]. subst r.
    rewrite wf_bytes_app in Hr. apply andb_prop in Hr. destruct Hr as [Hwm Hwr].
    rewrite Eb in Hd. rewrite decode_size_arith in Hd by (assumption || lia).
    destruct (N.ltb_spec 6 c) as [L6|L6]; [discriminate|]. cbv zeta in Hd.
    destruct (N.leb_spec 17179869184 (hi * 256 ^ (c - 1) + be_value more)) as [Lb|Lb]; [discriminate|].
    assert (Ek : c = k) by congruence. assert (Er1 : r' = r1) by congruence.
    assert (Es : hi * 256 ^ (c - 1) + be_value more = size) by congruence.
    subst k r1. exists hi, more. repeat split; try assumption; try lia.
  - exfalso. unfold decode_size_with_offset in Hd. fold c in Hd.
    destruct (N.land b 128 =? 0); [discriminate|]. destruct (8 <=? c); [discriminate|].
    rewrite Et in Hd. discriminate.
Qed.

(* ---------- the canonical minimum, as a function ---------- *)
Definition cmin (k : N) : N := match canon_min_value k with Some m => m | None => 0 end.

Lemma canon_min_some k : 1 <= k <= 6 -> canon_min_value k = Some (cmin k).
Proof.
  intros Hk. assert (Hcc : k = 1 \/ k = 2 \/ k = 3 \/ k = 4 \/ k = 5 \/ k = 6) by lia.
  destruct Hcc as [->|[->|[->|[->|[->| ->]]]]]; reflexivity.
Qed.

Ltac norm_k k :=
  let p := eval vm_compute in (256 ^ (k - 1)) in change (256 ^ (k - 1)) with p in *;
  let h := eval vm_compute in (hibound k) in change (hibound k) with h in *;
  let t := eval vm_compute in (tag_of k) in change (tag_of k) with t in *;
  let m := eval vm_compute in (cmin k) in change (cmin k) with m in *;
  let n := eval vm_compute in (N.to_nat (k - 1)) in change (N.to_nat (k - 1)) with n in *.

(* a prefix whose decoded size is at least the minimum of its length class is the encoder's
   prefix for that size *)
Lemma prefix_inverse k hi more a0 size :
  1 <= k <= 6 -> hi < hibound k -> length more = N.to_nat (k - 1) -> wf_bytes more = true ->
  size = hi * 256 ^ (k - 1) + be_value more -> size < 0x400000000 -> cmin k <= size ->
  (size = 1 -> 0x80 <= a0) ->
  atom_prefix a0 size = Some ((tag_of k + hi) :: more).
Proof.
  intros Hk Hhi Hl Hwf Hs Hlt Hmin H1.
  pose proof (be_value_bound more Hwf) as Hbv. rewrite Hl, N2Nat.id in Hbv.
  rewrite atom_prefix_arith by assumption.
  assert (E0 : (size =? 0) = false).
  { assert (1 <= cmin k).
    { assert (Hcc : k = 1 \/ k = 2 \/ k = 3 \/ k = 4 \/ k = 5 \/ k = 6) by lia.
      destruct Hcc as [->|[->|[->|[->|[->| ->]]]]]; vm_compute; discriminate. }
    lia. }
  rewrite E0.
  assert (E1 : (size =? 1) && (a0 <? 128) = false).
  { destruct (N.eqb_spec size 1) as [E|E]; [|reflexivity]. specialize (H1 E). cbn [andb]. lia. }
  rewrite E1. cbv zeta.
  set (bv := be_value more) in *.
  assert (Hcc : k = 1 \/ k = 2 \/ k = 3 \/ k = 4 \/ k = 5 \/ k = 6) by lia.
  destruct Hcc as [->|[->|[->|[->|[->| ->]]]]].
  - norm_k 1.
    assert (Hpc : prefix_class a0 size = 1).
    { unfold prefix_class. rewrite E0, E1. destruct (N.ltb_spec size 64); [reflexivity|lia]. }
    rewrite Hpc. norm_k 1.
    replace (size / 1) with hi by lia. replace (size mod 1) with bv by lia.
    subst bv. rewrite <- Hl, be_bytes_of_be_value by assumption. reflexivity.
  - norm_k 2.
    assert (Hpc : prefix_class a0 size = 2).
    { unfold prefix_class. rewrite E0, E1. destruct (N.ltb_spec size 64); [lia|].
      destruct (N.ltb_spec size 8192); [reflexivity|lia]. }
    rewrite Hpc. norm_k 2.
    replace (size / 256) with hi by lia. replace (size mod 256) with bv by lia.
    subst bv. rewrite <- Hl, be_bytes_of_be_value by assumption. reflexivity.
  - norm_k 3.
    assert (Hpc : prefix_class a0 size = 3).
    { unfold prefix_class. rewrite E0, E1. destruct (N.ltb_spec size 64); [lia|].
      destruct (N.ltb_spec size 8192); [lia|]. destruct (N.ltb_spec size 1048576); [reflexivity|lia]. }
    rewrite Hpc. norm_k 3.
    replace (size / 65536) with hi by lia. replace (size mod 65536) with bv by lia.
    subst bv. rewrite <- Hl, be_bytes_of_be_value by assumption. reflexivity.
  - norm_k 4.
    assert (Hpc : prefix_class a0 size = 4).
    { unfold prefix_class. rewrite E0, E1. destruct (N.ltb_spec size 64); [lia|].
      destruct (N.ltb_spec size 8192); [lia|]. destruct (N.ltb_spec size 1048576); [lia|].
      destruct (N.ltb_spec size 134217728); [reflexivity|lia]. }
    rewrite Hpc. norm_k 4.
    replace (size / 16777216) with hi by lia. replace (size mod 16777216) with bv by lia.
    subst bv. rewrite <- Hl, be_bytes_of_be_value by assumption. reflexivity.
  - norm_k 5.
    assert (Hpc : prefix_class a0 size = 5).
    { unfold prefix_class. rewrite E0, E1. destruct (N.ltb_spec size 64); [lia|].
      destruct (N.ltb_spec size 8192); [lia|]. destruct (N.ltb_spec size 1048576); [lia|].
      destruct (N.ltb_spec size 134217728); [lia|]. reflexivity. }
    rewrite Hpc. norm_k 5.
    replace (size / 4294967296) with hi by lia. replace (size mod 4294967296) with bv by lia.
    subst bv. rewrite <- Hl, be_bytes_of_be_value by assumption. reflexivity.
  - (* a six-byte prefix would have to encode a size >= 2^34, which the decoder rejects *)
    exfalso. norm_k 6. lia.
Qed.

(* ---------- one atom: decoded and judged canonical => it is the encoder's output ---------- *)
Lemma parse_atom_254 r x : parse_atom_node 254 r = Ok x -> False.
Proof.
  unfold parse_atom_node. change (254 =? 1) with false. change (254 =? 128) with false.
  change (254 <=? 127) with false. cbv iota.
  unfold decode_size, decode_size_with_offset.
  change (N.land 254 128 =? 0) with false. change (leading_ones8 254) with 7.
  change (8 <=? 7) with false. cbv iota.
  destruct (take_exact (N.to_nat (7 - 1)) r) as [[more rest']|]; cbn; discriminate.
Qed.

Lemma ser_atom_single b : b < 0x80 -> ser_atom [b] = Some [b].
Proof.
  intros Hb. unfold ser_atom. change (blen [b]) with 1. change (atom_0 [b]) with b.
  unfold atom_prefix. change (1 =? 0) with false. change (1 =? 1) with true. cbn [andb].
  destruct (N.ltb_spec b 128); [reflexivity|lia].
Qed.

Lemma canon_atom_inv b r a rest r2 :
  wf_byte b = true -> wf_bytes r = true -> b <> 0xff ->
  parse_atom_node b r = Ok (a, rest) -> is_canonical_atom b r = CTrue r2 ->
  r2 = rest /\ exists e, b :: r = e ++ rest /\ ser_atom a = Some e.
Proof.
  intros Hb Hr Nff Hp Hc. unfold parse_atom_node in Hp. unfold is_canonical_atom in Hc.
  destruct (N.eqb_spec b 1) as [E1|N1]; destruct (N.eqb_spec b 128) as [E80|N80];
    destruct (N.leb_spec b 127) as [L|L]; try lia; cbn [orb] in Hc.
  - (* 0x01 *) subst b. assert (a = [1] /\ rest = r) as [-> ->] by (split; congruence).
    assert (r2 = r) by congruence. split; [assumption|]. exists [1]. split; reflexivity.
  - (* 0x80 *) subst b. assert (a = [] /\ rest = r) as [-> ->] by (split; congruence).
    assert (r2 = r) by congruence. split; [assumption|]. exists [128]. split; reflexivity.
  - (* single byte *) assert (a = [b] /\ rest = r) as [-> ->] by (split; congruence).
    assert (r2 = r) by congruence. split; [assumption|]. exists [b]. split; [reflexivity|].
    apply ser_atom_single. lia.
  - (* length prefix *)
    unfold decode_size in Hp.
    destruct (decode_size_with_offset b r) as [[[k size] r1]|e0] eqn:Ed; cbn [bind] in Hp; [|discriminate].
    destruct (decode_size_inv b r k size r1 Hb Hr ltac:(lia) Nff Ed)
      as (hi & more & Hk & Eb & Hhi & Er & Hl & Hwm & Hwr1 & Hs & Hlt).
    destruct (take_n size r1) as [[blob r3]|] eqn:Et; [|discriminate].
    assert (blob = a /\ r3 = rest) as [-> ->] by (split; congruence).
    apply take_n_spec in Et. destruct Et as [Er1 Hlen].
    rewrite (canon_min_some k Hk) in Hc.
    assert (Hfin : r2 = rest /\ cmin k <= size /\ (size = 1 -> 0x80 <= atom_0 a)).
    { destruct (N.eqb_spec size 1) as [S1|S1].
      - destruct a as [|v [|w a']]; try (unfold blen in Hlen; cbn [length] in Hlen; lia).
        subst r1. cbn [app] in Hc. destruct (N.ltb_spec v 128); [discriminate|].
        destruct (N.leb_spec (cmin k) size); [|discriminate].
        split; [congruence|]. split; [assumption|]. intros _. cbn. assumption.
      - subst r1.
        destruct (N.leb_spec (cmin k) size); [|discriminate].
        split; [congruence|]. split; [assumption|]. intros; contradiction. }
    destruct Hfin as (-> & Hmin & H1). split; [reflexivity|].
    exists (b :: more ++ a). split.
    + subst r r1. cbn. rewrite <- app_assoc. reflexivity.
    + unfold ser_atom. rewrite Hlen.
      rewrite (prefix_inverse k hi more (atom_0 a) size Hk Hhi Hl Hwm Hs Hlt Hmin H1).
      rewrite <- Eb. reflexivity.
Qed.

Lemma canon_atom_shrinks b r r2 : is_canonical_atom b r = CTrue r2 -> (length r2 <= length r)%nat.
Proof.
  unfold is_canonical_atom. destruct ((b =? 128) || (b <=? 127)); [intros H; injection H as <-; lia|].
  destruct (decode_size_with_offset b r) as [[[k size] r1]|e0] eqn:Ed; [|discriminate].
  apply decode_size_wo_shrinks in Ed.
  destruct (canon_min_value k) as [mv|]; [|discriminate].
  destruct (size =? 1).
  - destruct r1 as [|v r3]; [discriminate|]. destruct (v <? 128); [discriminate|].
    destruct (mv <=? size); [|discriminate]. intros H; injection H as <-. cbn [length] in Ed. lia.
  - destruct (take_n size r1) as [[blob r3]|] eqn:Et; [|discriminate].
    destruct (mv <=? size); [|discriminate]. intros H; injection H as <-.
    apply take_n_spec in Et. destruct Et as [-> _]. rewrite app_length in Ed. lia.
Qed.

Lemma canon_atom_no_panic b r : wf_byte b = true -> is_canonical_atom b r <> CPanic.
Proof.
  intros Hb. unfold is_canonical_atom, wf_byte in *.
  destruct (N.eqb_spec b 128) as [E|E]; [discriminate|]. destruct (N.leb_spec b 127) as [L|L]; [discriminate|].
  cbn [orb]. destruct (decode_size_with_offset b r) as [[[k size] r1]|e0] eqn:Ed; [|discriminate].
  assert (Hk : 1 <= k <= 6).
  { unfold decode_size_with_offset in Ed.
    pose proof (byte_class_spec b ltac:(lia)) as Hcl. cbv zeta in Hcl. destruct Hcl as (Hc & _ & _).
    destruct (N.land b 128 =? 0); [discriminate|]. destruct (8 <=? leading_ones8 b); [discriminate|].
    destruct (take_exact _ r) as [[more r']|]; [|discriminate].
    destruct (N.ltb_spec 6 (leading_ones8 b)); [discriminate|].
    destruct (_ <=? _); [discriminate|]. assert (leading_ones8 b = k) by congruence. lia. }
  rewrite (canon_min_some k Hk).
  destruct (size =? 1).
  - destruct r1 as [|v r3]; [discriminate|]. destruct (v <? 128); [discriminate|]. destruct (_ <=? _); discriminate.
  - destruct (take_n size r1) as [[blob r3]|]; [|discriminate]. destruct (_ <=? _); discriminate.
Qed.

(* ---------- the consumed prefix of a decoder run does not depend on what follows ---------- *)
Lemma decode_size_wo_split b r k size r1 : decode_size_with_offset b r = Ok (k, size, r1) ->
  exists m, r = m ++ r1 /\ forall x, decode_size_with_offset b (m ++ x) = Ok (k, size, x).
Proof.
  intros Hd. unfold decode_size_with_offset in Hd.
  destruct (N.land b 128 =? 0) eqn:E80; [discriminate|].
  destruct (8 <=? leading_ones8 b) eqn:E8; [discriminate|].
  destruct (take_exact (N.to_nat (leading_ones8 b - 1)) r) as [[more r']|] eqn:Et; [|discriminate].
  destruct (6 <? leading_ones8 b) eqn:E6; [discriminate|]. cbv zeta in Hd.
  destruct (17179869184 <=? acc_size (N.land b (N.shiftr 255 (leading_ones8 b)) :: more)) eqn:Es; [discriminate|].
  assert (Ek : leading_ones8 b = k) by congruence.
  assert (Esz : acc_size (N.land b (N.shiftr 255 (leading_ones8 b)) :: more) = size) by congruence.
  assert (Er : r' = r1) by congruence. subst r'.
  apply take_exact_spec in Et. destruct Et as [-> Hl].
  exists more. split; [reflexivity|]. intros x. unfold decode_size_with_offset.
  rewrite E80, E8, <- Hl, take_exact_app, E6. cbv zeta. rewrite Es, Esz, Ek. reflexivity.
Qed.

Lemma read_atom_node_split b r t rest : read_atom_node b r = Ok (t, rest) ->
  exists e, r = e ++ rest /\ forall x, read_atom_node b (e ++ x) = Ok (t, x).
Proof.
  unfold read_atom_node, parse_atom_node.
  destruct (b =? 1).
  { cbn. intros H. assert (Et : Atom [1] = t) by congruence. assert (Er : r = rest) by congruence.
    subst. exists []. split; reflexivity. }
  destruct (b =? 128).
  { cbn. intros H. assert (Et : Atom [] = t) by congruence. assert (Er : r = rest) by congruence.
    subst. exists []. split; reflexivity. }
  destruct (b <=? 127).
  { cbn. intros H. assert (Et : Atom [b] = t) by congruence. assert (Er : r = rest) by congruence.
    subst. exists []. split; reflexivity. }
  unfold decode_size.
  destruct (decode_size_with_offset b r) as [[[k size] r1]|e0] eqn:Ed; cbn [bind]; [|discriminate].
  destruct (take_n size r1) as [[blob r3]|] eqn:Et; cbn [bind]; [|discriminate].
  intros H. assert (E1 : Atom blob = t) by congruence. assert (E2 : r3 = rest) by congruence. subst t r3.
  destruct (decode_size_wo_split _ _ _ _ _ Ed) as (m & -> & Hm).
  apply take_n_spec in Et. destruct Et as [-> Hlen].
  exists (m ++ blob). split; [rewrite <- app_assoc; reflexivity|].
  intros x. rewrite <- app_assoc, Hm. cbn [bind]. rewrite <- Hlen, take_n_app. reflexivity.
Qed.

Lemma parse_rec_split : forall f bs t rest, parse_rec read_atom_node Cons f bs = Ok (t, rest) ->
  exists e, bs = e ++ rest /\ forall x, parse_rec read_atom_node Cons f (e ++ x) = Ok (t, x).
Proof.
  induction f as [|f IH]; intros bs t rest H; cbn in H; [discriminate|].
  destruct bs as [|b r]; [discriminate|].
  destruct (b =? 255) eqn:Eb.
  - destruct (parse_rec _ _ f r) as [[l r1]|] eqn:E1; cbn in H; [|discriminate].
    destruct (parse_rec _ _ f r1) as [[rt r2]|] eqn:E2; cbn in H; [|discriminate].
    assert (Et : Cons l rt = t) by congruence. assert (Er : r2 = rest) by congruence. subst t r2.
    destruct (IH _ _ _ E1) as (e1 & -> & H1). destruct (IH _ _ _ E2) as (e2 & -> & H2).
    exists (b :: e1 ++ e2). split; [cbn; rewrite <- app_assoc; reflexivity|].
    intros x. cbn [app parse_rec]. rewrite Eb. rewrite <- app_assoc, H1. cbn [bind]. rewrite H2. reflexivity.
  - destruct (read_atom_node_split _ _ _ _ H) as (e & -> & He).
    exists (b :: e). split; [reflexivity|]. intros x. cbn [app parse_rec]. rewrite Eb. apply He.
Qed.

(* ---------- trees ---------- *)
Lemma canon_parse : forall pf bs t rest, wf_bytes bs = true ->
  parse_rec read_atom_node Cons pf bs = Ok (t, rest) ->
  forall f counter, canonical_loop f (counter + 1) bs = BTrue ->
  exists f' e, canonical_loop f' counter rest = BTrue /\ bs = e ++ rest /\ ser t = Some e.
Proof.
  induction pf as [|pf IH]; intros bs t rest Hwf H f counter Hc; cbn in H; [discriminate|].
  destruct bs as [|b r]; [discriminate|].
  rewrite wf_bytes_cons in Hwf. apply andb_prop in Hwf. destruct Hwf as [Hwb Hwr].
  destruct f as [|f]; [discriminate|]. cbn [canonical_loop] in Hc.
  destruct (N.eqb_spec (counter + 1) 0) as [|_]; [lia|].
  replace (counter + 1 - 1) with counter in Hc by lia.
  destruct (N.eqb_spec b 255) as [Eb|Nb].
  - destruct (parse_rec _ _ pf r) as [[l r1]|] eqn:E1; cbn in H; [|discriminate].
    destruct (parse_rec _ _ pf r1) as [[rt r2]|] eqn:E2; cbn in H; [|discriminate].
    assert (Et : Cons l rt = t) by congruence. assert (Er : r2 = rest) by congruence. subst t r2.
    replace (counter + 2) with (counter + 1 + 1) in Hc by lia.
    destruct (IH _ _ _ Hwr E1 _ _ Hc) as (f1 & e1 & Hc1 & -> & Hs1).
    rewrite wf_bytes_app in Hwr. apply andb_prop in Hwr. destruct Hwr as [_ Hwr1].
    destruct (IH _ _ _ Hwr1 E2 _ _ Hc1) as (f2 & e2 & Hc2 & -> & Hs2).
    exists f2, (b :: e1 ++ e2). split; [assumption|]. split; [cbn; rewrite <- app_assoc; reflexivity|].
    cbn [ser]. rewrite Hs1, Hs2, Eb. reflexivity.
  - unfold read_atom_node in H.
    destruct (parse_atom_node b r) as [[a r']|] eqn:Ea; cbn in H; [|discriminate].
    assert (Et : Atom a = t) by congruence. assert (Er : r' = rest) by congruence. subst t r'.
    destruct (N.eqb_spec b 254) as [E254|N254].
    { subst b. exfalso. eapply parse_atom_254; eassumption. }
    destruct (is_canonical_atom b r) as [r2| |] eqn:Eca; try discriminate.
    destruct (canon_atom_inv b r a rest r2 Hwb Hwr Nb Ea Eca) as (-> & e & He & Hs).
    exists f, e. split; [assumption|]. split; [assumption|]. exact Hs.
Qed.

(* the consumed prefix, judged canonical, is the serialization of the decoded tree *)
Theorem canonical_converse : forall e rest t, wf_bytes e = true ->
  node_from_stream (e ++ rest) = Ok (t, rest) -> is_canonical_serialization e = BTrue ->
  ser t = Some e.
Proof.
  intros e rest t Hwf Hn Hc. rewrite node_from_stream_parse in Hn. unfold parse in Hn.
  destruct (parse_rec_split _ _ _ _ Hn) as (e' & He & Hx).
  apply app_inv_tail in He. subst e'. specialize (Hx []). rewrite app_nil_r in Hx.
  unfold is_canonical_serialization in Hc. change 1 with (0 + 1) in Hc.
  destruct (canon_parse _ _ _ _ Hwf Hx _ _ Hc) as (f' & e2 & _ & He2 & Hs).
  rewrite app_nil_r in He2. subst e2. exact Hs.
Qed.

(* what node_from_stream leaves is a suffix of its input *)
Theorem node_from_stream_suffix : forall bs t rest, node_from_stream bs = Ok (t, rest) ->
  bs = firstn (length bs - length rest) bs ++ rest.
Proof.
  intros bs t rest Hn. rewrite node_from_stream_parse in Hn. unfold parse in Hn.
  destruct (parse_rec_split _ _ _ _ Hn) as (e & -> & _).
  rewrite app_length. replace (length e + length rest - length rest)%nat with (length e) by lia.
  rewrite firstn_app, Nat.sub_diag, firstn_all. cbn. rewrite app_nil_r. reflexivity.
Qed.

Theorem canonical_converse_consumed : forall bs t rest, wf_bytes bs = true ->
  node_from_stream bs = Ok (t, rest) ->
  is_canonical_serialization (firstn (length bs - length rest) bs) = BTrue ->
  ser t = Some (firstn (length bs - length rest) bs).
Proof.
  intros bs t rest Hwf Hn Hc. pose proof (node_from_stream_suffix _ _ _ Hn) as Hs.
  set (e := firstn (length bs - length rest) bs) in *.
  rewrite Hs in Hn, Hwf. rewrite wf_bytes_app in Hwf. apply andb_prop in Hwf.
  eapply canonical_converse; [apply Hwf|eassumption|assumption].
Qed.

(* ---------- canonical <-> whole input is the re-serialization ---------- *)
Lemma ser_atom_wf b e : ser_atom b = Some e -> wf_bytes e = true -> wf_bytes b = true.
Proof.
  unfold ser_atom. destruct (atom_prefix _ _) as [p|]; [|discriminate]. intros H Hw.
  assert (p ++ b = e) by congruence. subst e. rewrite wf_bytes_app in Hw. apply andb_prop in Hw. tauto.
Qed.

Lemma ser_wf : forall t e, ser t = Some e -> wf_bytes e = true -> wf_sexp t = true.
Proof.
  induction t as [b|l IHl r IHr]; intros e Hs Hw; cbn in Hs |- *.
  - eapply ser_atom_wf; eassumption.
  - destruct (ser l) as [a|] eqn:El; [|discriminate]. destruct (ser r) as [c|] eqn:Er; [|discriminate].
    assert (E : 255 :: a ++ c = e) by congruence. subst e.
    rewrite wf_bytes_cons, wf_bytes_app in Hw. apply andb_prop in Hw. destruct Hw as [_ Hw].
    apply andb_prop in Hw. destruct Hw as [Ha Hc].
    rewrite (IHl a eq_refl Ha), (IHr c eq_refl Hc). reflexivity.
Qed.

Theorem canonical_iff : forall b t rest, wf_bytes b = true -> node_from_stream b = Ok (t, rest) ->
  (is_canonical_serialization b = BTrue <-> rest = [] /\ ser t = Some b).
Proof.
  intros b t rest Hwf Hn. split.
  - intros Hc. rewrite node_from_stream_parse in Hn. unfold parse in Hn.
    unfold is_canonical_serialization in Hc. change 1 with (0 + 1) in Hc.
    destruct (canon_parse _ _ _ _ Hwf Hn _ _ Hc) as (f' & e & Hc0 & He & Hs).
    assert (rest = []).
    { destruct f' as [|f']; [discriminate|]. cbn in Hc0. destruct rest; [reflexivity|discriminate]. }
    subst rest. rewrite app_nil_r in He. subst e. split; [reflexivity|assumption].
  - intros [-> Hs]. eapply is_canonical_ser; [|eassumption]. eapply ser_wf; eassumption.
Qed.

(* ---------- the canonical check is total on byte strings ---------- *)
Lemma canonical_loop_total : forall f counter bs, wf_bytes bs = true -> (length bs < f)%nat ->
  canonical_loop f counter bs = BTrue \/ canonical_loop f counter bs = BFalse.
Proof.
  induction f as [|f IH]; intros counter bs Hwf Hf; [lia|]. cbn [canonical_loop].
  destruct (counter =? 0); [destruct bs; [left|right]; reflexivity|].
  destruct bs as [|b r]; [right; reflexivity|]. cbn [length] in Hf.
  rewrite wf_bytes_cons in Hwf. apply andb_prop in Hwf. destruct Hwf as [Hwb Hwr].
  destruct (b =? 255); [apply IH; [assumption|lia]|].
  assert (Hat : forall b2 r1, wf_byte b2 = true -> wf_bytes r1 = true -> (length r1 < f)%nat ->
    match is_canonical_atom b2 r1 with
    | CTrue r2 => canonical_loop f (counter - 1) r2
    | CFalse => BFalse
    | CPanic => BPanic
    end = BTrue \/
    match is_canonical_atom b2 r1 with
    | CTrue r2 => canonical_loop f (counter - 1) r2
    | CFalse => BFalse
    | CPanic => BPanic
    end = BFalse).
  { intros b2 r1 Hb2 Hr1 Hl. destruct (is_canonical_atom b2 r1) as [r2| |] eqn:E.
    - pose proof (canon_atom_shrinks _ _ _ E) as Hs. apply IH; [|lia].
      unfold is_canonical_atom in E. destruct ((b2 =? 128) || (b2 <=? 127)); [congruence|].
      destruct (decode_size_with_offset b2 r1) as [[[k size] r3]|e0] eqn:Ed; [|discriminate].
      destruct (decode_size_wo_split _ _ _ _ _ Ed) as (m & -> & _).
      rewrite wf_bytes_app in Hr1. apply andb_prop in Hr1. destruct Hr1 as [_ Hr3].
      destruct (canon_min_value k); [|discriminate]. destruct (size =? 1).
      + destruct r3 as [|v r4]; [discriminate|]. destruct (v <? 128); [discriminate|].
        destruct (_ <=? _); [|discriminate]. rewrite wf_bytes_cons in Hr3. apply andb_prop in Hr3.
        assert (r4 = r2) by congruence. subst. tauto.
      + destruct (take_n size r3) as [[blob r4]|] eqn:Et; [|discriminate].
        destruct (_ <=? _); [|discriminate]. apply take_n_spec in Et. destruct Et as [-> _].
        rewrite wf_bytes_app in Hr3. apply andb_prop in Hr3. assert (r4 = r2) by congruence. subst. tauto.
    - right; reflexivity.
    - exfalso. eapply canon_atom_no_panic; eassumption. }
  destruct (b =? 254).
  - destruct r as [|b2 r1]; [right; reflexivity|].
    rewrite wf_bytes_cons in Hwr. apply andb_prop in Hwr. destruct Hwr as [Hb2 Hr1].
    apply Hat; [assumption|assumption|cbn [length] in Hf; lia].
  - apply Hat; [assumption|assumption|lia].
Qed.

Theorem is_canonical_total : forall bs, wf_bytes bs = true ->
  is_canonical_serialization bs = BTrue \/ is_canonical_serialization bs = BFalse.
Proof.
  intros bs Hwf. unfold is_canonical_serialization, de_fuel. apply canonical_loop_total; [assumption|lia].
Qed.
