(* Proofs about Model/S2026.v, part 4: the byte layer of the round trip.  The decoder reads back
   the length-grouped atom table and the varint-encoded instruction list that the serializer
   writes: a composition of the varint round trip (VarintProofs.write_read) over the lists. *)
From Clvm Require Import Model.S2026 Model.Classic Proofs.BytesLemmas Proofs.VarintProofs Proofs.ClassicProofs
  Proofs.S2026Proofs Proofs.S2026Emit.
From Coq Require Import Lia ZifyBool ZifyN ZifyNat.
Local Open Scope Z_scope.

Definition v55 : Z := 36028797018963968.
Lemma v55_eq : 2 ^ 55 = v55.
Proof. reflexivity. Qed.

(* ------------------------------------------------------------------ one varint *)
Lemma wv_some v e : wv v = Ok e -> write_varint v = Some e.
Proof. unfold wv. destruct (write_varint v); [|discriminate]. intros H. apply Ok_inj in H. now subst. Qed.

Lemma wv_rv strict v e rest : wv v = Ok e -> wf_bytes rest = true -> rv strict (e ++ rest) = Ok (v, rest).
Proof.
  intros Hw Hr. apply wv_some in Hw. unfold rv. now rewrite (write_read v e rest strict Hw Hr).
Qed.

Lemma wv_wf v e : wv v = Ok e -> wf_bytes e = true.
Proof. intros Hw. apply wv_some in Hw. exact (write_wf v e Hw). Qed.

Lemma wv_len v e : wv v = Ok e -> (1 <= length e)%nat.
Proof.
  intros Hw. apply wv_some in Hw. rewrite write_char in Hw.
  destruct (find_class 8 0 v); [|discriminate]. inversion Hw. cbn [length]. lia.
Qed.

Lemma wv_range v e : wv v = Ok e -> - v55 <= v < v55.
Proof.
  intros Hw. apply wv_some in Hw. rewrite <- v55_eq. apply write_total. congruence.
Qed.

Lemma wv_total v : - v55 <= v < v55 -> exists e, wv v = Ok e.
Proof.
  intros H. rewrite <- v55_eq in H. apply write_total in H. unfold wv.
  destruct (write_varint v) as [e|]; [now exists e|congruence].
Qed.

Lemma checked_usize_eq v : 0 <= v <= v55 -> checked_usize v = Ok v.
Proof.
  intros H. unfold checked_usize, usize_max, v55 in *.
  destruct (Z.ltb_spec v 0); [lia|]. destruct (Z.ltb_spec 18446744073709551615 v); [lia|reflexivity].
Qed.

Lemma checked_bounded_eq v m : 0 <= v <= v55 -> v <= m -> checked_bounded_usize v m = Ok v.
Proof.
  intros H Hm. unfold checked_bounded_usize. rewrite checked_usize_eq by exact H. cbn [bind].
  destruct (Z.ltb_spec m v); [lia|reflexivity].
Qed.

(* ------------------------------------------------------------------ counted loops, unfolded *)
Lemma count_loop_zero {S} (step : S -> bytes -> res (S * bytes)) fuel s bs :
  count_loop step fuel 0 s bs = Ok (s, bs).
Proof. destruct fuel; reflexivity. Qed.

Lemma count_loop_succ {S} (step : S -> bytes -> res (S * bytes)) fuel n s bs : 0 < n ->
  count_loop step (Datatypes.S fuel) n s bs =
    bind (step s bs) (fun '(s', bs') => count_loop step fuel (n - 1) s' bs').
Proof. intros Hn. cbn [count_loop]. destruct (Z.leb_spec n 0); [lia|reflexivity]. Qed.

(* ------------------------------------------------------------------ the instruction stream *)
Lemma write_varints_wf : forall l e, write_varints l = Ok e -> wf_bytes e = true.
Proof.
  induction l as [|x l IH]; intros e H; cbn [write_varints] in H.
  - apply Ok_inj in H. now subst.
  - destruct (wv x) as [e1|] eqn:E1; cbn [bind] in H; [|discriminate].
    destruct (write_varints l) as [e2|] eqn:E2; cbn [bind] in H; [|discriminate].
    apply Ok_inj in H. subst e. rewrite wf_bytes_app, (wv_wf _ _ E1), (IH _ eq_refl). reflexivity.
Qed.

Lemma write_varints_range : forall l e, write_varints l = Ok e -> Forall (fun x => - v55 <= x < v55) l.
Proof.
  induction l as [|x l IH]; intros e H; cbn [write_varints] in H; [constructor|].
  destruct (wv x) as [e1|] eqn:E1; cbn [bind] in H; [|discriminate].
  destruct (write_varints l) as [e2|] eqn:E2; cbn [bind] in H; [|discriminate].
  constructor; [exact (wv_range _ _ E1)|exact (IH _ eq_refl)].
Qed.

Lemma instrs_read strict atoms : forall instrs ibytes rest st st' fuel,
  write_varints instrs = Ok ibytes -> wf_bytes rest = true ->
  exec_all atoms instrs st = Some st' ->
  (length (ibytes ++ rest) < fuel)%nat ->
  count_loop (instr_step Atom Cons strict atoms) fuel (Z.of_nat (length instrs)) st (ibytes ++ rest)
    = Ok (st', rest).
Proof.
  induction instrs as [|x l IH]; intros ibytes rest st st' fuel Hw Hr He Hf.
  - cbn [write_varints] in Hw. apply Ok_inj in Hw. subst ibytes.
    cbn [exec_all] in He. inversion He; subst st'. cbn [length Z.of_nat app]. apply count_loop_zero.
  - cbn [write_varints] in Hw.
    destruct (wv x) as [e1|] eqn:E1; cbn [bind] in Hw; [|discriminate].
    destruct (write_varints l) as [e2|] eqn:E2; cbn [bind] in Hw; [|discriminate].
    apply Ok_inj in Hw. subst ibytes. rewrite <- app_assoc in Hf |- *.
    pose proof (wv_len _ _ E1) as Hl1. pose proof (wv_range _ _ E1) as Hx.
    rewrite app_length in Hf.
    destruct fuel as [|f]; [lia|].
    rewrite count_loop_succ by (cbn [length]; lia).
    assert (Hwf2 : wf_bytes (e2 ++ rest) = true).
    { rewrite wf_bytes_app, (write_varints_wf _ _ E2), Hr. reflexivity. }
    rewrite (instr_step_exec1 strict atoms st _ x (e2 ++ rest) (wv_rv strict _ _ _ E1 Hwf2))
      by (rewrite v55_eq; lia).
    cbn [exec_all] in He. destruct (exec1 atoms st x) as [st1|]; [|discriminate]. cbn [bind].
    replace (Z.of_nat (length (x :: l)) - 1) with (Z.of_nat (length l)) by (cbn [length]; lia).
    apply IH; try assumption; [reflexivity|lia].
Qed.

(* ------------------------------------------------------------------ the atoms of one group *)
Lemma atoms_read len : 1 <= len -> forall (atoms : list bytes) rest acc fuel,
  Forall (fun a => Z.of_nat (length a) = len) atoms ->
  (length (concat atoms ++ rest) < fuel)%nat ->
  count_loop (atom_step Atom len) fuel (Z.of_nat (length atoms)) acc (concat atoms ++ rest)
    = Ok (acc ++ map Atom atoms, rest).
Proof.
  intros Hlen. induction atoms as [|a l IH]; intros rest acc fuel Hall Hf.
  - cbn [length Z.of_nat concat app map]. rewrite app_nil_r. apply count_loop_zero.
  - inversion Hall as [|? ? Ha Hl]; subst. cbn [concat] in Hf |- *. rewrite <- app_assoc in Hf |- *.
    rewrite app_length in Hf.
    destruct fuel as [|f]; [lia|].
    rewrite count_loop_succ by (cbn [length]; lia).
    unfold atom_step at 1.
    replace (Z.to_N (Z.of_nat (length a))) with (blen a) by (unfold blen; lia).
    rewrite take_n_app. cbn [bind].
    replace (Z.of_nat (length (a :: l)) - 1) with (Z.of_nat (length l)) by (cbn [length]; lia).
    rewrite IH by (assumption || lia). cbn [map]. rewrite <- app_assoc. reflexivity.
Qed.

(* ------------------------------------------------------------------ one group *)
Definition atom_ok (m : Z) (a : bytes) : Prop := 1 <= Z.of_nat (length a) <= m /\ wf_bytes a = true.

Definition group_ok (m : Z) (g : Z * list bytes) : Prop :=
  snd g <> [] /\ 1 <= fst g <= m /\
  Forall (fun a => Z.of_nat (length a) = fst g /\ wf_bytes a = true) (snd g).

Lemma wf_concat : forall l, Forall (fun a => wf_bytes a = true) l -> wf_bytes (concat l) = true.
Proof.
  induction l as [|a l IH]; intros H; [reflexivity|]. inversion H; subst.
  cbn [concat]. rewrite wf_bytes_app. rewrite IH by assumption. rewrite H2. reflexivity.
Qed.

Lemma write_group_wf m g e : group_ok m g -> write_group g = Ok e -> wf_bytes e = true /\ (1 <= length e)%nat.
Proof.
  destruct g as [len atoms]. intros (Hne & Hlen & Hall) H. cbn [fst snd] in *.
  assert (Hwfc : wf_bytes (concat atoms) = true).
  { apply wf_concat. eapply Forall_impl; [|exact Hall]. cbn. tauto. }
  unfold write_group in H.
  assert (Hmulti : forall e, (do e1 <- wv (- len); do e2 <- wv (Z.of_nat (length atoms)); Ok (e1 ++ e2 ++ concat atoms)) = Ok e ->
                   wf_bytes e = true /\ (1 <= length e)%nat).
  { clear H e. intros e H.
    destruct (wv (- len)) as [e1|] eqn:E1; cbn [bind] in H; [|discriminate].
    destruct (wv (Z.of_nat (length atoms))) as [e2|] eqn:E2; cbn [bind] in H; [|discriminate].
    apply Ok_inj in H. subst e. rewrite !wf_bytes_app, (wv_wf _ _ E1), (wv_wf _ _ E2), Hwfc.
    split; [reflexivity|]. rewrite app_length. pose proof (wv_len _ _ E1). lia. }
  destruct atoms as [|a [|b r]]; [congruence| |exact (Hmulti e H)].
  destruct (wv len) as [e1|] eqn:E1; cbn [bind] in H; [|discriminate].
  apply Ok_inj in H. subst e. cbn [concat] in Hwfc. rewrite app_nil_r in Hwfc.
  rewrite wf_bytes_app, (wv_wf _ _ E1), Hwfc. split; [reflexivity|].
  rewrite app_length. pose proof (wv_len _ _ E1). lia.
Qed.

Lemma group_read strict m g e rest acc : group_ok m g -> write_group g = Ok e -> wf_bytes rest = true ->
  group_step Atom strict m acc (e ++ rest) = Ok (acc ++ map Atom (snd g), rest).
Proof.
  destruct g as [len atoms]. intros (Hne & Hlen & Hall) H Hr. cbn [fst snd] in *.
  assert (Hwfc : wf_bytes (concat atoms ++ rest) = true).
  { rewrite wf_bytes_app, Hr, andb_true_r. apply wf_concat. eapply Forall_impl; [|exact Hall]. cbn. tauto. }
  assert (Hlens : Forall (fun a => Z.of_nat (length a) = len) atoms).
  { eapply Forall_impl; [|exact Hall]. cbn. tauto. }
  unfold write_group in H.
  assert (Hmulti : (2 <= length atoms)%nat ->
            (do e1 <- wv (- len); do e2 <- wv (Z.of_nat (length atoms)); Ok (e1 ++ e2 ++ concat atoms)) = Ok e ->
            group_step Atom strict m acc (e ++ rest) = Ok (acc ++ map Atom atoms, rest)).
  { clear H. intros H2 H.
    destruct (wv (- len)) as [e1|] eqn:E1; cbn [bind] in H; [|discriminate].
    destruct (wv (Z.of_nat (length atoms))) as [e2|] eqn:E2; cbn [bind] in H; [|discriminate].
    apply Ok_inj in H. subst e. rewrite <- !app_assoc.
    pose proof (wv_range _ _ E1) as R1. pose proof (wv_range _ _ E2) as R2.
    unfold group_step, read_group_header.
    rewrite (wv_rv strict _ _ _ E1)
      by (rewrite wf_bytes_app, (wv_wf _ _ E2), Hwfc; reflexivity).
    cbn [bind].
    destruct (Z.ltb_spec (- len) 0) as [_|Hc]; [|lia].
    destruct (Z.eqb_spec (- len) i64_min) as [Hc|_]; [unfold i64_min, v55 in *; lia|].
    rewrite Z.opp_involutive. rewrite checked_bounded_eq by (unfold v55 in *; lia). cbn [bind].
    rewrite (wv_rv strict _ _ _ E2 Hwfc). cbn [bind].
    rewrite checked_usize_eq by lia. cbn [bind].
    destruct (Z.eqb_spec len 0) as [Hc|_]; [lia|].
    destruct (Z.eqb_spec (Z.of_nat (length atoms)) 0) as [Hc|_]; [lia|]. cbn [orb].
    apply atoms_read; [lia|exact Hlens|lia]. }
  destruct atoms as [|a [|b r]]; [congruence| |apply Hmulti; [cbn [length]; lia|exact H]].
  destruct (wv len) as [e1|] eqn:E1; cbn [bind] in H; [|discriminate].
  apply Ok_inj in H. subst e. rewrite <- !app_assoc.
  pose proof (wv_range _ _ E1) as R1.
  cbn [concat] in Hwfc. rewrite app_nil_r in Hwfc.
  unfold group_step, read_group_header.
  rewrite (wv_rv strict _ _ _ E1 Hwfc). cbn [bind].
  destruct (Z.ltb_spec len 0) as [Hc|_]; [lia|].
  rewrite checked_bounded_eq by lia. cbn [bind].
  destruct (Z.eqb_spec len 0) as [Hc|_]; [lia|]. cbn [orb Z.eqb bind].
  pose proof (atoms_read len ltac:(lia) [a] rest acc (S (length (a ++ rest))) Hlens) as Hx.
  cbn [concat length Z.of_nat Pos.of_succ_nat] in Hx. rewrite app_nil_r in Hx. apply Hx. lia.
Qed.

(* ------------------------------------------------------------------ the group list *)
Lemma write_groups_wf m : forall gs body, Forall (group_ok m) gs -> write_groups gs = Ok body ->
  wf_bytes body = true.
Proof.
  induction gs as [|g gs IH]; intros body Hall H; cbn [write_groups] in H.
  - apply Ok_inj in H. now subst.
  - inversion Hall as [|? ? Hg Hgs]; subst.
    destruct (write_group g) as [e1|] eqn:E1; cbn [bind] in H; [|discriminate].
    destruct (write_groups gs) as [e2|] eqn:E2; cbn [bind] in H; [|discriminate].
    apply Ok_inj in H. subst body. rewrite wf_bytes_app, (proj1 (write_group_wf m g e1 Hg E1)), (IH _ Hgs eq_refl).
    reflexivity.
Qed.

Lemma groups_read strict m : forall gs body rest acc fuel,
  Forall (group_ok m) gs -> write_groups gs = Ok body -> wf_bytes rest = true ->
  (length (body ++ rest) < fuel)%nat ->
  count_loop (group_step Atom strict m) fuel (Z.of_nat (length gs)) acc (body ++ rest)
    = Ok (acc ++ map Atom (concat (map snd gs)), rest).
Proof.
  induction gs as [|g gs IH]; intros body rest acc fuel Hall H Hr Hf; cbn [write_groups] in H.
  - apply Ok_inj in H. subst body. cbn [length Z.of_nat app map concat]. rewrite app_nil_r. apply count_loop_zero.
  - inversion Hall as [|? ? Hg Hgs]; subst.
    destruct (write_group g) as [e1|] eqn:E1; cbn [bind] in H; [|discriminate].
    destruct (write_groups gs) as [e2|] eqn:E2; cbn [bind] in H; [|discriminate].
    apply Ok_inj in H. subst body. rewrite <- app_assoc in Hf |- *.
    destruct (write_group_wf m g e1 Hg E1) as [Hwf1 Hl1]. rewrite app_length in Hf.
    destruct fuel as [|f]; [lia|].
    rewrite count_loop_succ by (cbn [length]; lia).
    assert (Hwf2 : wf_bytes (e2 ++ rest) = true).
    { rewrite wf_bytes_app, (write_groups_wf m gs e2 Hgs E2), Hr. reflexivity. }
    rewrite (group_read strict m g e1 (e2 ++ rest) acc Hg E1 Hwf2). cbn [bind].
    replace (Z.of_nat (length (g :: gs)) - 1) with (Z.of_nat (length gs)) by (cbn [length]; lia).
    rewrite (IH e2 rest _ f Hgs eq_refl Hr) by lia. cbn [map concat]. rewrite map_app, <- app_assoc. reflexivity.
Qed.

(* ------------------------------------------------------------------ group_atoms *)
Lemma group_atoms_concat : forall l, concat (map snd (group_atoms l)) = l.
Proof.
  induction l as [|a l IH]; [reflexivity|]. cbn [group_atoms].
  destruct (group_atoms l) as [|[len g] gs].
  - cbn in IH |- *. now subst l.
  - destruct (Z.of_nat (length a) =? len); cbn [map snd concat] in IH |- *; rewrite <- IH; reflexivity.
Qed.

Lemma group_atoms_ok m : forall l, Forall (atom_ok m) l -> Forall (group_ok m) (group_atoms l).
Proof.
  induction l as [|a l IH]; intros Hall; [constructor|]. inversion Hall as [|? ? Ha Hl]; subst.
  specialize (IH Hl). destruct Ha as [Hal Haw]. cbn [group_atoms].
  assert (Hsingle : group_ok m (Z.of_nat (length a), [a])).
  { split; [discriminate|]. split; [exact Hal|]. constructor; [split; [reflexivity|exact Haw]|constructor]. }
  destruct (group_atoms l) as [|[len g] gs].
  - constructor; [exact Hsingle|constructor].
  - inversion IH as [|? ? Hg Hgs]; subst.
    destruct (Z.eqb_spec (Z.of_nat (length a)) len) as [E|_].
    + constructor; [|exact Hgs]. destruct Hg as (Hne & Hlen & Hall'). cbn [fst snd] in *.
      split; [discriminate|]. split; [exact Hlen|]. constructor; [split; assumption|exact Hall'].
    + constructor; [exact Hsingle|exact IH].
Qed.

Lemma group_atoms_length : forall l, (length (group_atoms l) <= length l)%nat.
Proof.
  induction l as [|a l IH]; [cbn; lia|]. cbn [group_atoms].
  destruct (group_atoms l) as [|[len g] gs]; [cbn; lia|].
  destruct (Z.of_nat (length a) =? len); cbn [length] in *; lia.
Qed.

(* ------------------------------------------------------------------ the whole body and blob *)
Theorem de_body_ser strict m table tbytes instrs n ibytes t dp rest :
  Forall (atom_ok m) table ->
  write_atom_table table = Ok tbytes -> wv (Z.of_nat (length instrs)) = Ok n ->
  write_varints instrs = Ok ibytes ->
  exec_all (map Atom table) instrs ([], []) = Some (dp, [t]) -> wf_bytes rest = true ->
  de_body Atom Cons strict m ((tbytes ++ n ++ ibytes) ++ rest) = Ok (t, rest).
Proof.
  intros Htab Hwt Hn Hwi Hex Hr. unfold write_atom_table in Hwt.
  destruct (wv (Z.of_nat (length (group_atoms table)))) as [e0|] eqn:E0; cbn [bind] in Hwt; [|discriminate].
  destruct (write_groups (group_atoms table)) as [body|] eqn:Eb; cbn [bind] in Hwt; [|discriminate].
  apply Ok_inj in Hwt. subst tbytes. rewrite <- !app_assoc.
  pose proof (group_atoms_ok m table Htab) as Hgs.
  assert (Hwi' : wf_bytes (ibytes ++ rest) = true).
  { rewrite wf_bytes_app, (write_varints_wf _ _ Hwi), Hr. reflexivity. }
  assert (Hwn : wf_bytes (n ++ ibytes ++ rest) = true).
  { rewrite wf_bytes_app, (wv_wf _ _ Hn), Hwi'. reflexivity. }
  assert (Hwb : wf_bytes (body ++ n ++ ibytes ++ rest) = true).
  { rewrite wf_bytes_app, (write_groups_wf m _ _ Hgs Eb), Hwn. reflexivity. }
  pose proof (wv_range _ _ E0) as R0. pose proof (wv_range _ _ Hn) as Rn.
  unfold de_body.
  rewrite (wv_rv strict _ _ _ E0 Hwb). cbn [bind].
  rewrite checked_usize_eq by lia. cbn [bind].
  rewrite (groups_read strict m _ body (n ++ ibytes ++ rest) [] _ Hgs Eb Hwn) by lia.
  cbn [bind app]. rewrite group_atoms_concat.
  rewrite (wv_rv strict _ _ _ Hn Hwi'). cbn [bind].
  rewrite checked_usize_eq by lia. cbn [bind].
  destruct instrs as [|i0 il] eqn:Ei; [cbn in Hex; discriminate|]. rewrite <- Ei in *.
  destruct (Z.eqb_spec (Z.of_nat (length instrs)) 0) as [Hc|_]; [subst instrs; cbn [length] in Hc; lia|].
  rewrite (instrs_read strict (map Atom table) instrs ibytes rest ([], []) (dp, [t]) _ Hwi Hr Hex) by lia.
  cbn [bind snd]. reflexivity.
Qed.

Lemma de_2026_magic strict m body :
  de_2026 Atom Cons strict m (magic ++ body) = de_body Atom Cons strict m body.
Proof.
  unfold de_2026. change 6%nat with (length magic). rewrite take_exact_app.
  replace (bytes_eqb magic magic) with true by (symmetry; now apply bytes_eqb_eq). reflexivity.
Qed.
