(* The validated-point cache is unobservable: over every history of cache operations, starting from
   any sound cache (in particular the empty one of a fresh allocator, or whatever earlier - successful
   or failed - runs left behind), each strict negate sees exactly the outcome it would see without a
   cache. The two premises are facts about the curve library, not about clvm_rs: a group operation
   returns a valid encoding, and the sign flip of a valid non-infinity encoding is valid. *)
From Clvm Require Import Model.BlsCache.
From Coq Require Import List NArith Bool.
Import ListNotations.

Section CacheProofs.
  Variable valid : bytes -> bool.
  Variable is_inf : bytes -> bool.
  Variable flip : bytes -> bytes.
  Hypothesis flip_valid : forall b, valid b = true -> is_inf b = false -> valid (flip b) = true.

  Definition cache_sound (c : cache) : Prop := forall b, In b c -> valid b = true.
  Definition op_ok (o : cache_op) : Prop :=
    match o with CNewPoint b => valid b = true | _ => True end.

  Lemma cache_mem_in c b : cache_mem c b = true <-> In b c.
  Proof.
    unfold cache_mem. rewrite existsb_exists. split.
    - intros [x [Hx E]]. destruct (bytes_eq_dec x b) as [->|]; [exact Hx|discriminate].
    - intros H. exists b. split; [exact H|]. destruct (bytes_eq_dec b b) as [_|n]; [reflexivity|contradiction].
  Qed.

  Lemma validate_sound c b : cache_sound c ->
    fst (c_validate valid c b) = valid b /\ cache_sound (snd (c_validate valid c b)).
  Proof.
    intros Hs. unfold c_validate. destruct (cache_mem c b) eqn:M.
    - apply cache_mem_in in M. cbn [fst snd]. split; [symmetry; apply Hs; exact M|exact Hs].
    - destruct (valid b) eqn:V; cbn [fst snd]; split; try reflexivity; try exact Hs.
      intros x [<-|Hx]; [exact V|apply Hs; exact Hx].
  Qed.

  Lemma step_sound c o : cache_sound c -> op_ok o ->
    fst (c_step valid is_inf flip c o) = nocache_outcome valid o /\
    cache_sound (snd (c_step valid is_inf flip c o)).
  Proof.
    intros Hs Ho. destruct o as [b|b|]; cbn [c_step nocache_outcome].
    - destruct (validate_sound c b Hs) as [E S]. destruct (c_validate valid c b) as [ok c1].
      cbn [fst snd] in E, S. subst ok. destruct (valid b) eqn:V; cbn [fst snd]; split; try reflexivity; try exact S.
      destruct (is_inf b) eqn:I; [exact S|].
      intros x [<-|Hx]; [apply flip_valid; assumption|apply S; exact Hx].
    - cbn [fst snd]. split; [reflexivity|]. intros x [<-|Hx]; [exact Ho|apply Hs; exact Hx].
    - cbn [fst snd]. split; [reflexivity|]. intros x [].
  Qed.

  Theorem cache_unobservable : forall h c, cache_sound c -> Forall op_ok h ->
    fst (c_run valid is_inf flip c h) = map (nocache_outcome valid) h /\
    cache_sound (snd (c_run valid is_inf flip c h)).
  Proof.
    induction h as [|o r IH]; intros c Hs Hh; cbn [c_run map].
    - cbn [fst snd]. split; [reflexivity|exact Hs].
    - inversion Hh as [|? ? Ho Hr]; subst.
      destruct (step_sound c o Hs Ho) as [E S].
      destruct (c_step valid is_inf flip c o) as [x c1]. cbn [fst snd] in E, S.
      destruct (IH c1 S Hr) as [E2 S2].
      destruct (c_run valid is_inf flip c1 r) as [xs c2]. cbn [fst snd] in *. subst. split; [reflexivity|exact S2].
  Qed.

  (* in particular two allocators with different (sound) pasts agree on every later history *)
  Corollary cache_history_independent : forall h c1 c2, cache_sound c1 -> cache_sound c2 -> Forall op_ok h ->
    fst (c_run valid is_inf flip c1 h) = fst (c_run valid is_inf flip c2 h).
  Proof.
    intros h c1 c2 H1 H2 Hh. destruct (cache_unobservable h c1 H1 Hh) as [-> _].
    destruct (cache_unobservable h c2 H2 Hh) as [-> _]. reflexivity.
  Qed.

  Lemma empty_sound : cache_sound [].
  Proof. intros b []. Qed.
End CacheProofs.

(* An allocator that inserted BEFORE validating (and kept the entry on failure) is observable:
   the second strict negate of the same invalid encoding succeeds. *)
Definition c_validate_insert_first (valid : bytes -> bool) (c : cache) (b : bytes) : bool * cache :=
  if cache_mem c b then (true, c) else (valid b, b :: c).

Lemma insert_first_is_observable :
  exists valid b c1,
    c_validate_insert_first valid [] b = (false, c1) /\ fst (c_validate_insert_first valid c1 b) = true.
Proof.
  exists (fun _ => false), [1%N], [[1%N]]. split; reflexivity.
Qed.
