(* The COUNT-based form of the stack discipline (number of values / environments / guards only),
   which the frame lemma of Proofs/MachineFrame.v is stated with. Proofs/MachineTotal.v has the
   stronger list-based invariant (it also tracks that every operator slot holds an atom) used for
   C25 and C04. Original header: the stack discipline of run_program. The value, environment and guard
   stacks stay consistent with the operation stack at every step, so none of the loop's own
   InternalError / expect() / unwrap() sites is reachable; whatever error a run reports comes
   from an operator, a path lookup, an argument check or the cost budget. *)
From Coq Require Import Lia ZifyBool ZifyN ZifyNat.
From Clvm Require Import Model.Machine Proofs.MachineBasics.
Open Scope N_scope.

(* [ok_stacks ops nv ne ng]: processing [ops] top first from a state with nv values, ne
   environments and ng guards never underflows a stack and ends with exactly one value. Each
   operation, once it and everything it schedules has run, has this net effect:
   Cons, SwapEval, Apply: two values become one (Apply also pops an environment);
   ExitGuard: the top value is replaced (a guard is popped); Restore: nothing. *)
Fixpoint ok_stacks (o : list operation) (nv ne ng : nat) : bool :=
  match o with
  | [] => (nv =? 1)%nat && (ne =? 0)%nat && (ng =? 0)%nat
  | OCons :: r => (2 <=? nv)%nat && ok_stacks r (nv - 1) ne ng
  | OSwapEval :: r => (2 <=? nv)%nat && (1 <=? ne)%nat && ok_stacks r (nv - 1) ne ng
  | OApply :: r => (2 <=? nv)%nat && (1 <=? ne)%nat && ok_stacks r (nv - 1) (ne - 1) ng
  | OExitGuard :: r => (1 <=? nv)%nat && (1 <=? ng)%nat && ok_stacks r nv ne (ng - 1)
  | ORestore :: r => (1 <=? nv)%nat && ok_stacks r nv ne ng
  end.

Definition oks (s : mstate) : bool :=
  ok_stacks (ops s) (length (vals s)) (length (envs s)) (length (guards s)).
Definition stack_ok (s : mstate) : Prop := oks s = true.

(* the loop's own internal-error / panic sites *)
Definition machine_bug (e : errkind) : bool :=
  match e with
  | InternalError _ | Panic _ => true
  | _ => false
  end.

Lemma ok_swaps k : forall nv ne ng r,
  ok_stacks (repeat OSwapEval k ++ OApply :: r) (nv + k + 2) (S ne) ng = ok_stacks r (S nv) ne ng.
Proof.
  induction k as [|k IH]; intros nv ne ng r; cbn [repeat app ok_stacks].
  - replace (nv + 0 + 2 - 1)%nat with (S nv) by lia. replace (S ne - 1)%nat with ne by lia.
    destruct (2 <=? nv + 0 + 2)%nat eqn:A; [|lia]. reflexivity.
  - replace (nv + S k + 2 - 1)%nat with (nv + k + 2)%nat by lia.
    destruct (2 <=? nv + S k + 2)%nat eqn:A; [|lia]. cbn [andb Nat.leb]. apply IH.
Qed.

Lemma repeat_snoc {A} (x : A) k l : repeat x k ++ x :: l = repeat x (S k) ++ l.
Proof. induction k as [|k IH]; cbn; [reflexivity|]. rewrite IH. reflexivity. Qed.

Lemma push_operands_shape opl : forall s s', push_operands opl s = Ok s' ->
  exists k, ops s' = repeat OSwapEval k ++ ops s /\ length (vals s') = (length (vals s) + k + 1)%nat /\
            envs s' = envs s /\ guards s' = guards s.
Proof.
  induction opl as [b|a _ r IH]; intros s s' H; cbn [push_operands] in H.
  - destruct b; [|discriminate]. injection H as <-. exists O. cbn. repeat split. lia.
  - apply IH in H. destruct H as (k & Ho & Hv & He & Hg). exists (S k). cbn [push push_op ops vals envs guards] in *.
    rewrite Ho, repeat_snoc. repeat split; try assumption. cbn [length] in Hv. lia.
Qed.

Lemma eval_pair_oks d s p e c s' : eval_pair d s p e = Ok (c, s') ->
  oks s' = ok_stacks (ops s) (S (length (vals s))) (length (envs s)) (length (guards s)).
Proof.
  unfold eval_pair, oks. destruct p as [b|opn opl].
  - destruct (traverse_path b e) as [[c0 v]|]; cbn [bind]; [|discriminate]. intros H; injection H as _ <-. reflexivity.
  - destruct opn as [b|no tl].
    + unfold eval_op_atom. destruct (is_kw _ _).
      * intros H; injection H as _ <-. reflexivity.
      * destruct (push_operands opl _) as [s3|] eqn:E; cbn [bind]; [|discriminate].
        intros H; injection H as _ <-.
        apply push_operands_shape in E. destruct E as (k & Ho & Hv & He & Hg).
        rewrite Ho, Hv, He, Hg. clear Ho Hv He Hg.
        destruct (d_gc d (Atom b)); cbn [push push_op push_env ops vals envs guards length].
        -- replace (S (length (vals s)) + k + 1)%nat with (length (vals s) + k + 2)%nat by lia.
           rewrite ok_swaps. cbn [ok_stacks]. reflexivity.
        -- replace (S (length (vals s)) + k + 1)%nat with (length (vals s) + k + 2)%nat by lia.
           rewrite ok_swaps. reflexivity.
    + destruct tl; [destruct no|]; try discriminate.
      intros H; injection H as _ <-. cbn [push push_op push_env ops vals envs guards length ok_stacks].
      replace (S (S (length (vals s))) - 1)%nat with (S (length (vals s))) by lia.
      replace (S (length (envs s)) - 1)%nat with (length (envs s)) by lia. reflexivity.
Qed.

Lemma eval_pair_nobug d s p e err : eval_pair d s p e = Err err -> machine_bug err = false.
Proof.
  unfold eval_pair. destruct p as [b|opn opl].
  - unfold traverse_path. destruct (_ =? 0); cbn [bind]; [discriminate|].
    generalize (path_bits b) (TRAVERSE_BASE_COST + N.of_nat (first_non_zero b) * TRAVERSE_COST_PER_ZERO_BYTE + TRAVERSE_COST_PER_BIT).
    intros bits. revert e. induction bits as [|bit r IH]; intros e0 c0; cbn [follow bind]; [discriminate|].
    destruct e0; [intros H; injection H as <-; reflexivity|]. apply IH.
  - destruct opn as [b|no tl].
    + unfold eval_op_atom. destruct (is_kw _ _); [discriminate|].
      match goal with |- (do s3 <- push_operands opl ?S; _) = _ -> _ => generalize S end.
      intros s0. destruct (push_operands opl s0) eqn:E; cbn [bind]; [discriminate|].
      intros H; injection H as <-. revert s0 E. induction opl as [b0|a _ r IH]; intros s0 E; cbn [push_operands] in E.
      * destruct b0; [discriminate|]. injection E as <-. reflexivity.
      * eapply IH; exact E.
    + destruct tl; [destruct no|]; try discriminate; intros H; injection H as <-; reflexivity.
Qed.

Lemma get_args2_err ol e : get_args2 ol = Err e -> e = InvalidOpArg 0.
Proof.
  unfold get_args2, bad_arg. intros H.
  repeat match type of H with match ?X with _ => _ end = _ => destruct X end; congruence.
Qed.
Lemma get_args4_err ol e : get_args4 ol = Err e -> e = InvalidOpArg 0.
Proof.
  unfold get_args4, bad_arg. intros H.
  repeat match type of H with match ?X with _ => _ end = _ => destruct X end; congruence.
Qed.

Section Total.
  Variable d : dialect.
  Hypothesis Hop : forall o a m ext e, d_op d o a m ext = Err e -> machine_bug e = false.

  Lemma uint_atom_nobug size c t e : uint_atom size c t = Err e -> machine_bug e = false.
  Proof.
    unfold uint_atom. destruct t as [b|]; [|intros H; injection H as <-; reflexivity].
    destruct b as [|x r]; [discriminate|]. destruct (128 <=? x); [intros H; injection H as <-; reflexivity|].
    match goal with |- match ?X with _ => _ end = _ -> _ => destruct X as [buf|] end;
      [|intros H; injection H as <-; reflexivity].
    destruct (_ <? _)%nat; [intros H; injection H as <-; reflexivity|discriminate].
  Qed.

  Lemma parse_nobug ol e : parse_softfork_arguments d ol = Err e -> machine_bug e = false.
  Proof.
    unfold parse_softfork_arguments. destruct (get_args4 ol) as [[[[a b] c] e0]|] eqn:G; cbn [bind].
    - destruct (uint_atom 4 _ b) eqn:U; cbn [bind].
      + destruct (opset_eqb _ _); [intros H; injection H as <-; reflexivity|discriminate].
      + intros H; injection H as <-. eapply uint_atom_nobug; exact U.
    - intros H; injection H as <-. apply get_args4_err in G. subst. reflexivity.
  Qed.

  (* one step from a consistent state: a consistent state, and never one of the loop's own bugs *)
  Lemma step_total M cost s : stack_ok s ->
    match step d M cost s with
    | Ok (inl (_, s')) => stack_ok s'
    | Ok (inr (_, s')) => exists v, vals s' = [v]
    | Err e => machine_bug e = false
    end.
  Proof.
    unfold stack_ok, oks, step. intros Hs. destruct (_ <? _); [reflexivity|].
    destruct (ops s) as [|o rest_ops] eqn:Eo.
    - cbn [ok_stacks] in Hs. destruct (vals s) as [|v [|? ?]]; cbn in Hs; try discriminate. exists v; reflexivity.
    - set (s0 := {| vals := vals s; envs := envs s; ops := rest_ops; guards := guards s |}).
      destruct o; cbn [ok_stacks] in Hs.
      + (* apply *)
        apply andb_prop in Hs as [Hs H3]. apply andb_prop in Hs as [H1 H2].
        unfold apply_op, pop. cbn [vals envs ops guards s0].
        destruct (vals s) as [|ol [|opr vs]]; cbn in H1; try discriminate. cbn [bind vals envs ops guards].
        destruct (envs s) as [|e0 envs']; cbn in H2; [discriminate|]. cbn [length] in H3.
        set (s3 := {| vals := vs; envs := envs'; ops := rest_ops; guards := guards s |}).
        replace (S (S (length vs)) - 1)%nat with (S (length vs)) in H3 by lia.
        replace (S (length envs') - 1)%nat with (length envs') in H3 by lia.
        destruct (is_kw opr (d_apply d)).
        * destruct (get_args2 ol) as [[no env]|] eqn:G; cbn [bind vals envs ops guards].
          2:{ apply get_args2_err in G. subst. cbn. reflexivity. }
          destruct (eval_pair d s3 no env) as [[c s4]|e1] eqn:EP; cbn [bind vals envs ops guards].
          -- match goal with |- ok_stacks (ops ?S) _ _ _ = true => change (oks S = true) end; rewrite (eval_pair_oks _ _ _ _ _ _ EP). exact H3.
          -- eapply eval_pair_nobug; exact EP.
        * destruct (is_kw opr (d_softfork d)).
          -- unfold enter_guard.
             destruct (first ol) as [fa|e1] eqn:F; cbn [bind vals envs ops guards].
             2:{ destruct ol; cbn in F; [injection F as <-; reflexivity|discriminate]. }
             destruct (uint_atom 8 _ fa) as [ec|e1] eqn:U; cbn [bind vals envs ops guards]; [|eapply uint_atom_nobug; exact U].
             destruct (_ <? _); [reflexivity|]. destruct (_ =? 0); [reflexivity|].
             destruct (parse_softfork_arguments d ol) as [[[ext prg] env]|err] eqn:PS.
             2:{ destruct (d_allow_unknown d); [|eapply parse_nobug; exact PS]. cbn. exact H3. }
             destruct (_ && _)%bool; [reflexivity|].
             match goal with |- context [eval_pair d ?S prg env] =>
               destruct (eval_pair d S prg env) as [[c0 s5]|e1] eqn:EP; cbn [bind vals envs ops guards]; [|eapply eval_pair_nobug; exact EP] end.
             match goal with |- ok_stacks (ops ?S) _ _ _ = true => change (oks S = true) end; rewrite (eval_pair_oks _ _ _ _ _ _ EP). cbn [ops vals envs guards s3 length ok_stacks].
             replace (S (length (guards s)) - 1)%nat with (length (guards s)) by lia. exact H3.
          -- destruct (d_op d opr ol _ _) as [[c v]|e1] eqn:D; cbn [bind vals envs ops guards]; [exact H3|eapply Hop; exact D].
      + (* cons *)
        apply andb_prop in Hs as [H1 H3].
        unfold cons_op, pop. cbn [vals envs ops guards s0].
        destruct (vals s) as [|v1 [|v2 vs]]; cbn in H1; try discriminate. cbn [bind push vals envs ops guards].
        unfold stack_ok, oks. cbn [ops vals envs guards length] in *.
        replace (S (S (length vs)) - 1)%nat with (S (length vs)) in H3 by lia. exact H3.
      + (* exit guard *)
        apply andb_prop in Hs as [Hs H3]. apply andb_prop in Hs as [H1 H2].
        unfold exit_guard. cbn [vals envs ops guards s0].
        destruct (guards s) as [|g gs]; cbn in H2; [discriminate|].
        destruct (_ && _)%bool; [reflexivity|].
        destruct (vals s) as [|v vs]; cbn in H1; [discriminate|]. cbn [bind vals envs ops guards].
        unfold stack_ok, oks. cbn [ops vals envs guards length] in *.
        replace (S (length gs) - 1)%nat with (length gs) in H3 by lia. exact H3.
      + (* swap eval *)
        apply andb_prop in Hs as [Hs H3]. apply andb_prop in Hs as [H1 H2].
        unfold swap_eval_op, pop. cbn [vals envs ops guards s0].
        destruct (vals s) as [|v2 [|prog vs]]; cbn in H1; try discriminate. cbn [bind vals envs ops guards].
        destruct (envs s) as [|env envs'] eqn:Ee; cbn in H2; [discriminate|].
        match goal with |- context [eval_pair d ?S prog env] =>
          destruct (eval_pair d S prog env) as [[c0 s5]|e1] eqn:EP; cbn [bind vals envs ops guards]; [|eapply eval_pair_nobug; exact EP] end.
        match goal with |- ok_stacks (ops ?S) _ _ _ = true => change (oks S = true) end; rewrite (eval_pair_oks _ _ _ _ _ _ EP).
        cbn [push push_op ops vals envs guards length ok_stacks].
        replace (S (S (length vs)) - 1)%nat with (S (length vs)) in * by lia. cbn [length] in H3.
        replace (S (S (length vs)) - 1)%nat with (S (length vs)) in H3 by lia. exact H3.
      + (* restore *)
        apply andb_prop in Hs as [H1 H3]. cbn [vals s0].
        destruct (vals s) as [|v vs] eqn:Ev; cbn in H1; [discriminate|]. cbn [bind vals envs ops guards].
        unfold stack_ok, oks. cbn [ops vals envs guards s0]. try rewrite Ev. exact H3.
  Qed.

  Lemma run_loop_total fuel : forall M cost s e, stack_ok s ->
    run_loop d fuel M cost s = Err e -> machine_bug e = false.
  Proof.
    induction fuel as [|fuel IH]; intros M cost s e Hs H; [injection H as <-; reflexivity|].
    cbn [run_loop] in H. pose proof (step_total M cost s Hs) as T.
    destruct (step d M cost s) as [[[c' s']|[c' s']]|e1]; cbn [bind] in H.
    - eapply IH; eassumption.
    - destruct T as [v Ev]. unfold pop in H. rewrite Ev in H. cbn in H. discriminate.
    - injection H as <-. exact T.
  Qed.

  Theorem run_program_total fuel p e M err :
    run_program d fuel p e M = Err err -> machine_bug err = false.
  Proof.
    unfold run_program. destruct (eval_pair d init_state p e) as [[c s]|e1] eqn:EP; cbn [bind].
    - apply run_loop_total. unfold stack_ok. rewrite (eval_pair_oks _ _ _ _ _ _ EP). reflexivity.
    - intros H; injection H as <-. eapply eval_pair_nobug; exact EP.
  Qed.
End Total.
