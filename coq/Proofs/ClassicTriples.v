(* C16 / C22: parse_triples (src/serde/de_tree.rs, Model/Classic.v Section Triples) refines the
   recursive classic grammar.

   The triple array depends on the bytes, not only on the decoded tree (a non-canonical length
   prefix changes atom_offset), so the reference is the grammar run with an atom reader that also
   keeps the prefix length: an annotated tree [atree]. [aerase] forgets the annotation and gives the
   tree node_from_stream builds; [triples_of] / [hashes_of] are the arrays parse_triples must
   return, as plain structural recursions. The SaveEnd / SaveRightIndex in-place updates and the
   index arithmetic of the loop are shown to produce exactly these arrays; no panic site
   (r[index], tree_hashes[index + 1], tree_hashes[right_index], the two `panic!`s) is reachable
   and the loop finishes within its 4|b|+4 iterations. *)
From Clvm Require Import Model.Classic Proofs.BytesLemmas Proofs.DecoderGeneric Proofs.ClassicProofs
  Proofs.ClassicWriter Proofs.ClassicConverse.
From Coq Require Import Lia ZifyBool ZifyN ZifyNat.
Open Scope N_scope.

Inductive atree := AAtom (off : N) (blob : bytes) | ACons (l r : atree).

Fixpoint aerase (a : atree) : sexp :=
  match a with AAtom _ b => Atom b | ACons l r => Cons (aerase l) (aerase r) end.
(* number of input bytes the node spans *)
Fixpoint alen (a : atree) : N :=
  match a with AAtom off b => off + blen b | ACons l r => 1 + alen l + alen r end.
Fixpoint acount (a : atree) : nat :=
  match a with AAtom _ _ => 1%nat | ACons l r => S (acount l + acount r) end.

(* parse_triples' atom reader: single bytes <= 0x7f have offset 0, everything else (0x80 too)
   goes through decode_size_with_offset; a short atom body is "copy terminated early" *)
Definition read_atom_a (b : N) (r : bytes) : res (atree * bytes) :=
  if b <=? 0x7f then Ok (AAtom 0 [b], r)
  else
    do '(off, size, r1) <- decode_size_with_offset b r;
    match take_n size r1 with
    | None => Err (InternalError 2)
    | Some (blob, r2) => Ok (AAtom off blob, r2)
    end.

Definition parse_a (bs : bytes) : res (atree * bytes) :=
  parse_rec read_atom_a ACons (S (length bs)) bs.

(* the triple array of a node serialized at input offset [start] whose own index is [base]:
   pre-order; a pair's left child is the next index, its right child follows the left sub-tree *)
Fixpoint triples_of (a : atree) (start : N) (base : nat) : list triple :=
  match a with
  | AAtom off blob => [TAtom start (start + off + blen blob) off]
  | ACons l r =>
      TPair start (start + (1 + alen l + alen r)) (N.of_nat (S base + acount l))
      :: triples_of l (start + 1) (S base) ++ triples_of r (start + 1 + alen l) (S base + acount l)
  end.

(* all sub-trees in pre-order: index i of the triple array describes [nth i (subtrees t)] *)
Fixpoint subtrees (t : sexp) : list sexp :=
  match t with Atom _ => [t] | Cons l r => t :: subtrees l ++ subtrees r end.

Lemma triples_of_length : forall a start base, length (triples_of a start base) = acount a.
Proof.
  induction a as [off blob|l IHl r IHr]; intros start base; cbn; [reflexivity|].
  rewrite app_length, IHl, IHr. reflexivity.
Qed.

Lemma acount_nodes : forall a, acount a = n_nodes (aerase a).
Proof. induction a as [off blob|l IHl r IHr]; cbn; [reflexivity|]. rewrite IHl, IHr. lia. Qed.

Lemma subtrees_length : forall t, length (subtrees t) = n_nodes t.
Proof. induction t as [b|l IHl r IHr]; cbn; [reflexivity|]. rewrite app_length, IHl, IHr. lia. Qed.

(* ---------- list helpers for the in-place updates ---------- *)
Lemma nth_error_mid {A} (a : list A) x t i : i = length a -> nth_error (a ++ x :: t) i = Some x.
Proof. intros ->. rewrite nth_error_app2 by lia. rewrite Nat.sub_diag. reflexivity. Qed.

Lemma nth_error_after {A} (a : list A) x t i j : i = (S (length a) + j)%nat ->
  nth_error (a ++ x :: t) i = nth_error t j.
Proof.
  intros ->. rewrite nth_error_app2 by lia.
  replace (S (length a) + j - length a)%nat with (S j) by lia. reflexivity.
Qed.

Lemma update_nth_mid {A} (a : list A) x y t i : i = length a ->
  update_nth i (fun _ => Some y) (a ++ x :: t) = Some (a ++ y :: t).
Proof.
  intros ->. induction a as [|z a IH]; cbn; [reflexivity|]. rewrite IH. reflexivity.
Qed.

(* ---------- the atom reader satisfies the generic side conditions ---------- *)
Lemma read_atom_a_shrinks b r a r' : read_atom_a b r = Ok (a, r') -> (length r' <= length r)%nat.
Proof.
  unfold read_atom_a. destruct (b <=? 127); [intros H; injection H as _ <-; lia|].
  destruct (decode_size_with_offset b r) as [[[k size] r0]|] eqn:E; cbn [bind]; [|discriminate].
  apply decode_size_wo_shrinks in E.
  destruct (take_n size r0) as [[blob r1]|] eqn:Et; [|discriminate].
  intros H. injection H as _ <-. apply take_n_spec in Et. destruct Et as [-> _].
  rewrite app_length in E. lia.
Qed.

Lemma read_atom_a_err b r e : read_atom_a b r = Err e -> ~ bad_err e.
Proof.
  unfold read_atom_a. destruct (b <=? 127); [discriminate|].
  destruct (decode_size_with_offset b r) as [[[k size] r0]|] eqn:E; cbn [bind].
  - destruct (take_n size r0) as [[blob r1]|]; [discriminate|].
    intros H. injection H as <-. intros [Hc|[n Hc]]; discriminate.
  - intros H. injection H as <-. apply decode_size_wo_err in E.
    intros [Hc|[n Hc]]; destruct E as [->|[-> _]]; discriminate.
Qed.

(* ---------- the annotated grammar against the plain one ---------- *)
Definition err_rel (ea en : errkind) : Prop :=
  ea = en \/ (ea = InternalError 2 /\ en = SerializationError).

Definition res_rel (x : res (atree * bytes)) (y : res (sexp * bytes)) : Prop :=
  match x, y with
  | Ok (a, r), Ok (t, r') => t = aerase a /\ r' = r
  | Err ea, Err en => err_rel ea en
  | _, _ => False
  end.

Lemma decode_128 r : decode_size_with_offset 128 r = Ok (1, 0, r).
Proof. reflexivity. Qed.

Lemma take_n_0 r : take_n 0 r = Some ([], r).
Proof. unfold take_n. destruct (N.leb_spec 0 (blen r)); [reflexivity|lia]. Qed.

Lemma read_atom_a_rel b r : res_rel (read_atom_a b r) (read_atom_node b r).
Proof.
  unfold read_atom_a, read_atom_node, parse_atom_node, res_rel.
  destruct (N.eqb_spec b 1) as [->|N1]; [cbn; split; reflexivity|].
  destruct (N.eqb_spec b 128) as [->|N80].
  { change (128 <=? 127) with false. cbv iota. rewrite decode_128. cbn [bind]. rewrite take_n_0.
    cbn. split; reflexivity. }
  destruct (N.leb_spec b 127); [cbn; split; reflexivity|].
  unfold decode_size.
  destruct (decode_size_with_offset b r) as [[[k size] r0]|e] eqn:E; cbn [bind].
  - destruct (take_n size r0) as [[blob r1]|]; cbn; [split; reflexivity|right; split; reflexivity].
  - left; reflexivity.
Qed.

Lemma parse_rec_rel : forall f bs,
  res_rel (parse_rec read_atom_a ACons f bs) (parse_rec read_atom_node Cons f bs).
Proof.
  induction f as [|f IH]; intros bs; cbn [parse_rec]; [left; reflexivity|].
  destruct bs as [|b r]; [left; reflexivity|].
  destruct (b =? 255); [|apply read_atom_a_rel].
  pose proof (IH r) as IH1. unfold res_rel in IH1.
  destruct (parse_rec read_atom_a ACons f r) as [[l r1]|e1];
    destruct (parse_rec read_atom_node Cons f r) as [[l' r1']|e1']; cbn [bind]; try contradiction.
  - destruct IH1 as [-> ->].
    pose proof (IH r1) as IH2. unfold res_rel in IH2.
    destruct (parse_rec read_atom_a ACons f r1) as [[rt r2]|e2];
      destruct (parse_rec read_atom_node Cons f r1) as [[rt' r2']|e2']; cbn [bind]; try contradiction.
    + destruct IH2 as [-> ->]. cbn. split; reflexivity.
    + exact IH2.
  - exact IH1.
Qed.

Theorem parse_a_rel : forall bs, res_rel (parse_a bs) (parse bs).
Proof. intros bs. apply parse_rec_rel. Qed.

(* ---------- reading the triple array back (the doc comment of ParsedTriple) ----------
   blob[start] tells pair from atom; an atom's bytes are blob[start + atom_offset .. end]; a pair's
   left child is the next index and its right child is right_index. *)
Definition slice (bs : bytes) (from to : N) : bytes :=
  firstn (N.to_nat (to - from)) (skipn (N.to_nat from) bs).

Fixpoint tree_of_triples (fuel : nat) (bs : bytes) (ts : list triple) (i : nat) : option sexp :=
  match fuel with
  | O => None
  | S f =>
      match nth_error ts i with
      | Some (TAtom s e off) => Some (Atom (slice bs (s + off) e))
      | Some (TPair _ _ ri) =>
          match tree_of_triples f bs ts (S i), tree_of_triples f bs ts (N.to_nat ri) with
          | Some l, Some r => Some (Cons l r)
          | _, _ => None
          end
      | None => None
      end
  end.

Definition triple_span (t : triple) : N * N :=
  match t with TAtom s e _ => (s, e) | TPair s e _ => (s, e) end.

(* the bytes an annotated node was read from *)
Fixpoint layout (a : atree) (e : bytes) : Prop :=
  match a with
  | AAtom off blob => exists p, e = p ++ blob /\ blen p = off
  | ACons l r => exists e1 e2, e = 255 :: e1 ++ e2 /\ layout l e1 /\ layout r e2
  end.

Lemma layout_len : forall a e, layout a e -> blen e = alen a.
Proof.
  induction a as [off blob|l IHl r IHr]; intros e; cbn [layout alen].
  - intros (p & -> & <-). apply blen_app.
  - intros (e1 & e2 & -> & L1 & L2). apply IHl in L1. apply IHr in L2.
    unfold blen in *. cbn [length]. rewrite app_length. lia.
Qed.

Lemma land128_testbit b : N.land b 128 <> 0 -> N.testbit b 7 = true.
Proof.
  intros Hn. destruct (N.testbit b 7) eqn:E; [reflexivity|]. exfalso. apply Hn.
  apply N.bits_inj. intros n. rewrite N.land_spec, N.bits_0. change 128 with (2 ^ 7).
  rewrite N.pow2_bits_eqb. destruct (N.eqb_spec 7 n) as [<-|]; [rewrite E; reflexivity|apply andb_false_r].
Qed.

Lemma decode_size_wo_prefix b r k size r1 : decode_size_with_offset b r = Ok (k, size, r1) ->
  exists m, r = m ++ r1 /\ blen (b :: m) = k.
Proof.
  intros Hd. unfold decode_size_with_offset in Hd.
  destruct (N.eqb_spec (N.land b 128) 0) as [|N80]; [discriminate|].
  destruct (8 <=? leading_ones8 b); [discriminate|].
  destruct (take_exact (N.to_nat (leading_ones8 b - 1)) r) as [[more r']|] eqn:Et; [|discriminate].
  destruct (6 <? leading_ones8 b); [discriminate|]. cbv zeta in Hd.
  destruct (_ <=? _); [discriminate|].
  assert (Ek : leading_ones8 b = k) by congruence. assert (Er : r' = r1) by congruence. subst r'.
  apply take_exact_spec in Et. destruct Et as [-> Hl]. exists more. split; [reflexivity|].
  assert (1 <= leading_ones8 b).
  { unfold leading_ones8. cbn [leading_ones_from8]. rewrite (land128_testbit b N80). lia. }
  unfold blen. cbn [length]. lia.
Qed.

Lemma read_atom_a_layout b r a rest : read_atom_a b r = Ok (a, rest) ->
  exists e, b :: r = e ++ rest /\ layout a e.
Proof.
  unfold read_atom_a. destruct (b <=? 127).
  { intros Hp. assert (AAtom 0 [b] = a) by congruence. assert (r = rest) by congruence. subst a r.
    exists [b]. split; [reflexivity|]. exists []. split; reflexivity. }
  destruct (decode_size_with_offset b r) as [[[off size] r1]|] eqn:Ed; cbn [bind]; [|discriminate].
  destruct (take_n size r1) as [[blob r2]|] eqn:Et; [|discriminate].
  intros Hp. assert (AAtom off blob = a) by congruence. assert (r2 = rest) by congruence. subst a r2.
  destruct (decode_size_wo_prefix _ _ _ _ _ Ed) as (m & -> & Hm).
  apply take_n_spec in Et. destruct Et as [-> _].
  exists ((b :: m) ++ blob). split; [cbn; rewrite <- app_assoc; reflexivity|].
  exists (b :: m). split; [reflexivity|assumption].
Qed.

Lemma parse_ra_layout : forall f bs a rest, parse_rec read_atom_a ACons f bs = Ok (a, rest) ->
  exists e, bs = e ++ rest /\ layout a e.
Proof.
  induction f as [|f IH]; intros bs a rest Hp; cbn in Hp; [discriminate|].
  destruct bs as [|b r]; [discriminate|].
  destruct (N.eqb_spec b 255) as [Eb|Nb].
  - destruct (parse_rec _ _ f r) as [[l r1]|] eqn:E1; cbn in Hp; [|discriminate].
    destruct (parse_rec _ _ f r1) as [[rt r2]|] eqn:E2; cbn in Hp; [|discriminate].
    assert (ACons l rt = a) by congruence. assert (r2 = rest) by congruence. subst a r2.
    destruct (IH _ _ _ E1) as (e1 & -> & L1). destruct (IH _ _ _ E2) as (e2 & -> & L2).
    exists (255 :: e1 ++ e2). split; [subst b; cbn; rewrite <- app_assoc; reflexivity|].
    exists e1, e2. split; [reflexivity|]. split; assumption.
  - apply read_atom_a_layout; assumption.
Qed.

Lemma slice_mid x y z from to : blen x = from -> to = from + blen y -> slice (x ++ y ++ z) from to = y.
Proof.
  intros Hx ->. unfold slice. replace (from + blen y - from) with (blen y) by lia.
  subst from. unfold blen. rewrite !Nat2N.id.
  rewrite skipn_app, skipn_all, Nat.sub_diag. cbn [skipn app].
  rewrite firstn_app, firstn_all, Nat.sub_diag. cbn [firstn]. apply app_nil_r.
Qed.

Lemma tree_of_triples_spec : forall a e, layout a e ->
  forall fuel pre post tpre tpost start base, (acount a <= fuel)%nat ->
    blen pre = start -> length tpre = base ->
    tree_of_triples fuel (pre ++ e ++ post) (tpre ++ triples_of a start base ++ tpost) base
      = Some (aerase a).
Proof.
  induction a as [off blob|l IHl r IHr]; intros e Hl fuel pre post tpre tpost start base Hf Hpre Hb;
    cbn [layout] in Hl.
  - destruct Hl as (p & -> & Hp). destruct fuel as [|fuel]; [cbn in Hf; lia|].
    cbn [tree_of_triples triples_of app]. rewrite (nth_error_mid tpre _ _ base (eq_sym Hb)).
    cbn [aerase]. f_equal. f_equal.
    rewrite <- app_assoc. rewrite (app_assoc pre p). apply slice_mid; [rewrite blen_app; lia|lia].
  - destruct Hl as (e1 & e2 & -> & L1 & L2). destruct fuel as [|fuel]; [cbn in Hf; lia|].
    cbn [acount] in Hf.
    cbn [tree_of_triples triples_of app]. rewrite (nth_error_mid tpre _ _ base (eq_sym Hb)).
    pose proof (layout_len _ _ L1) as Len1.
    (* left child: next index, one byte further *)
    assert (HL : tree_of_triples fuel (pre ++ 255 :: (e1 ++ e2) ++ post)
                   (tpre ++ TPair start (start + (1 + alen l + alen r)) (N.of_nat (S base + acount l))
                         :: (triples_of l (start + 1) (S base) ++ triples_of r (start + 1 + alen l) (S base + acount l)) ++ tpost)
                   (S base) = Some (aerase l)).
    { replace (pre ++ 255 :: (e1 ++ e2) ++ post) with ((pre ++ [255]) ++ e1 ++ (e2 ++ post))
        by (cbn; rewrite <- !app_assoc; reflexivity).
      replace (tpre ++ TPair start (start + (1 + alen l + alen r)) (N.of_nat (S base + acount l))
                 :: (triples_of l (start + 1) (S base) ++ triples_of r (start + 1 + alen l) (S base + acount l)) ++ tpost)
        with ((tpre ++ [TPair start (start + (1 + alen l + alen r)) (N.of_nat (S base + acount l))])
                ++ triples_of l (start + 1) (S base) ++ (triples_of r (start + 1 + alen l) (S base + acount l) ++ tpost))
        by (cbn; rewrite <- !app_assoc; reflexivity).
      apply IHl; [assumption|lia|rewrite blen_app; change (blen [255]) with 1; lia|
                  rewrite app_length; cbn [length]; lia]. }
    rewrite HL.
    assert (HR : tree_of_triples fuel (pre ++ 255 :: (e1 ++ e2) ++ post)
                   (tpre ++ TPair start (start + (1 + alen l + alen r)) (N.of_nat (S base + acount l))
                         :: (triples_of l (start + 1) (S base) ++ triples_of r (start + 1 + alen l) (S base + acount l)) ++ tpost)
                   (N.to_nat (N.of_nat (S base + acount l))) = Some (aerase r)).
    { rewrite Nat2N.id.
      replace (pre ++ 255 :: (e1 ++ e2) ++ post) with ((pre ++ 255 :: e1) ++ e2 ++ post)
        by (cbn; rewrite <- !app_assoc; reflexivity).
      replace (tpre ++ TPair start (start + (1 + alen l + alen r)) (N.of_nat (S base + acount l))
                 :: (triples_of l (start + 1) (S base) ++ triples_of r (start + 1 + alen l) (S base + acount l)) ++ tpost)
        with ((tpre ++ TPair start (start + (1 + alen l + alen r)) (N.of_nat (S base + acount l))
                 :: triples_of l (start + 1) (S base))
                ++ triples_of r (start + 1 + alen l) (S base + acount l) ++ tpost)
        by (cbn; rewrite <- !app_assoc; reflexivity).
      apply IHr; [assumption|lia| |rewrite app_length; cbn [length]; rewrite triples_of_length; lia].
      rewrite blen_app. unfold blen in *. cbn [length]. lia. }
    rewrite HR. reflexivity.
Qed.

(* ---------- size of what the decoders build, against the bytes they consumed ---------- *)
Fixpoint atom_bytes (t : sexp) : nat :=
  match t with Atom b => length b | Cons l r => (atom_bytes l + atom_bytes r)%nat end.

Lemma read_atom_node_bounded b r a rest : read_atom_node b r = Ok (Atom a, rest) ->
  (length rest <= length r /\ length a <= S (length r) - length rest)%nat.
Proof.
  unfold read_atom_node, parse_atom_node.
  destruct (b =? 1); [cbn [bind]; intros Hp; assert ([1] = a /\ r = rest) as [<- <-] by (split; congruence); cbn [length]; lia|].
  destruct (b =? 128); [cbn [bind]; intros Hp; assert ([] = a /\ r = rest) as [<- <-] by (split; congruence); cbn [length]; lia|].
  destruct (b <=? 127); [cbn [bind]; intros Hp; assert ([b] = a /\ r = rest) as [<- <-] by (split; congruence); cbn [length]; lia|].
  destruct (decode_size b r) as [[size r0]|] eqn:E; cbn [bind]; [|discriminate].
  apply decode_size_shrinks in E.
  destruct (take_n size r0) as [[blob r1]|] eqn:Et; cbn [bind]; [|discriminate].
  intros Hp. assert (blob = a /\ r1 = rest) as [<- <-] by (split; congruence).
  apply take_n_spec in Et. destruct Et as [-> _]. rewrite app_length in E. lia.
Qed.

Lemma parse_rec_bounded : forall f bs t rest, parse_rec read_atom_node Cons f bs = Ok (t, rest) ->
  (length rest < length bs /\ n_nodes t <= length bs - length rest /\
   atom_bytes t <= length bs - length rest)%nat.
Proof.
  induction f as [|f IH]; intros bs t rest Hp; cbn in Hp; [discriminate|].
  destruct bs as [|b r]; [discriminate|].
  destruct (b =? 255).
  - destruct (parse_rec _ _ f r) as [[l r1]|] eqn:E1; cbn in Hp; [|discriminate].
    destruct (parse_rec _ _ f r1) as [[rt r2]|] eqn:E2; cbn in Hp; [|discriminate].
    assert (Cons l rt = t /\ r2 = rest) as [<- <-] by (split; congruence).
    apply IH in E1. apply IH in E2. cbn [length n_nodes atom_bytes]. lia.
  - pose proof Hp as Hp'. unfold read_atom_node in Hp'.
    destruct (parse_atom_node b r) as [[a r']|]; cbn in Hp'; [|discriminate].
    assert (Atom a = t) by congruence. subst t.
    apply read_atom_node_bounded in Hp. cbn [length n_nodes atom_bytes]. lia.
Qed.

(* no decoder builds more than it read: at most one node and one atom byte per input byte *)
Theorem decode_output_bounded : forall bs t rest, node_from_stream bs = Ok (t, rest) ->
  (n_nodes t <= length bs - length rest /\ atom_bytes t <= length bs - length rest)%nat.
Proof.
  intros bs t rest Hn. rewrite node_from_stream_parse in Hn. apply parse_rec_bounded in Hn. tauto.
Qed.

(* ---------- the loop ---------- *)
Section Loop.
  Variable H : bytes -> bytes.

  (* the hash array: tree hash of every sub-tree, pre-order *)
  Fixpoint hashes_of (a : atree) : list bytes :=
    match a with
    | AAtom _ blob => [H (1 :: blob)]
    | ACons l r =>
        H (2 :: treehash H (aerase l) ++ treehash H (aerase r)) :: hashes_of l ++ hashes_of r
    end.

  Lemma hashes_of_cons a : exists t, hashes_of a = treehash H (aerase a) :: t.
  Proof. destruct a as [off blob|l r]; cbn; eexists; reflexivity. Qed.

  Lemma hashes_of_length : forall a, length (hashes_of a) = acount a.
  Proof.
    induction a as [off blob|l IHl r IHr]; cbn; [reflexivity|].
    rewrite app_length, IHl, IHr. reflexivity.
  Qed.

  Lemma hashes_of_subtrees : forall a, hashes_of a = map (treehash H) (subtrees (aerase a)).
  Proof.
    induction a as [off blob|l IHl r IHr]; cbn; [reflexivity|].
    rewrite map_app, IHl, IHr. reflexivity.
  Qed.

  Notation parse_ra := (parse_rec read_atom_a ACons).

  Lemma triples_loop_ok : forall pf bs a rest, parse_ra pf bs = Ok (a, rest) ->
    exists n, (n <= 4 * (length bs - length rest))%nat /\ (1 <= n)%nat /\
      forall k ops r th start base, length r = base -> length th = base ->
        triples_loop H (n + k) (ParseObj :: ops) r th start bs =
        triples_loop H k ops (r ++ triples_of a start base) (th ++ hashes_of a) (start + alen a) rest.
  Proof.
    induction pf as [|f IH]; intros bs a rest Hp; cbn in Hp; [discriminate|].
    destruct bs as [|b r0]; [discriminate|].
    destruct (b =? 255) eqn:Eb.
    - destruct (parse_ra f r0) as [[l r1]|] eqn:E1; cbn in Hp; [|discriminate].
      destruct (parse_ra f r1) as [[rt r2]|] eqn:E2; cbn in Hp; [|discriminate].
      assert (Ea : ACons l rt = a) by congruence. assert (Er : r2 = rest) by congruence. subst a r2.
      pose proof (parse_rec_shrinks _ _ read_atom_a_shrinks read_atom_a_err _ _ _ _ E1) as S1.
      pose proof (parse_rec_shrinks _ _ read_atom_a_shrinks read_atom_a_err _ _ _ _ E2) as S2.
      destruct (IH _ _ _ E1) as (n1 & B1 & P1 & H1). destruct (IH _ _ _ E2) as (n2 & B2 & P2 & H2).
      exists (S (n1 + S (n2 + 1))). split; [cbn [length]; lia|]. split; [lia|].
      intros k ops r th start base Hr Hth.
      destruct (hashes_of_cons l) as [HLt EHL]. destruct (hashes_of_cons rt) as [HRt EHR].
      cbn [Nat.add triples_loop]. rewrite Eb.
      rewrite <- Nat.add_assoc.
      rewrite (H1 _ _ _ _ _ (S base)) by (rewrite app_length; cbn [length]; lia).
      (* SaveRightIndex *)
      cbn [Nat.add triples_loop].
      rewrite <- !app_assoc. cbn [app].
      rewrite (nth_error_mid r _ _ (length r) eq_refl).
      rewrite (update_nth_mid r _ (TPair start 0 (N.of_nat (length (r ++ TPair start 0 0 :: triples_of l (start + 1) (S base))))) _ (length r) eq_refl).
      assert (Hlen2 : length (r ++ TPair start 0 0 :: triples_of l (start + 1) (S base)) = (S base + acount l)%nat).
      { rewrite app_length. cbn [length]. rewrite triples_of_length. lia. }
      rewrite Hlen2.
      rewrite <- Nat.add_assoc.
      rewrite (H2 _ _ _ _ _ (S base + acount l)%nat); cycle 1.
      { rewrite app_length. cbn [length]. rewrite triples_of_length. lia. }
      { rewrite app_length. cbn [length]. rewrite hashes_of_length. lia. }
      (* SaveEnd *)
      cbn [Nat.add triples_loop].
      rewrite <- !app_assoc. cbn [app].
      rewrite (nth_error_mid r _ _ (length r) eq_refl).
      rewrite (nth_error_after th _ _ (S (length r)) 0%nat) by lia.
      rewrite Nat2N.id.
      rewrite (nth_error_after th _ _ (S base + acount l)%nat (length (hashes_of l))) by (rewrite hashes_of_length; lia).
      rewrite (nth_error_app2 (hashes_of l) (hashes_of rt) (le_n _)). rewrite Nat.sub_diag.
      rewrite EHL, EHR. cbn [app nth_error].
      rewrite (update_nth_mid r _ _ _ (length r) eq_refl).
      rewrite (update_nth_mid th _ _ _ (length r)) by lia.
      cbn [triples_of hashes_of alen]. rewrite EHL, EHR. cbn [app].
      replace (start + 1 + alen l + alen rt) with (start + (1 + alen l + alen rt)) by lia.
      reflexivity.
    - exists 1%nat. pose proof (read_atom_a_shrinks _ _ _ _ Hp) as S1.
      split; [cbn [length]; lia|]. split; [lia|].
      intros k ops r th start base Hr Hth. cbn [Nat.add triples_loop]. rewrite Eb.
      unfold read_atom_a in Hp. destruct (b <=? 127).
      + assert (Ea : AAtom 0 [b] = a) by congruence. assert (Er : r0 = rest) by congruence. subst a r0.
        cbn [triples_of hashes_of alen]. change (blen [b]) with 1.
        rewrite N.add_0_r, N.add_0_l. reflexivity.
      + destruct (decode_size_with_offset b r0) as [[[off size] r1]|] eqn:Ed; cbn [bind] in Hp |- *; [|discriminate].
        destruct (take_n size r1) as [[blob r2]|] eqn:Et; [|discriminate].
        assert (Ea : AAtom off blob = a) by congruence. assert (Er : r2 = rest) by congruence. subst a r2.
        apply take_n_spec in Et. destruct Et as [_ Hlen].
        cbn [triples_of hashes_of alen]. rewrite Hlen.
        replace (start + (off + size)) with (start + off + size) by lia. reflexivity.
  Qed.

  Lemma triples_loop_err : forall pf bs e, parse_ra pf bs = Err e -> e <> OutOfFuel ->
    exists n, (n <= 4 * length bs + 1)%nat /\ (1 <= n)%nat /\
      forall k ops r th start, length th = length r ->
        triples_loop H (n + k) (ParseObj :: ops) r th start bs = Err e.
  Proof.
    induction pf as [|f IH]; intros bs e Hp Hne; cbn in Hp; [congruence|].
    destruct bs as [|b r0].
    - assert (SerializationError = e) by congruence. subst e.
      exists 1%nat. split; [cbn; lia|]. split; [lia|]. intros. reflexivity.
    - destruct (b =? 255) eqn:Eb.
      + destruct (parse_ra f r0) as [[l r1]|e1] eqn:E1; cbn in Hp.
        * destruct (parse_ra f r1) as [[rt r2]|e2] eqn:E2; cbn in Hp; [discriminate|].
          assert (e2 = e) by congruence. subst e2.
          pose proof (parse_rec_shrinks _ _ read_atom_a_shrinks read_atom_a_err _ _ _ _ E1) as S1.
          destruct (triples_loop_ok _ _ _ _ E1) as (n1 & B1 & P1 & H1).
          destruct (IH _ _ E2 Hne) as (n2 & B2 & P2 & H2).
          exists (S (n1 + S n2)). split; [cbn [length]; lia|]. split; [lia|].
          intros k ops r th start Hth. cbn [Nat.add triples_loop]. rewrite Eb.
          rewrite <- Nat.add_assoc.
          rewrite (H1 _ _ _ _ _ (S (length r))) by (rewrite app_length; cbn [length]; lia).
          cbn [Nat.add triples_loop].
          rewrite <- !app_assoc. cbn [app].
          rewrite (nth_error_mid r _ _ (length r) eq_refl).
          rewrite (update_nth_mid r _ (TPair start 0 (N.of_nat (length (r ++ TPair start 0 0 :: triples_of l (start + 1) (S (length r)))))) _ (length r) eq_refl).
          apply H2. rewrite !app_length. cbn [length]. rewrite triples_of_length, hashes_of_length. lia.
        * assert (e1 = e) by congruence. subst e1.
          destruct (IH _ _ E1 Hne) as (n1 & B1 & P1 & H1).
          exists (S n1). split; [cbn [length]; lia|]. split; [lia|].
          intros k ops r th start Hth. cbn [Nat.add triples_loop]. rewrite Eb.
          apply H1. rewrite !app_length. cbn [length]. lia.
      + exists 1%nat. split; [cbn [length]; lia|]. split; [lia|].
        intros k ops r th start Hth. cbn [Nat.add triples_loop]. rewrite Eb.
        unfold read_atom_a in Hp. destruct (b <=? 127); [discriminate|].
        destruct (decode_size_with_offset b r0) as [[[off size] r1]|e1] eqn:Ed; cbn [bind] in Hp |- *.
        * destruct (take_n size r1) as [[blob r2]|] eqn:Et; [discriminate|]. congruence.
        * congruence.
  Qed.

  (* parse_triples on a whole input equals the annotated grammar *)
  Theorem parse_triples_refines : forall bs,
    parse_triples H bs =
      match parse_a bs with
      | Ok (a, rest) => Ok (triples_of a 0 0, hashes_of a, rest)
      | Err e => Err e
      end.
  Proof.
    intros bs. unfold parse_triples, parse_a.
    destruct (parse_ra (S (length bs)) bs) as [[a rest]|e] eqn:E.
    - destruct (triples_loop_ok _ _ _ _ E) as (n & B & P & Hn).
      replace (4 * length bs + 4)%nat with (n + (4 * length bs + 4 - n))%nat by lia.
      rewrite (Hn _ _ [] [] 0 0%nat eq_refl eq_refl).
      destruct (4 * length bs + 4 - n)%nat eqn:Ek; [lia|]. reflexivity.
    - assert (Hne : e <> OutOfFuel).
      { intros ->. apply (parse_rec_fuel read_atom_a ACons read_atom_a_shrinks read_atom_a_err (S (length bs)) bs); [lia|assumption]. }
      destruct (triples_loop_err _ _ _ E Hne) as (n & B & P & Hn).
      replace (4 * length bs + 4)%nat with (n + (4 * length bs + 4 - n))%nat by lia.
      apply Hn. reflexivity.
  Qed.

  (* ... and hence agrees with node_from_stream on every byte string *)
  Theorem parse_triples_agrees : forall bs,
    match node_from_stream bs with
    | Ok (t, rest) =>
        exists a, aerase a = t /\ parse_triples H bs = Ok (triples_of a 0 0, hashes_of a, rest)
    | Err e =>
        exists e', parse_triples H bs = Err e' /\
                   (e' = e \/ (e' = InternalError 2 /\ e = SerializationError))
    end.
  Proof.
    intros bs. rewrite node_from_stream_parse, parse_triples_refines.
    pose proof (parse_a_rel bs) as Hr. unfold res_rel in Hr.
    destruct (parse_a bs) as [[a r]|ea]; destruct (parse bs) as [[t r']|en]; try contradiction.
    - destruct Hr as [-> ->]. exists a. split; reflexivity.
    - exists ea. split; [reflexivity|exact Hr].
  Qed.

  Theorem parse_triples_total : forall bs e, parse_triples H bs = Err e -> ~ bad_err e.
  Proof.
    intros bs e He. rewrite parse_triples_refines in He. unfold parse_a in He.
    destruct (parse_ra (S (length bs)) bs) as [[a rest]|e0] eqn:E; [discriminate|].
    assert (e0 = e) by congruence. subst e0.
    apply (parse_rec_err_good read_atom_a ACons read_atom_a_err _ _ _ E).
    intros ->. apply (parse_rec_fuel read_atom_a ACons read_atom_a_shrinks read_atom_a_err (S (length bs)) bs); [lia|assumption].
  Qed.

  (* the hash array of an accepted input: the tree hash of every sub-tree of the decoded tree *)
  Theorem parse_triples_hashes : forall bs ts hs rest, parse_triples H bs = Ok (ts, hs, rest) ->
    exists t, node_from_stream bs = Ok (t, rest) /\ hs = map (treehash H) (subtrees t) /\
              length ts = n_nodes t.
  Proof.
    intros bs ts hs rest Hp. pose proof (parse_triples_agrees bs) as Ha.
    destruct (node_from_stream bs) as [[t r]|e].
    - destruct Ha as (a & <- & Ht). rewrite Ht in Hp.
      assert (E1 : triples_of a 0 0 = ts) by congruence. assert (E2 : hashes_of a = hs) by congruence.
      assert (E3 : r = rest) by congruence. subst ts hs r. exists (aerase a).
      split; [reflexivity|]. split; [apply hashes_of_subtrees|].
      rewrite triples_of_length. apply acount_nodes.
    - destruct Ha as (e' & He & _). rewrite He in Hp. discriminate.
  Qed.

  Theorem parse_triples_ser : forall t e rest, wf_sexp t = true -> ser t = Some e ->
    exists ts, parse_triples H (e ++ rest) = Ok (ts, map (treehash H) (subtrees t), rest) /\
               length ts = n_nodes t.
  Proof.
    intros t e rest Hwf Hs. pose proof (parse_triples_agrees (e ++ rest)) as Ha.
    rewrite (node_from_stream_ser t e rest Hwf Hs) in Ha. destruct Ha as (a & Ea & Ht).
    exists (triples_of a 0 0). rewrite Ht, hashes_of_subtrees, Ea. split; [reflexivity|].
    rewrite triples_of_length, acount_nodes, Ea. reflexivity.
  Qed.

  (* an accepted input: the returned array, read back against the input the way ParsedTriple's
     documentation says, is the tree node_from_stream builds; the root triple spans exactly the
     consumed bytes *)
  Theorem parse_triples_describe : forall bs ts hs rest, parse_triples H bs = Ok (ts, hs, rest) ->
    exists t, node_from_stream bs = Ok (t, rest) /\
              tree_of_triples (length ts) bs ts 0 = Some t /\
              exists t0, nth_error ts 0 = Some t0 /\ triple_span t0 = (0, blen bs - blen rest).
  Proof.
    intros bs ts hs rest Hp. rewrite parse_triples_refines in Hp.
    pose proof (parse_a_rel bs) as Hr. unfold parse_a in Hp, Hr.
    destruct (parse_ra (S (length bs)) bs) as [[a rest']|] eqn:E; [|discriminate].
    assert (E1 : triples_of a 0 0 = ts) by congruence. assert (E3 : rest' = rest) by congruence.
    subst ts rest'. unfold res_rel in Hr. rewrite node_from_stream_parse.
    destruct (parse bs) as [[t r']|]; [|contradiction]. destruct Hr as [-> ->].
    exists (aerase a). split; [reflexivity|].
    destruct (parse_ra_layout _ _ _ _ E) as (e & Hbs & Hl).
    pose proof (layout_len _ _ Hl) as Hlen. split.
    - rewrite triples_of_length.
      pose proof (tree_of_triples_spec a e Hl (acount a) [] rest [] [] 0 0%nat (le_n _) eq_refl eq_refl) as Hs.
      cbn [app] in Hs. rewrite app_nil_r in Hs. rewrite <- Hbs in Hs. exact Hs.
    - subst bs. rewrite blen_app. replace (blen e + blen rest - blen rest) with (blen e) by lia.
      rewrite Hlen. destruct a as [off blob|l rt]; cbn [triples_of nth_error alen]; eexists; (split; [reflexivity|]);
        cbn [triple_span]; f_equal; lia.
  Qed.
End Loop.
