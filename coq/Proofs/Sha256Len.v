(* The executable SHA-256 of Model/Sha256.v returns 32 bytes for every input: the premise of
   C23_clvm_is_run about the hash function holds for the function the extracted model runs. *)
From Coq Require Import Lia.
From Clvm Require Import Model.Sha256.
Open Scope N_scope.

Lemma be_len n : forall v, length (be n v) = n.
Proof. induction n as [|n IH]; intros v; cbn [be]; [reflexivity|]. rewrite app_length, IH. cbn. lia. Qed.

Lemma round_len st kw : length st = 8%nat -> length (round st kw) = 8%nat.
Proof.
  intros H. do 9 (destruct st as [|? st]; try discriminate H). reflexivity.
Qed.

Lemma fold_round_len l : forall st, length st = 8%nat -> length (fold_left round l st) = 8%nat.
Proof. induction l as [|kw l IH]; intros st H; cbn [fold_left]; [exact H|]. apply IH, round_len, H. Qed.

Lemma compress_len st blk : length st = 8%nat -> length (compress st blk) = 8%nat.
Proof.
  intros H. unfold compress. rewrite map_length, combine_length, fold_round_len by exact H.
  rewrite H. reflexivity.
Qed.

Lemma blocks_len fuel : forall bs st, length st = 8%nat -> length (blocks fuel bs st) = 8%nat.
Proof.
  induction fuel as [|k IH]; intros bs st H; cbn [blocks]; [exact H|].
  destruct bs; [exact H|]. apply IH, compress_len, H.
Qed.

Lemma concat_be4_len l : length (concat (map (be 4) l)) = (4 * length l)%nat.
Proof.
  induction l as [|x l IH]; [reflexivity|].
  cbn [map concat]. rewrite app_length, IH, be_len. cbn [length]. lia.
Qed.

Theorem sha256_len m : length (sha256 m) = 32%nat.
Proof.
  unfold sha256. rewrite concat_be4_len, blocks_len; reflexivity.
Qed.

Corollary sha256_blen m : blen (sha256 m) = 32.
Proof. unfold blen. rewrite sha256_len. reflexivity. Qed.
