(* C03 (reads): what the interpreter reads from an atom through the allocator depends only on the
   atom's bytes. The tree-store functions of Model/OpUtils.v used by the machine model are the
   arena's read functions composed with [denote]. *)
From Coq Require Import Lia ZifyBool ZifyN ZifyNat.
From Clvm Require Import Model.OpUtils Model.Alloc Model.AllocRef Proofs.AllocBasics Proofs.AllocHeap Proofs.AllocEnc
  Proofs.AllocReads Proofs.IntEncBasics.
Open Scope N_scope.

Lemma be_value_1 x : be_value [x] = x.
Proof. unfold be_value; cbn [be_acc]. lia. Qed.
Lemma be_value_2 x y : be_value [x; y] = x * 256 + y.
Proof. unfold be_value; cbn [be_acc]. lia. Qed.
Lemma be_value_3 x y z : be_value [x; y; z] = (x * 256 + y) * 256 + z.
Proof. unfold be_value; cbn [be_acc]. lia. Qed.
Lemma be_value_4 x y z w : be_value [x; y; z; w] = ((x * 256 + y) * 256 + z) * 256 + w.
Proof. unfold be_value; cbn [be_acc]. lia. Qed.

Ltac brute :=
  repeat match goal with
         | |- context [N.eqb ?a ?b] => destruct (N.eqb a b) eqn:?
         | |- context [N.leb ?a ?b] => destruct (N.leb a b) eqn:?
         | |- context [N.ltb ?a ?b] => destruct (N.ltb a b) eqn:?
         end; cbn [negb andb orb]; try reflexivity; try lia.

(* the tree-store small_number of the machine model is allocator.rs' fits_in_small_atom *)
Lemma small_number_is_fits b : wf_bytes b = true ->
  OpUtils.small_number (Atom b) = fits_in_small_atom b.
Proof.
  intros W. unfold OpUtils.small_number, fits_in_small_atom, blen.
  destruct b as [|x [|y [|z [|w [|v r]]]]].
  - reflexivity.
  - cbn [length Nat.ltb Nat.leb canonical_int]. rewrite be_value_1. change (N.of_nat 1) with 1.
    cbn in W. rewrite andb_true_r in W. unfold wf_byte in W. brute.
  - cbn [length Nat.ltb Nat.leb canonical_int]. rewrite be_value_2. change (N.of_nat 2) with 2.
    cbn in W. apply andb_prop in W as [Wx W]. apply andb_prop in W as [Wy _]. unfold wf_byte in *. brute.
  - cbn [length Nat.ltb Nat.leb canonical_int]. rewrite be_value_3. change (N.of_nat 3) with 3.
    cbn in W. apply andb_prop in W as [Wx W]. apply andb_prop in W as [Wy W]. apply andb_prop in W as [Wz _]. unfold wf_byte in *. brute.
  - cbn [length Nat.ltb Nat.leb canonical_int]. rewrite be_value_4. change (N.of_nat 4) with 4.
    cbn in W. apply andb_prop in W as [Wx W]. apply andb_prop in W as [Wy W]. apply andb_prop in W as [Wz W].
    apply andb_prop in W as [Ww _]. unfold wf_byte in *. brute.
  - cbn [length Nat.ltb Nat.leb].
    replace (4 <? N.of_nat (S (S (S (S (S (length r))))))) with true by lia. reflexivity.
Qed.

(* the reads the interpreter performs through the allocator, as functions of the denoted tree *)
Lemma arena_small_number a n t : WF (hp a) -> denote (hp a) n = Some t -> wf_sexp t = true ->
  Alloc.small_number a n = Ok (OpUtils.small_number t).
Proof.
  intros Hw Hd Wt. rewrite (small_number_spec a n t Hw Hd). f_equal.
  destruct t as [b|l r]; [|reflexivity].
  cbn in Wt. rewrite <- (fits_in_small_atom_ref b Wt). symmetry. apply small_number_is_fits. exact Wt.
Qed.
