(* The operator contracts of Proofs/OpContractDefs.v for the non-cryptographic operators of
   Model/OpsArith.v, OpsStr.v, OpsBits.v, OpsUnknown.v. Uses the compositional predicates
   (budk / valrel / tot) and tactics of Proofs/OpContractsCrypto.v.

   Names: X_budget, X_restrict, X_cm_indep, X_malachite_indep, X_gc_indep, X_total for op_X.

   op_unknown / unknown_operator: the middle conjunct of op_budget (`c <= m' -> success`) is
   FALSE pre-hard-fork on the wrapping class of finding F6 (the budget is compared with the base
   cost, the reported cost is the wrapped product); see unknown_budget_refuted. Proved instead:
   op_budget_mono (conjuncts 1 and 3) for all flags, and the full contract when the product does
   not wrap (always under NEW_COST_MODEL). *)
From Coq Require Import Lia ZifyBool ZifyN ZifyNat.
From Clvm Require Import Model.OpsArith Model.OpsStr Model.OpsBits Model.OpsUnknown.
From Clvm Require Import Proofs.OpContractDefs Proofs.OpContractsCrypto Proofs.UnknownProofs.
Open Scope N_scope.
Arguments N.add : simpl never.
Arguments N.sub : simpl never.
Arguments N.mul : simpl never.
Arguments N.div : simpl never.
Arguments N.eqb : simpl never.
Arguments N.ltb : simpl never.
Arguments N.leb : simpl never.
Arguments N.max : simpl never.

(* ================= generic ================= *)

(* an operator that ignores its budget *)
Lemma budget_const (op : opfn) : (forall f a m m', op f a m = op f a m') -> op_budget op.
Proof.
  intros H f a m c v E m'. rewrite (H f a m' m). auto.
Qed.

(* two budgeted computations in sequence *)
Lemma budk_seq {Y X} k (g : N -> res (N * Y)) (h : N * Y -> N -> res (N * X)) :
  budk k g -> (forall c y, budk c (h (c, y))) ->
  budk k (fun m => do cy <- g m; h cy m).
Proof.
  intros Hg Hh m C x H.
  destruct (g m) as [[c y]|e] eqn:E; cbn [bind] in H; [|discriminate H].
  destruct (Hg m c y E) as [Hkc Hm]. destruct (Hh c y m C x H) as [HcC Hm2]. split; [lia|].
  intros m'. destruct (Hm m') as [G1 G2]. destruct (Hm2 m') as [K1 K2]. split.
  - intros Hmm. rewrite G1 by lia. cbn [bind]. apply K1. exact Hmm.
  - destruct G2 as [G2|G2]; rewrite G2; cbn [bind]; auto.
Qed.

Lemma budk_ext {X} k (g g' : N -> res (N * X)) : (forall m, g m = g' m) -> budk k g' -> budk k g.
Proof.
  intros E Hg m c x H. rewrite E in H. destruct (Hg m c x H) as [H1 H2]. split; [exact H1|].
  intros m'. rewrite E. apply H2.
Qed.

Lemma budk_const {X} (r : res (N * X)) : budk 0 (fun _ => r).
Proof. intros m c x H. split; [lia|]. intros m'. split; auto. Qed.

Ltac bstep' := cbv zeta; first [ bstep | apply budk_const ].

(* which flags an operator reads *)
Definition reads_none (op : opfn) : Prop := forall f f' a m, op f a m = op f' a m.

Lemma reads_none_ncm op : reads_none op -> reads_ncm op.
Proof. intros H f f' a m _. apply H. Qed.
Lemma reads_none_cm op : reads_none op -> op_budget op -> op_cm_indep op.
Proof. intros H. apply cm_from_budget. exact H. Qed.

(* ================= budget: loops ================= *)

Lemma add_loop_budk ncm pa pb a : forall cost acc, budk cost (fun m => add_loop ncm pa pb a cost acc m).
Proof.
  induction a as [b|x _ r IH]; intros cost acc; cbn [add_loop]; cbv zeta.
  - bstep.
  - destruct x as [b|]; [|bstep]. eapply budk_check; [|apply IH]. lia.
Qed.

Lemma sub_loop_budk ncm pa pb a : forall cost acc fst, budk cost (fun m => sub_loop ncm pa pb a cost acc fst m).
Proof.
  induction a as [b|x _ r IH]; intros cost acc fst; cbn [sub_loop]; cbv zeta.
  - bstep.
  - eapply budk_check; [lia|]. destruct x as [b|]; [|bstep].
    eapply budk_check; [|apply IH]. lia.
Qed.

Lemma mul_loop_budk limits ncm d a : forall cost total l0,
  budk cost (fun m => mul_loop limits ncm d a cost total l0 m).
Proof.
  induction a as [b|x _ r IH]; intros cost total l0; cbn [mul_loop]; cbv zeta.
  - bstep.
  - destruct x as [b|]; [|bstep].
    destruct (limits && negb ncm && (256 <? blen b)); [bstep|].
    eapply budk_check; [dlia|].
    match goal with |- context [if ?c then _ else _] => destruct c end; [bstep|].
    eapply budk_weaken; [|apply IH]. lia.
Qed.

Lemma concat_loop_budk a : forall cost terms, budk cost (fun m => concat_loop a cost terms m).
Proof.
  induction a as [b|x _ r IH]; intros cost terms; cbn [concat_loop]; cbv zeta.
  - bstep.
  - destruct x as [b|]; [|bstep]. eapply budk_check; [|apply IH]. lia.
Qed.

Lemma binop_loop_budk ncm opf a : forall cost p n, budk cost (fun m => binop_loop ncm opf a cost p n m).
Proof.
  induction a as [b|x _ r IH]; intros cost p n; cbn [binop_loop]; cbv zeta.
  - bstep.
  - destruct x as [b|]; [|bstep].
    eapply budk_check; [destruct ncm; lia|].
    destruct ncm; [|destruct (_ <? _)%Z]; (eapply budk_weaken; [|apply IH]; lia).
Qed.

Lemma bool_loop_budk is_any a : forall cost acc, budk cost (fun m => bool_loop a cost acc is_any m).
Proof.
  induction a as [b|x _ r IH]; intros cost acc; cbn [bool_loop]; cbv zeta.
  - bstep.
  - eapply budk_check; [|apply IH]. lia.
Qed.

Lemma tree_hash_walk_budk H pb t : forall cost, budk cost (fun m => tree_hash_walk H pb t cost m).
Proof.
  induction t as [b|l IHl r IHr]; intros cost; cbn [tree_hash_walk]; cbv zeta.
  - eapply budk_check; [lia|]. bstep.
  - eapply budk_check; [lia|].
    eapply budk_weaken with (k := cost + SHA256TREE_PAIR_COST); [lia|].
    apply (budk_seq _ (fun m => tree_hash_walk H pb r (cost + SHA256TREE_PAIR_COST) m)
             (fun cy m => let '(cost0, hr) := cy in
                          do '(cost1, hl) <- tree_hash_walk H pb l cost0 m; Ok (cost1, H (2 :: hl ++ hr)))).
    + apply IHr.
    + intros c hr. cbn beta iota. eapply budk_post; [apply IHl|].
      intros c0 y C V Hq. cbn beta iota in Hq. apply Ok_inj2 in Hq. inversion Hq. lia.
Qed.

(* post-processing that only adds to the cost *)
Ltac post_add :=
  let Hq := fresh "Hq" in
  intros ? ? ? ? Hq; cbn beta iota in Hq; unfold malloc_cost, atom_and_cost in Hq;
  repeat match type of Hq with
         | context [let '(_, _) := ?p in _] => destruct p
         | context [if ?b then _ else _] => destruct b
         end;
  try discriminate Hq; apply Ok_inj2 in Hq; inversion Hq; lia.

(* ================= budget: operators ================= *)

Lemma add_budget : op_budget op_add.
Proof.
  apply budk_op. intros f a. unfold op_add. destruct (arith_costs f) as [[bc pa] pb].
  eapply budk_post; [eapply budk_weaken; [|apply add_loop_budk]; lia|post_add].
Qed.

Lemma subtract_budget : op_budget op_subtract.
Proof.
  apply budk_op. intros f a. unfold op_subtract. destruct (arith_costs f) as [[bc pa] pb].
  eapply budk_post; [eapply budk_weaken; [|apply sub_loop_budk]; lia|post_add].
Qed.

Lemma multiply_budget : op_budget op_multiply.
Proof.
  apply budk_op. intros f a. unfold op_multiply. cbv zeta.
  destruct a as [b|x r]; [apply budk_const|]. destruct x as [b|]; [|bstep].
  match goal with |- context [if ?c then _ else _] => destruct c end; [bstep|].
  destruct (f_new_cost_model f).
  - eapply budk_ext with (g' := fun m =>
      do _ <- check_cost (NEW_MUL_BASE_COST + blen b * MUL_LINEAR_COST_PER_BYTE) m;
      do x <- mul_loop (f_limits f) true NEW_MUL_SQUARE_COST_PER_BYTE_DIVIDER r
                (NEW_MUL_BASE_COST + blen b * MUL_LINEAR_COST_PER_BYTE) (int_of_bytes b) (blen b) m;
      let (cost0, total) := x in Ok (malloc_cost cost0 (bytes_of_int total))).
    { intros m. destruct (check_cost _ m); reflexivity. }
    eapply budk_check; [lia|].
    eapply budk_post; [eapply budk_weaken; [|apply mul_loop_budk]; lia|post_add].
  - cbn [bind]. eapply budk_post; [eapply budk_weaken; [|apply mul_loop_budk]; lia|post_add].
Qed.

Ltac div_budget :=
  apply budk_op; intros f a; cbv beta delta [op_div_num op_divmod_num op_mod_num op_modpow_num
    op_div_malachite_with op_divmod_malachite_with op_mod_malachite_with op_modpow_malachite_with
    malloc_cost]; repeat bstep'.

Lemma div_num_budget : op_budget op_div_num. Proof. div_budget. Qed.
Lemma divmod_num_budget : op_budget op_divmod_num. Proof. div_budget. Qed.
Lemma mod_num_budget : op_budget op_mod_num. Proof. div_budget. Qed.
Lemma modpow_num_budget : op_budget op_modpow_num. Proof. div_budget. Qed.
Lemma div_malachite_budget L : op_budget (op_div_malachite_with L). Proof. div_budget. Qed.
Lemma divmod_malachite_budget L : op_budget (op_divmod_malachite_with L). Proof. div_budget. Qed.
Lemma mod_malachite_budget L : op_budget (op_mod_malachite_with L). Proof. div_budget. Qed.
Lemma modpow_malachite_budget L : op_budget (op_modpow_malachite_with L). Proof. div_budget. Qed.

Lemma switch_budget (opm opn : opfn) :
  op_budget opm -> op_budget opn ->
  op_budget (fun f a m => if f_malachite f then opm f a m else opn f a m).
Proof. intros Hm Hn f a m c v E. destruct (f_malachite f); [eapply Hm|eapply Hn]; exact E. Qed.

Lemma div_budget : op_budget op_div.
Proof. apply switch_budget; [apply div_malachite_budget|apply div_num_budget]. Qed.
Lemma divmod_budget : op_budget op_divmod.
Proof. apply switch_budget; [apply divmod_malachite_budget|apply divmod_num_budget]. Qed.
Lemma mod_budget : op_budget op_mod.
Proof. apply switch_budget; [apply mod_malachite_budget|apply mod_num_budget]. Qed.
Lemma modpow_budget : op_budget op_modpow.
Proof. apply switch_budget; [apply modpow_malachite_budget|apply modpow_num_budget]. Qed.

Lemma gr_budget : op_budget op_gr. Proof. apply budget_const. reflexivity. Qed.
Lemma gr_bytes_budget : op_budget op_gr_bytes. Proof. apply budget_const. reflexivity. Qed.
Lemma strlen_budget : op_budget op_strlen. Proof. apply budget_const. reflexivity. Qed.
Lemma substr_budget : op_budget op_substr. Proof. apply budget_const. reflexivity. Qed.
Lemma ash_budget : op_budget op_ash. Proof. apply budget_const. reflexivity. Qed.
Lemma lsh_budget : op_budget op_lsh. Proof. apply budget_const. reflexivity. Qed.
Lemma lognot_budget : op_budget op_lognot. Proof. apply budget_const. reflexivity. Qed.
Lemma not_budget : op_budget op_not. Proof. apply budget_const. reflexivity. Qed.

Lemma concat_budget : op_budget op_concat.
Proof.
  apply budk_op. intros f a. unfold op_concat.
  eapply budk_post; [eapply budk_weaken; [|apply concat_loop_budk]; lia|post_add].
Qed.

Lemma binop_reduction_budget iv opf : op_budget (binop_reduction iv opf).
Proof.
  apply budk_op. intros f a. unfold binop_reduction. cbv zeta.
  eapply budk_post; [eapply budk_weaken; [|apply binop_loop_budk]; lia|].
  intros c [p n] C V Hq. cbn beta iota in Hq. unfold malloc_cost in Hq. apply Ok_inj2 in Hq. inversion Hq. lia.
Qed.
Lemma logand_budget : op_budget op_logand. Proof. apply binop_reduction_budget. Qed.
Lemma logior_budget : op_budget op_logior. Proof. apply binop_reduction_budget. Qed.
Lemma logxor_budget : op_budget op_logxor. Proof. apply binop_reduction_budget. Qed.

Lemma any_budget : op_budget op_any.
Proof.
  apply budk_op. intros f a. unfold op_any.
  eapply budk_post; [eapply budk_weaken; [|apply bool_loop_budk]; lia|post_add].
Qed.
Lemma all_budget : op_budget op_all.
Proof.
  apply budk_op. intros f a. unfold op_all.
  eapply budk_post; [eapply budk_weaken; [|apply bool_loop_budk]; lia|post_add].
Qed.

Lemma sha256_loop_budk pa pb a : forall cost terms,
  budk cost (fun m =>
    (fix loop (args : sexp) (cost : N) (terms : list bytes) : res (N * list bytes) :=
       match args with
       | Atom _ => Ok (cost, terms)
       | Cons arg rest =>
           let cost := cost + pa in
           match arg with
           | Cons _ _ => bad_arg
           | Atom b => let cost := cost + blen b * pb in
                       do _ <- check_cost cost m; loop rest cost (b :: terms)
           end
       end) a cost terms).
Proof.
  induction a as [b|x _ r IH]; intros cost terms; cbv zeta.
  - bstep.
  - destruct x as [b|]; [|bstep]. eapply budk_check; [|apply IH]. lia.
Qed.

Lemma sha256_budget H : op_budget (op_sha256 H).
Proof.
  apply budk_op. intros f a. unfold op_sha256.
  destruct (if f_new_cost_model f then _ else _) as [[bc pa] pb]. cbv zeta.
  eapply budk_post; [eapply budk_weaken; [|apply sha256_loop_budk]; lia|post_add].
Qed.

Lemma sha256_tree_budget H : op_budget (op_sha256_tree H).
Proof.
  apply budk_op. intros f a. unfold op_sha256_tree, tree_hash_costed. cbv zeta.
  apply budk_bind. intros n.
  eapply budk_weaken with (k := SHA256TREE_BASE_COST); [lia|].
  apply (budk_seq _ (fun m => tree_hash_walk H _ n SHA256TREE_BASE_COST m)
           (fun cy m => let '(cost, h) := cy in
                        do _ <- check_cost (cost + MALLOC_COST_PER_BYTE * 32) m;
                        Ok (cost + MALLOC_COST_PER_BYTE * 32, Atom h))).
  - apply tree_hash_walk_budk.
  - intros c h. cbn beta iota. eapply budk_check; [lia|]. bstep.
Qed.

(* ---- op_unknown ---- *)

Definition op_budget_mono (op : opfn) : Prop :=
  forall f a m c v, op f a m = Ok (c, v) ->
  forall m', (m <= m' -> op f a m' = Ok (c, v)) /\
             (op f a m' = Ok (c, v) \/ op f a m' = Err CostExceeded).

Definition op_budget_if (P : flagset -> sexp -> Prop) (op : opfn) : Prop :=
  forall f a m c v, P f a -> op f a m = Ok (c, v) ->
  forall m', (m <= m' -> op f a m' = Ok (c, v)) /\
             (c <= m' -> op f a m' = Ok (c, v)) /\
             (op f a m' = Ok (c, v) \/ op f a m' = Err CostExceeded).

(* budget contract for computations returning just a cost *)
Definition budN (k : N) (g : N -> res N) : Prop := budk k (fun m => do c <- g m; Ok (c, tt)).

Lemma budN_intro k (g : N -> res N) :
  (forall m c, g m = Ok c -> k <= c /\ forall m', ((m <= m' \/ c <= m') -> g m' = Ok c) /\
                                               (g m' = Ok c \/ g m' = Err CostExceeded)) -> budN k g.
Proof.
  intros Hg m c x H. destruct (g m) as [c0|e] eqn:E; cbn [bind] in H; [|discriminate H].
  apply Ok_inj2 in H. inversion H; subst c0 x. destruct (Hg m c E) as [Hk Hm]. split; [exact Hk|].
  intros m'. destruct (Hm m') as [H1 H2]. split.
  - intros Hmm. rewrite (H1 Hmm). reflexivity.
  - destruct H2 as [H2|H2]; rewrite H2; cbn [bind]; auto.
Qed.

Lemma budN_elim k (g : N -> res N) : budN k g ->
  forall m c, g m = Ok c -> k <= c /\ forall m', ((m <= m' \/ c <= m') -> g m' = Ok c) /\
                                              (g m' = Ok c \/ g m' = Err CostExceeded).
Proof.
  intros Hg m c E. assert (E' : (do c0 <- g m; Ok (c0, tt)) = Ok (c, tt)) by (rewrite E; reflexivity).
  destruct (Hg m c tt E') as [Hk Hm]. split; [exact Hk|]. intros m'. destruct (Hm m') as [H1 H2]. split.
  - intros Hmm. specialize (H1 Hmm). destruct (g m') as [c0|e]; cbn [bind] in H1; [|discriminate H1].
    apply Ok_inj2 in H1. inversion H1. reflexivity.
  - destruct (g m') as [c0|e]; cbn [bind] in H2.
    + destruct H2 as [H2|H2]; [|discriminate H2]. apply Ok_inj2 in H2. inversion H2. auto.
    + destruct H2 as [H2|H2]; [discriminate H2|]. inversion H2. auto.
Qed.

Lemma budN_ret k c : k <= c -> budN k (fun _ => Ok c).
Proof. intros H. unfold budN. cbn [bind]. apply budk_ret. exact H. Qed.
Lemma budN_err k e : budN k (fun _ => Err e).
Proof. unfold budN. cbn [bind]. apply budk_err. Qed.
Lemma budN_check k0 k g : k0 <= k -> budN k g -> budN k0 (fun m => do _ <- check_cost k m; g m).
Proof.
  intros Hk Hg. unfold budN in *.
  assert (E : forall m, (do c <- (do _ <- check_cost k m; g m); Ok (c, tt)) =
                        (do _ <- check_cost k m; do c <- g m; Ok (c, tt))).
  { intros m. destruct (check_cost k m); reflexivity. }
  intros m c x H. rewrite E in H. pose proof (budk_check k0 k _ Hk Hg m c x H) as [H1 H2].
  split; [exact H1|]. intros m'. rewrite E. apply H2.
Qed.
Lemma budN_bind {Y} k (r : res Y) (g : Y -> N -> res N) :
  (forall y, budN k (g y)) -> budN k (fun m => do y <- r; g y m).
Proof. intros Hg. destruct r as [y|e]; cbn [bind]; [apply Hg|apply budN_err]. Qed.
Lemma budN_weaken k0 k g : k0 <= k -> budN k g -> budN k0 g.
Proof. intros Hk Hg. unfold budN in *. eapply budk_weaken; eauto. Qed.

Ltac nstep :=
  match goal with
  | |- budN _ (fun _ => Ok _) => apply budN_ret; lia
  | |- budN _ (fun _ => Err _) => apply budN_err
  | |- budN _ (fun _ => bad_arg) => apply budN_err
  | |- budN _ (fun m => bind (check_cost _ m) _) => eapply budN_check; [lia|]
  | |- budN _ (fun m => bind _ _) => apply budN_bind; intros
  end.

Lemma plain_add_ok s a b c : plain_add s a b = Ok c -> c = a + b.
Proof. unfold plain_add. destruct (_ <? _); intros H; inversion H; reflexivity. Qed.
Lemma plain_mul_ok s a b c : plain_mul s a b = Ok c -> c = a * b.
Proof. unfold plain_mul. destruct (_ <? _); intros H; inversion H; reflexivity. Qed.
Lemma checked_add_ok a b c : checked_add a b = Some c -> c = a + b.
Proof. unfold checked_add. destruct (_ <? _); intros H; inversion H; reflexivity. Qed.
Lemma checked_mul_ok a b c : checked_mul a b = Some c -> c = a * b.
Proof. unfold checked_mul. destruct (_ <? _); intros H; inversion H; reflexivity. Qed.

(* bind over a budget-independent step whose result is known to be at least k *)
Lemma budN_bind_ge k (r : res N) (g : N -> N -> res N) :
  (forall y, r = Ok y -> budN k (g y)) -> budN k (fun m => do y <- r; g y m).
Proof. intros Hg. destruct r as [y|e]; cbn [bind]; [apply Hg; reflexivity|apply budN_err]. Qed.

Lemma unk_add_old_budN lens : forall cost, budN cost (fun m => unk_add_old lens cost m).
Proof.
  induction lens as [|[len|] r IH]; intros cost; cbn [unk_add_old]; [nstep| |nstep].
  apply budN_bind_ge. intros c1 E1. apply plain_add_ok in E1.
  apply budN_bind_ge. intros t E2.
  apply budN_bind_ge. intros c2 E3. apply plain_add_ok in E3.
  eapply budN_check; [|apply IH]. lia.
Qed.

Lemma unk_add_new_budN lens : forall cost acc, budN cost (fun m => unk_add_new lens cost acc m).
Proof.
  induction lens as [|[len|] r IH]; intros cost acc; cbn [unk_add_new]; cbv zeta; [nstep| |nstep].
  apply budN_bind_ge. intros c1 E1. destruct (checked_add cost _) eqn:EE; inversion E1; subst. apply checked_add_ok in EE.
  apply budN_bind_ge. intros t E2.
  apply budN_bind_ge. intros c2 E3. destruct (checked_add c1 t) eqn:EE3; inversion E3; subst. apply checked_add_ok in EE3.
  eapply budN_check; [|apply IH]. lia.
Qed.

Lemma unk_mul_old_budN lens : forall cost l0, budN cost (fun m => unk_mul_old lens cost l0 m).
Proof.
  induction lens as [|[len|] r IH]; intros cost l0; cbn [unk_mul_old]; [nstep| |nstep].
  apply budN_bind_ge. intros c1 E1. apply plain_add_ok in E1.
  apply budN_bind_ge. intros s E2.
  apply budN_bind_ge. intros t E3.
  apply budN_bind_ge. intros c2 E4. apply plain_add_ok in E4.
  apply budN_bind_ge. intros p E5.
  apply budN_bind_ge. intros c3 E6. apply plain_add_ok in E6.
  apply budN_bind_ge. intros l1 E7.
  eapply budN_check; [|apply IH]. subst. dlia.
Qed.

Lemma unk_mul_new_budN lens : forall cost l0, budN cost (fun m => unk_mul_new lens cost l0 m).
Proof.
  induction lens as [|[len|] r IH]; intros cost l0; cbn [unk_mul_new]; cbv zeta; [nstep| |nstep].
  apply budN_bind_ge. intros c1 E1. destruct (checked_add cost _) eqn:EE; inversion E1; subst. apply checked_add_ok in EE.
  apply budN_bind_ge. intros s E2.
  apply budN_bind_ge. intros t E3.
  apply budN_bind_ge. intros c2 E4. destruct (checked_add c1 t) eqn:EE4; inversion E4; subst. apply checked_add_ok in EE4.
  apply budN_bind_ge. intros p E5.
  apply budN_bind_ge. intros c3 E6. destruct (checked_add c2 _) eqn:EE6; inversion E6; subst. apply checked_add_ok in EE6.
  eapply budN_check; [|apply IH]. subst. dlia.
Qed.

Lemma unk_concat_budN lens : forall cost, budN cost (fun m => unk_concat lens cost m).
Proof.
  induction lens as [|[len|] r IH]; intros cost; cbn [unk_concat]; [nstep| |nstep].
  apply budN_bind_ge. intros c1 E1. apply plain_add_ok in E1.
  apply budN_bind_ge. intros t E2.
  apply budN_bind_ge. intros c2 E3. apply plain_add_ok in E3.
  eapply budN_check; [|apply IH]. lia.
Qed.

Lemma unknown_base_budN fn lens ncm : budN 1 (fun m => unknown_base fn lens ncm m).
Proof.
  unfold unknown_base.
  destruct (fn =? 0); [nstep|].
  destruct (fn =? 1).
  { destruct ncm; (eapply budN_weaken; [|first [apply unk_add_new_budN|apply unk_add_old_budN]]);
      unfold ARITH_BASE_COST; lia. }
  destruct (fn =? 2).
  { destruct lens as [|[l0|] r]; [destruct ncm; apply budN_ret; cbv; discriminate| |nstep].
    destruct ncm.
    - apply budN_bind_ge. intros t E1.
      apply budN_bind_ge. intros c E2. destruct (checked_add _ t) eqn:EE; inversion E2; subst. apply checked_add_ok in EE.
      eapply budN_check; [unfold NEW_MUL_BASE_COST in *; lia|]. apply unk_mul_new_budN.
    - eapply budN_weaken; [|apply unk_mul_old_budN]. unfold MUL_BASE_COST. lia. }
  destruct (fn =? 3).
  { eapply budN_weaken; [|apply unk_concat_budN]. unfold CONCAT_BASE_COST. lia. }
  nstep.
Qed.

(* the part of unknown_cost after the opcode checks *)
Definition unknown_tail (fn mult : N) (lens : list (option N)) (ncm : bool) (m : N) : res N :=
  do cost <- unknown_base fn lens ncm m;
  do _ <- check_cost cost m;
  do cost <- (if ncm then ok_or_cost (checked_mul cost (mult + 1)) else Ok (wrapping_mul cost (mult + 1)));
  if U32_MAX <? cost then Err Invalid else Ok cost.

Lemma unknown_cost_tail op lens ncm m :
  unknown_cost op lens ncm m =
  if match op with [] => true | _ => starts_ffff op end then Err Reserved
  else match u32_from_u8 (removelast op) with
       | None => Err Invalid
       | Some mult => unknown_tail (cost_function_of op) mult lens ncm m
       end.
Proof. reflexivity. Qed.

(* monotone part: holds for every flag set *)
Lemma unknown_tail_mono fn mult lens ncm m c :
  unknown_tail fn mult lens ncm m = Ok c ->
  forall m', (m <= m' -> unknown_tail fn mult lens ncm m' = Ok c) /\
             (unknown_tail fn mult lens ncm m' = Ok c \/ unknown_tail fn mult lens ncm m' = Err CostExceeded).
Proof.
  unfold unknown_tail. intros H m'.
  destruct (unknown_base fn lens ncm m) as [b|e] eqn:EB; cbn [bind] in H; [|discriminate H].
  destruct (budN_elim _ _ (unknown_base_budN fn lens ncm) m b EB) as [Hb Hm].
  destruct (cc_cases b m) as [[Hle E]|[Hlt E]]; rewrite E in H; cbn [bind] in H; [|discriminate H].
  destruct (Hm m') as [H1 H2]. split.
  - intros Hmm. rewrite H1 by lia. cbn [bind]. rewrite cc_ok by lia. cbn [bind]. exact H.
  - destruct H2 as [H2|H2]; rewrite H2; cbn [bind]; auto.
    destruct (cc_cases b m') as [[Hle' E']|[Hlt' E']]; rewrite E'; cbn [bind]; auto.
Qed.

(* tight part: needs that the reported cost is at least the base cost *)
Lemma unknown_tail_tight fn mult lens ncm m c :
  unknown_tail fn mult lens ncm m = Ok c ->
  (ncm = true \/ forall b, unknown_base fn lens ncm m = Ok b -> b * (mult + 1) < two64) ->
  forall m', c <= m' -> unknown_tail fn mult lens ncm m' = Ok c.
Proof.
  unfold unknown_tail. intros H Hnw m' Hc.
  destruct (unknown_base fn lens ncm m) as [b|e] eqn:EB; cbn [bind] in H; [|discriminate H].
  destruct (budN_elim _ _ (unknown_base_budN fn lens ncm) m b EB) as [Hb Hm].
  destruct (cc_cases b m) as [[Hle E]|[Hlt E]]; rewrite E in H; cbn [bind] in H; [|discriminate H].
  assert (Hbc : b <= c).
  { destruct ncm.
    - destruct (checked_mul b (mult + 1)) eqn:EM; cbn [ok_or_cost bind] in H; [|discriminate H].
      apply checked_mul_ok in EM. destruct (U32_MAX <? n); inversion H. subst. nia.
    - cbn [bind] in H. destruct Hnw as [Hnw|Hnw]; [discriminate Hnw|]. specialize (Hnw b eq_refl).
      unfold wrapping_mul in H. rewrite N.mod_small in H by exact Hnw.
      destruct (U32_MAX <? _); inversion H. nia. }
  destruct (Hm m') as [H1 _]. rewrite H1 by lia. cbn [bind]. rewrite cc_ok by lia. cbn [bind]. exact H.
Qed.

Lemma unknown_budget_mono o : op_budget_mono (op_unknown o).
Proof.
  intros f a m c v H m'. unfold op_unknown in *. rewrite unknown_cost_tail in *.
  destruct (match o with [] => true | _ => starts_ffff o end); [discriminate H|].
  destruct (u32_from_u8 (removelast o)) as [mult|]; [|discriminate H].
  destruct (unknown_tail _ mult _ _ m) as [c0|e] eqn:E; cbn [bind] in H; [|discriminate H].
  apply Ok_inj2 in H. inversion H; subst c0 v.
  destruct (unknown_tail_mono _ _ _ _ _ _ E m') as [H1 H2]. split.
  - intros Hmm. rewrite H1 by exact Hmm. reflexivity.
  - destruct H2 as [H2|H2]; rewrite H2; cbn [bind]; auto.
Qed.

Lemma unknown_operator_budget_mono o : op_budget_mono (unknown_operator o).
Proof.
  intros f a m c v H. unfold unknown_operator in *. destruct (f_no_unknown_ops f); [discriminate H|].
  apply unknown_budget_mono. exact H.
Qed.

(* the product does not wrap (always true under the new cost model) *)
Definition unknown_no_wrap (o : bytes) (f : flagset) (a : sexp) : Prop :=
  f_new_cost_model f = true \/
  forall m b, unknown_base (cost_function_of o) (arg_lens a) false m = Ok b ->
              b * (be_value (removelast o) + 1) < two64.

Lemma unknown_budget_if o : op_budget_if (unknown_no_wrap o) (op_unknown o).
Proof.
  intros f a m c v Hnw H m'. destruct (unknown_budget_mono o f a m c v H m') as [H1 H3].
  split; [exact H1|split; [|exact H3]]. intros Hc.
  unfold op_unknown in *. rewrite unknown_cost_tail in *.
  destruct (match o with [] => true | _ => starts_ffff o end); [discriminate H|].
  destruct (u32_from_u8 (removelast o)) as [mult|] eqn:EU; [|discriminate H].
  destruct (unknown_tail _ mult _ _ m) as [c0|e] eqn:E; cbn [bind] in H; [|discriminate H].
  apply Ok_inj2 in H. inversion H; subst c0 v.
  rewrite (unknown_tail_tight _ _ _ _ _ _ E); [reflexivity| |exact Hc].
  destruct Hnw as [Hn|Hn]; [left; exact Hn|].
  destruct (f_new_cost_model f) eqn:En; [left; reflexivity|right].
  intros b Hb. unfold u32_from_u8 in EU. destruct (4 <? length (removelast o))%nat; inversion EU. subst mult.
  eapply Hn. exact Hb.
Qed.

Lemma unknown_operator_budget_if o : op_budget_if (unknown_no_wrap o) (unknown_operator o).
Proof.
  intros f a m c v Hnw H. unfold unknown_operator in *. destruct (f_no_unknown_ops f); [discriminate H|].
  apply unknown_budget_if; assumption.
Qed.

(* F6 refutes the tight conjunct: the reported cost is 2375088102, but the budget 3000000000
   fails (stated on argument lengths: two atoms of 1 MiB) *)
Lemma unknown_budget_refuted :
  unknown_cost f6_op f6_lens false U64_MAX = Ok 2375088102 /\
  unknown_cost f6_op f6_lens false 3000000000 = Err CostExceeded.
Proof. vm_compute. split; reflexivity. Qed.

(* ================= C06: the MALACHITE backend ================= *)

(* what the wrappers need from the second bignum library *)
Definition lib_ok (L : bigint_lib) : Prop :=
  (forall b, bl_of_bytes L b = int_of_bytes b) /\
  (forall z, bl_to_bytes L z = bytes_of_int z) /\
  (forall z, bl_is_zero L z = (z =? 0)%Z) /\
  (forall z, bl_is_neg L z = (z <? 0)%Z) /\
  (forall a b, b <> 0%Z -> bl_div_floor L a b = (a / b)%Z) /\
  (forall a b, b <> 0%Z -> bl_mod_floor L a b = (a mod b)%Z) /\
  (forall b e m, (0 <= e)%Z -> m <> 0%Z -> bl_modpow L b e m = modpow b e m).

Lemma malachite_lib_ok : lib_ok malachite_lib.
Proof. repeat split. Qed.

Ltac twin_start :=
  intros (Hof & Hto & Hz & Hn & Hd & Hm & Hp) f a m;
  cbv beta delta [op_div_malachite_with op_divmod_malachite_with op_mod_malachite_with op_modpow_malachite_with
                  op_div_num op_divmod_num op_mod_num op_modpow_num malachite_int_atom_lazy int_atom_lazy];
  cbv zeta.

Lemma div_twins L : lib_ok L -> forall f a m, op_div_malachite_with L f a m = op_div_num f a m.
Proof.
  twin_start.
  destruct (get_args2 a) as [[v0 v1]|e]; cbn [bind]; [|reflexivity].
  destruct v0 as [b0|]; cbn [bind]; [|reflexivity]. destruct v1 as [b1|]; cbn [bind]; [|reflexivity].
  destruct (_ && _ && _); [reflexivity|]. destruct (_ && _ && _); [reflexivity|].
  destruct (if f_new_cost_model f then _ else _) as [cost|e]; cbn [bind]; [|reflexivity].
  destruct (check_cost cost m); cbn [bind]; [|reflexivity].
  rewrite !Hof, Hz. destruct (int_of_bytes b1 =? 0)%Z eqn:E0; [reflexivity|].
  rewrite Hd, Hto by (apply Z.eqb_neq; exact E0). reflexivity.
Qed.

Lemma divmod_twins L : lib_ok L -> forall f a m, op_divmod_malachite_with L f a m = op_divmod_num f a m.
Proof.
  twin_start.
  destruct (get_args2 a) as [[v0 v1]|e]; cbn [bind]; [|reflexivity].
  destruct v0 as [b0|]; cbn [bind]; [|reflexivity]. destruct v1 as [b1|]; cbn [bind]; [|reflexivity].
  destruct (_ && _ && _); [reflexivity|]. destruct (_ && _ && _); [reflexivity|].
  destruct (if f_new_cost_model f then _ else _) as [cost|e]; cbn [bind]; [|reflexivity].
  destruct (check_cost cost m); cbn [bind]; [|reflexivity].
  rewrite !Hof, Hz. destruct (int_of_bytes b1 =? 0)%Z eqn:E0; [reflexivity|].
  rewrite Hd, Hm, !Hto by (apply Z.eqb_neq; exact E0). reflexivity.
Qed.

Lemma mod_twins L : lib_ok L -> forall f a m, op_mod_malachite_with L f a m = op_mod_num f a m.
Proof.
  twin_start.
  destruct (get_args2 a) as [[v0 v1]|e]; cbn [bind]; [|reflexivity].
  destruct v0 as [b0|]; cbn [bind]; [|reflexivity]. destruct v1 as [b1|]; cbn [bind]; [|reflexivity].
  destruct (_ && _ && _); [reflexivity|]. destruct (_ && _ && _); [reflexivity|].
  destruct (if f_new_cost_model f then _ else _) as [cost|e]; cbn [bind]; [|reflexivity].
  destruct (check_cost cost m); cbn [bind]; [|reflexivity].
  rewrite !Hof, Hz. destruct (int_of_bytes b1 =? 0)%Z eqn:E0; [reflexivity|].
  rewrite Hm, Hto by (apply Z.eqb_neq; exact E0). reflexivity.
Qed.

Lemma modpow_twins L : lib_ok L -> forall f a m, op_modpow_malachite_with L f a m = op_modpow_num f a m.
Proof.
  twin_start.
  destruct (get_args3 a) as [[[v0 v1] v2]|e]; cbn [bind]; [|reflexivity].
  destruct v0 as [b0|]; cbn [bind]; [|reflexivity]. destruct v1 as [b1|]; cbn [bind]; [|reflexivity].
  destruct v2 as [b2|]; cbn [bind]; [|reflexivity].
  destruct (compute_modpow_cost _ _ _ _) as [cost|e]; cbn [bind]; [|reflexivity].
  destruct (check_cost cost m); cbn [bind]; [|reflexivity].
  destruct (_ && _ && _); [reflexivity|].
  rewrite !Hof, Hn, Hz. destruct (int_of_bytes b1 <? 0)%Z eqn:En; [reflexivity|].
  destruct (int_of_bytes b2 =? 0)%Z eqn:E0; [reflexivity|].
  rewrite Hp, Hto; [reflexivity|apply Z.ltb_ge; exact En|apply Z.eqb_neq; exact E0].
Qed.

(* the exported operators do not depend on the MALACHITE flag *)
Lemma switch_malachite (opm opn : opfn) :
  (forall f a m, opm f a m = opn f a m) ->
  (forall f f' a m, same_but_malachite f f' -> opn f a m = opn f' a m) ->
  op_malachite_indep (fun f a m => if f_malachite f then opm f a m else opn f a m).
Proof.
  intros Heq Hn f f' a m Hs. rewrite !Heq. destruct (f_malachite f), (f_malachite f'); apply Hn; exact Hs.
Qed.

Ltac same_flags Hs :=
  destruct Hs as (H1 & H2 & H3 & H4 & H5 & H6 & H7 & H8 & H9 & H10 & H11 & H12).

Lemma div_malachite_indep : op_malachite_indep op_div.
Proof.
  apply switch_malachite; [apply div_twins, malachite_lib_ok|].
  intros f f' a m Hs. same_flags Hs. unfold op_div_num. rewrite H7, H9, H12. reflexivity.
Qed.
Lemma divmod_malachite_indep : op_malachite_indep op_divmod.
Proof.
  apply switch_malachite; [apply divmod_twins, malachite_lib_ok|].
  intros f f' a m Hs. same_flags Hs. unfold op_divmod_num. rewrite H7, H9, H12. reflexivity.
Qed.
Lemma mod_malachite_indep : op_malachite_indep op_mod.
Proof.
  apply switch_malachite; [apply mod_twins, malachite_lib_ok|].
  intros f f' a m Hs. same_flags Hs. unfold op_mod_num. rewrite H7, H9, H12. reflexivity.
Qed.
Lemma modpow_malachite_indep : op_malachite_indep op_modpow.
Proof.
  apply switch_malachite; [apply modpow_twins, malachite_lib_ok|].
  intros f f' a m Hs. same_flags Hs. unfold op_modpow_num. rewrite H7, H12. reflexivity.
Qed.

(* ---- a boolean test for unknown_no_wrap (for the coordinator's barrier dialect) ---- *)
Definition unknown_no_wrap_b (o : bytes) (f : flagset) (a : sexp) : bool :=
  f_new_cost_model f ||
  match unknown_base (cost_function_of o) (arg_lens a) false U64_MAX with
  | Ok b => b * (be_value (removelast o) + 1) <? two64
  | Err _ => true
  end.

Lemma plain_add_lt s a b c : plain_add s a b = Ok c -> c < two64.
Proof. unfold plain_add. destruct (a + b <? two64) eqn:E; intros H; inversion H. subst. lia. Qed.

Lemma unk_add_old_lt m lens : forall cost b, cost < two64 -> unk_add_old lens cost m = Ok b -> b < two64.
Proof.
  induction lens as [|[len|] r IH]; intros cost b Hc H; cbn [unk_add_old] in H; try discriminate H.
  - inversion H. subst. exact Hc.
  - destruct (plain_add 1 _ _) as [c1|] eqn:E1; cbn [bind] in H; [|discriminate H].
    destruct (plain_mul 2 _ _) as [t|] eqn:E2; cbn [bind] in H; [|discriminate H].
    destruct (plain_add 3 _ _) as [c2|] eqn:E3; cbn [bind] in H; [|discriminate H].
    destruct (check_cost c2 m); cbn [bind] in H; [|discriminate H].
    eapply IH; [|exact H]. eapply plain_add_lt; exact E3.
Qed.

Lemma unk_mul_old_lt m lens : forall cost l0 b, cost < two64 -> unk_mul_old lens cost l0 m = Ok b -> b < two64.
Proof.
  induction lens as [|[len|] r IH]; intros cost l0 b Hc H; cbn [unk_mul_old] in H; try discriminate H.
  - inversion H. subst. exact Hc.
  - destruct (plain_add 4 _ _) as [c1|] eqn:E1; cbn [bind] in H; [|discriminate H].
    destruct (plain_add 5 _ _) as [s|] eqn:E2; cbn [bind] in H; [|discriminate H].
    destruct (plain_mul 6 _ _) as [t|] eqn:E3; cbn [bind] in H; [|discriminate H].
    destruct (plain_add 7 _ _) as [c2|] eqn:E4; cbn [bind] in H; [|discriminate H].
    destruct (plain_mul 8 _ _) as [p|] eqn:E5; cbn [bind] in H; [|discriminate H].
    destruct (plain_add 9 _ _) as [c3|] eqn:E6; cbn [bind] in H; [|discriminate H].
    destruct (plain_add 10 _ _) as [l1|] eqn:E7; cbn [bind] in H; [|discriminate H].
    destruct (check_cost c3 m); cbn [bind] in H; [|discriminate H].
    eapply IH; [|exact H]. eapply plain_add_lt; exact E6.
Qed.

Lemma unk_concat_lt m lens : forall cost b, cost < two64 -> unk_concat lens cost m = Ok b -> b < two64.
Proof.
  induction lens as [|[len|] r IH]; intros cost b Hc H; cbn [unk_concat] in H; try discriminate H.
  - inversion H. subst. exact Hc.
  - destruct (plain_add 11 _ _) as [c1|] eqn:E1; cbn [bind] in H; [|discriminate H].
    destruct (plain_mul 12 _ _) as [t|] eqn:E2; cbn [bind] in H; [|discriminate H].
    destruct (plain_add 13 _ _) as [c2|] eqn:E3; cbn [bind] in H; [|discriminate H].
    destruct (check_cost c2 m); cbn [bind] in H; [|discriminate H].
    eapply IH; [|exact H]. eapply plain_add_lt; exact E3.
Qed.

Lemma unknown_base_old_lt fn lens m b : unknown_base fn lens false m = Ok b -> b < two64.
Proof.
  unfold unknown_base.
  destruct (fn =? 0); [intros H; inversion H; reflexivity|].
  destruct (fn =? 1); [apply unk_add_old_lt; reflexivity|].
  destruct (fn =? 2).
  { destruct lens as [|[l0|] r]; [intros H; inversion H; reflexivity| |discriminate].
    apply unk_mul_old_lt. reflexivity. }
  destruct (fn =? 3); [apply unk_concat_lt; reflexivity|].
  intros H; inversion H; reflexivity.
Qed.

(* a successful pre-hard-fork base cost does not depend on the budget *)
Lemma unknown_base_old_any_budget fn lens m b :
  unknown_base fn lens false m = Ok b -> unknown_base fn lens false U64_MAX = Ok b.
Proof.
  intros H. pose proof (unknown_base_old_lt _ _ _ _ H) as Hlt.
  destruct (budN_elim _ _ (unknown_base_budN fn lens false) m b H) as [_ Hm].
  destruct (Hm U64_MAX) as [H1 _]. apply H1. right. unfold U64_MAX. unfold two64 in Hlt. lia.
Qed.

Lemma unknown_no_wrap_b_sound : forall o f a, unknown_no_wrap_b o f a = true -> unknown_no_wrap o f a.
Proof.
  intros o f a H. unfold unknown_no_wrap_b in H. unfold unknown_no_wrap.
  destruct (f_new_cost_model f); [left; reflexivity|right]. cbn [orb] in H.
  intros m b Hb. apply unknown_base_old_any_budget in Hb. rewrite Hb in H. apply N.ltb_lt. exact H.
Qed.
