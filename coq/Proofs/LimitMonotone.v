(* Raising the heap limit only adds successes (C13; the LIMIT_HEAP clause of C07; "as long as neither run
   hits an allocator limit" of C03): on the reference allocator, a history that meets no OutOfMemory under
   limit L has exactly the same observations, counts, nodes and checkpoints under every limit L' >= L;
   through the whole-history simulation (C12_history) the real arena then has the same counts and its nodes
   denote the same trees under both limits. *)
From Clvm Require Import Model.Alloc Model.AllocRef Model.AllocHist Proofs.AllocBasics Proofs.AllocSim Proofs.AllocStraddle.
From Coq Require Import List NArith Lia Bool.
Import ListNotations.
Open Scope N_scope.

Definition relim (L : N) (r : rstate) : rstate := mkR (r_atoms r) (r_pairs r) (r_heap r) L.
Definition relim_st (L : N) (st : rst) : rst := mkRS (relim L (r_st st)) (r_nodes st) (r_cps st) (r_dead st).
Definition is_oom (o : obs) : bool := match o with ObErr OutOfMemory => true | _ => false end.

Definition map_node (L : N) (x : res (rstate * sexp)) : res (rstate * sexp) :=
  match x with Ok (s, t) => Ok (relim L s, t) | Err e => Err e end.
Definition map_unit (L : N) (x : res rstate) : res rstate :=
  match x with Ok s => Ok (relim L s) | Err e => Err e end.
Definition res_oom {A} (x : res A) : bool := match x with Err OutOfMemory => true | _ => false end.

Lemma r_new_atom_mono L r b : r_limit r <= L -> res_oom (r_new_atom r b) = false ->
  r_new_atom (relim L r) b = map_node L (r_new_atom r b).
Proof.
  intros HL. unfold r_new_atom, r_heap_over, r_atoms_full. cbn [relim r_limit r_heap r_atoms].
  destruct (r_limit r <? r_heap r + blen b) eqn:E; [discriminate|]. intros _.
  replace (L <? r_heap r + blen b) with false by lia.
  destruct (r_atoms r =? R_MAX_ATOMS); reflexivity.
Qed.

Lemma r_new_int_mono L r z : r_limit r <= L -> res_oom (r_new_int r z) = false ->
  r_new_int (relim L r) z = map_node L (r_new_int r z).
Proof. unfold r_new_int. apply r_new_atom_mono. Qed.

Lemma r_new_small_mono L r v : r_limit r <= L -> res_oom (r_new_small_number r v) = false ->
  r_new_small_number (relim L r) v = map_node L (r_new_small_number r v).
Proof.
  unfold r_new_small_number. destruct (R_SMALL_LIMIT <=? v); [reflexivity|]. apply r_new_int_mono.
Qed.

Lemma r_new_pair_mono L r l t : r_new_pair (relim L r) l t = map_node L (r_new_pair r l t).
Proof. unfold r_new_pair. cbn [relim r_pairs]. destruct (R_MAX_PAIRS <=? r_pairs r); reflexivity. Qed.

Lemma r_add_ghost_atom_mono L r n : r_add_ghost_atom (relim L r) n = map_unit L (r_add_ghost_atom r n).
Proof. unfold r_add_ghost_atom. cbn [relim r_atoms]. destruct (R_MAX_ATOMS <? r_atoms r + n); reflexivity. Qed.
Lemma r_add_ghost_pair_mono L r n : r_add_ghost_pair (relim L r) n = map_unit L (r_add_ghost_pair r n).
Proof. unfold r_add_ghost_pair. cbn [relim r_pairs]. destruct (R_MAX_PAIRS <? r_pairs r + n); reflexivity. Qed.

Lemma r_new_substr_mono L r t s e : r_new_substr (relim L r) t s e = map_node L (r_new_substr r t s e).
Proof.
  unfold r_new_substr, r_atoms_full. cbn [relim r_atoms]. destruct (r_atoms r =? R_MAX_ATOMS); [reflexivity|].
  destruct t as [b|l rr]; [|reflexivity].
  destruct (blen b <? s); [reflexivity|]. destruct (blen b <? e); [reflexivity|]. destruct (e <? s); reflexivity.
Qed.

Lemma r_new_concat_mono L r n ts : r_limit r <= L -> res_oom (r_new_concat r n ts) = false ->
  r_new_concat (relim L r) n ts = map_node L (r_new_concat r n ts).
Proof.
  intros HL. unfold r_new_concat, r_heap_over, r_atoms_full. cbn [relim r_limit r_heap r_atoms].
  destruct (r_atoms r =? R_MAX_ATOMS); [reflexivity|].
  destruct (r_limit r <? r_heap r + n) eqn:E; [discriminate|]. intros _.
  replace (L <? r_heap r + n) with false by lia.
  destruct ts as [|t ts]; [destruct (n =? 0); reflexivity|].
  destruct t as [b|l rr]; destruct ts as [|t2 ts]; try reflexivity;
    (destruct (all_atoms _) as [c|]; [destruct (blen c =? n); reflexivity|reflexivity]).
Qed.

(* the three wrappers commute with re-limiting *)
Lemma r_fail_relim L st e : r_fail (relim_st L st) e = (relim_st L (fst (r_fail st e)), snd (r_fail st e)).
Proof. unfold r_fail. destruct (is_panic e); reflexivity. Qed.
Lemma r_ret_node_relim L st x :
  r_ret_node (relim_st L st) (map_node L x) = (relim_st L (fst (r_ret_node st x)), snd (r_ret_node st x)).
Proof. unfold r_ret_node. destruct x as [[s t]|e]; [reflexivity|apply r_fail_relim]. Qed.
Lemma r_ret_unit_relim L st x :
  r_ret_unit (relim_st L st) (map_unit L x) = (relim_st L (fst (r_ret_unit st x)), snd (r_ret_unit st x)).
Proof. unfold r_ret_unit. destruct x as [s|e]; [reflexivity|apply r_fail_relim]. Qed.
Lemma r_ret_read_relim L st x :
  r_ret_read (relim_st L st) x = (relim_st L (fst (r_ret_read st x)), snd (r_ret_read st x)).
Proof. unfold r_ret_read. destruct x as [o|e]; [reflexivity|apply r_fail_relim]. Qed.

Lemma ret_node_oom st x : is_oom (snd (r_ret_node st x)) = false -> res_oom x = false.
Proof.
  unfold r_ret_node. destruct x as [[s t]|e]; [reflexivity|]. unfold r_fail.
  destruct e; cbn; try reflexivity; intros H; exact H.
Qed.
Lemma ret_unit_oom st x : is_oom (snd (r_ret_unit st x)) = false -> res_oom x = false.
Proof.
  unfold r_ret_unit. destruct x as [s|e]; [reflexivity|]. unfold r_fail.
  destruct e; cbn; try reflexivity; intros H; exact H.
Qed.

(* one step *)
Lemma r_step_mono L st o : r_limit (r_st st) <= L -> is_oom (snd (r_step st o)) = false ->
  r_step (relim_st L st) o = (relim_st L (fst (r_step st o)), snd (r_step st o)).
Proof.
  intros HL. unfold r_step. cbn [relim_st r_dead]. destruct (r_dead st); [reflexivity|].
  destruct o; cbn [r_step_live relim_st r_st r_nodes r_cps]; intros Hoom.
  - rewrite <- r_ret_node_relim. f_equal. apply r_new_atom_mono; [exact HL|]. exact (ret_node_oom _ _ Hoom).
  - rewrite <- r_ret_node_relim. f_equal. apply r_new_small_mono; [exact HL|]. exact (ret_node_oom _ _ Hoom).
  - rewrite <- r_ret_node_relim. f_equal. apply r_new_int_mono; [exact HL|]. exact (ret_node_oom _ _ Hoom).
  - rewrite <- r_ret_node_relim. f_equal. apply r_new_int_mono; [exact HL|]. exact (ret_node_oom _ _ Hoom).
  - rewrite <- r_ret_node_relim. f_equal. apply r_new_int_mono; [exact HL|]. exact (ret_node_oom _ _ Hoom).
  - rewrite <- r_ret_node_relim. f_equal. apply r_new_int_mono; [exact HL|]. exact (ret_node_oom _ _ Hoom).
  - destruct (nth_N (r_nodes st) i) as [x|]; [|reflexivity]. destruct (nth_N (r_nodes st) j) as [y|]; [|reflexivity].
    rewrite <- r_ret_node_relim. f_equal. apply r_new_pair_mono.
  - destruct (nth_N (r_nodes st) i) as [x|]; [|reflexivity].
    rewrite <- r_ret_node_relim. f_equal. apply r_new_substr_mono.
  - destruct (get_all (r_nodes st) is) as [xs|]; [|reflexivity].
    rewrite <- r_ret_node_relim. f_equal. apply r_new_concat_mono; [exact HL|]. exact (ret_node_oom _ _ Hoom).
  - rewrite <- r_ret_unit_relim. f_equal. apply r_add_ghost_atom_mono.
  - rewrite <- r_ret_unit_relim. f_equal. apply r_add_ghost_pair_mono.
  - cbn [relim r_pairs r_atoms r_heap r_limit]. destruct (r_pairs (r_st st) <? n); reflexivity.
  - reflexivity.
  - reflexivity.
  - destruct (nth_N (r_cps st) k) as [[c nl|nl]|]; reflexivity.
  - destruct (nth_N (r_cps st) k) as [[c nl|nl]|]; reflexivity.
  - destruct (nth_N (r_cps st) k) as [[c nl|nl]|]; try reflexivity.
    destruct (nth_N (r_nodes st) i); reflexivity.
  - destruct (nth_N (r_nodes st) i); [apply r_ret_read_relim|reflexivity].
  - destruct (nth_N (r_nodes st) i); [apply r_ret_read_relim|reflexivity].
  - destruct (nth_N (r_nodes st) i); [|reflexivity]. destruct (nth_N (r_nodes st) j); [apply r_ret_read_relim|reflexivity].
  - destruct (nth_N (r_nodes st) i); reflexivity.
  - destruct (nth_N (r_nodes st) i); [apply r_ret_read_relim|reflexivity].
  - destruct (nth_N (r_nodes st) i) as [[b|l r]|]; reflexivity.
  - destruct (nth_N (r_nodes st) i) as [[b|l r]|]; reflexivity.
Qed.

Lemma relim_st_self st : relim_st (r_limit (r_st st)) st = st.
Proof. destruct st as [[a p h l] n c d]. reflexivity. Qed.

Lemma r_step_limit st o : is_oom (snd (r_step st o)) = false ->
  r_limit (r_st (fst (r_step st o))) = r_limit (r_st st).
Proof.
  intros H. pose proof (r_step_mono (r_limit (r_st st)) st o (N.le_refl _) H) as E.
  rewrite relim_st_self in E. apply (f_equal fst) in E. cbn [fst] in E.
  rewrite E at 1. reflexivity.
Qed.

Definition no_oom (obs : list obs) : bool := forallb (fun o => negb (is_oom o)) obs.

(* REFERENCE: a history without OutOfMemory under limit L behaves identically under any L' >= L *)
Theorem r_run_mono L : forall h st, r_limit (r_st st) <= L -> no_oom (snd (r_run st h)) = true ->
  r_run (relim_st L st) h = (relim_st L (fst (r_run st h)), snd (r_run st h)).
Proof.
  induction h as [|o r IH]; intros st HL Hn; cbn [r_run] in *; [reflexivity|].
  destruct (r_step st o) as [st1 ob] eqn:S.
  destruct (r_run st1 r) as [st2 obs] eqn:R. cbn [snd fst no_oom forallb] in *.
  apply andb_prop in Hn as [Ho Hr]. apply negb_true_iff in Ho.
  pose proof (r_step_mono L st o HL) as M. rewrite S in M. cbn [fst snd] in M. rewrite (M Ho).
  pose proof (r_step_limit st o) as Lm. rewrite S in Lm. cbn [fst snd] in Lm.
  assert (HL1 : r_limit (r_st st1) <= L) by (rewrite (Lm Ho); exact HL).
  specialize (IH st1 HL1). rewrite R in IH. cbn [fst snd] in IH. rewrite (IH Hr). reflexivity.
Qed.

Corollary r_final_mono L L' h : L <= L' -> no_oom (snd (r_run (r_init L) h)) = true ->
  r_final L' h = relim_st L' (r_final L h) /\ snd (r_run (r_init L') h) = snd (r_run (r_init L) h).
Proof.
  intros HL Hn. unfold r_final.
  change (r_init L') with (relim_st L' (r_init L)).
  rewrite (r_run_mono L' h (r_init L) HL Hn). split; reflexivity.
Qed.

(* ARENA: under both limits the real allocator ends with the same three counts, and its live nodes denote
   the same trees, whenever the (reference) history meets no OutOfMemory under the smaller limit and
   neither arena run panics or takes the F2 branch *)
Theorem arena_limit_monotone : forall fx L L' h st st',
  1 <= L -> L <= L' -> Forall wf_op2 h ->
  no_oom (snd (r_run (r_init L) h)) = true ->
  a_final fx L h = Some st -> a_dead st = false -> a_f2 st = false ->
  (forall st0, a_init L = Ok st0 -> substr_clean fx st0 h) ->
  a_final fx L' h = Some st' -> a_dead st' = false -> a_f2 st' = false ->
  (forall st0, a_init L' = Ok st0 -> substr_clean fx st0 h) ->
  a_counts st' = a_counts st /\
  exists ts, Forall2 (fun n t => denote (hp (a_al st)) n = Some t) (a_nodes st) ts /\
             Forall2 (fun n t => denote (hp (a_al st')) n = Some t) (a_nodes st') ts.
Proof.
  intros fx L L' h st st' H1 HL Hwf Hn Hf Hd Hf2 Hc Hf' Hd' Hf2' Hc'.
  destruct (history_counts_ns fx L h st H1 Hwf Hf Hd Hf2 Hc) as [C [_ [_ N]]].
  assert (H1' : 1 <= L') by lia.
  destruct (history_counts_ns fx L' h st' H1' Hwf Hf' Hd' Hf2' Hc') as [C' [_ [_ N']]].
  destruct (r_final_mono L L' h HL Hn) as [E _].
  split.
  - rewrite C, C', E. reflexivity.
  - exists (r_nodes (r_final L h)). split; [exact N|]. rewrite E in N'. exact N'.
Qed.
