(* The guard theorem (C31, C08): what the machine does between the step that enters a softfork
   guard and the step after the matching ExitGuard, for every body, environment, dialect, budget
   and enclosing state. Proved with the frame lemma of Proofs/MachineFrame.v: the body runs as an
   upper part over the frame (values below the operator's two entries, the enclosing
   environments, ExitGuard :: the enclosing operations). *)
From Coq Require Import Lia ZifyBool ZifyN ZifyNat.
From Clvm Require Import Model.Machine Proofs.MachineBasics Proofs.MachineTotal Proofs.MachineFrame.
Open Scope N_scope.

(* [nsteps d M n a b]: n loop iterations lead from (cost, state) a to (cost, state) b *)
Fixpoint nsteps (d : dialect) (M : N) (n : nat) (a b : N * mstate) : Prop :=
  match n with
  | O => a = b
  | S k => exists m, step d M (fst a) (snd a) = Ok (inl m) /\ nsteps d M k m b
  end.

Lemma nsteps_det d M n : forall a b b', nsteps d M n a b -> nsteps d M n a b' -> b = b'.
Proof.
  induction n as [|n IH]; intros a b b' H1 H2; cbn [nsteps] in *.
  - congruence.
  - destruct H1 as (m1 & S1 & H1). destruct H2 as (m2 & S2 & H2).
    rewrite S1 in S2. injection S2 as <-. eapply IH; eassumption.
Qed.

Lemma nsteps_trans d M n1 : forall n2 a m b, nsteps d M n1 a m -> nsteps d M n2 m b -> nsteps d M (n1 + n2) a b.
Proof.
  induction n1 as [|n1 IH]; intros n2 a m b H1 H2; cbn [nsteps Nat.add] in *.
  - subst. exact H2.
  - destruct H1 as (m1 & S1 & H1). exists m1. split; [exact S1|]. eapply IH; eassumption.
Qed.

Lemma nsteps_split d M k : forall n a m b, nsteps d M n a b -> nsteps d M k a m -> (k <= n)%nat ->
  nsteps d M (n - k) m b.
Proof.
  induction k as [|k IH]; intros n a m b Hn Hk Hle; cbn [nsteps] in Hk.
  - subst. replace (n - 0)%nat with n by lia. exact Hn.
  - destruct n as [|n]; [lia|]. cbn [nsteps] in Hn.
    destruct Hn as (m1 & S1 & Hn). destruct Hk as (m2 & S2 & Hk).
    rewrite S1 in S2. injection S2 as <-. cbn [Nat.sub]. eapply IH; [exact Hn|exact Hk|lia].
Qed.

Lemma nsteps_run_loop d M n : forall a b f, nsteps d M n a b ->
  run_loop d (n + f) M (fst a) (snd a) = run_loop d f M (fst b) (snd b).
Proof.
  induction n as [|n IH]; intros a b f H; cbn [nsteps Nat.add] in *.
  - subst. reflexivity.
  - destruct H as ([c1 s1] & S1 & H). cbn [run_loop]. rewrite S1. cbn [bind].
    apply (IH (c1, s1) b f H).
Qed.

(* a successful run is a number of steps to a state with an empty operation stack *)
Lemma run_loop_nsteps d M fuel : forall cost s r, run_loop d fuel M cost s = Ok r ->
  exists n c' s', (n < fuel)%nat /\ nsteps d M n (cost, s) (c', s') /\ ops s' = [] /\
    run_loop d (fuel - n) M c' s' = Ok r.
Proof.
  induction fuel as [|fuel IH]; intros cost s r H; [discriminate|].
  pose proof H as H0. cbn [run_loop] in H.
  destruct (step d M cost s) as [[[c1 s1]|[c1 s1]]|] eqn:E; cbn [bind] in H; try discriminate.
  - destruct (IH _ _ _ H) as (n & c' & s' & Hn & Hs & Ho & Hr).
    exists (S n), c', s'. split; [lia|]. split.
    + cbn [nsteps fst snd]. exists (c1, s1). split; [exact E|exact Hs].
    + split; [exact Ho|]. exact Hr.
  - apply step_inr in E. destruct E as (Ho & -> & -> & _).
    exists O, cost, s. split; [lia|]. split; [reflexivity|]. split; [exact Ho|].
    replace (S fuel - 0)%nat with (S fuel) by lia. exact H0.
Qed.

Definition guard_cost (d : dialect) : N :=
  if f_new_cost_model (d_flags d) then NEW_GUARD_COST else GUARD_COST.

(* [st] is about to apply the softfork operator to well-formed arguments with a known extension:
   declared cost [declared], operator set [ext], body [prg], body environment [env]; below the
   operator's two value-stack entries and its environment lie [vs], [es], [rest], [gs] *)
Definition guard_call (d : dialect) (st : mstate) (vs es : list sexp) (rest : list operation)
  (gs : list guard) (declared : N) (ext : opset) (prg env : sexp) : Prop :=
  exists args operator e0 fa,
    st = {| vals := args :: operator :: vs; envs := e0 :: es; ops := OApply :: rest; guards := gs |} /\
    is_kw operator (d_apply d) = false /\ is_kw operator (d_softfork d) = true /\
    first args = Ok fa /\ uint_atom 8 (f_canonical_ints (d_flags d)) fa = Ok declared /\
    parse_softfork_arguments d args = Ok (ext, prg, env).

(* the same call when the dialect does not know the extension (or cannot parse the remaining
   arguments) and unknown extensions are allowed *)
Definition guard_call_unknown (d : dialect) (st : mstate) (vs es : list sexp) (rest : list operation)
  (gs : list guard) (declared : N) : Prop :=
  exists args operator e0 fa err,
    st = {| vals := args :: operator :: vs; envs := e0 :: es; ops := OApply :: rest; guards := gs |} /\
    is_kw operator (d_apply d) = false /\ is_kw operator (d_softfork d) = true /\
    first args = Ok fa /\ uint_atom 8 (f_canonical_ints (d_flags d)) fa = Ok declared /\
    parse_softfork_arguments d args = Err err /\ d_allow_unknown d = true.

Definition after_guard (vs es : list sexp) (rest : list operation) (gs : list guard) : mstate :=
  {| vals := nil_s :: vs; envs := es; ops := rest; guards := gs |}.

(* the guard pushed by guard entry *)
Definition entered_guard (gs : list guard) (M cost declared : N) (ext : opset) : guard :=
  {| g_expected :=
       match ext with
       | OsPreHardFork =>
           match gs with g :: _ => g_expected g | [] => cost + (M - cost) end
       | _ => cost + declared
       end;
     g_opset := ext |}.

Lemma eval_pair_err_kind d s p e err : eval_pair d s p e = Err err ->
  err = PathIntoAtom \/ err = InvalidOpArg 0 \/ err = InvalidNilTerminator.
Proof.
  unfold eval_pair. destruct p as [b|opn opl].
  - unfold traverse_path. destruct (_ =? 0); cbn [bind]; [discriminate|].
    generalize (path_bits b) (TRAVERSE_BASE_COST + N.of_nat (first_non_zero b) * TRAVERSE_COST_PER_ZERO_BYTE + TRAVERSE_COST_PER_BIT).
    intros bits. revert e. induction bits as [|bit r IH]; intros e0 c0; cbn [follow bind]; [discriminate|].
    destruct e0; [intros H; injection H as <-; left; reflexivity|]. apply IH.
  - destruct opn as [b|no tl].
    + unfold eval_op_atom. destruct (is_kw _ _); [discriminate|].
      match goal with |- (do s3 <- push_operands opl ?S; _) = _ -> _ => generalize S end.
      intros s0. destruct (push_operands opl s0) eqn:E; cbn [bind]; [discriminate|].
      intros H; injection H as <-. revert s0 E. induction opl as [b0|a _ r IH]; intros s0 E; cbn [push_operands] in E.
      * destruct b0; [discriminate|]. injection E as <-. right; right; reflexivity.
      * eapply IH; exact E.
    + unfold bad_arg. destruct tl; [destruct no|]; try discriminate; intros H; injection H as <-; right; left; reflexivity.
Qed.

Section Guard.
  Variable d : dialect.

  (* ---------------------------------------------------------------- the entering step *)
  Lemma guard_enter_step M cost st vs es rest gs declared ext prg env :
    guard_call d st vs es rest gs declared ext prg env ->
    step d M cost st =
      let emax := effective_max st M in
      if emax <? cost then Err CostExceeded
      else if emax - cost <? declared then Err CostExceeded
      else if declared =? 0 then Err CostExceeded
      else if f_limit_softfork (d_flags d) && (SOFTFORK_DEPTH_LIMIT <=? length gs)%nat then Err SoftforkStackDepth
      else
        let g := entered_guard gs M cost declared ext in
        match eval_pair d {| vals := []; envs := []; ops := []; guards := g :: gs |} prg env with
        | Ok (c, u) => Ok (inl (cost + (c + guard_cost d),
                           under {| fr_vals := vs; fr_envs := es; fr_ops := OExitGuard :: rest |} u))
        | Err e => Err e
        end.
  Proof.
    intros (args & operator & e0 & fa & -> & Hna & Hsf & Hfa & Hdc & Hps).
    unfold step. cbn zeta. destruct (_ <? cost) eqn:Eb; [reflexivity|].
    cbn [ops vals envs guards]. unfold apply_op, pop. cbn [vals envs ops guards bind].
    rewrite Hna, Hsf. unfold enter_guard. rewrite Hfa. cbn [bind]. rewrite Hdc. cbn [bind].
    destruct (_ <? declared); [reflexivity|]. destruct (declared =? 0); [reflexivity|].
    rewrite Hps. cbn [guards]. destruct (_ && _)%bool; [reflexivity|].
    cbn [vals envs ops guards].
    set (F := {| fr_vals := vs; fr_envs := es; fr_ops := OExitGuard :: rest |}).
    assert (Eg : {| g_expected :=
                      match ext with
                      | OsPreHardFork =>
                          match gs with g :: _ => g_expected g
                          | [] => cost + (effective_max {| vals := args :: operator :: vs; envs := e0 :: es; ops := OApply :: rest; guards := gs |} M - cost) end
                      | _ => cost + declared
                      end; g_opset := ext |} = entered_guard gs M cost declared ext).
    { unfold entered_guard, effective_max. cbn [guards]. destruct gs; reflexivity. }
    rewrite Eg. set (g := entered_guard gs M cost declared ext).
    change {| vals := vs; envs := es; ops := OExitGuard :: rest; guards := g :: gs |}
      with (under F {| vals := []; envs := []; ops := []; guards := g :: gs |}).
    rewrite eval_pair_under.
    destruct (eval_pair d _ prg env) as [[c u]|]; reflexivity.
  Qed.

  (* ---------------------------------------------------------------- the body, under its frame *)
  Lemma guard_body M F gb rest c' st' (HF : exists fv fe, F = {| fr_vals := fv; fr_envs := fe; fr_ops := OExitGuard :: rest |}) :
    forall n c u, upper gb u ->
    nsteps d M n (c, under F u) (c', st') -> (length (ops st') <= length rest)%nat ->
    exists k c2 v, (k < n)%nat /\
      nsteps d M k (c, under F u) (c2, under F {| vals := [v]; envs := []; ops := []; guards := gb |}) /\
      forall j cj sj, (j <= k)%nat -> nsteps d M j (c, under F u) (cj, sj) ->
                      (length rest < length (ops sj))%nat.
  Proof.
    destruct HF as (fv & fe & ->).
    set (F := {| fr_vals := fv; fr_envs := fe; fr_ops := OExitGuard :: rest |}).
    assert (Hlen : forall u, (length rest < length (ops (under F u)))%nat).
    { intros u. cbn [under ops F fr_ops]. rewrite app_length. cbn [length]. lia. }
    induction n as [|n IH]; intros c u Hu Hn Hshort.
    - cbn [nsteps] in Hn. injection Hn as <- <-. specialize (Hlen u). lia.
    - destruct (ops u) as [|o r] eqn:Eo.
      + destruct (upper_final gb u Hu Eo) as (v & ->).
        exists O, c, v. split; [lia|]. split; [reflexivity|].
        intros j cj sj Hj Hs. assert (j = O) by lia. subst j. cbn [nsteps] in Hs.
        injection Hs as <- <-. apply Hlen.
      + assert (Hne : ops u <> []) by (rewrite Eo; discriminate).
        destruct (step_under d F gb M c u Hu Hne) as [Hs Hinv].
        cbn [nsteps fst snd] in Hn. destruct Hn as (m & Sm & Hn). rewrite Hs in Sm.
        destruct (step d M c u) as [[[c1 u1]|[c1 u1]]|] eqn:E; cbn [lift_r] in Sm; try discriminate.
        injection Sm as <-.
        destruct (IH c1 u1 (Hinv _ _ eq_refl) Hn Hshort) as (k & c2 & v & Hk & Hrun & Hlong).
        exists (S k), c2, v. split; [lia|]. split.
        * cbn [nsteps fst snd]. exists (c1, under F u1). split; [rewrite Hs; reflexivity|exact Hrun].
        * intros j cj sj Hj Hsj. destruct j as [|j].
          -- cbn [nsteps] in Hsj. injection Hsj as <- <-. apply Hlen.
          -- cbn [nsteps fst snd] in Hsj. destruct Hsj as (m' & Sm' & Hsj).
             rewrite Hs in Sm'. cbn [lift_r] in Sm'. injection Sm' as <-.
             apply (Hlong j cj sj); [lia|exact Hsj].
  Qed.

  (* ---------------------------------------------------------------- the exit step *)
  Lemma guard_exit_step M c2 v vs es rest g gs :
    step d M c2 {| vals := v :: vs; envs := es; ops := OExitGuard :: rest; guards := g :: gs |} =
    if g_expected g <? c2 then Err CostExceeded
    else if negb (cost_exempt g) && negb (c2 =? g_expected g) then Err SoftforkCostMismatch
    else Ok (inl (c2, after_guard vs es rest gs)).
  Proof.
    unfold step, effective_max. cbn [guards ops vals envs].
    destruct (_ <? c2); [reflexivity|].
    unfold exit_guard. cbn [guards ops vals envs].
    destruct (_ && _)%bool; [reflexivity|]. cbn [bind]. rewrite N.add_0_r. reflexivity.
  Qed.

  (* ---------------------------------------------------------------- THE GUARD THEOREM *)
  Theorem guard_frame M cost st vs es rest gs declared ext prg env :
    guard_call d st vs es rest gs declared ext prg env ->
    forall n c' st', nsteps d M n (cost, st) (c', st') -> (length (ops st') <= length rest)%nat ->
    exists k ck, (k <= n)%nat /\
      nsteps d M k (cost, st) (ck, after_guard vs es rest gs) /\
      nsteps d M (n - k) (ck, after_guard vs es rest gs) (c', st') /\
      (forall j cj sj, (j < k)%nat -> nsteps d M j (cost, st) (cj, sj) -> (length rest < length (ops sj))%nat) /\
      (ext <> OsPreHardFork -> ck = cost + declared).
  Proof.
    intros Hcall n c' st' Hn Hshort.
    pose proof (guard_enter_step M cost st vs es rest gs declared ext prg env Hcall) as Hstep.
    assert (Hops : ops st = OApply :: rest).
    { destruct Hcall as (args & operator & e0 & fa & -> & _). reflexivity. }
    destruct n as [|n].
    { cbn [nsteps] in Hn. injection Hn as <- <-. rewrite Hops in Hshort. cbn [length] in Hshort. lia. }
    cbn [nsteps fst snd] in Hn. destruct Hn as (m & Sm & Hn). pose proof Sm as Sm0.
    rewrite Hstep in Sm. clear Hstep. cbn zeta in Sm.
    destruct (_ <? cost); [discriminate|]. destruct (_ <? declared); [discriminate|].
    destruct (declared =? 0); [discriminate|]. destruct (_ && _)%bool; [discriminate|].
    set (g := entered_guard gs M cost declared ext) in *.
    set (F := {| fr_vals := vs; fr_envs := es; fr_ops := OExitGuard :: rest |}) in *.
    destruct (eval_pair d _ prg env) as [[c u]|] eqn:EP; [|discriminate].
    injection Sm as <-.
    pose proof (eval_pair_upper0 d (g :: gs) prg env c u EP) as Hu.
    destruct (guard_body M F (g :: gs) rest c' st' (ex_intro _ vs (ex_intro _ es eq_refl))
                n _ u Hu Hn Hshort) as (k & c2 & v & Hk & Hrun & Hlong).
    (* the step after the body: ExitGuard *)
    pose proof (nsteps_split d M k n _ _ _ Hn Hrun ltac:(lia)) as Hrest.
    destruct (n - k)%nat as [|r] eqn:Enk; [lia|].
    cbn [nsteps fst snd] in Hrest. destruct Hrest as (m2 & Sm2 & Hrest).
    change (under F {| vals := [v]; envs := []; ops := []; guards := g :: gs |})
      with {| vals := v :: vs; envs := es; ops := OExitGuard :: rest; guards := g :: gs |} in Sm2.
    rewrite guard_exit_step in Sm2.
    destruct (_ <? c2) eqn:Elt; [discriminate|].
    destruct (negb (cost_exempt g) && negb (c2 =? g_expected g))%bool eqn:Ex; [discriminate|].
    injection Sm2 as <-.
    exists (S (S k)), c2. split; [lia|]. split; [|split; [|split]].
    - replace (S (S k)) with (1 + (k + 1))%nat by lia.
      apply (nsteps_trans d M 1 (k + 1) _ (cost + (c + guard_cost d), under F u)).
      + cbn [nsteps fst snd]. eexists. split; [exact Sm0|reflexivity].
      + apply (nsteps_trans d M k 1 _ _ _ Hrun).
        cbn [nsteps fst snd]. eexists. split; [|reflexivity].
        change (under F {| vals := [v]; envs := []; ops := []; guards := g :: gs |})
          with {| vals := v :: vs; envs := es; ops := OExitGuard :: rest; guards := g :: gs |}.
        rewrite guard_exit_step, Elt, Ex. reflexivity.
    - replace (S n - S (S k))%nat with r by lia. exact Hrest.
    - intros j cj sj Hj Hsj. destruct j as [|j].
      + cbn [nsteps] in Hsj. injection Hsj as <- <-. rewrite Hops. cbn [length]. lia.
      + cbn [nsteps fst snd] in Hsj. destruct Hsj as (m' & Sm' & Hsj).
        rewrite Sm0 in Sm'. injection Sm' as <-.
        apply (Hlong j cj sj); [lia|exact Hsj].
    - intros Hext. unfold cost_exempt in Ex. cbn [g entered_guard g_opset g_expected] in Ex.
      assert (Hne : opset_eqb ext OsPreHardFork = false) by (destruct ext; try reflexivity; congruence).
      rewrite Hne in Ex. cbn [negb andb] in Ex.
      assert (Hc2 : c2 = match ext with
                         | OsPreHardFork => match gs with g0 :: _ => g_expected g0 | [] => cost + (M - cost) end
                         | _ => cost + declared end) by lia.
      rewrite Hc2. destruct ext; try reflexivity. congruence.
  Qed.
  (* the same for a run that completes: it goes through the state after the guard *)
  Corollary guard_frame_run M cost st vs es rest gs declared ext prg env :
    guard_call d st vs es rest gs declared ext prg env ->
    forall fuel r, run_loop d fuel M cost st = Ok r ->
    exists fuel' ck, (fuel' < fuel)%nat /\
      run_loop d fuel' M ck (after_guard vs es rest gs) = Ok r /\
      (ext <> OsPreHardFork -> ck = cost + declared).
  Proof.
    intros Hcall fuel r H.
    destruct (run_loop_nsteps d M fuel cost st r H) as (n & c' & s' & Hn & Hs & Ho & Hr).
    assert (Hshort : (length (ops s') <= length rest)%nat) by (rewrite Ho; cbn; lia).
    destruct (guard_frame M cost st vs es rest gs declared ext prg env Hcall n c' s' Hs Hshort)
      as (k & ck & Hk & Hk1 & Hk2 & _ & Hcost).
    exists ((n - k) + (fuel - n))%nat, ck. split; [|split; [|exact Hcost]].
    - destruct k as [|k]; [|lia]. cbn [nsteps] in Hk1.
      destruct Hcall as (args & operator & e0 & fa & -> & _). injection Hk1 as _ _ _ Hx _.
      exfalso. clear -Hx. apply (f_equal (@length _)) in Hx. cbn [length] in Hx. lia.
    - pose proof (nsteps_run_loop d M (n - k) _ _ (fuel - n)%nat Hk2) as E. cbn [fst snd] in E.
      rewrite E. exact Hr.
  Qed.

  (* ---------------------------------------------------------------- the skipped guard *)
  (* an extension the dialect does not know (every extension, on the hiding dialect): one step *)
  Lemma guard_skip_step M cost st vs es rest gs declared :
    guard_call_unknown d st vs es rest gs declared ->
    step d M cost st =
      let emax := effective_max st M in
      if emax <? cost then Err CostExceeded
      else if emax - cost <? declared then Err CostExceeded
      else if declared =? 0 then Err CostExceeded
      else Ok (inl (cost + declared, after_guard vs es rest gs)).
  Proof.
    intros (args & operator & e0 & fa & err & -> & Hna & Hsf & Hfa & Hdc & Hps & Hau).
    unfold step. cbn zeta. destruct (_ <? cost) eqn:Eb; [reflexivity|].
    cbn [ops vals envs guards]. unfold apply_op, pop. cbn [vals envs ops guards bind].
    rewrite Hna, Hsf. unfold enter_guard. rewrite Hfa. cbn [bind]. rewrite Hdc. cbn [bind].
    destruct (_ <? declared); [reflexivity|]. destruct (declared =? 0); [reflexivity|].
    rewrite Hps, Hau. reflexivity.
  Qed.

  (* ---------------------------------------------------------------- the nesting limit *)
  Lemma guard_depth M cost st vs es rest gs declared ext prg env :
    guard_call d st vs es rest gs declared ext prg env ->
    (step d M cost st = Err SoftforkStackDepth <->
     (f_limit_softfork (d_flags d) = true /\ (SOFTFORK_DEPTH_LIMIT <= length gs)%nat /\
      cost <= effective_max st M /\ declared <= effective_max st M - cost /\ declared <> 0)).
  Proof.
    intros Hcall. rewrite (guard_enter_step M cost st vs es rest gs declared ext prg env Hcall). cbn zeta.
    destruct (_ <? cost) eqn:E1; [split; [discriminate|lia]|].
    destruct (_ <? declared) eqn:E2; [split; [discriminate|lia]|].
    destruct (declared =? 0) eqn:E3; [split; [discriminate|lia]|].
    destruct (f_limit_softfork (d_flags d)) eqn:E4; cbn [andb].
    - destruct (SOFTFORK_DEPTH_LIMIT <=? length gs)%nat eqn:E5.
      + split; [intros _|reflexivity]. repeat split; try lia; apply Nat.leb_le; exact E5.
      + split; [|intros (_ & H & _); apply Nat.leb_gt in E5; lia].
        destruct (eval_pair d _ prg env) as [[c u]|e] eqn:EP; [discriminate|].
        intros H; injection H as ->. apply eval_pair_err_kind in EP. destruct EP as [?|[?|?]]; discriminate.
    - split; [|intros (? & _); discriminate].
      destruct (eval_pair d _ prg env) as [[c u]|e] eqn:EP; [discriminate|].
      intros H; injection H as ->. apply eval_pair_err_kind in EP. destruct EP as [?|[?|?]]; discriminate.
  Qed.
End Guard.
