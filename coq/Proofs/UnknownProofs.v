(* op_unknown (Model/OpsUnknown.v) against the published opcode cost rule [unknown_spec]. *)
From Coq Require Import Lia ZifyBool ZifyN ZifyNat.
From Clvm Require Import Model.OpsUnknown.
Open Scope N_scope.
Arguments N.add : simpl never.
Arguments N.sub : simpl never.
Arguments N.mul : simpl never.
Arguments N.div : simpl never.
Arguments N.eqb : simpl never.
Arguments N.ltb : simpl never.
Arguments N.leb : simpl never.
Arguments N.max : simpl never.

(* lia with every quotient in the goal treated as an unknown natural number *)
Ltac dlia := repeat match goal with |- context [N.div ?a ?b] => generalize (N.div a b); intros ? end; lia.

Definition res_opt {A} (r : res A) : option A := match r with Ok a => Some a | Err _ => None end.

Definition is_overflow {A} (r : res A) : Prop := exists s, r = Err (Overflow s).

(* the relation between a cost loop's outcome and the rule's (unbounded) sum *)
Definition loop_rel (r : res N) (total : option N) (m : N) : Prop :=
  match r with
  | Ok c => total = Some c /\ c < two64
  | Err (Overflow _) => True
  | Err _ => match total with None => True | Some t => m < t \/ U32_MAX < t end
  end.

Lemma Some_inj {A} (a b : A) : Some a = Some b -> a = b.
Proof. intros H. inversion H. reflexivity. Qed.

Lemma two64_val : two64 = 18446744073709551616. Proof. reflexivity. Qed.
Lemma U32_MAX_val : U32_MAX = 4294967295. Proof. reflexivity. Qed.

Lemma plain_add_cases s a b :
  (plain_add s a b = Ok (a + b) /\ a + b < two64) \/ (plain_add s a b = Err (Overflow s)).
Proof. unfold plain_add. destruct (a + b <? two64) eqn:E; [left|right]; auto. split; auto. lia. Qed.

Lemma plain_mul_cases s a b :
  (plain_mul s a b = Ok (a * b) /\ a * b < two64) \/ (plain_mul s a b = Err (Overflow s)).
Proof. unfold plain_mul. destruct (a * b <? two64) eqn:E; [left|right]; auto. split; auto. lia. Qed.

Lemma checked_add_cases a b :
  (checked_add a b = Some (a + b) /\ a + b < two64) \/ (checked_add a b = None /\ two64 <= a + b).
Proof. unfold checked_add. destruct (a + b <? two64) eqn:E; [left|right]; split; auto; lia. Qed.

Lemma checked_mul_cases a b :
  (checked_mul a b = Some (a * b) /\ a * b < two64) \/ (checked_mul a b = None /\ two64 <= a * b).
Proof. unfold checked_mul. destruct (a * b <? two64) eqn:E; [left|right]; split; auto; lia. Qed.

Lemma check_cost_cases c m :
  (check_cost c m = Ok tt /\ c <= m) \/ (check_cost c m = Err CostExceeded /\ m < c).
Proof. unfold check_cost. destruct (m <? c) eqn:E; [right|left]; split; auto; lia. Qed.

Lemma check_cost_err c m e : check_cost c m = Err e -> e = CostExceeded.
Proof. unfold check_cost. destruct (m <? c); intros H; inversion H; reflexivity. Qed.

(* sums of the rule over atom-only length lists *)
Definition opt_add (c : N) (o : option N) : option N := option_map (fun s => c + s) o.

Definition add_total (ncm : bool) (lens : list (option N)) (acc : N) : option N :=
  option_map (fun ls => spec_add_base ncm ls acc) (all_atoms lens).
Definition mul_total (d : N) (lens : list (option N)) (l0 : N) : option N :=
  option_map (fun ls => spec_mul_steps d ls l0) (all_atoms lens).
Definition concat_total (lens : list (option N)) : option N :=
  option_map spec_concat_base (all_atoms lens).

Ltac t_plain_add s a b :=
  let H := fresh "H" in let L := fresh "L" in
  destruct (plain_add_cases s a b) as [[H L]|H]; rewrite H; cbn [bind]; [| exact I].
Ltac t_plain_mul s a b :=
  let H := fresh "H" in let L := fresh "L" in
  destruct (plain_mul_cases s a b) as [[H L]|H]; rewrite H; cbn [bind]; [| exact I].

Lemma unk_add_old_rel m : m < two64 -> forall lens cost,
  cost < two64 ->
  loop_rel (unk_add_old lens cost m) (opt_add cost (add_total false lens 0)) m.
Proof.
  intros Hm. induction lens as [|[len|] r IH]; intros cost Hc; cbn [unk_add_old].
  - cbn. split; auto. f_equal. lia.
  - t_plain_add 1 cost ARITH_COST_PER_ARG.
    t_plain_mul 2 len ARITH_COST_PER_BYTE.
    t_plain_add 3 (cost + ARITH_COST_PER_ARG) (len * ARITH_COST_PER_BYTE).
    destruct (check_cost_cases (cost + ARITH_COST_PER_ARG + len * ARITH_COST_PER_BYTE) m) as [[E Hle]|[E Hlt]];
      rewrite E; cbn [bind].
    + specialize (IH _ L1). unfold add_total, opt_add in *. cbn [all_atoms].
      destruct (all_atoms r) as [ls|]; cbn [option_map spec_add_base] in *.
      * destruct (unk_add_old r _ m) as [c|e]; cbn [loop_rel] in *.
        -- destruct IH as [IH1 IH2]. split; auto. apply Some_inj in IH1. rewrite <- IH1. apply f_equal. lia.
        -- destruct e; auto; lia.
      * destruct (unk_add_old r _ m) as [c|e]; cbn [loop_rel] in *; auto; try (destruct IH; discriminate).
    + unfold add_total, opt_add. cbn [all_atoms]. cbn [loop_rel].
      destruct (all_atoms r) as [ls|]; cbn [option_map spec_add_base]; auto. left. lia.
  - cbn. exact I.
Qed.

Lemma unk_concat_rel m : m < two64 -> forall lens cost,
  cost < two64 ->
  loop_rel (unk_concat lens cost m) (opt_add cost (concat_total lens)) m.
Proof.
  intros Hm. induction lens as [|[len|] r IH]; intros cost Hc; cbn [unk_concat].
  - cbn. split; auto. f_equal. lia.
  - t_plain_add 11 cost CONCAT_COST_PER_ARG.
    t_plain_mul 12 CONCAT_COST_PER_BYTE len.
    t_plain_add 13 (cost + CONCAT_COST_PER_ARG) (CONCAT_COST_PER_BYTE * len).
    destruct (check_cost_cases (cost + CONCAT_COST_PER_ARG + CONCAT_COST_PER_BYTE * len) m) as [[E Hle]|[E Hlt]];
      rewrite E; cbn [bind].
    + specialize (IH _ L1). unfold concat_total, opt_add in *. cbn [all_atoms].
      destruct (all_atoms r) as [ls|]; cbn [option_map spec_concat_base] in *.
      * destruct (unk_concat r _ m) as [c|e]; cbn [loop_rel] in *.
        -- destruct IH as [IH1 IH2]. split; auto. apply Some_inj in IH1. rewrite <- IH1. apply f_equal. lia.
        -- destruct e; auto; lia.
      * destruct (unk_concat r _ m) as [c|e]; cbn [loop_rel] in *; auto; try (destruct IH; discriminate).
    + unfold concat_total, opt_add. cbn [all_atoms]. cbn [loop_rel].
      destruct (all_atoms r) as [ls|]; cbn [option_map spec_concat_base]; auto. left. lia.
  - cbn. exact I.
Qed.

(* a failing checked operation: the exact value is at least 2^64 > m *)
Ltac t_checked_add a b :=
  let H := fresh "H" in let L := fresh "L" in
  destruct (checked_add_cases a b) as [[H L]|[H L]]; rewrite H; cbn [ok_or_cost bind].
Ltac t_checked_mul a b :=
  let H := fresh "H" in let L := fresh "L" in
  destruct (checked_mul_cases a b) as [[H L]|[H L]]; rewrite H; cbn [ok_or_cost bind].

Lemma unk_add_new_rel m : m < two64 -> forall lens cost acc,
  cost < two64 ->
  loop_rel (unk_add_new lens cost acc m) (opt_add cost (add_total true lens acc)) m.
Proof.
  intros Hm. induction lens as [|[len|] r IH]; intros cost acc Hc; cbn [unk_add_new].
  - cbn. split; auto. f_equal. lia.
  - unfold add_total, opt_add in *. cbn [all_atoms].
    assert (Hfail : forall t, two64 <= t ->
      match option_map (fun s => cost + s)
              (option_map (fun ls => spec_add_base true ls acc)
                 match all_atoms r with Some ls => Some (len :: ls) | None => None end) with
      | None => True
      | Some t' => t <= t' -> m < t' \/ U32_MAX < t'
      end).
    { intros t Ht. destruct (all_atoms r); cbn; auto. intros. left. lia. }
    t_checked_add cost NEW_ARITH_COST_PER_ARG.
    2:{ cbn [loop_rel]. specialize (Hfail _ L). destruct (all_atoms r); cbn [option_map spec_add_base] in *; auto.
        apply Hfail. lia. }
    t_checked_mul (N.max acc len) NEW_ARITH_COST_PER_BYTE.
    2:{ cbn [loop_rel]. specialize (Hfail _ L0). destruct (all_atoms r); cbn [option_map spec_add_base] in *; auto.
        apply Hfail. lia. }
    t_checked_add (cost + NEW_ARITH_COST_PER_ARG) (N.max acc len * NEW_ARITH_COST_PER_BYTE).
    2:{ cbn [loop_rel]. specialize (Hfail _ L1). destruct (all_atoms r); cbn [option_map spec_add_base] in *; auto.
        apply Hfail. lia. }
    destruct (check_cost_cases (cost + NEW_ARITH_COST_PER_ARG + N.max acc len * NEW_ARITH_COST_PER_BYTE) m) as [[E Hle]|[E Hlt]];
      rewrite E; cbn [bind].
    + specialize (IH _ (N.max acc len) L1).
      destruct (all_atoms r) as [ls|]; cbn [option_map spec_add_base] in *.
      * destruct (unk_add_new r _ _ m) as [c|e]; cbn [loop_rel] in *.
        -- destruct IH as [IH1 IH2]. split; auto. apply Some_inj in IH1. rewrite <- IH1. apply f_equal. lia.
        -- destruct e; auto; lia.
      * destruct (unk_add_new r _ _ m) as [c|e]; cbn [loop_rel] in *; auto; try (destruct IH; discriminate).
    + cbn [loop_rel]. destruct (all_atoms r) as [ls|]; cbn [option_map spec_add_base]; auto. left. lia.
  - cbn. exact I.
Qed.

Lemma unk_mul_old_rel m : m < two64 -> forall lens cost l0,
  cost < two64 ->
  loop_rel (unk_mul_old lens cost l0 m)
           (opt_add cost (mul_total MUL_SQUARE_COST_PER_BYTE_DIVIDER lens l0)) m.
Proof.
  intros Hm. induction lens as [|[len|] r IH]; intros cost l0 Hc; cbn [unk_mul_old].
  - cbn. split; auto. f_equal. lia.
  - t_plain_add 4 cost MUL_COST_PER_OP.
    t_plain_add 5 l0 len.
    t_plain_mul 6 (l0 + len) MUL_LINEAR_COST_PER_BYTE.
    t_plain_add 7 (cost + MUL_COST_PER_OP) ((l0 + len) * MUL_LINEAR_COST_PER_BYTE).
    t_plain_mul 8 l0 len.
    t_plain_add 9 (cost + MUL_COST_PER_OP + (l0 + len) * MUL_LINEAR_COST_PER_BYTE)
                  (l0 * len / MUL_SQUARE_COST_PER_BYTE_DIVIDER).
    t_plain_add 10 l0 len.
    match goal with |- context [check_cost ?c m] =>
      destruct (check_cost_cases c m) as [[E Hle]|[E Hlt]]; rewrite E; cbn [bind] end.
    + specialize (IH _ (l0 + len) L4). unfold mul_total, opt_add in *. cbn [all_atoms].
      destruct (all_atoms r) as [ls|]; cbn [option_map spec_mul_steps] in *.
      * destruct (unk_mul_old r _ _ m) as [c|e]; cbn [loop_rel] in *.
        -- destruct IH as [IH1 IH2]. split; auto. apply Some_inj in IH1. rewrite <- IH1. apply f_equal. lia.
        -- destruct e; auto; lia.
      * destruct (unk_mul_old r _ _ m) as [c|e]; cbn [loop_rel] in *; auto; try (destruct IH; discriminate).
    + unfold mul_total, opt_add. cbn [all_atoms]. cbn [loop_rel].
      destruct (all_atoms r) as [ls|]; cbn [option_map spec_mul_steps]; auto. left. lia.
  - cbn. exact I.
Qed.

Lemma div16_big p : two64 <= p -> U32_MAX < p / NEW_MUL_SQUARE_COST_PER_BYTE_DIVIDER.
Proof.
  intros H. unfold NEW_MUL_SQUARE_COST_PER_BYTE_DIVIDER. rewrite two64_val in H. rewrite U32_MAX_val.
  assert (18446744073709551616 / 16 <= p / 16) by (apply N.div_le_mono; lia).
  change (18446744073709551616 / 16) with 1152921504606846976 in H0. lia.
Qed.

Lemma unk_mul_new_rel m : m < two64 -> forall lens cost l0,
  cost < two64 ->
  loop_rel (unk_mul_new lens cost l0 m)
           (opt_add cost (mul_total NEW_MUL_SQUARE_COST_PER_BYTE_DIVIDER lens l0)) m.
Proof.
  intros Hm. induction lens as [|[len|] r IH]; intros cost l0 Hc; cbn [unk_mul_new].
  - cbn. split; auto. f_equal. lia.
  - unfold mul_total, opt_add in *. cbn [all_atoms].
    assert (Hfail : forall t, (two64 <= t \/ U32_MAX < t) ->
      match option_map (fun s => cost + s)
              (option_map (fun ls => spec_mul_steps NEW_MUL_SQUARE_COST_PER_BYTE_DIVIDER ls l0)
                 match all_atoms r with Some ls => Some (len :: ls) | None => None end) with
      | None => True
      | Some t' => t <= t' -> m < t' \/ U32_MAX < t'
      end).
    { intros t Ht. destruct (all_atoms r); cbn; auto. intros. rewrite U32_MAX_val, two64_val in *. lia. }
    t_checked_add cost MUL_COST_PER_OP.
    2:{ cbn [loop_rel]. specialize (Hfail _ (or_introl L)). destruct (all_atoms r); cbn [option_map spec_mul_steps] in *; auto.
        apply Hfail. dlia. }
    t_checked_add l0 len.
    2:{ cbn [loop_rel]. specialize (Hfail _ (or_introl L0)). destruct (all_atoms r); cbn [option_map spec_mul_steps] in *; auto.
        apply Hfail. unfold MUL_LINEAR_COST_PER_BYTE. dlia. }
    t_checked_mul (l0 + len) MUL_LINEAR_COST_PER_BYTE.
    2:{ cbn [loop_rel]. specialize (Hfail _ (or_introl L1)). destruct (all_atoms r); cbn [option_map spec_mul_steps] in *; auto.
        apply Hfail. dlia. }
    t_checked_add (cost + MUL_COST_PER_OP) ((l0 + len) * MUL_LINEAR_COST_PER_BYTE).
    2:{ cbn [loop_rel]. specialize (Hfail _ (or_introl L2)). destruct (all_atoms r); cbn [option_map spec_mul_steps] in *; auto.
        apply Hfail. dlia. }
    t_checked_mul l0 len.
    2:{ cbn [loop_rel]. pose proof (div16_big _ L3) as Hb.
        specialize (Hfail _ (or_intror Hb)). destruct (all_atoms r); cbn [option_map spec_mul_steps] in *; auto.
        apply Hfail. dlia. }
    t_checked_add (cost + MUL_COST_PER_OP + (l0 + len) * MUL_LINEAR_COST_PER_BYTE) (l0 * len / NEW_MUL_SQUARE_COST_PER_BYTE_DIVIDER).
    2:{ cbn [loop_rel]. specialize (Hfail _ (or_introl L4)). destruct (all_atoms r); cbn [option_map spec_mul_steps] in *; auto.
        apply Hfail. dlia. }
    match goal with |- context [check_cost ?c m] =>
      destruct (check_cost_cases c m) as [[E Hle]|[E Hlt]]; rewrite E; cbn [bind] end.
    + specialize (IH _ (l0 + len) L4).
      destruct (all_atoms r) as [ls|]; cbn [option_map spec_mul_steps] in *.
      * destruct (unk_mul_new r _ _ m) as [c|e]; cbn [loop_rel] in *.
        -- destruct IH as [IH1 IH2]. split; auto. apply Some_inj in IH1. rewrite <- IH1. apply f_equal. lia.
        -- destruct e; auto; lia.
      * destruct (unk_mul_new r _ _ m) as [c|e]; cbn [loop_rel] in *; auto; try (destruct IH; discriminate).
    + cbn [loop_rel]. destruct (all_atoms r) as [ls|]; cbn [option_map spec_mul_steps]; auto. left. lia.
  - cbn. exact I.
Qed.

(* the base cost block *)
Lemma unknown_base_rel fn lens ncm m : m < two64 ->
  loop_rel (unknown_base fn lens ncm m) (spec_base fn lens ncm) m.
Proof.
  intros Hm. unfold unknown_base, spec_base.
  destruct (fn =? 0) eqn:E0.
  { assert (fn =? 1 = false) by lia. assert (fn =? 2 = false) by lia. assert (fn =? 3 = false) by lia.
    rewrite H, H0, H1. cbn. split; auto. rewrite two64_val. lia. }
  destruct (fn =? 1) eqn:E1.
  { destruct ncm.
    - pose proof (unk_add_new_rel m Hm lens ARITH_BASE_COST 0) as R. unfold opt_add, add_total in R.
      destruct (all_atoms lens); cbn [option_map] in *; apply R; rewrite two64_val; unfold ARITH_BASE_COST; lia.
    - pose proof (unk_add_old_rel m Hm lens ARITH_BASE_COST) as R. unfold opt_add, add_total in R.
      destruct (all_atoms lens); cbn [option_map] in *; apply R; rewrite two64_val; unfold ARITH_BASE_COST; lia. }
  destruct (fn =? 2) eqn:E2.
  { destruct lens as [|[l0|] r]; cbn [all_atoms spec_mul_base].
    - cbn. split; auto. destruct ncm; rewrite two64_val; cbv; auto.
    - destruct ncm.
      + t_checked_mul l0 MUL_LINEAR_COST_PER_BYTE.
        2:{ cbn [loop_rel]. destruct (all_atoms r); cbn; auto. left. lia. }
        t_checked_add NEW_MUL_BASE_COST (l0 * MUL_LINEAR_COST_PER_BYTE).
        2:{ cbn [loop_rel]. destruct (all_atoms r); cbn; auto. left. lia. }
        match goal with |- context [check_cost ?c m] =>
          destruct (check_cost_cases c m) as [[E Hle]|[E Hlt]]; rewrite E; cbn [bind] end.
        * pose proof (unk_mul_new_rel m Hm r _ l0 L0) as R. unfold opt_add, mul_total in R.
          destruct (all_atoms r); cbn [option_map] in *; exact R.
        * cbn [loop_rel]. destruct (all_atoms r); cbn; auto. left. lia.
      + pose proof (unk_mul_old_rel m Hm r MUL_BASE_COST l0) as R. unfold opt_add, mul_total in R.
        destruct (all_atoms r); cbn [option_map] in *; apply R; rewrite two64_val; unfold MUL_BASE_COST; lia.
    - cbn. exact I. }
  destruct (fn =? 3) eqn:E3.
  { pose proof (unk_concat_rel m Hm lens CONCAT_BASE_COST) as R. unfold opt_add, concat_total in R.
    destruct (all_atoms lens); cbn [option_map] in *; apply R; rewrite two64_val; unfold CONCAT_BASE_COST; lia. }
  cbn. split; auto. rewrite two64_val. lia.
Qed.

(* every base cost is positive: `assert!(cost > 0)` cannot fail *)
Lemma spec_base_pos fn lens ncm b : spec_base fn lens ncm = Some b -> 0 < b.
Proof.
  unfold spec_base. destruct (fn =? 1); [|destruct (fn =? 2); [|destruct (fn =? 3)]].
  - destruct (all_atoms lens); intros H; inversion H. unfold ARITH_BASE_COST. lia.
  - destruct (all_atoms lens) as [[|l0 ls]|]; intros H; inversion H; cbn [spec_mul_base].
    + destruct ncm; cbv; auto.
    + destruct ncm; unfold NEW_MUL_BASE_COST, MUL_BASE_COST; lia.
  - destruct (all_atoms lens); intros H; inversion H. unfold CONCAT_BASE_COST. lia.
  - intros H; inversion H. lia.
Qed.

Lemma unknown_base_pos fn lens ncm m c : m < two64 -> unknown_base fn lens ncm m = Ok c -> 0 < c.
Proof.
  intros Hm H. pose proof (unknown_base_rel fn lens ncm m Hm) as R. rewrite H in R. cbn in R.
  destruct R as [R _]. eapply spec_base_pos; eauto.
Qed.

(* the multiplier of a non-empty opcode of at most 5 bytes *)
Lemma length_removelast {A} (l : list A) : l <> [] -> length (removelast l) = pred (length l).
Proof.
  induction l as [|x l IH]; intros H; [congruence|]. destruct l as [|y l]; [reflexivity|].
  cbn [removelast length] in *. rewrite IH by congruence. reflexivity.
Qed.

(* the pre-hard-fork product wraps around 2^64 (finding F6), or a plain u64 operation would *)
Definition wraps64 (op : bytes) (lens : list (option N)) (ncm : bool) (m : N) : Prop :=
  is_overflow (unknown_cost op lens ncm m) \/
  (ncm = false /\ exists base, spec_base (cost_function_of op) lens ncm = Some base /\
                               two64 <= base * (be_value (removelast op) + 1)).

Theorem unknown_cost_rule op lens ncm m :
  m < two64 -> ~ wraps64 op lens ncm m ->
  res_opt (unknown_cost op lens ncm m) = unknown_spec op lens ncm m.
Proof.
  intros Hm Hw. unfold wraps64 in Hw.
  destruct op as [|x op']; [reflexivity|]. set (op := x :: op') in *.
  assert (Hlen : length (removelast op) = pred (length op)) by (apply length_removelast; discriminate).
  set (mult := be_value (removelast op)) in *.
  destruct (starts_ffff op) eqn:Eff.
  { unfold unknown_cost, unknown_spec. fold op. rewrite Eff. reflexivity. }
  destruct (5 <? length op)%nat eqn:E5.
  { unfold unknown_cost, unknown_spec, u32_from_u8. fold op. rewrite Eff, E5.
    assert (4 <? length (removelast op) = true)%nat as -> by (rewrite Hlen; apply Nat.ltb_lt; apply Nat.ltb_lt in E5; lia).
    reflexivity. }
  assert (Hu : u32_from_u8 (removelast op) = Some mult).
  { unfold u32_from_u8.
    assert (4 <? length (removelast op) = false)%nat as -> by (rewrite Hlen; apply Nat.ltb_ge; apply Nat.ltb_ge in E5; lia).
    reflexivity. }
  assert (Hcost : unknown_cost op lens ncm m =
            (do cost <- unknown_base (cost_function_of op) lens ncm m;
             do _ <- check_cost cost m;
             do cost <- (if ncm then ok_or_cost (checked_mul cost (mult + 1))
                         else Ok (wrapping_mul cost (mult + 1)));
             if U32_MAX <? cost then Err Invalid else Ok cost)).
  { unfold unknown_cost. fold op. rewrite Eff, Hu. reflexivity. }
  rewrite Hcost in *.
  unfold unknown_spec. fold op. rewrite Eff, E5. fold mult.
  pose proof (unknown_base_rel (cost_function_of op) lens ncm m Hm) as R.
  destruct (unknown_base (cost_function_of op) lens ncm m) as [base|e] eqn:EB; cbn [bind loop_rel] in *.
  - destruct R as [R Hb]. rewrite R.
    destruct (check_cost_cases base m) as [[E Hle]|[E Hlt]]; rewrite E; cbn [bind].
    2:{ assert (m <? base = true) as -> by lia. reflexivity. }
    assert (m <? base = false) as -> by lia.
    destruct ncm.
    + destruct (checked_mul_cases base (mult + 1)) as [[H L]|[H L]]; rewrite H; cbn [ok_or_cost bind].
      * destruct (U32_MAX <? base * (mult + 1)); reflexivity.
      * assert (U32_MAX <? base * (mult + 1) = true) as -> by (rewrite U32_MAX_val, two64_val in *; lia).
        reflexivity.
    + cbn [bind]. unfold wrapping_mul.
      assert (base * (mult + 1) < two64).
      { destruct (base * (mult + 1) <? two64) eqn:EE; [lia|]. exfalso. apply Hw. right. split; auto.
        exists base. split; auto. lia. }
      rewrite N.mod_small by assumption.
      destruct (U32_MAX <? base * (mult + 1)); reflexivity.
  - destruct e; try (destruct (spec_base (cost_function_of op) lens ncm) as [t|]; [|reflexivity];
      destruct R as [R|R];
      [ assert (m <? t = true) as -> by lia; reflexivity
      | destruct (m <? t); [reflexivity|];
        assert (U32_MAX <? t * (mult + 1) = true) as -> by (rewrite U32_MAX_val in *; nia); reflexivity ]).
    exfalso. apply Hw. left. exists site. reflexivity.
Qed.

(* under the new cost model nothing wraps silently: the only u64 operations left unchecked are
   the plain additions of the concat-like cost function *)
Theorem unknown_cost_rule_new op lens m :
  m < two64 -> cost_function_of op <> 3 ->
  res_opt (unknown_cost op lens true m) = unknown_spec op lens true m.
Proof.
  intros Hm H3. apply unknown_cost_rule; auto.
  intros [[s Hs]|[Hc _]]; [|discriminate].
  (* no Overflow outcome is reachable through the checked branches *)
  unfold unknown_cost in Hs.
  destruct op as [|x op']; [discriminate|]. set (op := x :: op') in *.
  destruct (starts_ffff op); [discriminate|].
  destruct (u32_from_u8 (removelast op)); [|discriminate].
  assert (NoOv : forall r : res N, (forall s', r <> Err (Overflow s')) ->
            forall k : N -> res N, (forall c s', k c <> Err (Overflow s')) -> forall s', bind r k <> Err (Overflow s')).
  { intros r Hr k Hk s'. destruct r; cbn; auto. }
  revert Hs. apply NoOv.
  2:{ intros c s'. destruct (check_cost c m) eqn:E; cbn.
      - destruct (checked_mul c (n + 1)); cbn; [destruct (U32_MAX <? n0)|]; discriminate.
      - apply check_cost_err in E. subst. discriminate. }
  assert (Hck : forall c s', check_cost c m <> Err (Overflow s')).
  { intros c s'. unfold check_cost. destruct (m <? c); discriminate. }
  assert (Hadd : forall lens cost acc s', unk_add_new lens cost acc m <> Err (Overflow s')).
  { induction lens0 as [|[len|] r IH]; intros cost acc s'; cbn [unk_add_new]; try discriminate.
    destruct (checked_add cost NEW_ARITH_COST_PER_ARG); cbn; [|discriminate].
    destruct (checked_mul (N.max acc len) NEW_ARITH_COST_PER_BYTE); cbn; [|discriminate].
    destruct (checked_add n0 n1); cbn; [|discriminate].
    destruct (check_cost n2 m) eqn:E; cbn; [apply IH|]. apply check_cost_err in E. subst. discriminate. }
  assert (Hmul : forall lens cost l0 s', unk_mul_new lens cost l0 m <> Err (Overflow s')).
  { induction lens0 as [|[len|] r IH]; intros cost l0 s'; cbn [unk_mul_new]; try discriminate.
    destruct (checked_add cost MUL_COST_PER_OP); cbn; [|discriminate].
    destruct (checked_add l0 len); cbn; [|discriminate].
    destruct (checked_mul n1 MUL_LINEAR_COST_PER_BYTE); cbn; [|discriminate].
    destruct (checked_add n0 n2); cbn; [|discriminate].
    destruct (checked_mul l0 len); cbn; [|discriminate].
    destruct (checked_add n3 _); cbn; [|discriminate].
    destruct (check_cost n5 m) eqn:E; cbn; [apply IH|]. apply check_cost_err in E. subst. discriminate. }
  intros s'. unfold unknown_base.
  destruct (cost_function_of op =? 0); [discriminate|].
  destruct (cost_function_of op =? 1); [apply Hadd|].
  destruct (cost_function_of op =? 2).
  { destruct lens as [|[l0|] r]; try discriminate.
    destruct (checked_mul l0 MUL_LINEAR_COST_PER_BYTE); cbn; [|discriminate].
    destruct (checked_add NEW_MUL_BASE_COST n0); cbn; [|discriminate].
    destruct (check_cost n1 m) eqn:E; cbn; [apply Hmul|]. apply check_cost_err in E. subst. discriminate. }
  destruct (cost_function_of op =? 3) eqn:E3; [|discriminate].
  exfalso. apply H3. lia.
Qed.

(* finding F6: pre-hard-fork, opcode 7f d0 11 05 80 on two 1 MiB atoms. The rule says "fails"
   (the product 8602518481 * 2144342278 exceeds 2^32 - 1, indeed 2^64); the code succeeds. *)
Definition f6_op : bytes := [127; 208; 17; 5; 128].
Definition f6_lens : list (option N) := [Some 1048576; Some 1048576].

Lemma f6_model : unknown_cost f6_op f6_lens false U64_MAX = Ok 2375088102.
Proof. vm_compute. reflexivity. Qed.
Lemma f6_spec : unknown_spec f6_op f6_lens false U64_MAX = None.
Proof. vm_compute. reflexivity. Qed.
Lemma f6_wraps : wraps64 f6_op f6_lens false U64_MAX.
Proof.
  right. split; [reflexivity|]. exists 8602518481. split; [vm_compute; reflexivity|].
  vm_compute. discriminate.
Qed.
Lemma f6_new : unknown_cost f6_op f6_lens true U64_MAX = Err CostExceeded.
Proof. vm_compute. reflexivity. Qed.

(* op_unknown / unknown_operator on argument trees *)
Lemma op_unknown_lens o f args m :
  res_opt (op_unknown o f args m) =
  option_map (fun c => (c, nil_s)) (res_opt (unknown_cost o (arg_lens args) (f_new_cost_model f) m)).
Proof. unfold op_unknown. destruct (unknown_cost _ _ _ _); reflexivity. Qed.

Lemma unknown_operator_strict o f args m :
  f_no_unknown_ops f = true -> unknown_operator o f args m = Err Unimplemented.
Proof. intros H. unfold unknown_operator. rewrite H. reflexivity. Qed.

Lemma unknown_operator_lenient o f args m :
  f_no_unknown_ops f = false -> unknown_operator o f args m = op_unknown o f args m.
Proof. intros H. unfold unknown_operator. rewrite H. reflexivity. Qed.

Lemma op_unknown_rule o f args m :
  m < two64 -> ~ wraps64 o (arg_lens args) (f_new_cost_model f) m ->
  res_opt (op_unknown o f args m) =
  option_map (fun c => (c, nil_s)) (unknown_spec o (arg_lens args) (f_new_cost_model f) m).
Proof. intros Hm Hw. rewrite op_unknown_lens. f_equal. exact (unknown_cost_rule _ _ _ _ Hm Hw). Qed.

Lemma f6_refutes : exists op lens m,
  m < two64 /\ wraps64 op lens false m /\
  unknown_spec op lens false m = None /\ unknown_cost op lens false m = Ok 2375088102 /\
  unknown_cost op lens true m = Err CostExceeded.
Proof.
  exists f6_op, f6_lens, U64_MAX.
  exact (conj (eq_refl : (U64_MAX ?= two64) = Lt) (conj f6_wraps (conj f6_spec (conj f6_model f6_new)))).
Qed.

Lemma unknown_operator_modes o f args m :
  (f_no_unknown_ops f = true -> unknown_operator o f args m = Err Unimplemented) /\
  (f_no_unknown_ops f = false -> unknown_operator o f args m = op_unknown o f args m).
Proof. split; [apply unknown_operator_strict | apply unknown_operator_lenient]. Qed.

Lemma unknown_witness :
  let op := [60; 128] in let lens := [Some 1000; Some 70000] in
  ~ wraps64 op lens false 11000000000 /\
  unknown_spec op lens false 11000000000 = Some 59404972 /\
  unknown_cost op lens false 11000000000 = Ok 59404972 /\
  unknown_spec op [Some 1000; None] false 11000000000 = None /\
  unknown_cost op [Some 1000; None] false 11000000000 = Err (InvalidOpArg 0).
Proof.
  cbv zeta. split; [|vm_compute; repeat split].
  intros [[s H]|[_ [b [Hb Hw]]]]; [vm_compute in H; discriminate|].
  vm_compute in Hb. apply Some_inj in Hb. subst b. vm_compute in Hw. apply Hw. reflexivity.
Qed.
