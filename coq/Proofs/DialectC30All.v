(* C30 for every flag word: RuntimeDialect keeps the flag word as given and hands it to the
   operators; ChiaDialect::new clears LIMITS under NEW_COST_MODEL, reads ENABLE_GC (gc_candidate)
   and reads DISABLE_OP in its dispatch (modpow). With Proofs/DialectLimits ([flags_sim]: the bits
   no operator can observe) the barrier argument of Proofs/DialectC30 no longer needs the two
   dialects to hold the same flag record.

   [runtime_matches_chia_all]  RuntimeDialect F  vs  ChiaDialect (F minus ENABLE_GC, DISABLE_OP),
                               for every F with NEW_COST_MODEL or without DISABLE_OP;
   [minus_disable_op_refuted]  the remaining class (DISABLE_OP without NEW_COST_MODEL) is a real
                               difference: op_div/op_divmod/op_mod themselves read DISABLE_OP
                               (dividend longer than 2048 bytes), RuntimeDialect hands it to them;
   [runtime_matches_chia_gc]   for EVERY F: RuntimeDialect F vs ChiaDialect (F minus ENABLE_GC),
                               the barrier also closing opcode 60 under DISABLE_OP without
                               NEW_COST_MODEL (ChiaDialect's dispatch disables modpow there). *)
From Coq Require Import Lia ZifyBool ZifyN ZifyNat.
From Clvm Require Import Model.Dialect Proofs.MachineBasics Proofs.MachineRestrict Proofs.DialectC30
  Proofs.DialectLimits.
Open Scope N_scope.

Definition minus_gc (f : flagset) : flagset :=
  {| f_canonical_ints := f_canonical_ints f; f_no_unknown_ops := f_no_unknown_ops f;
     f_limit_heap := f_limit_heap f; f_relaxed_bls := f_relaxed_bls f;
     f_limit_softfork := f_limit_softfork f; f_enable_gc := false;
     f_limits := f_limits f; f_keccak_outside_guard := f_keccak_outside_guard f;
     f_disable_op := f_disable_op f; f_sha256_tree := f_sha256_tree f;
     f_secp_ops := f_secp_ops f; f_malachite := f_malachite f;
     f_new_cost_model := f_new_cost_model f |}.

Definition minus_gc_disable_op (f : flagset) : flagset :=
  {| f_canonical_ints := f_canonical_ints f; f_no_unknown_ops := f_no_unknown_ops f;
     f_limit_heap := f_limit_heap f; f_relaxed_bls := f_relaxed_bls f;
     f_limit_softfork := f_limit_softfork f; f_enable_gc := false;
     f_limits := f_limits f; f_keccak_outside_guard := f_keccak_outside_guard f;
     f_disable_op := false; f_sha256_tree := f_sha256_tree f;
     f_secp_ops := f_secp_ops f; f_malachite := f_malachite f;
     f_new_cost_model := f_new_cost_model f |}.

(* ChiaDialect's dispatch disables modpow (60) under DISABLE_OP without NEW_COST_MODEL *)
Definition modpow_disabled (f : flagset) : bool := f_disable_op f && negb (f_new_cost_model f).

Definition common_gc_b (flags : flagset) (b : bytes) : bool :=
  common_b flags b && negb (modpow_disabled flags && bytes_eqb b [60]).

Lemma tables_agree2 P flags x : modpow_disabled flags = false \/ x <> 60 -> inb x RUNTIME_CODES = true ->
  exists f, chia_table P flags x = Some (Ok f) /\ runtime_table P x = Some f.
Proof.
  intros Hd H. unfold inb, RUNTIME_CODES in H. cbn [existsb] in H. unfold modpow_disabled in Hd.
  repeat (apply orb_prop in H; destruct H as [H|H];
          [apply N.eqb_eq in H; subst x; unfold chia_table;
           try (destruct Hd as [Hd|Hd]; [rewrite Hd|exfalso; apply Hd; reflexivity]);
           eexists; split; reflexivity|]).
  discriminate.
Qed.

Lemma bytes_eqb_single x y : bytes_eqb [x] [y] = (x =? y).
Proof. unfold bytes_eqb. cbn. rewrite andb_true_r. reflexivity. Qed.

Lemma dispatch_agree2 P flags b a m ext : common_gc_b flags b = true ->
  chia_op P true flags (Atom b) a m OsDefault = runtime_op P flags (Atom b) a m ext.
Proof.
  intros Hc0. unfold common_gc_b in Hc0. apply andb_prop in Hc0 as [Hc Hm].
  destruct (modpow_disabled flags) eqn:Hd.
  2:{ (* the dispatch functions agree as in the DISABLE_OP-free case *)
      clear Hm. unfold chia_op, runtime_op. cbn [op_flags].
      destruct b as [|x [|y r]].
      - reflexivity.
      - cbn [length Nat.eqb negb]. rewrite small_number_byte. unfold common_b in Hc.
        destruct (inb x RUNTIME_CODES) eqn:R.
        + rewrite (codes_small x (or_introl R)).
          destruct (tables_agree2 P flags x (or_introl Hd) R) as (f & -> & ->). reflexivity.
        + (* outside the table the DISABLE_OP bit is not read: reuse the proved case *)
          rewrite (runtime_table_none P x R).
          destruct ((x =? 0) || (128 <=? x)); [reflexivity|].
          destruct (inb x CHIA_EXTRA_CODES) eqn:X.
          * unfold inb, CHIA_EXTRA_CODES in X. cbn [existsb] in X.
            destruct (x =? 48) eqn:E48; [discriminate|].
            destruct (x =? 62) eqn:E62.
            { apply N.eqb_eq in E62; subst x. unfold chia_table. destruct (f_keccak_outside_guard flags); [discriminate|reflexivity]. }
            destruct (x =? 63) eqn:E63.
            { apply N.eqb_eq in E63; subst x. unfold chia_table. destruct (f_sha256_tree flags); [discriminate|reflexivity]. }
            destruct (x =? 64) eqn:E64.
            { apply N.eqb_eq in E64; subst x. unfold chia_table. destruct (f_secp_ops flags); [discriminate|reflexivity]. }
            destruct (x =? 65) eqn:E65.
            { apply N.eqb_eq in E65; subst x. unfold chia_table. destruct (f_secp_ops flags); [discriminate|reflexivity]. }
            cbn in X. discriminate.
          * rewrite (chia_table_none P flags x R X). reflexivity.
      - unfold common_b in Hc. apply negb_true_iff in Hc. apply orb_false_iff in Hc as [H1 H2].
        cbn [andb]. rewrite H1, H2.
        destruct (length (x :: y :: r) =? 4)%nat; [reflexivity|].
        destruct (negb (length (x :: y :: r) =? 1)%nat) eqn:L; [reflexivity|].
        cbn in L. discriminate. }
  (* DISABLE_OP without NEW_COST_MODEL: b is not [60] *)
  cbn [andb] in Hm. apply negb_true_iff in Hm.
  unfold chia_op, runtime_op. cbn [op_flags].
  destruct b as [|x [|y r]].
  - reflexivity.
  - rewrite bytes_eqb_single in Hm. apply N.eqb_neq in Hm.
    cbn [length Nat.eqb negb]. rewrite small_number_byte. unfold common_b in Hc.
    destruct (inb x RUNTIME_CODES) eqn:R.
    + rewrite (codes_small x (or_introl R)).
      destruct (tables_agree2 P flags x (or_intror Hm) R) as (f & -> & ->). reflexivity.
    + rewrite (runtime_table_none P x R).
      destruct ((x =? 0) || (128 <=? x)); [reflexivity|].
      destruct (inb x CHIA_EXTRA_CODES) eqn:X.
      * unfold inb, CHIA_EXTRA_CODES in X. cbn [existsb] in X.
        destruct (x =? 48) eqn:E48; [discriminate|].
        destruct (x =? 62) eqn:E62.
        { apply N.eqb_eq in E62; subst x. unfold chia_table. destruct (f_keccak_outside_guard flags); [discriminate|reflexivity]. }
        destruct (x =? 63) eqn:E63.
        { apply N.eqb_eq in E63; subst x. unfold chia_table. destruct (f_sha256_tree flags); [discriminate|reflexivity]. }
        destruct (x =? 64) eqn:E64.
        { apply N.eqb_eq in E64; subst x. unfold chia_table. destruct (f_secp_ops flags); [discriminate|reflexivity]. }
        destruct (x =? 65) eqn:E65.
        { apply N.eqb_eq in E65; subst x. unfold chia_table. destruct (f_secp_ops flags); [discriminate|reflexivity]. }
        cbn in X. discriminate.
      * rewrite (chia_table_none P flags x R X). reflexivity.
  - unfold common_b in Hc. apply negb_true_iff in Hc. apply orb_false_iff in Hc as [H1 H2].
    cbn [andb]. rewrite H1, H2.
    destruct (length (x :: y :: r) =? 4)%nat; [reflexivity|].
    destruct (negb (length (x :: y :: r) =? 1)%nat) eqn:L; [reflexivity|].
    cbn in L. discriminate.
Qed.

(* the barrier dialect, for any set [bar] of dispatched operator atoms: RuntimeDialect's dispatch
   on the flag record F as given, Err Unsupported elsewhere and on the softfork keyword *)
Definition barrier_op (P : prims) (flags : flagset) (bar : bytes -> bool) (o a : sexp) (m : N) (ext : opset)
  : res (N * sexp) :=
  match ext, o with
  | OsDefault, Atom b =>
      if bar b && negb (bytes_eqb b [36]) then runtime_op P flags o a m ext
      else Err Unsupported
  | _, _ => Err Unsupported
  end.

Definition barrier_dialect (P : prims) (flags : flagset) (bar : bytes -> bool) : dialect :=
  {| d_flags := flags; d_quote := 1; d_apply := 2; d_softfork := NO_KEYWORD;
     d_ext := fun _ => OsDefault;
     d_allow_unknown := negb (f_no_unknown_ops flags);
     d_gc := fun _ => false;
     d_op := barrier_op P flags bar |}.

Lemma common_is_barrier P flags : common_dialect P flags = barrier_dialect P flags (common_b flags).
Proof. reflexivity. Qed.

Definition common_gc_dialect (P : prims) (flags : flagset) : dialect :=
  barrier_dialect P flags (common_gc_b flags).

Lemma common_b_sim f f' b : flags_sim f f' -> common_b f b = common_b f' b.
Proof.
  intros (_&_&_&_&_&H6&H7&H8&_). unfold common_b. rewrite H6, H7, H8. reflexivity.
Qed.

Lemma modpow_disabled_sim f f' : flags_sim f f' -> modpow_disabled f = modpow_disabled f'.
Proof.
  intros (_&_&_&_&_&_&_&_&_&Hn&Hlim). unfold modpow_disabled. rewrite <- Hn.
  destruct (f_new_cost_model f); [rewrite !andb_false_r; reflexivity|].
  destruct (Hlim eq_refl) as [_ ->]. reflexivity.
Qed.

Section Gen.
  Variable P : prims.
  Variables F G : flagset.          (* RuntimeDialect is built with F, ChiaDialect with G *)
  Variable bar : bytes -> bool.
  Hypothesis Hsim : flags_sim F (dialect_flags G).
  Hypothesis Hgc : f_enable_gc G = false.
  Hypothesis Hbar : forall b, bar b = true -> common_gc_b (dialect_flags G) b = true.

  Lemma barrier_barred d2 : d_softfork d2 = 36 -> guards_barred (barrier_dialect P F bar) d2 barrier.
  Proof.
    intros H36. split.
    - intros opr. apply is_kw_no_keyword.
    - intros opr a m ext K. rewrite H36 in K. apply is_kw_36 in K. subst opr.
      exists Unsupported. split; [|reflexivity].
      cbn [d_op barrier_dialect]. unfold barrier_op. destruct ext; try reflexivity.
      rewrite andb_false_r. reflexivity.
  Qed.

  Lemma barrier_vs_runtime fuel p e M :
    rr barrier (run_program (barrier_dialect P F bar) fuel p e M) (run_program (runtime_dialect P F) fuel p e M).
  Proof.
    apply run_program_rel; try reflexivity.
    - intros o a m ext. cbn [d_op barrier_dialect runtime_dialect]. unfold barrier_op.
      destruct ext; try (left; reflexivity). destruct o as [b|]; [|left; reflexivity].
      destruct (_ && _)%bool; [apply rr_refl|left; reflexivity].
    - left. apply barrier_barred. reflexivity.
  Qed.

  Lemma dialect_flags_gc f : f_enable_gc (dialect_flags f) = f_enable_gc f.
  Proof. unfold dialect_flags. destruct (f_new_cost_model f); reflexivity. Qed.

  Lemma barrier_vs_chia fuel p e M :
    rr barrier (run_program (barrier_dialect P F bar) fuel p e M) (run_program (chia_dialect P G) fuel p e M).
  Proof.
    apply run_program_rel; try reflexivity.
    - intros o. cbn [d_gc barrier_dialect chia_dialect]. unfold gc_candidate.
      rewrite dialect_flags_gc, Hgc. reflexivity.
    - intros o a m ext. cbn [d_op barrier_dialect chia_dialect]. unfold barrier_op.
      destruct ext; try (left; reflexivity). destruct o as [b|]; [|left; reflexivity].
      destruct (bar b && negb (bytes_eqb b [36]))%bool eqn:C; [|left; reflexivity].
      apply andb_prop in C as [C _].
      rewrite (runtime_op_mask P F (dialect_flags G) (Atom b) a m OsDefault Hsim).
      rewrite (dispatch_agree2 P (dialect_flags G) b a m OsDefault (Hbar b C)). apply rr_refl.
    - left. apply barrier_barred. reflexivity.
  Qed.

  Theorem barrier_runs_agree fuel p e M :
    run_program (barrier_dialect P F bar) fuel p e M <> Err Unsupported ->
    run_program (runtime_dialect P F) fuel p e M = run_program (barrier_dialect P F bar) fuel p e M /\
    run_program (chia_dialect P G) fuel p e M = run_program (barrier_dialect P F bar) fuel p e M.
  Proof.
    intros H. pose proof (barrier_vs_runtime fuel p e M) as R1. pose proof (barrier_vs_chia fuel p e M) as R2.
    destruct (run_program (barrier_dialect P F bar) fuel p e M) as [r|err]; cbn in R1, R2.
    - split; assumption.
    - destruct R1 as [B|R1]; [unfold barrier in B; subst; contradiction|].
      destruct R2 as [B|R2]; [unfold barrier in B; subst; contradiction|]. split; assumption.
  Qed.
End Gen.

(* ---- RuntimeDialect F vs ChiaDialect (F minus ENABLE_GC and DISABLE_OP) ---- *)
Lemma sim_minus_gc_disable_op F : f_disable_op F = false \/ f_new_cost_model F = true ->
  flags_sim F (dialect_flags (minus_gc_disable_op F)).
Proof.
  intros Hcls. eapply flags_sim_trans; [|apply flags_sim_dialect_flags].
  repeat split; try reflexivity; cbn; destruct Hcls; congruence.
Qed.

Theorem runtime_matches_chia_all P F : f_disable_op F = false \/ f_new_cost_model F = true ->
  forall fuel p e M,
  run_program (common_dialect P F) fuel p e M <> Err Unsupported ->
  run_program (runtime_dialect P F) fuel p e M = run_program (common_dialect P F) fuel p e M /\
  run_program (chia_dialect P (minus_gc_disable_op F)) fuel p e M = run_program (common_dialect P F) fuel p e M.
Proof.
  intros Hcls fuel p e M. rewrite common_is_barrier.
  pose proof (sim_minus_gc_disable_op F Hcls) as Hs.
  apply barrier_runs_agree; [exact Hs|reflexivity|].
  intros b Hb. unfold common_gc_b. rewrite <- (common_b_sim _ _ b Hs), Hb.
  rewrite <- (modpow_disabled_sim _ _ Hs). unfold modpow_disabled.
  destruct Hcls as [-> | ->]; [reflexivity|rewrite andb_false_r; reflexivity].
Qed.

Corollary runtime_eq_chia_all P F : f_disable_op F = false \/ f_new_cost_model F = true ->
  forall fuel p e M,
  run_program (common_dialect P F) fuel p e M <> Err Unsupported ->
  run_program (runtime_dialect P F) fuel p e M = run_program (chia_dialect P (minus_gc_disable_op F)) fuel p e M.
Proof.
  intros Hcls fuel p e M H. destruct (runtime_matches_chia_all P F Hcls fuel p e M H) as [A B]. congruence.
Qed.

(* the form with the same flag record on both sides (F contains neither ENABLE_GC nor DISABLE_OP) *)
Lemma minus_gc_disable_op_id F : f_enable_gc F = false -> f_disable_op F = false -> minus_gc_disable_op F = F.
Proof. destruct F. cbn. intros -> ->. reflexivity. Qed.

Theorem runtime_matches_chia_same P F : f_enable_gc F = false -> f_disable_op F = false ->
  forall fuel p e M,
  run_program (common_dialect P F) fuel p e M <> Err Unsupported ->
  run_program (runtime_dialect P F) fuel p e M = run_program (common_dialect P F) fuel p e M /\
  run_program (chia_dialect P F) fuel p e M = run_program (common_dialect P F) fuel p e M.
Proof.
  intros Hgc Hd fuel p e M H.
  pose proof (runtime_matches_chia_all P F (or_introl Hd) fuel p e M H) as R.
  rewrite (minus_gc_disable_op_id F Hgc Hd) in R. exact R.
Qed.

(* ---- RuntimeDialect F vs ChiaDialect (F minus ENABLE_GC), every F ---- *)
Lemma sim_minus_gc F : flags_sim F (dialect_flags (minus_gc F)).
Proof.
  eapply flags_sim_trans; [|apply flags_sim_dialect_flags].
  repeat split; reflexivity.
Qed.

Theorem runtime_matches_chia_gc P F fuel p e M :
  run_program (common_gc_dialect P F) fuel p e M <> Err Unsupported ->
  run_program (runtime_dialect P F) fuel p e M = run_program (common_gc_dialect P F) fuel p e M /\
  run_program (chia_dialect P (minus_gc F)) fuel p e M = run_program (common_gc_dialect P F) fuel p e M.
Proof.
  unfold common_gc_dialect. pose proof (sim_minus_gc F) as Hs.
  apply barrier_runs_agree; [exact Hs|reflexivity|].
  intros b Hb. unfold common_gc_b in *. rewrite <- (common_b_sim _ _ b Hs), <- (modpow_disabled_sim _ _ Hs). exact Hb.
Qed.

(* ---- flag words ---- *)
Lemma has_pow2 w k : has w (2 ^ k) = N.testbit w k.
Proof.
  unfold has. destruct (N.testbit w k) eqn:T.
  - apply negb_true_iff, N.eqb_neq. intros Z.
    assert (B : N.testbit (N.land w (2 ^ k)) k = true) by (rewrite N.land_spec, T, N.pow2_bits_true; reflexivity).
    rewrite Z, N.bits_0 in B. discriminate.
  - apply negb_false_iff, N.eqb_eq. apply N.bits_inj. intros n.
    rewrite N.land_spec, N.bits_0, N.pow2_bits_eqb.
    destruct (k =? n) eqn:E; [apply N.eqb_eq in E; subst n; rewrite T; reflexivity|apply andb_false_r].
Qed.

Lemma has_ldiff w m k : has (N.ldiff w m) (2 ^ k) = has w (2 ^ k) && negb (N.testbit m k).
Proof. rewrite !has_pow2, N.ldiff_spec. reflexivity. Qed.

Definition GC_DISABLE_OP_BITS : N := N.lor BIT_ENABLE_GC BIT_DISABLE_OP.   (* 0x220 *)

Lemma flags_of_N_minus w : flags_of_N (N.ldiff w GC_DISABLE_OP_BITS) = minus_gc_disable_op (flags_of_N w).
Proof.
  unfold flags_of_N, minus_gc_disable_op; cbn [f_canonical_ints f_no_unknown_ops f_limit_heap f_relaxed_bls
    f_limit_softfork f_enable_gc f_limits f_keccak_outside_guard f_disable_op f_sha256_tree f_secp_ops f_malachite
    f_new_cost_model].
  change BIT_CANONICAL_INTS with (2 ^ 0). change BIT_NO_UNKNOWN_OPS with (2 ^ 1). change BIT_LIMIT_HEAP with (2 ^ 2).
  change BIT_RELAXED_BLS with (2 ^ 3). change BIT_LIMIT_SOFTFORK with (2 ^ 4). change BIT_ENABLE_GC with (2 ^ 5).
  change BIT_LIMITS with (2 ^ 6). change BIT_KECCAK_OUTSIDE_GUARD with (2 ^ 8). change BIT_DISABLE_OP with (2 ^ 9).
  change BIT_SHA256_TREE with (2 ^ 10). change BIT_SECP_OPS with (2 ^ 11). change BIT_MALACHITE with (2 ^ 12).
  change BIT_NEW_COST_MODEL with (2 ^ 13).
  rewrite !has_ldiff.
  change (N.testbit GC_DISABLE_OP_BITS 0) with false. change (N.testbit GC_DISABLE_OP_BITS 1) with false.
  change (N.testbit GC_DISABLE_OP_BITS 2) with false. change (N.testbit GC_DISABLE_OP_BITS 3) with false.
  change (N.testbit GC_DISABLE_OP_BITS 4) with false. change (N.testbit GC_DISABLE_OP_BITS 5) with true.
  change (N.testbit GC_DISABLE_OP_BITS 6) with false. change (N.testbit GC_DISABLE_OP_BITS 8) with false.
  change (N.testbit GC_DISABLE_OP_BITS 9) with true. change (N.testbit GC_DISABLE_OP_BITS 10) with false.
  change (N.testbit GC_DISABLE_OP_BITS 11) with false. change (N.testbit GC_DISABLE_OP_BITS 12) with false.
  change (N.testbit GC_DISABLE_OP_BITS 13) with false.
  cbn [negb]. rewrite !andb_true_r, !andb_false_r. reflexivity.
Qed.

Theorem run_runtime_eq_run_chia P w : has w BIT_DISABLE_OP = false \/ has w BIT_NEW_COST_MODEL = true ->
  forall fuel p e M,
  run_program (common_dialect P (flags_of_N w)) fuel p e M <> Err Unsupported ->
  run_runtime P fuel w p e M = run_chia P fuel (N.ldiff w GC_DISABLE_OP_BITS) p e M.
Proof.
  intros Hcls fuel p e M H. unfold run_runtime, run_chia. rewrite flags_of_N_minus.
  apply runtime_eq_chia_all; assumption.
Qed.

(* ---- the class left out above is a genuine difference ----
   (/ (q . 0x0101..01 [2049 bytes]) (q . 3)): under DISABLE_OP without NEW_COST_MODEL op_div
   rejects a dividend longer than 2048 bytes; RuntimeDialect hands DISABLE_OP to op_div,
   ChiaDialect built without DISABLE_OP does not. *)
Definition div_2049 : sexp :=
  Cons (Atom [19]) (Cons (Cons (Atom [1]) (Atom (repeat 1 2049))) (Cons (Cons (Atom [1]) (Atom [3])) (Atom []))).

Theorem minus_disable_op_refuted P :
  has BIT_DISABLE_OP BIT_DISABLE_OP = true /\ has BIT_DISABLE_OP BIT_NEW_COST_MODEL = false /\
  run_program (common_dialect P (flags_of_N BIT_DISABLE_OP)) 100 div_2049 (Atom []) 0 = Err (InvalidOpArg 0) /\
  run_runtime P 100 BIT_DISABLE_OP div_2049 (Atom []) 0 = Err (InvalidOpArg 0) /\
  exists v, run_chia P 100 (N.ldiff BIT_DISABLE_OP GC_DISABLE_OP_BITS) div_2049 (Atom []) 0 = Ok (29709, v).
Proof.
  split; [reflexivity|]. split; [reflexivity|].
  split; [vm_compute; reflexivity|]. split; [vm_compute; reflexivity|].
  eexists. vm_compute. reflexivity.
Qed.

(* under NEW_COST_MODEL the same program agrees (DISABLE_OP is not read) *)
Example div_2049_new_cost_model P :
  let w := N.lor BIT_DISABLE_OP (N.lor BIT_NEW_COST_MODEL (N.lor BIT_LIMITS BIT_ENABLE_GC)) in
  exists v, run_runtime P 100 w div_2049 (Atom []) 0 = Ok (124225, v) /\
            run_chia P 100 (N.ldiff w GC_DISABLE_OP_BITS) div_2049 (Atom []) 0 = Ok (124225, v).
Proof. eexists. split; vm_compute; reflexivity. Qed.

(* the other side of the DISABLE_OP class: ChiaDialect's dispatch disables modpow, RuntimeDialect's
   does not. (modpow (q . 2) (q . 77) (q . 1000003)) *)
Definition modpow_2_77 : sexp :=
  Cons (Atom [60]) (Cons (Cons (Atom [1]) (Atom [2])) (Cons (Cons (Atom [1]) (Atom [77]))
    (Cons (Cons (Atom [1]) (Atom [15; 66; 67])) (Atom [])))).

Theorem modpow_disabled_differs P :
  run_runtime P 100 BIT_DISABLE_OP modpow_2_77 (Atom []) 0 = Ok (17321, Atom [12; 128; 88]) /\
  run_chia P 100 BIT_DISABLE_OP modpow_2_77 (Atom []) 0 = Err Unimplemented /\
  run_chia P 100 0 modpow_2_77 (Atom []) 0 = Ok (17321, Atom [12; 128; 88]).
Proof. vm_compute. repeat split. Qed.

(* non-vacuity witnesses of Props/C30.v (computed here so that re-checking Props stays cheap) *)
Lemma witness_limits : forall P,
  let w := N.lor BIT_NEW_COST_MODEL (N.lor BIT_LIMITS (N.lor BIT_DISABLE_OP BIT_ENABLE_GC)) in
  let q x := Cons (Atom [1]) x in
  let prog := Cons (Atom [18]) (Cons (q (Atom (repeat 1 300))) (Cons (q (Atom [3])) (Atom []))) in
  (has w BIT_DISABLE_OP = false \/ has w BIT_NEW_COST_MODEL = true) /\
  has w BIT_LIMITS = true /\ dialect_flags (flags_of_N w) <> flags_of_N w /\
  exists v,
  run_program (common_dialect P (flags_of_N w)) 100 prog (Atom []) 0 = Ok (9550, v) /\
  run_runtime P 100 w prog (Atom []) 0 = Ok (9550, v) /\
  run_chia P 100 (N.ldiff w GC_DISABLE_OP_BITS) prog (Atom []) 0 = Ok (9550, v) /\
  run_runtime P 100 BIT_LIMITS prog (Atom []) 0 = Err (InvalidOpArg 0) /\
  run_chia P 100 BIT_LIMITS prog (Atom []) 0 = Err (InvalidOpArg 0).
Proof.
  intros P w q prog. split; [right; reflexivity|]. split; [reflexivity|]. split; [vm_compute; discriminate|].
  eexists. split; [vm_compute; reflexivity|]. split; [vm_compute; reflexivity|].
  split; [vm_compute; reflexivity|]. split; vm_compute; reflexivity.
Qed.

Lemma witness_disable_op : forall P,
  let F := flags_of_N (N.lor BIT_DISABLE_OP BIT_ENABLE_GC) in
  run_program (common_gc_dialect P F) 100 div_2049 (Atom []) 0 = Err (InvalidOpArg 0) /\
  run_program (runtime_dialect P F) 100 div_2049 (Atom []) 0 = Err (InvalidOpArg 0) /\
  run_program (chia_dialect P (minus_gc F)) 100 div_2049 (Atom []) 0 = Err (InvalidOpArg 0) /\
  run_program (common_gc_dialect P F) 100 modpow_2_77 (Atom []) 0 = Err Unsupported.
Proof.
  intros P F. split; [vm_compute; reflexivity|]. split; [vm_compute; reflexivity|].
  split; vm_compute; reflexivity.
Qed.
