(* Totality of the back-reference serializer (Model/SerBR.v, Model/ReadCache.v): on every tree
   whose atoms are shorter than 2^32 - 5 bytes and which has at most (2^32 - 2) / 6 nodes,
   node_to_bytes_backrefs returns bytes:
     - the breadth-first search never runs out of its fuel ([bfs_total]: every level but the last
       marks a parent edge that was not marked before);
     - no reference count underflows ([CInv]: the counts dominate the multiset of hashes that the
       read stack will decrement) and none overflows u32 (their sum grows by at most 6 per node);
     - the op stack has a Parse on top whenever a node is taken off the write stack, and the loop
       fuel 2 n + 1 is enough ([ser_node_total], by structural recursion on the tree). *)
From Clvm Require Import Model.BackRef Model.ReadCache Model.SerBR Proofs.BytesLemmas Proofs.ClassicAtoms
  Proofs.ClassicProofs Proofs.ClassicWriter Proofs.BackRefBasics Proofs.BackRefEmit Proofs.ReadCacheProofs
  Proofs.SerBRProofs.
From Coq Require Import Lia ZifyBool ZifyN ZifyNat List.
Import ListNotations.
Open Scope N_scope.
Arguments N.add : simpl never.
Arguments N.sub : simpl never.
Arguments N.mul : simpl never.
Arguments N.eqb : simpl never.
Arguments N.ltb : simpl never.
Arguments N.leb : simpl never.
Arguments N.div : simpl never.
Arguments N.modulo : simpl never.
Arguments stack_list : simpl never.

Definition U32MAX : N := 4294967295.

(* ------------------------------------------------------------------ reference counts *)

Lemma count_of_update c k f k' :
  count_of (alist_update c k 0 f) k' = if bytes_eqb k k' then f (count_of c k) else count_of c k'.
Proof. unfold count_of. rewrite alist_get_update. destruct (bytes_eqb k k'); reflexivity. Qed.

Lemma count_of_inc c k k' :
  count_of (alist_update c k 0 (fun n => n + 1)) k' = if bytes_eqb k k' then count_of c k + 1 else count_of c k'.
Proof. apply count_of_update. Qed.

Lemma count_of_dec c k k' :
  count_of (alist_update c k 0 (fun n => n - 1)) k' = if bytes_eqb k k' then count_of c k - 1 else count_of c k'.
Proof. apply count_of_update. Qed.

Ltac beq_cases :=
  repeat match goal with |- context [bytes_eqb ?x ?y] => let E := fresh "E" in destruct (bytes_eqb x y) eqn:E end;
  repeat match goal with H : bytes_eqb _ _ = true |- _ => apply bytes_eqb_eq in H end; subst;
  rewrite ?bytes_eqb_refl in *; try discriminate; try lia.

Fixpoint total (c : list (bytes * N)) : N :=
  match c with [] => 0 | kv :: r => snd kv + total r end.

Lemma count_of_le_total c k : count_of c k <= total c.
Proof.
  unfold count_of. induction c as [|[k0 v0] c IH]; cbn [alist_get total snd]; [lia|].
  destruct (bytes_eqb k0 k); lia.
Qed.

Lemma total_inc c k : total (alist_update c k 0 (fun n => n + 1)) = total c + 1.
Proof.
  induction c as [|[k0 v0] c IH]; cbn [alist_update total snd]; [lia|].
  destruct (bytes_eqb k0 k); cbn [total snd]; lia.
Qed.

Lemma total_dec c k : total (alist_update c k 0 (fun n => n - 1)) <= total c.
Proof.
  induction c as [|[k0 v0] c IH]; cbn [alist_update total snd]; [lia|].
  destruct (bytes_eqb k0 k); cbn [total snd]; lia.
Qed.

Lemma count_inc_ok c k : total c < U32MAX ->
  count_inc c k = Ok (alist_update c k 0 (fun n => n + 1)).
Proof.
  intros Ht. unfold count_inc. pose proof (count_of_le_total c k).
  replace (4294967295 <=? count_of c k) with false by (unfold U32MAX in *; lia). reflexivity.
Qed.

Lemma count_dec_inv c k c' : count_dec c k = Ok c' ->
  count_of c k <> 0 /\ c' = alist_update c k 0 (fun n => n - 1).
Proof.
  unfold count_dec. destruct (count_of c k =? 0) eqn:E; [discriminate|].
  intros H. injection H as <-. split; [lia|reflexivity].
Qed.

Lemma count_dec_ok c k : count_of c k <> 0 -> count_dec c k = Ok (alist_update c k 0 (fun n => n - 1)).
Proof. intros Hn. unfold count_dec. replace (count_of c k =? 0) with false by lia. reflexivity. Qed.

(* [dom c l]: the keys of l can be decremented one after the other *)
Fixpoint dom (c : list (bytes * N)) (l : list bytes) : Prop :=
  match l with
  | [] => True
  | k :: r => exists c', count_dec c k = Ok c' /\ dom c' r
  end.

Definition cle (c c' : list (bytes * N)) : Prop := forall k, count_of c k <= count_of c' k.

Lemma dom_mono : forall l c c', cle c c' -> dom c l -> dom c' l.
Proof.
  induction l as [|a l IH]; intros c c' Hle Hd; [exact I|].
  destruct Hd as (c1 & E & Hd). destruct (count_dec_inv _ _ _ E) as [Hn ->].
  assert (Hn' : count_of c' a <> 0) by (specialize (Hle a); lia).
  eexists. split; [apply count_dec_ok; exact Hn'|].
  eapply IH; [|exact Hd]. intros k. rewrite ?count_of_inc, ?count_of_dec.
  destruct (bytes_eqb a k) eqn:Ek; [|apply Hle].
  apply bytes_eqb_eq in Ek. subst k. specialize (Hle a). lia.
Qed.

Lemma dom_swap a b l c : dom c (a :: b :: l) -> dom c (b :: a :: l).
Proof.
  intros (c1 & E1 & c2 & E2 & Hd).
  destruct (count_dec_inv _ _ _ E1) as [Ha ->]. destruct (count_dec_inv _ _ _ E2) as [Hb ->].
  rewrite count_of_dec in Hb.
  assert (Hb' : count_of c b <> 0).
  { destruct (bytes_eqb a b) eqn:Eab; [|exact Hb]. apply bytes_eqb_eq in Eab. subst b. lia. }
  eexists. split; [apply count_dec_ok; exact Hb'|].
  assert (Ha' : count_of (alist_update c b 0 (fun n => n - 1)) a <> 0).
  { rewrite count_of_dec. destruct (bytes_eqb b a) eqn:Eba; [|exact Ha].
    apply bytes_eqb_eq in Eba. subst b. rewrite bytes_eqb_refl in Hb. lia. }
  eexists. split; [apply count_dec_ok; exact Ha'|].
  eapply dom_mono; [|exact Hd]. intros k. repeat (rewrite count_of_inc || rewrite count_of_dec); beq_cases.
Qed.

(* the hashes the read stack will decrement, in the order in which pop does it *)
Fixpoint keys (root : bytes) (st : list (bytes * bytes)) : list bytes :=
  match st with
  | [] => [root]
  | item :: rest => fst item :: root :: keys (snd item) rest
  end.

Definition CInv (s : rcl) : Prop := dom (count s) (keys (root_hash s) (read_stack s)).

Section RclTotal.
  Variable H : bytes -> bytes.

  Lemma CInv_new : CInv (rcl_new H).
  Proof.
    unfold CInv, rcl_new. cbn [count root_hash read_stack keys dom].
    eexists. split; [|exact I]. apply count_dec_ok. unfold count_of. cbn [alist_get].
    rewrite bytes_eqb_refl. lia.
  Qed.

  Lemma push_total s id : CInv s -> total (count s) + 2 <= U32MAX ->
    exists s', rcl_push H s id = Ok s' /\ CInv s' /\ total (count s') = total (count s) + 2.
  Proof.
    intros HC Ht. unfold rcl_push.
    rewrite count_inc_ok by lia. cbn [bind].
    rewrite count_inc_ok by (rewrite total_inc; lia). cbn [bind].
    eexists. split; [reflexivity|]. split; [|cbn [count]; rewrite !total_inc; lia].
    unfold CInv. cbn [count root_hash read_stack keys fst snd].
    set (nr := hash_pair2 H id (root_hash s)). clearbody nr.
    set (c2 := alist_update (alist_update (count s) id 0 (fun n => n + 1)) nr 0 (fun n => n + 1)).
    assert (H1 : count_of c2 id <> 0).
    { subst c2. repeat (rewrite count_of_inc || rewrite count_of_dec); beq_cases. }
    cbn [dom]. eexists. split; [apply count_dec_ok; exact H1|].
    assert (H2 : count_of (alist_update c2 id 0 (fun n => n - 1)) nr <> 0).
    { subst c2. repeat (rewrite count_of_inc || rewrite count_of_dec); beq_cases. }
    eexists. split; [apply count_dec_ok; exact H2|].
    eapply dom_mono; [|exact HC]. intros k. subst c2. repeat (rewrite count_of_inc || rewrite count_of_dec); beq_cases.
  Qed.

  Lemma pop_total s item rest : CInv s -> read_stack s = item :: rest ->
    exists s', rcl_pop s = Ok (item, s') /\ CInv s' /\ total (count s') <= total (count s) /\
               root_hash s' = snd item /\ read_stack s' = rest /\ parent_lookup s' = parent_lookup s.
  Proof.
    intros HC Hs. unfold CInv in HC. rewrite Hs in HC. cbn [keys dom] in HC.
    destruct HC as (c1 & E1 & c2 & E2 & Hd). unfold rcl_pop. rewrite Hs, E1. cbn [bind]. rewrite E2. cbn [bind].
    eexists. split; [reflexivity|]. cbn [count root_hash read_stack parent_lookup].
    split; [exact Hd|]. split; [|auto].
    destruct (count_dec_inv _ _ _ E1) as [_ ->]. destruct (count_dec_inv _ _ _ E2) as [_ ->].
    pose proof (total_dec (count s) (fst item)).
    pose proof (total_dec (alist_update (count s) (fst item) 0 (fun n => n - 1)) (root_hash s)). lia.
  Qed.

  Lemma pop2_total s r l rest : CInv s -> read_stack s = r :: l :: rest -> total (count s) + 4 <= U32MAX ->
    exists s', rcl_pop2_and_cons H s = Ok s' /\ CInv s' /\ total (count s') <= total (count s) + 4.
  Proof.
    intros HC Hs Ht. unfold rcl_pop2_and_cons.
    destruct (pop_total s r (l :: rest) HC Hs) as (s1 & E1 & C1 & T1 & R1 & S1 & P1).
    rewrite E1. cbn [bind].
    destruct (pop_total s1 l rest C1 S1) as (s2 & E2 & C2 & T2 & R2 & S2 & P2).
    rewrite E2. cbn [bind].
    rewrite count_inc_ok by lia. cbn [bind].
    rewrite count_inc_ok by (rewrite total_inc; lia). cbn [bind].
    match goal with |- exists s', rcl_push H ?S ?ID = Ok s' /\ _ => destruct (push_total S ID) as (s3 & E3 & C3 & T3) end.
    - unfold CInv. cbn [count root_hash read_stack]. eapply dom_mono; [|exact C2].
      intros k. generalize (fst l) (fst r). intros ka kb. repeat (rewrite count_of_inc || rewrite count_of_dec); beq_cases.
    - cbn [count]. rewrite !total_inc. lia.
    - exists s3. split; [exact E3|]. split; [exact C3|]. rewrite T3. cbn [count]. rewrite !total_inc. lia.
  Qed.

  (* ------------------------------------------------------------------ the breadth-first search *)

  Definition edges (pl : list (bytes * list (bytes * bool))) : list (bytes * bool) := flat_map snd pl.

  Definition unseen (E : list (bytes * bool)) (seen : list bytes) : nat :=
    length (filter (fun e => negb (seen_contains seen (fst e))) E).

  Lemma filter_len_le {A} (f g : A -> bool) l : (forall x, f x = true -> g x = true) ->
    (length (filter f l) <= length (filter g l))%nat.
  Proof.
    intros Hfg. induction l as [|x l IH]; cbn [filter length]; [lia|].
    destruct (f x) eqn:Ef; [rewrite (Hfg _ Ef); cbn [length]; lia|].
    destruct (g x); cbn [length]; lia.
  Qed.

  Lemma filter_len_lt {A} (f g : A -> bool) l e : (forall x, f x = true -> g x = true) ->
    In e l -> f e = false -> g e = true -> (S (length (filter f l)) <= length (filter g l))%nat.
  Proof.
    intros Hfg Hin Hfe Hge. induction l as [|x l IH]; [destruct Hin|]. cbn [filter].
    destruct Hin as [->|Hin].
    - rewrite Hfe, Hge. cbn [length]. pose proof (filter_len_le f g l Hfg). lia.
    - specialize (IH Hin). destruct (f x) eqn:Ef; [rewrite (Hfg _ Ef); cbn [length]; lia|].
      destruct (g x); cbn [length]; lia.
  Qed.

  Lemma seen_cons_mono p seen (x : bytes * bool) :
    negb (seen_contains (p :: seen) (fst x)) = true -> negb (seen_contains seen (fst x)) = true.
  Proof.
    unfold seen_contains. cbn [existsb]. destruct (bytes_eqb (fst x) p); cbn [orb negb]; [discriminate|auto].
  Qed.

  Lemma unseen_cons_le E p seen : (unseen E (p :: seen) <= unseen E seen)%nat.
  Proof. unfold unseen. apply filter_len_le. apply seen_cons_mono. Qed.

  Lemma unseen_cons_lt E p seen e : In e E -> fst e = p -> seen_contains seen p = false ->
    (S (unseen E (p :: seen)) <= unseen E seen)%nat.
  Proof.
    intros Hin Hp Hs. unfold unseen. apply (filter_len_lt _ _ E e); [apply seen_cons_mono|exact Hin| |].
    - unfold seen_contains. cbn [existsb]. rewrite Hp, bytes_eqb_refl. reflexivity.
    - rewrite Hp, Hs. reflexivity.
  Qed.

  Lemma unseen_le_length E seen : (unseen E seen <= length E)%nat.
  Proof.
    unfold unseen. induction E as [|x l IH]; cbn [filter length]; [lia|].
    destruct (negb _); cbn [length]; lia.
  Qed.

  Lemma alist_get_in {V} (m : list (bytes * list V)) k v : alist_get m k = Some v ->
    forall e, In e v -> In e (flat_map snd m).
  Proof.
    induction m as [|[k0 v0] m IH]; cbn [alist_get flat_map snd]; [discriminate|].
    destruct (bytes_eqb k0 k).
    - intros Hv e He. injection Hv as <-. apply in_or_app. now left.
    - intros Hv e He. apply in_or_app. right. eapply IH; eauto.
  Qed.

  Lemma scan_parents_measure E cnt mpl path : forall items seen acc seen' acc',
    (forall e, In e items -> In e E) ->
    scan_parents cnt mpl path items seen acc = Some (seen', acc') ->
    (length acc' + unseen E seen' <= length acc + unseen E seen)%nat.
  Proof.
    induction items as [|[parent direction] r IH]; intros seen acc seen' acc' Hin Hs; cbn [scan_parents] in Hs.
    - injection Hs as <- <-. lia.
    - assert (Hin' : forall e, In e r -> In e E) by (intros e He; apply Hin; now right).
      destruct ((0 <? count_of cnt parent) && negb (seen_contains seen parent))%bool eqn:C.
      + destruct (mpl <? N.of_nat (length path)); [discriminate|].
        apply (IH _ _ _ _ Hin') in Hs.
        assert (Hsc : seen_contains seen parent = false).
        { apply andb_prop in C. destruct C as [_ C]. destruct (seen_contains seen parent); [discriminate|reflexivity]. }
        pose proof (unseen_cons_lt E parent seen (parent, direction) (Hin _ (or_introl eq_refl)) eq_refl Hsc).
        destruct (N.of_nat (length path) <? mpl); [rewrite app_length in Hs; cbn [length] in Hs|]; lia.
      + apply (IH _ _ _ _ Hin') in Hs. pose proof (unseen_cons_le E parent seen). lia.
  Qed.

  Lemma scan_level_measure s mb mpl : forall partial seen responses next seen' resp' next',
    scan_level s mb mpl partial seen responses next = inl (seen', resp', next') ->
    (length next' + unseen (edges (parent_lookup s)) seen' <= length next + unseen (edges (parent_lookup s)) seen)%nat.
  Proof.
    induction partial as [|[node path] r IH]; intros seen responses next seen' resp' next' Hs; cbn [scan_level] in Hs.
    - injection Hs as <- <- <-. lia.
    - destruct (bytes_eqb node (root_hash s)); [eapply IH; exact Hs|].
      destruct (alist_get (parent_lookup s) node) as [items|] eqn:Eg; [|eapply IH; exact Hs].
      destruct (scan_parents (count s) mpl path items seen next) as [[seen1 next1]|] eqn:Esp; [|discriminate].
      apply IH in Hs.
      pose proof (scan_parents_measure (edges (parent_lookup s)) _ _ _ _ _ _ _ _ (alist_get_in _ _ _ Eg) Esp). lia.
  Qed.

  Lemma bfs_total s mb mpl : forall n fuel partial seen responses,
    (unseen (edges (parent_lookup s)) seen <= n)%nat -> (n + 2 <= fuel)%nat ->
    exists r, bfs fuel s mb mpl partial seen responses = Ok r.
  Proof.
    induction n as [|n IH]; intros fuel partial seen responses Hu Hf;
      (destruct fuel as [|f]; [lia|]); cbn [bfs]; (destruct partial as [|p0 pr]; [eauto|]).
    - destruct (scan_level s mb mpl (p0 :: pr) seen responses []) as [[[seen' resp'] next]|resp] eqn:E1; [|eauto].
      destruct resp'; [|eauto]. pose proof (scan_level_measure _ _ _ _ _ _ _ _ _ _ E1) as M. cbn [length] in M.
      destruct next as [|x nx]; [|cbn [length] in M; lia].
      destruct f as [|f']; [lia|]. cbn [bfs]. eauto.
    - destruct (scan_level s mb mpl (p0 :: pr) seen responses []) as [[[seen' resp'] next]|resp] eqn:E1; [|eauto].
      destruct resp'; [|eauto]. pose proof (scan_level_measure _ _ _ _ _ _ _ _ _ _ E1) as M. cbn [length] in M.
      destruct next as [|x nx].
      + destruct f as [|f']; [lia|]. cbn [bfs]. eauto.
      + cbn [length] in M. apply IH; lia.
  Qed.

  Lemma bfs_fuel_edges s : bfs_fuel s = S (S (length (edges (parent_lookup s)))).
  Proof.
    unfold bfs_fuel, edges. do 2 f_equal. induction (parent_lookup s) as [|[k v] m IH]; cbn [fold_right flat_map snd]; [reflexivity|].
    rewrite app_length, IH. reflexivity.
  Qed.

  Lemma find_path_total s id len : exists r, find_path s id len = Ok r.
  Proof.
    unfold find_path, find_paths. destruct (len <? 4); [cbn [bind]; eauto|].
    destruct (bfs_total s (len - 1) (N.min ((len - 1) * 8) u64_max - 1) (length (edges (parent_lookup s)))
                (bfs_fuel s) [(id, [])] [id] []) as [r Hr].
    - apply unseen_le_length.
    - rewrite bfs_fuel_edges. lia.
    - rewrite Hr. cbn [bind]. destruct r; eauto.
  Qed.
End RclTotal.

(* ------------------------------------------------------------------ the serializer loop *)

Lemma atom_prefix_some a0 size : size < 0x400000000 -> exists p, atom_prefix a0 size = Some p.
Proof.
  intros Hs. unfold atom_prefix.
  destruct (size =? 0); [eauto|]. destruct ((size =? 1) && (a0 <? 128))%bool; [eauto|].
  destruct (size <? 64); [eauto|]. destruct (size <? 8192); [eauto|]. destruct (size <? 1048576); [eauto|].
  destruct (size <? 134217728); [eauto|]. replace (size <? 17179869184) with true by lia. eauto.
Qed.

(* atoms shorter than 2^32 - 5 bytes: serialized_length_atom (u32 arithmetic) does not overflow *)
Fixpoint atoms_u32 (t : sexp) : bool :=
  match t with Atom b => blen b <? 4294967291 | Cons l r => atoms_u32 l && atoms_u32 r end.

Fixpoint aatoms_ok (a : atree) : Prop :=
  match a with
  | AAtom b _ _ => blen b < 4294967291
  | ACons l r _ _ => aatoms_ok l /\ aatoms_ok r
  end.

Lemma serialized_length_atom_total b : blen b < 4294967291 -> exists n, serialized_length_atom b = Ok n.
Proof.
  intros Hb. unfold serialized_length_atom.
  assert (E : u32 (blen b) = blen b) by (unfold u32; apply N.mod_small; lia). rewrite E.
  destruct ((blen b =? 0) || ((blen b =? 1) && (atom_0 b <? 128)))%bool; [eauto|].
  destruct (blen b <? 64); [eauto|]. destruct (blen b <? 8192); [eauto|]. destruct (blen b <? 1048576); [eauto|].
  destruct (blen b <? 134217728); [eauto|]. replace (5 + blen b <? 4294967296) with true by lia. eauto.
Qed.

Section LoopTotal.
  Variable H : bytes -> bytes.
  Notation th := (treehash H).
  Hypothesis th_inj : forall t1 t2, th t1 = th t2 -> t1 = t2.
  Notation loop := (ser_loop H w_unlimited).

  Lemma annotate_total : forall t, atoms_u32 t = true ->
    exists a, annotate H t = Ok a /\ aatoms_ok a /\ n_anodes a = n_nodes t.
  Proof.
    induction t as [b|l IHl r IHr]; cbn [atoms_u32 annotate]; intros Ha.
    - assert (Hb : blen b < 4294967291) by lia.
      destruct (serialized_length_atom_total b Hb) as [n ->]. cbn [bind].
      eexists. split; [reflexivity|]. split; [exact Hb|reflexivity].
    - apply andb_prop in Ha. destruct Ha as [Hl Hr].
      destruct (IHl Hl) as (al & -> & Al & Nl). destruct (IHr Hr) as (ar & -> & Ar & Nr). cbn [bind].
      eexists. split; [reflexivity|]. split; [split; assumption|]. cbn [n_anodes n_nodes]. lia.
  Qed.

  Lemma path_prefix_some pth pl : atom_length_bits (N.of_nat (length pth) + 1) = Some pl ->
    exists p, atom_prefix (atom_0 (path_to_bytes pth)) (blen (path_to_bytes pth)) = Some p.
  Proof.
    intros Hpl. apply atom_prefix_some. rewrite path_to_bytes_len.
    unfold atom_length_bits in Hpl.
    destruct (N.of_nat (length pth) + 1 <? 8) eqn:E8.
    - assert (N.of_nat (length pth) + 8 < 16) by lia.
      assert ((N.of_nat (length pth) + 8) / 8 < 2) by (apply N.div_lt_upper_bound; lia). lia.
    - replace ((N.of_nat (length pth) + 1 + 7) / 8) with ((N.of_nat (length pth) + 8) / 8) in Hpl by (f_equal; lia).
      destruct ((N.of_nat (length pth) + 8) / 8 <? 64) eqn:E1; [lia|].
      destruct ((N.of_nat (length pth) + 8) / 8 <? 8192) eqn:E2; [lia|].
      destruct ((N.of_nat (length pth) + 8) / 8 <? 1048576) eqn:E3; [lia|].
      destruct ((N.of_nat (length pth) + 8) / 8 <? 134217728) eqn:E4; [lia|].
      destruct ((N.of_nat (length pth) + 8) / 8 <? 17179869184) eqn:E5; [lia|discriminate].
  Qed.

  Lemma write_chunk_unlimited (w chunk : bytes) : write_chunk w_unlimited w chunk = Ok (w ++ chunk).
  Proof. reflexivity. Qed.

  (* one node of the write stack, whatever is below it: the loop gets to the point where the
     node has been written and pushed on the read stack, within n_anodes iterations *)
  Lemma ser_node_total : forall a ws ops s stk w fuel,
    annot_ok H a -> aatoms_ok a -> Inv H s stk -> CInv s ->
    total (count s) + 6 * N.of_nat (n_anodes a) <= U32MAX ->
    (n_anodes a <= fuel)%nat ->
    exists bs s1 k, (1 <= k <= n_anodes a)%nat /\ Inv H s1 (erase a :: stk) /\ CInv s1 /\
      total (count s1) <= total (count s) + 6 * N.of_nat (n_anodes a) /\
      loop fuel (a :: ws) (RParse :: ops) s w =
        (do '(ops', s') <- drain_cons H ops s1; loop (fuel - k) ws ops' s' (w ++ bs)).
  Proof.
    induction a as [b h len|l IHl r IHr h len]; intros ws ops s stk w fuel Hann Hat HI HC Ht Hf.
    - (* an atom node *)
      cbn [n_anodes] in *. destruct fuel as [|f]; [lia|]. cbn [ser_loop].
      destruct (find_path_total H s (ahash (AAtom b h len)) (alen (AAtom b h len))) as [found Efp].
      rewrite Efp. cbn [bind].
      destruct (push_total H s (ahash (AAtom b h len)) HC ltac:(lia)) as (s1 & Epush & C1 & T1).
      assert (HI1 : Inv H s1 (erase (AAtom b h len) :: stk)).
      { eapply Inv_push; [exact HI|]. rewrite <- (annot_ok_hash H _ Hann). exact Epush. }
      destruct found as [path|].
      + rewrite (annot_ok_hash H _ Hann) in Efp.
        destruct (found_path_valid H th_inj s stk _ _ path HI Efp) as (_ & _ & _ & pth & pl & -> & Hpl & _).
        destruct (path_prefix_some pth pl Hpl) as [p Ep].
        rewrite write_chunk_unlimited. cbn [bind]. rewrite write_atom_unlimited, Ep. cbn [bind].
        rewrite Epush. cbn [bind].
        exists (0xfe :: p ++ path_to_bytes pth), s1, 1%nat. split; [lia|]. split; [exact HI1|]. split; [exact C1|].
        split; [lia|]. replace (S f - 1)%nat with f by lia.
        replace ((w ++ [254]) ++ p) with (w ++ [254] ++ p) by (rewrite app_assoc; reflexivity).
        rewrite <- !app_assoc. reflexivity.
      + cbn [aatoms_ok] in Hat.
        destruct (atom_prefix_some (atom_0 b) (blen b) ltac:(lia)) as [p Ep].
        rewrite write_atom_unlimited, Ep. cbn [bind]. rewrite Epush. cbn [bind].
        exists (p ++ b), s1, 1%nat. split; [lia|]. split; [exact HI1|]. split; [exact C1|].
        split; [lia|]. replace (S f - 1)%nat with f by lia. rewrite <- !app_assoc. reflexivity.
    - (* a pair node *)
      cbn [n_anodes] in *. destruct fuel as [|f]; [lia|]. cbn [ser_loop].
      destruct (find_path_total H s (ahash (ACons l r h len)) (alen (ACons l r h len))) as [found Efp].
      rewrite Efp. cbn [bind].
      destruct found as [path|].
      + destruct (push_total H s (ahash (ACons l r h len)) HC ltac:(lia)) as (s1 & Epush & C1 & T1).
        assert (HI1 : Inv H s1 (erase (ACons l r h len) :: stk)).
        { eapply Inv_push; [exact HI|]. rewrite <- (annot_ok_hash H _ Hann). exact Epush. }
        rewrite (annot_ok_hash H _ Hann) in Efp.
        destruct (found_path_valid H th_inj s stk _ _ path HI Efp) as (_ & _ & _ & pth & pl & -> & Hpl & _).
        destruct (path_prefix_some pth pl Hpl) as [p Ep].
        rewrite write_chunk_unlimited. cbn [bind]. rewrite write_atom_unlimited, Ep. cbn [bind].
        rewrite Epush. cbn [bind].
        exists (0xfe :: p ++ path_to_bytes pth), s1, 1%nat. split; [lia|]. split; [exact HI1|]. split; [exact C1|].
        split; [lia|]. replace (S f - 1)%nat with f by lia.
        replace ((w ++ [254]) ++ p) with (w ++ [254] ++ p) by (rewrite app_assoc; reflexivity).
        rewrite <- !app_assoc. reflexivity.
      + rewrite write_chunk_unlimited. cbn [bind]. rewrite drain_parse. cbn [bind].
        destruct Hann as (Hh & Hl & Hal & Har). destruct Hat as [Atl Atr].
        destruct (IHl (r :: ws) (RParse :: RCons :: ops) s stk (w ++ [255]) f Hal Atl HI HC ltac:(lia) ltac:(lia))
          as (bsl & sl & kl & Hkl & HIl & Cl & Tl & El).
        rewrite El. rewrite drain_parse. cbn [bind].
        destruct (IHr ws (RCons :: ops) sl (erase l :: stk) ((w ++ [255]) ++ bsl) (f - kl)%nat Har Atr HIl Cl ltac:(lia) ltac:(lia))
          as (bsr & sr & kr & Hkr & HIr & Cr & Tr & Er).
        rewrite Er. cbn [drain_cons].
        assert (Hst : read_stack sr = (th (erase r), th (stack_list (erase l :: stk))) :: (th (erase l), th (stack_list stk)) :: mirror H stk).
        { destruct HIr as (_ & Hs & _). rewrite Hs. reflexivity. }
        destruct (pop2_total H sr _ _ _ Cr Hst ltac:(lia)) as (sx & Epop & Cx & Tx).
        rewrite Epop. cbn [bind].
        exists (0xff :: bsl ++ bsr), sx, (S (kl + kr)). split; [lia|]. split; [|split; [exact Cx|split; [lia|]]].
        * cbn [erase]. eapply Inv_pop2_and_cons; eassumption.
        * replace (S f - S (kl + kr))%nat with (f - kl - kr)%nat by lia.
          replace (((w ++ [255]) ++ bsl) ++ bsr) with (w ++ 255 :: bsl ++ bsr); [reflexivity|].
          rewrite <- !app_assoc. reflexivity.
  Qed.

  Theorem ser_br_total : forall t, atoms_u32 t = true -> 6 * N.of_nat (n_nodes t) + 1 <= U32MAX ->
    exists bs, node_to_bytes_backrefs H t = Ok bs.
  Proof.
    intros t Hat Hn. unfold node_to_bytes_backrefs, node_to_stream_backrefs.
    destruct (annotate_total t Hat) as (a & Ea & Aa & Na). rewrite Ea.
    destruct (annotate_ok H t a Ea) as [_ Hann].
    destruct (ser_node_total a [] [] (rcl_new H) [] [] (2 * n_anodes a + 1)%nat Hann Aa (Inv_new H) (CInv_new H))
      as (bs & s1 & k & Hk & _ & _ & _ & E).
    - cbn [rcl_new count total snd]. rewrite Na. lia.
    - lia.
    - rewrite E. cbn [drain_cons bind].
      destruct (2 * n_anodes a + 1 - k)%nat as [|f'] eqn:Ef; [lia|]. cbn [ser_loop]. eauto.
  Qed.
End LoopTotal.

(* everything about the serializer at once, with no premise on its outcome *)
From Clvm Require Import Proofs.SerBRMain.

Theorem ser_br_all H : (forall t1 t2, treehash H t1 = treehash H t2 -> t1 = t2) ->
  forall t, wf_sexp t = true -> atoms_u32 t = true -> 6 * N.of_nat (n_nodes t) + 1 <= U32MAX ->
  exists bs, node_to_bytes_backrefs H t = Ok bs /\
    de_br_spec bs = Ok (t, []) /\
    snd (node_from_stream_backrefs bs) = Ok (t, []) /\
    snd (node_from_stream_backrefs_old bs) = Ok (t, []) /\
    serialized_length_from_bytes bs = Ok (blen bs) /\
    is_canonical_serialization bs = BTrue /\
    (forall e, ser t = Some e -> blen e < 4294967291 -> blen bs <= blen e) /\
    (forall t' rest, snd (node_from_stream_backrefs bs) = Ok (t', rest) -> node_to_bytes_backrefs H t' = Ok bs).
Proof.
  intros Hinj t Hwf Hat Hn. destruct (ser_br_total H Hinj t Hat Hn) as [bs Hbs]. exists bs.
  destruct (ser_br_roundtrip H Hinj t bs Hwf Hbs) as (R1 & R2 & R3 & R4).
  split; [exact Hbs|]. split; [exact R1|]. split; [exact R2|]. split; [exact R3|]. split; [exact R4|].
  split; [exact (ser_br_canonical H Hinj t bs Hwf Hbs)|]. split.
  - intros e He Hl. exact (ser_br_never_grows H Hinj t bs e Hwf Hbs He Hl).
  - intros t' rest Hd. exact (ser_br_idempotent H Hinj t bs t' rest Hwf Hbs Hd).
Qed.
