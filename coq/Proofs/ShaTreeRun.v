(* C23: the two sha256tree programs on the stack machine, for every tree: what they cost and
   return (Proofs/ShaTreeExec.v rules + the operators i, l, c, sha256, sha256tree). *)
From Coq Require Import Lia ZifyBool ZifyN ZifyNat.
From Clvm Require Import Model.ShaTreeCost Proofs.ShaTreeCostIneq Proofs.ShaTreeExec.
Open Scope N_scope.

Arguments N.add : simpl never.
Arguments N.sub : simpl never.
Arguments N.mul : simpl never.
Arguments N.ltb : simpl never.
Arguments N.leb : simpl never.
Arguments N.eqb : simpl never.

(* ---- the operators the programs use, as equations ---- *)
Lemma op_listp_sl f t m :
  op_listp f (sl [t]) m = Ok (listp_cost (f_new_cost_model f), match t with Cons _ _ => one_s | Atom _ => nil_s end).
Proof. reflexivity. Qed.

Lemma op_if_sl f c a b m :
  op_if f (sl [c; a; b]) m = Ok (if_cost (f_new_cost_model f), if nilp c then b else a).
Proof. reflexivity. Qed.

Lemma op_cons_sl f a b m : op_cons f (sl [a; b]) m = Ok (CONS_COST, Cons a b).
Proof. reflexivity. Qed.

Section Hash.
  Variable H : bytes -> bytes.
  Hypothesis H32 : forall b, blen (H b) = 32.

  Lemma op_sha256_2 f a b m : sha_cost (f_new_cost_model f) 2 (blen a + blen b) <= m ->
    op_sha256 H f (sl [Atom a; Atom b]) m
    = Ok (sha_cost (f_new_cost_model f) 2 (blen a + blen b), Atom (H (a ++ b))).
  Proof.
    intros Hm. unfold op_sha256, sha_cost, sha_base, sha_arg, sha_byte in *.
    destruct (f_new_cost_model f); cbn [sl fold_right nil_s];
      (rewrite check_cost_ok by (unfold_costs; lia)); cbn [bind];
      (rewrite check_cost_ok by (unfold_costs; lia)); cbn [bind];
      unfold atom_and_cost, concat_rev; cbn [fold_left]; rewrite H32, app_nil_r;
      f_equal; f_equal; unfold_costs; lia.
  Qed.

  Lemma op_sha256_3 f a b c m : sha_cost (f_new_cost_model f) 3 (blen a + blen b + blen c) <= m ->
    op_sha256 H f (sl [Atom a; Atom b; Atom c]) m
    = Ok (sha_cost (f_new_cost_model f) 3 (blen a + blen b + blen c), Atom (H (a ++ b ++ c))).
  Proof.
    intros Hm. unfold op_sha256, sha_cost, sha_base, sha_arg, sha_byte in *.
    destruct (f_new_cost_model f); cbn [sl fold_right nil_s];
      (rewrite check_cost_ok by (unfold_costs; lia)); cbn [bind];
      (rewrite check_cost_ok by (unfold_costs; lia)); cbn [bind];
      (rewrite check_cost_ok by (unfold_costs; lia)); cbn [bind];
      unfold atom_and_cost, concat_rev; cbn [fold_left]; rewrite H32, app_nil_r;
      f_equal; f_equal; unfold_costs; lia.
  Qed.

  Lemma treehash_len t : blen (treehash H t) = 32.
  Proof. destruct t; apply H32. Qed.
End Hash.

(* the native walk succeeds when its total fits, with the closed-form cost and the tree hash *)
Lemma tree_hash_walk_ok H pb t : forall cost m,
  cost + SHA256TREE_PAIR_COST * tree_pairs t + pb * tree_atom_bytes t <= m ->
  tree_hash_walk H pb t cost m
  = Ok (cost + SHA256TREE_PAIR_COST * tree_pairs t + pb * tree_atom_bytes t, treehash H t).
Proof.
  induction t as [b|l IHl r IHr]; intros cost m Hm; cbn [tree_hash_walk tree_pairs tree_atom_bytes treehash] in *.
  - rewrite check_cost_ok by lia. cbn [bind]. f_equal. f_equal. lia.
  - rewrite check_cost_ok by lia. cbn [bind].
    rewrite IHr by lia. cbn [bind]. rewrite IHl by lia. cbn [bind].
    f_equal. f_equal. lia.
Qed.

Lemma op_sha256_tree_ok H f t m : native_op_cost (f_new_cost_model f) t <= m ->
  op_sha256_tree H f (sl [t]) m = Ok (native_op_cost (f_new_cost_model f) t, Atom (treehash H t)).
Proof.
  intros Hm. unfold op_sha256_tree, native_op_cost, tree_byte in *. cbn [sl fold_right nil_s get_args1 bind].
  unfold tree_hash_costed.
  rewrite tree_hash_walk_ok by (destruct (f_new_cost_model f); lia). cbn [bind].
  rewrite check_cost_ok by (destruct (f_new_cost_model f); lia). cbn [bind].
  reflexivity.
Qed.

(* the paths the programs use *)
Lemma tp1 env : traverse_path [1] env = Ok (path_cost 0, env).
Proof. reflexivity. Qed.
Lemma tp2 a b : traverse_path [2] (Cons a b) = Ok (path_cost 1, a).
Proof. reflexivity. Qed.
Lemma tp3 a b : traverse_path [3] (Cons a b) = Ok (path_cost 1, b).
Proof. reflexivity. Qed.
Lemma tp5 a b c : traverse_path [5] (Cons a (Cons b c)) = Ok (path_cost 2, b).
Proof. reflexivity. Qed.
Lemma tp9 a l r c : traverse_path [9] (Cons a (Cons (Cons l r) c)) = Ok (path_cost 3, l).
Proof. reflexivity. Qed.
Lemma tp13 a l r c : traverse_path [13] (Cons a (Cons (Cons l r) c)) = Ok (path_cost 3, r).
Proof. reflexivity. Qed.
Lemma tpnil env : traverse_path [] env = Ok (nil_path_cost, nil_s).
Proof. reflexivity. Qed.

(* iterations of the loop the programs take; under ENABLE_GC (g = 1) every a, l, sha256 and
   sha256tree form takes one more (its Restore operation) *)
Definition gc_steps (g : bool) : nat := if g then 1%nat else 0%nat.
Fixpoint func_steps (g : bool) (t : sexp) : nat :=
  match t with
  | Atom _ => (20 + 3 * gc_steps g)%nat
  | Cons l r => (52 + 5 * gc_steps g + func_steps g l + func_steps g r)%nat
  end.
Definition clvm_steps (g : bool) (t : sexp) : nat := (25 + 2 * gc_steps g + func_steps g t)%nat.
Definition native_steps (g : bool) : nat := (3 + gc_steps g)%nat.

Section Programs.
  Variable d : dialect.
  Variable M : N.
  Variable H : bytes -> bytes.
  Variable f : flagset.
  Variable g : bool.
  Hypothesis Hq : d_quote d = 1.
  Hypothesis Ha : d_apply d = 2.
  Hypothesis Hs : d_softfork d = 36.
  Hypothesis Hgc2 : d_gc d (Atom [2]) = g.
  Hypothesis Hgc3 : d_gc d (Atom [3]) = false.
  Hypothesis Hgc4 : d_gc d (Atom [4]) = false.
  Hypothesis Hgc7 : d_gc d (Atom [7]) = g.
  Hypothesis Hgc11 : d_gc d (Atom [11]) = g.
  Hypothesis Hgc63 : d_gc d (Atom [63]) = g.
  Hypothesis Hop3 : forall args m, d_op d (Atom [3]) args m OsDefault = op_if f args m.
  Hypothesis Hop4 : forall args m, d_op d (Atom [4]) args m OsDefault = op_cons f args m.
  Hypothesis Hop7 : forall args m, d_op d (Atom [7]) args m OsDefault = op_listp f args m.
  Hypothesis Hop11 : forall args m, d_op d (Atom [11]) args m OsDefault = op_sha256 H f args m.
  Hypothesis Hop63 : forall args m, d_op d (Atom [63]) args m OsDefault = op_sha256_tree H f args m.
  Hypothesis H32 : forall b, blen (H b) = 32.

  Let ncm := f_new_cost_model f.
  Notation EV' := (EV d M).

  Ltac gc_tac :=
    unfold gcn, gc_steps; rewrite ?Hgc2, ?Hgc3, ?Hgc4, ?Hgc7, ?Hgc11, ?Hgc63;
    unfold clvm_steps, native_steps, gc_steps; cbn [func_steps]; unfold gc_steps; destruct g; lia.

  (* (c A B) *)
  Lemma EV_c A B env cA vA nA cB vB nB :
    EV' A env cA vA nA -> EV' B env cB vB nB ->
    EV' (sl [kw 4; A; B]) env (OP_COST + cA + cB + CONS_COST) (Cons vA vB) (nA + nB + 5).
  Proof.
    intros EA EB. eapply EV_cast.
    - eapply (EV_op2 d M Hq Ha Hs [4]); try reflexivity; [exact EA|exact EB|].
      intros m _. rewrite Hop4. apply op_cons_sl.
    - reflexivity.
    - gc_tac.
  Qed.

  Lemma EV_nil env : EV' nil_s env nil_path_cost nil_s 0.
  Proof. apply EV_path. apply tpnil. Qed.

  (* (c 2 (c <p> ())) -> (F x) *)
  Lemma EV_arglist p bits env F x :
    traverse_path [2] env = Ok (path_cost 1, F) -> traverse_path [p] env = Ok (path_cost bits, x) ->
    EV' (sl [kw 4; kw 2; sl [kw 4; kw p; nil_s]]) env (arglist_cost bits) (sl [F; x]) 10.
  Proof.
    intros P2 Pp. eapply EV_cast.
    - apply EV_c; [apply EV_path; exact P2|].
      apply EV_c; [apply EV_path; exact Pp|apply EV_nil].
    - unfold arglist_cost. lia.
    - reflexivity.
  Qed.

  (* (a 2 (c 2 (c <p> ()))): call F on x *)
  Lemma EV_call p bits env F x cb r nb :
    traverse_path [2] env = Ok (path_cost 1, F) -> traverse_path [p] env = Ok (path_cost bits, x) ->
    EV' F (sl [F; x]) cb r nb ->
    EV' (rec_call p) env (call_cost bits + cb) r (15 + gc_steps g + nb).
  Proof.
    intros P2 Pp EB. eapply EV_cast.
    - unfold rec_call. eapply (EV_apply2 d M Hq Ha Hs).
      + apply EV_path. exact P2.
      + eapply EV_arglist; [exact P2|exact Pp].
      + exact EB.
    - unfold call_cost. lia.
    - gc_tac.
  Qed.

  (* (i (l 5) (q . P) (q . A)) in (F t) *)
  Lemma EV_if t Pb Ab F :
    EV' (sl [kw 3; sl [kw 7; kw 5]; qq Pb; qq Ab]) (sl [F; t])
        (OP_COST + (OP_COST + path_cost 2 + listp_cost ncm) + QUOTE_COST + QUOTE_COST + if_cost ncm)
        (match t with Cons _ _ => Pb | Atom _ => Ab end) (10 + gc_steps g).
  Proof.
    eapply EV_cast.
    - eapply (EV_op3 d M Hq Ha Hs [3]); try reflexivity.
      + eapply (EV_op1 d M Hq Ha Hs [7]); try reflexivity.
        * apply EV_path. apply tp5.
        * intros m _. rewrite Hop7. apply op_listp_sl.
      + apply EV_quote; assumption.
      + apply EV_quote; assumption.
      + intros m _. rewrite Hop3. rewrite op_if_sl. destruct t; reflexivity.
    - reflexivity.
    - gc_tac.
  Qed.

  (* the function: FUNC in (FUNC t) costs func_cost and returns the tree hash *)
  Theorem EV_func t : EV' FUNC (func_env t) (func_cost ncm t) (Atom (treehash H t)) (func_steps g t).
  Proof.
    induction t as [b|l IHl r IHr].
    - (* atom *)
      eapply EV_cast.
      + unfold FUNC. eapply (EV_apply2 d M Hq Ha Hs).
        * apply (EV_if (Atom b)).
        * apply EV_path. apply tp1.
        * unfold ATOM_BRANCH.
          eapply (EV_op2 d M Hq Ha Hs [11]); try reflexivity.
          -- apply EV_quote; assumption.
          -- apply EV_path. apply tp5.
          -- intros m Hm. rewrite Hop11. unfold kw. apply (op_sha256_2 H H32 f [1] b m). exact Hm.
      + cbn [func_cost]. fold ncm. change (blen [1]) with 1.
        destruct ncm; unfold_costs; lia.
      + gc_tac.
    - (* pair *)
      eapply EV_cast.
      + unfold FUNC. eapply (EV_apply2 d M Hq Ha Hs).
        * apply (EV_if (Cons l r)).
        * apply EV_path. apply tp1.
        * unfold PAIR_BRANCH.
          eapply (EV_op3 d M Hq Ha Hs [11]); try reflexivity.
          -- apply EV_quote; assumption.
          -- eapply (EV_call 9 3); [apply tp2|apply tp9|exact IHl].
          -- eapply (EV_call 13 3); [apply tp2|apply tp13|exact IHr].
          -- intros m Hm. rewrite Hop11. unfold kw.
             apply (op_sha256_3 H H32 f [2] (treehash H l) (treehash H r) m). exact Hm.
      + cbn [func_cost]. fold ncm. rewrite !treehash_len by exact H32.
        change (blen [2]) with 1.
        destruct ncm; unfold_costs; lia.
      + gc_tac.
  Qed.

  (* the whole program, with the tree as environment *)
  Theorem EV_clvm t :
    EV' sha256tree_prog t (clvm_cost ncm t) (Atom (treehash H t)) (clvm_steps g t).
  Proof.
    eapply EV_cast.
    - unfold sha256tree_prog. eapply (EV_apply2 d M Hq Ha Hs).
      + apply EV_quote; assumption.
      + apply EV_c; [apply EV_quote; assumption|apply EV_path; apply tp1].
      + unfold MAIN. eapply (EV_call 3 1); [apply tp2|apply tp3|]. apply EV_func.
    - unfold clvm_cost, top_cost. lia.
    - gc_tac.
  Qed.

  (* (sha256tree (q . t)) *)
  Theorem EV_native t :
    EV' (native_prog t) nil_s (native_cost ncm t) (Atom (treehash H t)) (native_steps g).
  Proof.
    eapply EV_cast.
    - unfold native_prog. eapply (EV_op1 d M Hq Ha Hs [63]); try reflexivity.
      + apply EV_quote; assumption.
      + intros m Hm. rewrite Hop63. apply op_sha256_tree_ok. exact Hm.
    - unfold native_cost. fold ncm. lia.
    - gc_tac.
  Qed.
End Programs.

(* ---- the Chia dialect under any flag set that enables the operator ---- *)
Definition eff_budget (m : N) : N := if m =? 0 then COST_MAX else m.

Lemma dialect_flags_tree fl : f_sha256_tree (dialect_flags fl) = f_sha256_tree fl.
Proof. unfold dialect_flags. destruct (f_new_cost_model fl); reflexivity. Qed.
Lemma dialect_flags_ncm fl : f_new_cost_model (dialect_flags fl) = f_new_cost_model fl.
Proof. unfold dialect_flags. destruct (f_new_cost_model fl) eqn:E; [reflexivity|exact E]. Qed.
Lemma dialect_flags_gc fl : f_enable_gc (dialect_flags fl) = f_enable_gc fl.
Proof. unfold dialect_flags. destruct (f_new_cost_model fl); reflexivity. Qed.

Section Chia.
  Variable P : prims.
  Variable fl : flagset.
  Hypothesis Htree : f_sha256_tree fl = true.

  Let ncm := f_new_cost_model fl.
  Let g := f_enable_gc fl.
  Let d := chia_dialect P fl.
  Let f0 := dialect_flags fl.

  Lemma chia_gc_in k : existsb (N.eqb k) GC_CANDIDATES = true -> small_number (Atom [k]) = Some k ->
    d_gc d (Atom [k]) = g.
  Proof.
    intros Hin Hsm. unfold d, chia_dialect. cbn [d_gc]. unfold gc_candidate.
    rewrite dialect_flags_gc. fold g. rewrite Hsm, Hin. destruct g; reflexivity.
  Qed.
  Lemma chia_gc_out k : existsb (N.eqb k) GC_CANDIDATES = false -> small_number (Atom [k]) = Some k ->
    d_gc d (Atom [k]) = false.
  Proof.
    intros Hin Hsm. unfold d, chia_dialect. cbn [d_gc]. unfold gc_candidate.
    rewrite Hsm, Hin. destruct (f_enable_gc (dialect_flags fl)); reflexivity.
  Qed.

  Lemma chia_op63 args m : d_op d (Atom [63]) args m OsDefault = op_sha256_tree (p_sha256 P) f0 args m.
  Proof.
    assert (E : f_sha256_tree (dialect_flags fl) = true) by (rewrite dialect_flags_tree; exact Htree).
    change (d_op d (Atom [63]) args m OsDefault)
      with (match (if f_sha256_tree (dialect_flags fl)
                   then Some (Ok (op_sha256_tree (p_sha256 P))) else None) with
            | None => unknown_operator [63] (dialect_flags fl) args m
            | Some (Err e) => Err e
            | Some (Ok ff) => ff (dialect_flags fl) args m
            end).
    rewrite E. reflexivity.
  Qed.

  Theorem native_is_run_fl t m fuel :
    native_cost ncm t <= eff_budget m -> (native_steps g < fuel)%nat ->
    run_program d fuel (native_prog t) nil_s m
    = Ok (native_cost ncm t, Atom (treehash (p_sha256 P) t)).
  Proof.
    intros Hm Hf. unfold run_program. fold (eff_budget m).
    assert (HE : EV d (eff_budget m) (native_prog t) nil_s (native_cost ncm t)
                    (Atom (treehash (p_sha256 P) t)) (native_steps g)).
    { unfold ncm. rewrite <- (dialect_flags_ncm fl). fold f0.
      apply (EV_native d (eff_budget m) (p_sha256 P) f0 g);
        first [exact H32 | apply chia_op63 | apply chia_gc_in; reflexivity | apply chia_gc_out; reflexivity | reflexivity]. }
    eapply run_loop_of_EV in HE; [|first [exact Hm|exact Hf|reflexivity]..].
    destruct HE as (c0 & s0 & He & Hr). rewrite He. exact Hr.
  Qed.

  Theorem clvm_is_run_fl t m fuel :
    (forall b, blen (p_sha256 P b) = 32) ->
    clvm_cost ncm t <= eff_budget m -> (clvm_steps g t < fuel)%nat ->
    run_program d fuel sha256tree_prog t m
    = Ok (clvm_cost ncm t, Atom (treehash (p_sha256 P) t)).
  Proof.
    intros H32 Hm Hf. unfold run_program. fold (eff_budget m).
    assert (HE : EV d (eff_budget m) sha256tree_prog t (clvm_cost ncm t)
                    (Atom (treehash (p_sha256 P) t)) (clvm_steps g t)).
    { unfold ncm. rewrite <- (dialect_flags_ncm fl). fold f0.
      apply (EV_clvm d (eff_budget m) (p_sha256 P) f0 g);
        first [exact H32 | apply chia_op63 | apply chia_gc_in; reflexivity | apply chia_gc_out; reflexivity | reflexivity]. }
    eapply run_loop_of_EV in HE; [|first [exact Hm|exact Hf|reflexivity]..].
    destruct HE as (c0 & s0 & He & Hr). rewrite He. exact Hr.
  Qed.

  (* the property: whenever the ChiaLisp program fits the budget, both runs succeed with the same
     hash and the native one is cheaper *)
  Theorem native_cheaper_run_fl t m fuel :
    (forall b, blen (p_sha256 P b) = 32) ->
    clvm_cost ncm t <= eff_budget m -> (clvm_steps g t < fuel)%nat ->
    exists cn cc h,
      run_program d fuel (native_prog t) nil_s m = Ok (cn, h) /\
      run_program d fuel sha256tree_prog t m = Ok (cc, h) /\
      cn < cc.
  Proof.
    intros H32 Hm Hf. pose proof (native_lt_clvm ncm t) as Hlt.
    exists (native_cost ncm t), (clvm_cost ncm t), (Atom (treehash (p_sha256 P) t)).
    split; [|split; [|exact Hlt]].
    - apply native_is_run_fl; [lia|]. unfold clvm_steps, native_steps in *. lia.
    - apply clvm_is_run_fl; assumption.
  Qed.
End Chia.

(* in terms of flag words, as the harness and the tool pass them *)
Definition word_ncm (w : N) : bool := f_new_cost_model (flags_of_N w).
Definition word_gc (w : N) : bool := f_enable_gc (flags_of_N w).

Theorem native_is_run P w t m fuel : f_sha256_tree (flags_of_N w) = true ->
  native_cost (word_ncm w) t <= eff_budget m -> (native_steps (word_gc w) < fuel)%nat ->
  run_chia P fuel w (native_prog t) nil_s m
  = Ok (native_cost (word_ncm w) t, Atom (treehash (p_sha256 P) t)).
Proof. intros Hw. apply (native_is_run_fl P (flags_of_N w) Hw). Qed.

Theorem clvm_is_run P w t m fuel : f_sha256_tree (flags_of_N w) = true ->
  (forall b, blen (p_sha256 P b) = 32) ->
  clvm_cost (word_ncm w) t <= eff_budget m -> (clvm_steps (word_gc w) t < fuel)%nat ->
  run_chia P fuel w sha256tree_prog t m
  = Ok (clvm_cost (word_ncm w) t, Atom (treehash (p_sha256 P) t)).
Proof. intros Hw. apply (clvm_is_run_fl P (flags_of_N w) Hw). Qed.

Theorem native_cheaper_run P w t m fuel : f_sha256_tree (flags_of_N w) = true ->
  (forall b, blen (p_sha256 P b) = 32) ->
  clvm_cost (word_ncm w) t <= eff_budget m -> (clvm_steps (word_gc w) t < fuel)%nat ->
  exists cn cc h,
    run_chia P fuel w (native_prog t) nil_s m = Ok (cn, h) /\
    run_chia P fuel w sha256tree_prog t m = Ok (cc, h) /\
    cn < cc.
Proof. intros Hw. apply (native_cheaper_run_fl P (flags_of_N w) Hw). Qed.
