(* C02, tightness: when no cost-exempt guard can be entered, a run that succeeds with cost C
   under some budget succeeds under every budget >= C. *)
From Coq Require Import Lia ZifyBool ZifyN ZifyNat.
From Clvm Require Import Model.Machine Proofs.MachineBasics Proofs.MachineBudget.
Open Scope N_scope.

Definition noexempt_d (d : dialect) : Prop := forall x, d_ext d x <> OsPreHardFork.
Definition noexempt (s : mstate) : Prop := Forall (fun g => g_opset g <> OsPreHardFork) (guards s).

Section Tight.
  Variable d : dialect.
  Hypothesis Hop : dop_budget d.
  Hypothesis Htight : dop_tight d.
  Hypothesis Hne : noexempt_d d.

  Lemma parse_softfork_noexempt ol ext prg env :
    parse_softfork_arguments d ol = Ok (ext, prg, env) -> ext <> OsPreHardFork.
  Proof.
    unfold parse_softfork_arguments.
    destruct (get_args4 ol) as [[[[a b] c] e]|]; cbn [bind]; [|discriminate].
    destruct (uint_atom 4 _ b) as [x|]; cbn [bind]; [|discriminate].
    destruct (opset_eqb (d_ext d x) OsDefault); [discriminate|].
    intros H; injection H as <- _ _. apply Hne.
  Qed.

  (* how one step changes the guard stack *)
  Lemma step_guards M cost s c' s' : step d M cost s = Ok (inl (c', s')) -> noexempt s ->
    cost <= c' /\
    ((guards s' = guards s) \/
     (exists g, guards s' = g :: guards s /\ g_opset g <> OsPreHardFork) \/
     (exists g, guards s = g :: guards s' /\ g_expected g = cost)).
  Proof.
    unfold step. destruct (_ <? _); [discriminate|].
    destruct (ops s) as [|o rest_ops]; [discriminate|]. intros H Hn.
    set (s0 := {| vals := vals s; envs := envs s; ops := rest_ops; guards := guards s |}) in *.
    assert (G0 : guards s0 = guards s) by reflexivity.
    match type of H with (do '(c, s'') <- ?X; _) = _ => destruct X as [[c s'']|] eqn:E; cbn [bind] in H; [|discriminate] end.
    injection H as <- <-. split; [lia|]. rewrite <- G0. clear G0.
    destruct o.
    - (* apply *)
      unfold apply_op in E.
      destruct (pop s0) as [[ol sa]|] eqn:P1; cbn [bind] in E; [|discriminate].
      destruct (pop sa) as [[opr sb]|] eqn:P2; cbn [bind] in E; [|discriminate].
      assert (Gb : guards sb = guards s0) by (rewrite (pop_guards _ _ _ P2), (pop_guards _ _ _ P1); reflexivity).
      destruct (envs sb) as [|e0 envs']; [discriminate|].
      set (s3 := {| vals := vals sb; envs := envs'; ops := ops sb; guards := guards sb |}) in *.
      destruct (is_kw opr (d_apply d)).
      + destruct (get_args2 ol) as [[no env]|]; cbn [bind] in E; [|discriminate].
        destruct (eval_pair d s3 no env) as [[c0 s4]|] eqn:EP; cbn [bind] in E; [|discriminate].
        injection E as _ <-. left. rewrite (eval_pair_guards _ _ _ _ _ _ EP). exact Gb.
      + destruct (is_kw opr (d_softfork d)).
        * unfold enter_guard in E.
          destruct (first ol); cbn [bind] in E; [|discriminate].
          destruct (uint_atom 8 _ _); cbn [bind] in E; [|discriminate].
          destruct (_ <? _); [discriminate|]. destruct (_ =? 0); [discriminate|].
          destruct (parse_softfork_arguments d ol) as [[[ext prg] env]|] eqn:PS.
          2:{ destruct (d_allow_unknown d); [|discriminate]. injection E as _ <-. left. exact Gb. }
          destruct (_ && _)%bool; [discriminate|].
          match type of E with (do '(c, s5) <- eval_pair d ?S prg env; _) = _ =>
            destruct (eval_pair d S prg env) as [[c0 s5]|] eqn:EP; cbn [bind] in E; [|discriminate] end.
          injection E as _ <-. right; left.
          rewrite (eval_pair_guards _ _ _ _ _ _ EP). subst s3; cbn [guards]. rewrite Gb.
          eexists; split; [reflexivity|]. cbn. eapply parse_softfork_noexempt; exact PS.
        * destruct (d_op d opr ol _ _) as [[c0 v]|]; cbn [bind] in E; [|discriminate].
          injection E as _ <-. left. exact Gb.
    - (* cons *)
      unfold cons_op in E.
      destruct (pop s0) as [[v1 sa]|] eqn:P1; cbn [bind] in E; [|discriminate].
      destruct (pop sa) as [[v2 sb]|] eqn:P2; cbn [bind] in E; [|discriminate].
      injection E as _ <-. left. cbn. rewrite (pop_guards _ _ _ P2), (pop_guards _ _ _ P1). reflexivity.
    - (* exit guard *)
      unfold exit_guard in E. destruct (guards s0) as [|g gs] eqn:Eg; [discriminate|].
      destruct (negb (cost_exempt g) && negb (cost =? g_expected g))%bool eqn:Ec; [discriminate|].
      destruct (vals s0); [discriminate|]. injection E as _ <-. right; right. exists g. split; [reflexivity|].
      unfold noexempt in Hn. change (guards s) with (guards s0) in Hn. rewrite Eg in Hn. inversion Hn as [|? ? Hg _]; subst.
      unfold cost_exempt in Ec. destruct (g_opset g); cbn in Ec; try lia. contradiction.
    - (* swap eval *)
      unfold swap_eval_op in E.
      destruct (pop s0) as [[v1 sa]|] eqn:P1; cbn [bind] in E; [|discriminate].
      destruct (pop sa) as [[v2 sb]|] eqn:P2; cbn [bind] in E; [|discriminate].
      destruct (envs sb); [discriminate|].
      left. rewrite (eval_pair_guards _ _ _ _ _ _ E). cbn. rewrite (pop_guards _ _ _ P2), (pop_guards _ _ _ P1). reflexivity.
    - (* restore *)
      destruct (vals s0); [discriminate|]. injection E as _ <-. left; reflexivity.
  Qed.

  Lemma step_noexempt M cost s c' s' : step d M cost s = Ok (inl (c', s')) -> noexempt s -> noexempt s'.
  Proof.
    intros H Hn. destruct (step_guards _ _ _ _ _ H Hn) as [_ [E|[(g & E & Hg)|(g & E & _)]]]; unfold noexempt in *.
    - rewrite E; exact Hn.
    - rewrite E; constructor; assumption.
    - rewrite E in Hn. inversion Hn; assumption.
  Qed.

  (* every guard still open is closed before a successful run ends, at exactly its expected cost *)
  Lemma guards_le_final fuel : forall M cost s C v, balanced s -> noexempt s ->
    run_loop d fuel M cost s = Ok (C, v) -> Forall (fun g => g_expected g <= C) (guards s).
  Proof.
    induction fuel as [|fuel IH]; intros M cost s C v Hb Hn H; [discriminate|].
    cbn [run_loop] in H. destruct (step d M cost s) as [[[c' s']|[c' s']]|] eqn:E; cbn [bind] in H; try discriminate.
    - pose proof (step_balanced _ _ _ _ _ E Hb) as Hb'. cbn in Hb'.
      pose proof (step_noexempt _ _ _ _ _ E Hn) as Hn'.
      pose proof (IH _ _ _ _ _ Hb' Hn' H) as F.
      pose proof (run_loop_cost_mono _ _ _ _ _ _ _ H) as Hm.
      destruct (step_guards _ _ _ _ _ E Hn) as [Hc [Eg|[(g & Eg & _)|(g & Eg & Hx)]]].
      + rewrite <- Eg; exact F.
      + rewrite Eg in F. inversion F; assumption.
      + rewrite Eg. constructor; [lia|exact F].
    - pose proof (step_balanced _ _ _ _ _ E Hb) as [Hb' Ho].
      unfold step in E. destruct (_ <? _); [discriminate|]. destruct (ops s) eqn:Eo.
      + unfold balanced in Hb. rewrite Eo in Hb. cbn in Hb. destruct (guards s); [constructor|discriminate].
      + match type of E with (do '(c, s'') <- ?X ; _) = _ => destruct X as [[c0 x0]|]; cbn [bind] in E; discriminate end.
  Qed.

  Variables A B : N.
  Hypothesis HAB : A <= B.

  Lemma step_tight cost s r : noexempt s -> cost <= A ->
    step d B cost s = Ok r ->
    match r with
    | inl (c', s') => c' <= A /\ Forall (fun g => g_expected g <= A) (guards s')
    | inr _ => True
    end ->
    step d A cost s = Ok r.
  Proof.
    intros Hn Hc H Hr. unfold step in *.
    assert (Hcase : (guards s = [] /\ effective_max s A = A /\ effective_max s B = B) \/
                    effective_max s A = effective_max s B).
    { unfold effective_max. destruct (guards s); [left; auto|right; reflexivity]. }
    destruct Hcase as [(Eg & EA & EB)|Eq].
    2:{ (* inside a guard the budget is not consulted *) rewrite Eq. exact H. }
    rewrite EA. rewrite EB in H.
    destruct (B <? cost) eqn:E1; [discriminate|]. destruct (A <? cost) eqn:E2; [lia|].
    destruct (ops s) as [|o rest_ops]; [exact H|].
    set (s0 := {| vals := vals s; envs := envs s; ops := rest_ops; guards := guards s |}) in *.
    assert (G0 : guards s0 = []) by exact Eg.
    destruct o; try exact H.
    (* apply: the only operation that reads the budget *)
    destruct (apply_op d s0 cost (B - cost)) as [[c s'']|] eqn:E; cbn [bind] in H; [|discriminate].
    injection H as <-. cbn in Hr. destruct Hr as [Hc' Hg'].
    assert (apply_op d s0 cost (A - cost) = Ok (c, s'')) as ->; [|reflexivity].
    unfold apply_op in *.
    destruct (pop s0) as [[ol sa]|] eqn:P1; cbn [bind] in *; [|discriminate].
    destruct (pop sa) as [[opr sb]|] eqn:P2; cbn [bind] in *; [|discriminate].
    assert (Gb : guards sb = []) by (rewrite (pop_guards _ _ _ P2), (pop_guards _ _ _ P1); exact G0).
    destruct (envs sb) as [|e0 envs']; [discriminate|].
    set (s3 := {| vals := vals sb; envs := envs'; ops := ops sb; guards := guards sb |}) in *.
    destruct (is_kw opr (d_apply d)); [exact E|].
    destruct (is_kw opr (d_softfork d)).
    - unfold enter_guard in *.
      destruct (first ol); cbn [bind] in *; [|discriminate].
      destruct (uint_atom 8 _ _) as [ec|]; cbn [bind] in *; [|discriminate].
      destruct (B - cost <? ec) eqn:L1; [discriminate|].
      destruct (ec =? 0) eqn:Z; [discriminate|].
      destruct (parse_softfork_arguments d ol) as [[[ext prg] env]|] eqn:PS.
      2:{ destruct (d_allow_unknown d); [|discriminate]. injection E as <- <-.
          destruct (A - cost <? ec) eqn:L2; [lia|]. reflexivity. }
      cbn [guards] in *. fold s3 in E |- *.
      destruct (_ && _)%bool; [discriminate|].
      pose proof (parse_softfork_noexempt _ _ _ _ PS) as Hext.
      assert (Ex : forall m, match ext with
                        | OsPreHardFork => match guards s3 with g :: _ => g_expected g | [] => cost + m end
                        | _ => cost + ec end = cost + ec) by (intros m; destruct ext; try reflexivity; contradiction).
      rewrite Ex in E. rewrite Ex.
      match type of E with (do '(c, s5) <- eval_pair d ?S prg env; _) = _ =>
        destruct (eval_pair d S prg env) as [[c0 s5]|] eqn:EP; cbn [bind] in E; [|discriminate] end.
      injection E as <- <-. rewrite (eval_pair_guards _ _ _ _ _ _ EP) in Hg'. cbn [guards] in Hg'.
      inversion Hg' as [|? ? Hle _]; subst. cbn in Hle.
      destruct (A - cost <? ec) eqn:L2; [lia|]. reflexivity.
    - destruct (d_op d opr ol (B - cost) _) as [[c0 v]|] eqn:D; cbn [bind] in E; [|discriminate].
      injection E as <- <-.
      rewrite (Htight _ _ _ _ _ _ D (A - cost)) by lia. reflexivity.
  Qed.

  Lemma run_loop_tight fuel : forall cost s C v, balanced s -> noexempt s -> C <= A ->
    run_loop d fuel B cost s = Ok (C, v) -> run_loop d fuel A cost s = Ok (C, v).
  Proof.
    induction fuel as [|fuel IH]; intros cost s C v Hb Hn HC H; [discriminate|].
    pose proof (run_loop_cost_mono _ _ _ _ _ _ _ H) as Hm.
    cbn [run_loop] in *. destruct (step d B cost s) as [[[c' s']|[c' s']]|] eqn:E; cbn [bind] in H; try discriminate.
    - pose proof (step_balanced _ _ _ _ _ E Hb) as Hb'. cbn in Hb'.
      pose proof (step_noexempt _ _ _ _ _ E Hn) as Hn'.
      pose proof (run_loop_cost_mono _ _ _ _ _ _ _ H) as Hm'.
      pose proof (guards_le_final _ _ _ _ _ _ Hb' Hn' H) as F.
      rewrite (step_tight cost s (inl (c', s')) Hn ltac:(lia) E).
      + cbn [bind]. apply IH; assumption.
      + split; [lia|]. eapply Forall_impl; [|exact F]. cbn; intros; lia.
    - rewrite (step_tight cost s (inr (c', s')) Hn ltac:(lia) E I). cbn [bind]. exact H.
  Qed.
End Tight.

Lemma run_program_tight d (Hop : dop_budget d) (Htight : dop_tight d) (Hne : noexempt_d d) fuel p e M1 M2 C v :
  run_program d fuel p e M1 = Ok (C, v) ->
  (run_program d fuel p e M2 = Ok (C, v) <-> C <= eff M2).
Proof.
  intros H1. split.
  - apply run_program_sound.
  - intros HC. destruct (N.le_ge_cases (eff M1) (eff M2)) as [H|H].
    + eapply run_program_upward; eassumption.
    + unfold run_program in *. fold (eff M1) in H1. fold (eff M2).
      destruct (eval_pair d init_state p e) as [[c s]|] eqn:E; cbn [bind] in *; [|discriminate].
      eapply (run_loop_tight d Htight Hne (eff M2) (eff M1) H); try eassumption.
      * eapply eval_pair_balanced; [exact E|reflexivity].
      * unfold noexempt. rewrite (eval_pair_guards _ _ _ _ _ _ E). constructor.
Qed.
