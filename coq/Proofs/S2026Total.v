(* Proofs about Model/S2026.v, part 5: the serializer is total (its fuel suffices, none of its
   panic sites is reachable within the format's limits), and the whole round trip
   de_2026 (ser_2026 t ++ rest) = (t, rest). *)
From Clvm Require Import Model.S2026 Model.Classic Proofs.BytesLemmas Proofs.InternProofs Proofs.TreeHashProofs
  Proofs.VarintProofs Proofs.S2026Proofs Proofs.S2026Probe Proofs.S2026Emit Proofs.S2026Bytes.
From Coq Require Import Lia Permutation.
Local Open Scope Z_scope.

(* ------------------------------------------------------------------ the atom sort is a permutation *)
Lemma insert_key_perm k l : Permutation (insert_key k l) (k :: l).
Proof.
  induction l as [|x l IH]; cbn [insert_key]; [apply Permutation_refl|].
  destruct (before k x); [apply Permutation_refl|].
  apply perm_trans with (x :: k :: l); [apply perm_skip; exact IH|apply perm_swap].
Qed.

Lemma sort_keys_perm l : Permutation (sort_keys l) l.
Proof.
  unfold sort_keys. induction l as [|x l IH]; cbn [fold_right]; [constructor|].
  eapply perm_trans; [apply insert_key_perm|]. apply perm_skip. exact IH.
Qed.

Lemma keys_from_idx it : forall atoms i,
  map (fun k : skey => fst (fst k)) (keys_from it i atoms) = seq i (length atoms).
Proof.
  induction atoms as [|a r IH]; intros i; cbn [keys_from map length seq fst]; [reflexivity|].
  now rewrite IH.
Qed.

Lemma filter_len {A} (f : A -> bool) (l : list A) : (length (filter f l) <= length l)%nat.
Proof. induction l as [|x l IH]; cbn [filter length]; [lia|]. destruct (f x); cbn [length]; lia. Qed.

Definition not_nil_idx (it : itree) (old : nat) : bool :=
  match nil_old_idx it with Some n => negb (Nat.eqb old n) | None => true end.

Lemma sorted_all_in it i :
  In i (map (fun k : skey => fst (fst k)) (sort_keys (keys_from it 0 (it_atoms it)))) <->
  (i < length (it_atoms it))%nat.
Proof.
  pose proof (Permutation_map (fun k : skey => fst (fst k)) (sort_keys_perm (keys_from it 0 (it_atoms it)))) as HP.
  rewrite keys_from_idx in HP. split.
  - intros H. apply (Permutation_in _ HP) in H. apply in_seq in H. lia.
  - intros H. apply (Permutation_in _ (Permutation_sym HP)). apply in_seq. lia.
Qed.

Lemma sorted_in it i :
  In i (sorted_no_nil it) <-> (i < length (it_atoms it))%nat /\ not_nil_idx it i = true.
Proof.
  unfold sorted_no_nil. cbv zeta. rewrite filter_In. rewrite sorted_all_in. reflexivity.
Qed.

Lemma sorted_length it : (length (sorted_no_nil it) <= length (it_atoms it))%nat.
Proof.
  unfold sorted_no_nil. cbv zeta. eapply Nat.le_trans; [apply filter_len|].
  rewrite map_length. rewrite (Permutation_length (sort_keys_perm _)).
  rewrite <- (map_length (fun k : skey => fst (fst k))), keys_from_idx, seq_length. lia.
Qed.

(* ------------------------------------------------------------------ the atom table *)
Lemma lookup_atoms_total atoms : forall idxs, (forall i, In i idxs -> (i < length atoms)%nat) ->
  exists table, lookup_atoms atoms idxs = Ok table /\ length table = length idxs.
Proof.
  induction idxs as [|i r IH]; intros H; cbn [lookup_atoms].
  - exists []. split; reflexivity.
  - destruct (nth_error atoms i) as [a|] eqn:E.
    + destruct IH as [rest [Hr Hl]]; [intros j Hj; apply H; now right|]. rewrite Hr. cbn [bind].
      exists (a :: rest). split; [reflexivity|cbn [length]; now rewrite Hl].
    + exfalso. apply nth_error_None in E. specialize (H i (or_introl eq_refl)). lia.
Qed.

Lemma lookup_atoms_In atoms : forall idxs table, lookup_atoms atoms idxs = Ok table ->
  forall b, In b table -> exists i, In i idxs /\ nth_error atoms i = Some b.
Proof.
  induction idxs as [|i0 idxs IH]; intros table Hl b Hb; cbn [lookup_atoms] in Hl.
  - apply Ok_inj in Hl. subst table. destruct Hb.
  - destruct (nth_error atoms i0) as [a|] eqn:Ea; [|discriminate].
    destruct (lookup_atoms atoms idxs) as [rest|] eqn:Er; cbn [bind] in Hl; [|discriminate].
    apply Ok_inj in Hl. subst table. destruct Hb as [<-|Hb].
    + exists i0. split; [now left|exact Ea].
    + destruct (IH rest eq_refl b Hb) as [i [Hi Hn]]. exists i. split; [now right|exact Hn].
Qed.

Lemma lookup_atoms_length atoms : forall idxs table, lookup_atoms atoms idxs = Ok table ->
  length table = length idxs.
Proof.
  induction idxs as [|i0 idxs IH]; intros table Hl; cbn [lookup_atoms] in Hl.
  - apply Ok_inj in Hl. now subst table.
  - destruct (nth_error atoms i0) as [a|] eqn:Ea; [|discriminate].
    destruct (lookup_atoms atoms idxs) as [rest|] eqn:Er; cbn [bind] in Hl; [|discriminate].
    apply Ok_inj in Hl. subst table. cbn [length]. now rewrite (IH rest eq_refl).
Qed.

(* the table holds atoms of the tree, never the empty atom *)
Lemma table_atoms it table : NoDup (it_atoms it) ->
  lookup_atoms (it_atoms it) (sorted_no_nil it) = Ok table ->
  forall b, In b table -> In b (it_atoms it) /\ b <> [].
Proof.
  intros Hnd Hl b Hb. destruct (lookup_atoms_In _ _ _ Hl b Hb) as [i [Hi Hn]].
  split; [eapply nth_error_In; exact Hn|]. intros ->.
  apply sorted_in in Hi. destruct Hi as [Hlt Hnn]. unfold not_nil_idx in Hnn.
  destruct (nil_old_idx it) as [j|] eqn:Ef; unfold nil_old_idx in Ef.
  - apply find_index_some in Ef. destruct Ef as [x [Hx Hxn]]. destruct x; [|discriminate].
    assert (i = j).
    { apply (proj1 (NoDup_nth_error (it_atoms it)) Hnd); [exact Hlt|exact (eq_trans Hn (eq_sym Hx))]. }
    subst j. rewrite Nat.eqb_refl in Hnn. discriminate.
  - pose proof (find_index_none _ _ Ef [] (nth_error_In _ _ Hn)) as Hc. discriminate.
Qed.

Lemma atom_instr_total it i : (i < length (it_atoms it))%nat ->
  exists x, atom_instr it (sorted_no_nil it) i = Ok x /\ 0 <= x <= Z.of_nat (length (it_atoms it)) + 1.
Proof.
  intros Hi. unfold atom_instr.
  destruct (match nil_old_idx it with Some n => Nat.eqb i n | None => false end) eqn:En.
  - exists 0. split; [reflexivity|lia].
  - assert (Hin : In i (sorted_no_nil it)).
    { apply sorted_in. split; [exact Hi|]. unfold not_nil_idx. revert En.
      destruct (nil_old_idx it) as [n|]; intros En; [now rewrite En|reflexivity]. }
    destruct (find_index (Nat.eqb i) (sorted_no_nil it)) as [k|] eqn:Ef.
    + exists (Z.of_nat k + 2). split; [reflexivity|]. apply find_index_some in Ef. destruct Ef as [x [Hx _]].
      assert (k < length (sorted_no_nil it))%nat by (apply nth_error_Some; congruence).
      pose proof (sorted_length it). lia.
    + pose proof (find_index_none _ _ Ef i Hin) as Hc. rewrite Nat.eqb_refl in Hc. discriminate.
Qed.

(* ------------------------------------------------------------------ emit_instructions: the fuel
   3 * |pairs| + 2 suffices. Every pair is expanded at most once: its index enters [order] when its
   cons is emitted, and a pair met again is a back-reference. *)
Section EmitTotal.
  Variable it : itree.
  Variable pts : list sexp.
  Hypothesis Hpts : pair_trees it = Some pts.
  Variable sorted : list nat.
  Notation NT := (node_tree (it_atoms it) pts).
  Notation A := (length (it_atoms it)).
  Notation P := (length (it_pairs it)).
  Hypothesis Hatom : forall i, (i < A)%nat ->
    exists x, atom_instr it sorted i = Ok x /\ 0 <= x <= Z.of_nat A + 1.

  Definition ord_ok (order : list nat) : Prop := NoDup order /\ forall pi, In pi order -> (pi < P)%nat.
  Definition instr_ok (x : Z) : Prop := - (Z.of_nat P + 1) <= x <= Z.of_nat A + 1.

  Lemma ord_ok_length order : ord_ok order -> (length order <= P)%nat.
  Proof.
    intros [Hnd Hlt]. rewrite <- (seq_length P 0). apply NoDup_incl_length; [exact Hnd|].
    intros x Hx. apply in_seq. specialize (Hlt x Hx). lia.
  Qed.

  Lemma emit_node_total : forall t n, NT n = Some t -> forall w order acc, ord_ok order ->
    exists l added,
      (forall fuel, emit_loop it sorted ((1 + 3 * length added) + fuel) (EBuild n :: w) order acc
                    = emit_loop it sorted fuel w (order ++ added) (rev l ++ acc)) /\
      ord_ok (order ++ added) /\
      (forall pi, In pi added -> exists t', NT (IP pi) = Some t' /\ (n_nodes t' <= n_nodes t)%nat) /\
      (length l <= 1 + 3 * length added)%nat /\
      Forall instr_ok l.
  Proof.
    induction t as [b|tl IHl tr IHr]; intros n Hn w order acc HO.
    - destruct (NT_atom it pts Hpts _ _ Hn) as [i [-> Hi]].
      assert (Hlt : (i < A)%nat) by (apply nth_error_Some; congruence).
      destruct (Hatom i Hlt) as [x [Hx Hxr]].
      exists [x], []. split; [|split; [|split; [|split]]].
      + intros fuel. cbn [length]. replace (1 + 3 * 0 + fuel)%nat with (S fuel) by lia.
        cbn [emit_loop]. rewrite Hx. cbn [bind rev app]. rewrite app_nil_r. reflexivity.
      + rewrite app_nil_r. exact HO.
      + intros pi [].
      + cbn [length]. lia.
      + constructor; [unfold instr_ok; lia|constructor].
    - destruct (NT_pair it pts Hpts _ _ _ Hn) as [j [l [r [-> [Hj [Hl Hr]]]]]].
      destruct (find_index (Nat.eqb j) order) as [ci|] eqn:Ef.
      + exists [- (Z.of_nat ci + 2)], []. split; [|split; [|split; [|split]]].
        * intros fuel. cbn [length]. replace (1 + 3 * 0 + fuel)%nat with (S fuel) by lia.
          cbn [emit_loop]. rewrite Ef. cbn [rev app]. rewrite app_nil_r. reflexivity.
        * rewrite app_nil_r. exact HO.
        * intros pi [].
        * cbn [length]. lia.
        * constructor; [|constructor]. apply find_index_some in Ef. destruct Ef as [x [Hx _]].
          assert (ci < length order)%nat by (apply nth_error_Some; congruence).
          pose proof (ord_ok_length order HO). unfold instr_ok. lia.
      + destruct (IHl l Hl (EBuild r :: ECons j :: w) order acc HO) as [l1 [a1 [E1 [HO1 [Hs1 [Hl1 Hi1]]]]]].
        destruct (IHr r Hr (ECons j :: w) (order ++ a1) (rev l1 ++ acc) HO1) as [l2 [a2 [E2 [HO2 [Hs2 [Hl2 Hi2]]]]]].
        assert (Hjt : NT (IP j) = Some (Cons tl tr)) by exact Hn.
        assert (Hjn : ~ In j ((order ++ a1) ++ a2)).
        { rewrite !in_app_iff. intros [[Hin|Hin]|Hin].
          - pose proof (find_index_none _ _ Ef j Hin) as Hc. rewrite Nat.eqb_refl in Hc. discriminate.
          - destruct (Hs1 j Hin) as [t' [Ht' Hsz]]. rewrite Hjt in Ht'. inversion Ht'; subst t'.
            cbn [n_nodes] in Hsz. lia.
          - destruct (Hs2 j Hin) as [t' [Ht' Hsz]]. rewrite Hjt in Ht'. inversion Ht'; subst t'.
            cbn [n_nodes] in Hsz. lia. }
        exists (l1 ++ l2 ++ [1]), (a1 ++ a2 ++ [j]). split; [|split; [|split; [|split]]].
        * intros fuel.
          replace (1 + 3 * length (a1 ++ a2 ++ [j]) + fuel)%nat
            with (S ((1 + 3 * length a1) + ((1 + 3 * length a2) + S fuel)))%nat
            by (rewrite !app_length; cbn [length]; lia).
          cbn [emit_loop]. rewrite Ef, Hj. rewrite E1, E2. cbn [emit_loop].
          rewrite !rev_app_distr. cbn [rev app]. rewrite <- !app_assoc. reflexivity.
        * replace (order ++ a1 ++ a2 ++ [j]) with (((order ++ a1) ++ a2) ++ [j])
            by (rewrite <- !app_assoc; reflexivity).
          destruct HO2 as [Hnd Hlt]. split; [apply NoDup_snoc; assumption|].
          intros pi Hin. apply in_app_iff in Hin. destruct Hin as [Hin|[<-|[]]]; [now apply Hlt|].
          apply nth_error_Some. rewrite Hj. discriminate.
        * intros pi Hin. rewrite !in_app_iff in Hin. destruct Hin as [Hin|[Hin|[<-|[]]]].
          -- destruct (Hs1 pi Hin) as [t' [Ht' Hsz]]. exists t'. split; [exact Ht'|cbn [n_nodes]; lia].
          -- destruct (Hs2 pi Hin) as [t' [Ht' Hsz]]. exists t'. split; [exact Ht'|cbn [n_nodes]; lia].
          -- exists (Cons tl tr). split; [exact Hjt|lia].
        * rewrite !app_length. cbn [length]. lia.
        * apply Forall_app; split; [exact Hi1|]. apply Forall_app; split; [exact Hi2|].
          constructor; [unfold instr_ok; lia|constructor].
  Qed.

  Theorem emit_instructions_total t : NT (it_root it) = Some t ->
    exists instrs, emit_instructions it sorted = Ok instrs /\
      (length instrs <= 3 * P + 1)%nat /\ Forall instr_ok instrs.
  Proof.
    intros Hroot.
    assert (HO0 : ord_ok []) by (split; [constructor|intros pi []]).
    destruct (emit_node_total t _ Hroot [] [] [] HO0) as [l [added [E [HO [_ [Hl Hi]]]]]].
    cbn [app] in E, HO. pose proof (ord_ok_length _ HO) as Hle.
    assert (Hloop : emit_loop it sorted (3 * P + 2) [EBuild (it_root it)] [] [] = Ok l).
    { replace (3 * P + 2)%nat with ((1 + 3 * length added) + S (3 * (P - length added)))%nat by lia.
      rewrite E. cbn [emit_loop]. now rewrite app_nil_r, rev_involutive. }
    unfold emit_instructions. destruct (it_pairs it) as [|p0 ps] eqn:Eps.
    - destruct (it_root it) as [i|j] eqn:Er.
      + cbn [node_tree] in Hroot. destruct (nth_error (it_atoms it) i) as [b|] eqn:Ei; [|discriminate].
        assert (Hlt : (i < A)%nat) by (apply nth_error_Some; congruence).
        destruct (Hatom i Hlt) as [x [Hx Hxr]]. rewrite Hx. cbn [bind]. exists [x].
        split; [reflexivity|]. split; [cbn [length]; lia|].
        constructor; [unfold instr_ok; lia|constructor].
      + exfalso. unfold pair_trees in Hpts. rewrite Eps in Hpts. cbn [build_pairs] in Hpts.
        inversion Hpts; subst pts. cbn [node_tree] in Hroot. destruct j; discriminate.
    - exists l. split; [exact Hloop|]. split; [lia|exact Hi].
  Qed.
End EmitTotal.

(* ------------------------------------------------------------------ the writers never panic in range *)
Lemma write_varints_total : forall l, Forall (fun x => - v55 <= x < v55) l -> exists e, write_varints l = Ok e.
Proof.
  induction l as [|x l IH]; intros H; cbn [write_varints]; [now exists []|].
  inversion H as [|? ? Hx Hl]; subst. destruct (wv_total x Hx) as [e1 ->]. destruct (IH Hl) as [e2 ->].
  cbn [bind]. eexists. reflexivity.
Qed.

Lemma write_group_total g : 1 <= fst g < v55 -> Z.of_nat (length (snd g)) < v55 -> exists e, write_group g = Ok e.
Proof.
  destruct g as [len atoms]. cbn [fst snd]. intros Hlen Hc. unfold write_group.
  assert (Hmulti : exists e, (do e1 <- wv (- len); do e2 <- wv (Z.of_nat (length atoms)); Ok (e1 ++ e2 ++ concat atoms)) = Ok e).
  { destruct (wv_total (- len)) as [e1 ->]; [lia|].
    destruct (wv_total (Z.of_nat (length atoms))) as [e2 ->]; [unfold v55 in *; lia|].
    cbn [bind]. eexists. reflexivity. }
  destruct atoms as [|a [|b r]]; [exact Hmulti| |exact Hmulti].
  destruct (wv_total len) as [e1 ->]; [lia|]. cbn [bind]. eexists. reflexivity.
Qed.

Lemma write_groups_total : forall gs,
  Forall (fun g => 1 <= fst g < v55 /\ Z.of_nat (length (snd g)) < v55) gs -> exists e, write_groups gs = Ok e.
Proof.
  induction gs as [|g gs IH]; intros H; cbn [write_groups]; [now exists []|].
  inversion H as [|? ? [Hg1 Hg2] Hgs]; subst. destruct (write_group_total g Hg1 Hg2) as [e1 ->].
  destruct (IH Hgs) as [e2 ->]. cbn [bind]. eexists. reflexivity.
Qed.

Lemma length_concat_in {A} (y : list A) : forall l, In y l -> (length y <= length (concat l))%nat.
Proof.
  induction l as [|x l IH]; intros H; [destruct H|]. cbn [concat]. rewrite app_length.
  destruct H as [->|H]; [lia|]. specialize (IH H). lia.
Qed.

Lemma group_atoms_bounds m table g : Forall (atom_ok m) table ->
  Forall (fun a => Z.of_nat (length a) < v55) table -> In g (group_atoms table) ->
  1 <= fst g < v55 /\ (length (snd g) <= length table)%nat.
Proof.
  intros Hok Hlen Hg.
  pose proof (proj1 (Forall_forall _ _) (group_atoms_ok m table Hok) g Hg) as (Hne & Hl & Hall).
  pose proof (group_atoms_concat table) as Hc.
  assert (Hin : In (snd g) (map snd (group_atoms table))) by (apply in_map; exact Hg).
  split.
  - split; [lia|]. destruct (snd g) as [|a r] eqn:Es; [congruence|].
    inversion Hall as [|? ? [Ha _] _]; subst.
    assert (In a table).
    { rewrite <- Hc. apply in_concat. exists (a :: r). split; [exact Hin|now left]. }
    pose proof (proj1 (Forall_forall _ _) Hlen a H) as Hla. cbv beta in Hla. lia.
  - replace (length table) with (length (concat (map snd (group_atoms table)))) by (now rewrite Hc).
    now apply length_concat_in.
Qed.

Lemma write_atom_table_total m table : Forall (atom_ok m) table ->
  Forall (fun a => Z.of_nat (length a) < v55) table -> Z.of_nat (length table) < v55 ->
  exists e, write_atom_table table = Ok e.
Proof.
  intros Hok Hlen Hn. unfold write_atom_table.
  pose proof (group_atoms_length table) as Hgl.
  destruct (wv_total (Z.of_nat (length (group_atoms table)))) as [e0 ->]; [unfold v55 in *; lia|].
  destruct (write_groups_total (group_atoms table)) as [body ->].
  { apply Forall_forall. intros g Hg. destruct (group_atoms_bounds m table g Hok Hlen Hg) as [H1 H2].
    split; [exact H1|lia]. }
  cbn [bind]. eexists. reflexivity.
Qed.

Lemma write_atom_table_wf m table tbytes : Forall (atom_ok m) table ->
  write_atom_table table = Ok tbytes -> wf_bytes tbytes = true.
Proof.
  intros Hok H. unfold write_atom_table in H.
  destruct (wv (Z.of_nat (length (group_atoms table)))) as [e0|] eqn:E0; cbn [bind] in H; [|discriminate].
  destruct (write_groups (group_atoms table)) as [body|] eqn:Eb; cbn [bind] in H; [|discriminate].
  apply Ok_inj in H. subst tbytes.
  rewrite wf_bytes_app, (wv_wf _ _ E0), (write_groups_wf m _ _ (group_atoms_ok m table Hok) Eb). reflexivity.
Qed.

(* ------------------------------------------------------------------ the serializer body *)
Definition atoms_in_range (atoms : list bytes) : Prop :=
  Forall (fun a => wf_bytes a = true /\ Z.of_nat (length a) < v55) atoms.

Lemma table_ok it table m : NoDup (it_atoms it) ->
  lookup_atoms (it_atoms it) (sorted_no_nil it) = Ok table ->
  Forall (fun a => wf_bytes a = true /\ Z.of_nat (length a) <= m) (it_atoms it) ->
  Forall (atom_ok m) table.
Proof.
  intros Hnd Hl Hall. apply Forall_forall. intros b Hb.
  destruct (table_atoms it table Hnd Hl b Hb) as [Hin Hne].
  destruct (proj1 (Forall_forall _ _) Hall b Hin) as [Hw Hm].
  split; [|exact Hw]. destruct b; [congruence|]. cbn [length] in *. lia.
Qed.

Theorem ser_body_of_total it pts t :
  Inv (it_atoms it) (it_pairs it) pts -> node_tree (it_atoms it) pts (it_root it) = Some t ->
  atoms_in_range (it_atoms it) ->
  match ser_body_of it with
  | Ok _ => Z.of_nat (length (it_atoms it)) <= max_index /\ Z.of_nat (length (it_pairs it)) <= max_index
  | Err e => e = SerializationError /\
             (max_index < Z.of_nat (length (it_atoms it)) \/ max_index < Z.of_nat (length (it_pairs it)))
  end.
Proof.
  intros HI Hroot Hrange. unfold ser_body_of.
  destruct (Z.ltb_spec max_index (Z.of_nat (length (it_atoms it)))) as [Ha|Ha]; cbn [orb];
    [split; [reflexivity|now left]|].
  destruct (Z.ltb_spec max_index (Z.of_nat (length (it_pairs it)))) as [Hp|Hp];
    [split; [reflexivity|now right]|].
  cbv zeta.
  destruct (lookup_atoms_total (it_atoms it) (sorted_no_nil it)) as [table [Htab Htl]].
  { intros i Hi. apply sorted_in in Hi. tauto. }
  rewrite Htab. cbn [bind].
  assert (Hok : Forall (atom_ok v55) table).
  { apply (table_ok it table v55 (inv_nd_atoms _ _ _ HI) Htab).
    eapply Forall_impl; [|exact Hrange]. cbn. intros a [H1 H2]. split; [exact H1|lia]. }
  assert (Hlens : Forall (fun a => Z.of_nat (length a) < v55) table).
  { apply Forall_forall. intros b Hb. destruct (table_atoms it table (inv_nd_atoms _ _ _ HI) Htab b Hb) as [Hin _].
    exact (proj2 (proj1 (Forall_forall _ _) Hrange b Hin)). }
  pose proof (sorted_length it) as Hsl.
  destruct (write_atom_table_total v55 table Hok Hlens) as [tbytes ->].
  { unfold max_index, v55 in *. lia. }
  cbn [bind].
  destruct (emit_instructions_total it pts (inv_build _ _ _ HI) (sorted_no_nil it) (atom_instr_total it) t Hroot)
    as [instrs [-> [Hil Hio]]].
  cbn [bind].
  destruct (wv_total (Z.of_nat (length instrs))) as [n ->]; [unfold max_index, v55 in *; lia|].
  cbn [bind].
  destruct (write_varints_total instrs) as [ibytes ->].
  { eapply Forall_impl; [|exact Hio]. cbn. unfold instr_ok, max_index, v55 in *. intros x Hx. lia. }
  cbn [bind]. split; assumption.
Qed.

(* ------------------------------------------------------------------ specialised to intern_tree t *)
Lemma wf_sexp_atoms : forall t, wf_sexp t = true -> forall a, In a (atoms_of t) -> wf_bytes a = true.
Proof.
  induction t as [b|l IHl r IHr]; cbn [wf_sexp atoms_of]; intros H a Ha.
  - destruct Ha as [<-|[]]. exact H.
  - apply andb_prop in H. destruct H as [H1 H2]. apply in_app_iff in Ha. destruct Ha; [now apply IHl|now apply IHr].
Qed.

Lemma max_len_exists : forall l : list bytes, exists m, Forall (fun a => Z.of_nat (length a) <= m) l.
Proof.
  induction l as [|a l [m IH]]; [exists 0; constructor|].
  exists (Z.max m (Z.of_nat (length a))). constructor; [lia|].
  eapply Forall_impl; [|exact IH]. cbn. intros; lia.
Qed.

(* the limits of the format: all atoms are byte strings shorter than 2^55 (the varint range) *)
Definition tree_in_range (t : sexp) : Prop :=
  wf_sexp t = true /\ forall a, In a (atoms_of t) -> Z.of_nat (length a) < v55.

Theorem ser_2026_total level t : tree_in_range t ->
  match ser_2026 level t with
  | Ok _ => Z.of_nat (length (it_atoms (intern_tree t))) <= max_index /\
            Z.of_nat (length (it_pairs (intern_tree t))) <= max_index
  | Err e => e = SerializationError /\
             (max_index < Z.of_nat (length (it_atoms (intern_tree t))) \/
              max_index < Z.of_nat (length (it_pairs (intern_tree t))))
  end.
Proof.
  intros [Hwf Hlen]. destruct (intern_tree_spec t) as [HI [_ Hn]].
  assert (Hrange : atoms_in_range (it_atoms (intern_tree t))).
  { apply Forall_forall. intros a Ha. apply intern_atoms_In in Ha.
    split; [exact (wf_sexp_atoms t Hwf a Ha)|exact (Hlen a Ha)]. }
  pose proof (ser_body_of_total (intern_tree t) (distinct_pairs t) t HI Hn Hrange) as H.
  unfold ser_2026, ser_body. destruct (ser_body_of (intern_tree t)); cbn [bind]; exact H.
Qed.

Theorem ser_de_roundtrip level t e strict m rest :
  wf_sexp t = true -> wf_bytes rest = true ->
  (forall a, In a (atoms_of t) -> Z.of_nat (length a) <= m) ->
  ser_2026 level t = Ok e ->
  wf_bytes e = true /\ de_2026 Atom Cons strict m (e ++ rest) = Ok (t, rest).
Proof.
  intros Hwf Hr Hm H. unfold ser_2026, ser_body in H.
  destruct (ser_body_of (intern_tree t)) as [b|] eqn:Eb; cbn [bind] in H; [|discriminate].
  apply Ok_inj in H. subst e. unfold ser_body_of in Eb.
  destruct ((max_index <? Z.of_nat (length (it_atoms (intern_tree t)))) ||
            (max_index <? Z.of_nat (length (it_pairs (intern_tree t))))); [discriminate|].
  cbv zeta in Eb.
  destruct (lookup_atoms (it_atoms (intern_tree t)) (sorted_no_nil (intern_tree t))) as [table|] eqn:Htab;
    cbn [bind] in Eb; [|discriminate].
  destruct (write_atom_table table) as [tbytes|] eqn:Ht; cbn [bind] in Eb; [|discriminate].
  destruct (emit_instructions (intern_tree t) (sorted_no_nil (intern_tree t))) as [instrs|] eqn:Hi;
    cbn [bind] in Eb; [|discriminate].
  destruct (wv (Z.of_nat (length instrs))) as [n|] eqn:Hn; cbn [bind] in Eb; [|discriminate].
  destruct (write_varints instrs) as [ibytes|] eqn:Hw; cbn [bind] in Eb; [|discriminate].
  apply Ok_inj in Eb. subst b.
  assert (Hok : Forall (atom_ok m) table).
  { apply (table_ok (intern_tree t) table m (intern_atoms_NoDup t) Htab).
    apply Forall_forall. intros a Ha. apply intern_atoms_In in Ha.
    split; [exact (wf_sexp_atoms t Hwf a Ha)|exact (Hm a Ha)]. }
  destruct (emit_exec_intern t table instrs Htab Hi) as [dp Hex].
  split.
  - rewrite !wf_bytes_app, (write_atom_table_wf m table tbytes Hok Ht), (wv_wf _ _ Hn), (write_varints_wf _ _ Hw).
    reflexivity.
  - rewrite <- app_assoc. rewrite de_2026_magic.
    exact (de_body_ser strict m table tbytes instrs n ibytes t dp rest Hok Ht Hn Hw Hex Hr).
Qed.

Lemma ser_2026_wf level t e : wf_sexp t = true -> ser_2026 level t = Ok e -> wf_bytes e = true.
Proof.
  intros Hwf H. destruct (max_len_exists (atoms_of t)) as [m Hm].
  refine (proj1 (ser_de_roundtrip level t e true m [] Hwf eq_refl _ H)).
  intros a Ha. exact (proj1 (Forall_forall _ _) Hm a Ha).
Qed.

(* ------------------------------------------------------------------ the statements of C20 *)
Theorem ser_de_roundtrip_exact level t e strict m :
  wf_sexp t = true -> (forall a, In a (atoms_of t) -> Z.of_nat (length a) <= m) ->
  ser_2026 level t = Ok e -> de_2026 Atom Cons strict m e = Ok (t, []).
Proof.
  intros Hwf Hm H. destruct (ser_de_roundtrip level t e strict m [] Hwf eq_refl Hm H) as [_ Hd].
  now rewrite app_nil_r in Hd.
Qed.

Theorem ser_probe_len level t e strict m :
  wf_sexp t = true -> (forall a, In a (atoms_of t) -> Z.of_nat (length a) <= m) ->
  ser_2026 level t = Ok e -> Z.of_nat (length e) < u64_lim ->
  probe_2026 strict m e = Ok (Z.of_nat (length e)).
Proof.
  intros Hwf Hm H Hlim.
  pose proof (ser_2026_wf level t e Hwf H) as Hwe.
  pose proof (ser_de_roundtrip_exact level t e strict m Hwf Hm H) as Hd.
  rewrite (probe_consumed Atom Cons strict m e t [] Hwe Hlim Hd). cbn [length]. f_equal. lia.
Qed.

(* everything at once, for every tree within the limits of the format: the serializer returns
   normally; it fails exactly when there are more than MAX_INDEX distinct atoms or pairs (its one
   check); otherwise its output decodes to the tree in both modes and the probe returns its length *)
Theorem ser_2026_all level t m : tree_in_range t ->
  (forall a, In a (atoms_of t) -> Z.of_nat (length a) <= m) ->
  match ser_2026 level t with
  | Ok e => wf_bytes e = true /\
            (forall strict, de_2026 Atom Cons strict m e = Ok (t, [])) /\
            (Z.of_nat (length e) < u64_lim -> forall strict, probe_2026 strict m e = Ok (Z.of_nat (length e)))
  | Err er => er = SerializationError /\
              (max_index < Z.of_nat (length (it_atoms (intern_tree t))) \/
               max_index < Z.of_nat (length (it_pairs (intern_tree t))))
  end.
Proof.
  intros Hr Hm. pose proof (ser_2026_total level t Hr) as Ht. destruct Hr as [Hwf _].
  destruct (ser_2026 level t) as [e|er] eqn:E; [|exact Ht].
  split; [exact (ser_2026_wf level t e Hwf E)|]. split.
  - intros strict. exact (ser_de_roundtrip_exact level t e strict m Hwf Hm E).
  - intros Hlim strict. exact (ser_probe_len level t e strict m Hwf Hm E Hlim).
Qed.
