(* node_to_stream over a LimitedWriter (C29), is_canonical_serialization on serializer output,
   serialized-length functions (C15). *)
From Clvm Require Import Model.Classic Proofs.BytesLemmas Proofs.DecoderGeneric Proofs.ClassicAtoms Proofs.ClassicProofs.
From Coq Require Import Lia ZifyBool ZifyN ZifyNat.
Ltac Zify.zify_post_hook ::= Z.div_mod_to_equations.
Open Scope N_scope.

Lemma blen_app a b : blen (a ++ b) = blen a + blen b.
Proof. unfold blen. rewrite app_length. lia. Qed.

Fixpoint ser_list (vs : list sexp) : option bytes :=
  match vs with
  | [] => Some []
  | v :: r => match ser v, ser_list r with Some a, Some b => Some (a ++ b) | _, _ => None end
  end.

Fixpoint steps (vs : list sexp) : nat :=
  match vs with [] => O | v :: r => (n_nodes v + steps r)%nat end.

Lemma lw_write_spec w c :
  lw_write w c = if lw_limit w <? blen c then None
                 else Some {| lw_out := lw_out w ++ c; lw_limit := lw_limit w - blen c |}.
Proof.
  destruct c as [|x c]; [|reflexivity]. cbn. destruct w as [o l]. cbn.
  rewrite app_nil_r, N.sub_0_r. destruct (l <? 0) eqn:E; [lia|reflexivity].
Qed.

Lemma node_to_stream_spec : forall fuel vs w s,
  ser_list vs = Some s -> (steps vs < fuel)%nat ->
  node_to_stream fuel vs w =
    if blen s <=? lw_limit w then Ok {| lw_out := lw_out w ++ s; lw_limit := lw_limit w - blen s |}
    else Err OutOfMemory.
Proof.
  induction fuel as [|f IH]; intros vs w s Hs Hf; [lia|].
  destruct vs as [|[b|l r] vs]; cbn [node_to_stream].
  - cbn in Hs. injection Hs as <-. destruct w as [o lim]. cbn. rewrite app_nil_r, N.sub_0_r.
    destruct (0 <=? lim) eqn:E; [reflexivity|lia].
  - cbn [ser_list ser] in Hs. destruct (ser_atom b) as [e|] eqn:Ea; [|discriminate].
    destruct (ser_list vs) as [s'|] eqn:Es; [|discriminate]. injection Hs as <-.
    unfold ser_atom in Ea. destruct (atom_prefix _ _) as [p|] eqn:Ep; [|discriminate]. injection Ea as <-.
    unfold lw_write_atom. rewrite Ep, lw_write_spec.
    rewrite !blen_app. destruct (N.ltb_spec (lw_limit w) (blen p)).
    { cbn. destruct (N.leb_spec (blen p + blen b + blen s') (lw_limit w)); [lia|reflexivity]. }
    rewrite lw_write_spec. cbn [lw_limit lw_out].
    destruct (N.ltb_spec (lw_limit w - blen p) (blen b)).
    { cbn. destruct (N.leb_spec (blen p + blen b + blen s') (lw_limit w)); [lia|reflexivity]. }
    cbn [bind]. rewrite (IH vs _ s' Es) by (cbn in Hf; lia). cbn [lw_limit lw_out].
    destruct (N.leb_spec (blen s') (lw_limit w - blen p - blen b));
      destruct (N.leb_spec (blen p + blen b + blen s') (lw_limit w)); try lia; [|reflexivity].
    f_equal. f_equal; [rewrite <- !app_assoc; reflexivity|lia].
  - cbn [ser_list ser] in Hs. destruct (ser l) as [a|] eqn:El; [|discriminate].
    destruct (ser r) as [c|] eqn:Er; [|discriminate].
    destruct (ser_list vs) as [s'|] eqn:Es; [|discriminate]. injection Hs as <-.
    rewrite lw_write_spec. change (blen [255]) with 1.
    cbn [app]. unfold blen at 1. cbn [length]. rewrite !app_length.
    destruct (N.ltb_spec (lw_limit w) 1).
    { destruct (N.leb_spec (N.of_nat (S (length a + length c + length s'))) (lw_limit w)); [lia|reflexivity]. }
    rewrite (IH (l :: r :: vs) _ (a ++ c ++ s')); cycle 1.
    { cbn [ser_list]. rewrite El, Er, Es. reflexivity. }
    { cbn [steps n_nodes] in Hf |- *. lia. }
    cbn [lw_limit lw_out]. rewrite !blen_app. unfold blen.
    destruct (N.leb_spec (N.of_nat (length a) + (N.of_nat (length c) + N.of_nat (length s'))) (lw_limit w - 1));
      destruct (N.leb_spec (N.of_nat (S (length a + length c + length s'))) (lw_limit w)); try lia; [|reflexivity].
    f_equal. f_equal; [|cbn [length]; rewrite !app_length; lia]. rewrite <- !app_assoc. reflexivity.
Qed.

Theorem node_to_bytes_limit_spec : forall t s limit, ser t = Some s ->
  node_to_bytes_limit t limit = if blen s <=? limit then Ok s else Err OutOfMemory.
Proof.
  intros t s limit Hs. unfold node_to_bytes_limit.
  rewrite (node_to_stream_spec _ [t] _ s).
  - cbn [lw_limit lw_out]. destruct (blen s <=? limit); reflexivity.
  - cbn. rewrite Hs, app_nil_r. reflexivity.
  - cbn. lia.
Qed.

(* ---------- is_canonical_serialization (ser t) ---------- *)
Lemma canon_atom_ser b e rest : wf_bytes b = true -> ser_atom b = Some e ->
  exists first tl, e ++ rest = first :: tl /\ first < 0xfc /\ is_canonical_atom first tl = CTrue rest.
Proof.
  intros Hwf Hs. destruct (ser_atom_shape b e Hwf Hs) as [-> ->|x -> Hx ->|c hi more Hc Hhi Hl Hw -> Hsz Hmin H1 Hf].
  - exists 0x80, rest. split; [reflexivity|]. split; [lia|]. reflexivity.
  - exists x, rest. split; [reflexivity|]. split; [lia|]. unfold is_canonical_atom.
    destruct (N.eqb_spec x 128); [lia|]. destruct (N.leb_spec x 127); [reflexivity|lia].
  - exists (tag_of c + hi), (more ++ b ++ rest). split; [cbn; rewrite <- app_assoc; reflexivity|].
    split; [lia|]. unfold is_canonical_atom.
    destruct (N.eqb_spec (tag_of c + hi) 128); [lia|]. destruct (N.leb_spec (tag_of c + hi) 127); [lia|].
    cbn [orb]. rewrite decode_size_arith by (assumption || lia).
    destruct (N.ltb_spec 6 c); [lia|]. cbv zeta. rewrite <- Hsz.
    destruct (N.leb_spec 17179869184 (blen b)); [lia|].
    assert (Hmv : canon_min_value c = Some (min_size c)).
    { assert (Hcc : c = 1 \/ c = 2 \/ c = 3 \/ c = 4 \/ c = 5) by lia.
      destruct Hcc as [->|[->|[->|[->| ->]]]]; reflexivity. }
    rewrite Hmv. destruct (N.eqb_spec (blen b) 1) as [E1|E1].
    + destruct b as [|v [|y r]]; try (unfold blen in E1; cbn [length] in E1; lia).
      specialize (H1 E1). cbn in H1. cbn [app]. destruct (N.ltb_spec v 128); [lia|].
      destruct (N.leb_spec (min_size c) (blen [v])); [reflexivity|lia].
    + rewrite take_n_app. destruct (N.leb_spec (min_size c) (blen b)); [reflexivity|lia].
Qed.

Lemma canonical_loop_ser : forall t e, wf_sexp t = true -> ser t = Some e ->
  exists n, (n <= 2 * length e)%nat /\
    forall k counter rest, canonical_loop (n + k) (counter + 1) (e ++ rest) = canonical_loop k counter rest.
Proof.
  induction t as [b|l IHl r IHr]; intros e Hwf Hs.
  - cbn in Hs, Hwf. exists 1%nat. split.
    { unfold ser_atom in Hs. destruct (atom_prefix _ _) as [p|] eqn:Ep; [|discriminate]. injection Hs as <-.
      rewrite app_length. unfold atom_prefix in Ep. destruct b; [|cbn; lia]. cbn in Ep. injection Ep as <-. cbn. lia. }
    intros k counter rest. destruct (canon_atom_ser b e rest Hwf Hs) as (first & tl & -> & Hlt & Hc).
    cbn [Nat.add canonical_loop]. destruct (N.eqb_spec (counter + 1) 0); [lia|].
    destruct (N.eqb_spec first 255); [lia|]. destruct (N.eqb_spec first 254); [lia|].
    rewrite Hc. replace (counter + 1 - 1) with counter by lia. reflexivity.
  - cbn in Hs, Hwf. apply andb_prop in Hwf. destruct Hwf as [Hwl Hwr].
    destruct (ser l) as [a|] eqn:El; [|discriminate]. destruct (ser r) as [c|] eqn:Er; [|discriminate].
    injection Hs as <-. destruct (IHl a Hwl eq_refl) as (n1 & B1 & H1). destruct (IHr c Hwr eq_refl) as (n2 & B2 & H2).
    exists (S (n1 + n2)). split; [cbn; rewrite app_length; lia|].
    intros k counter rest. cbn [Nat.add canonical_loop app]. destruct (N.eqb_spec (counter + 1) 0); [lia|].
    rewrite N.eqb_refl. replace (counter + 1 - 1 + 2) with ((counter + 1) + 1) by lia.
    rewrite <- app_assoc, <- Nat.add_assoc, H1, H2. reflexivity.
Qed.

Theorem is_canonical_ser : forall t e, wf_sexp t = true -> ser t = Some e ->
  is_canonical_serialization e = BTrue.
Proof.
  intros t e Hwf Hs. unfold is_canonical_serialization, de_fuel.
  destruct (canonical_loop_ser t e Hwf Hs) as (n & B & Hn).
  replace (2 * length e + 2)%nat with (n + (2 * length e + 2 - n))%nat by lia.
  rewrite <- (app_nil_r e) at 2. change 1 with (0 + 1). rewrite Hn.
  destruct (2 * length e + 2 - n)%nat eqn:E; [lia|]. reflexivity.
Qed.

(* ---------- serialized_length_from_bytes_trusted ---------- *)
Lemma trusted_atom b r a r' : b <> 255 -> parse_atom_node b r = Ok (a, r') ->
  forall f counter, trusted_len_loop (S f) (counter + 1) (b :: r) = trusted_len_loop f counter r'.
Proof.
  intros Hb Hp f counter. cbn [trusted_len_loop]. destruct (N.eqb_spec (counter + 1) 0); [lia|].
  replace (counter + 1 - 1) with counter by lia.
  destruct (N.eqb_spec b 255); [contradiction|].
  unfold parse_atom_node in Hp.
  destruct (N.eqb_spec b 1) as [->|N1].
  { injection Hp as _ <-. reflexivity. }
  destruct (N.eqb_spec b 128) as [->|N80].
  { injection Hp as _ <-. reflexivity. }
  destruct (N.leb_spec b 127) as [L|L].
  { injection Hp as _ <-. destruct (N.eqb_spec b 254); [lia|]. reflexivity. }
  destruct (N.eqb_spec b 254) as [->|N254].
  { exfalso. unfold decode_size, decode_size_with_offset in Hp.
    change (N.land 254 128 =? 0) with false in Hp. change (leading_ones8 254) with 7 in Hp.
    change (8 <=? 7) with false in Hp. cbv iota in Hp.
    destruct (take_exact (N.to_nat (7 - 1)) r) as [[more rest']|]; cbn in Hp; discriminate. }
  cbn [orb]. destruct (decode_size b r) as [[size r0]|] eqn:E; cbn [bind] in Hp |- *; [|discriminate].
  destruct (take_n size r0) as [[blob r1]|]; [|discriminate]. injection Hp as _ <-. reflexivity.
Qed.

Lemma trusted_loop_parse : forall pf bs t rest, parse_rec read_atom_node Cons pf bs = Ok (t, rest) ->
  exists n, (n <= 2 * (length bs - length rest))%nat /\ (1 <= n)%nat /\
    forall k counter, trusted_len_loop (n + k) (counter + 1) bs = trusted_len_loop k counter rest.
Proof.
  induction pf as [|f IH]; intros bs t rest H; cbn in H; [discriminate|].
  destruct bs as [|b r]; [discriminate|].
  destruct (N.eqb_spec b 255) as [->|Nb].
  - destruct (parse_rec _ _ f r) as [[l r1]|] eqn:E1; cbn in H; [|discriminate].
    destruct (parse_rec _ _ f r1) as [[rt r2]|] eqn:E2; cbn in H; [|discriminate].
    injection H as <- <-.
    pose proof (parse_rec_shrinks _ _ read_atom_node_shrinks read_atom_node_err _ _ _ _ E1) as S1.
    pose proof (parse_rec_shrinks _ _ read_atom_node_shrinks read_atom_node_err _ _ _ _ E2) as S2.
    destruct (IH _ _ _ E1) as (n1 & B1 & P1 & H1). destruct (IH _ _ _ E2) as (n2 & B2 & P2 & H2).
    exists (S (n1 + n2)). split; [cbn [length]; lia|]. split; [lia|].
    intros k counter. cbn [Nat.add trusted_len_loop]. destruct (N.eqb_spec (counter + 1) 0); [lia|].
    rewrite N.eqb_refl. replace (counter + 1 - 1 + 2) with ((counter + 1) + 1) by lia.
    rewrite <- Nat.add_assoc, H1, H2. reflexivity.
  - unfold read_atom_node in H. destruct (parse_atom_node b r) as [[a r']|] eqn:Ea; cbn in H; [|discriminate].
    injection H as <- <-. pose proof (read_atom_node_shrinks b r (Atom a) r') as S1.
    unfold read_atom_node in S1. rewrite Ea in S1. specialize (S1 eq_refl).
    exists 1%nat. split; [cbn [length]; lia|]. split; [lia|].
    intros k counter. apply (trusted_atom b r a r' Nb Ea).
Qed.

Theorem trusted_length_parse : forall bs t rest, parse bs = Ok (t, rest) ->
  serialized_length_trusted bs = Ok (blen bs - blen rest).
Proof.
  intros bs t rest H. unfold serialized_length_trusted, de_fuel, parse in *.
  destruct (trusted_loop_parse _ _ _ _ H) as (n & B & P & Hn).
  replace (2 * length bs + 2)%nat with (n + (2 * length bs + 2 - n))%nat by lia.
  change 1 with (0 + 1). rewrite Hn. destruct (2 * length bs + 2 - n)%nat eqn:E; [lia|]. reflexivity.
Qed.

(* ---------- object-cache serialized length ---------- *)
(* [injection] on these hypotheses does not terminate in reasonable time (it normalises the
   big N literals in the remaining branches); a plain lemma avoids it *)
Lemma Some_inj {A} (a b : A) : Some a = Some b -> a = b.
Proof. intros H. injection H as H. exact H. Qed.

Lemma serialized_length_atom_spec b e : ser_atom b = Some e -> blen b < 4294967291 ->
  serialized_length_atom b = Ok (blen e).
Proof.
  intros Hs Hb. unfold ser_atom in Hs. destruct (atom_prefix _ _) as [p|] eqn:Ep; [|discriminate].
  injection Hs as <-. rewrite blen_app. unfold serialized_length_atom, u32. rewrite N.mod_small by lia.
  unfold atom_prefix in Ep.
  destruct (N.eqb_spec (blen b) 0) as [E0|E0]; [injection Ep as <-; rewrite E0; reflexivity|].
  destruct ((blen b =? 1) && (atom_0 b <? 128)) eqn:E1.
  { injection Ep as <-. cbn [orb]. apply andb_prop in E1. destruct E1 as [E1 _]. f_equal. cbn. lia. }
  cbn [orb].
  destruct (blen b <? 64); [apply Some_inj in Ep; subst p; reflexivity|].
  destruct (blen b <? 8192); [apply Some_inj in Ep; subst p; reflexivity|].
  destruct (blen b <? 1048576); [apply Some_inj in Ep; subst p; reflexivity|].
  destruct (blen b <? 134217728); [apply Some_inj in Ep; subst p; reflexivity|].
  destruct (blen b <? 17179869184); [|discriminate]. apply Some_inj in Ep; subst p.
  destruct (N.ltb_spec (5 + blen b) 4294967296); [reflexivity|lia].
Qed.

Theorem cache_serialized_length_spec : forall t e, ser t = Some e -> blen e < 4294967291 ->
  cache_serialized_length t = Ok (blen e).
Proof.
  induction t as [b|l IHl r IHr]; intros e Hs Hb; cbn in Hs.
  - cbn. apply serialized_length_atom_spec; [assumption|].
    unfold ser_atom in Hs. destruct (atom_prefix _ _); [|discriminate]. injection Hs as <-.
    rewrite blen_app in Hb. lia.
  - destruct (ser l) as [a|] eqn:El; [|discriminate]. destruct (ser r) as [c|] eqn:Er; [|discriminate].
    injection Hs as <-. unfold blen in Hb. cbn [length] in Hb. rewrite app_length in Hb.
    cbn. rewrite (IHl a eq_refl) by (unfold blen; lia). cbn [bind].
    rewrite (IHr c eq_refl) by (unfold blen; lia). cbn [bind]. f_equal.
    unfold sat_add64, blen. cbn [length]. rewrite app_length. lia.
Qed.

(* ---------- LimitedWriter under an arbitrary sequence of write_all calls ---------- *)
Fixpoint lw_writes (w : lwriter) (chunks : list bytes) : option lwriter :=
  match chunks with
  | [] => Some w
  | c :: cs => match lw_write w c with Some w1 => lw_writes w1 cs | None => None end
  end.

Theorem lw_writes_spec : forall chunks w,
  lw_writes w chunks =
    if blen (concat chunks) <=? lw_limit w
    then Some {| lw_out := lw_out w ++ concat chunks; lw_limit := lw_limit w - blen (concat chunks) |}
    else None.
Proof.
  induction chunks as [|c cs IH]; intros w; cbn [lw_writes concat].
  - destruct w as [o l]. cbn. rewrite app_nil_r, N.sub_0_r. destruct (N.leb_spec 0 l); [reflexivity|lia].
  - rewrite lw_write_spec, blen_app. destruct (N.ltb_spec (lw_limit w) (blen c)).
    + destruct (N.leb_spec (blen c + blen (concat cs)) (lw_limit w)); [lia|reflexivity].
    + rewrite IH. cbn [lw_limit lw_out].
      destruct (N.leb_spec (blen (concat cs)) (lw_limit w - blen c));
        destruct (N.leb_spec (blen c + blen (concat cs)) (lw_limit w)); try lia; [|reflexivity].
      f_equal. f_equal; [rewrite <- app_assoc; reflexivity|lia].
Qed.

(* ---------- node_from_stream (ser t ++ rest) ---------- *)
Theorem node_from_stream_ser : forall t e rest, wf_sexp t = true -> ser t = Some e ->
  node_from_stream (e ++ rest) = Ok (t, rest).
Proof. intros t e rest Hwf Hs. rewrite node_from_stream_parse. apply parse_ser; assumption. Qed.

Theorem trusted_length_ser : forall t e rest, wf_sexp t = true -> ser t = Some e ->
  serialized_length_trusted (e ++ rest) = Ok (blen e).
Proof.
  intros t e rest Hwf Hs. rewrite (trusted_length_parse _ t rest) by (apply parse_ser; assumption).
  f_equal. rewrite blen_app. lia.
Qed.

Theorem node_to_bytes_ser : forall t e, ser t = Some e -> blen e <= 2000000 -> node_to_bytes t = Ok e.
Proof.
  intros t e Hs Hl. unfold node_to_bytes. rewrite (node_to_bytes_limit_spec t e) by assumption.
  destruct (N.leb_spec (blen e) 2000000); [reflexivity|lia].
Qed.

(* ser is defined exactly when every atom is shorter than 2^34 bytes *)
Fixpoint atoms_small (t : sexp) : bool :=
  match t with Atom b => blen b <? 0x400000000 | Cons l r => atoms_small l && atoms_small r end.

Theorem ser_defined : forall t, atoms_small t = true <-> ser t <> None.
Proof.
  induction t as [b|l IHl r IHr]; cbn [atoms_small ser].
  - unfold ser_atom. destruct (N.ltb_spec (blen b) 0x400000000) as [L|L].
    + rewrite atom_prefix_arith by assumption. split; [discriminate|reflexivity].
    + rewrite atom_prefix_none by assumption. split; [discriminate|congruence].
  - rewrite andb_true_iff, IHl, IHr. destruct (ser l), (ser r); split; intros H; try discriminate; try congruence;
      try (split; discriminate); destruct H as [H1 H2]; congruence.
Qed.
