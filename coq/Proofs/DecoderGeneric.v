(* The ParseOp stack machine of node_from_stream / tree_hash_from_stream refines the recursive
   parser, for any atom reader that never runs out of fuel, never panics and never grows the input. *)
From Clvm Require Import Model.Classic Proofs.BytesLemmas.
From Coq Require Import Lia.

Section Generic.
  Context {V : Type}.
  Variable read_atom : N -> bytes -> res (V * bytes).
  Variable mk_pair : V -> V -> V.

  Definition bad_err (e : errkind) : Prop :=
    e = OutOfFuel \/ exists n, e = Panic n.

  Hypothesis RA_shrinks : forall b r a r', read_atom b r = Ok (a, r') -> (length r' <= length r)%nat.
  Hypothesis RA_err : forall b r e, read_atom b r = Err e -> ~ bad_err e.

  Notation parse_rec := (parse_rec read_atom mk_pair).
  Notation de_loop := (de_loop read_atom mk_pair).

  (* success consumes at least one byte *)
  Lemma parse_rec_shrinks : forall f bs v rest,
    parse_rec f bs = Ok (v, rest) -> (length rest < length bs)%nat.
  Proof.
    induction f as [|f IH]; intros bs v rest H; cbn in H; [discriminate|].
    destruct bs as [|b r]; [discriminate|].
    destruct (b =? 255)%N.
    - destruct (parse_rec f r) as [[l r1]|] eqn:E1; cbn in H; [|discriminate].
      destruct (parse_rec f r1) as [[rt r2]|] eqn:E2; cbn in H; [|discriminate].
      injection H as <- <-. apply IH in E1. apply IH in E2. cbn. lia.
    - apply RA_shrinks in H. cbn. lia.
  Qed.

  Lemma parse_rec_mono : forall f bs x, parse_rec f bs = Ok x -> forall k, parse_rec (f + k) bs = Ok x.
  Proof.
    induction f as [|f IH]; intros bs x H k; cbn in H; [discriminate|]. cbn.
    destruct bs as [|b r]; [discriminate|].
    destruct (b =? 255)%N; [|exact H].
    destruct (parse_rec f r) as [[l r1]|] eqn:E1; cbn in H; [|discriminate].
    rewrite (IH _ _ E1 k). cbn.
    destruct (parse_rec f r1) as [[rt r2]|] eqn:E2; cbn in H; [|discriminate].
    rewrite (IH _ _ E2 k). cbn. exact H.
  Qed.

  Lemma parse_rec_err_mono : forall f bs e, parse_rec f bs = Err e -> e <> OutOfFuel ->
    forall k, parse_rec (f + k) bs = Err e.
  Proof.
    induction f as [|f IH]; intros bs e H Hne k; cbn in H; [congruence|]. cbn.
    destruct bs as [|b r]; [exact H|].
    destruct (b =? 255)%N; [|exact H].
    destruct (parse_rec f r) as [[l r1]|] eqn:E1; cbn in H.
    - rewrite (parse_rec_mono _ _ _ E1 k). cbn.
      destruct (parse_rec f r1) as [[rt r2]|] eqn:E2; cbn in H; [discriminate|].
      injection H as Hee. subst. rewrite (IH _ _ E2 Hne k). cbn. reflexivity.
    - injection H as <-. rewrite (IH _ _ E1 Hne k). reflexivity.
  Qed.

  (* enough fuel: never OutOfFuel *)
  Lemma parse_rec_fuel : forall f bs, (length bs < f)%nat -> parse_rec f bs <> Err OutOfFuel.
  Proof.
    induction f as [|f IH]; intros bs Hf; [lia|]. cbn.
    destruct bs as [|b r]; [discriminate|]. cbn in Hf.
    destruct (b =? 255)%N.
    - destruct (parse_rec f r) as [[l r1]|] eqn:E1; cbn.
      + pose proof (parse_rec_shrinks _ _ _ _ E1) as Hs.
        destruct (parse_rec f r1) as [[rt r2]|] eqn:E2; cbn; [discriminate|].
        intros Hc. injection Hc as ->. apply (IH r1); [lia|assumption].
      + intros Hc. injection Hc as ->. apply (IH r); [lia|assumption].
    - destruct (read_atom b r) as [[a r']|e] eqn:E; [discriminate|].
      intros Hc. injection Hc as ->. apply (RA_err _ _ _ E). left. reflexivity.
  Qed.

  Lemma parse_rec_err_good : forall f bs e, parse_rec f bs = Err e -> e <> OutOfFuel -> ~ bad_err e.
  Proof.
    induction f as [|f IH]; intros bs e H Hne; cbn in H; [congruence|].
    destruct bs as [|b r].
    - injection H as <-. intros [Hc|[n Hc]]; discriminate.
    - destruct (b =? 255)%N.
      + destruct (parse_rec f r) as [[l r1]|] eqn:E1; cbn in H.
        * destruct (parse_rec f r1) as [[rt r2]|] eqn:E2; cbn in H; [discriminate|].
          injection H as <-. eapply IH; eassumption.
        * injection H as <-. eapply IH; eassumption.
      + eapply RA_err; eassumption.
  Qed.

  (* number of machine steps for a successfully parsed item = 2 * consumed bytes at most *)
  Lemma de_loop_ok : forall f bs v rest, parse_rec f bs = Ok (v, rest) ->
    exists n, (n <= 2 * (length bs - length rest))%nat /\ (1 <= n)%nat /\
      forall k ops vals, de_loop (n + k) (OpSExp :: ops) vals bs = de_loop k ops (v :: vals) rest.
  Proof.
    induction f as [|f IH]; intros bs v rest H; cbn in H; [discriminate|].
    destruct bs as [|b r]; [discriminate|].
    destruct (b =? 255)%N eqn:Eb.
    - destruct (parse_rec f r) as [[l r1]|] eqn:E1; cbn in H; [|discriminate].
      destruct (parse_rec f r1) as [[rt r2]|] eqn:E2; cbn in H; [|discriminate].
      injection H as <- <-.
      pose proof (parse_rec_shrinks _ _ _ _ E1) as S1. pose proof (parse_rec_shrinks _ _ _ _ E2) as S2.
      destruct (IH _ _ _ E1) as (n1 & B1 & P1 & H1). destruct (IH _ _ _ E2) as (n2 & B2 & P2 & H2).
      exists (S (n1 + (n2 + 1))). split; [cbn [length]; lia|]. split; [lia|].
      intros k ops vals. cbn [Nat.add Classic.de_loop]. rewrite Eb.
      rewrite <- Nat.add_assoc. rewrite H1. rewrite <- Nat.add_assoc. rewrite H2.
      cbn. reflexivity.
    - pose proof (RA_shrinks _ _ _ _ H) as S1.
      exists 1%nat. split; [cbn [length]; lia|]. split; [lia|].
      intros k ops vals. cbn [Nat.add Classic.de_loop]. rewrite Eb, H. reflexivity.
  Qed.

  Lemma de_loop_err : forall f bs e, parse_rec f bs = Err e -> e <> OutOfFuel ->
    exists n, (n <= 2 * length bs + 1)%nat /\ (1 <= n)%nat /\
      forall k ops vals, de_loop (n + k) (OpSExp :: ops) vals bs = Err e.
  Proof.
    induction f as [|f IH]; intros bs e H Hne; cbn in H; [congruence|].
    destruct bs as [|b r].
    - injection H as <-. exists 1%nat. split; [cbn; lia|]. split; [lia|]. intros. reflexivity.
    - destruct (b =? 255)%N eqn:Eb.
      + destruct (parse_rec f r) as [[l r1]|] eqn:E1; cbn in H.
        * destruct (parse_rec f r1) as [[rt r2]|] eqn:E2; cbn in H; [discriminate|].
          injection H as <-.
          pose proof (parse_rec_shrinks _ _ _ _ E1) as S1.
          destruct (de_loop_ok _ _ _ _ E1) as (n1 & B1 & P1 & H1).
          destruct (IH _ _ E2 Hne) as (n2 & B2 & P2 & H2).
          exists (S (n1 + n2)). split; [cbn [length]; lia|]. split; [lia|].
          intros k ops vals. cbn [Nat.add Classic.de_loop]. rewrite Eb.
          rewrite <- Nat.add_assoc. rewrite H1. apply H2.
        * injection H as <-. destruct (IH _ _ E1 Hne) as (n1 & B1 & P1 & H1).
          exists (S n1). split; [cbn [length]; lia|]. split; [lia|].
          intros k ops vals. cbn [Nat.add Classic.de_loop]. rewrite Eb. apply H1.
      + exists 1%nat. split; [cbn [length]; lia|]. split; [lia|].
        intros k ops vals. cbn [Nat.add Classic.de_loop]. rewrite Eb, H. reflexivity.
  Qed.

  (* the decoder started on a whole input equals the recursive parser *)
  Theorem de_loop_refines : forall bs,
    de_loop (de_fuel bs) [OpSExp] [] bs = parse_rec (S (length bs)) bs.
  Proof.
    intros bs. unfold de_fuel.
    destruct (parse_rec (S (length bs)) bs) as [[v rest]|e] eqn:E.
    - destruct (de_loop_ok _ _ _ _ E) as (n & B & P & Hn).
      replace (2 * length bs + 2)%nat with (n + (2 * length bs + 2 - n))%nat by lia.
      rewrite Hn. destruct (2 * length bs + 2 - n)%nat eqn:Ek; [lia|]. reflexivity.
    - assert (Hne : e <> OutOfFuel).
      { intros ->. apply (parse_rec_fuel (S (length bs)) bs); [lia|assumption]. }
      destruct (de_loop_err _ _ _ E Hne) as (n & B & P & Hn).
      replace (2 * length bs + 2)%nat with (n + (2 * length bs + 2 - n))%nat by lia.
      apply Hn.
  Qed.

  (* hence: the stack decoder never panics and never runs out of its own fuel *)
  Corollary de_loop_total : forall bs e,
    de_loop (de_fuel bs) [OpSExp] [] bs = Err e -> ~ bad_err e.
  Proof.
    intros bs e H. rewrite de_loop_refines in H.
    apply (parse_rec_err_good _ _ _ H).
    intros ->. apply (parse_rec_fuel (S (length bs)) bs); [lia|assumption].
  Qed.
End Generic.

(* two instances whose atom readers and pair constructors are related by a map agree *)
Section Map.
  Context {V W : Type}.
  Variable ra1 : N -> bytes -> res (V * bytes).
  Variable ra2 : N -> bytes -> res (W * bytes).
  Variable mk1 : V -> V -> V.
  Variable mk2 : W -> W -> W.
  Variable g : V -> W.
  Definition lift (x : V * bytes) : W * bytes := (g (fst x), snd x).
  Hypothesis RA_map : forall b r, ra2 b r = res_map lift (ra1 b r).
  Hypothesis MK_map : forall a b, mk2 (g a) (g b) = g (mk1 a b).

  Lemma parse_rec_map : forall f bs,
    parse_rec ra2 mk2 f bs = res_map lift (parse_rec ra1 mk1 f bs).
  Proof.
    induction f as [|f IH]; intros bs; cbn; [reflexivity|].
    destruct bs as [|b r]; [reflexivity|].
    destruct (b =? 255)%N; [|apply RA_map].
    rewrite IH. destruct (parse_rec ra1 mk1 f r) as [[l r1]|]; cbn; [|reflexivity].
    rewrite IH. destruct (parse_rec ra1 mk1 f r1) as [[rt r2]|]; cbn; [|reflexivity].
    unfold lift. cbn. rewrite MK_map. reflexivity.
  Qed.
End Map.
