(* Bridging lemmas for Model/IntEnc.v: the land/shiftr/shiftl forms used for speed are the
   div/mod/mul/pow forms one reasons with. *)
From Coq Require Import Lia.
From Clvm Require Import Model.IntEnc.
Open Scope N_scope.

Lemma land_255 v : N.land v 255 = v mod 256.
Proof. change 255 with (N.ones 8). rewrite N.land_ones. reflexivity. Qed.

Lemma shiftr_8 v : N.shiftr v 8 = v / 256.
Proof. rewrite N.shiftr_div_pow2. reflexivity. Qed.

Lemma shiftl_8 v : N.shiftl v 8 = v * 256.
Proof. rewrite N.shiftl_mul_pow2. reflexivity. Qed.

Lemma be_bytes_acc_S k v acc :
  be_bytes_acc (S k) v acc = be_bytes_acc k (v / 256) (v mod 256 :: acc).
Proof. cbn [be_bytes_acc]. rewrite land_255, shiftr_8. reflexivity. Qed.

Lemma pow256_pow n : pow256 n = 256 ^ N.of_nat n.
Proof.
  unfold pow256. rewrite N.shiftl_mul_pow2, N.mul_1_l.
  change 256 with (2 ^ 8). rewrite <- N.pow_mul_r. reflexivity.
Qed.

Lemma be_nat_acc b : forall a, fold_left (fun acc x => N.shiftl acc 8 + x) b a = be_acc a b.
Proof.
  induction b as [|x r IH]; intros a; cbn [fold_left be_acc]; [reflexivity|].
  rewrite IH, shiftl_8. f_equal. lia.
Qed.

Lemma be_nat_value b : be_nat b = be_value b.
Proof. apply be_nat_acc. Qed.

Lemma int_of_bytes_eq b :
  int_of_bytes b =
  match b with
  | [] => 0%Z
  | x :: _ => if 128 <=? x then (Z.of_N (be_value b) - Z.of_N (256 ^ N.of_nat (length b)))%Z
              else Z.of_N (be_value b)
  end.
Proof. unfold int_of_bytes. destruct b; [reflexivity|]. rewrite be_nat_value, pow256_pow. reflexivity. Qed.
