(* Length-prefix arithmetic of the classic format: atom_prefix and decode_size_with_offset are
   mutually inverse on every size below 2^34; characterisation of canonical prefixes. *)
From Clvm Require Import Model.Classic Proofs.BytesLemmas.
From Coq Require Import Lia ZifyBool ZifyN ZifyNat.
Ltac Zify.zify_post_hook ::= Z.div_mod_to_equations.
Open Scope N_scope.

Definition nrange (n : nat) : list N := map N.of_nat (seq 0 n).
Lemma nrange_in n x : x < N.of_nat n -> In x (nrange n).
Proof.
  intros H. unfold nrange. apply in_map_iff. exists (N.to_nat x). split; [lia|]. apply in_seq. lia.
Qed.

Definition tag_of (c : N) : N :=
  if c =? 1 then 0x80 else if c =? 2 then 0xc0 else if c =? 3 then 0xe0 else if c =? 4 then 0xf0
  else if c =? 5 then 0xf8 else if c =? 6 then 0xfc else 0xfe.
Definition hibound (c : N) : N := 2 ^ (7 - c).

Definition class_ok (ch : N * N) : bool :=
  let (c, hi) := ch in
  if (1 <=? c) && (hi <? hibound c) then
    (N.lor (tag_of c) hi =? tag_of c + hi) && (leading_ones8 (tag_of c + hi) =? c) &&
    (N.land (tag_of c + hi) (N.shiftr 0xff c) =? hi) && negb (N.land (tag_of c + hi) 0x80 =? 0)
  else true.
Lemma class_sweep : forallb class_ok (list_prod (nrange 8) (nrange 64)) = true.
Proof. vm_compute. reflexivity. Qed.

Lemma class_spec c hi : 1 <= c <= 7 -> hi < hibound c ->
  N.lor (tag_of c) hi = tag_of c + hi /\ leading_ones8 (tag_of c + hi) = c /\
  N.land (tag_of c + hi) (N.shiftr 0xff c) = hi /\ N.land (tag_of c + hi) 0x80 <> 0.
Proof.
  intros Hc Hh.
  assert (hi < 64).
  { unfold hibound in Hh. assert (2 ^ (7 - c) <= 2 ^ 6) by (apply N.pow_le_mono_r; lia). change (2^6) with 64 in *. lia. }
  assert (Hin : In (c, hi) (list_prod (nrange 8) (nrange 64))) by (apply in_prod; apply nrange_in; lia).
  pose proof (proj1 (forallb_forall _ _) class_sweep _ Hin) as H0. unfold class_ok in H0.
  assert (E : (1 <=? c) && (hi <? hibound c) = true) by (apply andb_true_intro; split; lia).
  rewrite E in H0. rewrite !andb_true_iff, negb_true_iff in H0. lia.
Qed.

Definition byte_class_ok (b : N) : bool :=
  if b <? 0x80 then N.land b 0x80 =? 0
  else
    let c := leading_ones8 b in
    (1 <=? c) && (c <=? 8) && (Bool.eqb (c =? 8) (b =? 0xff)) &&
    (if c <? 8 then (tag_of c <=? b) && (b - tag_of c <? hibound c) else true).
Lemma byte_class_sweep : forallb byte_class_ok (nrange 256) = true.
Proof. vm_compute. reflexivity. Qed.

Lemma byte_class_spec b : 0x80 <= b < 256 ->
  let c := leading_ones8 b in
  1 <= c <= 8 /\ (c = 8 <-> b = 0xff) /\ (c < 8 -> tag_of c <= b /\ b - tag_of c < hibound c).
Proof.
  intros Hb. pose proof (proj1 (forallb_forall _ _) byte_class_sweep b (nrange_in 256 b ltac:(lia))) as H.
  unfold byte_class_ok in H. destruct (b <? 0x80) eqn:E; [lia|]. cbv zeta in *.
  rewrite !andb_true_iff in H. destruct H as [[[H1 H2] H3] H4]. apply eqb_prop in H3.
  split; [lia|]. split; [lia|]. intros Hc. destruct (leading_ones8 b <? 8) eqn:E8; [|lia].
  rewrite andb_true_iff in H4. lia.
Qed.

Lemma low_byte_land b : b < 0x80 -> N.land b 0x80 = 0.
Proof.
  intros Hb. pose proof (proj1 (forallb_forall _ _) byte_class_sweep b (nrange_in 256 b ltac:(lia))) as H.
  unfold byte_class_ok in H. destruct (b <? 0x80) eqn:E; [|lia]. lia.
Qed.

(* ---------- shifts and masks as arithmetic ---------- *)
Lemma land_ff x : N.land x 0xff = x mod 256.
Proof. change 0xff with (N.ones 8). rewrite N.land_ones. reflexivity. Qed.
Lemma shiftr8 x : N.shiftr x 8 = x / 256. Proof. rewrite N.shiftr_div_pow2. reflexivity. Qed.
Lemma shiftr16 x : N.shiftr x 16 = x / 65536. Proof. rewrite N.shiftr_div_pow2. reflexivity. Qed.
Lemma shiftr24 x : N.shiftr x 24 = x / 16777216. Proof. rewrite N.shiftr_div_pow2. reflexivity. Qed.
Lemma shiftr32 x : N.shiftr x 32 = x / 4294967296. Proof. rewrite N.shiftr_div_pow2. reflexivity. Qed.
Lemma shiftl8 x : N.shiftl x 8 = x * 256. Proof. rewrite N.shiftl_mul_pow2. reflexivity. Qed.

Lemma acc_size_be bs : acc_size bs = be_value bs.
Proof.
  unfold acc_size, be_value. generalize 0. induction bs as [|x r IH]; intros a; cbn [fold_left be_acc]; [reflexivity|].
  rewrite shiftl8. replace (a * 256 + x) with (256 * a + x) by lia. apply IH.
Qed.

(* ---------- the encoder's prefix, in arithmetic form ---------- *)
Definition prefix_class (a0 size : N) : N :=         (* number of prefix bytes *)
  if size =? 0 then 1 else if (size =? 1) && (a0 <? 0x80) then 0
  else if size <? 0x40 then 1 else if size <? 0x2000 then 2 else if size <? 0x100000 then 3
  else if size <? 0x8000000 then 4 else 5.

Fixpoint be_bytes_of (c : nat) (v : N) : bytes :=   (* big-endian, exactly c bytes *)
  match c with O => [] | S k => be_bytes_of k (v / 256) ++ [v mod 256] end.

Ltac norm_class c :=
  let t := eval vm_compute in (tag_of c) in change (tag_of c) with t;
  let p := eval vm_compute in (256 ^ (c - 1)) in change (256 ^ (c - 1)) with p;
  let n := eval vm_compute in (N.to_nat (c - 1)) in change (N.to_nat (c - 1)) with n;
  cbn [be_bytes_of app].

Lemma atom_prefix_arith a0 size : size < 0x400000000 ->
  atom_prefix a0 size =
    Some (if size =? 0 then [0x80]
          else if (size =? 1) && (a0 <? 0x80) then []
          else let c := prefix_class a0 size in
               (tag_of c + size / 256 ^ (c - 1)) :: be_bytes_of (N.to_nat (c - 1)) (size mod 256 ^ (c - 1))).
Proof.
  intros Hs. unfold atom_prefix, prefix_class.
  destruct (size =? 0) eqn:E0; [reflexivity|].
  destruct ((size =? 1) && (a0 <? 128)) eqn:E1; [reflexivity|].
  destruct (size <? 0x40) eqn:E2.
  { pose proof (class_spec 1 size ltac:(lia) ltac:(unfold hibound; cbn; lia)) as [Hl _].
    change (tag_of 1) with 128 in Hl. rewrite Hl.
    cbv zeta. norm_class 1. rewrite N.div_1_r. reflexivity. }
  destruct (size <? 0x2000) eqn:E3.
  { rewrite shiftr8. pose proof (class_spec 2 (size / 256) ltac:(lia) ltac:(unfold hibound; cbn; lia)) as [Hl _].
    change (tag_of 2) with 192 in Hl. rewrite Hl.
    cbv zeta. norm_class 2. f_equal. f_equal. f_equal. lia. }
  destruct (size <? 0x100000) eqn:E4.
  { rewrite shiftr16, shiftr8, !land_ff.
    pose proof (class_spec 3 (size / 65536) ltac:(lia) ltac:(unfold hibound; cbn; lia)) as [Hl _].
    change (tag_of 3) with 224 in Hl. rewrite Hl.
    cbv zeta. norm_class 3. f_equal. f_equal. f_equal; [lia|]. f_equal. lia. }
  destruct (size <? 0x8000000) eqn:E5.
  { rewrite shiftr24, shiftr16, shiftr8, !land_ff.
    pose proof (class_spec 4 (size / 16777216) ltac:(lia) ltac:(unfold hibound; cbn; lia)) as [Hl _].
    change (tag_of 4) with 240 in Hl. rewrite Hl.
    cbv zeta. norm_class 4. f_equal. f_equal. f_equal; [lia|]. f_equal; [lia|]. f_equal. lia. }
  assert (E6 : size <? 0x400000000 = true) by lia. rewrite E6.
  rewrite shiftr32, shiftr24, shiftr16, shiftr8, !land_ff.
  pose proof (class_spec 5 (size / 4294967296) ltac:(lia) ltac:(unfold hibound; cbn; lia)) as [Hl _].
  change (tag_of 5) with 248 in Hl. rewrite Hl.
  cbv zeta. norm_class 5. f_equal. f_equal. f_equal; [lia|]. f_equal; [lia|]. f_equal; [lia|]. f_equal. lia.
Qed.

Lemma atom_prefix_none a0 size : 0x400000000 <= size -> atom_prefix a0 size = None.
Proof.
  intros H. unfold atom_prefix.
  repeat match goal with |- context [if ?c then _ else _] => let E := fresh in destruct c eqn:E; [lia|] end.
  reflexivity.
Qed.

(* ---------- the decoder on a first byte + more bytes, in arithmetic form ---------- *)
Lemma decode_size_arith c hi more rest :
  1 <= c <= 7 -> hi < hibound c -> length more = N.to_nat (c - 1) -> wf_bytes more = true ->
  decode_size_with_offset (tag_of c + hi) (more ++ rest) =
    if 6 <? c then Err SerializationError
    else let size := hi * 256 ^ (c - 1) + be_value more in
         if 0x400000000 <=? size then Err SerializationError else Ok (c, size, rest).
Proof.
  intros Hc Hh Hl Hwf. unfold decode_size_with_offset.
  destruct (class_spec c hi Hc Hh) as (_ & Hlo & Hland & H80).
  destruct (N.eqb_spec (N.land (tag_of c + hi) 128) 0) as [|_]; [contradiction|].
  rewrite Hlo. destruct (N.leb_spec 8 c); [lia|].
  rewrite Hland. rewrite <- Hl, take_exact_app.
  destruct (6 <? c); [reflexivity|]. cbv zeta.
  rewrite acc_size_be. unfold be_value. cbn [be_acc]. rewrite be_acc_shift. fold (be_value more).
  rewrite Hl, N2Nat.id. rewrite N.mul_0_r, N.add_0_l. reflexivity.
Qed.
