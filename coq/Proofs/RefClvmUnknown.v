(* C01, operator level (part 3): the reference's unknown-operator rule and path lookup against
   the transcribed Rust: op_unknown through the published rule [unknown_spec] (C09: proved equal
   to the u64 code outside the class wraps64 = finding F6 + 4 GiB operands), traverse_path
   through its bit list. *)
From Coq Require Import Lia ZifyBool ZifyN ZifyNat.
From Clvm Require Import Model.Dialect Model.RefClvm Proofs.RefClvmBasics Proofs.IntEncBasics
  Proofs.UnknownProofs.
Open Scope N_scope.

(* ---- the cost-function bits ---- *)
Lemma cost_fn_bits x : N.shiftr (N.land x 192) 6 = (x / 64) mod 4.
Proof.
  rewrite N.shiftr_land. change (N.shiftr 192 6) with (N.ones 2).
  rewrite N.land_ones, N.shiftr_div_pow2. reflexivity.
Qed.

Lemma all_atoms_lens args :
  all_atoms (arg_lens args) = option_map (map blen) (atoms (items args)).
Proof.
  unfold arg_lens. rewrite <- items_arg_list.
  induction (items args) as [|a l IH]; [reflexivity|].
  cbn [map all_atoms]. destruct a as [b|]; [|reflexivity].
  rewrite atoms_cons_atom, IH. destruct (atoms l); reflexivity.
Qed.

Lemma spec_add_closed bs : forall acc,
  spec_add_base false (map blen bs) acc = 320 * count bs + 3 * total_len bs.
Proof.
  induction bs as [|b bs IH]; intros acc; [reflexivity|].
  cbn [map spec_add_base]. rewrite IH, count_cons, total_len_cons.
  unfold ARITH_COST_PER_ARG, ARITH_COST_PER_BYTE. lia.
Qed.

Lemma spec_concat_closed bs :
  spec_concat_base (map blen bs) = 135 * count bs + 3 * total_len bs.
Proof.
  induction bs as [|b bs IH]; [reflexivity|].
  cbn [map spec_concat_base]. rewrite IH, count_cons, total_len_cons.
  unfold CONCAT_COST_PER_ARG, CONCAT_COST_PER_BYTE. lia.
Qed.

Lemma spec_mul_closed ls : forall l0,
  spec_mul_steps MUL_SQUARE_COST_PER_BYTE_DIVIDER ls l0 = unknown_mul_cost l0 ls.
Proof.
  induction ls as [|l ls IH]; intros l0; [reflexivity|].
  cbn [spec_mul_steps unknown_mul_cost]. rewrite IH.
  unfold MUL_COST_PER_OP, MUL_LINEAR_COST_PER_BYTE, MUL_SQUARE_COST_PER_BYTE_DIVIDER,
    rc_mul_per_op, rc_mul_linear_per_byte, rc_mul_square_divider.
  rewrite (N.mul_comm l l0), (N.add_comm l l0). reflexivity.
Qed.

Lemma spec_base_ref fn args : fn < 4 ->
  spec_base fn (arg_lens args) false = unknown_base_cost fn (items args).
Proof.
  intros Hfn. unfold spec_base, unknown_base_cost. rewrite all_atoms_lens.
  destruct (fn =? 0) eqn:E0.
  { assert (fn = 0) by lia. subst. reflexivity. }
  destruct (fn =? 1) eqn:E1.
  { destruct (atoms (items args)) as [bs|]; [|reflexivity]. cbn [option_map].
    rewrite spec_add_closed. unfold ARITH_BASE_COST, rc_arith_base, rc_arith_per_arg, rc_arith_per_byte.
    f_equal. lia. }
  destruct (fn =? 2) eqn:E2.
  { destruct (atoms (items args)) as [bs|]; [|reflexivity]. cbn [option_map]. f_equal.
    unfold spec_mul_base. destruct bs as [|b bs]; [reflexivity|]. cbn [map].
    rewrite spec_mul_closed. reflexivity. }
  assert (E3 : (fn =? 3) = true) by lia. rewrite E3.
  destruct (atoms (items args)) as [bs|]; [|reflexivity]. cbn [option_map].
  rewrite spec_concat_closed. unfold CONCAT_BASE_COST, rc_concat_base, rc_concat_per_arg, rc_concat_per_byte.
  f_equal. lia.
Qed.

Lemma res_opt_agrees {A} (m r : res A) : res_opt m = res_opt r -> agrees m r.
Proof.
  destruct m as [x|e], r as [y|e']; cbn; intros E; try discriminate; eauto.
  apply Some_inj in E. now subst.
Qed.

Lemma rev_snoc {A} (l : list A) x r : rev l = x :: r -> l = rev r ++ [x].
Proof. intros E. rewrite <- (rev_involutive l), E. reflexivity. Qed.

(* the reference's rule = the published rule of C09 *)
Lemma ref_unknown_spec opc args M :
  covers M (ref_unknown current_adapters opc (items args)) ->
  option_map (fun c => (c, nil_s)) (unknown_spec opc (arg_lens args) false M) =
  res_opt (ref_unknown current_adapters opc (items args)).
Proof.
  intros HM. unfold ref_unknown in *. cbn [ad_unknown_u32_cap current_adapters andb] in *.
  destruct (rev opc) as [|lastb rprefix] eqn:Er.
  { assert (opc = []) by (rewrite <- (rev_involutive opc), Er; reflexivity). subst. reflexivity. }
  apply rev_snoc in Er. set (prefix := rev rprefix) in *.
  assert (Hne : opc <> []) by (rewrite Er; destruct prefix; discriminate).
  assert (Hlast : last opc 0 = lastb) by (rewrite Er; apply last_last).
  assert (Hrm : removelast opc = prefix) by (rewrite Er; apply removelast_last).
  assert (Hlen : length opc = S (length prefix)) by (rewrite Er, app_length; cbn; lia).
  unfold unknown_spec. destruct opc as [|x0 opc']; [congruence|]. set (opc := x0 :: opc') in *.
  change (starts_ffff opc) with (reserved_prefix opc).
  destruct (reserved_prefix opc); [reflexivity|].
  rewrite Hlen. change (5 <? S (length prefix))%nat with (4 <? length prefix)%nat.
  destruct (4 <? length prefix)%nat; [reflexivity|].
  unfold cost_function_of. rewrite Hlast, cost_fn_bits, Hrm.
  rewrite spec_base_ref by (apply N.mod_lt; discriminate).
  destruct (unknown_base_cost ((lastb / 64) mod 4) (items args)) as [base|]; [|reflexivity].
  unfold uint_of_bytes in *. rewrite be_nat_value in *.
  set (mult := be_value prefix) in *.
  destruct (4294967296 <=? base * (mult + 1)) eqn:Ecap.
  - destruct (M <? base); [reflexivity|]. cbv zeta.
    assert (E : (U32_MAX <? base * (mult + 1)) = true) by (unfold U32_MAX; lia). rewrite E. reflexivity.
  - apply covers_ok in HM.
    assert (E1 : (M <? base) = false) by nia. rewrite E1. cbv zeta.
    assert (E : (U32_MAX <? base * (mult + 1)) = false) by (unfold U32_MAX; lia). rewrite E. reflexivity.
Qed.

Lemma unknown_agrees fl opc args M :
  plain_flags fl -> M < two64 -> ~ wraps64 opc (arg_lens args) false M ->
  covers M (ref_unknown current_adapters opc (items args)) ->
  agrees (unknown_operator opc fl args M) (ref_unknown current_adapters opc (items args)).
Proof.
  intros Hfl HM Hw Hc. rewrite unknown_operator_lenient by (apply pf_unk, Hfl).
  apply res_opt_agrees. rewrite <- (ref_unknown_spec opc args M Hc).
  rewrite <- (pf_ncm _ Hfl) in *. apply op_unknown_rule; assumption.
Qed.

(* ---- path lookup ---- *)
Lemma zero_prefix_first b : zero_prefix b = N.of_nat (first_non_zero b).
Proof.
  induction b as [|x b IH]; [reflexivity|]. cbn [zero_prefix first_non_zero].
  destruct x as [|p]; [|reflexivity]. rewrite IH. lia.
Qed.

Lemma size_nat_pos p : (1 <= N.to_nat (N.size (Npos p)))%nat.
Proof. cbn. pose proof (Pos2Nat.is_pos (Pos.size p)). lia. Qed.

Lemma follow_walk p : forall t cost,
  follow (bits_lsb_first (N.to_nat (N.size (Npos p)) - 1) (Npos p)) t cost =
  match walk p t with
  | Some v => Ok (cost + 4 * N.log2 (Npos p), v)
  | None => Err PathIntoAtom
  end.
Proof.
  induction p as [q IH|q IH|]; intros t cost.
  - pose proof (size_nat_pos q) as Hq.
    assert (E : (N.to_nat (N.size (Npos q~1)) - 1 = S (N.to_nat (N.size (Npos q)) - 1))%nat).
    { cbn [N.size]. rewrite !positive_N_nat. cbn [Pos.size]. rewrite Pos2Nat.inj_succ.
      cbn [N.size] in Hq. rewrite positive_N_nat in Hq. lia. }
    rewrite E. cbn [bits_lsb_first follow walk].
    change (N.div2 (Npos q~1)) with (Npos q).
    change (N.odd (Npos q~1)) with true. cbv iota.
    destruct t as [b|l r]; [reflexivity|]. rewrite IH. unfold TRAVERSE_COST_PER_BIT.
    destruct (walk q r) as [v|]; [|reflexivity]. apply ok2; [|reflexivity].
    assert (E3 : N.log2 (Npos q~1) = 1 + N.log2 (Npos q)).
    { cbn [N.log2]. destruct q; cbn [Pos.size N.log2]; lia. }
    rewrite E3. lia.
  - pose proof (size_nat_pos q) as Hq.
    assert (E : (N.to_nat (N.size (Npos q~0)) - 1 = S (N.to_nat (N.size (Npos q)) - 1))%nat).
    { cbn [N.size]. rewrite !positive_N_nat. cbn [Pos.size]. rewrite Pos2Nat.inj_succ.
      cbn [N.size] in Hq. rewrite positive_N_nat in Hq. lia. }
    rewrite E. cbn [bits_lsb_first follow walk].
    change (N.div2 (Npos q~0)) with (Npos q).
    change (N.odd (Npos q~0)) with false. cbv iota.
    destruct t as [b|l r]; [reflexivity|]. rewrite IH. unfold TRAVERSE_COST_PER_BIT.
    destruct (walk q l) as [v|]; [|reflexivity]. apply ok2; [|reflexivity].
    assert (E3 : N.log2 (Npos q~0) = 1 + N.log2 (Npos q)).
    { cbn [N.log2]. destruct q; cbn [Pos.size N.log2]; lia. }
    rewrite E3. lia.
  - cbn. apply ok2; [lia|reflexivity].
Qed.

Theorem path_agrees path env : traverse_path path env = ref_path path env.
Proof.
  unfold traverse_path, ref_path, path_bits, uint_of_bytes. rewrite be_nat_value, zero_prefix_first.
  unfold TRAVERSE_BASE_COST, TRAVERSE_COST_PER_ZERO_BYTE, TRAVERSE_COST_PER_BIT,
    rc_path_base, rc_path_per_leg, rc_path_per_zero_byte.
  destruct (be_value path) as [|p] eqn:E.
  - cbn [N.eqb]. change (0 =? 0) with true. cbv iota. apply ok2; [lia|reflexivity].
  - change (Npos p =? 0) with false. cbv iota. rewrite follow_walk.
    destruct (walk p env) as [v|]; [|reflexivity]. apply ok2; [lia|reflexivity].
Qed.
