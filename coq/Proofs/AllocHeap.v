(* Heap-level facts about the arena model: well-formedness, validity of node pointers, stability of
   the denotation under extension (allocation) and truncation (restore to a checkpoint). *)
From Clvm Require Import Model.AllocHist Proofs.BytesLemmas.
From Coq Require Import Lia ZifyBool ZifyN ZifyNat.
Open Scope N_scope.
Arguments N.add : simpl never.
Arguments N.sub : simpl never.
Arguments N.mul : simpl never.
Arguments N.eqb : simpl never.
Arguments N.ltb : simpl never.
Arguments N.leb : simpl never.

(* ------------------------------------------------------------------ lists indexed by N *)

Lemma nlen_app {A} (l m : list A) : nlen (l ++ m) = nlen l + nlen m.
Proof. unfold nlen. rewrite app_length. lia. Qed.

Lemma nlen_take {A} n (l : list A) : nlen (take_N n l) = N.min n (nlen l).
Proof. unfold nlen, take_N. rewrite firstn_length. lia. Qed.

Lemma blen_nlen (b : bytes) : blen b = nlen b.
Proof. reflexivity. Qed.

Lemma nth_N_lt {A} (l : list A) i : i < nlen l -> exists x, nth_N l i = Some x.
Proof.
  unfold nth_N, nlen. intros H. destruct (nth_error l (N.to_nat i)) eqn:E; [eauto|].
  apply nth_error_None in E. lia.
Qed.

Lemma nth_N_some {A} (l : list A) i x : nth_N l i = Some x -> i < nlen l.
Proof.
  unfold nth_N, nlen. intros H.
  assert (N.to_nat i < length l)%nat by (apply nth_error_Some; congruence). lia.
Qed.

Lemma nth_N_app_l {A} (l m : list A) i x : nth_N l i = Some x -> nth_N (l ++ m) i = Some x.
Proof.
  intros H. pose proof (nth_N_some _ _ _ H) as Hl. unfold nth_N, nlen in *.
  rewrite nth_error_app1 by lia. exact H.
Qed.

Lemma nth_N_app_end {A} (l : list A) x : nth_N (l ++ [x]) (nlen l) = Some x.
Proof.
  unfold nth_N, nlen. rewrite Nat2N.id. rewrite nth_error_app2 by lia.
  rewrite Nat.sub_diag. reflexivity.
Qed.

Lemma nth_N_app_inv {A} (l : list A) y i x :
  nth_N (l ++ [y]) i = Some x -> nth_N l i = Some x \/ (i = nlen l /\ x = y).
Proof.
  unfold nth_N, nlen. intros H.
  destruct (Nat.lt_ge_cases (N.to_nat i) (length l)) as [Hl|Hl].
  - rewrite nth_error_app1 in H by lia. now left.
  - rewrite nth_error_app2 in H by lia.
    destruct (N.to_nat i - length l)%nat as [|k] eqn:E.
    + cbn in H. inversion H; subst. right. split; [lia|reflexivity].
    + cbn in H. destruct k; discriminate.
Qed.

Lemma nth_N_take {A} n (l : list A) i : i < n -> nth_N (take_N n l) i = nth_N l i.
Proof.
  unfold nth_N, take_N. intros H.
  assert (Hk : (N.to_nat i < N.to_nat n)%nat) by lia.
  revert Hk. generalize (N.to_nat n) as k. generalize (N.to_nat i) as j. clear H.
  intros j. revert l. induction j as [|j IH]; intros l k Hk.
  - destruct k; [lia|]. destruct l; reflexivity.
  - destruct k; [lia|]. destruct l; [reflexivity|]. cbn. apply IH. lia.
Qed.

Lemma take_N_all {A} n (l : list A) : nlen l <= n -> take_N n l = l.
Proof. unfold take_N, nlen. intros H. apply firstn_all2. lia. Qed.

Lemma take_N_app {A} n (l m : list A) : n <= nlen l -> take_N n (l ++ m) = take_N n l.
Proof.
  unfold take_N, nlen. intros H. rewrite firstn_app.
  replace (N.to_nat n - length l)%nat with O by lia. cbn. apply app_nil_r.
Qed.

Lemma take_N_take {A} n m (l : list A) : n <= m -> take_N n (take_N m l) = take_N n l.
Proof.
  unfold take_N. intros H. rewrite firstn_firstn. f_equal. lia.
Qed.

Lemma take_N_split {A} n (l : list A) : exists r, l = take_N n l ++ r.
Proof. exists (skipn (N.to_nat n) l). unfold take_N. symmetry. apply firstn_skipn. Qed.

Lemma Forall_take {A} (P : A -> Prop) n l : Forall P l -> Forall P (take_N n l).
Proof.
  intros H. rewrite Forall_forall in *. intros x Hx. apply H.
  unfold take_N in Hx. destruct (take_N_split n l) as [r Hr].
  rewrite Hr. apply in_or_app. now left.
Qed.

(* ------------------------------------------------------------------ slices *)

Lemma slice_some b s e x :
  slice b s e = Some x -> s <= e /\ e <= blen b /\ x = firstn (N.to_nat (e - s)) (skipn (N.to_nat s) b).
Proof.
  unfold slice. destruct ((s <=? e) && (e <=? blen b)) eqn:E; [|discriminate].
  intros H. inversion H. repeat split; try lia.
Qed.

Lemma slice_ok b s e : s <= e -> e <= blen b -> exists x, slice b s e = Some x /\ blen x = e - s.
Proof.
  intros H1 H2. unfold slice.
  replace ((s <=? e) && (e <=? blen b)) with true by lia.
  eexists. split; [reflexivity|].
  unfold blen in *. rewrite firstn_length, skipn_length. lia.
Qed.

Lemma slice_len b s e x : slice b s e = Some x -> blen x = e - s.
Proof.
  intros H. destruct (slice_some _ _ _ _ H) as (H1 & H2 & ->).
  unfold blen in *. rewrite firstn_length, skipn_length. lia.
Qed.

Lemma slice_app_l b c s e x : slice b s e = Some x -> slice (b ++ c) s e = Some x.
Proof.
  intros H. destruct (slice_some _ _ _ _ H) as (H1 & H2 & ->).
  unfold slice. unfold blen in *. rewrite app_length.
  replace ((s <=? e) && (e <=? N.of_nat (length b + length c))) with true by lia.
  f_equal. rewrite skipn_app. rewrite firstn_app.
  rewrite skipn_length.
  replace (N.to_nat (e - s) - (length b - N.to_nat s))%nat with O by lia.
  cbn. apply app_nil_r.
Qed.

Lemma slice_take b n s e : e <= n -> slice (take_N n b) s e = slice b s e.
Proof.
  intros Hn. unfold slice.
  destruct (s <=? e) eqn:E1; [|reflexivity]. cbn [andb].
  rewrite blen_nlen, nlen_take.
  destruct (e <=? blen b) eqn:E2.
  - replace (e <=? N.min n (nlen b)) with true by (unfold blen, nlen in *; lia).
    f_equal. destruct (take_N_split n b) as [r Hr].
    assert (Hs : slice (take_N n b) s e = Some (firstn (N.to_nat (e - s)) (skipn (N.to_nat s) (take_N n b)))).
    { unfold slice. rewrite blen_nlen, nlen_take.
      replace ((s <=? e) && (e <=? N.min n (nlen b))) with true by (unfold blen, nlen in *; lia).
      reflexivity. }
    apply (slice_app_l _ r) in Hs. rewrite <- Hr in Hs.
    unfold slice in Hs. replace ((s <=? e) && (e <=? blen b)) with true in Hs by lia.
    inversion Hs. reflexivity.
  - replace (e <=? N.min n (nlen b)) with false by (unfold blen, nlen in *; lia). reflexivity.
Qed.

Lemma In_firstn_l {A} k (l : list A) y : In y (firstn k l) -> In y l.
Proof. intros H. rewrite <- (firstn_skipn k l). apply in_or_app. now left. Qed.
Lemma In_skipn_l {A} k (l : list A) y : In y (skipn k l) -> In y l.
Proof. intros H. rewrite <- (firstn_skipn k l). apply in_or_app. now right. Qed.

Lemma slice_wf b s e x : wf_bytes b = true -> slice b s e = Some x -> wf_bytes x = true.
Proof.
  intros Hb H. destruct (slice_some _ _ _ _ H) as (_ & _ & ->).
  unfold wf_bytes in *. rewrite forallb_forall in *. intros y Hy. apply Hb.
  apply In_firstn_l in Hy. now apply In_skipn_l in Hy.
Qed.

Lemma slice_full b : slice b 0 (blen b) = Some b.
Proof.
  unfold slice. replace ((0 <=? blen b) && (blen b <=? blen b)) with true by lia.
  cbn [skipn N.to_nat]. f_equal. unfold blen. rewrite N.sub_0_r, Nat2N.id. apply firstn_all.
Qed.

(* ------------------------------------------------------------------ validity and well-formedness *)

Definition vnode (h : heap) (n : nodeptr) : Prop :=
  match n with
  | PairP i => i < nlen (pairs h)
  | BytesP i => i < nlen (atoms h)
  | SmallP v => v <= NODE_PTR_IDX_MASK
  end.

(* a child of pair number i is an older pair or a valid atom *)
Definition vchild (h : heap) (i : nat) (n : nodeptr) : Prop :=
  match n with PairP j => (N.to_nat j < i)%nat | _ => vnode h n end.

Record WF (h : heap) : Prop := mkWF {
  wf_u8 : wf_bytes (u8 h) = true;
  wf_atoms : Forall (fun se => fst se <= snd se /\ snd se <= blen (u8 h)) (atoms h);
  wf_pairs : forall i l r, nth_error (pairs h) i = Some (l, r) -> vchild h i l /\ vchild h i r }.

Definition ext (h h' : heap) : Prop :=
  (exists x, u8 h' = u8 h ++ x) /\ (exists y, atoms h' = atoms h ++ y) /\
  (exists z, pairs h' = pairs h ++ z).

Lemma ext_refl h : ext h h.
Proof. repeat split; exists []; now rewrite app_nil_r. Qed.

Lemma ext_trans a b c : ext a b -> ext b c -> ext a c.
Proof.
  intros ((x1 & H1) & (y1 & H2) & (z1 & H3)) ((x2 & H4) & (y2 & H5) & (z2 & H6)).
  repeat split.
  - exists (x1 ++ x2). now rewrite H4, H1, app_assoc.
  - exists (y1 ++ y2). now rewrite H5, H2, app_assoc.
  - exists (z1 ++ z2). now rewrite H6, H3, app_assoc.
Qed.

Lemma vnode_ext h h' n : ext h h' -> vnode h n -> vnode h' n.
Proof.
  intros (_ & (y & Hy) & (z & Hz)) H. destruct n; cbn in *; try exact H.
  - rewrite Hz, nlen_app. lia.
  - rewrite Hy, nlen_app. lia.
Qed.

Lemma vchild_ext h h' i n : ext h h' -> vchild h i n -> vchild h' i n.
Proof. intros He H. destruct n; cbn in *; try exact H. eapply (vnode_ext h h' (BytesP i0)); eauto. Qed.

Lemma vchild_vnode h i n : (i <= length (pairs h))%nat -> vchild h i n -> vnode h n.
Proof. intros Hi H. destruct n; cbn in *; try exact H. unfold nlen. lia. Qed.

Lemma ext_push_u8 h b : ext h (push_u8 h b).
Proof. repeat split; cbn; [exists b|exists []|exists []]; now rewrite ?app_nil_r. Qed.
Lemma ext_push_atom h s e : ext h (push_atom h s e).
Proof. repeat split; cbn; [exists []|exists [(s, e)]|exists []]; now rewrite ?app_nil_r. Qed.
Lemma ext_push_pair h l r : ext h (push_pair h l r).
Proof. repeat split; cbn; [exists []|exists []|exists [(l, r)]]; now rewrite ?app_nil_r. Qed.

Lemma WF_push_u8 h b : WF h -> wf_bytes b = true -> WF (push_u8 h b).
Proof.
  intros [H1 H2 H3] Hb. split; cbn.
  - rewrite wf_bytes_app, H1, Hb. reflexivity.
  - eapply Forall_impl; [|exact H2]. cbn. intros [s e] [Ha Hc]. cbn in *. split; [exact Ha|].
    unfold blen in *. rewrite app_length. lia.
  - intros i l r Hi. destruct (H3 i l r Hi) as [Hl Hr].
    split; eapply vchild_ext; eauto using ext_push_u8.
Qed.

Lemma WF_push_atom h s e : WF h -> s <= e -> e <= blen (u8 h) -> WF (push_atom h s e).
Proof.
  intros [H1 H2 H3] Hs He. split; cbn.
  - exact H1.
  - apply Forall_app. split; [exact H2|]. constructor; [|constructor]. cbn. lia.
  - intros i l r Hi. destruct (H3 i l r Hi) as [Hl Hr].
    split; eapply vchild_ext; eauto using ext_push_atom.
Qed.

Lemma WF_push_pair h l r : WF h -> vnode h l -> vnode h r -> WF (push_pair h l r).
Proof.
  intros [H1 H2 H3] Hl Hr. split; cbn.
  - exact H1.
  - exact H2.
  - intros i l' r' Hi.
    destruct (Nat.lt_ge_cases i (length (pairs h))) as [Hlt|Hge].
    + rewrite nth_error_app1 in Hi by exact Hlt. destruct (H3 i l' r' Hi) as [A B].
      split; eapply vchild_ext; eauto using ext_push_pair.
    + rewrite nth_error_app2 in Hi by exact Hge.
      destruct (i - length (pairs h))%nat as [|k] eqn:E; [|destruct k; discriminate].
      cbn in Hi. inversion Hi; subst l' r'.
      assert (i = length (pairs h)) by lia. subst i.
      split.
      * destruct l; cbn in *; try exact Hl. unfold nlen in Hl. lia.
      * destruct r; cbn in *; try exact Hr. unfold nlen in Hr. lia.
Qed.

(* ------------------------------------------------------------------ denotation *)

Lemma denote_fuel_ext f h h' n t :
  ext h h' -> denote_fuel f h n = Some t -> denote_fuel f h' n = Some t.
Proof.
  intros ((x & Hx) & (y & Hy) & (z & Hz)). revert n t.
  induction f as [|f IH]; intros n t H; destruct n as [i|i|v]; cbn in *; try exact H; try discriminate.
  - destruct (nth_N (atoms h) i) as [[s e]|] eqn:E; [|discriminate].
    rewrite Hy, (nth_N_app_l _ _ _ _ E).
    destruct (slice (u8 h) s e) eqn:S; [|discriminate].
    rewrite Hx, (slice_app_l _ _ _ _ _ S). exact H.
  - destruct (nth_N (pairs h) i) as [[l r]|] eqn:E; [|discriminate].
    rewrite Hz, (nth_N_app_l _ _ _ _ E).
    destruct (denote_fuel f h l) eqn:El; [|discriminate].
    destruct (denote_fuel f h r) eqn:Er; [|discriminate].
    rewrite (IH _ _ El), (IH _ _ Er). exact H.
  - destruct (nth_N (atoms h) i) as [[s e]|] eqn:E; [|discriminate].
    rewrite Hy, (nth_N_app_l _ _ _ _ E).
    destruct (slice (u8 h) s e) eqn:S; [|discriminate].
    rewrite Hx, (slice_app_l _ _ _ _ _ S). exact H.
Qed.

Lemma denote_fuel_mono f f' h n t :
  (f <= f')%nat -> denote_fuel f h n = Some t -> denote_fuel f' h n = Some t.
Proof.
  revert f' n t. induction f as [|f IH]; intros f' n t Hle H.
  - destruct n; cbn in H; try discriminate; destruct f'; exact H.
  - destruct f' as [|f']; [lia|]. destruct n as [i|i|v]; cbn in *; try exact H.
    destruct (nth_N (pairs h) i) as [[l r]|]; [|discriminate].
    destruct (denote_fuel f h l) eqn:El; [|discriminate].
    destruct (denote_fuel f h r) eqn:Er; [|discriminate].
    rewrite (IH f' _ _ ltac:(lia) El), (IH f' _ _ ltac:(lia) Er). exact H.
Qed.

Lemma denote_ext h h' n t : ext h h' -> denote h n = Some t -> denote h' n = Some t.
Proof. unfold denote. apply denote_fuel_ext. Qed.

Lemma denote_fuel_total h : WF h -> forall f n, vnode h n -> (node_fuel n <= f)%nat ->
  exists t, denote_fuel f h n = Some t.
Proof.
  intros [H1 H2 H3]. induction f as [|f IH]; intros n Hv Hf.
  - destruct n as [i|i|v]; cbn in *; try lia.
    + destruct (nth_N_lt _ _ Hv) as [[s e] E]. rewrite E.
      assert (Hin : In (s, e) (atoms h)) by (eapply nth_error_In; exact E).
      rewrite Forall_forall in H2. destruct (H2 _ Hin) as [A B]. cbn in A, B.
      destruct (slice_ok _ _ _ A B) as (x & Sx & _). rewrite Sx. eauto.
    + replace (NODE_PTR_IDX_MASK <? v) with false by lia. eauto.
  - destruct n as [i|i|v]; cbn in *.
    + destruct (nth_N_lt _ _ Hv) as [[l r] E]. rewrite E.
      destruct (H3 _ _ _ E) as [Hl Hr].
      assert (Hi : (N.to_nat i <= length (pairs h))%nat) by (unfold nlen in Hv; lia).
      destruct (IH l) as [tl Tl].
      { eapply vchild_vnode; eauto. }
      { destruct l; cbn in *; lia. }
      destruct (IH r) as [tr Tr].
      { eapply vchild_vnode; eauto. }
      { destruct r; cbn in *; lia. }
      rewrite Tl, Tr. eauto.
    + destruct (nth_N_lt _ _ Hv) as [[s e] E]. rewrite E.
      assert (Hin : In (s, e) (atoms h)) by (eapply nth_error_In; exact E).
      rewrite Forall_forall in H2. destruct (H2 _ Hin) as [A B]. cbn in A, B.
      destruct (slice_ok _ _ _ A B) as (x & Sx & _). rewrite Sx. eauto.
    + replace (NODE_PTR_IDX_MASK <? v) with false by lia. eauto.
Qed.

Lemma denote_total h n : WF h -> vnode h n -> exists t, denote h n = Some t.
Proof. intros Hw Hv. unfold denote. eapply denote_fuel_total; eauto. Qed.

(* a valid node denotes the same tree in every extension of a well-formed heap *)
Lemma denote_stable h h' n : WF h -> ext h h' -> vnode h n -> denote h' n = denote h n.
Proof.
  intros Hw He Hv. destruct (denote_total h n Hw Hv) as [t Ht].
  rewrite Ht. eapply denote_ext; eauto.
Qed.

Lemma denote_pair h i l r tl tr :
  nth_N (pairs h) i = Some (l, r) -> denote h l = Some tl -> denote h r = Some tr ->
  vchild h (N.to_nat i) l -> vchild h (N.to_nat i) r ->
  denote h (PairP i) = Some (Cons tl tr).
Proof.
  intros E Hl Hr Vl Vr. unfold denote in *. cbn [node_fuel denote_fuel]. rewrite E.
  rewrite (denote_fuel_mono (node_fuel l) (N.to_nat i) h l tl); [|destruct l; cbn in *; lia|exact Hl].
  rewrite (denote_fuel_mono (node_fuel r) (N.to_nat i) h r tr); [|destruct r; cbn in *; lia|exact Hr].
  reflexivity.
Qed.

(* ------------------------------------------------------------------ checkpoints at heap level *)

Definition tcp_le (c : tcheckpoint) (h : heap) : Prop :=
  c_u8s c <= blen (u8 h) /\ c_atoms c <= nlen (atoms h) /\ c_pairs c <= nlen (pairs h).

Lemma trunc_ext h c : ext (trunc h c) h.
Proof.
  unfold trunc. repeat split; cbn.
  - destruct (take_N_split (c_u8s c) (u8 h)) as [r Hr]. exists r. exact Hr.
  - destruct (take_N_split (c_atoms c) (atoms h)) as [r Hr]. exists r. exact Hr.
  - destruct (take_N_split (c_pairs c) (pairs h)) as [r Hr]. exists r. exact Hr.
Qed.

Lemma trunc_of_ext h h' c : ext h h' -> tcp_le c h -> trunc h' c = trunc h c.
Proof.
  intros ((x & Hx) & (y & Hy) & (z & Hz)) (A & B & C). unfold trunc.
  rewrite Hx, Hy, Hz. rewrite !take_N_app by assumption. reflexivity.
Qed.

Lemma trunc_trunc h c d :
  c_u8s d <= c_u8s c -> c_atoms d <= c_atoms c -> c_pairs d <= c_pairs c ->
  trunc (trunc h c) d = trunc h d.
Proof. intros A B C. unfold trunc. cbn. rewrite !take_N_take by assumption. reflexivity. Qed.

Lemma trunc_lens h c : tcp_le c h ->
  blen (u8 (trunc h c)) = c_u8s c /\ nlen (atoms (trunc h c)) = c_atoms c /\ nlen (pairs (trunc h c)) = c_pairs c.
Proof.
  intros (A & B & C). unfold trunc. cbn. rewrite blen_nlen, !nlen_take.
  unfold blen in *. unfold nlen in *. lia.
Qed.

Lemma trunc_id h c :
  blen (u8 h) <= c_u8s c -> nlen (atoms h) <= c_atoms c -> nlen (pairs h) <= c_pairs c -> trunc h c = h.
Proof.
  intros A B C. unfold trunc. rewrite !take_N_all by assumption. destruct h; reflexivity.
Qed.
