(* C15: serialized_length_from_bytes (the untrusted, back-reference-aware length probe of
   src/serde/tools.rs:112, modelled in Model/BackRef.v) on classic input: whenever the classic
   grammar accepts a prefix of the input, the probe returns the number of bytes consumed. A classic
   parse never meets the 0xfe marker at a node position (parse_atom_node rejects it), so the
   back-reference branch of the probe is not taken. *)
From Clvm Require Import Model.Classic Model.BackRef Proofs.BytesLemmas Proofs.DecoderGeneric
  Proofs.ClassicProofs Proofs.ClassicWriter Proofs.ClassicConverse.
From Coq Require Import Lia ZifyBool ZifyN ZifyNat.
Open Scope N_scope.

Lemma probe_atom b r a r' values : b <> 255 -> parse_atom_node b r = Ok (a, r') ->
  b <> 254 /\ probe_on_atom b r values = Ok (Cons nil_s values, r').
Proof.
  intros Nb Hp. split.
  { intros ->. eapply parse_atom_254; eassumption. }
  unfold parse_atom_node in Hp. unfold probe_on_atom.
  destruct (N.eqb_spec b 1) as [E1|N1].
  { subst b. assert (r = r') by congruence. subst. reflexivity. }
  destruct (N.eqb_spec b 128) as [E80|N80].
  { assert (r = r') by congruence. subst. reflexivity. }
  destruct (N.leb_spec b 127) as [L|L].
  { assert (r = r') by congruence. subst. reflexivity. }
  cbn [orb]. destruct (decode_size b r) as [[size r0]|] eqn:E; cbn [bind] in Hp |- *; [|discriminate].
  destruct (take_n size r0) as [[blob r1]|]; [|discriminate].
  assert (r1 = r') by congruence. subst. reflexivity.
Qed.

Lemma probe_loop_parse : forall pf bs t rest, parse_rec read_atom_node Cons pf bs = Ok (t, rest) ->
  exists n sh, (n <= 2 * (length bs - length rest))%nat /\ (1 <= n)%nat /\
    forall k ops values,
      probe_loop (n + k) (OpSExp :: ops) values bs = probe_loop k ops (Cons sh values) rest.
Proof.
  induction pf as [|f IH]; intros bs t rest H; cbn in H; [discriminate|].
  destruct bs as [|b r]; [discriminate|].
  destruct (N.eqb_spec b 255) as [Eb|Nb].
  - destruct (parse_rec _ _ f r) as [[l r1]|] eqn:E1; cbn in H; [|discriminate].
    destruct (parse_rec _ _ f r1) as [[rt r2]|] eqn:E2; cbn in H; [|discriminate].
    assert (r2 = rest) by congruence. subst r2.
    pose proof (parse_rec_shrinks _ _ read_atom_node_shrinks read_atom_node_err _ _ _ _ E1) as S1.
    pose proof (parse_rec_shrinks _ _ read_atom_node_shrinks read_atom_node_err _ _ _ _ E2) as S2.
    destruct (IH _ _ _ E1) as (n1 & s1 & B1 & P1 & H1). destruct (IH _ _ _ E2) as (n2 & s2 & B2 & P2 & H2).
    exists (S (n1 + (n2 + 1))), (Cons s1 s2). split; [cbn [length]; lia|]. split; [lia|].
    intros k ops values. unfold probe_loop in *. cbn [Nat.add br_loop].
    destruct (N.eqb_spec b 255); [|contradiction].
    rewrite <- Nat.add_assoc, H1. rewrite <- Nat.add_assoc, H2.
    cbn [Nat.add br_loop probe_on_cons]. reflexivity.
  - unfold read_atom_node in H. destruct (parse_atom_node b r) as [[a r']|] eqn:Ea; cbn in H; [|discriminate].
    assert (r' = rest) by congruence. subst r'.
    pose proof (read_atom_node_shrinks b r (Atom a) rest) as S1.
    unfold read_atom_node in S1. rewrite Ea in S1. specialize (S1 eq_refl).
    exists 1%nat, nil_s. split; [cbn [length]; lia|]. split; [lia|].
    intros k ops values. unfold probe_loop. cbn [Nat.add br_loop].
    destruct (probe_atom b r a rest values Nb Ea) as [N254 Hpa].
    destruct (N.eqb_spec b 255); [contradiction|]. destruct (N.eqb_spec b 254); [contradiction|].
    rewrite Hpa. reflexivity.
Qed.

Theorem untrusted_length_parse : forall bs t rest, parse bs = Ok (t, rest) ->
  serialized_length_from_bytes bs = Ok (blen bs - blen rest).
Proof.
  intros bs t rest H. unfold serialized_length_from_bytes, de_fuel, parse in *.
  destruct (probe_loop_parse _ _ _ _ H) as (n & sh & B & P & Hn).
  replace (2 * length bs + 2)%nat with (n + (2 * length bs + 2 - n))%nat by lia.
  rewrite Hn. destruct (2 * length bs + 2 - n)%nat eqn:E; [lia|]. reflexivity.
Qed.

Theorem untrusted_length_ser : forall t e rest, wf_sexp t = true -> ser t = Some e ->
  serialized_length_from_bytes (e ++ rest) = Ok (blen e).
Proof.
  intros t e rest Hwf Hs. rewrite (untrusted_length_parse _ t rest) by (apply parse_ser; assumption).
  f_equal. rewrite blen_app. lia.
Qed.

(* the trusted and the untrusted length agree on everything the classic decoder accepts *)
Theorem lengths_agree_on_accepted : forall bs t rest, node_from_stream bs = Ok (t, rest) ->
  serialized_length_from_bytes bs = Ok (blen bs - blen rest) /\
  serialized_length_trusted bs = Ok (blen bs - blen rest).
Proof.
  intros bs t rest H. rewrite node_from_stream_parse in H. split.
  - eapply untrusted_length_parse; eassumption.
  - eapply trusted_length_parse; eassumption.
Qed.
