(* The operator contracts of Proofs/OpContractDefs.v for every cryptographic operator of
   Model/OpsCrypto.v, for ALL primitives P (no assumption about them).

   Method: three compositional predicates on budget-indexed computations  N -> res (N * X)
   (budk: budget contract with a lower bound on the reported cost; valrel: the payload does not
   depend on cost constants or budget; tot: every error is a user error), each with one lemma
   per construct the operators are written with (check_cost, bind of a budget-independent step,
   post-processing, the loops by induction). *)
From Coq Require Import Lia ZifyBool ZifyN ZifyNat.
From Clvm Require Import Model.OpsCrypto Proofs.OpContractDefs.
Open Scope N_scope.
Arguments N.add : simpl never.
Arguments N.sub : simpl never.
Arguments N.mul : simpl never.
Arguments N.eqb : simpl never.
Arguments N.ltb : simpl never.
Arguments N.leb : simpl never.

Lemma Ok_inj2 {A} (x y : A) : Ok x = Ok y -> x = y.
Proof. intros H. inversion H. reflexivity. Qed.

Lemma cc_ok c m : c <= m -> check_cost c m = Ok tt.
Proof. intros H. unfold check_cost. destruct (N.ltb_spec m c); [lia|reflexivity]. Qed.
Lemma cc_err c m : m < c -> check_cost c m = Err CostExceeded.
Proof. intros H. unfold check_cost. destruct (N.ltb_spec m c); [reflexivity|lia]. Qed.
Lemma cc_cases c m : (c <= m /\ check_cost c m = Ok tt) \/ (m < c /\ check_cost c m = Err CostExceeded).
Proof. destruct (N.le_gt_cases c m); [left|right]; auto using cc_ok, cc_err. Qed.

(* ================= budget ================= *)
Section Budget.
Context {X : Type}.

Definition budk (k : N) (g : N -> res (N * X)) : Prop :=
  forall m c x, g m = Ok (c, x) ->
    k <= c /\
    forall m', ((m <= m' \/ c <= m') -> g m' = Ok (c, x)) /\
               (g m' = Ok (c, x) \/ g m' = Err CostExceeded).

Lemma budk_ret k c x : k <= c -> budk k (fun _ => Ok (c, x)).
Proof. intros Hk m c' x' H. apply Ok_inj2 in H. inversion H; subst. split; [exact Hk|]. intros m'. split; auto. Qed.

Lemma budk_err k e : budk k (fun _ => Err e).
Proof. intros m c x H. discriminate H. Qed.

Lemma budk_check k0 k g : k0 <= k -> budk k g ->
  budk k0 (fun m => do _ <- check_cost k m; g m).
Proof.
  intros Hk Hg m c x H.
  destruct (cc_cases k m) as [[Hc E]|[Hc E]]; rewrite E in H; cbn [bind] in H; [|discriminate H].
  destruct (Hg m c x H) as [Hkc Hm]. split; [lia|]. intros m'. destruct (Hm m') as [H1 H2].
  split.
  - intros Hmm. rewrite cc_ok by lia. cbn [bind]. apply H1, Hmm.
  - destruct (cc_cases k m') as [[Hc' E']|[Hc' E']]; rewrite E'; cbn [bind]; auto.
Qed.

Lemma budk_bind {Y} k (r : res Y) (g : Y -> N -> res (N * X)) :
  (forall y, budk k (g y)) -> budk k (fun m => do y <- r; g y m).
Proof.
  intros Hg. destruct r as [y|e]; cbn [bind]; [apply Hg|apply budk_err].
Qed.

Lemma budk_weaken k0 k g : k0 <= k -> budk k g -> budk k0 g.
Proof. intros Hk Hg m c x H. destruct (Hg m c x H) as [H1 H2]. split; [lia|exact H2]. Qed.
End Budget.

(* post-processing of a budgeted computation by a budget-independent step that does not lower
   the cost *)
Lemma budk_post {Y X} k (g : N -> res (N * Y)) (post : N * Y -> res (N * X)) :
  budk k g ->
  (forall c y C V, post (c, y) = Ok (C, V) -> c <= C) ->
  budk k (fun m => do cy <- g m; post cy).
Proof.
  intros Hg Hp m C V H.
  destruct (g m) as [[c y]|e] eqn:E; cbn [bind] in H; [|discriminate H].
  destruct (Hg m c y E) as [Hkc Hm]. pose proof (Hp c y C V H) as HcC. split; [lia|].
  intros m'. destruct (Hm m') as [H1 H2]. split.
  - intros Hmm. rewrite H1 by lia. cbn [bind]. exact H.
  - destruct H2 as [H2|H2]; rewrite H2; cbn [bind]; auto.
Qed.

Lemma budk_op (op : opfn) : (forall f a, budk 0 (op f a)) -> op_budget op.
Proof.
  intros H f a m c v E m'. destruct (H f a m c v E) as [_ Hm]. destruct (Hm m') as [H1 H2].
  split; [|split]; auto.
Qed.

(* ================= value independent of the cost model ================= *)
Section ValRel.
Context {X : Type}.
Definition valrel (g g' : N -> res (N * X)) : Prop :=
  forall m m' c x c' x', g m = Ok (c, x) -> g' m' = Ok (c', x') -> x = x'.

Lemma valrel_ret c c' x : valrel (fun _ => Ok (c, x)) (fun _ => Ok (c', x)).
Proof. intros m m' c0 x0 c1 x1 H H'. apply Ok_inj2 in H. apply Ok_inj2 in H'. congruence. Qed.
Lemma valrel_err_l e g' : valrel (fun _ => Err e) g'.
Proof. intros m m' c x c' x' H. discriminate H. Qed.
Lemma valrel_err_r e g : valrel g (fun _ => Err e).
Proof. intros m m' c x c' x' _ H. discriminate H. Qed.
Lemma valrel_check k k' g g' : valrel g g' ->
  valrel (fun m => do _ <- check_cost k m; g m) (fun m => do _ <- check_cost k' m; g' m).
Proof.
  intros Hg m m' c x c' x' H H'.
  destruct (check_cost k m); cbn [bind] in H; [|discriminate H].
  destruct (check_cost k' m'); cbn [bind] in H'; [|discriminate H'].
  eapply Hg; eassumption.
Qed.
Lemma valrel_check_l k g g' : valrel g g' -> valrel (fun m => do _ <- check_cost k m; g m) g'.
Proof.
  intros Hg m m' c x c' x' H H'.
  destruct (check_cost k m); cbn [bind] in H; [|discriminate H]. eapply Hg; eassumption.
Qed.
Lemma valrel_bind {Y} (r : res Y) (g g' : Y -> N -> res (N * X)) :
  (forall y, valrel (g y) (g' y)) -> valrel (fun m => do y <- r; g y m) (fun m => do y <- r; g' y m).
Proof. intros Hg. destruct r as [y|e]; cbn [bind]; [apply Hg|apply valrel_err_l]. Qed.
End ValRel.

Lemma valrel_post {Y X} (g g' : N -> res (N * Y)) (post post' : N * Y -> res (N * X)) :
  valrel g g' ->
  (forall c c' y C V C' V', post (c, y) = Ok (C, V) -> post' (c', y) = Ok (C', V') -> V = V') ->
  valrel (fun m => do cy <- g m; post cy) (fun m => do cy <- g' m; post' cy).
Proof.
  intros Hg Hp m m' C V C' V' H H'.
  destruct (g m) as [[c y]|e] eqn:E; cbn [bind] in H; [|discriminate H].
  destruct (g' m') as [[c' y']|e] eqn:E'; cbn [bind] in H'; [|discriminate H'].
  pose proof (Hg m m' c y c' y' E E') as <-. eapply Hp; eassumption.
Qed.

Lemma valrel_op (op : opfn) :
  (forall f f' a, same_but_cost_model f f' -> valrel (op f a) (op f' a)) -> op_cm_indep op.
Proof. intros H f f' a m m' c v c' v' Hs E E'. eapply H; eassumption. Qed.

(* ================= totality ================= *)
Definition ures {Y} (r : res Y) : Prop := forall e, r = Err e -> user_error e = true.

Section Tot.
Context {X : Type}.
Definition tot (g : N -> res (N * X)) : Prop := forall m, ures (g m).

Lemma tot_ret c x : tot (fun _ => Ok (c, x)).
Proof. intros m e H. discriminate H. Qed.
Lemma tot_err e : user_error e = true -> tot (fun _ => Err e).
Proof. intros He m e' H. inversion H; subst. exact He. Qed.
Lemma tot_check k g : tot g -> tot (fun m => do _ <- check_cost k m; g m).
Proof.
  intros Hg m e H. destruct (cc_cases k m) as [[_ E]|[_ E]]; rewrite E in H; cbn [bind] in H.
  - eapply Hg, H.
  - inversion H; subst. reflexivity.
Qed.
Lemma tot_bind {Y} (r : res Y) (g : Y -> N -> res (N * X)) :
  ures r -> (forall y, tot (g y)) -> tot (fun m => do y <- r; g y m).
Proof.
  intros Hr Hg m e H. destruct r as [y|e0]; cbn [bind] in H.
  - eapply Hg, H.
  - inversion H; subst. apply Hr. reflexivity.
Qed.
End Tot.

Lemma tot_post {Y X} (g : N -> res (N * Y)) (post : N * Y -> res (N * X)) :
  tot g -> (forall cy, ures (post cy)) -> tot (fun m => do cy <- g m; post cy).
Proof.
  intros Hg Hp m e H. destruct (g m) as [cy|e0] eqn:E; cbn [bind] in H.
  - eapply Hp, H.
  - inversion H; subst. eapply Hg, E.
Qed.

Lemma tot_op (op : opfn) : (forall f a, tot (op f a)) -> op_total (fun _ _ => True) op.
Proof. intros H f a m e _ E. eapply H, E. Qed.

(* user-error facts about the helpers *)
Lemma ures_ok {Y} (y : Y) : ures (Ok y).
Proof. intros e H. discriminate H. Qed.
Lemma ures_bad {Y} : ures (@bad_arg Y).
Proof. intros e H. inversion H. reflexivity. Qed.
Lemma ures_alloc {Y} : ures (@alloc_arg Y).
Proof. intros e H. inversion H. reflexivity. Qed.
Lemma ures_get_args1 a : ures (get_args1 a).
Proof. destruct a as [|? [|]]; cbn; auto using ures_ok, ures_bad. Qed.
Lemma ures_get_args2 a : ures (get_args2 a).
Proof. destruct a as [|? [|? [|]]]; cbn; auto using ures_ok, ures_bad. Qed.
Lemma ures_get_args3 a : ures (get_args3 a).
Proof. destruct a as [|? [|? [|? [|]]]]; cbn; auto using ures_ok, ures_bad. Qed.
Lemma ures_atom_of t : ures (atom_of t).
Proof. destruct t; cbn; auto using ures_ok, ures_bad. Qed.
Lemma ures_int_atom t : ures (int_atom t).
Proof. destruct t; cbn; auto using ures_ok, ures_bad. Qed.
Lemma ures_first t : ures (first t).
Proof. destruct t; cbn; auto using ures_ok, ures_bad. Qed.
Lemma ures_rest t : ures (rest t).
Proof. destruct t; cbn; auto using ures_ok, ures_bad. Qed.
Lemma ures_g1_point P t : ures (g1_point P t).
Proof. destruct t; cbn; auto using ures_alloc. destruct (negb _); auto using ures_alloc. destruct (p_g1_valid _ _); auto using ures_ok, ures_alloc. Qed.
Lemma ures_g2_point P t : ures (g2_point P t).
Proof. destruct t; cbn; auto using ures_alloc. destruct (negb _); auto using ures_alloc. destruct (p_g2_valid _ _); auto using ures_ok, ures_alloc. Qed.
Lemma ures_get_varargs n a : ures (get_varargs n a).
Proof.
  revert n. induction a as [b|x _ r IH]; intros n; [destruct n; apply ures_ok|].
  destruct n as [|k]; cbn [get_varargs]; [apply ures_bad|]. intros e H. specialize (IH k).
  destruct (get_varargs k r); cbn [bind] in H; [discriminate H|]. inversion H; subst. apply IH. reflexivity.
Qed.
Lemma ures_map_args a : ures (map_args a).
Proof.
  unfold map_args. intros e H. pose proof (ures_get_varargs 2 a) as Hv.
  destruct (get_varargs 2 a) as [l|e0]; cbn [bind] in H.
  - destruct l as [|? [|? [|]]]; try discriminate H; inversion H; reflexivity.
  - inversion H; subst. apply Hv. reflexivity.
Qed.
#[export] Hint Resolve ures_ok ures_bad ures_alloc ures_get_args1 ures_get_args2 ures_get_args3 ures_atom_of
  ures_int_atom ures_first ures_rest ures_g1_point ures_g2_point ures_map_args : ures.

(* ================= tactics ================= *)
Ltac bstep :=
  match goal with
  | |- budk _ (fun _ => Ok _) => apply budk_ret; lia
  | |- budk _ (fun _ => Err _) => apply budk_err
  | |- budk _ (fun _ => bad_arg) => apply budk_err
  | |- budk _ (fun _ => alloc_arg) => apply budk_err
  | |- budk _ (fun _ => atom_and_cost _ _) => unfold atom_and_cost; apply budk_ret; lia
  | |- budk _ (fun m => if ?b then _ else _) => destruct b
  | |- budk _ (fun m => match ?y with _ => _ end) => destruct y
  | |- budk _ (fun m => bind (check_cost _ m) _) => eapply budk_check; [lia|]
  | |- budk _ (fun m => bind _ _) => apply budk_bind; intros
  end.

Ltac vstep :=
  match goal with
  | |- valrel (fun _ => Err _) _ => apply valrel_err_l
  | |- valrel _ (fun _ => Err _) => apply valrel_err_r
  | |- valrel (fun _ => bad_arg) _ => apply valrel_err_l
  | |- valrel _ (fun _ => bad_arg) => apply valrel_err_r
  | |- valrel (fun _ => Ok _) (fun _ => Ok _) => apply valrel_ret
  | |- valrel (fun _ => atom_and_cost _ _) (fun _ => atom_and_cost _ _) => unfold atom_and_cost; apply valrel_ret
  | |- valrel (fun m => if ?b then _ else _) _ => destruct b
  | |- valrel _ (fun m => if ?b then _ else _) => destruct b
  | |- valrel (fun m => match ?y with _ => _ end) _ => destruct y
  | |- valrel (fun m => bind (check_cost _ m) _) (fun m => bind (check_cost _ m) _) => apply valrel_check
  | |- valrel (fun m => bind _ _) (fun m => bind _ _) => apply valrel_bind; intros
  end.

Ltac tstep :=
  match goal with
  | |- tot (fun _ => Ok _) => apply tot_ret
  | |- tot (fun _ => Err _) => apply tot_err; reflexivity
  | |- tot (fun _ => bad_arg) => apply tot_err; reflexivity
  | |- tot (fun _ => alloc_arg) => apply tot_err; reflexivity
  | |- tot (fun _ => atom_and_cost _ _) => unfold atom_and_cost; apply tot_ret
  | |- tot (fun m => if ?b then _ else _) => destruct b
  | |- tot (fun m => match ?y with _ => _ end) => destruct y
  | |- tot (fun m => bind (check_cost _ m) _) => apply tot_check
  | |- tot (fun m => bind (match ?d with _ => _ end) _) => destruct d
  | |- tot (fun m => bind _ _) => apply tot_bind; [auto with ures|intros]
  end.

(* flags: which ones an operator reads *)
Definition reads_ncm (op : opfn) : Prop :=
  forall f f' a m, f_new_cost_model f = f_new_cost_model f' -> op f a m = op f' a m.

Lemma reads_ncm_restrict op : reads_ncm op -> op_restrict op.
Proof. intros H f f' a m r Hle E. rewrite (H f f' a m); [exact E|]. apply Hle. Qed.
Lemma reads_ncm_malachite op : reads_ncm op -> op_malachite_indep op.
Proof. intros H f f' a m Hs. apply H. apply Hs. Qed.
Lemma reads_ncm_gc op : reads_ncm op -> op_gc_indep op.
Proof. intros H f f' a m Hs. apply H. apply Hs. Qed.

Section Ops.
Variable P : prims.

(* ---------------- loops ---------------- *)
Lemma point_add_loop_budk a : forall cost total, budk cost (fun m => point_add_loop P a cost total m).
Proof.
  induction a as [b|x _ r IH]; intros cost total; cbn [point_add_loop].
  - bstep.
  - bstep. bstep. eapply budk_weaken; [|apply IH]. lia.
Qed.
Lemma point_add_loop_tot a : forall cost total, tot (fun m => point_add_loop P a cost total m).
Proof. induction a as [b|x _ r IH]; intros cost total; cbn [point_add_loop]; repeat tstep. apply IH. Qed.

Lemma subtract_loop_budk pf add neg per a : forall cost total fst,
  budk cost (fun m => subtract_loop pf add neg a cost per total fst m).
Proof.
  induction a as [b|x _ r IH]; intros cost total fst; cbn [subtract_loop].
  - bstep.
  - bstep. bstep. eapply budk_weaken; [|apply IH]. lia.
Qed.
Lemma subtract_loop_tot pf add neg per a : (forall t, ures (pf t)) -> forall cost total fst,
  tot (fun m => subtract_loop pf add neg a cost per total fst m).
Proof.
  intros Hpf. induction a as [b|x _ r IH]; intros cost total fst; cbn [subtract_loop].
  - tstep.
  - apply tot_bind; [apply Hpf|intros]. tstep. apply IH.
Qed.

Lemma g2_add_loop_budk a : forall cost total, budk cost (fun m => g2_add_loop P a cost total m).
Proof.
  induction a as [b|x _ r IH]; intros cost total; cbn [g2_add_loop].
  - bstep.
  - bstep. bstep. eapply budk_weaken; [|apply IH]. lia.
Qed.
Lemma g2_add_loop_tot a : forall cost total, tot (fun m => g2_add_loop P a cost total m).
Proof. induction a as [b|x _ r IH]; intros cost total; cbn [g2_add_loop]; repeat tstep. apply IH. Qed.

Lemma keccak_loop_budk cpa cpb a : forall cost, budk cost (fun m => keccak_loop a cost cpa cpb m).
Proof.
  induction a as [b|x _ r IH]; intros cost; cbn [keccak_loop].
  - bstep.
  - bstep. bstep.
    eapply budk_post.
    + eapply budk_weaken; [|apply IH]. lia.
    + intros c bs C V H. cbn beta iota in H. apply Ok_inj2 in H. inversion H. lia.
Qed.
Lemma keccak_loop_tot cpa cpb a : forall cost, tot (fun m => keccak_loop a cost cpa cpb m).
Proof.
  induction a as [b|x _ r IH]; intros cost; cbn [keccak_loop].
  - tstep.
  - tstep. tstep.
    eapply tot_post.
    + apply IH.
    + intros [c bs]. apply ures_ok.
Qed.
Lemma keccak_loop_valrel a : forall cost cpa cpb cost' cpa' cpb',
  valrel (fun m => keccak_loop a cost cpa cpb m) (fun m => keccak_loop a cost' cpa' cpb' m).
Proof.
  induction a as [b|x _ r IH]; intros cost cpa cpb cost' cpa' cpb'; cbn [keccak_loop].
  - vstep.
  - vstep. vstep.
    eapply valrel_post.
    + apply IH.
    + intros c c' bs C V C' V' H H'. cbn beta iota in H, H'. apply Ok_inj2 in H. apply Ok_inj2 in H'. congruence.
Qed.

(* nested induction principle for the two-at-a-time loops *)
Lemma sexp_ind2 (Q : sexp -> Prop) :
  (forall b, Q (Atom b)) -> (forall x b, Q (Cons x (Atom b))) ->
  (forall x y r, Q r -> Q (Cons x (Cons y r))) -> forall a, Q a.
Proof.
  intros Ha H1 H2. fix IH 1. intros [b|x [b|y r]]; [apply Ha|apply H1|apply H2, IH].
Qed.

Lemma pairing_loop_budk cpa a : forall cost, budk cost (fun m => pairing_loop P a cost cpa m).
Proof.
  induction a as [b|x1 b|x1 x2 r IH] using sexp_ind2; intros cost; cbn [pairing_loop].
  - destruct b; repeat bstep.
  - repeat bstep.
  - bstep. bstep. bstep.
    eapply budk_post.
    + apply IH.
    + intros c bs C V H. cbn beta iota in H. apply Ok_inj2 in H. inversion H. lia.
Qed.
Lemma pairing_loop_tot cpa a : forall cost, tot (fun m => pairing_loop P a cost cpa m).
Proof.
  induction a as [b|x1 b|x1 x2 r IH] using sexp_ind2; intros cost; cbn [pairing_loop].
  - destruct b; repeat tstep.
  - repeat tstep.
  - tstep. tstep. tstep.
    eapply tot_post.
    + apply IH.
    + intros [c bs]. apply ures_ok.
Qed.

Lemma verify_loop_budk cpa cpb cpd a : forall cost, budk cost (fun m => verify_loop P a cost cpa cpb cpd m).
Proof.
  induction a as [b|x1 b|x1 x2 r IH] using sexp_ind2; intros cost; cbn [verify_loop].
  - destruct b; repeat bstep.
  - repeat bstep.
  - bstep. bstep. bstep.
    eapply budk_post.
    + apply IH.
    + intros c bs C V H. cbn beta iota in H. apply Ok_inj2 in H. inversion H. lia.
Qed.
Lemma verify_loop_tot cpa cpb cpd a : forall cost, tot (fun m => verify_loop P a cost cpa cpb cpd m).
Proof.
  induction a as [b|x1 b|x1 x2 r IH] using sexp_ind2; intros cost; cbn [verify_loop].
  - destruct b; repeat tstep.
  - repeat tstep.
  - tstep. tstep. tstep.
    eapply tot_post.
    + apply IH.
    + intros [c bs]. apply ures_ok.
Qed.


(* ---------------- operator-level tactics ---------------- *)
Ltac post_le :=
  let Hq := fresh "Hq" in
  intros ? ? ? ? Hq; cbn beta iota in Hq; unfold atom_and_cost in Hq;
  repeat match type of Hq with context [if ?b then _ else _] => destruct b end;
  try discriminate Hq; apply Ok_inj2 in Hq; inversion Hq; lia.

Ltac loop_budk :=
  first [ eapply budk_weaken; [|apply point_add_loop_budk]; lia
        | eapply budk_weaken; [|apply subtract_loop_budk]; lia
        | eapply budk_weaken; [|apply g2_add_loop_budk]; lia
        | eapply budk_weaken; [|apply keccak_loop_budk]; lia
        | eapply budk_weaken; [|apply pairing_loop_budk]; lia
        | eapply budk_weaken; [|apply verify_loop_budk]; lia ].

Ltac bop := repeat first [ bstep | eapply budk_post; [loop_budk|post_le] ].

Ltac post_ures :=
  intros [? ?]; cbn beta iota; unfold atom_and_cost;
  repeat match goal with |- ures (if ?b then _ else _) => destruct b end;
  first [ apply ures_ok | intros ? Hq; inversion Hq; reflexivity ].

Ltac loop_tot :=
  first [ apply point_add_loop_tot | apply subtract_loop_tot; auto with ures | apply g2_add_loop_tot
        | apply keccak_loop_tot | apply pairing_loop_tot | apply verify_loop_tot ].

Ltac top := repeat first [ tstep | eapply tot_post; [loop_tot|post_ures] ].

Ltac flags3 f :=
  destruct (f_new_cost_model f), (f_limits f), (f_relaxed_bls f); cbn [andb negb].

Lemma cm_from_budget (op : opfn) :
  (forall f f' a m, op f a m = op f' a m) -> op_budget op -> op_cm_indep op.
Proof.
  intros Hf Hb f f' a m m' c v c' v' _ E E'. rewrite <- (Hf f f') in E'.
  destruct (Hb f a m c v E m') as (_ & _ & [H|H]); rewrite H in E'; [|discriminate E'].
  apply Ok_inj2 in E'. congruence.
Qed.

Lemma cm_from_nil (op : opfn) :
  (forall f a m c v, op f a m = Ok (c, v) -> v = nil_s) -> op_cm_indep op.
Proof. intros H f f' a m m' c v c' v' _ E E'. rewrite (H _ _ _ _ _ E), (H _ _ _ _ _ E'). reflexivity. Qed.

(* ---------------- point_add ---------------- *)
Lemma point_add_flags f f' a m : op_point_add P f a m = op_point_add P f' a m.
Proof. reflexivity. Qed.
Lemma point_add_budget : op_budget (op_point_add P).
Proof. apply budk_op. intros f a. unfold op_point_add. bop. Qed.
Lemma point_add_restrict : op_restrict (op_point_add P).
Proof. apply reads_ncm_restrict. intros f f' a m _. reflexivity. Qed.
Lemma point_add_cm_indep : op_cm_indep (op_point_add P).
Proof. apply cm_from_budget; [exact point_add_flags|exact point_add_budget]. Qed.
Lemma point_add_malachite_indep : op_malachite_indep (op_point_add P).
Proof. apply reads_ncm_malachite. intros f f' a m _. reflexivity. Qed.
Lemma point_add_gc_indep : op_gc_indep (op_point_add P).
Proof. apply reads_ncm_gc. intros f f' a m _. reflexivity. Qed.
Lemma point_add_total : op_total (fun _ _ => True) (op_point_add P).
Proof. apply tot_op. intros f a. unfold op_point_add. top. Qed.

(* ---------------- pubkey_for_exp ---------------- *)
Lemma pubkey_for_exp_budget : op_budget (op_pubkey_for_exp P).
Proof. apply budk_op. intros f a. unfold op_pubkey_for_exp. bop. Qed.
Lemma pubkey_for_exp_restrict : op_restrict (op_pubkey_for_exp P).
Proof. apply reads_ncm_restrict. intros f f' a m _. reflexivity. Qed.
Lemma pubkey_for_exp_cm_indep : op_cm_indep (op_pubkey_for_exp P).
Proof. apply cm_from_budget; [reflexivity|exact pubkey_for_exp_budget]. Qed.
Lemma pubkey_for_exp_malachite_indep : op_malachite_indep (op_pubkey_for_exp P).
Proof. apply reads_ncm_malachite. intros f f' a m _. reflexivity. Qed.
Lemma pubkey_for_exp_gc_indep : op_gc_indep (op_pubkey_for_exp P).
Proof. apply reads_ncm_gc. intros f f' a m _. reflexivity. Qed.
Lemma pubkey_for_exp_total : op_total (fun _ _ => True) (op_pubkey_for_exp P).
Proof. apply tot_op. intros f a. unfold op_pubkey_for_exp. top. Qed.

(* ---------------- coinid ---------------- *)
Lemma coinid_ncm H : reads_ncm (op_coinid H).
Proof. intros f f' a m E. unfold op_coinid. rewrite E. reflexivity. Qed.
Lemma coinid_budget H : op_budget (op_coinid H).
Proof. apply budk_op. intros f a. unfold op_coinid. bop. Qed.
Lemma coinid_restrict H : op_restrict (op_coinid H).
Proof. apply reads_ncm_restrict, coinid_ncm. Qed.
Lemma coinid_cm_indep H : op_cm_indep (op_coinid H).
Proof.
  apply valrel_op. intros f f' a _. unfold op_coinid.
  destruct (f_new_cost_model f), (f_new_cost_model f'); repeat vstep.
Qed.
Lemma coinid_malachite_indep H : op_malachite_indep (op_coinid H).
Proof. apply reads_ncm_malachite, coinid_ncm. Qed.
Lemma coinid_gc_indep H : op_gc_indep (op_coinid H).
Proof. apply reads_ncm_gc, coinid_ncm. Qed.
Lemma coinid_total H : op_total (fun _ _ => True) (op_coinid H).
Proof. apply tot_op. intros f a. unfold op_coinid. top. Qed.

(* ---------------- keccak256 ---------------- *)
Lemma keccak256_ncm : reads_ncm (op_keccak256 P).
Proof. intros f f' a m E. unfold op_keccak256. rewrite E. reflexivity. Qed.
Lemma keccak256_budget : op_budget (op_keccak256 P).
Proof. apply budk_op. intros f a. unfold op_keccak256. destruct (f_new_cost_model f); bop. Qed.
Lemma keccak256_restrict : op_restrict (op_keccak256 P).
Proof. apply reads_ncm_restrict, keccak256_ncm. Qed.
Lemma keccak256_cm_indep : op_cm_indep (op_keccak256 P).
Proof.
  apply valrel_op. intros f f' a _. unfold op_keccak256.
  destruct (f_new_cost_model f), (f_new_cost_model f');
    (eapply valrel_post; [apply keccak_loop_valrel|
       intros c c' y C V C' V' Hq Hq'; cbn beta iota in Hq, Hq'; unfold atom_and_cost in Hq, Hq';
       apply Ok_inj2 in Hq; apply Ok_inj2 in Hq'; congruence]).
Qed.
Lemma keccak256_malachite_indep : op_malachite_indep (op_keccak256 P).
Proof. apply reads_ncm_malachite, keccak256_ncm. Qed.
Lemma keccak256_gc_indep : op_gc_indep (op_keccak256 P).
Proof. apply reads_ncm_gc, keccak256_ncm. Qed.
Lemma keccak256_total : op_total (fun _ _ => True) (op_keccak256 P).
Proof. apply tot_op. intros f a. unfold op_keccak256. destruct (f_new_cost_model f); top. Qed.

(* ---------------- secp256k1 / secp256r1 ---------------- *)
Lemma secp_verify_budget cost pk sg vf : op_budget (secp_verify cost pk sg vf).
Proof. apply budk_op. intros f a. unfold secp_verify. bop. Qed.
Lemma secp_verify_total cost pk sg vf : op_total (fun _ _ => True) (secp_verify cost pk sg vf).
Proof. apply tot_op. intros f a. unfold secp_verify. top. Qed.

Lemma secp256k1_verify_budget : op_budget (op_secp256k1_verify P).
Proof. apply secp_verify_budget. Qed.
Lemma secp256k1_verify_restrict : op_restrict (op_secp256k1_verify P).
Proof. apply reads_ncm_restrict. intros f f' a m _. reflexivity. Qed.
Lemma secp256k1_verify_cm_indep : op_cm_indep (op_secp256k1_verify P).
Proof. apply cm_from_budget; [reflexivity|exact secp256k1_verify_budget]. Qed.
Lemma secp256k1_verify_malachite_indep : op_malachite_indep (op_secp256k1_verify P).
Proof. apply reads_ncm_malachite. intros f f' a m _. reflexivity. Qed.
Lemma secp256k1_verify_gc_indep : op_gc_indep (op_secp256k1_verify P).
Proof. apply reads_ncm_gc. intros f f' a m _. reflexivity. Qed.
Lemma secp256k1_verify_total : op_total (fun _ _ => True) (op_secp256k1_verify P).
Proof. apply secp_verify_total. Qed.

Lemma secp256r1_verify_budget : op_budget (op_secp256r1_verify P).
Proof. apply secp_verify_budget. Qed.
Lemma secp256r1_verify_restrict : op_restrict (op_secp256r1_verify P).
Proof. apply reads_ncm_restrict. intros f f' a m _. reflexivity. Qed.
Lemma secp256r1_verify_cm_indep : op_cm_indep (op_secp256r1_verify P).
Proof. apply cm_from_budget; [reflexivity|exact secp256r1_verify_budget]. Qed.
Lemma secp256r1_verify_malachite_indep : op_malachite_indep (op_secp256r1_verify P).
Proof. apply reads_ncm_malachite. intros f f' a m _. reflexivity. Qed.
Lemma secp256r1_verify_gc_indep : op_gc_indep (op_secp256r1_verify P).
Proof. apply reads_ncm_gc. intros f f' a m _. reflexivity. Qed.
Lemma secp256r1_verify_total : op_total (fun _ _ => True) (op_secp256r1_verify P).
Proof. apply secp_verify_total. Qed.

(* ---------------- g1_subtract / g2_add / g2_subtract ---------------- *)
Lemma bls_g1_subtract_budget : op_budget (op_bls_g1_subtract P).
Proof. apply budk_op. intros f a. unfold op_bls_g1_subtract. bop. Qed.
Lemma bls_g1_subtract_restrict : op_restrict (op_bls_g1_subtract P).
Proof. apply reads_ncm_restrict. intros f f' a m _. reflexivity. Qed.
Lemma bls_g1_subtract_cm_indep : op_cm_indep (op_bls_g1_subtract P).
Proof. apply cm_from_budget; [reflexivity|exact bls_g1_subtract_budget]. Qed.
Lemma bls_g1_subtract_malachite_indep : op_malachite_indep (op_bls_g1_subtract P).
Proof. apply reads_ncm_malachite. intros f f' a m _. reflexivity. Qed.
Lemma bls_g1_subtract_gc_indep : op_gc_indep (op_bls_g1_subtract P).
Proof. apply reads_ncm_gc. intros f f' a m _. reflexivity. Qed.
Lemma bls_g1_subtract_total : op_total (fun _ _ => True) (op_bls_g1_subtract P).
Proof. apply tot_op. intros f a. unfold op_bls_g1_subtract. top. Qed.

Lemma bls_g2_add_budget : op_budget (op_bls_g2_add P).
Proof. apply budk_op. intros f a. unfold op_bls_g2_add. bop. Qed.
Lemma bls_g2_add_restrict : op_restrict (op_bls_g2_add P).
Proof. apply reads_ncm_restrict. intros f f' a m _. reflexivity. Qed.
Lemma bls_g2_add_cm_indep : op_cm_indep (op_bls_g2_add P).
Proof. apply cm_from_budget; [reflexivity|exact bls_g2_add_budget]. Qed.
Lemma bls_g2_add_malachite_indep : op_malachite_indep (op_bls_g2_add P).
Proof. apply reads_ncm_malachite. intros f f' a m _. reflexivity. Qed.
Lemma bls_g2_add_gc_indep : op_gc_indep (op_bls_g2_add P).
Proof. apply reads_ncm_gc. intros f f' a m _. reflexivity. Qed.
Lemma bls_g2_add_total : op_total (fun _ _ => True) (op_bls_g2_add P).
Proof. apply tot_op. intros f a. unfold op_bls_g2_add. top. Qed.

Lemma bls_g2_subtract_budget : op_budget (op_bls_g2_subtract P).
Proof. apply budk_op. intros f a. unfold op_bls_g2_subtract. bop. Qed.
Lemma bls_g2_subtract_restrict : op_restrict (op_bls_g2_subtract P).
Proof. apply reads_ncm_restrict. intros f f' a m _. reflexivity. Qed.
Lemma bls_g2_subtract_cm_indep : op_cm_indep (op_bls_g2_subtract P).
Proof. apply cm_from_budget; [reflexivity|exact bls_g2_subtract_budget]. Qed.
Lemma bls_g2_subtract_malachite_indep : op_malachite_indep (op_bls_g2_subtract P).
Proof. apply reads_ncm_malachite. intros f f' a m _. reflexivity. Qed.
Lemma bls_g2_subtract_gc_indep : op_gc_indep (op_bls_g2_subtract P).
Proof. apply reads_ncm_gc. intros f f' a m _. reflexivity. Qed.
Lemma bls_g2_subtract_total : op_total (fun _ _ => True) (op_bls_g2_subtract P).
Proof. apply tot_op. intros f a. unfold op_bls_g2_subtract. top. Qed.

(* ---------------- g1_multiply / g2_multiply: read NEW_COST_MODEL and LIMITS ---------------- *)
Lemma flag_le_parts f f' : flag_le f f' ->
  (f_limits f = true -> f_limits f' = true) /\ (f_relaxed_bls f' = true -> f_relaxed_bls f = true) /\
  f_new_cost_model f = f_new_cost_model f'.
Proof. intros (_ & _ & _ & _ & Hl & _ & Hr & _ & _ & _ & _ & _ & Hn). auto. Qed.

Lemma bls_g1_multiply_flags f f' a m :
  f_new_cost_model f = f_new_cost_model f' -> f_limits f = f_limits f' ->
  op_bls_g1_multiply P f a m = op_bls_g1_multiply P f' a m.
Proof. intros E1 E2. unfold op_bls_g1_multiply. rewrite E1, E2. reflexivity. Qed.
Lemma bls_g1_multiply_budget : op_budget (op_bls_g1_multiply P).
Proof. apply budk_op. intros f a. unfold op_bls_g1_multiply. flags3 f; bop. Qed.
Lemma bls_g1_multiply_restrict : op_restrict (op_bls_g1_multiply P).
Proof.
  intros f f' a m r Hle E. apply flag_le_parts in Hle. destruct Hle as (Hlim & _ & Hncm).
  unfold op_bls_g1_multiply in *. rewrite Hncm.
  destruct (f_limits f) eqn:L. { rewrite (Hlim eq_refl) in E. exact E. }
  destruct (f_limits f'); [|exact E].
  destruct (get_args2 a) as [[p s]|]; cbn [bind] in *; [|exact E].
  destruct (check_cost _ m); cbn [bind] in *; [|exact E].
  destruct (g1_point P p); cbn [bind] in *; [|exact E].
  destruct (int_atom s) as [[z l]|]; cbn [bind] in *; [|exact E].
  cbn [andb] in *. destruct (negb (f_new_cost_model f') && (1024 <? l)); [discriminate E|exact E].
Qed.
Lemma bls_g1_multiply_cm_indep : op_cm_indep (op_bls_g1_multiply P).
Proof.
  apply valrel_op. intros f f' a _. unfold op_bls_g1_multiply.
  flags3 f; flags3 f'; repeat vstep.
Qed.
Lemma bls_g1_multiply_malachite_indep : op_malachite_indep (op_bls_g1_multiply P).
Proof. intros f f' a m Hs. apply bls_g1_multiply_flags; apply Hs. Qed.
Lemma bls_g1_multiply_gc_indep : op_gc_indep (op_bls_g1_multiply P).
Proof. intros f f' a m Hs. apply bls_g1_multiply_flags; apply Hs. Qed.
Lemma bls_g1_multiply_total : op_total (fun _ _ => True) (op_bls_g1_multiply P).
Proof. apply tot_op. intros f a. unfold op_bls_g1_multiply. flags3 f; top. Qed.

Lemma bls_g2_multiply_flags f f' a m :
  f_new_cost_model f = f_new_cost_model f' -> f_limits f = f_limits f' ->
  op_bls_g2_multiply P f a m = op_bls_g2_multiply P f' a m.
Proof. intros E1 E2. unfold op_bls_g2_multiply. rewrite E1, E2. reflexivity. Qed.
Lemma bls_g2_multiply_budget : op_budget (op_bls_g2_multiply P).
Proof. apply budk_op. intros f a. unfold op_bls_g2_multiply. flags3 f; bop. Qed.
Lemma bls_g2_multiply_restrict : op_restrict (op_bls_g2_multiply P).
Proof.
  intros f f' a m r Hle E. apply flag_le_parts in Hle. destruct Hle as (Hlim & _ & Hncm).
  unfold op_bls_g2_multiply in *. rewrite Hncm.
  destruct (f_limits f) eqn:L. { rewrite (Hlim eq_refl) in E. exact E. }
  destruct (f_limits f'); [|exact E].
  destruct (get_args2 a) as [[p s]|]; cbn [bind] in *; [|exact E].
  destruct (check_cost _ m); cbn [bind] in *; [|exact E].
  destruct (g2_point P p); cbn [bind] in *; [|exact E].
  destruct (int_atom s) as [[z l]|]; cbn [bind] in *; [|exact E].
  cbn [andb] in *. destruct (negb (f_new_cost_model f') && (1024 <? l)); [discriminate E|exact E].
Qed.
Lemma bls_g2_multiply_cm_indep : op_cm_indep (op_bls_g2_multiply P).
Proof.
  apply valrel_op. intros f f' a _. unfold op_bls_g2_multiply.
  flags3 f; flags3 f'; repeat vstep.
Qed.
Lemma bls_g2_multiply_malachite_indep : op_malachite_indep (op_bls_g2_multiply P).
Proof. intros f f' a m Hs. apply bls_g2_multiply_flags; apply Hs. Qed.
Lemma bls_g2_multiply_gc_indep : op_gc_indep (op_bls_g2_multiply P).
Proof. intros f f' a m Hs. apply bls_g2_multiply_flags; apply Hs. Qed.
Lemma bls_g2_multiply_total : op_total (fun _ _ => True) (op_bls_g2_multiply P).
Proof. apply tot_op. intros f a. unfold op_bls_g2_multiply. flags3 f; top. Qed.

(* ---------------- g1_negate / g2_negate: read RELAXED_BLS only, never the budget ---------------- *)
Lemma negate_op_flags size base valid f f' a m m' :
  f_relaxed_bls f = f_relaxed_bls f' -> negate_op size base valid f a m = negate_op size base valid f' a m'.
Proof. intros E. unfold negate_op. rewrite E. reflexivity. Qed.
Lemma negate_op_budget size base valid : op_budget (negate_op size base valid).
Proof. apply budk_op. intros f a. unfold negate_op. bop. Qed.
Lemma negate_op_restrict size base valid : op_restrict (negate_op size base valid).
Proof.
  intros f f' a m r Hle E. apply flag_le_parts in Hle. destruct Hle as (_ & Hrel & _).
  unfold negate_op in *.
  destruct (f_relaxed_bls f') eqn:L. { rewrite (Hrel eq_refl). exact E. }
  destruct (f_relaxed_bls f); [|exact E]. cbn [negb andb] in *.
  destruct (get_args1 a) as [p|]; cbn [bind] in *; [|exact E].
  destruct (atom_of p) as [b|]; cbn [bind] in *; [|exact E].
  destruct (negb (blen b =? size)); [exact E|].
  destruct (negb (valid b)); [discriminate E|exact E].
Qed.
Lemma negate_op_cm_indep size base valid : op_cm_indep (negate_op size base valid).
Proof.
  intros f f' a m m' c v c' v' Hs E E'.
  rewrite (negate_op_flags size base valid f f' a m m') in E by apply Hs.
  rewrite E in E'. apply Ok_inj2 in E'. congruence.
Qed.
Lemma negate_op_malachite_indep size base valid : op_malachite_indep (negate_op size base valid).
Proof. intros f f' a m Hs. apply negate_op_flags, Hs. Qed.
Lemma negate_op_gc_indep size base valid : op_gc_indep (negate_op size base valid).
Proof. intros f f' a m Hs. apply negate_op_flags, Hs. Qed.
Lemma negate_op_total size base valid : op_total (fun _ _ => True) (negate_op size base valid).
Proof. apply tot_op. intros f a. unfold negate_op. top. Qed.

Lemma bls_g1_negate_budget : op_budget (op_bls_g1_negate P). Proof. apply negate_op_budget. Qed.
Lemma bls_g1_negate_restrict : op_restrict (op_bls_g1_negate P). Proof. apply negate_op_restrict. Qed.
Lemma bls_g1_negate_cm_indep : op_cm_indep (op_bls_g1_negate P). Proof. apply negate_op_cm_indep. Qed.
Lemma bls_g1_negate_malachite_indep : op_malachite_indep (op_bls_g1_negate P). Proof. apply negate_op_malachite_indep. Qed.
Lemma bls_g1_negate_gc_indep : op_gc_indep (op_bls_g1_negate P). Proof. apply negate_op_gc_indep. Qed.
Lemma bls_g1_negate_total : op_total (fun _ _ => True) (op_bls_g1_negate P). Proof. apply negate_op_total. Qed.
Lemma bls_g2_negate_budget : op_budget (op_bls_g2_negate P). Proof. apply negate_op_budget. Qed.
Lemma bls_g2_negate_restrict : op_restrict (op_bls_g2_negate P). Proof. apply negate_op_restrict. Qed.
Lemma bls_g2_negate_cm_indep : op_cm_indep (op_bls_g2_negate P). Proof. apply negate_op_cm_indep. Qed.
Lemma bls_g2_negate_malachite_indep : op_malachite_indep (op_bls_g2_negate P). Proof. apply negate_op_malachite_indep. Qed.
Lemma bls_g2_negate_gc_indep : op_gc_indep (op_bls_g2_negate P). Proof. apply negate_op_gc_indep. Qed.
Lemma bls_g2_negate_total : op_total (fun _ _ => True) (op_bls_g2_negate P). Proof. apply negate_op_total. Qed.

(* ---------------- g1_map / g2_map ---------------- *)
Lemma bls_map_to_g1_ncm : reads_ncm (op_bls_map_to_g1 P).
Proof. intros f f' a m E. unfold op_bls_map_to_g1. rewrite E. reflexivity. Qed.
Lemma bls_map_to_g1_budget : op_budget (op_bls_map_to_g1 P).
Proof. apply budk_op. intros f a. unfold op_bls_map_to_g1. destruct (f_new_cost_model f); bop. Qed.
Lemma bls_map_to_g1_restrict : op_restrict (op_bls_map_to_g1 P).
Proof. apply reads_ncm_restrict, bls_map_to_g1_ncm. Qed.
Lemma bls_map_to_g1_cm_indep : op_cm_indep (op_bls_map_to_g1 P).
Proof.
  apply valrel_op. intros f f' a _. unfold op_bls_map_to_g1.
  destruct (f_new_cost_model f), (f_new_cost_model f'); repeat vstep.
Qed.
Lemma bls_map_to_g1_malachite_indep : op_malachite_indep (op_bls_map_to_g1 P).
Proof. apply reads_ncm_malachite, bls_map_to_g1_ncm. Qed.
Lemma bls_map_to_g1_gc_indep : op_gc_indep (op_bls_map_to_g1 P).
Proof. apply reads_ncm_gc, bls_map_to_g1_ncm. Qed.
Lemma bls_map_to_g1_total : op_total (fun _ _ => True) (op_bls_map_to_g1 P).
Proof. apply tot_op. intros f a. unfold op_bls_map_to_g1. destruct (f_new_cost_model f); top. Qed.

Lemma bls_map_to_g2_ncm : reads_ncm (op_bls_map_to_g2 P).
Proof. intros f f' a m E. unfold op_bls_map_to_g2. rewrite E. reflexivity. Qed.
Lemma bls_map_to_g2_budget : op_budget (op_bls_map_to_g2 P).
Proof. apply budk_op. intros f a. unfold op_bls_map_to_g2. destruct (f_new_cost_model f); bop. Qed.
Lemma bls_map_to_g2_restrict : op_restrict (op_bls_map_to_g2 P).
Proof. apply reads_ncm_restrict, bls_map_to_g2_ncm. Qed.
Lemma bls_map_to_g2_cm_indep : op_cm_indep (op_bls_map_to_g2 P).
Proof.
  apply valrel_op. intros f f' a _. unfold op_bls_map_to_g2.
  destruct (f_new_cost_model f), (f_new_cost_model f'); repeat vstep.
Qed.
Lemma bls_map_to_g2_malachite_indep : op_malachite_indep (op_bls_map_to_g2 P).
Proof. apply reads_ncm_malachite, bls_map_to_g2_ncm. Qed.
Lemma bls_map_to_g2_gc_indep : op_gc_indep (op_bls_map_to_g2 P).
Proof. apply reads_ncm_gc, bls_map_to_g2_ncm. Qed.
Lemma bls_map_to_g2_total : op_total (fun _ _ => True) (op_bls_map_to_g2 P).
Proof. apply tot_op. intros f a. unfold op_bls_map_to_g2. destruct (f_new_cost_model f); top. Qed.

(* ---------------- pairing_identity / bls_verify ---------------- *)
Lemma bls_pairing_identity_ncm : reads_ncm (op_bls_pairing_identity P).
Proof. intros f f' a m E. unfold op_bls_pairing_identity. rewrite E. reflexivity. Qed.
Lemma bls_pairing_identity_budget : op_budget (op_bls_pairing_identity P).
Proof. apply budk_op. intros f a. unfold op_bls_pairing_identity. destruct (f_new_cost_model f); bop. Qed.
Lemma bls_pairing_identity_restrict : op_restrict (op_bls_pairing_identity P).
Proof. apply reads_ncm_restrict, bls_pairing_identity_ncm. Qed.
Lemma bls_pairing_identity_nil f a m c v : op_bls_pairing_identity P f a m = Ok (c, v) -> v = nil_s.
Proof.
  unfold op_bls_pairing_identity. intros E.
  destruct (f_new_cost_model f); cbn beta iota in E;
    (destruct (check_cost _ m); cbn [bind] in E; [|discriminate E];
     destruct (pairing_loop _ _ _ _ _) as [[c0 items]|]; cbn [bind] in E; [|discriminate E];
     destruct (negb _); [discriminate E|]; apply Ok_inj2 in E; congruence).
Qed.
Lemma bls_pairing_identity_cm_indep : op_cm_indep (op_bls_pairing_identity P).
Proof. apply cm_from_nil. exact bls_pairing_identity_nil. Qed.
Lemma bls_pairing_identity_malachite_indep : op_malachite_indep (op_bls_pairing_identity P).
Proof. apply reads_ncm_malachite, bls_pairing_identity_ncm. Qed.
Lemma bls_pairing_identity_gc_indep : op_gc_indep (op_bls_pairing_identity P).
Proof. apply reads_ncm_gc, bls_pairing_identity_ncm. Qed.
Lemma bls_pairing_identity_total : op_total (fun _ _ => True) (op_bls_pairing_identity P).
Proof. apply tot_op. intros f a. unfold op_bls_pairing_identity. destruct (f_new_cost_model f); top. Qed.

Lemma bls_verify_ncm : reads_ncm (op_bls_verify P).
Proof. intros f f' a m E. unfold op_bls_verify. rewrite E. reflexivity. Qed.
Lemma bls_verify_budget : op_budget (op_bls_verify P).
Proof. apply budk_op. intros f a. unfold op_bls_verify. destruct (f_new_cost_model f); bop. Qed.
Lemma bls_verify_restrict : op_restrict (op_bls_verify P).
Proof. apply reads_ncm_restrict, bls_verify_ncm. Qed.
Lemma bls_verify_nil f a m c v : op_bls_verify P f a m = Ok (c, v) -> v = nil_s.
Proof.
  unfold op_bls_verify. intros E.
  destruct (f_new_cost_model f); cbn beta iota in E;
    (destruct (check_cost _ m); cbn [bind] in E; [|discriminate E];
     destruct (first a); cbn [bind] in E; [|discriminate E];
     destruct (g2_point _ _); cbn [bind] in E; [|discriminate E];
     destruct (rest a); cbn [bind] in E; [|discriminate E];
     destruct (verify_loop _ _ _ _ _ _ _) as [[c0 items]|]; cbn [bind] in E; [|discriminate E];
     destruct (negb _); [discriminate E|]; apply Ok_inj2 in E; congruence).
Qed.
Lemma bls_verify_cm_indep : op_cm_indep (op_bls_verify P).
Proof. apply cm_from_nil. exact bls_verify_nil. Qed.
Lemma bls_verify_malachite_indep : op_malachite_indep (op_bls_verify P).
Proof. apply reads_ncm_malachite, bls_verify_ncm. Qed.
Lemma bls_verify_gc_indep : op_gc_indep (op_bls_verify P).
Proof. apply reads_ncm_gc, bls_verify_ncm. Qed.
Lemma bls_verify_total : op_total (fun _ _ => True) (op_bls_verify P).
Proof. apply tot_op. intros f a. unfold op_bls_verify. destruct (f_new_cost_model f); top. Qed.

End Ops.

(* coinid through the prims record *)
Lemma coinid_p_budget P : op_budget (op_coinid_p P). Proof. apply coinid_budget. Qed.
Lemma coinid_p_restrict P : op_restrict (op_coinid_p P). Proof. apply coinid_restrict. Qed.
Lemma coinid_p_cm_indep P : op_cm_indep (op_coinid_p P). Proof. apply coinid_cm_indep. Qed.
Lemma coinid_p_malachite_indep P : op_malachite_indep (op_coinid_p P). Proof. apply coinid_malachite_indep. Qed.
Lemma coinid_p_gc_indep P : op_gc_indep (op_coinid_p P). Proof. apply coinid_gc_indep. Qed.
Lemma coinid_p_total P : op_total (fun _ _ => True) (op_coinid_p P). Proof. apply coinid_total. Qed.
