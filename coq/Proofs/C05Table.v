(* C05: the precomputed-hash table lemma of Proofs/TableProofs.v (shared with C22), restated with
   nth_error and bytes_of_int. *)
From Clvm Require Import Model.IntEnc Model.Sha256 Gen.Tables Proofs.TableProofs.
Open Scope N_scope.

Lemma precomputed_nth i h : nth_error src_precomputed_hashes i = Some h ->
  h = sha256 (1 :: bytes_of_int (Z.of_N (N.of_nat i))).
Proof. intros Hn. exact (table_check_nth src_precomputed_hashes 0 i h table_sweep Hn). Qed.
