(* The back-reference half of C29: node_to_bytes_backrefs_limit writes through the LimitedWriter
   the chunks node_to_bytes_backrefs writes to an unlimited buffer ([0xfe], the path's length
   prefix, the path; [0xff]; an atom's prefix, the atom). Whenever the unlimited serializer
   returns bytes, the limited one returns them if they fit and OutOfMemory otherwise, wherever
   the limit is crossed. *)
From Clvm Require Import Model.BackRef Model.ReadCache Model.SerBR Proofs.BytesLemmas Proofs.ClassicProofs
  Proofs.ClassicWriter.
From Coq Require Import Lia ZifyBool ZifyN ZifyNat.
Open Scope N_scope.
Arguments N.add : simpl never.
Arguments N.sub : simpl never.
Arguments N.mul : simpl never.
Arguments N.eqb : simpl never.
Arguments N.ltb : simpl never.
Arguments N.leb : simpl never.

Section Limit.
  Variable H : bytes -> bytes.
  Variable L : N.                                  (* the limit *)

  Notation loop_u := (ser_loop H w_unlimited).
  Notation loop_l := (ser_loop H lw_write).

  (* the limited writer after [out] has been written *)
  Definition mk (out : bytes) : lwriter := {| lw_out := out; lw_limit := L - blen out |}.

  Definition expect (outF : bytes) : res lwriter :=
    if blen outF <=? L then Ok (mk outF) else Err OutOfMemory.

  Lemma write_chunk_l out c : blen out <= L ->
    write_chunk lw_write (mk out) c =
      if blen (out ++ c) <=? L then Ok (mk (out ++ c)) else Err OutOfMemory.
  Proof.
    intros Hb. unfold write_chunk. rewrite lw_write_spec. unfold mk. cbn [lw_limit lw_out].
    rewrite blen_app.
    destruct (N.ltb_spec (L - blen out) (blen c)); destruct (N.leb_spec (blen out + blen c) L); try lia.
    - reflexivity.
    - f_equal. f_equal. lia.
  Qed.

  Lemma write_chunk_u out c : write_chunk w_unlimited out c = Ok (out ++ c).
  Proof. reflexivity. Qed.

  (* the unlimited run only appends *)
  Lemma loop_u_extends : forall fuel ws ops s w out,
    loop_u fuel ws ops s w = Ok out -> exists sfx, out = w ++ sfx.
  Proof.
    induction fuel as [|f IH]; intros ws ops s w out Hrun; [discriminate|]. cbn [ser_loop] in Hrun.
    destruct ws as [|node ws]; [injection Hrun as <-; exists []; now rewrite app_nil_r|].
    destruct ops as [|[|] ops1]; try discriminate.
    destruct (find_path s (ahash node) (alen node)) as [found|]; cbn [bind] in Hrun; [|discriminate].
    destruct found as [path|].
    - rewrite write_chunk_u in Hrun. cbn [bind] in Hrun. unfold write_atom in Hrun.
      destruct (atom_prefix (atom_0 path) (blen path)) as [p|]; [|discriminate].
      repeat (rewrite write_chunk_u in Hrun; cbn [bind] in Hrun).
      destruct (rcl_push H s (ahash node)) as [s1|]; cbn [bind] in Hrun; [|discriminate].
      destruct (drain_cons H ops1 s1) as [[ops3 s3]|]; cbn [bind] in Hrun; [|discriminate].
      apply IH in Hrun. destruct Hrun as [sfx ->]. rewrite <- !app_assoc. eexists; reflexivity.
    - destruct node as [b h len|l r h len].
      + unfold write_atom in Hrun. destruct (atom_prefix (atom_0 b) (blen b)) as [p|]; [|discriminate].
        repeat (rewrite write_chunk_u in Hrun; cbn [bind] in Hrun).
        destruct (rcl_push H s _) as [s1|]; cbn [bind] in Hrun; [|discriminate].
        destruct (drain_cons H ops1 s1) as [[ops3 s3]|]; cbn [bind] in Hrun; [|discriminate].
        apply IH in Hrun. destruct Hrun as [sfx ->]. rewrite <- !app_assoc. eexists; reflexivity.
      + rewrite write_chunk_u in Hrun. cbn [bind drain_cons] in Hrun.
        apply IH in Hrun. destruct Hrun as [sfx ->]. rewrite <- !app_assoc. eexists; reflexivity.
  Qed.

  Lemma expect_oom out sfx : L < blen out -> Err OutOfMemory = expect (out ++ sfx).
  Proof.
    intros Hlt. unfold expect. rewrite blen_app. destruct (N.leb_spec (blen out + blen sfx) L); [lia|reflexivity].
  Qed.

  Theorem loop_limit : forall fuel ws ops s out outF, blen out <= L ->
    loop_u fuel ws ops s out = Ok outF -> loop_l fuel ws ops s (mk out) = expect outF.
  Proof.
    induction fuel as [|f IH]; intros ws ops s out outF Hb Hrun; [discriminate|].
    cbn [ser_loop] in Hrun |- *.
    destruct ws as [|node ws].
    { injection Hrun as <-. unfold expect. destruct (N.leb_spec (blen out) L); [reflexivity|lia]. }
    destruct ops as [|[|] ops1]; try discriminate.
    destruct (find_path s (ahash node) (alen node)) as [found|]; cbn [bind] in Hrun |- *; [|discriminate].
    destruct found as [path|].
    - rewrite write_chunk_u in Hrun. cbn [bind] in Hrun. unfold write_atom in Hrun |- *.
      destruct (atom_prefix (atom_0 path) (blen path)) as [p|] eqn:Ep.
      2:{ (* unreachable for a successful unlimited run *) discriminate. }
      repeat (rewrite write_chunk_u in Hrun; cbn [bind] in Hrun).
      destruct (rcl_push H s (ahash node)) as [s1|] eqn:Epush; cbn [bind] in Hrun; [|discriminate].
      destruct (drain_cons H ops1 s1) as [[ops3 s3]|] eqn:Edr; cbn [bind] in Hrun; [|discriminate].
      destruct (loop_u_extends _ _ _ _ _ _ Hrun) as [sfx Hsfx].
      rewrite (write_chunk_l out [254] Hb).
      destruct (N.leb_spec (blen (out ++ [254])) L) as [H1|H1]; cbn [bind].
      2:{ rewrite Hsfx, <- !app_assoc, app_assoc. apply expect_oom. exact H1. }
      rewrite (write_chunk_l _ p H1).
      destruct (N.leb_spec (blen ((out ++ [254]) ++ p)) L) as [H2|H2]; cbn [bind].
      2:{ rewrite Hsfx, <- (app_assoc _ path sfx). apply expect_oom. exact H2. }
      rewrite (write_chunk_l _ path H2).
      destruct (N.leb_spec (blen (((out ++ [254]) ++ p) ++ path)) L) as [H3|H3]; cbn [bind].
      2:{ rewrite Hsfx. apply expect_oom. exact H3. }
      cbn [bind]. rewrite ?Epush; cbn [bind]. rewrite Edr. cbn [bind]. apply IH; assumption.
    - destruct node as [b h len|l r h len].
      + unfold write_atom in Hrun |- *.
        destruct (atom_prefix (atom_0 b) (blen b)) as [p|] eqn:Ep; [|discriminate].
        repeat (rewrite write_chunk_u in Hrun; cbn [bind] in Hrun).
        destruct (rcl_push H s _) as [s1|] eqn:Epush; cbn [bind] in Hrun; [|discriminate].
        destruct (drain_cons H ops1 s1) as [[ops3 s3]|] eqn:Edr; cbn [bind] in Hrun; [|discriminate].
        destruct (loop_u_extends _ _ _ _ _ _ Hrun) as [sfx Hsfx].
        rewrite (write_chunk_l out p Hb).
        destruct (N.leb_spec (blen (out ++ p)) L) as [H1|H1]; cbn [bind].
        2:{ rewrite Hsfx, <- (app_assoc _ b sfx). apply expect_oom. exact H1. }
        rewrite (write_chunk_l _ b H1).
        destruct (N.leb_spec (blen ((out ++ p) ++ b)) L) as [H2|H2]; cbn [bind].
        2:{ rewrite Hsfx. apply expect_oom. exact H2. }
        cbn [bind]. rewrite ?Epush; cbn [bind]. rewrite Edr. cbn [bind]. apply IH; assumption.
      + rewrite write_chunk_u in Hrun. cbn [bind drain_cons] in Hrun.
        destruct (loop_u_extends _ _ _ _ _ _ Hrun) as [sfx Hsfx].
        rewrite (write_chunk_l out [255] Hb).
        destruct (N.leb_spec (blen (out ++ [255])) L) as [H1|H1]; cbn [bind drain_cons].
        2:{ rewrite Hsfx. apply expect_oom. exact H1. }
        apply IH; assumption.
  Qed.
End Limit.

Theorem ser_br_limit_spec : forall H t limit bs, node_to_bytes_backrefs H t = Ok bs ->
  node_to_bytes_backrefs_limit H t limit = if blen bs <=? limit then Ok bs else Err OutOfMemory.
Proof.
  intros H t limit bs Hrun. unfold node_to_bytes_backrefs, node_to_bytes_backrefs_limit, node_to_stream_backrefs in *.
  destruct (annotate H t) as [a|]; [|discriminate].
  assert (Hb : blen [] <= limit) by (unfold blen; cbn; lia).
  pose proof (loop_limit H limit _ _ _ _ [] bs Hb Hrun) as Hl.
  unfold mk in Hl. change (limit - blen []) with (limit - 0) in Hl. rewrite N.sub_0_r in Hl.
  rewrite Hl. unfold expect. destruct (blen bs <=? limit); reflexivity.
Qed.
