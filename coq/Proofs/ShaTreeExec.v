(* C23: symbolic execution of the stack machine of Model/Machine.v on the two sha256tree
   programs of Model/ShaTreeCost.v, for an arbitrary tree.

   The machine is run without guards. [EV E env c v n] says: started on expression E in
   environment env ON TOP OF ANY STACKS, with any running cost that leaves room for c under the
   budget, the evaluator charges exactly c, takes n further iterations of the loop and leaves v
   pushed on the untouched stacks. Because the statement quantifies over the stacks below, it is
   its own frame property; the recursive calls of the ChiaLisp program are instances of the
   induction hypothesis.

   Generic rules: EV_path, EV_quote, EV_op1/2/3 (an operator form: OP_COST + arguments (evaluated
   last to first) + the operator), EV_apply (the `a` form). Then the two programs. *)
From Coq Require Import Lia ZifyBool ZifyN ZifyNat.
From Clvm Require Import Model.ShaTreeCost Proofs.ShaTreeCostIneq.
Open Scope N_scope.

Arguments N.add : simpl never.
Arguments N.sub : simpl never.
Arguments N.mul : simpl never.
Arguments N.ltb : simpl never.
Arguments N.leb : simpl never.
Arguments N.eqb : simpl never.

Definition st (vs es : list sexp) (os : list operation) : mstate :=
  {| vals := vs; envs := es; ops := os; guards := [] |}.

Lemma check_cost_ok c m : c <= m -> check_cost c m = Ok tt.
Proof. intros H. unfold check_cost. replace (m <? c) with false by lia. reflexivity. Qed.

Lemma repeat_shift {A} (x : A) k l : repeat x k ++ x :: l = x :: repeat x k ++ l.
Proof. induction k as [|k IH]; cbn; [reflexivity|]. rewrite IH. reflexivity. Qed.

Lemma push_operands_sl l : forall vs es os,
  push_operands (sl l) (st vs es os) =
  Ok (st (nil_s :: rev l ++ vs) es (repeat OSwapEval (length l) ++ os)).
Proof.
  induction l as [|a l IH]; intros vs es os.
  - reflexivity.
  - change (sl (a :: l)) with (Cons a (sl l)). cbn [push_operands].
    change (push a (push_op OSwapEval (st vs es os))) with (st (a :: vs) es (OSwapEval :: os)).
    rewrite IH. cbn [rev length repeat]. rewrite <- app_assoc. cbn [app].
    rewrite repeat_shift. reflexivity.
Qed.

Section Exec.
  Variable d : dialect.
  Variable M : N.                                   (* the budget of the run (no guards) *)
  Hypothesis Hq : d_quote d = 1.
  Hypothesis Ha : d_apply d = 2.
  Hypothesis Hs : d_softfork d = 36.

  (* n iterations of the loop of run_program, none of them leaving it *)
  Fixpoint steps (n : nat) (c : N) (s : mstate) (c' : N) (s' : mstate) : Prop :=
    match n with
    | O => c = c' /\ s = s'
    | S k => exists c1 s1, step d M c s = Ok (inl (c1, s1)) /\ steps k c1 s1 c' s'
    end.

  Lemma steps_trans n1 : forall n2 c s c1 s1 c2 s2,
    steps n1 c s c1 s1 -> steps n2 c1 s1 c2 s2 -> steps (n1 + n2) c s c2 s2.
  Proof.
    induction n1 as [|n1 IH]; intros n2 c s c1 s1 c2 s2 H1 H2.
    - destruct H1 as [-> ->]. exact H2.
    - destruct H1 as (ca & sa & Hst & H1). cbn [Nat.add steps]. exists ca, sa. split; [exact Hst|].
      eapply IH; eassumption.
  Qed.

  Lemma steps_one c s c1 s1 : step d M c s = Ok (inl (c1, s1)) -> steps 1 c s c1 s1.
  Proof. intros H. exists c1, s1. split; [exact H|]. split; reflexivity. Qed.

  Lemma steps_cast n n' c s c' c'' s' : steps n c s c' s' -> n = n' -> c' = c'' -> steps n' c s c'' s'.
  Proof. intros H -> ->. exact H. Qed.
  Lemma steps_cast0 n c c0 s c' s' : steps n c s c' s' -> c = c0 -> steps n c0 s c' s'.
  Proof. intros H ->. exact H. Qed.

  Lemma run_loop_steps n : forall fuel c s c' s',
    steps n c s c' s' -> run_loop d (n + fuel) M c s = run_loop d fuel M c' s'.
  Proof.
    induction n as [|n IH]; intros fuel c s c' s' H.
    - destruct H as [-> ->]. reflexivity.
    - destruct H as (c1 & s1 & Hst & H). cbn [Nat.add run_loop]. rewrite Hst. cbn [bind].
      apply IH. exact H.
  Qed.

  (* ---- single iterations ---- *)
  Lemma step_swap cost v2 prog vs env es os c0 s0 : cost <= M ->
    eval_pair d (st (v2 :: vs) (env :: es) (OCons :: os)) prog env = Ok (c0, s0) ->
    step d M cost (st (v2 :: prog :: vs) (env :: es) (OSwapEval :: os)) = Ok (inl (cost + c0, s0)).
  Proof.
    intros Hc He. unfold step. cbn [effective_max guards st ops vals envs].
    replace (M <? cost) with false by lia.
    unfold swap_eval_op, pop. cbn [vals envs ops guards bind].
    unfold push_op, push. cbn [vals envs ops guards].
    unfold st in He. rewrite He. reflexivity.
  Qed.

  Lemma step_cons cost v1 v2 vs es os : cost <= M ->
    step d M cost (st (v1 :: v2 :: vs) es (OCons :: os)) = Ok (inl (cost + 0, st (Cons v1 v2 :: vs) es os)).
  Proof.
    intros Hc. unfold step. cbn [effective_max guards st ops vals envs].
    replace (M <? cost) with false by lia. reflexivity.
  Qed.

  Lemma step_apply_op cost o args vs env es os c v : cost <= M ->
    is_kw o 2 = false -> is_kw o 36 = false ->
    d_op d o args (M - cost) OsDefault = Ok (c, v) ->
    step d M cost (st (args :: o :: vs) (env :: es) (OApply :: os)) = Ok (inl (cost + c, st (v :: vs) es os)).
  Proof.
    intros Hc H2 H36 Hop. unfold step. cbn [effective_max guards st ops vals envs].
    replace (M <? cost) with false by lia.
    unfold apply_op, pop. cbn [vals envs ops guards bind].
    rewrite Ha, Hs, H2, H36. unfold current_extensions. cbn [guards].
    rewrite Hop. reflexivity.
  Qed.

  Lemma step_apply_a cost P E vs env es os c0 s0 : cost <= M ->
    eval_pair d (st vs es os) P E = Ok (c0, s0) ->
    step d M cost (st (sl [P; E] :: Atom [2] :: vs) (env :: es) (OApply :: os))
    = Ok (inl (cost + (c0 + APPLY_COST), s0)).
  Proof.
    intros Hc He. unfold step. cbn [effective_max guards st ops vals envs].
    replace (M <? cost) with false by lia.
    unfold apply_op, pop. cbn [vals envs ops guards bind].
    rewrite Ha. change (is_kw (Atom [2]) 2) with true. cbv iota.
    change (get_args2 (sl [P; E])) with (@Ok (sexp * sexp) (P, E)). cbn [bind].
    unfold st in He. rewrite He. reflexivity.
  Qed.

  (* ENABLE_GC: an operator form of a GC candidate leaves a Restore operation under its Apply;
     on the tree store it costs nothing and changes nothing *)
  Definition rs (o : sexp) (os : list operation) : list operation :=
    if d_gc d o then ORestore :: os else os.
  Definition gcn (o : sexp) : nat := if d_gc d o then 1%nat else 0%nat.

  Lemma step_restore cost v vs es os : cost <= M ->
    step d M cost (st (v :: vs) es (ORestore :: os)) = Ok (inl (cost + 0, st (v :: vs) es os)).
  Proof.
    intros Hc. unfold step. cbn [effective_max guards st ops vals envs].
    replace (M <? cost) with false by lia. reflexivity.
  Qed.

  Lemma steps_rs o cost v vs es os : cost <= M ->
    steps (gcn o) cost (st (v :: vs) es (rs o os)) cost (st (v :: vs) es os).
  Proof.
    intros Hc. unfold gcn, rs. destruct (d_gc d o).
    - eapply steps_cast; [apply steps_one; apply step_restore; exact Hc|reflexivity|lia].
    - split; reflexivity.
  Qed.

  (* ---- big-step judgement ---- *)
  Definition EV (E env : sexp) (c : N) (v : sexp) (n : nat) : Prop :=
    forall vs es os cost, cost + c <= M ->
      exists c0 s0, eval_pair d (st vs es os) E env = Ok (c0, s0) /\
                    steps n (cost + c0) s0 (cost + c) (st (v :: vs) es os).

  Lemma EV_cast E env c v n c' n' : EV E env c v n -> c = c' -> n = n' -> EV E env c' v n'.
  Proof. intros H -> ->. exact H. Qed.

  Lemma EV_path b env c v : traverse_path b env = Ok (c, v) -> EV (Atom b) env c v 0.
  Proof.
    intros H vs es os cost Hc. exists c, (st (v :: vs) es os). split.
    - cbn [eval_pair]. rewrite H. reflexivity.
    - split; reflexivity.
  Qed.

  Lemma EV_quote x env : EV (Cons (Atom [1]) x) env QUOTE_COST x 0.
  Proof.
    intros vs es os cost Hc. exists QUOTE_COST, (st (x :: vs) es os). split.
    - cbn [eval_pair]. unfold eval_op_atom. rewrite Hq. reflexivity.
    - split; reflexivity.
  Qed.

  (* arguments, in the order the machine evaluates them (last first) *)
  Inductive EVS (env : sexp) : list sexp -> N -> list sexp -> nat -> Prop :=
  | EVS_nil : EVS env [] 0 [] 0
  | EVS_cons a rl c cs v vl n ns : EV a env c v n -> EVS env rl cs vl ns ->
      EVS env (a :: rl) (c + cs) (v :: vl) (n + 2 + ns).

  Definition consl (vl : list sexp) (acc : sexp) : sexp := fold_left (fun acc v => Cons v acc) vl acc.

  Lemma evs_run env rl cs vl ns : EVS env rl cs vl ns ->
    forall acc vs es os cost, cost + cs <= M ->
      steps ns cost (st (acc :: rl ++ vs) (env :: es) (repeat OSwapEval (length rl) ++ os))
            (cost + cs) (st (consl vl acc :: vs) (env :: es) os).
  Proof.
    induction 1 as [|a rl c cs v vl n ns Ha' _ IH]; intros acc vs es os cost Hc.
    - cbn [steps app length repeat consl fold_left]. split; [lia|reflexivity].
    - cbn [app length repeat].
      destruct (Ha' (acc :: rl ++ vs) (env :: es) (OCons :: repeat OSwapEval (length rl) ++ os) cost ltac:(lia))
        as (c0 & s0 & He & Hst).
      eapply steps_cast.
      + eapply steps_trans; [apply steps_one; apply step_swap; [lia|exact He]|].
        eapply steps_trans; [exact Hst|].
        eapply steps_trans; [apply steps_one; apply step_cons; lia|].
        apply (IH (Cons v acc) vs es os (cost + c + 0)). lia.
      + lia.
      + cbn [consl fold_left]. lia.
  Qed.

  Lemma eval_pair_opform b l vs es os env : is_kw (Atom b) 1 = false ->
    eval_pair d (st vs es os) (Cons (Atom b) (sl l)) env =
    Ok (OP_COST, st (nil_s :: rev l ++ Atom b :: vs) (env :: es)
                    (repeat OSwapEval (length l) ++ OApply :: rs (Atom b) os)).
  Proof.
    intros H1. cbn [eval_pair]. unfold eval_op_atom. rewrite Hq, H1. unfold rs.
    destruct (d_gc d (Atom b)).
    - change (push (Atom b) (push_op OApply (push_env env (push_op ORestore (st vs es os)))))
        with (st (Atom b :: vs) (env :: es) (OApply :: ORestore :: os)).
      rewrite push_operands_sl. reflexivity.
    - change (push (Atom b) (push_op OApply (push_env env (st vs es os))))
        with (st (Atom b :: vs) (env :: es) (OApply :: os)).
      rewrite push_operands_sl. reflexivity.
  Qed.

  (* an operator form (not q, a, softfork) *)
  Lemma EV_op b l env cs vl ns cop r :
    is_kw (Atom b) 1 = false -> is_kw (Atom b) 2 = false -> is_kw (Atom b) 36 = false ->
    EVS env (rev l) cs vl ns ->
    (forall m, cop <= m -> d_op d (Atom b) (consl vl nil_s) m OsDefault = Ok (cop, r)) ->
    EV (Cons (Atom b) (sl l)) env (OP_COST + cs + cop) r (ns + 1 + gcn (Atom b)).
  Proof.
    intros H1 H2 H36 Hargs Hop vs es os cost Hc.
    exists OP_COST, (st (nil_s :: rev l ++ Atom b :: vs) (env :: es)
                       (repeat OSwapEval (length l) ++ OApply :: rs (Atom b) os)).
    split; [apply eval_pair_opform; exact H1|].
    pose proof (evs_run _ _ _ _ _ Hargs nil_s (Atom b :: vs) es (OApply :: rs (Atom b) os) (cost + OP_COST) ltac:(lia)) as Hst.
    rewrite rev_length in Hst.
    eapply steps_cast.
    - eapply steps_trans; [exact Hst|].
      eapply steps_trans; [apply steps_one; apply step_apply_op; [lia|exact H2|exact H36|apply Hop; lia]|].
      apply steps_rs. lia.
    - lia.
    - lia.
  Qed.

  (* the apply form (a P E) *)
  Lemma EV_apply P E env cs vP vE ns cb r nb :
    EVS env [E; P] cs [vE; vP] ns ->
    EV vP vE cb r nb ->
    EV (sl [Atom [2]; P; E]) env (OP_COST + cs + APPLY_COST + cb) r (ns + 1 + nb + gcn (Atom [2])).
  Proof.
    intros Hargs Hbody vs es os cost Hc.
    change (sl [Atom [2]; P; E]) with (Cons (Atom [2]) (sl [P; E])).
    exists OP_COST, (st (nil_s :: rev [P; E] ++ Atom [2] :: vs) (env :: es)
                       (repeat OSwapEval (length [P; E]) ++ OApply :: rs (Atom [2]) os)).
    split; [apply eval_pair_opform; reflexivity|].
    pose proof (evs_run _ _ _ _ _ Hargs nil_s (Atom [2] :: vs) es (OApply :: rs (Atom [2]) os) (cost + OP_COST) ltac:(lia)) as Hst.
    destruct (Hbody vs es (rs (Atom [2]) os) (cost + OP_COST + cs + APPLY_COST) ltac:(lia)) as (c0 & s0 & He & Hb).
    eapply steps_cast.
    - eapply steps_trans; [exact Hst|].
      eapply steps_trans; [apply steps_one; apply (step_apply_a _ vP vE); [lia|exact He]|].
      eapply steps_trans; [eapply steps_cast0; [exact Hb|lia]|].
      apply steps_rs. lia.
    - lia.
    - lia.
  Qed.

  (* fixed arities *)
  Lemma EV_op1 b a1 env c1 v1 n1 cop r :
    is_kw (Atom b) 1 = false -> is_kw (Atom b) 2 = false -> is_kw (Atom b) 36 = false ->
    EV a1 env c1 v1 n1 ->
    (forall m, cop <= m -> d_op d (Atom b) (sl [v1]) m OsDefault = Ok (cop, r)) ->
    EV (sl [Atom b; a1]) env (OP_COST + c1 + cop) r (n1 + 3 + gcn (Atom b)).
  Proof.
    intros K1 K2 K36 E1 Hop.
    eapply EV_cast; [eapply (EV_op b [a1] env); [exact K1|exact K2|exact K36|..]|..].
    - cbn [rev app]. eapply EVS_cons; [exact E1|apply EVS_nil].
    - exact Hop.
    - lia.
    - lia.
  Qed.

  Lemma EV_op2 b a1 a2 env c1 v1 n1 c2 v2 n2 cop r :
    is_kw (Atom b) 1 = false -> is_kw (Atom b) 2 = false -> is_kw (Atom b) 36 = false ->
    EV a1 env c1 v1 n1 -> EV a2 env c2 v2 n2 ->
    (forall m, cop <= m -> d_op d (Atom b) (sl [v1; v2]) m OsDefault = Ok (cop, r)) ->
    EV (sl [Atom b; a1; a2]) env (OP_COST + c1 + c2 + cop) r (n1 + n2 + 5 + gcn (Atom b)).
  Proof.
    intros K1 K2 K36 E1 E2 Hop.
    eapply EV_cast; [eapply (EV_op b [a1; a2] env); [exact K1|exact K2|exact K36|..]|..].
    - cbn [rev app]. eapply EVS_cons; [exact E2|]. eapply EVS_cons; [exact E1|apply EVS_nil].
    - exact Hop.
    - lia.
    - lia.
  Qed.

  Lemma EV_op3 b a1 a2 a3 env c1 v1 n1 c2 v2 n2 c3 v3 n3 cop r :
    is_kw (Atom b) 1 = false -> is_kw (Atom b) 2 = false -> is_kw (Atom b) 36 = false ->
    EV a1 env c1 v1 n1 -> EV a2 env c2 v2 n2 -> EV a3 env c3 v3 n3 ->
    (forall m, cop <= m -> d_op d (Atom b) (sl [v1; v2; v3]) m OsDefault = Ok (cop, r)) ->
    EV (sl [Atom b; a1; a2; a3]) env (OP_COST + c1 + c2 + c3 + cop) r (n1 + n2 + n3 + 7 + gcn (Atom b)).
  Proof.
    intros K1 K2 K36 E1 E2 E3 Hop.
    eapply EV_cast; [eapply (EV_op b [a1; a2; a3] env); [exact K1|exact K2|exact K36|..]|..].
    - cbn [rev app]. eapply EVS_cons; [exact E3|]. eapply EVS_cons; [exact E2|].
      eapply EVS_cons; [exact E1|apply EVS_nil].
    - exact Hop.
    - lia.
    - lia.
  Qed.

  Lemma EV_apply2 P E env cP vP nP cE vE nE cb r nb :
    EV P env cP vP nP -> EV E env cE vE nE -> EV vP vE cb r nb ->
    EV (sl [Atom [2]; P; E]) env (OP_COST + cP + cE + APPLY_COST + cb) r (nP + nE + 5 + nb + gcn (Atom [2])).
  Proof.
    intros EP EE EB.
    eapply EV_cast; [eapply EV_apply; [|exact EB]|..].
    - eapply EVS_cons; [exact EE|]. eapply EVS_cons; [exact EP|apply EVS_nil].
    - lia.
    - lia.
  Qed.

  (* the run of a whole program *)
  Lemma run_loop_of_EV E env c v n fuel : EV E env c v n -> c <= M -> (n < fuel)%nat ->
    exists c0 s0, eval_pair d init_state E env = Ok (c0, s0) /\ run_loop d fuel M c0 s0 = Ok (c, v).
  Proof.
    intros HE Hc Hf. destruct (HE [] [] [] 0 ltac:(lia)) as (c0 & s0 & He & Hst).
    exists c0, s0. split; [exact He|].
    rewrite !N.add_0_l in Hst.
    replace fuel with (n + S (fuel - n - 1))%nat by lia.
    rewrite (run_loop_steps _ _ _ _ _ _ Hst). cbn [run_loop]. unfold step.
    cbn [effective_max guards st ops]. replace (M <? c) with false by lia. reflexivity.
  Qed.
End Exec.
