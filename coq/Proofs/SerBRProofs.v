(* ser_br.rs (Model/SerBR.v): under tree-hash injectivity, whatever node_to_bytes_backrefs
   returns is an encoding in the sense of Proofs/BackRefEmit.v — at every node either the
   structure or a back-reference whose path is valid for the decoder's stack and whose encoding
   is not longer than the classic form of the node. *)
From Clvm Require Import Model.BackRef Model.ReadCache Model.SerBR Proofs.BytesLemmas Proofs.ClassicAtoms
  Proofs.ClassicProofs Proofs.ClassicWriter Proofs.BackRefBasics Proofs.BackRefEmit Proofs.ReadCacheProofs.
From Coq Require Import Lia ZifyBool ZifyN ZifyNat.
Ltac Zify.zify_post_hook ::= Z.div_mod_to_equations.
Open Scope N_scope.
Arguments N.add : simpl never.
Arguments N.sub : simpl never.
Arguments N.mul : simpl never.
Arguments N.eqb : simpl never.
Arguments N.ltb : simpl never.
Arguments N.leb : simpl never.
Arguments N.div : simpl never.
Arguments N.modulo : simpl never.
Arguments stack_list : simpl never.

(* ------------------------------------------------------------------ length of a path atom *)
Lemma prefix_class_pos a0 size : (size =? 0) = false -> ((size =? 1) && (a0 <? 128)) = false ->
  1 <= prefix_class a0 size.
Proof.
  intros E0 E1. unfold prefix_class. rewrite E0, E1.
  repeat match goal with |- context [if ?c then _ else _] => destruct c end; lia.
Qed.

Lemma atom_prefix_len a0 size p : atom_prefix a0 size = Some p -> blen p = prefix_class a0 size.
Proof.
  intros Hp. destruct (N.lt_ge_cases size 0x400000000) as [Hlt|Hge].
  2:{ rewrite atom_prefix_none in Hp by exact Hge. discriminate. }
  rewrite atom_prefix_arith in Hp by exact Hlt. apply Some_inj in Hp. subst p.
  destruct (size =? 0) eqn:E0; [unfold prefix_class; rewrite E0; reflexivity|].
  destruct ((size =? 1) && (a0 <? 128)) eqn:E1; [unfold prefix_class; rewrite E0, E1; reflexivity|].
  pose proof (prefix_class_pos a0 size E0 E1) as Hpos. cbv zeta.
  unfold blen. cbn [length]. rewrite be_bytes_of_length. lia.
Qed.

Lemma path_to_bytes_len path : blen (path_to_bytes path) = (N.of_nat (length path) + 8) / 8.
Proof.
  unfold path_to_bytes, blen. rewrite be_bytes_eq, be_bytes_of_length.
  rewrite Nat2N.inj_div, Nat2N.inj_add. reflexivity.
Qed.

Lemma path_to_bytes_single path : (N.of_nat (length path) + 8) / 8 = 1 ->
  path_to_bytes path = [path_value path].
Proof.
  intros H1. unfold path_to_bytes.
  assert (Hk : ((length path + 8) / 8)%nat = 1%nat).
  { apply Nat2N.inj. rewrite Nat2N.inj_div, Nat2N.inj_add. exact H1. }
  rewrite Hk. cbn [be_bytes app]. f_equal. apply N.mod_small.
  destruct (path_value_bounds path) as [_ Hhi].
  eapply N.lt_le_trans; [exact Hhi|]. change 256 with (2 ^ 8). apply N.pow_le_mono_r; lia.
Qed.

Lemma path_atom_len path pe pl : ser_atom (path_to_bytes path) = Some pe ->
  atom_length_bits (N.of_nat (length path) + 1) = Some pl -> blen pe = pl.
Proof.
  intros Hs Hpl. unfold ser_atom in Hs.
  destruct (atom_prefix _ _) as [p|] eqn:Ep; [|discriminate]. injection Hs as <-.
  rewrite blen_app, (atom_prefix_len _ _ _ Ep), path_to_bytes_len.
  set (L := N.of_nat (length path)) in *.
  assert (Hnb : (L + 1 + 7) / 8 = (L + 8) / 8) by (f_equal; lia).
  destruct (path_value_bounds path) as [Hlo Hhi]. fold L in Hlo. rewrite Nat2N.inj_succ in Hhi. fold L in Hhi.
  unfold atom_length_bits in Hpl. rewrite Hnb in Hpl.
  set (nb := (L + 8) / 8) in *.
  assert (Hnb1 : 1 <= nb) by (subst nb; lia).
  unfold prefix_class. destruct (N.eqb_spec nb 0); [lia|].
  destruct (N.ltb_spec (L + 1) 8) as [Hsmall|Hbig].
  - apply Some_inj in Hpl. subst pl.
    assert (Hn1 : nb = 1) by (subst nb; lia).
    rewrite (path_to_bytes_single path Hn1). cbn [atom_0].
    assert (path_value path < 128).
    { eapply N.lt_le_trans; [exact Hhi|]. change 128 with (2 ^ 7). apply N.pow_le_mono_r; lia. }
    rewrite Hn1. destruct (N.eqb_spec 1 1); [|lia]. destruct (N.ltb_spec (path_value path) 128); [|lia].
    cbn [andb]. lia.
  - assert (Hcase : ((nb =? 1) && (atom_0 (path_to_bytes path) <? 128)) = false).
    { destruct (N.eqb_spec nb 1) as [Hn1|]; [|reflexivity]. cbn [andb].
      rewrite (path_to_bytes_single path Hn1). cbn [atom_0].
      assert (128 <= path_value path).
      { eapply N.le_trans; [|exact Hlo]. change 128 with (2 ^ 7). apply N.pow_le_mono_r; [lia|]. subst nb. lia. }
      destruct (N.ltb_spec (path_value path) 128); [lia|reflexivity]. }
    rewrite Hcase.
    destruct (nb <? 64); [apply Some_inj in Hpl; lia|].
    destruct (nb <? 8192); [apply Some_inj in Hpl; lia|].
    destruct (nb <? 1048576); [apply Some_inj in Hpl; lia|].
    destruct (nb <? 134217728); [apply Some_inj in Hpl; lia|].
    destruct (nb <? 17179869184); [apply Some_inj in Hpl; lia|discriminate].
Qed.

(* where the serializer may use a back-reference: never longer than the cached classic length *)
Definition P_loop (t : sexp) (pe : bytes) : Prop :=
  exists len, cache_serialized_length t = Ok len /\ 1 + blen pe <= len.

(* never longer than the classic serialization (lengths below the u32 range of
   serialized_length_atom, as in C15) *)
Lemma enc_P_loop_short : forall stk t bs, enc P_loop stk t bs ->
  forall e, ser t = Some e -> blen e < 4294967291 -> blen bs <= blen e.
Proof.
  intros stk t bs He. induction He as [stk b e0 Hw Hs|stk l r el er _ IHl _ IHr|stk t path pe c Hw Hs Ht HP];
    intros e Hse Hb.
  - cbn in Hse. rewrite Hs in Hse. injection Hse as <-. lia.
  - cbn in Hse. destruct (ser l) as [a|]; [|discriminate]. destruct (ser r) as [c|]; [|discriminate].
    injection Hse as <-. unfold blen in Hb. cbn [length] in Hb. rewrite app_length in Hb.
    specialize (IHl a eq_refl). specialize (IHr c eq_refl).
    unfold blen in *. cbn [length]. rewrite !app_length. lia.
  - destruct HP as (len & Hlen & Hle). rewrite (cache_serialized_length_spec t e Hse Hb) in Hlen.
    injection Hlen as <-. unfold blen in *. cbn [length]. lia.
Qed.

Section Sound.
  Variable H : bytes -> bytes.
  Notation th := (treehash H).
  Hypothesis th_inj : forall t1 t2, th t1 = th t2 -> t1 = t2.

  (* what the two ObjectCaches hold for every node *)
  Fixpoint annot_ok (a : atree) : Prop :=
    ahash a = th (erase a) /\ cache_serialized_length (erase a) = Ok (alen a) /\
    match a with
    | AAtom _ _ _ => True
    | ACons l r _ _ => annot_ok l /\ annot_ok r
    end.

  Lemma annot_ok_hash a : annot_ok a -> ahash a = th (erase a).
  Proof. destruct a; intros [Hh _]; exact Hh. Qed.
  Lemma annot_ok_len a : annot_ok a -> cache_serialized_length (erase a) = Ok (alen a).
  Proof. destruct a; intros [_ [Hl _]]; exact Hl. Qed.

  Lemma annotate_ok : forall t a, annotate H t = Ok a -> erase a = t /\ annot_ok a.
  Proof.
    induction t as [b|l IHl r IHr]; intros a Ha; cbn [annotate] in Ha.
    - destruct (serialized_length_atom b) as [n|] eqn:En; cbn [bind] in Ha; [|discriminate].
      injection Ha as <-. cbn. rewrite En. repeat split.
    - destruct (annotate H l) as [al|] eqn:El; cbn [bind] in Ha; [|discriminate].
      destruct (annotate H r) as [ar|] eqn:Er; cbn [bind] in Ha; [|discriminate].
      injection Ha as <-. destruct (IHl al eq_refl) as [Hel Hol]. destruct (IHr ar eq_refl) as [Her Hor].
      cbn [erase annot_ok ahash alen]. rewrite Hel, Her. split; [reflexivity|].
      split; [|split; [|split; assumption]].
      + cbn [treehash]. rewrite (annot_ok_hash _ Hol), (annot_ok_hash _ Hor), Hel, Her. reflexivity.
      + cbn [cache_serialized_length]. rewrite <- Hel, <- Her, (annot_ok_len _ Hol), (annot_ok_len _ Hor). reflexivity.
  Qed.

  Notation loop := (ser_loop H w_unlimited).

  Lemma drain_parse ops s : drain_cons H (RParse :: ops) s = Ok (RParse :: ops, s).
  Proof. reflexivity. Qed.

  Lemma write_atom_unlimited w b : 
    write_atom w_unlimited w b =
      match atom_prefix (atom_0 b) (blen b) with Some p => Ok ((w ++ p) ++ b) | None => Err SerializationError end.
  Proof. unfold write_atom. destruct (atom_prefix _ _); reflexivity. Qed.

  Lemma ser_node_sound : forall n fuel, (fuel <= n)%nat -> forall a ws ops s stk w out,
    annot_ok a -> wf_sexp (erase a) = true -> Inv H s stk ->
    loop fuel (a :: ws) (RParse :: ops) s w = Ok out ->
    exists bs s1 ops' s' fuel', (fuel' < fuel)%nat /\
      enc P_loop stk (erase a) bs /\ Inv H s1 (erase a :: stk) /\
      drain_cons H ops s1 = Ok (ops', s') /\ loop fuel' ws ops' s' (w ++ bs) = Ok out.
  Proof.
    induction n as [|n IH]; intros fuel Hfuel a ws ops s stk w out Hann Hwf HI Hrun.
    { destruct fuel; [discriminate|lia]. }
    destruct fuel as [|f]; [discriminate|]. cbn [ser_loop] in Hrun.
    destruct (find_path s (ahash a) (alen a)) as [found|] eqn:Efp; cbn [bind] in Hrun; [|discriminate].
    destruct found as [path|].
    - (* back-reference *)
      unfold write_chunk at 1 in Hrun. cbn [w_unlimited bind] in Hrun.
      rewrite write_atom_unlimited in Hrun.
      destruct (atom_prefix (atom_0 path) (blen path)) as [p|] eqn:Ep; cbn [bind] in Hrun; [|discriminate].
      destruct (rcl_push H s (ahash a)) as [s1|] eqn:Epush; cbn [bind] in Hrun; [|discriminate].
      destruct (drain_cons H ops s1) as [[ops3 s3]|] eqn:Edr; cbn [bind] in Hrun; [|discriminate].
      rewrite (annot_ok_hash _ Hann) in Efp, Epush.
      destruct (found_path_valid H th_inj s stk (erase a) (alen a) path HI Efp)
        as (Hwfp & (c & Htr) & Hlen & pth & pl & Hpeq & Hpl & Hple).
      assert (Hser : ser_atom path = Some (p ++ path)) by (unfold ser_atom; rewrite Ep; reflexivity).
      exists (0xfe :: p ++ path), s1, ops3, s3, f. split; [lia|]. split; [|split; [|split]].
      + eapply enc_ref; [exact Hwfp|exact Hser|exact Htr|].
        exists (alen a). split; [apply annot_ok_len; exact Hann|].
        subst path. rewrite (path_atom_len pth _ pl Hser Hpl). lia.
      + eapply Inv_push; eassumption.
      + exact Edr.
      + rewrite <- Hrun. f_equal. rewrite <- !app_assoc. reflexivity.
    - destruct a as [b h len|l r h len].
      + (* atom *)
        rewrite write_atom_unlimited in Hrun.
        destruct (atom_prefix (atom_0 b) (blen b)) as [p|] eqn:Ep; cbn [bind] in Hrun; [|discriminate].
        destruct (rcl_push H s (ahash (AAtom b h len))) as [s1|] eqn:Epush; cbn [bind] in Hrun; [|discriminate].
        destruct (drain_cons H ops s1) as [[ops3 s3]|] eqn:Edr; cbn [bind] in Hrun; [|discriminate].
        rewrite (annot_ok_hash _ Hann) in Epush.
        exists (p ++ b), s1, ops3, s3, f. split; [lia|]. split; [|split; [|split]].
        * cbn [erase]. apply enc_atom; [exact Hwf|]. unfold ser_atom. rewrite Ep. reflexivity.
        * eapply Inv_push; eassumption.
        * exact Edr.
        * rewrite <- Hrun. f_equal. rewrite <- app_assoc. reflexivity.
      + (* pair *)
        unfold write_chunk at 1 in Hrun. cbn [w_unlimited bind] in Hrun.
        rewrite drain_parse in Hrun. cbn [bind] in Hrun.
        destruct Hann as (Hh & Hl & Hal & Har). cbn [erase wf_sexp] in Hwf. apply andb_prop in Hwf. destruct Hwf as [Hwl Hwr].
        assert (Hf : (f <= n)%nat) by lia.
        destruct (IH f Hf l (r :: ws) (RParse :: RCons :: ops) s stk (w ++ [255]) out Hal Hwl HI Hrun)
          as (bsl & sl & opsl & sl' & f1 & Hf1 & Hencl & HIl & Hdrl & Hrunl).
        rewrite drain_parse in Hdrl. injection Hdrl as <- <-.
        assert (Hf1' : (f1 <= n)%nat) by lia.
        destruct (IH f1 Hf1' r ws (RCons :: ops) sl (erase l :: stk) ((w ++ [255]) ++ bsl) out Har Hwr HIl Hrunl)
          as (bsr & sr & opsr & sr' & f2 & Hf2 & Hencr & HIr & Hdrr & Hrunr).
        cbn [drain_cons] in Hdrr.
        destruct (rcl_pop2_and_cons H sr) as [sx|] eqn:Epop; cbn [bind] in Hdrr; [|discriminate].
        exists (0xff :: bsl ++ bsr), sx, opsr, sr', f2. split; [lia|]. split; [|split; [|split]].
        * cbn [erase]. apply enc_pair; assumption.
        * cbn [erase]. eapply Inv_pop2_and_cons; eassumption.
        * exact Hdrr.
        * rewrite <- Hrunr. f_equal. rewrite <- !app_assoc. reflexivity.
  Qed.

  (* the serializer's output is an encoding of the tree against the empty stack *)
  Theorem ser_br_enc : forall t bs, wf_sexp t = true ->
    node_to_bytes_backrefs H t = Ok bs -> enc P_loop [] t bs.
  Proof.
    intros t bs Hwf Hrun. unfold node_to_bytes_backrefs, node_to_stream_backrefs in Hrun.
    destruct (annotate H t) as [a|] eqn:Ea; [|discriminate].
    destruct (annotate_ok t a Ea) as [Her Hann]. subst t.
    destruct (ser_node_sound _ _ (le_n _) a [] [] (rcl_new H) [] [] bs Hann Hwf (Inv_new H) Hrun)
      as (bs' & s1 & ops' & s' & f' & Hf' & Henc & _ & Hdr & Hfin).
    cbn [drain_cons] in Hdr. injection Hdr as <- <-.
    destruct f' as [|f']; [discriminate|]. cbn in Hfin. injection Hfin as <-. exact Henc.
  Qed.

End Sound.
