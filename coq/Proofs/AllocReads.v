(* Read APIs and integer constructors of the arena model against the bytes a node denotes (C14). *)
From Clvm Require Import Model.AllocHist Proofs.BytesLemmas Proofs.IntEncBasics Proofs.IntEncProofs
  Proofs.AllocEnc Proofs.AllocHeap Proofs.AllocOps.
From Coq Require Import Lia ZifyBool ZifyN ZifyNat.
Open Scope N_scope.
Arguments N.add : simpl never.
Arguments N.sub : simpl never.
Arguments N.mul : simpl never.
Arguments N.eqb : simpl never.
Arguments N.ltb : simpl never.
Arguments N.leb : simpl never.

Lemma denote_wf h n b : WF h -> denote h n = Some (Atom b) -> wf_bytes b = true.
Proof.
  intros [W1 _ _] H. destruct n as [i|i|v].
  - apply denote_atom_or_pair in H. destruct H as (l & r & H). discriminate.
  - destruct (denote_bytes _ _ _ H) as (s & e & b' & _ & S & T).
    apply (f_equal (fun t => match t with Atom x => x | _ => [] end)) in T. cbn in T. subst b'.
    eapply slice_wf; eauto.
  - unfold denote in H. cbn in H. destruct (NODE_PTR_IDX_MASK <? v); [discriminate|].
    apply AllocOps.Some_inj in H. apply (f_equal (fun t => match t with Atom x => x | _ => [] end)) in H. cbn in H.
    subst b. apply AllocOps.be_bytes_wf.
Qed.

(* small_number(): exists exactly when the bytes are the minimal encoding of a value below 2^26 *)
Lemma small_number_spec a n t : WF (hp a) -> denote (hp a) n = Some t ->
  small_number a n = Ok (r_small_number t).
Proof.
  intros Hw H. destruct n as [i|i|v].
  - apply denote_atom_or_pair in H. destruct H as (l & r & ->). reflexivity.
  - destruct (denote_bytes _ _ _ H) as (s & e & b & En & S & ->).
    unfold small_number, get_atom. rewrite En. cbn [bind]. unfold buf_bytes. cbn [fst snd]. rewrite S. cbn [bind].
    rewrite fits_in_small_atom_ref; [reflexivity|]. destruct Hw as [W1 _ _]. eapply slice_wf; eauto.
  - unfold denote in H. cbn in H. destruct (NODE_PTR_IDX_MASK <? v) eqn:E; [discriminate|].
    apply AllocOps.Some_inj in H. subst t. cbn [small_number].
    rewrite <- fits_in_small_atom_ref by apply AllocOps.be_bytes_wf.
    rewrite small_bytes_spec by lia. rewrite fits_small_roundtrip by lia. reflexivity.
Qed.

(* number(): the two's-complement value of the bytes *)
Lemma number_spec a n b : denote (hp a) n = Some (Atom b) -> number a n = Ok (int_of_bytes b).
Proof.
  intros H. destruct n as [i|i|v].
  - apply denote_atom_or_pair in H. destruct H as (l & r & H). discriminate.
  - destruct (denote_bytes _ _ _ H) as (s & e & b' & En & S & T).
    apply (f_equal (fun t => match t with Atom x => x | _ => [] end)) in T. cbn in T. subst b'.
    unfold number, get_atom. rewrite En. cbn [bind]. unfold buf_bytes. cbn [fst snd]. rewrite S. reflexivity.
  - unfold denote in H. cbn in H. destruct (NODE_PTR_IDX_MASK <? v) eqn:E; [discriminate|].
    apply AllocOps.Some_inj in H. apply (f_equal (fun t => match t with Atom x => x | _ => [] end)) in H. cbn in H.
    subst b. cbn [number]. rewrite small_bytes_spec by lia. rewrite int_of_bytes_of_int. reflexivity.
Qed.

(* the integer constructors store the minimal two's-complement encoding and read back the value *)
Definition stores (a : alloc) (r : res (alloc * nodeptr)) (z : Z) : Prop :=
  match r with
  | Ok (a', n) => denote (hp a') n = Some (Atom (bytes_of_int z)) /\ number a' n = Ok z /\
                  atom a' n = Ok (bytes_of_int z) /\ bump a a' 1 0 (blen (bytes_of_int z))
  | Err e => (e = OutOfMemory /\ heap_limit a < heap_size a + blen (bytes_of_int z)) \/
             (e = TooManyAtoms /\ atom_count a = MAX_NUM_ATOMS)
  end.

Lemma new_atom_stores a z : AOK a -> stores a (new_atom a (bytes_of_int z)) z.
Proof.
  intros Ha. pose proof (new_atom_spec a (bytes_of_int z) Ha (bytes_of_int_wf z)) as S. unfold stores.
  destruct (new_atom a (bytes_of_int z)) as [[a' n]|e].
  - destruct S as (_ & _ & _ & _ & _ & D & B). refine (conj D (conj _ (conj (atom_spec _ _ _ D) B))).
    rewrite (number_spec _ _ _ D), int_of_bytes_of_int. reflexivity.
  - destruct S as [[-> S]|[-> [_ S]]]; [left|right]; auto.
Qed.

Lemma new_u64_stores a v : AOK a -> v < 2 ^ 64 -> stores a (new_u64 a v) (Z.of_N v).
Proof. intros Ha Hv. unfold new_u64. rewrite u64_bytes_spec by exact Hv. apply new_atom_stores; exact Ha. Qed.

Lemma new_i64_stores a z : AOK a -> (- 2 ^ 63 <= z < 2 ^ 63)%Z -> stores a (new_i64 a z) z.
Proof. intros Ha Hz. unfold new_i64. rewrite i64_bytes_spec by exact Hz. apply new_atom_stores; exact Ha. Qed.

Lemma new_number_stores a z : AOK a -> stores a (new_number a z) z.
Proof.
  intros Ha. unfold new_number.
  destruct ((0 <=? z)%Z && (z <=? Z.of_N NODE_PTR_IDX_MASK)%Z) eqn:E.
  - assert (Hv : Z.to_N z <= NODE_PTR_IDX_MASK) by lia.
    rewrite new_small_number_spec by assumption. rewrite small_bytes_spec by exact Hv.
    replace (Z.of_N (Z.to_N z)) with z by lia. apply new_atom_stores; exact Ha.
  - rewrite strip_to_signed. apply new_atom_stores; exact Ha.
Qed.

Lemma new_small_number_stores a v : AOK a -> v <= NODE_PTR_IDX_MASK ->
  stores a (new_small_number a v) (Z.of_N v).
Proof.
  intros Ha Hv. rewrite new_small_number_spec by assumption. rewrite small_bytes_spec by exact Hv.
  apply new_atom_stores; exact Ha.
Qed.
