(* Read APIs and integer constructors of the arena model against the bytes a node denotes (C14). *)
From Clvm Require Import Model.AllocHist Proofs.BytesLemmas Proofs.IntEncBasics Proofs.IntEncProofs
  Proofs.AllocEnc Proofs.AllocHeap Proofs.AllocOps.
From Coq Require Import Lia ZifyBool ZifyN ZifyNat.
Open Scope N_scope.
Arguments N.add : simpl never.
Arguments N.sub : simpl never.
Arguments N.mul : simpl never.
Arguments N.eqb : simpl never.
Arguments N.ltb : simpl never.
Arguments N.leb : simpl never.

Lemma denote_wf h n b : WF h -> denote h n = Some (Atom b) -> wf_bytes b = true.
Proof.
  intros [W1 _ _] H. destruct n as [i|i|v].
  - apply denote_atom_or_pair in H. destruct H as (l & r & H). discriminate.
  - destruct (denote_bytes _ _ _ H) as (s & e & b' & _ & S & T).
    apply (f_equal (fun t => match t with Atom x => x | _ => [] end)) in T. cbn in T. subst b'.
    eapply slice_wf; eauto.
  - unfold denote in H. cbn in H. destruct (NODE_PTR_IDX_MASK <? v); [discriminate|].
    apply AllocOps.Some_inj in H. apply (f_equal (fun t => match t with Atom x => x | _ => [] end)) in H. cbn in H.
    subst b. apply AllocOps.be_bytes_wf.
Qed.

(* small_number(): exists exactly when the bytes are the minimal encoding of a value below 2^26 *)
Lemma small_number_spec a n t : WF (hp a) -> denote (hp a) n = Some t ->
  small_number a n = Ok (r_small_number t).
Proof.
  intros Hw H. destruct n as [i|i|v].
  - apply denote_atom_or_pair in H. destruct H as (l & r & ->). reflexivity.
  - destruct (denote_bytes _ _ _ H) as (s & e & b & En & S & ->).
    unfold small_number, get_atom. rewrite En. cbn [bind]. unfold buf_bytes. cbn [fst snd]. rewrite S. cbn [bind].
    rewrite fits_in_small_atom_ref; [reflexivity|]. destruct Hw as [W1 _ _]. eapply slice_wf; eauto.
  - unfold denote in H. cbn in H. destruct (NODE_PTR_IDX_MASK <? v) eqn:E; [discriminate|].
    apply AllocOps.Some_inj in H. subst t. cbn [small_number].
    rewrite <- fits_in_small_atom_ref by apply AllocOps.be_bytes_wf.
    rewrite small_bytes_spec by lia. rewrite fits_small_roundtrip by lia. reflexivity.
Qed.

(* number(): the two's-complement value of the bytes *)
Lemma number_spec a n b : denote (hp a) n = Some (Atom b) -> number a n = Ok (int_of_bytes b).
Proof.
  intros H. destruct n as [i|i|v].
  - apply denote_atom_or_pair in H. destruct H as (l & r & H). discriminate.
  - destruct (denote_bytes _ _ _ H) as (s & e & b' & En & S & T).
    apply (f_equal (fun t => match t with Atom x => x | _ => [] end)) in T. cbn in T. subst b'.
    unfold number, get_atom. rewrite En. cbn [bind]. unfold buf_bytes. cbn [fst snd]. rewrite S. reflexivity.
  - unfold denote in H. cbn in H. destruct (NODE_PTR_IDX_MASK <? v) eqn:E; [discriminate|].
    apply AllocOps.Some_inj in H. apply (f_equal (fun t => match t with Atom x => x | _ => [] end)) in H. cbn in H.
    subst b. cbn [number]. rewrite small_bytes_spec by lia. rewrite int_of_bytes_of_int. reflexivity.
Qed.

(* the integer constructors store the minimal two's-complement encoding and read back the value *)
Definition stores (a : alloc) (r : res (alloc * nodeptr)) (z : Z) : Prop :=
  match r with
  | Ok (a', n) => denote (hp a') n = Some (Atom (bytes_of_int z)) /\ number a' n = Ok z /\
                  atom a' n = Ok (bytes_of_int z) /\ bump a a' 1 0 (blen (bytes_of_int z))
  | Err e => (e = OutOfMemory /\ heap_limit a < heap_size a + blen (bytes_of_int z)) \/
             (e = TooManyAtoms /\ atom_count a = MAX_NUM_ATOMS)
  end.

Lemma new_atom_stores a z : AOK a -> stores a (new_atom a (bytes_of_int z)) z.
Proof.
  intros Ha. pose proof (new_atom_spec a (bytes_of_int z) Ha (bytes_of_int_wf z)) as S. unfold stores.
  destruct (new_atom a (bytes_of_int z)) as [[a' n]|e].
  - destruct S as (_ & _ & _ & _ & _ & D & B). refine (conj D (conj _ (conj (atom_spec _ _ _ D) B))).
    rewrite (number_spec _ _ _ D), int_of_bytes_of_int. reflexivity.
  - destruct S as [[-> S]|[-> [_ S]]]; [left|right]; auto.
Qed.

Lemma new_u64_stores a v : AOK a -> v < 2 ^ 64 -> stores a (new_u64 a v) (Z.of_N v).
Proof. intros Ha Hv. unfold new_u64. rewrite u64_bytes_spec by exact Hv. apply new_atom_stores; exact Ha. Qed.

Lemma new_i64_stores a z : AOK a -> (- 2 ^ 63 <= z < 2 ^ 63)%Z -> stores a (new_i64 a z) z.
Proof. intros Ha Hz. unfold new_i64. rewrite i64_bytes_spec by exact Hz. apply new_atom_stores; exact Ha. Qed.

Lemma new_number_stores a z : AOK a -> stores a (new_number a z) z.
Proof.
  intros Ha. unfold new_number.
  destruct ((0 <=? z)%Z && (z <=? Z.of_N NODE_PTR_IDX_MASK)%Z) eqn:E.
  - assert (Hv : Z.to_N z <= NODE_PTR_IDX_MASK) by lia.
    rewrite new_small_number_spec by assumption. rewrite small_bytes_spec by exact Hv.
    replace (Z.of_N (Z.to_N z)) with z by lia. apply new_atom_stores; exact Ha.
  - rewrite strip_to_signed. apply new_atom_stores; exact Ha.
Qed.

Lemma new_small_number_stores a v : AOK a -> v <= NODE_PTR_IDX_MASK ->
  stores a (new_small_number a v) (Z.of_N v).
Proof.
  intros Ha Hv. rewrite new_small_number_spec by assumption. rewrite small_bytes_spec by exact Hv.
  apply new_atom_stores; exact Ha.
Qed.

(* ------------------------------------------------------------------ atom_eq = byte equality *)

Definition sb (v : N) : bytes := be_bytes (N.to_nat (len_for_value v)) v.

Lemma fits_sb v : v <= NODE_PTR_IDX_MASK -> fits_in_small_atom (sb v) = Some v.
Proof. intros H. unfold sb. rewrite small_bytes_spec by exact H. apply fits_small_roundtrip. exact H. Qed.

Lemma fits_value b v : fits_in_small_atom b = Some v -> v = be_value b.
Proof.
  unfold fits_in_small_atom. destruct b as [|x r]; [intros H; apply AllocOps.Some_inj in H; now subst|].
  destruct (_ || _); [discriminate|]. intros H. apply AllocOps.Some_inj in H. now subst.
Qed.

Lemma fits_first b x r v : b = x :: r -> fits_in_small_atom b = Some v -> (128 <=? x) = false.
Proof.
  intros -> H. unfold fits_in_small_atom in H. destruct (128 <=? x); [|reflexivity].
  rewrite !orb_true_r in H. cbn in H. rewrite ?orb_true_r in H. discriminate.
Qed.

Lemma bytes_eqb_false_len a b : blen a <> blen b -> bytes_eqb a b = false.
Proof.
  intros H. destruct (bytes_eqb a b) eqn:E; [|reflexivity]. apply bytes_eqb_eq in E. subst. contradiction.
Qed.

Lemma bytes_eq_int_spec a s e b v : wf_bytes b = true -> slice (u8 (hp a)) s e = Some b ->
  v <= NODE_PTR_IDX_MASK -> bytes_eq_int a (s, e) v = Ok (bytes_eqb (sb v) b).
Proof.
  intros Wb Sl Hv. destruct (slice_some _ _ _ _ Sl) as (A & B & _). pose proof (slice_len _ _ _ _ Sl) as Lb.
  unfold bytes_eq_int, buf_len. cbn [fst snd]. replace (e <? s) with false by lia. cbn [bind]. rewrite <- Lb.
  assert (Ls : blen (sb v) = len_for_value v) by apply small_bytes_blen.
  destruct (blen b =? len_for_value v) eqn:El; cbn [negb].
  2:{ rewrite bytes_eqb_false_len; [reflexivity|lia]. }
  destruct (v =? 0) eqn:E0.
  { assert (v = 0) by lia. subst v. destruct b; [reflexivity|]. unfold blen in El.
    change (len_for_value 0) with 0 in El. cbn [length] in El. lia. }
  unfold buf_bytes. cbn [fst snd]. rewrite Sl. cbn [bind].
  pose proof (fits_sb v Hv) as F.
  destruct b as [|x r].
  { exfalso. unfold blen in El. cbn in El. unfold len_for_value in El. rewrite E0 in El.
    destruct (v <? 128); [lia|]. destruct (v <? 32768); [lia|]. destruct (v <? 8388608); [lia|].
    destruct (v <? 2147483648); lia. }
  destruct (128 <=? x) eqn:Ex.
  { destruct (bytes_eqb (sb v) (x :: r)) eqn:Eb; [|reflexivity]. apply bytes_eqb_eq in Eb.
    rewrite (fits_first _ x r v Eb F) in Ex. discriminate. }
  assert (L4 : (length (x :: r) <= 4)%nat).
  { pose proof (len_for_value_le4 v Hv). unfold blen in El. lia. }
  assert (Hb : be_value (x :: r) < 4294967296).
  { pose proof (be_value_bound _ Wb) as Hbb.
    assert (256 ^ N.of_nat (length (x :: r)) <= 256 ^ 4) by (apply N.pow_le_mono_r; lia).
    change (256 ^ 4) with 4294967296 in H. lia. }
  unfold u32. rewrite N.mod_small by exact Hb.
  destruct (bytes_eqb (sb v) (x :: r)) eqn:Eb.
  - apply bytes_eqb_eq in Eb. rewrite <- Eb. rewrite <- (fits_value _ _ F). f_equal. lia.
  - f_equal. destruct (v =? be_value (x :: r)) eqn:Ev; [|reflexivity]. exfalso.
    assert (v = be_value (x :: r)) by lia.
    pose proof (be_bytes_be_value _ Wb) as R. rewrite <- H in R.
    assert (sb v = x :: r).
    { unfold sb. transitivity (be_bytes (length (x :: r)) v); [f_equal; unfold blen in El; lia|exact R]. }
    rewrite H0 in Eb. assert (bytes_eqb (x :: r) (x :: r) = true) by (apply bytes_eqb_eq; reflexivity). congruence.
Qed.

Lemma bytes_eqb_sym a b : bytes_eqb a b = bytes_eqb b a.
Proof.
  destruct (bytes_eqb a b) eqn:E.
  - apply bytes_eqb_eq in E. subst. symmetry. apply bytes_eqb_eq. reflexivity.
  - destruct (bytes_eqb b a) eqn:E2; [|reflexivity]. apply bytes_eqb_eq in E2. subst.
    assert (bytes_eqb a a = true) by (apply bytes_eqb_eq; reflexivity). congruence.
Qed.

(* atom_eq agrees with equality of the bytes, in all four representation cases *)
Lemma atom_eq_spec a x y bx by_ : WF (hp a) ->
  denote (hp a) x = Some (Atom bx) -> denote (hp a) y = Some (Atom by_) ->
  atom_eq a x y = Ok (bytes_eqb bx by_).
Proof.
  intros Hw Hx Hy. pose proof (denote_wf _ _ _ Hw Hx) as Wx. pose proof (denote_wf _ _ _ Hw Hy) as Wy.
  destruct x as [i|i|v]; [apply denote_atom_or_pair in Hx; destruct Hx as (? & ? & Hx); discriminate| |];
  (destruct y as [j|j|w]; [apply denote_atom_or_pair in Hy; destruct Hy as (? & ? & Hy); discriminate| |]).
  - destruct (denote_bytes _ _ _ Hx) as (s1 & e1 & b1 & E1 & S1 & T1).
    destruct (denote_bytes _ _ _ Hy) as (s2 & e2 & b2 & E2 & S2 & T2).
    apply (f_equal (fun t => match t with Atom x => x | _ => [] end)) in T1. cbn in T1. subst b1.
    apply (f_equal (fun t => match t with Atom x => x | _ => [] end)) in T2. cbn in T2. subst b2.
    unfold atom_eq, get_atom. rewrite E1, E2. cbn [bind]. unfold buf_bytes. cbn [fst snd]. rewrite S1, S2. reflexivity.
  - destruct (denote_bytes _ _ _ Hx) as (s1 & e1 & b1 & E1 & S1 & T1).
    apply (f_equal (fun t => match t with Atom x => x | _ => [] end)) in T1. cbn in T1. subst b1.
    unfold denote in Hy. cbn in Hy. destruct (NODE_PTR_IDX_MASK <? w) eqn:Ew; [discriminate|].
    apply AllocOps.Some_inj in Hy. apply (f_equal (fun t => match t with Atom x => x | _ => [] end)) in Hy. cbn in Hy.
    unfold atom_eq, get_atom. rewrite E1. cbn [bind].
    rewrite (bytes_eq_int_spec a s1 e1 bx w Wx S1) by lia. unfold sb. rewrite Hy. now rewrite bytes_eqb_sym.
  - destruct (denote_bytes _ _ _ Hy) as (s2 & e2 & b2 & E2 & S2 & T2).
    apply (f_equal (fun t => match t with Atom x => x | _ => [] end)) in T2. cbn in T2. subst b2.
    unfold denote in Hx. cbn in Hx. destruct (NODE_PTR_IDX_MASK <? v) eqn:Ev; [discriminate|].
    apply AllocOps.Some_inj in Hx. apply (f_equal (fun t => match t with Atom x => x | _ => [] end)) in Hx. cbn in Hx.
    unfold atom_eq, get_atom. rewrite E2. cbn [bind].
    rewrite (bytes_eq_int_spec a s2 e2 by_ v Wy S2) by lia. unfold sb. rewrite Hx. reflexivity.
  - unfold denote in Hx, Hy. cbn in Hx, Hy.
    destruct (NODE_PTR_IDX_MASK <? v) eqn:Ev; [discriminate|]. destruct (NODE_PTR_IDX_MASK <? w) eqn:Ew; [discriminate|].
    apply AllocOps.Some_inj in Hx. apply (f_equal (fun t => match t with Atom x => x | _ => [] end)) in Hx. cbn in Hx.
    apply AllocOps.Some_inj in Hy. apply (f_equal (fun t => match t with Atom x => x | _ => [] end)) in Hy. cbn in Hy.
    cbn [atom_eq]. f_equal. subst bx by_. fold (sb v) (sb w).
    destruct (v =? w) eqn:E.
    + assert (v = w) by lia. subst. symmetry. apply bytes_eqb_eq. reflexivity.
    + destruct (bytes_eqb (sb v) (sb w)) eqn:Eb; [|reflexivity]. apply bytes_eqb_eq in Eb.
      pose proof (fits_sb v ltac:(lia)) as F1. pose proof (fits_sb w ltac:(lia)) as F2. rewrite Eb in F1.
      rewrite F1 in F2. apply AllocOps.Some_inj in F2. lia.
Qed.
