(* C18: the theorems about the three back-reference readers, assembled. *)
From Clvm Require Import Model.BackRef Proofs.BytesLemmas Proofs.DecoderGeneric Proofs.ClassicProofs
  Proofs.BackRefBasics Proofs.BackRefSpec Proofs.BackRefOld Proofs.BackRefNew.
From Coq Require Import Lia.
Open Scope N_scope.

(* how two outcomes may differ: not at all, except that a path into an atom is reported as
   PathIntoAtom by traverse_path (legacy decoder, probe, grammar) and as
   SerializationBackrefError by traverse_path_with_vec *)
Definition same_result {A} (x y : res A) : Prop :=
  match x, y with
  | Ok a, Ok b => a = b
  | Err e1, Err e2 => e1 = e2 \/ (e1 = PathIntoAtom /\ e2 = SerializationBackrefError)
  | _, _ => False
  end.

Theorem old_refines_spec : forall bs, snd (node_from_stream_backrefs_old bs) = de_br_spec bs.
Proof. intros bs. rewrite old_is_abs. apply de_br_abs_spec. Qed.

Theorem new_refines_spec : forall bs, same_result (de_br_spec bs) (snd (node_from_stream_backrefs bs)).
Proof.
  intros bs. rewrite <- de_br_abs_spec. destruct (new_vs_abs bs) as [_ H]. exact H.
Qed.

Theorem pair_counts_equal : forall bs,
  fst (node_from_stream_backrefs bs) = fst (node_from_stream_backrefs_old bs).
Proof. intros bs. rewrite old_is_abs. destruct (new_vs_abs bs) as [H _]. exact H. Qed.

Theorem decoders_agree : forall bs,
  fst (node_from_stream_backrefs bs) = fst (node_from_stream_backrefs_old bs) /\
  same_result (snd (node_from_stream_backrefs_old bs)) (snd (node_from_stream_backrefs bs)).
Proof.
  intros bs. split; [apply pair_counts_equal|]. rewrite old_refines_spec. apply new_refines_spec.
Qed.

Theorem probe_agrees : forall bs,
  serialized_length_from_bytes bs =
    match snd (node_from_stream_backrefs_old bs) with
    | Ok (_, rest) => Ok (blen bs - blen rest)
    | Err e => Err e
    end.
Proof. intros bs. rewrite old_refines_spec. apply probe_is_spec. Qed.

(* the probe succeeds exactly on the inputs the current decoder accepts, with its consumed length *)
Theorem probe_accepts_iff : forall bs n,
  serialized_length_from_bytes bs = Ok n <->
  exists t rest, snd (node_from_stream_backrefs bs) = Ok (t, rest) /\ n = blen bs - blen rest.
Proof.
  intros bs n. rewrite probe_is_spec. pose proof (new_refines_spec bs) as H. unfold same_result in H.
  destruct (de_br_spec bs) as [[t rest]|e], (snd (node_from_stream_backrefs bs)) as [[t' rest']|e']; try contradiction.
  - injection H as <- <-. split.
    + intros Hn. injection Hn as <-. exists t, rest. split; reflexivity.
    + intros (t2 & r2 & Heq & ->). injection Heq as _ <-. reflexivity.
  - split; [discriminate|]. intros (t2 & r2 & Heq & _). discriminate.
Qed.

(* no panic site is reachable and the fuel 2|bs|+2 built into the three definitions suffices *)
Theorem no_panic : forall bs e,
  snd (node_from_stream_backrefs bs) = Err e \/ snd (node_from_stream_backrefs_old bs) = Err e \/
  serialized_length_from_bytes bs = Err e ->
  ~ (e = OutOfFuel \/ exists n, e = Panic n).
Proof.
  intros bs e H. pose proof (de_br_spec_total bs) as Ht. unfold bad_err in Ht.
  destruct H as [H|[H|H]].
  - pose proof (new_refines_spec bs) as Hn. rewrite H in Hn. unfold same_result in Hn.
    destruct (de_br_spec bs) as [x|e0]; [contradiction|].
    destruct Hn as [->|[_ ->]]; [apply Ht; reflexivity|].
    intros [Hc|[n Hc]]; discriminate.
  - rewrite old_refines_spec in H. apply Ht. exact H.
  - rewrite probe_is_spec in H. destruct (de_br_spec bs) as [[t rest]|e0]; [discriminate|].
    injection H as ->. apply Ht. reflexivity.
Qed.
