(* C19, decode claim at the format level: if every path the oracle returns is valid for the
   decoder's stack at that point, then when add reports completion the output is an encoding
   (relation enc of Proofs/BackRefEmit.v) of the tree assembled from the retained additions.

   The serializer's read_op_stack IS the decoder's op stack and tc_stk IS the decoder's value
   stack. The invariant is forward-looking: whatever bytes complete the pending work
   (relation [full]: one enc-encoding per pending Parse, assembled with the additions still to
   come), the bytes written so far followed by them encode the whole tree. *)
From Clvm Require Import Model.Incremental Proofs.BackRefEmit Proofs.IncrementalUndo.
From Coq Require Import Lia.
Open Scope N_scope.
Arguments N.add : simpl never.
Arguments N.sub : simpl never.
Arguments N.mul : simpl never.
Arguments N.eqb : simpl never.
Arguments N.ltb : simpl never.
Arguments N.leb : simpl never.
Arguments stack_list : simpl never.
Arguments cursor_write : simpl never.
Arguments write_atom_c : simpl never.

Definition PT : sexp -> bytes -> Prop := fun _ _ => True.

(* ------------------------------------------------------------------ the assembled tree *)
(* [fills t adds v rest]: filling the holes of t, left to right, with the additions adds — an
   addition's own holes being filled before the walk goes on — gives v and leaves rest unused *)
Inductive fills : stree -> list stree -> sexp -> list stree -> Prop :=
| fills_atom b a : fills (SAtom b) a (Atom b) a
| fills_cons l r a l' a1 r' a2 :
    fills l a l' a1 -> fills r a1 r' a2 -> fills (SCons l r) a (Cons l' r') a2
| fills_hole n a v a' : fills n a v a' -> fills SHole (n :: a) v a'.

(* the tree assembled from all the retained additions: the first one is the root *)
Definition assembled (adds : list stree) (t : sexp) : Prop := fills SHole adds t [].

Lemma fills_closed : forall n a, has_hole n = false -> fills n a (to_sexp n) a.
Proof.
  induction n as [b|l IHl r IHr|]; intros a Hh; cbn [has_hole to_sexp] in *.
  - apply fills_atom.
  - apply Bool.orb_false_iff in Hh. destruct Hh as [Hl Hr].
    eapply fills_cons; [apply IHl; exact Hl|apply IHr; exact Hr].
  - discriminate.
Qed.

(* the executable [fill] computes it *)
Lemma fill_fills : forall f t adds v rest, fill f t adds = Some (v, rest) -> fills t adds v rest.
Proof.
  induction f as [|f IH]; intros t adds v rest Hf; [discriminate|].
  cbn [fill] in Hf. destruct t as [b|l r|].
  - injection Hf as <- <-. apply fills_atom.
  - destruct (fill f l adds) as [[l' a1]|] eqn:Hl; [|discriminate].
    destruct (fill f r a1) as [[r' a2]|] eqn:Hr; [|discriminate].
    injection Hf as <- <-. eapply fills_cons; [apply IH; exact Hl|apply IH; exact Hr].
  - destruct adds as [|n a]; [discriminate|]. apply fills_hole. apply IH. exact Hf.
Qed.

Lemma assemble_assembled adds t : assemble adds = Some t -> assembled adds t.
Proof.
  unfold assemble, assembled. intros H.
  match type of H with context [fill ?f ?t ?a] => destruct (fill f t a) as [[v rest]|] eqn:Hf end; [|discriminate].
  destruct rest; [|discriminate]. injection H as <-. eapply fill_fills. exact Hf.
Qed.

(* ------------------------------------------------------------------ completing the pending work *)
Inductive full : list sexp -> list iread_op -> list stree -> list stree -> bytes -> sexp -> Prop :=
| full_done v : full [v] [] [] [] [] v
| full_parse stk ops n w F x F' b1 bs v :
    fills n F x F' -> enc PT stk x b1 -> full (x :: stk) ops w F' bs v ->
    full stk (IParse :: ops) (n :: w) F (b1 ++ bs) v
| full_cons rgt lft stk nd ops w F bs v :
    full (Cons lft rgt :: stk) ops w F bs v ->
    full (rgt :: lft :: stk) (ICons nd :: ops) w F bs v.

Lemma full_inv_done stk w F bs v : full stk [] w F bs v -> stk = [v] /\ w = [] /\ F = [] /\ bs = [].
Proof. intros H. inversion H; subst. repeat split. Qed.

Lemma full_inv_parse stk ops n w F bs v : full stk (IParse :: ops) (n :: w) F bs v ->
  exists x F' b1 bs', fills n F x F' /\ enc PT stk x b1 /\ full (x :: stk) ops w F' bs' v /\ bs = b1 ++ bs'.
Proof. intros H. inversion H; subst. eexists _, _, _, _. repeat split; eassumption. Qed.

Lemma full_inv_cons stk nd ops w F bs v : full stk (ICons nd :: ops) w F bs v ->
  exists rgt lft stk', stk = rgt :: lft :: stk' /\ full (Cons lft rgt :: stk') ops w F bs v.
Proof. intros H. inversion H; subst. eexists _, _, _. split; [reflexivity|eassumption]. Qed.

(* a pending node may as well be a hole that takes that node as the next addition *)
Lemma full_hole_intro : forall stk ops ws F bs v, full stk ops ws F bs v ->
  forall n w, ws = n :: w -> full stk ops (SHole :: w) (n :: F) bs v.
Proof.
  intros stk ops ws F bs v H. induction H as [v|stk ops n0 w0 F x F' b1 bs v Hf He Hr _|rgt lft stk nd ops w0 F bs v Hr IH];
    intros n w E.
  - discriminate.
  - injection E as -> ->. eapply full_parse; [apply fills_hole; exact Hf|exact He|exact Hr].
  - apply full_cons. apply IH. exact E.
Qed.

(* the goal of the invariant: the whole history, seen from the initial state *)
Definition G (A : list stree) (bs : bytes) (v : sexp) : Prop := full [] [IParse] [SHole] A bs v.

Lemma G_result A bs v : G A bs v -> assembled A v /\ enc PT [] v bs.
Proof.
  unfold G. intros H. apply full_inv_parse in H. destruct H as (x & F' & b1 & bs' & Hf & He & Hr & ->).
  apply full_inv_done in Hr. destruct Hr as (Hx & _ & -> & ->). injection Hx as ->.
  rewrite app_nil_r. split; [exact Hf|exact He].
Qed.

Definition KInv (tc : list sexp) (rops : list iread_op) (ws : list stree) (outv : bytes) (A : list stree) : Prop :=
  forall F bs v, full tc rops ws F bs v -> G (A ++ F) (outv ++ bs) v.

(* ------------------------------------------------------------------ the oracle's contract *)
Definition path_ok (s : ser) (node : stree) (p : bytes) : Prop :=
  wf_bytes p = true /\ exists c, traverse_path p (stack_list (tc_stk s)) = Ok (c, to_sexp node).

Definition orc_valid (orc : oracle) : Prop :=
  forall s n p, has_hole n = false -> orc s n = Some p -> path_ok s n p.

Lemma find_path_some orc s n p : find_path orc s n = Some p -> has_hole n = false /\ orc s n = Some p.
Proof.
  unfold find_path. destruct n as [[|x b]|l r|]; try discriminate.
  - intros H. split; [reflexivity|exact H].
  - destruct (has_hole (SCons l r)); [discriminate|]. intros H. split; [reflexivity|exact H].
Qed.

(* ------------------------------------------------------------------ shape of the two stacks *)
(* [shape rops k m]: with k values on the parse stack and m nodes pending, the read ops can be run
   to the end and leave exactly one value *)
Fixpoint shape (rops : list iread_op) (k m : nat) : Prop :=
  match rops with
  | [] => k = 1%nat /\ m = O
  | IParse :: r => exists m', m = S m' /\ shape r (S k) m'
  | ICons _ :: r => exists k', k = S (S k') /\ shape r (S k') m
  end.

Definition no_lead (rops : list iread_op) : Prop := match rops with ICons _ :: _ => False | _ => True end.

Lemma pop_conses_spec : forall ops tc ops3 tc3 m, pop_conses ops tc = Ok (ops3, tc3) ->
  shape ops (length tc) m ->
  shape ops3 (length tc3) m /\ no_lead ops3 /\
  (forall w F bs v, full tc3 ops3 w F bs v -> full tc ops w F bs v).
Proof.
  induction ops as [|[|nd] ops IH]; intros tc ops3 tc3 m Hp Hs; cbn [pop_conses] in Hp.
  - injection Hp as <- <-. split; [exact Hs|]. split; [exact I|]. intros; assumption.
  - injection Hp as <- <-. split; [exact Hs|]. split; [exact I|]. intros; assumption.
  - destruct tc as [|rgt [|lft rest]]; try discriminate.
    cbn [shape] in Hs. destruct Hs as (k' & Hk & Hs). cbn [length] in Hk.
    assert (Hk' : k' = length rest) by lia. subst k'.
    destruct (IH (Cons lft rgt :: rest) ops3 tc3 m Hp Hs) as (H1 & H2 & H3).
    split; [exact H1|]. split; [exact H2|]. intros w F bs v Hf. apply full_cons. apply H3. exact Hf.
Qed.

Lemma app_cons_assoc {A} (a : list A) x b : a ++ x :: b = (a ++ [x]) ++ b.
Proof. rewrite <- app_assoc. reflexivity. Qed.

(* ------------------------------------------------------------------ one node *)
Lemma emit_node_dec orc s node s3 A :
  orc_valid orc -> wf_stree node = true -> is_hole node = false -> cursor_ok (out s) ->
  Forall (fun t => wf_stree t = true) (write_stk s) ->
  emit_node orc s node = Ok s3 ->
  shape (IParse :: read_ops s) (length (tc_stk s)) (S (length (write_stk s))) ->
  KInv (tc_stk s) (IParse :: read_ops s) (node :: write_stk s) (get_ref s) A ->
  shape (read_ops s3) (length (tc_stk s3)) (length (write_stk s3)) /\
  Forall (fun t => wf_stree t = true) (write_stk s3) /\
  KInv (tc_stk s3) (read_ops s3) (write_stk s3) (get_ref s3) A.
Proof.
  intros Hv Hwf Hnh Hc Hws He Hs HK. unfold emit_node in He.
  cbn [shape] in Hs. destruct Hs as (m' & Hm & Hs). injection Hm as <-.
  destruct (find_path orc s node) as [path|] eqn:Hfp.
  - destruct (find_path_some _ _ _ _ Hfp) as [Hh Ho].
    destruct (Hv s node path Hh Ho) as [Hwp (c & Ht)].
    destruct (cursor_write_ok (out s) [254] Hc) as [H1 E1].
    destruct (write_atom_c (cursor_write (out s) [254]) path) as [c1|] eqn:Hw; [|discriminate].
    cbn [bind] in He. injection He as <-. cbn [read_ops write_stk tc_stk out get_ref].
    destruct (write_atom_c_end _ _ _ H1 Hw) as (e & Hse & _ & E2).
    split; [cbn [length]; exact Hs|]. split; [exact Hws|].
    intros F bs v Hf. unfold get_ref. cbn [out]. rewrite E2, E1.
    replace (((c_vec (out s) ++ [254]) ++ e) ++ bs) with (c_vec (out s) ++ (254 :: e) ++ bs)
      by (rewrite <- !app_assoc; reflexivity).
    apply HK. eapply full_parse; [apply fills_closed; exact Hh| |exact Hf].
    eapply enc_ref; [exact Hwp|exact Hse|exact Ht|exact I].
  - destruct node as [b|l r|]; [| |discriminate].
    + destruct (write_atom_c (out s) b) as [c1|] eqn:Hw; [|discriminate].
      cbn [bind] in He. injection He as <-. cbn [read_ops write_stk tc_stk out get_ref].
      destruct (write_atom_c_end _ _ _ Hc Hw) as (e & Hse & _ & E2).
      split; [cbn [length]; exact Hs|]. split; [exact Hws|].
      intros F bs v Hf. unfold get_ref. cbn [out]. rewrite E2, <- app_assoc.
      apply HK. eapply full_parse; [apply fills_atom| |exact Hf].
      apply enc_atom; [exact Hwf|exact Hse].
    + injection He as <-. cbn [read_ops write_stk tc_stk out get_ref].
      destruct (cursor_write_ok (out s) [255] Hc) as [H1 E1].
      cbn [wf_stree] in Hwf. apply andb_prop in Hwf. destruct Hwf as [Hwl Hwr].
      split.
      { cbn [shape length]. eexists. split; [reflexivity|]. eexists. split; [reflexivity|].
        eexists. split; [reflexivity|]. exact Hs. }
      split; [constructor; [exact Hwl|constructor; [exact Hwr|exact Hws]]|].
      intros F bs v Hf. unfold get_ref. cbn [out]. rewrite E1.
      apply full_inv_parse in Hf. destruct Hf as (x1 & F1 & b1 & bs1 & Hf1 & He1 & Hf & ->).
      apply full_inv_parse in Hf. destruct Hf as (x2 & F2 & b2 & bs2 & Hf2 & He2 & Hf & ->).
      apply full_inv_cons in Hf. destruct Hf as (rgt & lft & stk' & Hst & Hf).
      injection Hst as <- <- <-.
      replace ((c_vec (out s) ++ [255]) ++ b1 ++ b2 ++ bs2) with (c_vec (out s) ++ (255 :: b1 ++ b2) ++ bs2)
        by (rewrite <- !app_assoc; cbn [app]; rewrite <- !app_assoc; reflexivity).
      apply HK. eapply full_parse; [eapply fills_cons; eassumption| |exact Hf].
      apply enc_pair; assumption.
Qed.

(* ------------------------------------------------------------------ the loop *)
Definition wfs (ws : list stree) : Prop := Forall (fun t => wf_stree t = true) ws.

Lemma add_loop_dec : forall f orc s d s' A, orc_valid orc ->
  add_loop f orc s = Ok (d, s') ->
  cursor_ok (out s) -> wfs (write_stk s) -> no_lead (read_ops s) ->
  shape (read_ops s) (length (tc_stk s)) (length (write_stk s)) ->
  KInv (tc_stk s) (read_ops s) (write_stk s) (get_ref s) A ->
  let ws' := if d then write_stk s' else SHole :: write_stk s' in
  cursor_ok (out s') /\ wfs (write_stk s') /\ no_lead (read_ops s') /\
  shape (read_ops s') (length (tc_stk s')) (length ws') /\
  KInv (tc_stk s') (read_ops s') ws' (get_ref s') A /\
  (d = true -> write_stk s' = [] /\ read_ops s' = []).
Proof.
  induction f as [|f IH]; intros orc s d s' A Hv Hl Hc Hws Hnl Hs HK; [discriminate|].
  cbn [add_loop] in Hl. destruct (write_stk s) as [|node ws] eqn:Ew.
  - injection Hl as <- <-. cbn zeta. rewrite Ew.
    assert (Hr : read_ops s = []).
    { destruct (read_ops s) as [|[|nd] r]; [reflexivity| |destruct Hnl].
      cbn [shape length] in Hs. destruct Hs as (m' & Hm & _). discriminate. }
    split; [exact Hc|]. split; [exact Hws|]. split; [exact Hnl|]. split; [exact Hs|]. split; [exact HK|].
    intros _. split; [reflexivity|exact Hr].
  - destruct (is_hole node) eqn:Hh.
    + destruct node; try discriminate. injection Hl as <- <-. cbn zeta. cbn [read_ops write_stk tc_stk out get_ref].
      inversion Hws; subst.
      split; [exact Hc|]. split; [assumption|]. split; [exact Hnl|]. split; [exact Hs|]. split; [exact HK|].
      intros; discriminate.
    + destruct (read_ops s) as [|[|n0] ops1] eqn:Er; try discriminate.
      inversion Hws as [|? ? Hwn Hws']; subst.
      set (s2 := {| read_ops := ops1; write_stk := ws; tc_stk := tc_stk s; out := out s |}) in *.
      destruct (emit_node orc s2 node) as [s3|] eqn:He; [|discriminate]. cbn [bind] in Hl.
      destruct (pop_conses (read_ops s3) (tc_stk s3)) as [[ops3 tc3]|] eqn:Hp; [|discriminate].
      cbn [bind] in Hl.
      destruct (emit_node_dec orc s2 node s3 A Hv Hwn Hh Hc Hws' He Hs HK) as (Hs3 & Hws3 & HK3).
      destruct (emit_node_out orc s2 node s3 Hc He) as [Hc3 _].
      destruct (pop_conses_spec _ _ _ _ _ Hp Hs3) as (Hs4 & Hnl4 & Hback).
      apply (IH orc _ d s' A Hv Hl); cbn [read_ops write_stk tc_stk out get_ref]; try assumption.
      intros F bs v Hf. apply HK3. apply Hback. exact Hf.
Qed.

(* ------------------------------------------------------------------ states at rest *)
(* between calls the pending write stack is headed by the hole the next addition goes into,
   unless the serialization is complete (read_ops = []) *)
Definition virt (s : ser) : list stree :=
  match read_ops s with [] => write_stk s | _ => SHole :: write_stk s end.

Definition DecInv (s : ser) (A : list stree) : Prop :=
  cursor_ok (out s) /\ wfs (write_stk s) /\ no_lead (read_ops s) /\
  shape (read_ops s) (length (tc_stk s)) (length (virt s)) /\
  KInv (tc_stk s) (read_ops s) (virt s) (get_ref s) A.

Lemma DecInv_new : DecInv ser_new [].
Proof.
  unfold DecInv, ser_new, virt, get_ref. cbn [read_ops write_stk tc_stk out c_vec].
  split; [reflexivity|]. split; [constructor|]. split; [exact I|].
  split; [cbn; eexists; split; [reflexivity|split; reflexivity]|].
  intros F bs v Hf. exact Hf.
Qed.

Lemma add_dec orc s node d u s' A : orc_valid orc -> wf_stree node = true -> DecInv s A ->
  add orc s node = Ok (d, u, s') ->
  DecInv s' (A ++ [node]) /\ (d = true <-> read_ops s' = []).
Proof.
  intros Hv Hwn (Hc & Hws & Hnl & Hs & HK) Ha. unfold add in Ha.
  destruct (read_ops s) as [|o ops] eqn:Er; [discriminate|].
  match type of Ha with context [add_loop ?f ?o ?s0] => destruct (add_loop f o s0) as [[d0 s0']|] eqn:Hl end;
    [|discriminate].
  cbn [bind] in Ha. injection Ha as -> <- ->.
  unfold virt in Hs, HK. rewrite Er in Hs, HK.
  apply (add_loop_dec _ _ _ _ _ (A ++ [node]) Hv) in Hl; cbn [read_ops write_stk tc_stk out get_ref].
  - cbn zeta in Hl. destruct Hl as (Hc' & Hws' & Hnl' & Hs' & HK' & Hd).
    destruct d.
    + destruct (Hd eq_refl) as [Ew Erd]. split; [|split; [intros _; exact Erd|reflexivity]].
      unfold DecInv, virt. rewrite Erd in *. repeat (split; [assumption|]). assumption.
    + assert (Hne : read_ops s' <> []).
      { intros E. rewrite E in Hs'. cbn [shape length] in Hs'. destruct Hs' as [_ Hm]. discriminate. }
      split; [|split; [discriminate|intros E; contradiction]].
      unfold DecInv, virt. destruct (read_ops s') eqn:E; [contradiction|].
      repeat (split; [assumption|]). assumption.
  - exact Hc.
  - constructor; assumption.
  - exact Hnl.
  - exact Hs.
  - intros F bs v Hf. rewrite <- app_cons_assoc. apply HK.
    eapply full_hole_intro; [exact Hf|reflexivity].
Qed.

(* ------------------------------------------------------------------ histories *)
(* reachable states under valid oracles, with the retained additions; each live undo state is
   kept with the state it was taken in and the additions retained then *)
Inductive reach_ok : ser -> list stree -> list (undo_state * ser * list stree) -> Prop :=
| rk_new : reach_ok ser_new [] []
| rk_add s A live orc node d u s' :
    reach_ok s A live -> orc_valid orc -> wf_stree node = true ->
    add orc s node = Ok (d, u, s') -> reach_ok s' (A ++ [node]) ((u, s, A) :: live)
| rk_restore s A live i u s0 A0 :
    reach_ok s A live -> nth_error live i = Some (u, s0, A0) ->
    reach_ok (restore u s) A0 (skipn i live).

Definition forget (live : list (undo_state * ser * list stree)) : list (undo_state * ser) :=
  map (fun x => (fst (fst x), snd (fst x))) live.

Lemma reach_ok_reach s A live : reach_ok s A live -> reach s (forget live).
Proof.
  intros H. induction H as [|s A live orc node d u s' _ IH _ _ Ha|s A live i u s0 A0 _ IH Hn].
  - apply reach_new.
  - cbn [forget map fst snd]. eapply reach_add; eassumption.
  - unfold forget. rewrite <- skipn_map. eapply (reach_restore _ _ i u s0); [exact IH|].
    unfold forget. rewrite nth_error_map, Hn. reflexivity.
Qed.

Lemma Forall_skipn {T} (P : T -> Prop) : forall i l, Forall P l -> Forall P (skipn i l).
Proof.
  induction i as [|i IH]; intros l H; [exact H|]. destruct l as [|x l]; [exact H|].
  cbn [skipn]. apply IH. inversion H; assumption.
Qed.

Theorem reach_ok_inv s A live : reach_ok s A live ->
  DecInv s A /\ Forall (fun x => DecInv (snd (fst x)) (snd x)) live.
Proof.
  intros H. induction H as [|s A live orc node d u s' Hr [HI HF] Hv Hwn Ha|s A live i u s0 A0 Hr [HI HF] Hn].
  - split; [exact DecInv_new|constructor].
  - split; [exact (proj1 (add_dec _ _ _ _ _ _ _ Hv Hwn HI Ha))|].
    constructor; [exact HI|exact HF].
  - assert (Hin : In (u, s0) (forget live)).
    { unfold forget. apply in_map_iff. exists (u, s0, A0). split; [reflexivity|].
      eapply nth_error_In. exact Hn. }
    rewrite (restore_live _ _ _ _ (reach_ok_reach _ _ _ Hr) Hin).
    split; [|apply Forall_skipn; exact HF].
    rewrite Forall_forall in HF. apply (HF (u, s0, A0)). eapply nth_error_In. exact Hn.
Qed.

(* the decode theorem *)
Theorem decode_complete : forall s A live orc node u s', reach_ok s A live ->
  orc_valid orc -> wf_stree node = true -> add orc s node = Ok (true, u, s') ->
  exists T, assembled (A ++ [node]) T /\ tc_stk s' = [T] /\ read_ops s' = [] /\
            enc PT [] T (get_ref s').
Proof.
  intros s A live orc node u s' Hr Hv Hwn Ha.
  destruct (reach_ok_inv _ _ _ Hr) as [HI _].
  destruct (add_dec _ _ _ _ _ _ _ Hv Hwn HI Ha) as [(Hc & Hws & Hnl & Hs & HK) [Hd _]].
  specialize (Hd eq_refl). unfold virt in Hs, HK. rewrite Hd in Hs, HK.
  cbn [shape] in Hs. destruct Hs as [Hk Hm].
  destruct (tc_stk s') as [|T [|x r]] eqn:Et; cbn [length] in Hk; try discriminate.
  destruct (write_stk s') as [|w0 wr] eqn:Ew; [|discriminate].
  specialize (HK [] [] T (full_done T)). rewrite !app_nil_r in HK.
  destruct (G_result _ _ _ HK) as [Has He].
  exists T. repeat split; assumption.
Qed.

(* ... in every state at rest: complete iff read_ops = [] *)
Theorem decode_at_rest : forall s A live, reach_ok s A live -> read_ops s = [] ->
  exists T, assembled A T /\ tc_stk s = [T] /\ enc PT [] T (get_ref s).
Proof.
  intros s A live Hr Hd. destruct (reach_ok_inv _ _ _ Hr) as [(Hc & Hws & Hnl & Hs & HK) _].
  unfold virt in Hs, HK. rewrite Hd in Hs, HK.
  cbn [shape] in Hs. destruct Hs as [Hk Hm].
  destruct (tc_stk s) as [|T [|x r]] eqn:Et; cbn [length] in Hk; try discriminate.
  destruct (write_stk s) as [|w0 wr] eqn:Ew; [|discriminate].
  specialize (HK [] [] T (full_done T)). rewrite !app_nil_r in HK.
  destruct (G_result _ _ _ HK) as [Has He].
  exists T. repeat split; assumption.
Qed.

(* hence both decoders, the grammar and the length probe (C17's emitter theorem) *)
Theorem decode_both : forall s A live orc node u s' rest, reach_ok s A live ->
  orc_valid orc -> wf_stree node = true -> add orc s node = Ok (true, u, s') ->
  exists T, assembled (A ++ [node]) T /\
    de_br_spec (get_ref s' ++ rest) = Ok (T, rest) /\
    snd (node_from_stream_backrefs (get_ref s' ++ rest)) = Ok (T, rest) /\
    snd (node_from_stream_backrefs_old (get_ref s' ++ rest)) = Ok (T, rest) /\
    serialized_length_from_bytes (get_ref s' ++ rest) = Ok (size s') /\
    into_inner s' = Ok (get_ref s').
Proof.
  intros s A live orc node u s' rest Hr Hv Hwn Ha.
  destruct (decode_complete _ _ _ _ _ _ _ Hr Hv Hwn Ha) as (T & Has & _ & Hro & He).
  destruct (emit_ok PT T (get_ref s') rest He) as (H1 & H2 & H3 & H4).
  assert (Hc : cursor_ok (out s')).
  { destruct (reach_ok_inv _ _ _ (rk_add _ _ _ _ _ _ _ _ Hr Hv Hwn Ha)) as [(Hc & _) _]. exact Hc. }
  exists T. repeat (split; [assumption|]). split.
  - rewrite H4. unfold size, get_ref. rewrite Hc. reflexivity.
  - unfold into_inner. rewrite Hro. reflexivity.
Qed.
