(* maybe_restore_with_node (allocator.rs:548), all outcomes. Building block for C04 (GC is
   unobservable): under the validity preconditions
     - the allocator state is good (AOK: well-formed heap, the three caps),
     - the checkpoint lies within the current vectors and what it cuts back to is well formed
       (both hold for every live checkpoint of a history, see AllocInv.cps_ok),
     - the node is valid,
   the call never panics, leaves atom_count / pair_count / heap_size unchanged in every Ok outcome,
   and the node it tells the caller to keep (the same one, or its replacement) denotes the same
   tree as before. Its InternalError exits "ghost atom accounting error" and "ghost heap accounting
   error" and the error exits of the inner new_atom are unreachable; "invalid atom byte range" is
   reachable only for an atom that starts before the checkpoint's heap mark and ends after it,
   which no allocation creates (hypothesis [no_straddle] of the last lemma). *)
From Clvm Require Import Model.AllocHist Proofs.BytesLemmas Proofs.IntEncBasics Proofs.AllocHeap Proofs.AllocOps.
From Coq Require Import Lia ZifyBool ZifyN ZifyNat.
Open Scope N_scope.
Arguments N.add : simpl never.
Arguments N.sub : simpl never.
Arguments N.mul : simpl never.
Arguments N.eqb : simpl never.
Arguments N.ltb : simpl never.
Arguments N.leb : simpl never.

Definition mr_post (a : alloc) (c : tcheckpoint) (x : nodeptr) (a' : alloc) (r : res maybe_restore) : Prop :=
  match r with
  | Ok Aborted => a' = a
  | Ok NoReplace =>
      AOK a' /\ hp a' = trunc (hp a) c /\ bump a a' 0 0 0 /\
      vnode (hp a') x /\ denote (hp a') x = denote (hp a) x
  | Ok (Replace n) =>
      AOK a' /\ ext (trunc (hp a) c) (hp a') /\ bump a a' 0 0 0 /\
      vnode (hp a') n /\ denote (hp a') n = denote (hp a) x
  | Err e =>
      e = InternalError 5 /\ AOK a' /\ hp a' = trunc (hp a) c /\ heap_limit a' = heap_limit a /\
      exists i s e', x = BytesP i /\ nth_N (atoms (hp a)) i = Some (s, e') /\ s < c_u8s c < e'
  end.

Lemma vnode_before_trunc h c x : tcp_le c h -> vnode h x ->
  match x with PairP i => i < c_pairs c | BytesP i => i < c_atoms c | SmallP _ => True end ->
  vnode (trunc h c) x.
Proof.
  intros Hle Hv Hb. destruct (trunc_lens _ _ Hle) as (L1 & L2 & L3).
  destruct x; cbn in *; rewrite ?L2, ?L3; assumption.
Qed.

Lemma maybe_restore_spec a c x :
  AOK a -> tcp_le c (hp a) -> WF (trunc (hp a) c) -> vnode (hp a) x ->
  mr_post a c x (fst (maybe_restore_with_node a c x)) (snd (maybe_restore_with_node a c x)).
Proof.
  intros Ha Hle Hwt Hv. pose proof Ha as [Hw Hc]. pose proof Hle as (A & B & C).
  destruct (restore_t_spec a c Ha Hle Hwt) as (a1 & E1 & Hh1 & Ha1 & Hb1 & G1 & G2 & G3).
  destruct (trunc_lens _ _ Hle) as (L1 & L2 & L3).
  unfold maybe_restore_with_node.
  replace ((u8_len a <? c_u8s c) || (atoms_len a <? c_atoms c) || (pairs_len a <? c_pairs c)) with false
    by (unfold u8_len, atoms_len, pairs_len; lia).
  destruct (u8_len a - c_u8s c + (atoms_len a - c_atoms c) * 8 + (pairs_len a - c_pairs c) * 8 <? MIN_SAVINGS).
  { cbn. reflexivity. }
  (* the three classes of checkpoint_node_status *)
  assert (Before : forall (Hb : match x with PairP i => i < c_pairs c | BytesP i => i < c_atoms c | SmallP _ => True end),
            mr_post a c x a1 (Ok NoReplace)).
  { intros Hb. cbn. pose proof (vnode_before_trunc _ _ _ Hle Hv Hb) as Hvx.
    refine (conj Ha1 (conj Hh1 (conj Hb1 _))). rewrite Hh1. split; [exact Hvx|].
    symmetry. apply denote_stable; [exact Hwt|apply trunc_ext|exact Hvx]. }
  destruct x as [i|i|v]; cbn [checkpoint_node_status].
  - (* pair *)
    destruct (i <? c_pairs c) eqn:Ei.
    + rewrite E1. cbn [fst snd]. apply Before. lia.
    + cbn in Hv. destruct (nth_N_lt _ _ Hv) as [[l r] El].
      unfold node_of, get_pair. rewrite El. cbn. reflexivity.
  - (* heap atom *)
    destruct (i <? c_atoms c) eqn:Ei.
    { rewrite E1. cbn [fst snd]. apply Before. lia. }
    cbn in Hv. destruct (nth_N_lt _ _ Hv) as [[s e] En]. unfold get_atom. rewrite En. cbn [bind fst snd].
    assert (Hin : In (s, e) (atoms (hp a))) by (eapply nth_error_In; exact En).
    destruct Hw as [W1 W2 W3]. rewrite Forall_forall in W2. destruct (W2 _ Hin) as [S1 S2]. cbn in S1, S2.
    destruct (slice_ok _ _ _ S1 S2) as (buf & Sb & Lb).
    assert (Hden : denote (hp a) (BytesP i) = Some (Atom buf)).
    { unfold denote. cbn. rewrite En, Sb. reflexivity. }
    assert (Hga : ghost_atoms a1 <> 0) by (rewrite G1; unfold atoms_len; clear - Hv Ei; lia).
    destruct (s <? c_u8s c) eqn:Es.
    + (* AfterOldBytes *)
      rewrite E1. replace (ghost_atoms a1 =? 0) with false by lia.
      set (a2 := set_ghosts a1 (ghost_atoms a1 - 1) (ghost_pairs a1) (ghost_heap a1)).
      assert (Hu2 : u8_len a2 = c_u8s c) by (unfold a2, u8_len; cbn; rewrite Hh1; exact L1).
      assert (Ha2 : AOK a2).
      { destruct Ha1 as [X Y]. split; [exact X|]. unfold a2. unf. cbn. lia. }
      destruct ((e <? s) || (u8_len a2 <? e)) eqn:Er.
      * cbn [fst snd mr_post]. refine (conj eq_refl (conj Ha2 (conj _ (conj _ _)))).
        -- unfold a2. cbn. exact Hh1.
        -- unfold a2. cbn. destruct Hb1 as (X & _). exact X.
        -- exists i, s, e. repeat split; try assumption; lia.
      * cbn [fst snd mr_post].
        assert (Hae : e <= c_u8s c) by lia.
        assert (La : atoms_len a2 = c_atoms c) by (unfold a2, atoms_len; cbn; rewrite Hh1; exact L2).
        assert (L4 : nlen (atoms (hp a2) ++ [(s, e)]) = atoms_len a2 + 1) by (rewrite nlen_app; reflexivity).
        assert (Hh2 : hp a2 = trunc (hp a) c) by (unfold a2; cbn; exact Hh1).
        refine (conj _ (conj _ (conj _ (conj _ _)))).
        -- split.
           ++ cbn [hp set_hp]. apply WF_push_atom; [rewrite Hh2; exact Hwt|lia|]. fold (u8_len a2). lia.
           ++ destruct Ha1 as [_ Y]. destruct Hb1 as (B0 & B1 & B2 & B3). unfold a2 in *. unf.
              cbn [hp set_hp set_ghosts heap_limit ghost_atoms ghost_pairs ghost_heap atoms u8 pairs push_atom] in *.
              rewrite nlen_app. unfold nlen in *. cbn [length] in *. lia.
        -- cbn [hp set_hp]. rewrite <- Hh2. apply ext_push_atom.
        -- destruct Hb1 as (B0 & B1 & B2 & B3). unfold bump, a2 in *. unf.
           cbn [hp set_hp set_ghosts heap_limit ghost_atoms ghost_pairs ghost_heap atoms u8 pairs push_atom] in *.
           rewrite nlen_app. unfold nlen in *. cbn [length] in *. lia.
        -- cbn [vnode hp set_hp push_atom atoms]. rewrite L4. lia.
        -- rewrite Hden. unfold denote. cbn. unfold atoms_len. rewrite nth_N_app_end.
           rewrite Hh1. cbn [u8 trunc]. rewrite slice_take by exact Hae. rewrite Sb. reflexivity.
    + (* AfterNewBytes *)
      unfold node_of, get_atom. rewrite En. cbn [bind]. unfold buf_bytes. cbn [fst snd]. rewrite Sb. cbn [bind].
      destruct (CLONE_ATOM_LIMIT <? blen buf). { cbn. reflexivity. }
      rewrite E1. replace (ghost_atoms a1 =? 0) with false by lia.
      set (a2 := set_ghosts a1 (ghost_atoms a1 - 1) (ghost_pairs a1) (ghost_heap a1)).
      assert (Hgh : blen buf <= ghost_heap a2).
      { unfold a2. cbn. rewrite G2. unfold u8_len in *. lia. }
      replace (ghost_heap a2 <? blen buf) with false by lia.
      set (a3 := set_ghosts a2 (ghost_atoms a2) (ghost_pairs a2) (ghost_heap a2 - blen buf)).
      assert (Hh3 : hp a3 = trunc (hp a) c) by (unfold a3, a2; cbn; exact Hh1).
      assert (Ha3 : AOK a3).
      { destruct Ha1 as [X Y]. split; [rewrite Hh3; exact Hwt|]. unfold a3, a2 in *. unf. cbn in *. lia. }
      assert (Wb : wf_bytes buf = true) by (eapply slice_wf; eauto).
      pose proof (new_atom_spec a3 buf Ha3 Wb) as NS.
      assert (C3 : atom_count a3 + 1 = atom_count a /\ heap_size a3 + blen buf = heap_size a /\
                   pair_count a3 = pair_count a /\ heap_limit a3 = heap_limit a).
      { destruct Hb1 as (B0 & B1 & B2 & B3). unfold a3, a2 in *. unf. cbn in *. lia. }
      destruct (new_atom a3 buf) as [[a4 n]|er].
      * cbn [fst snd mr_post]. destruct NS as (N1 & N2 & N3 & N4 & N5 & N6 & N7).
        refine (conj N3 (conj _ (conj _ (conj N5 _)))).
        -- rewrite <- Hh3. exact N4.
        -- unfold bump in *. lia.
        -- rewrite N6, Hden. reflexivity.
      * exfalso. destruct Hc as (Q1 & Q2 & Q3 & Q4). destruct NS as [[_ X]|[_ [_ X]]]; unf; lia.
  - (* inline atom *)
    rewrite E1. cbn [fst snd]. apply Before. exact I.
Qed.

(* no allocation creates an atom that starts before a checkpoint's heap mark and ends after it *)
Definition no_straddle (a : alloc) (c : tcheckpoint) : Prop :=
  forall i s e, nth_N (atoms (hp a)) i = Some (s, e) -> s < c_u8s c -> e <= c_u8s c.

Lemma maybe_restore_ok a c x :
  AOK a -> tcp_le c (hp a) -> WF (trunc (hp a) c) -> vnode (hp a) x -> no_straddle a c ->
  exists a' r, maybe_restore_with_node a c x = (a', Ok r) /\ counts a' = counts a /\
    match r with
    | Aborted => a' = a
    | NoReplace => vnode (hp a') x /\ denote (hp a') x = denote (hp a) x
    | Replace n => vnode (hp a') n /\ denote (hp a') n = denote (hp a) x
    end.
Proof.
  intros Ha Hle Hwt Hv Hns. pose proof (maybe_restore_spec a c x Ha Hle Hwt Hv) as H.
  destruct (maybe_restore_with_node a c x) as [a' r]. cbn [fst snd] in H.
  destruct r as [[| n |]|e]; cbn in H.
  - destruct H as (_ & _ & (B0 & B1 & B2 & B3) & V & D). exists a', NoReplace.
    repeat split; try assumption. unfold counts. f_equal; [f_equal|]; lia.
  - destruct H as (_ & _ & (B0 & B1 & B2 & B3) & V & D). exists a', (Replace n).
    repeat split; try assumption. unfold counts. f_equal; [f_equal|]; lia.
  - subst a'. exists a, Aborted. repeat split.
  - exfalso. destruct H as (_ & _ & _ & _ & i & s & e' & _ & En & S1).
    specialize (Hns _ _ _ En). lia.
Qed.
