(* The legacy decoder (list stack in the allocator) and the shadow-tree length probe are the
   abstract stack decoder, step for step. *)
From Clvm Require Import Model.BackRef Proofs.BytesLemmas Proofs.DecoderGeneric Proofs.ClassicProofs
  Proofs.BackRefBasics Proofs.BackRefSpec.
From Coq Require Import Lia ZifyBool ZifyN ZifyNat.
Open Scope N_scope.
Arguments N.add : simpl never.
Arguments N.sub : simpl never.
Arguments N.mul : simpl never.
Arguments N.eqb : simpl never.
Arguments N.ltb : simpl never.
Arguments N.leb : simpl never.
Arguments stack_list : simpl never.

Lemma stack_list_cons x s : stack_list (x :: s) = Cons x (stack_list s).
Proof. reflexivity. Qed.

(* ------------------------------------------------------------------ legacy decoder *)
Definition R_old (a : abs_state) (o : old_state) : Prop :=
  fst o = stack_list (fst a) /\ snd o = snd a.

Lemma old_sim : forall f ops a o bs, R_old a o ->
  rel_out R_old eq (abs_loop f ops a bs) (old_loop f ops o bs).
Proof.
  intros f ops a o bs HR. unfold abs_loop, old_loop.
  apply br_loop_sim; try reflexivity; try exact HR; clear.
  - intros b r [stk c] [values p] [Hv Hp]. cbn in Hv, Hp. subst. unfold rel_step. cbn.
    destruct (read_atom_node b r) as [[a r']|e]; cbn; [|reflexivity].
    split; [split; reflexivity|reflexivity].
  - intros r [stk c] [values p] [Hv Hp]. cbn in Hv, Hp. subst. unfold rel_step. cbn.
    destruct (parse_path r) as [[path r1]|e]; cbn; [|reflexivity].
    unfold backref_lookup.
    destruct (traverse_path path (stack_list stk)) as [[cost t]|e]; cbn; [|reflexivity].
    split; [split; reflexivity|reflexivity].
  - intros [stk c] [values p] [Hv Hp]. cbn in Hv, Hp. subst. unfold rel_cons. cbn.
    destruct stk as [|x [|y rest]]; rewrite ?stack_list_cons; cbn; try reflexivity.
    split; reflexivity.
Qed.

Theorem old_is_abs : forall bs, node_from_stream_backrefs_old bs = de_br_abs bs.
Proof.
  intros bs. unfold node_from_stream_backrefs_old, de_br_abs.
  assert (HR : R_old ([], 0) (nil_s, 0)) by (split; reflexivity).
  pose proof (old_sim (de_fuel bs) [OpSExp] _ _ bs HR) as [H1 H2].
  destruct (abs_loop (de_fuel bs) [OpSExp] ([], 0) bs) as [[stk c] oa].
  destruct (old_loop (de_fuel bs) [OpSExp] (nil_s, 0) bs) as [[values p] oo].
  destruct H1 as [Hv Hp]. cbn in Hv, Hp, H2. subst. unfold rel_status in H2. cbn.
  destruct oa as [ra|ea], oo as [ro|eo]; try contradiction; subst; [|reflexivity].
  destruct stk as [|v s]; reflexivity.
Qed.

(* ------------------------------------------------------------------ length probe *)
Fixpoint shape (t : sexp) : sexp :=
  match t with Atom _ => nil_s | Cons l r => Cons (shape l) (shape r) end.

Lemma follow_shape : forall bits t c,
  follow bits (shape t) c =
    match follow bits t c with Ok (c', t') => Ok (c', shape t') | Err e => Err e end.
Proof.
  induction bits as [|b bits IH]; intros t c; cbn; [reflexivity|].
  destruct t as [a|l r]; cbn; [reflexivity|]. destruct b; apply IH.
Qed.

Lemma traverse_path_shape p t :
  traverse_path p (shape t) =
    match traverse_path p t with Ok (c', t') => Ok (c', shape t') | Err e => Err e end.
Proof.
  unfold traverse_path. destruct (be_value p =? 0); [reflexivity|]. apply follow_shape.
Qed.

Lemma stack_list_shape stk : stack_list (map shape stk) = shape (stack_list stk).
Proof. induction stk as [|x s IH]; [reflexivity|]. cbn [map]. rewrite !stack_list_cons, IH. reflexivity. Qed.

Definition R_probe (a : abs_state) (values : sexp) : Prop := values = stack_list (map shape (fst a)).
(* the probe reports its two "internal error" sites as SerializationError, where the decoders panic *)
Definition E_probe (e1 e2 : errkind) : Prop := e1 = e2 \/ (e1 = Panic 2 /\ e2 = SerializationError).

Lemma probe_atom_ok b r : 
  match read_atom_node b r with
  | Ok (a, r') => shape a = nil_s /\ probe_on_atom b r = (fun values => Ok (Cons nil_s values, r'))
  | Err e => probe_on_atom b r = (fun _ => Err e)
  end.
Proof.
  unfold read_atom_node, parse_atom_node, probe_on_atom.
  destruct (N.eqb_spec b 1) as [->|H1]; [cbn; split; reflexivity|].
  destruct (b =? 128) eqn:E80; [cbn; split; reflexivity|].
  destruct (b <=? 127) eqn:E7f; [cbn; split; reflexivity|]. cbn [orb].
  destruct (decode_size b r) as [[size r0]|e]; cbn; [|reflexivity].
  destruct (take_n size r0) as [[blob r1]|]; cbn; [split; reflexivity|reflexivity].
Qed.

Lemma probe_sim : forall f ops a v bs, R_probe a v ->
  rel_out R_probe E_probe (abs_loop f ops a bs) (probe_loop f ops v bs).
Proof.
  intros f ops a v bs HR. unfold abs_loop, probe_loop.
  apply br_loop_sim; try (left; reflexivity); try exact HR; clear.
  - intros b r [stk c] values Hv. unfold R_probe in Hv. cbn in Hv. subst. unfold rel_step. cbn.
    pose proof (probe_atom_ok b r) as Hp.
    destruct (read_atom_node b r) as [[a r']|e]; cbn.
    + destruct Hp as (Hsh & ->). split; [|reflexivity]. unfold R_probe. cbn [fst map].
      rewrite stack_list_cons, Hsh. reflexivity.
    + rewrite Hp. left; reflexivity.
  - intros r [stk c] values Hv. unfold R_probe in Hv. cbn in Hv. subst. unfold rel_step. cbn.
    unfold probe_on_backref.
    destruct (parse_path r) as [[path r1]|e]; cbn; [|left; reflexivity].
    unfold backref_lookup. rewrite stack_list_shape, traverse_path_shape.
    destruct (traverse_path path (stack_list stk)) as [[cost t]|e]; cbn; [|left; reflexivity].
    split; [|reflexivity]. unfold R_probe. cbn [fst map]. rewrite stack_list_cons, stack_list_shape. reflexivity.
  - intros [stk c] values Hv. unfold R_probe in Hv. cbn in Hv. subst. unfold rel_cons. cbn.
    destruct stk as [|x [|y rest]]; cbn [map]; rewrite ?stack_list_cons; cbn; try (right; split; reflexivity).
    reflexivity.
Qed.

Theorem probe_is_spec : forall bs,
  serialized_length_from_bytes bs =
    match de_br_spec bs with
    | Ok (_, rest) => Ok (blen bs - blen rest)
    | Err e => Err e
    end.
Proof.
  intros bs. pose proof (de_br_abs_spec bs) as Hs. pose proof (de_br_spec_total bs) as Ht.
  unfold serialized_length_from_bytes, de_br_abs in *.
  assert (HR : R_probe ([], 0) nil_s) by reflexivity.
  pose proof (probe_sim (de_fuel bs) [OpSExp] _ _ bs HR) as [H1 H2].
  destruct (abs_loop (de_fuel bs) [OpSExp] ([], 0) bs) as [[stk c] oa].
  destruct (probe_loop (de_fuel bs) [OpSExp] nil_s bs) as [values op].
  unfold R_probe in H1. cbn [fst snd] in H1, H2. unfold abs_finish in Hs. cbn [snd] in Hs. subst values. rewrite <- Hs in Ht. rewrite <- Hs. clear Hs. unfold rel_status in H2.
  destruct oa as [ra|ea], op as [rp|ep]; try contradiction.
  - subst rp. destruct stk as [|v s]; cbn.
    + exfalso. apply (Ht (Panic 1)); [reflexivity|]. right. eexists; reflexivity.
    + reflexivity.
  - destruct H2 as [->|[-> ->]]; [reflexivity|].
    exfalso. apply (Ht (Panic 2)); [reflexivity|]. right. eexists; reflexivity.
Qed.
