(* clvm_tree_to_lazy_node (Model/PyHeap.v): the witness of F3, and correctness when every
   visited object stays alive (stable children, or the repaired algorithm). *)
From Clvm Require Import Model.PyHeap.
From Coq Require Import Lia ZifyBool ZifyN ZifyNat.
Open Scope N_scope.
Arguments N.add : simpl never.
Arguments N.eqb : simpl never.

Lemma max_addr_ge lv a : In a lv -> a <= max_addr lv.
Proof.
  induction lv as [|x r IH]; intros H; [destruct H|].
  cbn [max_addr fold_right]. fold (max_addr r). destruct H as [->|H]; [lia|]. specialize (IH H). lia.
Qed.

Lemma reusing_oracle_valid : py_alloc_valid reusing_oracle.
Proof.
  intros n lv H. unfold reusing_oracle in H.
  destruct (existsb (N.eqb 100) lv) eqn:E.
  - apply max_addr_ge in H. lia.
  - assert (Hc : existsb (N.eqb 100) lv = true) by (apply existsb_exists; exists 100; split; [exact H|apply N.eqb_refl]).
    congruence.
Qed.

Definition f3_witness : pobj := OFresh 1 (Atom [1]) (Cons (Atom [2]) (Atom [3])).

Lemma f3_refuted :
  clvm_tree_to_lazy_node reusing_oracle false f3_witness = Ok (Cons (Atom [1]) (Cons (Atom [1]) (Atom [3]))) /\
  tree_of f3_witness = Cons (Atom [1]) (Cons (Atom [2]) (Atom [3])) /\
  clvm_tree_to_lazy_node reusing_oracle true f3_witness = Ok (tree_of f3_witness).
Proof. vm_compute. repeat split. Qed.

(* ================================================================== correctness *)

Lemma subobjs_self o : In o (subobjs o).
Proof. destruct o; cbn; auto. Qed.

Lemma subobjs_trans : forall o x y, In x (subobjs o) -> In y (subobjs x) -> In y (subobjs o).
Proof.
  induction o as [a b|a l IHl r IHr|a x0 y0]; intros x y Hx Hy.
  - cbn in Hx. destruct Hx as [<-|[]]. exact Hy.
  - cbn [subobjs] in Hx. destruct Hx as [<-|Hx]; [exact Hy|].
    cbn [subobjs]. right. apply in_app_iff. apply in_app_iff in Hx. destruct Hx as [Hx|Hx].
    + left. eapply IHl; eassumption.
    + right. eapply IHr; eassumption.
  - cbn in Hx. destruct Hx as [<-|[]]. exact Hy.
Qed.

Lemma stable_sub : forall o x, stable o = true -> In x (subobjs o) -> stable x = true.
Proof.
  induction o as [a b|a l IHl r IHr|a x0 y0]; intros x Hs Hx.
  - cbn in Hx. destruct Hx as [<-|[]]. exact Hs.
  - cbn [subobjs] in Hx. destruct Hx as [<-|Hx]; [exact Hs|].
    cbn in Hs. apply andb_prop in Hs. destruct Hs as [Hl Hr].
    apply in_app_iff in Hx. destruct Hx as [Hx|Hx]; [apply IHl|apply IHr]; assumption.
  - discriminate.
Qed.

Definition allsub (S : list pobj) : list pobj := flat_map subobjs S.

Lemma allsub_in S o x : In o S -> In x (subobjs o) -> In x (allsub S).
Proof. intros Ho Hx. apply in_flat_map. exists o. split; assumption. Qed.

Lemma allsub_elim S x : In x (allsub S) -> exists o, In o S /\ In x (subobjs o).
Proof. intros H. apply in_flat_map in H. exact H. Qed.

Lemma AC_incl S1 S2 : (forall x, In x (allsub S1) -> In x (allsub S2)) ->
  addr_consistent S2 -> addr_consistent S1.
Proof. intros Hi H o1 o2 H1 H2. apply H; apply Hi; assumption. Qed.

(* inclusion of owner lists lifts to their sub-objects *)
Lemma allsub_mono S1 S2 : (forall o, In o S1 -> exists o', In o' S2 /\ In o (subobjs o')) ->
  forall x, In x (allsub S1) -> In x (allsub S2).
Proof.
  intros Hi x Hx. apply allsub_elim in Hx. destruct Hx as (o & Ho & Hxo).
  destruct (Hi o Ho) as (o' & Ho' & Hoo'). eapply allsub_in; [exact Ho'|]. eapply subobjs_trans; eassumption.
Qed.

Lemma addr_mk_fresh a t : addr_of (mk_fresh a t) = a. Proof. destruct t; reflexivity. Qed.
Lemma tree_mk_fresh a t : tree_of (mk_fresh a t) = t. Proof. destruct t; reflexivity. Qed.
Lemma subobjs_mk_fresh a t : subobjs (mk_fresh a t) = [mk_fresh a t]. Proof. destruct t; reflexivity. Qed.

Lemma in_live a S : In a (flat_map addrs_of S) <-> exists o, In o (allsub S) /\ addr_of o = a.
Proof.
  split.
  - intros H. apply in_flat_map in H. destruct H as (o & Ho & Ha). unfold addrs_of in Ha.
    apply in_map_iff in Ha. destruct Ha as (x & Hx & Hxo). exists x. split; [|exact Hx].
    eapply allsub_in; eassumption.
  - intros (x & Hx & Ha). apply allsub_elim in Hx. destruct Hx as (o & Ho & Hxo).
    apply in_flat_map. exists o. split; [exact Ho|]. unfold addrs_of. apply in_map_iff. exists x. split; assumption.
Qed.

Lemma AC_add_fresh S a t : addr_consistent S -> ~ In a (flat_map addrs_of S) ->
  addr_consistent (mk_fresh a t :: S).
Proof.
  intros H Hn o1 o2 H1 H2 He. unfold allsub in *. cbn [flat_map] in H1, H2.
  rewrite subobjs_mk_fresh in H1, H2. cbn [app In] in H1, H2.
  destruct H1 as [<-|H1]; destruct H2 as [<-|H2].
  - reflexivity.
  - exfalso. apply Hn. apply in_live. exists o2. split; [exact H2|]. rewrite <- He. apply addr_mk_fresh.
  - exfalso. apply Hn. apply in_live. exists o1. split; [exact H1|]. rewrite He. apply addr_mk_fresh.
  - apply H; assumption.
Qed.

Lemma lookup_cons_ne k k' v m : k <> k' -> lookup k ((k', v) :: m) = lookup k m.
Proof. intros H. cbn. destruct (N.eqb_spec k k'); [contradiction|reflexivity]. Qed.
Lemma lookup_cons_eq k v m : lookup k ((k, v) :: m) = Some v.
Proof. cbn. rewrite N.eqb_refl. reflexivity. Qed.

Section Correct.
  Variable oracle : nat -> list N -> N.
  Variable keepalive : bool.
  Variable root : pobj.
  Hypothesis Hvalid : py_alloc_valid oracle.

  Notation loop := (loop oracle keepalive root).
  Definition objs (stack : list witem) : list pobj := flat_map witem_objs stack.

  Definition MapOK (P : list pobj) (m : idmap) : Prop :=
    forall a t, lookup a m = Some t -> exists o, In o (allsub P) /\ addr_of o = a /\ tree_of o = t.

  (* the object stays alive until the call returns: kept by the algorithm, or by the root *)
  Definition Perm (o : pobj) : Prop :=
    keepalive = true \/ (In o (subobjs root) /\ stable o = true).

  Definition keep_with (o : pobj) (keep : list pobj) : list pobj :=
    if keepalive then o :: keep else keep.

  Lemma perm_owner o keep : Perm o -> In o (allsub (root :: keep_with o keep)).
  Proof.
    intros [Hk|[Hr _]]; unfold keep_with.
    - rewrite Hk. eapply allsub_in; [right; left; reflexivity|apply subobjs_self].
    - eapply allsub_in; [left; reflexivity|exact Hr].
  Qed.

  Lemma perm_child o x : Perm o -> In x (subobjs o) -> Perm x.
  Proof.
    intros [Hk|[Hr Hs]] Hx; [left; exact Hk|right]. split; [eapply subobjs_trans; eassumption|eapply stable_sub; eassumption].
  Qed.

  Lemma mapok_lookup P m S o t : MapOK P m -> addr_consistent S ->
    (forall x, In x (allsub P) -> In x (allsub S)) -> In o (allsub S) ->
    lookup (addr_of o) m = Some t -> t = tree_of o.
  Proof.
    intros Hm Hac Hi Ho Hl. destruct (Hm _ _ Hl) as (o' & Ho' & Ha & Ht). subst t.
    apply Hac; [apply Hi; exact Ho'|exact Ho|exact Ha].
  Qed.

  (* what one (possibly skipped) visit of x establishes *)
  Definition Post (x : pobj) (stack : list witem) (m : idmap) (keep : list pobj)
             (m' : idmap) (keep' : list pobj) : Prop :=
    addr_consistent (root :: objs stack ++ keep') /\ MapOK (root :: keep') m' /\
    lookup (addr_of x) m' = Some (tree_of x) /\
    (forall a t, lookup a m = Some t -> lookup a m' = Some t) /\ incl keep keep'.

  Definition VisitSpec (o : pobj) : Prop :=
    forall n stack m keep,
      Perm o -> addr_consistent (root :: o :: objs stack ++ keep) -> MapOK (root :: keep) m ->
      exists c n' m' keep',
        (1 <= c <= 3 * n_nodes (tree_of o))%nat /\
        (forall k, loop (c + k) n (Visit o :: stack) m keep = loop k n' stack m' keep') /\
        Post o stack m keep m' keep'.

  (* a child that is visited only when it was not in the map *)
  Definition OptHyp (x : pobj) (vis : list witem) (stack : list witem) (m : idmap) (keep : list pobj) : Prop :=
    (vis = [Visit x] /\ addr_consistent (root :: x :: objs stack ++ keep)) \/
    (vis = [] /\ lookup (addr_of x) m = Some (tree_of x) /\ addr_consistent (root :: objs stack ++ keep)).

  Definition OptSpec (x : pobj) (vis : list witem) : Prop :=
    forall n stack m keep,
      Perm x -> MapOK (root :: keep) m -> OptHyp x vis stack m keep ->
      exists c n' m' keep',
        (c <= 3 * n_nodes (tree_of x))%nat /\
        (forall k, loop (c + k) n (vis ++ stack) m keep = loop k n' stack m' keep') /\
        Post x stack m keep m' keep'.

  Lemma opt_of_visit x vis : VisitSpec x -> OptSpec x vis.
  Proof.
    intros HV n stack m keep Hp Hm [[-> Hac]|[-> [Hl Hac]]].
    - destruct (HV n stack m keep Hp Hac Hm) as (c & n' & m' & keep' & Hc & Hrun & HP).
      exists c, n', m', keep'. split; [lia|]. split; [exact Hrun|exact HP].
    - exists 0%nat, n, m, keep. split; [lia|]. split; [intros k; reflexivity|].
      split; [exact Hac|]. split; [exact Hm|]. split; [exact Hl|]. split; [auto|apply incl_refl].
  Qed.

  Lemma objs_app a b : objs (a ++ b) = objs a ++ objs b.
  Proof. unfold objs. apply flat_map_app. Qed.

  Lemma loop_build f n id l r stack m keep tl tr :
    lookup l m = Some tl -> lookup r m = Some tr ->
    loop (S f) n (BuildPair id l r :: stack) m keep = loop f n stack ((id, Cons tl tr) :: m) keep.
  Proof. intros Hl Hr. cbn [PyHeap.loop]. rewrite Hl, Hr. reflexivity. Qed.

  (* the part after `.pair`: optional visits of both children, then BuildPair *)
  Lemma children_ok o l r vl vr n stack m keep' :
    OptSpec l vl -> OptSpec r vr ->
    tree_of o = Cons (tree_of l) (tree_of r) ->
    Perm l -> Perm r -> In o (allsub (root :: keep')) ->
    lookup (addr_of o) m = None ->
    addr_consistent (root :: l :: r :: objs stack ++ keep') -> MapOK (root :: keep') m ->
    (vl = [Visit l] \/ (vl = [] /\ lookup (addr_of l) m = Some (tree_of l))) ->
    (vr = [Visit r] \/ (vr = [] /\ lookup (addr_of r) m = Some (tree_of r))) ->
    exists c n' m' keep'',
      (1 <= c <= 3 * (n_nodes (tree_of l) + n_nodes (tree_of r)) + 1)%nat /\
      (forall k, loop (c + k) n (vl ++ vr ++ BuildPair (addr_of o) (addr_of l) (addr_of r) :: stack) m keep'
                 = loop k n' stack m' keep'') /\
      Post o stack m keep' m' keep''.
  Proof.
    intros HL HR Ht Hpl Hpr Hown Hnone Hac Hm Hvl Hvr.
    set (bp := BuildPair (addr_of o) (addr_of l) (addr_of r)).
    assert (Hobjs : objs (vr ++ bp :: stack) = objs vr ++ objs stack) by (rewrite objs_app; reflexivity).
    (* left child *)
    assert (H1 : OptHyp l vl (vr ++ bp :: stack) m keep').
    { destruct Hvl as [->|[-> Hl]]; [left; split; [reflexivity|]|right; split; [reflexivity|split; [exact Hl|]]];
        (eapply AC_incl; [|exact Hac]); apply allsub_mono; intros x Hx; exists x; (split; [|apply subobjs_self]);
        rewrite Hobjs in Hx; cbn [In] in Hx |- *; rewrite !in_app_iff in Hx; rewrite in_app_iff;
        destruct Hvr as [->|[-> _]]; cbn [objs flat_map witem_objs app In] in Hx; tauto. }
    destruct (HL n (vr ++ bp :: stack) m keep' Hpl Hm H1)
      as (c1 & n1 & m1 & keep1 & Hc1 & Hrun1 & (Hac1 & Hm1 & Hl1 & Hmono1 & Hinc1)).
    (* right child *)
    assert (H2 : OptHyp r vr (bp :: stack) m1 keep1).
    { destruct Hvr as [->|[-> Hr]]; [left; split; [reflexivity|]|right; split; [reflexivity|split; [apply Hmono1; exact Hr|]]];
        (eapply AC_incl; [|exact Hac1]); apply allsub_mono; intros x Hx; exists x; (split; [|apply subobjs_self]);
        rewrite Hobjs; unfold bp, objs in Hx |- *; cbn [flat_map witem_objs app In] in Hx |- *; rewrite ?in_app_iff in *; cbn [In] in *; tauto. }
    destruct (HR n1 (bp :: stack) m1 keep1 Hpr Hm1 H2)
      as (c2 & n2 & m2 & keep2 & Hc2 & Hrun2 & (Hac2 & Hm2 & Hl2 & Hmono2 & Hinc2)).
    pose proof (Hmono2 _ _ Hl1) as Hl1'.
    exists (c1 + (c2 + 1))%nat, n2, ((addr_of o, Cons (tree_of l) (tree_of r)) :: m2), keep2.
    split; [lia|]. split.
    { intros k. rewrite <- !Nat.add_assoc. rewrite Hrun1. cbn [app]. rewrite Hrun2.
      change (1 + k)%nat with (S k). unfold bp. apply loop_build; assumption. }
    split; [exact Hac2|]. split.
    { intros a t Hl. destruct (N.eqb_spec a (addr_of o)) as [->|Hne].
      - rewrite lookup_cons_eq in Hl. injection Hl as <-. exists o. split; [|split; [reflexivity|exact Ht]].
        revert Hown. apply allsub_mono. intros x Hx. exists x. split; [|apply subobjs_self].
        cbn [In] in Hx |- *. destruct Hx as [Hx|Hx]; [tauto|]. right. apply Hinc2, Hinc1, Hx.
      - rewrite lookup_cons_ne in Hl by exact Hne. apply Hm2. exact Hl. }
    split; [rewrite lookup_cons_eq, Ht; reflexivity|]. split.
    { intros a t Hl. destruct (N.eqb_spec a (addr_of o)) as [->|Hne]; [congruence|].
      rewrite lookup_cons_ne by exact Hne. apply Hmono2, Hmono1, Hl. }
    intros x Hx. apply Hinc2, Hinc1, Hx.
  Qed.

  Lemma loop_visit_pair f n o stack m keep l r n' :
    lookup (addr_of o) m = None -> (forall a b, o <> OAtom a b) ->
    get_pair oracle root n stack (keep_with o keep) o = Some (l, r, n') ->
    loop (S f) n (Visit o :: stack) m keep =
      match lookup (addr_of l) m, lookup (addr_of r) m with
      | Some tl, Some tr => loop f n' stack ((addr_of o, Cons tl tr) :: m) (keep_with o keep)
      | ld, rd =>
          loop f n' ((match ld with None => [Visit l] | Some _ => [] end) ++
                     (match rd with None => [Visit r] | Some _ => [] end) ++
                     BuildPair (addr_of o) (addr_of l) (addr_of r) :: stack) m (keep_with o keep)
      end.
  Proof.
    intros Hlk Hna Hgp. cbn [PyHeap.loop]. rewrite Hlk. unfold keep_with in *.
    destruct o as [a b|a l0 r0|a x y]; [exfalso; eapply Hna; reflexivity| |]; rewrite Hgp; reflexivity.
  Qed.

  Lemma keep_with_incl o keep : incl keep (keep_with o keep).
  Proof. unfold keep_with. destruct keepalive; [apply incl_tl|]; apply incl_refl. Qed.

  Lemma keep_with_in o keep x : In x (keep_with o keep) -> x = o \/ In x keep.
  Proof. unfold keep_with. destruct keepalive; cbn; intuition. Qed.

  Lemma n_nodes_pos t : (1 <= n_nodes t)%nat.
  Proof. destruct t; cbn; lia. Qed.

  (* the pair case, after `.pair` produced (l, r): shared by stable and fresh objects *)
  Lemma pair_case o l r n n' stack m keep :
    VisitSpec l -> VisitSpec r ->
    (forall a b, o <> OAtom a b) ->
    lookup (addr_of o) m = None ->
    get_pair oracle root n stack (keep_with o keep) o = Some (l, r, n') ->
    tree_of o = Cons (tree_of l) (tree_of r) ->
    Perm o -> Perm l -> Perm r ->
    addr_consistent (root :: o :: objs stack ++ keep) ->
    addr_consistent (root :: l :: r :: objs stack ++ keep_with o keep) ->
    MapOK (root :: keep) m ->
    exists c n'' m' keep',
      (1 <= c <= 3 * n_nodes (tree_of o))%nat /\
      (forall k, loop (c + k) n (Visit o :: stack) m keep = loop k n'' stack m' keep') /\
      Post o stack m keep m' keep'.
  Proof.
    intros HVl HVr Hna Hlk Hgp Ht Hp Hpl Hpr Hac Hac' Hm.
    set (keep' := keep_with o keep) in *.
    assert (Hm' : MapOK (root :: keep') m).
    { intros a t Hl. destruct (Hm a t Hl) as (o' & Ho' & E). exists o'. split; [|exact E].
      revert Ho'. apply allsub_mono. intros x Hx. exists x. split; [|apply subobjs_self].
      cbn [In] in Hx |- *. destruct Hx as [Hx|Hx]; [tauto|]. right. apply keep_with_incl, Hx. }
    assert (Hown : In o (allsub (root :: keep'))) by (apply perm_owner; exact Hp).
    assert (Hi : forall y, In y (allsub (root :: keep')) -> In y (allsub (root :: l :: r :: objs stack ++ keep'))).
    { apply allsub_mono. intros x Hx. exists x. split; [|apply subobjs_self].
      cbn [In] in Hx |- *. rewrite in_app_iff. tauto. }
    assert (Hlv : forall t, lookup (addr_of l) m = Some t -> t = tree_of l).
    { intros t Hl. eapply (mapok_lookup _ _ _ l t Hm' Hac' Hi); [|exact Hl].
      eapply allsub_in; [right; left; reflexivity|apply subobjs_self]. }
    assert (Hrv : forall t, lookup (addr_of r) m = Some t -> t = tree_of r).
    { intros t Hl. eapply (mapok_lookup _ _ _ r t Hm' Hac' Hi); [|exact Hl].
      eapply allsub_in; [right; right; left; reflexivity|apply subobjs_self]. }
    rewrite Ht. cbn [n_nodes].
    destruct (lookup (addr_of l) m) as [tl|] eqn:El; destruct (lookup (addr_of r) m) as [tr|] eqn:Er.
    - (* both children already converted *)
      rewrite (Hlv tl eq_refl) in *. rewrite (Hrv tr eq_refl) in *.
      exists 1%nat, n', ((addr_of o, Cons (tree_of l) (tree_of r)) :: m), keep'.
      split; [lia|]. split.
      { intros k. cbn [Nat.add]. rewrite (loop_visit_pair _ _ _ _ _ _ l r n' Hlk Hna Hgp), El, Er. reflexivity. }
      split.
      { eapply AC_incl; [|exact Hac']. apply allsub_mono. intros x Hx. exists x. split; [|apply subobjs_self].
        cbn [In] in Hx |- *. tauto. }
      split.
      { intros a t Hl. destruct (N.eqb_spec a (addr_of o)) as [->|Hne].
        - rewrite lookup_cons_eq in Hl. injection Hl as <-. exists o. split; [exact Hown|split; [reflexivity|exact Ht]].
        - rewrite lookup_cons_ne in Hl by exact Hne. apply Hm'. exact Hl. }
      split; [rewrite lookup_cons_eq, Ht; reflexivity|]. split; [|apply keep_with_incl].
      intros a t Hl. destruct (N.eqb_spec a (addr_of o)) as [->|Hne]; [congruence|].
      rewrite lookup_cons_ne by exact Hne. exact Hl.
    - destruct (children_ok o l r [] [Visit r] n' stack m keep' (opt_of_visit _ _ HVl) (opt_of_visit _ _ HVr) Ht Hpl Hpr Hown Hlk Hac' Hm')
        as (c & n2 & m2 & keep2 & Hc & Hrun & (P1 & P2 & P3 & P4 & P5)).
      { right. split; [reflexivity|]. rewrite El, (Hlv tl eq_refl). reflexivity. }
      { left. reflexivity. }
      exists (S c), n2, m2, keep2. split; [lia|]. split.
      { intros k. cbn [Nat.add]. rewrite (loop_visit_pair _ _ _ _ _ _ l r n' Hlk Hna Hgp), El, Er. apply Hrun. }
      split; [exact P1|]. split; [exact P2|]. split; [rewrite P3, Ht; reflexivity|]. split; [exact P4|].
      intros x Hx. apply P5, keep_with_incl, Hx.
    - destruct (children_ok o l r [Visit l] [] n' stack m keep' (opt_of_visit _ _ HVl) (opt_of_visit _ _ HVr) Ht Hpl Hpr Hown Hlk Hac' Hm')
        as (c & n2 & m2 & keep2 & Hc & Hrun & (P1 & P2 & P3 & P4 & P5)).
      { left. reflexivity. }
      { right. split; [reflexivity|]. rewrite Er, (Hrv tr eq_refl). reflexivity. }
      exists (S c), n2, m2, keep2. split; [lia|]. split.
      { intros k. cbn [Nat.add]. rewrite (loop_visit_pair _ _ _ _ _ _ l r n' Hlk Hna Hgp), El, Er. apply Hrun. }
      split; [exact P1|]. split; [exact P2|]. split; [rewrite P3, Ht; reflexivity|]. split; [exact P4|].
      intros x Hx. apply P5, keep_with_incl, Hx.
    - destruct (children_ok o l r [Visit l] [Visit r] n' stack m keep' (opt_of_visit _ _ HVl) (opt_of_visit _ _ HVr) Ht Hpl Hpr Hown Hlk Hac' Hm')
        as (c & n2 & m2 & keep2 & Hc & Hrun & (P1 & P2 & P3 & P4 & P5)).
      { left. reflexivity. }
      { left. reflexivity. }
      exists (S c), n2, m2, keep2. split; [lia|]. split.
      { intros k. cbn [Nat.add]. rewrite (loop_visit_pair _ _ _ _ _ _ l r n' Hlk Hna Hgp), El, Er. apply Hrun. }
      split; [exact P1|]. split; [exact P2|]. split; [rewrite P3, Ht; reflexivity|]. split; [exact P4|].
      intros x Hx. apply P5, keep_with_incl, Hx.
  Qed.

  Lemma visit_ok : forall sz o, (n_nodes (tree_of o) <= sz)%nat -> VisitSpec o.
  Proof.
    induction sz as [|sz IH]; intros o Hsz.
    { pose proof (n_nodes_pos (tree_of o)). lia. }
    intros n stack m keep Hp Hac Hm.
    assert (Hi0 : forall y, In y (allsub (root :: keep)) -> In y (allsub (root :: o :: objs stack ++ keep))).
    { apply allsub_mono. intros x Hx. exists x. split; [|apply subobjs_self].
      cbn [In] in Hx |- *. rewrite in_app_iff. tauto. }
    assert (Hoin : In o (allsub (root :: o :: objs stack ++ keep))).
    { eapply allsub_in; [right; left; reflexivity|apply subobjs_self]. }
    pose proof (n_nodes_pos (tree_of o)) as Hpos.
    destruct (lookup (addr_of o) m) as [t|] eqn:Hlk.
    - (* already converted: `continue` *)
      exists 1%nat, n, m, keep. split; [lia|]. split.
      { intros k. cbn [Nat.add PyHeap.loop]. rewrite Hlk. reflexivity. }
      split.
      { eapply AC_incl; [|exact Hac]. apply allsub_mono. intros x Hx. exists x. split; [|apply subobjs_self].
        cbn [In] in Hx |- *. tauto. }
      split; [exact Hm|]. split; [|split; [auto|apply incl_refl]].
      rewrite Hlk. f_equal. eapply (mapok_lookup _ _ _ o t Hm Hac Hi0 Hoin). exact Hlk.
    - destruct o as [a b|a l r|a x y].
      + (* atom *)
        exists 1%nat, n, ((a, Atom b) :: m), (keep_with (OAtom a b) keep). split; [cbn; lia|]. split.
        { intros k. cbn [Nat.add PyHeap.loop addr_of]. cbn [addr_of] in Hlk. rewrite Hlk. reflexivity. }
        split.
        { eapply AC_incl; [|exact Hac]. apply allsub_mono. intros x Hx. 
          cbn [In] in Hx. rewrite in_app_iff in Hx.
          destruct Hx as [Hx|[Hx|Hx]].
          - exists x. split; [left; exact Hx|apply subobjs_self].
          - exists x. split; [right; right; apply in_app_iff; left; exact Hx|apply subobjs_self].
          - apply keep_with_in in Hx. destruct Hx as [->|Hx].
            + exists (OAtom a b). split; [right; left; reflexivity|apply subobjs_self].
            + exists x. split; [right; right; apply in_app_iff; right; exact Hx|apply subobjs_self]. }
        split.
        { intros a' t Hl. cbn [addr_of] in *. destruct (N.eqb_spec a' a) as [->|Hne].
          - rewrite lookup_cons_eq in Hl. injection Hl as <-. exists (OAtom a b).
            split; [apply perm_owner; exact Hp|split; reflexivity].
          - rewrite lookup_cons_ne in Hl by exact Hne. destruct (Hm a' t Hl) as (o' & Ho' & E). exists o'. split; [|exact E].
            revert Ho'. apply allsub_mono. intros x Hx. exists x. split; [|apply subobjs_self].
            cbn [In] in Hx |- *. destruct Hx as [Hx|Hx]; [tauto|]. right. apply keep_with_incl, Hx. }
        split; [cbn [addr_of tree_of]; apply lookup_cons_eq|]. split; [|apply keep_with_incl].
        intros a' t Hl. cbn [addr_of] in Hlk. destruct (N.eqb_spec a' a) as [->|Hne]; [congruence|].
        rewrite lookup_cons_ne by exact Hne. exact Hl.
      + (* children retained by the parent *)
        cbn [tree_of n_nodes] in Hsz.
        assert (Hl_in : In l (subobjs (OStable a l r))) by (cbn [subobjs]; right; apply in_app_iff; left; apply subobjs_self).
        assert (Hr_in : In r (subobjs (OStable a l r))) by (cbn [subobjs]; right; apply in_app_iff; right; apply subobjs_self).
        apply (pair_case (OStable a l r) l r n n stack m keep);
          [apply IH; lia|apply IH; lia|intros a0 b0; discriminate|exact Hlk|reflexivity|reflexivity|exact Hp
          |eapply perm_child; eassumption|eapply perm_child; eassumption|exact Hac| |exact Hm].
        eapply AC_incl; [|exact Hac]. apply allsub_mono. intros x Hx.
        cbn [In] in Hx. rewrite in_app_iff in Hx.
        destruct Hx as [Hx|[Hx|[Hx|[Hx|Hx]]]].
        * exists x. split; [left; exact Hx|apply subobjs_self].
        * subst x. exists (OStable a l r). split; [right; left; reflexivity|exact Hl_in].
        * subst x. exists (OStable a l r). split; [right; left; reflexivity|exact Hr_in].
        * exists x. split; [right; right; apply in_app_iff; left; exact Hx|apply subobjs_self].
        * apply keep_with_in in Hx. destruct Hx as [->|Hx].
          -- exists (OStable a l r). split; [right; left; reflexivity|apply subobjs_self].
          -- exists x. split; [right; right; apply in_app_iff; right; exact Hx|apply subobjs_self].
      + (* children built fresh by this call of `.pair` *)
        assert (Hk : keepalive = true).
        { destruct Hp as [Hk|[_ Hs]]; [exact Hk|discriminate]. }
        cbn [tree_of n_nodes] in Hsz.
        set (o := OFresh a x y) in *.
        assert (Ekw : keep_with o keep = o :: keep) by (unfold keep_with; rewrite Hk; reflexivity).
        set (lv := live root stack (o :: keep) o).
        set (a1 := oracle n lv). set (a2 := oracle (S n) (a1 :: lv)).
        assert (Hgp : get_pair oracle root n stack (keep_with o keep) o = Some (mk_fresh a1 x, mk_fresh a2 y, S (S n))).
        { rewrite Ekw. reflexivity. }
        assert (Hn1 : ~ In a1 lv) by apply Hvalid.
        assert (Hn2 : ~ In a2 (a1 :: lv)) by apply Hvalid.
        (* the owners before the two allocations *)
        set (S0 := root :: objs stack ++ o :: keep).
        assert (HS0lv : forall a', In a' (flat_map addrs_of S0) -> In a' lv).
        { intros a' Ha. apply in_live in Ha. destruct Ha as (z & Hz & E). apply in_live. exists z. split; [|exact E].
          revert Hz. apply allsub_mono. intros w Hw. exists w. split; [|apply subobjs_self].
          unfold S0, objs in *. cbn [In] in *. rewrite ?in_app_iff in *. cbn [In] in *. tauto. }
        assert (HacS0 : addr_consistent S0).
        { eapply AC_incl; [|exact Hac]. apply allsub_mono. intros w Hw. exists w. split; [|apply subobjs_self].
          unfold S0, objs in *. cbn [In] in *. rewrite ?in_app_iff in *. cbn [In] in *. tauto. }
        assert (Hac1 : addr_consistent (mk_fresh a1 x :: S0)).
        { apply AC_add_fresh; [exact HacS0|]. intros Hc. apply Hn1, HS0lv, Hc. }
        assert (Hac2 : addr_consistent (mk_fresh a2 y :: mk_fresh a1 x :: S0)).
        { apply AC_add_fresh; [exact Hac1|]. intros Hc. apply Hn2.
          cbn [flat_map] in Hc. apply in_app_iff in Hc. destruct Hc as [Hc|Hc].
          - left. unfold addrs_of in Hc. rewrite subobjs_mk_fresh in Hc. cbn in Hc. destruct Hc as [Hc|[]].
            rewrite addr_mk_fresh in Hc. exact Hc.
          - right. apply HS0lv, Hc. }
        apply (pair_case o (mk_fresh a1 x) (mk_fresh a2 y) n (S (S n)) stack m keep);
          [apply IH; rewrite tree_mk_fresh; lia|apply IH; rewrite tree_mk_fresh; lia|intros a0 b0; discriminate
          |exact Hlk|exact Hgp|cbn [tree_of]; rewrite !tree_mk_fresh; reflexivity|exact Hp|left; exact Hk|left; exact Hk
          |exact Hac| |exact Hm].
        rewrite Ekw. eapply AC_incl; [|exact Hac2]. apply allsub_mono. intros w Hw. exists w. split; [|apply subobjs_self].
        unfold S0, objs in *. cbn [In] in *. rewrite ?in_app_iff in *. cbn [In] in *. tauto.
  Qed.

  (* the whole conversion *)
  Theorem conversion_correct :
    Perm root -> addr_consistent [root] ->
    clvm_tree_to_lazy_node oracle keepalive root = Ok (tree_of root).
  Proof.
    intros Hp Hac. unfold clvm_tree_to_lazy_node, conv_fuel.
    destruct (visit_ok _ root (le_n _) 0%nat [] [] [] Hp) as (c & n' & m' & keep' & Hc & Hrun & (_ & _ & Hl & _)).
    - eapply AC_incl; [|exact Hac]. apply allsub_mono. intros x Hx. exists root.
      cbn [In objs flat_map app] in Hx. split; [left; reflexivity|].
      destruct Hx as [<-|[<-|[]]]; apply subobjs_self.
    - intros a t Hl. discriminate.
    - replace (3 * n_nodes (tree_of root) + 3)%nat with (c + (3 * n_nodes (tree_of root) + 3 - c))%nat by lia.
      rewrite Hrun. destruct (3 * n_nodes (tree_of root) + 3 - c)%nat eqn:E; [lia|].
      cbn [PyHeap.loop bind]. rewrite Hl. reflexivity.
  Qed.
End Correct.

(* objects whose children stay alive: the algorithm as it is converts them to their own tree *)
Theorem stable_correct : forall oracle root, stable root = true -> addr_consistent [root] ->
  clvm_tree_to_lazy_node oracle false root = Ok (tree_of root).
Proof.
  intros oracle root Hs Hac.
  (* no allocation happens for a stable object; the oracle is irrelevant, so any valid one will do *)
  assert (Hgen : forall orc, py_alloc_valid orc -> clvm_tree_to_lazy_node orc false root = Ok (tree_of root)).
  { intros orc Hv. apply conversion_correct; [exact Hv| |exact Hac]. right. split; [apply subobjs_self|exact Hs]. }
  rewrite <- (Hgen reusing_oracle reusing_oracle_valid).
  (* the result does not depend on the oracle when no fresh object is met *)
  unfold clvm_tree_to_lazy_node.
  assert (Hind : forall f n stack m keep,
            (forall o, In o (flat_map witem_objs stack) -> stable o = true) ->
            loop oracle false root f n stack m keep = loop reusing_oracle false root f n stack m keep).
  { induction f as [|f IH]; intros n stack m keep Hst; [reflexivity|].
    cbn [loop]. destruct stack as [|[o|id li ri] stack']; [reflexivity| |].
    - assert (Ho : stable o = true) by (apply Hst; cbn; left; reflexivity).
      assert (Hst' : forall o', In o' (flat_map witem_objs stack') -> stable o' = true)
        by (intros o' Ho'; apply Hst; cbn; right; exact Ho').
      destruct (lookup (addr_of o) m); [apply IH; exact Hst'|].
      destruct o as [a b|a l r|a x y]; [apply IH; exact Hst'| |discriminate].
      cbn [get_pair]. cbn in Ho. apply andb_prop in Ho. destruct Ho as [Hl Hr].
      destruct (lookup (addr_of l) m); destruct (lookup (addr_of r) m); apply IH; intros o' Ho';
        cbn [app flat_map witem_objs In] in Ho'; try (apply Hst'; exact Ho');
        repeat (destruct Ho' as [<-|Ho']; [assumption|]); try (apply Hst'; exact Ho').
    - destruct (lookup li m); [|reflexivity]. destruct (lookup ri m); [|reflexivity].
      apply IH. intros o' Ho'. apply Hst. cbn. exact Ho'. }
  rewrite Hind; [reflexivity|]. intros o [<-|[]]. exact Hs.
Qed.

(* the repaired algorithm converts every object, under every valid oracle *)
Theorem fixed_correct : forall oracle root, py_alloc_valid oracle -> addr_consistent [root] ->
  clvm_tree_to_lazy_node oracle true root = Ok (tree_of root).
Proof.
  intros oracle root Hv Hac. apply conversion_correct; [exact Hv|left; reflexivity|exact Hac].
Qed.

Lemma single_consistent o : subobjs o = [o] -> addr_consistent [o].
Proof.
  intros E o1 o2 H1 H2 _. unfold allsub in *. cbn [flat_map] in H1, H2. rewrite E in H1, H2.
  cbn in H1, H2. destruct H1 as [<-|[]]. destruct H2 as [<-|[]]. reflexivity.
Qed.

Lemma f3_witness_consistent : addr_consistent [f3_witness].
Proof. apply single_consistent. reflexivity. Qed.

