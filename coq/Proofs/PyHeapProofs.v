(* clvm_tree_to_lazy_node (Model/PyHeap.v): the witness of F3, and correctness when every
   visited object stays alive (stable children, or the repaired algorithm). *)
From Clvm Require Import Model.PyHeap.
From Coq Require Import Lia ZifyBool ZifyN ZifyNat.
Open Scope N_scope.
Arguments N.add : simpl never.
Arguments N.eqb : simpl never.

Lemma max_addr_ge lv a : In a lv -> a <= max_addr lv.
Proof.
  induction lv as [|x r IH]; intros H; [destruct H|].
  cbn [max_addr fold_right]. fold (max_addr r). destruct H as [->|H]; [lia|]. specialize (IH H). lia.
Qed.

Lemma reusing_oracle_valid : py_alloc_valid reusing_oracle.
Proof.
  intros n lv H. unfold reusing_oracle in H.
  destruct (existsb (N.eqb 100) lv) eqn:E.
  - apply max_addr_ge in H. lia.
  - assert (Hc : existsb (N.eqb 100) lv = true) by (apply existsb_exists; exists 100; split; [exact H|apply N.eqb_refl]).
    congruence.
Qed.

Definition f3_witness : pobj := OFresh 1 (Atom [1]) (Cons (Atom [2]) (Atom [3])).

Lemma f3_refuted :
  clvm_tree_to_lazy_node reusing_oracle false f3_witness = Ok (Cons (Atom [1]) (Cons (Atom [1]) (Atom [3]))) /\
  tree_of f3_witness = Cons (Atom [1]) (Cons (Atom [2]) (Atom [3])) /\
  clvm_tree_to_lazy_node reusing_oracle true f3_witness = Ok (tree_of f3_witness).
Proof. vm_compute. repeat split. Qed.
