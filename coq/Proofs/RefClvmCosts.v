(* C01: every literal of the reference's cost table (the rc_ definitions of Model/RefClvm.v) equals the constant
   the translator re-reads from the Rust source on this run (Gen/OpConsts.v from more_ops.rs,
   core_ops.rs, op_utils.rs; Gen/RunConsts.v from run_program.rs, traverse_path.rs). Retuning a
   constant in the source makes this file fail to compile. rc_substr (1) has no named constant
   in the source (more_ops.rs: `let cost = if new_cost_model {NEW_SUBSTR_COST} else {1}`). *)
From Clvm Require Import Model.RefClvm Gen.OpConsts Gen.RunConsts.
Open Scope N_scope.

Definition costs_match : Prop :=
  rc_if = src_IF_COST /\ rc_cons = src_CONS_COST /\ rc_first = src_FIRST_COST /\
  rc_rest = src_REST_COST /\ rc_listp = src_LISTP_COST /\
  rc_malloc_per_byte = src_MALLOC_COST_PER_BYTE /\
  rc_arith_base = src_ARITH_BASE_COST /\ rc_arith_per_byte = src_ARITH_COST_PER_BYTE /\
  rc_arith_per_arg = src_ARITH_COST_PER_ARG /\
  rc_log_base = src_LOG_BASE_COST /\ rc_log_per_byte = src_LOG_COST_PER_BYTE /\
  rc_log_per_arg = src_LOG_COST_PER_ARG /\
  rc_grs_base = src_GRS_BASE_COST /\ rc_grs_per_byte = src_GRS_COST_PER_BYTE /\
  rc_eq_base = src_EQ_BASE_COST /\ rc_eq_per_byte = src_EQ_COST_PER_BYTE /\
  rc_gr_base = src_GR_BASE_COST /\ rc_gr_per_byte = src_GR_COST_PER_BYTE /\
  rc_divmod_base = src_DIVMOD_BASE_COST /\ rc_divmod_per_byte = src_DIVMOD_COST_PER_BYTE /\
  rc_div_base = src_DIV_BASE_COST /\ rc_div_per_byte = src_DIV_COST_PER_BYTE /\
  rc_sha256_base = src_SHA256_BASE_COST /\ rc_sha256_per_arg = src_SHA256_COST_PER_ARG /\
  rc_sha256_per_byte = src_SHA256_COST_PER_BYTE /\
  rc_mul_base = src_MUL_BASE_COST /\ rc_mul_per_op = src_MUL_COST_PER_OP /\
  rc_mul_linear_per_byte = src_MUL_LINEAR_COST_PER_BYTE /\
  rc_mul_square_divider = src_MUL_SQUARE_COST_PER_BYTE_DIVIDER /\
  rc_strlen_base = src_STRLEN_BASE_COST /\ rc_strlen_per_byte = src_STRLEN_COST_PER_BYTE /\
  rc_path_base = src_TRAVERSE_BASE_COST /\ rc_path_per_leg = src_TRAVERSE_COST_PER_BIT /\
  rc_path_per_zero_byte = src_TRAVERSE_COST_PER_ZERO_BYTE /\
  rc_concat_base = src_CONCAT_BASE_COST /\ rc_concat_per_arg = src_CONCAT_COST_PER_ARG /\
  rc_concat_per_byte = src_CONCAT_COST_PER_BYTE /\
  rc_bool_base = src_BOOL_BASE_COST /\ rc_bool_per_arg = src_BOOL_COST_PER_ARG /\
  rc_ashift_base = src_ASHIFT_BASE_COST /\ rc_ashift_per_byte = src_ASHIFT_COST_PER_BYTE /\
  rc_lshift_base = src_LSHIFT_BASE_COST /\ rc_lshift_per_byte = src_LSHIFT_COST_PER_BYTE /\
  rc_lognot_base = src_LOGNOT_BASE_COST /\ rc_lognot_per_byte = src_LOGNOT_COST_PER_BYTE /\
  rc_apply = src_APPLY_COST /\ rc_quote = src_QUOTE_COST /\ rc_op = src_OP_COST /\
  rc_guard = src_GUARD_COST.

Lemma costs_literal : costs_match.
Proof. unfold costs_match. repeat split. Qed.
