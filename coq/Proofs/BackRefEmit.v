(* Format level of C17 / C19: any emitter that writes, at each node, either the node's structure
   or a back-reference whose path is valid for the decoder's stack at that point, produces bytes
   that decode to the tree; if back-references are only used when they are not longer than the
   classic form of the node, the output is never longer than the classic serialization. *)
From Clvm Require Import Model.BackRef Proofs.BytesLemmas Proofs.DecoderGeneric Proofs.ClassicProofs
  Proofs.ClassicWriter Proofs.BackRefBasics Proofs.BackRefSpec Proofs.BackRefOld Proofs.BackRefMain.
From Coq Require Import Lia ZifyBool ZifyN ZifyNat.
Open Scope N_scope.
Arguments N.add : simpl never.
Arguments N.sub : simpl never.
Arguments N.mul : simpl never.
Arguments N.eqb : simpl never.
Arguments N.ltb : simpl never.
Arguments N.leb : simpl never.
Arguments stack_list : simpl never.

Lemma decode_size_128 r : decode_size 128 r = Ok (0, r).
Proof. reflexivity. Qed.

(* parse_path reads a path exactly as parse_atom reads an atom *)
Lemma parse_atom_ptr_eq b r : parse_atom_ptr b r = parse_atom_node b r.
Proof.
  unfold parse_atom_ptr, parse_atom_node.
  destruct (N.eqb_spec b 1) as [->|H1]; [reflexivity|].
  destruct (N.eqb_spec b 128) as [->|H2].
  - rewrite decode_size_128. cbn [bind]. unfold take_n.
    destruct (N.leb_spec 0 (blen r)); [reflexivity|lia].
  - reflexivity.
Qed.

(* [enc P stk t bs]: bs encodes t for a decoder whose stack is stk; P restricts where a
   back-reference may be used *)
Inductive enc (P : sexp -> bytes -> Prop) : list sexp -> sexp -> bytes -> Prop :=
| enc_atom stk b e : wf_bytes b = true -> ser_atom b = Some e -> enc P stk (Atom b) e
| enc_pair stk l r el er :
    enc P stk l el -> enc P (l :: stk) r er -> enc P stk (Cons l r) (0xff :: el ++ er)
| enc_ref stk t path pe c :
    wf_bytes path = true -> ser_atom path = Some pe ->
    traverse_path path (stack_list stk) = Ok (c, t) -> P t pe ->
    enc P stk t (0xfe :: pe).

Lemma enc_weaken (P Q : sexp -> bytes -> Prop) : (forall t pe, P t pe -> Q t pe) ->
  forall stk t bs, enc P stk t bs -> enc Q stk t bs.
Proof.
  intros HPQ stk t bs He. induction He as [stk b e Hw Hs|stk l r el er _ IHl _ IHr|stk t path pe c Hw Hs Ht HP].
  - apply enc_atom; assumption.
  - apply enc_pair; assumption.
  - eapply enc_ref; eauto.
Qed.

Theorem emit_ok_rec : forall P stk t bs, enc P stk t bs ->
  forall f rest, (length bs < f)%nat -> parse_br f (bs ++ rest) stk = Ok (t, rest).
Proof.
  intros P stk t bs He. induction He as [stk b e Hw Hs|stk l r el er _ IHl _ IHr|stk t path pe c Hw Hs Ht HP];
    intros f rest Hf.
  - destruct f as [|f]; [lia|]. cbn [parse_br].
    destruct (parse_ser_atom b e rest Hw Hs) as (first & tl & -> & Hne & Hp).
    destruct (N.eqb_spec first 255); [lia|]. destruct (N.eqb_spec first 254); [lia|].
    unfold read_atom_node. rewrite Hp. reflexivity.
  - destruct f as [|f]; [lia|]. cbn [length] in Hf. rewrite app_length in Hf.
    cbn [parse_br app]. rewrite N.eqb_refl. rewrite <- app_assoc.
    rewrite (IHl f (er ++ rest)) by lia. cbn [bind].
    rewrite (IHr f rest) by lia. reflexivity.
  - destruct f as [|f]; [lia|]. cbn [parse_br app].
    change (254 =? 255) with false. change (254 =? 254) with true. cbv iota.
    destruct (parse_ser_atom path pe rest Hw Hs) as (first & tl & Heq & Hne & Hp).
    rewrite Heq. cbn [parse_path]. rewrite parse_atom_ptr_eq, Hp. cbn [bind].
    unfold backref_lookup. rewrite Ht. reflexivity.
Qed.

(* the emitter theorem: bytes emitted against the empty initial stack decode to the tree,
   consuming exactly those bytes — in the grammar, in both decoders, and in the length probe *)
Theorem emit_ok : forall P t bs rest, enc P [] t (bs) ->
  de_br_spec (bs ++ rest) = Ok (t, rest) /\
  snd (node_from_stream_backrefs (bs ++ rest)) = Ok (t, rest) /\
  snd (node_from_stream_backrefs_old (bs ++ rest)) = Ok (t, rest) /\
  serialized_length_from_bytes (bs ++ rest) = Ok (blen bs).
Proof.
  intros P t bs rest He.
  assert (Hs : de_br_spec (bs ++ rest) = Ok (t, rest)).
  { unfold de_br_spec. apply (emit_ok_rec P [] t bs He). rewrite app_length. lia. }
  split; [exact Hs|]. split; [|split].
  - pose proof (new_refines_spec (bs ++ rest)) as Hn. rewrite Hs in Hn. unfold same_result in Hn.
    destruct (snd (node_from_stream_backrefs (bs ++ rest))) as [x|e]; [|contradiction]. now subst.
  - rewrite old_refines_spec. exact Hs.
  - rewrite probe_is_spec, Hs. f_equal. unfold blen. rewrite app_length. lia.
Qed.

(* "never grows": a back-reference is only used where it is not longer than the classic form *)
Definition short_ok (t : sexp) (pe : bytes) : Prop :=
  exists e, ser t = Some e /\ 1 + blen pe <= blen e.

Theorem enc_short_never_grows : forall stk t bs, enc short_ok stk t bs ->
  forall e, ser t = Some e -> blen bs <= blen e.
Proof.
  intros stk t bs He. induction He as [stk b e0 Hw Hs|stk l r el er _ IHl _ IHr|stk t path pe c Hw Hs Ht HP];
    intros e Hse.
  - cbn in Hse. rewrite Hs in Hse. injection Hse as <-. lia.
  - cbn in Hse. destruct (ser l) as [a|]; [|discriminate]. destruct (ser r) as [c|]; [|discriminate].
    injection Hse as <-. specialize (IHl a eq_refl). specialize (IHr c eq_refl).
    unfold blen in *. cbn [length]. rewrite !app_length. lia.
  - destruct HP as (e' & He' & Hle). rewrite Hse in He'. injection He' as <-.
    unfold blen in *. cbn [length]. lia.
Qed.
