(* The wheel's pure-Python helpers (Model/PyCodec.v) against the classic codec model
   (Model/Classic.v), the integer encoding (Model/IntEnc.v) and the recursive tree hash. *)
From Clvm Require Import Model.PyCodec Proofs.BytesLemmas Proofs.DecoderGeneric Proofs.ClassicAtoms
  Proofs.ClassicProofs Proofs.ClassicWriter Proofs.IntEncBasics.
From Coq Require Import Lia ZifyBool ZifyN ZifyNat.
Ltac Zify.zify_post_hook ::= Z.div_mod_to_equations.
Open Scope N_scope.
Arguments N.add : simpl never.
Arguments N.sub : simpl never.
Arguments N.mul : simpl never.
Arguments N.eqb : simpl never.
Arguments N.ltb : simpl never.
Arguments N.leb : simpl never.

(* ================================================================== serializer *)

Definition of_opt (o : option bytes) : pyres bytes :=
  match o with Some e => PyOk e | None => PyRaise BlobTooLong end.

Lemma py_size_blob_spec a0 size : size <> 0 -> ~ (size = 1 /\ a0 < 0x80) ->
  py_size_blob size = of_opt (atom_prefix a0 size).
Proof.
  intros H0 H1. unfold py_size_blob, atom_prefix. rewrite !N.shiftr_0_r, !land_ff.
  destruct (N.eqb_spec size 0); [contradiction|].
  destruct (N.eqb_spec size 1) as [E1|E1]; cbn [andb].
  - destruct (N.ltb_spec a0 128); [exfalso; apply H1; split; assumption|].
    subst size. reflexivity.
  - destruct (size <? 64); [reflexivity|]. destruct (size <? 8192); [reflexivity|].
    destruct (size <? 1048576); [reflexivity|]. destruct (size <? 134217728); [reflexivity|].
    destruct (size <? 17179869184); reflexivity.
Qed.

Lemma py_atom_to_bytes_spec b : py_atom_to_bytes b = of_opt (ser_atom b).
Proof.
  unfold ser_atom. destruct b as [|x [|y r]].
  - reflexivity.
  - unfold py_atom_to_bytes, PY_MAX_SINGLE_BYTE. cbn [atom_0]. change (blen [x]) with 1.
    destruct (N.leb_spec x 127) as [Hx|Hx].
    + unfold atom_prefix. change (1 =? 0) with false. change (1 =? 1) with true.
      destruct (N.ltb_spec x 128); [reflexivity|lia].
    + rewrite (py_size_blob_spec x 1) by lia.
      destruct (atom_prefix x 1); reflexivity.
  - unfold py_atom_to_bytes. cbn [atom_0].
    assert (Hl : blen (x :: y :: r) <> 0 /\ blen (x :: y :: r) <> 1) by (unfold blen; cbn [length]; lia).
    rewrite (py_size_blob_spec x) by lia.
    destruct (atom_prefix x _); reflexivity.
Qed.

Lemma py_ser_loop_spec : forall fuel vs out, (steps vs < fuel)%nat ->
  py_ser_loop fuel vs out =
    match ser_list vs with Some s => PyOk (out ++ s) | None => PyRaise BlobTooLong end.
Proof.
  induction fuel as [|f IH]; intros vs out Hf; [lia|].
  destruct vs as [|[b|l r] vs]; cbn [py_ser_loop].
  - cbn. rewrite app_nil_r. reflexivity.
  - rewrite py_atom_to_bytes_spec. cbn [ser_list ser].
    destruct (ser_atom b) as [e|]; cbn [of_opt pybind]; [|reflexivity].
    rewrite IH by (cbn in Hf; lia).
    destruct (ser_list vs) as [s|]; [|reflexivity]. rewrite app_assoc. reflexivity.
  - rewrite IH by (cbn [steps n_nodes] in Hf |- *; lia).
    cbn [ser_list ser]. destruct (ser l) as [a|]; [|reflexivity].
    destruct (ser r) as [c|]; [|reflexivity]. destruct (ser_list vs) as [s|]; [|reflexivity].
    unfold PY_CONS_BOX_MARKER. rewrite <- !app_assoc. cbn [app]. rewrite <- !app_assoc. reflexivity.
Qed.

Theorem py_sexp_to_bytes_spec : forall t, py_sexp_to_bytes t = of_opt (ser t).
Proof.
  intros t. unfold py_sexp_to_bytes. rewrite py_ser_loop_spec by (cbn; lia).
  cbn [ser_list]. destruct (ser t) as [e|]; [|reflexivity]. cbn. rewrite app_nil_r. reflexivity.
Qed.

(* ================================================================== casts: int_from_bytes *)

Lemma testbit7_sweep : forallb (fun x => Bool.eqb (N.testbit x 7) (128 <=? x)) (nrange 256) = true.
Proof. vm_compute. reflexivity. Qed.

Lemma testbit7 x : x < 256 -> N.testbit x 7 = (128 <=? x).
Proof.
  intros Hx. pose proof (proj1 (forallb_forall _ _) testbit7_sweep x (nrange_in 256 x ltac:(lia))) as H.
  apply eqb_prop in H. exact H.
Qed.

Theorem py_int_from_bytes_spec : forall b, wf_bytes b = true -> py_int_from_bytes b = int_of_bytes b.
Proof.
  intros b Hwf. unfold py_int_from_bytes. destruct b as [|x r]; [reflexivity|].
  assert (E : blen (x :: r) =? 0 = false) by (unfold blen; cbn [length]; lia). rewrite E.
  unfold py_from_bytes_signed, int_of_bytes. rewrite be_nat_value. rewrite testbit7; [reflexivity|].
  cbn in Hwf. apply andb_prop in Hwf. unfold wf_byte in Hwf. lia.
Qed.

(* ================================================================== curry / uncurry *)

Fixpoint fixed_rec (args : list sexp) : sexp :=
  match args with
  | [] => Atom [1]
  | a :: r => py_list3 (Atom PY_C_KW) (Cons (Atom PY_Q_KW) a) (fixed_rec r)
  end.

Lemma py_fixed_args_rec args : py_fixed_args args = fixed_rec args.
Proof.
  unfold py_fixed_args.
  rewrite <- (fold_left_rev_right (fun arg fixed => py_list3 (Atom PY_C_KW) (Cons (Atom PY_Q_KW) arg) fixed)).
  rewrite rev_involutive. induction args as [|a r IH]; cbn [fold_right fixed_rec]; [reflexivity|].
  rewrite IH. reflexivity.
Qed.

Lemma py_at_nil v : py_at v [] = Some v.
Proof. reflexivity. Qed.

Lemma uncurry_loop_fixed : forall args items fuel, (length args < fuel)%nat ->
  py_uncurry_loop fuel (Some (fixed_rec args)) items = PyOk (Some (items ++ args)).
Proof.
  induction args as [|a r IH]; intros items fuel Hf; (destruct fuel as [|f]; [cbn in Hf; lia|]).
  - cbn. rewrite app_nil_r. reflexivity.
  - cbn [fixed_rec py_uncurry_loop py_list3 py_ne negb py_at py_f py_r].
    cbn [PY_C_KW PY_Q_KW PY_NULL bytes_eqb]. cbn [N.eqb andb negb orb].
    change (4 =? 4) with true. change (1 =? 1) with true. cbn [andb negb orb]. rewrite ?py_at_nil.
    rewrite IH by (cbn in Hf; lia). rewrite <- app_assoc. reflexivity.
Qed.

Lemma fixed_rec_nodes args : (length args < n_nodes (fixed_rec args))%nat.
Proof. induction args as [|a r IH]; cbn [length fixed_rec py_list3 n_nodes]; lia. Qed.

Theorem py_uncurry_curry : forall m args, py_uncurry (py_curry m args) = PyOk (m, Some args).
Proof.
  intros m args. unfold py_uncurry, py_curry. rewrite py_fixed_args_rec.
  cbn [py_list3 py_ne negb py_at py_f py_r PY_A_KW PY_Q_KW PY_NULL bytes_eqb].
  change (2 =? 2) with true. change (1 =? 1) with true. cbn [andb negb orb]. rewrite ?py_at_nil.
  rewrite uncurry_loop_fixed.
  - reflexivity.
  - pose proof (fixed_rec_nodes args). cbn [n_nodes py_list3]. lia.
Qed.

Section CurryHashProofs.
  Variable H : bytes -> bytes.
  Hypothesis H_len : forall x, length (H x) = 32%nat.

  Lemma treehash_len t : length (treehash H t) = 32%nat.
  Proof. destruct t; cbn; apply H_len. Qed.

  Lemma curried_values_fixed args :
    py_curried_values_tree_hash H (map (treehash H) args) = treehash H (fixed_rec args).
  Proof.
    induction args as [|a r IH]; [reflexivity|].
    cbn [map py_curried_values_tree_hash fixed_rec py_list3 treehash]. rewrite IH. reflexivity.
  Qed.

  Theorem py_curry_hash_spec : forall m args,
    py_curry_hash H (treehash H m) (map (treehash H) args) = PyOk (treehash H (py_curry m args)).
  Proof.
    intros m args. unfold py_curry_hash, py_curry_and_treehash.
    assert (E : forallb (fun arg => Nat.eqb (length arg) 32) (map (treehash H) args) = true).
    { apply forallb_forall. intros x Hx. apply in_map_iff in Hx. destruct Hx as (t & <- & _).
      rewrite treehash_len. reflexivity. }
    rewrite E, curried_values_fixed. unfold py_curry. rewrite py_fixed_args_rec. reflexivity.
  Qed.
End CurryHashProofs.

(* ================================================================== stream decoder *)

(* Python exceptions as outcomes of the shared decoder skeleton *)
Definition exc_err (e : pyexc) : errkind :=
  match e with
  | BadEncoding | BlobTooLarge => SerializationError
  | PopEmpty n => Panic n
  | PyOutOfFuel => OutOfFuel
  | _ => Unsupported
  end.

Definition to_res {A} (r : pyres A) : res A :=
  match r with PyOk a => Ok a | PyRaise e => Err (exc_err e) end.

Definition py_ra (limit : option N) (b : N) (r : bytes) : res (sexp * bytes) :=
  to_res (pybind (py_atom_from_stream limit b r) (fun ar => PyOk (Atom (fst ar), snd ar))).

(* sexp_from_stream is the ParseOp machine of Classic.v with _atom_from_stream as atom reader *)
Lemma py_de_loop_de_loop limit : forall f ops vals bs,
  to_res (py_de_loop limit f ops vals bs) = de_loop (py_ra limit) Cons f ops vals bs.
Proof.
  induction f as [|f IH]; intros ops vals bs; [reflexivity|].
  cbn [py_de_loop de_loop]. destruct ops as [|[|] ops'].
  - destruct vals; reflexivity.
  - destruct bs as [|b r]; [reflexivity|]. unfold PY_CONS_BOX_MARKER.
    destruct (b =? 255); [apply IH|].
    unfold py_ra. destruct (py_atom_from_stream limit b r) as [[a r']|e]; cbn [pybind to_res bind fst snd]; [apply IH|reflexivity].
  - destruct vals as [|v2 [|v1 vs]]; try reflexivity. apply IH.
Qed.

(* the bit-counting loop computes leading_ones and the masked first byte *)
Definition count_bits_ok (b : N) : bool :=
  if (0x80 <? b) && (b <? 0xff) then
    let '(k, b') := py_count_bits 9 b 0x80 0 in
    (k =? leading_ones8 b) && (b' =? N.land b (N.shiftr 0xff k)) && (1 <=? k) && (k <=? 7) &&
    negb (N.land b 0x80 =? 0) && (Bool.eqb (k =? 7) (b =? 0xfe))
  else true.
Lemma count_bits_sweep : forallb count_bits_ok (nrange 256) = true.
Proof. vm_compute. reflexivity. Qed.

Lemma count_bits_spec b : 0x80 < b < 0xff ->
  py_count_bits 9 b 0x80 0 = (leading_ones8 b, N.land b (N.shiftr 0xff (leading_ones8 b))) /\
  1 <= leading_ones8 b <= 7 /\ N.land b 0x80 <> 0 /\ (leading_ones8 b = 7 <-> b = 0xfe).
Proof.
  intros Hb. pose proof (proj1 (forallb_forall _ _) count_bits_sweep b (nrange_in 256 b ltac:(lia))) as H.
  unfold count_bits_ok in H.
  assert (E : (0x80 <? b) && (b <? 0xff) = true) by (apply andb_true_intro; split; lia).
  rewrite E in H. destruct (py_count_bits 9 b 128 0) as [k b'].
  rewrite !andb_true_iff, negb_true_iff in H. destruct H as [[[[[H1 H2] H3] H4] H5] H6].
  apply N.eqb_eq in H1, H2. apply eqb_prop in H6. subst k b'.
  split; [reflexivity|]. split; [lia|]. split; [lia|]. lia.
Qed.

(* the atom reader: equal to the Rust one when the 7-byte class is rejected (repaired code), and
   on every first byte other than 0xfe for the unrepaired code *)
Lemma py_ra_agrees limit b r : b < 256 -> b <> 255 ->
  (limit = Some 6 \/ (limit = None /\ b <> 254)) ->
  py_ra limit b r = read_atom_node b r.
Proof.
  intros Hb Hff Hlim. unfold py_ra, read_atom_node, parse_atom_node, py_atom_from_stream, PY_MAX_SINGLE_BYTE.
  destruct (N.eqb_spec b 128) as [->|N80]; [reflexivity|].
  destruct (N.leb_spec b 127) as [Hle|Hgt].
  { destruct (N.eqb_spec b 1) as [->|N1]; reflexivity. }
  destruct (N.eqb_spec b 1) as [->|N1]; [lia|].
  destruct (count_bits_spec b ltac:(lia)) as (Ecb & Hk & Hland & H7).
  rewrite Ecb. set (k := leading_ones8 b) in *.
  unfold decode_size, decode_size_with_offset. fold k.
  destruct (N.eqb_spec (N.land b 128) 0); [contradiction|].
  destruct (N.leb_spec 8 k); [lia|].
  assert (Etk : (if 1 <? k then take_exact (N.to_nat (k - 1)) r else Some ([], r)) = take_exact (N.to_nat (k - 1)) r).
  { destruct (N.ltb_spec 1 k); [reflexivity|]. replace (k - 1) with 0 by lia. reflexivity. }
  rewrite Etk.
  assert (Elim : match limit with Some m => m <? k | None => false end = (6 <? k)).
  { destruct Hlim as [->|[-> Hne]]; [reflexivity|]. destruct (N.ltb_spec 6 k); [|reflexivity]. lia. }
  rewrite Elim. destruct (N.ltb_spec 6 k).
  - destruct (take_exact _ r) as [[more rest']|]; reflexivity.
  - destruct (take_exact _ r) as [[more rest']|]; [|reflexivity].
    rewrite acc_size_be.
    cbn [bind]. destruct (17179869184 <=? _); [reflexivity|]. cbn [bind].
    destruct (take_n _ rest') as [[blob rest'']|]; reflexivity.
Qed.

Lemma py_ra_shrinks limit b r a r' : py_ra limit b r = Ok (a, r') -> (length r' <= length r)%nat.
Proof.
  unfold py_ra, py_atom_from_stream.
  destruct (b =? 128); [cbn; intros H; injection H as _ <-; lia|].
  destruct (b <=? PY_MAX_SINGLE_BYTE); [cbn; intros H; injection H as _ <-; lia|].
  destruct (py_count_bits 9 b 128 0) as [k b'].
  destruct (match limit with Some m => m <? k | None => false end); [discriminate|].
  destruct (if 1 <? k then take_exact (N.to_nat (k - 1)) r else Some ([], r)) as [[more rest']|] eqn:Et; [|discriminate].
  destruct (17179869184 <=? _); [discriminate|].
  destruct (take_n _ rest') as [[blob rest'']|] eqn:En; [|discriminate].
  cbn. intros H. injection H as _ <-.
  apply take_n_spec in En. destruct En as [En _]. subst rest'.
  destruct (1 <? k).
  - apply take_exact_spec in Et. destruct Et as [Et _]. subst r. rewrite !app_length. lia.
  - injection Et as _ Et. subst r. rewrite app_length. lia.
Qed.

Lemma py_ra_err limit b r e : py_ra limit b r = Err e -> e = SerializationError.
Proof.
  unfold py_ra, py_atom_from_stream.
  destruct (b =? 128); [discriminate|]. destruct (b <=? PY_MAX_SINGLE_BYTE); [discriminate|].
  destruct (py_count_bits 9 b 128 0) as [k b'].
  destruct (match limit with Some m => m <? k | None => false end); [cbn; intros H; injection H as <-; reflexivity|].
  destruct (if 1 <? k then take_exact (N.to_nat (k - 1)) r else Some ([], r)) as [[more rest']|]; [|cbn; intros H; injection H as <-; reflexivity].
  destruct (17179869184 <=? _); [cbn; intros H; injection H as <-; reflexivity|].
  destruct (take_n _ rest') as [[blob rest'']|]; [discriminate|cbn; intros H; injection H as <-; reflexivity].
Qed.

Lemma py_ra_err_good limit b r e : py_ra limit b r = Err e -> ~ bad_err e.
Proof. intros H. apply py_ra_err in H. subst e. intros [Hc|[n Hc]]; discriminate. Qed.

Theorem py_sexp_from_stream_parse limit bs :
  to_res (py_sexp_from_stream limit bs) = parse_rec (py_ra limit) Cons (S (length bs)) bs.
Proof.
  unfold py_sexp_from_stream. rewrite py_de_loop_de_loop.
  apply de_loop_refines; [apply py_ra_shrinks|apply py_ra_err_good].
Qed.

(* two atom readers that agree on every byte satisfying [p] give the same parse of inputs made of
   such bytes *)
Section ParseExt.
  Variable p : N -> bool.
  Variables ra1 ra2 : N -> bytes -> res (sexp * bytes).
  Hypothesis RA_eq : forall b r, p b = true -> b <> 255 -> ra1 b r = ra2 b r.
  Hypothesis RA_suffix : forall b r a r', ra2 b r = Ok (a, r') -> forallb p r = true -> forallb p r' = true.

  Lemma parse_rec_ext : forall f bs, forallb p bs = true ->
    parse_rec ra1 Cons f bs = parse_rec ra2 Cons f bs /\
    (forall v rest, parse_rec ra2 Cons f bs = Ok (v, rest) -> forallb p rest = true).
  Proof.
    induction f as [|f IH]; intros bs Hp; cbn [parse_rec]; [split; [reflexivity|discriminate]|].
    destruct bs as [|b r]; [split; [reflexivity|discriminate]|].
    cbn [forallb] in Hp. apply andb_prop in Hp. destruct Hp as [Hb Hr].
    destruct (N.eqb_spec b 255) as [->|Hne].
    - destruct (IH r Hr) as [E1 S1]. rewrite E1.
      destruct (parse_rec ra2 Cons f r) as [[l r1]|e1] eqn:P1; cbn [bind]; [|split; [reflexivity|discriminate]].
      specialize (S1 l r1 eq_refl). destruct (IH r1 S1) as [E2 S2]. rewrite E2.
      destruct (parse_rec ra2 Cons f r1) as [[rt r2]|e2] eqn:P2; cbn [bind]; [|split; [reflexivity|discriminate]].
      split; [reflexivity|]. intros v rest H. injection H as _ <-. apply (S2 rt r2 eq_refl).
    - split; [apply RA_eq; assumption|]. intros v rest H. eapply RA_suffix; eassumption.
  Qed.
End ParseExt.

Lemma forallb_suffix (p : N -> bool) a b : forallb p (a ++ b) = true -> forallb p b = true.
Proof. rewrite forallb_app. intros H. apply andb_prop in H. tauto. Qed.

Lemma read_atom_node_suffix p b r a r' : read_atom_node b r = Ok (a, r') -> forallb p r = true -> forallb p r' = true.
Proof.
  unfold read_atom_node, parse_atom_node.
  destruct (b =? 1); [cbn; intros H; injection H as _ <-; tauto|].
  destruct (b =? 128); [cbn; intros H; injection H as _ <-; tauto|].
  destruct (b <=? 127); [cbn; intros H; injection H as _ <-; tauto|].
  unfold decode_size, decode_size_with_offset.
  destruct (N.land b 128 =? 0); [discriminate|]. destruct (8 <=? leading_ones8 b); [discriminate|].
  destruct (take_exact _ r) as [[more rest']|] eqn:Et; [|discriminate].
  destruct (6 <? _); [discriminate|]. destruct (_ <=? _); [discriminate|]. cbn [bind].
  destruct (take_n _ rest') as [[blob rest'']|] eqn:En; [|discriminate]. cbn [bind].
  intros H Hp. injection H as _ <-.
  apply take_exact_spec in Et. destruct Et as [-> _]. apply forallb_suffix in Hp.
  apply take_n_spec in En. destruct En as [-> _]. apply forallb_suffix in Hp. exact Hp.
Qed.

Definition not_fe_byte (b : N) : bool := (b <? 256) && negb (b =? 254).

Theorem py_decoder_to_res : forall limit bs,
  (limit = Some 6 /\ wf_bytes bs = true) \/ (limit = None /\ forallb not_fe_byte bs = true) ->
  to_res (py_sexp_from_stream limit bs) = node_from_stream bs.
Proof.
  intros limit bs Hc. rewrite py_sexp_from_stream_parse, node_from_stream_parse. unfold parse.
  destruct Hc as [[-> Hwf]|[-> Hnf]].
  - apply (parse_rec_ext wf_byte (py_ra (Some 6)) read_atom_node); [| |exact Hwf].
    + intros b r Hb Hne. apply py_ra_agrees; [unfold wf_byte in Hb; lia|assumption|left; reflexivity].
    + intros b r a r'. apply read_atom_node_suffix.
  - apply (parse_rec_ext not_fe_byte (py_ra None) read_atom_node); [| |exact Hnf].
    + intros b r Hb Hne. unfold not_fe_byte in Hb. apply andb_prop in Hb. destruct Hb as [H1 H2].
      apply negb_true_iff in H2.
      apply py_ra_agrees; [lia|assumption|right; split; [reflexivity|lia]].
    + intros b r a r'. apply read_atom_node_suffix.
Qed.

(* the statement of C28 for the decoder: same accept set, same tree, same remaining input *)
Definition py_agrees {A} (p : pyres A) (r : res A) : Prop :=
  match p, r with
  | PyOk x, Ok y => x = y
  | PyRaise e, Err _ => e = BadEncoding \/ e = BlobTooLarge
  | _, _ => False
  end.

Lemma parse_rec_py_err limit : forall f bs e,
  parse_rec (py_ra limit) Cons f bs = Err e -> e = OutOfFuel \/ e = SerializationError.
Proof.
  induction f as [|f IH]; intros bs e H; cbn [parse_rec] in H.
  - injection H as <-. left. reflexivity.
  - destruct bs as [|b r]; [injection H as <-; right; reflexivity|].
    destruct (b =? 255).
    + destruct (parse_rec (py_ra limit) Cons f r) as [[l r1]|e1] eqn:P1; cbn [bind] in H.
      * destruct (parse_rec (py_ra limit) Cons f r1) as [[rt r2]|e2] eqn:P2; cbn [bind] in H; [discriminate|].
        injection H as <-. eapply IH; eassumption.
      * injection H as <-. eapply IH; eassumption.
    + right. eapply py_ra_err; eassumption.
Qed.

Theorem py_decoder_agrees : forall limit bs,
  (limit = Some 6 /\ wf_bytes bs = true) \/ (limit = None /\ forallb not_fe_byte bs = true) ->
  py_agrees (py_sexp_from_stream limit bs) (node_from_stream bs).
Proof.
  intros limit bs Hc. pose proof (py_decoder_to_res limit bs Hc) as E.
  pose proof (py_sexp_from_stream_parse limit bs) as Ep.
  unfold py_agrees. destruct (py_sexp_from_stream limit bs) as [x|e] eqn:Epy; cbn [to_res] in E, Ep.
  - rewrite <- E. reflexivity.
  - rewrite <- E. symmetry in Ep.
    destruct (parse_rec_py_err _ _ _ _ Ep) as [Hf|Hs].
    + exfalso. rewrite Hf in Ep.
      apply (parse_rec_fuel (py_ra limit) Cons (py_ra_shrinks limit) (py_ra_err_good limit) (S (length bs)) bs); [lia|exact Ep].
    + destruct e; cbn in Hs; try discriminate; tauto.
Qed.

(* F4: the unrepaired decoder accepts a 7-byte size field *)
Definition f4_witness : bytes := [0xfe; 0; 0; 0; 0; 0; 1; 0x61].

Lemma py_decoder_refuted :
  wf_bytes f4_witness = true /\
  py_sexp_from_stream None f4_witness = PyOk (Atom [0x61], []) /\
  node_from_stream f4_witness = Err SerializationError /\
  py_sexp_from_stream (Some 6) f4_witness = PyRaise BadEncoding.
Proof. vm_compute. repeat split. Qed.
