From Clvm Require Import Model.Bstr Model.Varint Proofs.BytesLemmas.
From Coq Require Import Lia ZifyBool ZifyN ZifyNat.
Ltac Zify.zify_post_hook ::= Z.div_mod_to_equations.
Open Scope Z_scope.

(* ---------- finite sweeps (complete enumerations, lifted with forallb_forall) ---------- *)

Definition zrange (n : nat) : list Z := map Z.of_nat (seq 0 n).
Lemma zrange_in n x : 0 <= x < Z.of_nat n -> In x (zrange n).
Proof.
  intros H. unfold zrange. apply in_map_iff. exists (Z.to_nat x). split; [lia|].
  apply in_seq. lia.
Qed.

Definition prefix_of (k : Z) : Z := 256 - 2 ^ (8 - k).

Definition byte_ok (b : Z) : bool :=
  let k := leading_ones b in
  (0 <=? k) && (k <=? 8) && (Bool.eqb (k =? 8) (b =? 255)) &&
  (if k <? 8 then (prefix_of k <=? b) && (b <? prefix_of k + 2 ^ (7 - k))
                  && (Z.land b (Z.shiftl 1 (7 - k) - 1) =? b - prefix_of k)
   else true).
Lemma byte_sweep : forallb byte_ok (zrange 256) = true.
Proof. vm_compute. reflexivity. Qed.

Lemma leading_ones_spec b : 0 <= b < 256 ->
  let k := leading_ones b in
  0 <= k <= 8 /\ (k = 8 <-> b = 255) /\
  (k < 8 -> prefix_of k <= b < prefix_of k + 2 ^ (7 - k) /\
            Z.land b (Z.shiftl 1 (7 - k) - 1) = b - prefix_of k).
Proof.
  intros Hb. pose proof (proj1 (forallb_forall _ _) byte_sweep b (zrange_in 256 b Hb)) as H.
  unfold byte_ok in H. cbv zeta in *.
  rewrite !andb_true_iff in H. destruct H as [[[H0 H1] H2] H3].
  apply eqb_prop in H2.
  split; [lia|]. split; [lia|]. intros Hk.
  destruct (leading_ones b <? 8) eqn:E8; [|lia].
  rewrite !andb_true_iff in H3. lia.
Qed.

Definition prefix_ok (kb : Z * Z) : bool :=
  let (k, h) := kb in
  if h <? 2 ^ (7 - k) then
    (Z.lor (first_prefix k) h =? prefix_of k + h) && (leading_ones (prefix_of k + h) =? k)
  else true.
Definition kh_pairs : list (Z * Z) := list_prod (zrange 8) (zrange 128).
Lemma prefix_sweep : forallb prefix_ok kh_pairs = true.
Proof. vm_compute. reflexivity. Qed.

Lemma prefix_spec k h : 0 <= k < 8 -> 0 <= h < 2 ^ (7 - k) ->
  Z.lor (first_prefix k) h = prefix_of k + h /\ leading_ones (prefix_of k + h) = k.
Proof.
  intros Hk Hh.
  assert (h < 128).
  { assert (2 ^ (7 - k) <= 2 ^ 7) by (apply Z.pow_le_mono_r; lia). change (2^7) with 128 in *. lia. }
  assert (Hin : In (k, h) kh_pairs) by (apply in_prod; apply zrange_in; lia).
  pose proof (proj1 (forallb_forall _ _) prefix_sweep _ Hin) as H0.
  unfold prefix_ok in H0. destruct (h <? 2 ^ (7 - k)) eqn:E; [|lia].
  apply andb_prop in H0. lia.
Qed.

(* ---------- shifts as arithmetic ---------- *)

Lemma lor_shift8 a b : 0 <= a -> 0 <= b < 256 -> Z.lor (Z.shiftl a 8) b = a * 256 + b.
Proof.
  intros Ha Hb. rewrite Z.shiftl_mul_pow2 by lia. change (2 ^ 8) with 256.
  assert (Hl : Z.land (a * 256) b = 0); [|rewrite <- Z.lxor_lor by exact Hl; symmetry; now apply Z.add_nocarry_lxor].
  apply Z.bits_inj'. intros n Hn.
  rewrite Z.land_spec, Z.bits_0.
  destruct (Z.ltb_spec n 8) as [Hlt|Hge].
  - change 256 with (2 ^ 8). rewrite Z.mul_pow2_bits_low by lia. reflexivity.
  - rewrite andb_comm. destruct (Z.eq_dec b 0) as [->|Hnz]; [now rewrite Z.bits_0|].
    rewrite Z.bits_above_log2; [reflexivity|lia|].
    assert (Z.log2 b < 8) by (apply Z.log2_lt_pow2; lia). lia.
Qed.

Lemma fold_lor_value extra : wf_bytes extra = true -> forall a, 0 <= a ->
  fold_left (fun acc b => Z.lor (Z.shiftl acc 8) (Z.of_N b)) extra a
  = a * 256 ^ Z.of_nat (length extra) + Z.of_N (be_value extra).
Proof.
  induction extra as [|x r IH]; intros Hwf a Ha.
  - cbn. lia.
  - rewrite wf_bytes_cons in Hwf. apply andb_prop in Hwf. destruct Hwf as [Hx Hr].
    unfold wf_byte in Hx. cbn [fold_left]. rewrite lor_shift8 by lia.
    rewrite IH by (assumption || lia).
    unfold be_value. cbn [be_acc length]. rewrite (be_acc_shift (256 * 0 + x)%N).
    rewrite Nat2Z.inj_succ, Z.pow_succ_r by lia. fold (be_value r).
    rewrite N2Z.inj_add, N2Z.inj_mul, N2Z.inj_pow. rewrite nat_N_Z. 
    change (Z.of_N 256) with 256. lia.
Qed.

(* tail_bytes k u is the big-endian k-byte representation of u mod 256^k *)
Lemma tail_bytes_length k u : length (tail_bytes k u) = k.
Proof. induction k as [|k IH]; cbn; [reflexivity|now rewrite IH]. Qed.

Lemma tail_bytes_wf k u : wf_bytes (tail_bytes k u) = true.
Proof.
  induction k as [|k IH]; [reflexivity|]. cbn [tail_bytes]. rewrite wf_bytes_cons, IH, andb_true_r.
  unfold wf_byte. lia.
Qed.

Lemma tail_bytes_value k u : 0 <= u ->
  Z.of_N (be_value (tail_bytes k u)) = u mod 256 ^ Z.of_nat k.
Proof.
  intros Hu. induction k as [|k IH].
  - cbn. now rewrite Z.mod_1_r.
  - cbn [tail_bytes]. unfold be_value. cbn [be_acc]. rewrite be_acc_shift.
    rewrite tail_bytes_length. rewrite N2Z.inj_add, N2Z.inj_mul, N2Z.inj_pow, nat_N_Z, IH.
    rewrite N.mul_0_r, N.add_0_l. rewrite Z2N.id by (apply Z.mod_pos_bound; lia).
    rewrite Z.shiftr_div_pow2 by lia.
    rewrite Nat2Z.inj_succ, Z.pow_succ_r by lia.
    replace (2 ^ (Z.of_nat k * 8)) with (256 ^ Z.of_nat k)
      by (rewrite Z.mul_comm, Z.pow_mul_r by lia; reflexivity).
    change (Z.of_N 256) with 256.
    assert (0 < 256 ^ Z.of_nat k) by (apply Z.pow_pos_nonneg; lia).
    set (P := 256 ^ Z.of_nat k) in *.
    rewrite (Z.mul_comm 256 P). rewrite Z.rem_mul_r by lia. lia.
Qed.

(* a k-byte string is determined by its big-endian value *)
Lemma be_value_inj a b : wf_bytes a = true -> wf_bytes b = true -> length a = length b ->
  be_value a = be_value b -> a = b.
Proof.
  revert b. induction a as [|x a IH] using rev_ind; intros b Ha Hb Hl Hv.
  - destruct b; [reflexivity|discriminate].
  - destruct b as [|y b] using rev_ind; [rewrite app_length in Hl; cbn in Hl; lia|]. clear IHb.
    rewrite wf_bytes_app in Ha, Hb. apply andb_prop in Ha, Hb.
    destruct Ha as [Ha Hx], Hb as [Hb Hy]. cbn in Hx, Hy. rewrite andb_true_r in Hx, Hy.
    unfold wf_byte in Hx, Hy. rewrite !app_length in Hl. cbn in Hl.
    unfold be_value in Hv. rewrite !be_acc_app in Hv. cbn [be_acc] in Hv. fold (be_value a) in Hv. fold (be_value b) in Hv.
    assert (be_value a = be_value b /\ x = y) as [H1 ->] by lia.
    f_equal. apply IH; try assumption. lia.
Qed.

(* ---------- size classes ---------- *)

Definition bound (k : Z) : Z := 2 ^ (6 + 7 * k).

Lemma fits_class_spec k v : 0 <= k ->
  fits_class k v = true <-> - bound k <= v < bound k.
Proof.
  intros Hk. unfold fits_class, class_min, class_max, total_value_bits, bound.
  rewrite Z.shiftl_1_l. replace (7 + 7 * k - 1) with (6 + 7 * k) by lia.
  rewrite negb_true_iff, orb_false_iff. lia.
Qed.

Lemma find_class_spec n k0 v k : 0 <= k0 ->
  find_class n k0 v = Some k <->
  (k0 <= k < k0 + Z.of_nat n /\ fits_class k v = true /\
   forall j, k0 <= j < k -> fits_class j v = false).
Proof.
  revert k0. induction n as [|n IH]; intros k0 Hk0; cbn [find_class].
  - split; [discriminate|]. lia.
  - destruct (fits_class k0 v) eqn:E.
    + split.
      * intros H; inversion H; subst. split; [lia|]. split; [assumption|]. intros; lia.
      * intros (Hr & Hf & Hm). destruct (Z.eq_dec k0 k) as [->|Hne]; [reflexivity|].
        rewrite Hm in E by lia. discriminate.
    + rewrite IH by lia. split.
      * intros (Hr & Hf & Hm). split; [lia|]. split; [assumption|].
        intros j Hj. destruct (Z.eq_dec j k0) as [->|]; [assumption|]. apply Hm. lia.
      * intros (Hr & Hf & Hm). assert (k <> k0) by (intros ->; congruence).
        split; [lia|]. split; [assumption|]. intros j Hj. apply Hm. lia.
Qed.

Lemma bound_mono j k : 0 <= j <= k -> bound j <= bound k.
Proof. intros H. unfold bound. apply Z.pow_le_mono_r; lia. Qed.

Lemma fits_mono j k v : 0 <= j <= k -> fits_class j v = true -> fits_class k v = true.
Proof.
  intros H Hj. rewrite fits_class_spec in * by lia. pose proof (bound_mono j k H). lia.
Qed.

(* find_class returns the least fitting class *)
Lemma find_class_least v k : find_class 8 0 v = Some k <->
  (0 <= k < 8 /\ - bound k <= v < bound k /\ (k = 0 \/ ~ (- bound (k - 1) <= v < bound (k - 1)))).
Proof.
  rewrite find_class_spec by lia. split.
  - intros (Hr & Hf & Hm). split; [lia|]. rewrite fits_class_spec in Hf by lia. split; [assumption|].
    destruct (Z.eq_dec k 0) as [|Hne]; [now left|right].
    specialize (Hm (k - 1) ltac:(lia)). intros Hc. rewrite <- fits_class_spec in Hc by lia. congruence.
  - intros (Hr & Hf & Hm). split; [lia|]. rewrite fits_class_spec by lia. split; [assumption|].
    intros j Hj. destruct (fits_class j v) eqn:E; [|reflexivity]. exfalso.
    destruct Hm as [->|Hm]; [lia|]. apply Hm. rewrite <- fits_class_spec by lia.
    apply (fits_mono j); [lia|assumption].
Qed.

Lemma find_class_none_gen n k0 v :
  find_class n k0 v = None <-> forall j, k0 <= j < k0 + Z.of_nat n -> fits_class j v = false.
Proof.
  revert k0. induction n as [|n IH]; intros k0; cbn [find_class].
  - split; [intros _ j Hj; lia|reflexivity].
  - destruct (fits_class k0 v) eqn:E.
    + split; [discriminate|]. intros H. rewrite H in E by lia. discriminate.
    + rewrite IH. split; intros H j Hj.
      * destruct (Z.eq_dec j k0) as [->|]; [assumption|]. apply H. lia.
      * apply H. lia.
Qed.

Lemma find_class_none v : find_class 8 0 v = None <-> ~ (- bound 7 <= v < bound 7).
Proof.
  rewrite find_class_none_gen. split.
  - intros H Hc. rewrite <- fits_class_spec in Hc by lia. rewrite H in Hc by lia. discriminate.
  - intros Hn j Hj. destruct (fits_class j v) eqn:E; [|reflexivity]. exfalso. apply Hn.
    rewrite <- fits_class_spec by lia. apply (fits_mono j); [lia|assumption].
Qed.

(* ---------- arithmetic characterisation of read_varint ---------- *)

Definition sext (k u : Z) : Z := if u >=? 2 ^ (6 + 7 * k) then u - 2 ^ (7 + 7 * k) else u.

Definition size_ok (strict : bool) (k v : Z) : bool :=
  if strict then match find_class 8 0 v with Some k' => k' =? k | None => false end else true.

Definition payload (k : Z) (b0 : N) (extra : bytes) : Z :=
  (Z.of_N b0 - prefix_of k) * 256 ^ k + Z.of_N (be_value extra).

Ltac kcases k :=
  let H := fresh in
  assert (H : k = 0 \/ k = 1 \/ k = 2 \/ k = 3 \/ k = 4 \/ k = 5 \/ k = 6 \/ k = 7) by lia;
  destruct H as [H|[H|[H|[H|[H|[H|[H|H]]]]]]]; rewrite H in *.

Lemma payload_range k b0 extra :
  0 <= k < 8 -> wf_bytes extra = true -> length extra = Z.to_nat k ->
  prefix_of k <= Z.of_N b0 < prefix_of k + 2 ^ (7 - k) ->
  0 <= payload k b0 extra < 2 ^ (7 + 7 * k).
Proof.
  intros Hk Hwf Hlen Hb. unfold payload.
  pose proof (be_value_bound extra Hwf) as HB. rewrite Hlen in HB.
  assert (HB' : 0 <= Z.of_N (be_value extra) < 256 ^ k).
  { split; [lia|]. apply N2Z.inj_lt in HB. rewrite N2Z.inj_pow, Z_nat_N, Z2N.id in HB by lia. exact HB. }
  clear HB Hlen Hwf. set (E := Z.of_N (be_value extra)) in *. set (b := Z.of_N b0) in *.
  unfold prefix_of in *.
  kcases k; cbn in Hb, HB' |- *; lia.
Qed.

Lemma sext_range k u : 0 <= k < 8 -> 0 <= u < 2 ^ (7 + 7 * k) -> - bound k <= sext k u < bound k.
Proof.
  intros Hk Hu. unfold sext, bound.
  replace (7 + 7 * k) with (Z.succ (6 + 7 * k)) in * by lia. rewrite Z.pow_succ_r in * by lia.
  destruct (u >=? 2 ^ (6 + 7 * k)) eqn:E; lia.
Qed.

Lemma read_char strict b0 r : wf_bytes (b0 :: r) = true ->
  read_varint strict (b0 :: r) =
    let k := leading_ones (Z.of_N b0) in
    if 8 <=? k then VErr else
    match take_exact (Z.to_nat k) r with
    | None => VErr
    | Some (extra, rest) =>
        let v := sext k (payload k b0 extra) in
        if size_ok strict k v then VOk v rest else VErr
    end.
Proof.
  intros Hwf. rewrite wf_bytes_cons in Hwf. apply andb_prop in Hwf. destruct Hwf as [Hb0 Hr].
  unfold wf_byte in Hb0. unfold read_varint. cbv zeta.
  pose proof (leading_ones_spec (Z.of_N b0) ltac:(lia)) as Hs. cbv zeta in Hs.
  set (k := leading_ones (Z.of_N b0)) in *. destruct Hs as (Hk & H255 & Hlt).
  destruct (Z.leb_spec 8 k) as [H8|H8]; [reflexivity|].
  destruct (Hlt H8) as [Hrange Hland]. clear Hlt.
  destruct (take_exact (Z.to_nat k) r) as [[extra rest]|] eqn:Et; [|reflexivity].
  apply take_exact_spec in Et. destruct Et as [-> Hlen].
  rewrite wf_bytes_app in Hr. apply andb_prop in Hr. destruct Hr as [Hex Hrest].
  rewrite Hland. rewrite fold_lor_value by (assumption || lia).
  rewrite Hlen, Z2Nat.id by lia. fold (payload k b0 extra).
  unfold total_value_bits. rewrite !Z.shiftl_1_l. replace (7 + 7 * k - 1) with (6 + 7 * k) by lia.
  fold (sext k (payload k b0 extra)).
  pose proof (payload_range k b0 extra ltac:(lia) Hex Hlen Hrange) as Hp.
  pose proof (sext_range k _ ltac:(lia) Hp) as Hv.
  set (v := sext k (payload k b0 extra)) in *.
  destruct strict; cbn [size_ok]; [|reflexivity].
  unfold varint_size. destruct (find_class 8 0 v) as [k'|] eqn:Ef.
  - destruct (Z.eqb_spec k' k) as [->|Hne].
    + rewrite Z.eqb_refl. reflexivity.
    + destruct (Z.eqb_spec (k' + 1) (k + 1)); [lia|reflexivity].
  - exfalso. apply find_class_none in Ef. apply Ef.
    pose proof (bound_mono k 7 ltac:(lia)). lia.
Qed.

Theorem read_no_panic strict bs : wf_bytes bs = true -> read_varint strict bs <> VPanic.
Proof.
  intros Hwf. destruct bs as [|b0 r]; [discriminate|]. rewrite read_char by assumption. cbv zeta.
  destruct (8 <=? _); [discriminate|]. destruct (take_exact _ _) as [[? ?]|]; [|discriminate].
  destruct (size_ok _ _ _); discriminate.
Qed.

Theorem read_ff strict r : read_varint strict (255%N :: r) = VErr.
Proof. reflexivity. Qed.

(* consumed prefix: exactly 1 + leading_ones(first byte) bytes *)
Theorem read_consumes strict bs v rest : wf_bytes bs = true ->
  read_varint strict bs = VOk v rest ->
  exists b0 extra, bs = b0 :: extra ++ rest /\
    Z.of_nat (length extra) = leading_ones (Z.of_N b0) /\ leading_ones (Z.of_N b0) < 8.
Proof.
  intros Hwf H. destruct bs as [|b0 r]; [discriminate|]. rewrite read_char in H by assumption.
  cbv zeta in H. destruct (Z.leb_spec 8 (leading_ones (Z.of_N b0))) as [|Hk]; [discriminate|].
  destruct (take_exact _ r) as [[extra rest']|] eqn:Et; [|discriminate].
  destruct (size_ok _ _ _); [|discriminate]. inversion H; subst.
  apply take_exact_spec in Et. destruct Et as [-> Hlen]. exists b0, extra.
  rewrite wf_bytes_cons in Hwf. apply andb_prop in Hwf. destruct Hwf as [Hb0 _]. unfold wf_byte in Hb0.
  pose proof (leading_ones_spec (Z.of_N b0) ltac:(lia)) as Hs. cbv zeta in Hs.
  split; [reflexivity|]. lia.
Qed.

Theorem strict_implies_lenient bs v rest : wf_bytes bs = true ->
  read_varint true bs = VOk v rest -> read_varint false bs = VOk v rest.
Proof.
  intros Hwf H. destruct bs as [|b0 r]; [discriminate|]. rewrite read_char in * by assumption.
  cbv zeta in *. destruct (8 <=? _); [discriminate|].
  destruct (take_exact _ r) as [[extra rest']|]; [|discriminate].
  destruct (size_ok true _ _); [|discriminate]. exact H.
Qed.

(* ---------- arithmetic characterisation of write_varint ---------- *)

Definition uval (k v : Z) : Z := if v <? 0 then v + 2 ^ (7 + 7 * k) else v.

Lemma write_char v :
  write_varint v =
    match find_class 8 0 v with
    | None => None
    | Some k => Some (Z.to_N (prefix_of k + uval k v / 256 ^ k) :: tail_bytes (Z.to_nat k) (uval k v))
    end.
Proof.
  unfold write_varint. destruct (find_class 8 0 v) as [k|] eqn:Ef; [|reflexivity].
  apply find_class_least in Ef. destruct Ef as (Hk & Hfit & _).
  unfold total_value_bits. rewrite Z.shiftl_1_l. fold (uval k v).
  assert (Hu : 0 <= uval k v < 2 ^ (7 + 7 * k)).
  { unfold uval, bound in *. replace (7 + 7 * k) with (Z.succ (6 + 7 * k)) by lia.
    rewrite Z.pow_succ_r by lia. destruct (v <? 0) eqn:E; lia. }
  rewrite Z.shiftr_div_pow2 by lia.
  replace (2 ^ (k * 8)) with (256 ^ k) by (rewrite Z.mul_comm, Z.pow_mul_r by lia; reflexivity).
  assert (Hh : 0 <= uval k v / 256 ^ k < 2 ^ (7 - k)).
  { set (u := uval k v) in *. clearbody u. clear Hfit. kcases k; cbn in Hu |- *; lia. }
  assert (Hh' : 2 ^ (7 - k) <= 256).
  { change 256 with (2 ^ 8). apply Z.pow_le_mono_r; lia. }
  rewrite Z.mod_small by lia.
  destruct (prefix_spec k _ ltac:(lia) Hh) as [-> _]. reflexivity.
Qed.

Lemma uval_sext k v : 0 <= k < 8 -> - bound k <= v < bound k -> sext k (uval k v) = v.
Proof.
  intros Hk Hv. unfold sext, uval, bound in *.
  replace (7 + 7 * k) with (Z.succ (6 + 7 * k)) in * by lia. rewrite Z.pow_succ_r in * by lia.
  destruct (v <? 0) eqn:E1; destruct (_ >=? _) eqn:E2; lia.
Qed.

Lemma sext_uval k u : 0 <= k < 8 -> 0 <= u < 2 ^ (7 + 7 * k) -> uval k (sext k u) = u.
Proof.
  intros Hk Hu. unfold sext, uval.
  replace (7 + 7 * k) with (Z.succ (6 + 7 * k)) in * by lia. rewrite Z.pow_succ_r in * by lia.
  destruct (u >=? _) eqn:E1; destruct (_ <? 0) eqn:E2; lia.
Qed.

Lemma uval_range k v : 0 <= k < 8 -> - bound k <= v < bound k -> 0 <= uval k v < 2 ^ (7 + 7 * k).
Proof.
  intros Hk Hv. unfold uval, bound in *.
  replace (7 + 7 * k) with (Z.succ (6 + 7 * k)) in * by lia. rewrite Z.pow_succ_r in * by lia.
  destruct (v <? 0) eqn:E1; lia.
Qed.

Lemma high_range k u : 0 <= k < 8 -> 0 <= u < 2 ^ (7 + 7 * k) -> 0 <= u / 256 ^ k < 2 ^ (7 - k).
Proof. intros Hk Hu. kcases k; cbn in Hu |- *; lia. Qed.

Theorem write_total v : (- 2 ^ 55 <= v < 2 ^ 55) <-> write_varint v <> None.
Proof.
  rewrite write_char. change (2 ^ 55) with (bound 7). split.
  - intros H. destruct (find_class 8 0 v) eqn:E; [discriminate|].
    apply find_class_none in E. contradiction.
  - intros H. destruct (find_class 8 0 v) eqn:E; [|congruence].
    apply find_class_least in E. destruct E as (Hk & Hf & _).
    pose proof (bound_mono z 7 ltac:(lia)). lia.
Qed.

Lemma write_wf v e : write_varint v = Some e -> wf_bytes e = true.
Proof.
  rewrite write_char. destruct (find_class 8 0 v) as [k|] eqn:Ef; [|discriminate].
  intros H; inversion H; subst; clear H. apply find_class_least in Ef. destruct Ef as (Hk & Hf & _).
  rewrite wf_bytes_cons, tail_bytes_wf, andb_true_r. unfold wf_byte.
  pose proof (uval_range k v Hk Hf) as Hu. pose proof (high_range k _ Hk Hu) as Hh.
  unfold prefix_of. 
  assert (2 ^ (7 - k) * 2 = 2 ^ (8 - k)).
  { replace (8 - k) with (Z.succ (7 - k)) by lia. rewrite Z.pow_succ_r by lia. lia. }
  assert (0 < 2 ^ (7 - k)) by (apply Z.pow_pos_nonneg; lia).
  lia.
Qed.

Theorem write_read v e rest strict :
  write_varint v = Some e -> wf_bytes rest = true ->
  read_varint strict (e ++ rest) = VOk v rest.
Proof.
  intros Hw Hrest. pose proof (write_wf v e Hw) as Hwf.
  rewrite write_char in Hw. destruct (find_class 8 0 v) as [k|] eqn:Ef; [|discriminate].
  inversion Hw; subst; clear Hw. pose proof Ef as Ef'.
  apply find_class_least in Ef. destruct Ef as (Hk & Hf & _).
  pose proof (uval_range k v Hk Hf) as Hu. pose proof (high_range k _ Hk Hu) as Hh.
  set (u := uval k v) in *.
  cbn [app]. rewrite read_char by (rewrite app_comm_cons, wf_bytes_app, Hwf, Hrest; reflexivity).
  cbv zeta.
  assert (Hp : 0 <= prefix_of k + u / 256 ^ k).
  { unfold prefix_of. assert (2 ^ (8 - k) <= 2 ^ 8) by (apply Z.pow_le_mono_r; lia). change (2^8) with 256 in *. lia. }
  rewrite Z2N.id by exact Hp.
  destruct (prefix_spec k _ ltac:(lia) Hh) as [_ ->].
  destruct (Z.leb_spec 8 k); [lia|].
  replace (Z.to_nat k) with (length (tail_bytes (Z.to_nat k) u)) at 1 by apply tail_bytes_length.
  rewrite take_exact_app.
  assert (Hpay : payload k (Z.to_N (prefix_of k + u / 256 ^ k)) (tail_bytes (Z.to_nat k) u) = u).
  { unfold payload. rewrite Z2N.id by exact Hp. rewrite tail_bytes_value by lia.
    rewrite Z2Nat.id by lia.
    assert (0 < 256 ^ k) by (apply Z.pow_pos_nonneg; lia).
    replace (prefix_of k + u / 256 ^ k - prefix_of k) with (u / 256 ^ k) by lia.
    rewrite (Z.div_mod u (256 ^ k)) at 3 by lia. lia. }
  rewrite Hpay. unfold u. rewrite uval_sext by assumption.
  assert (size_ok strict k v = true) as ->; [|reflexivity].
  destruct strict; [|reflexivity]. cbn [size_ok]. rewrite Ef'. apply Z.eqb_refl.
Qed.

(* strict decoding accepts exactly the image of write_varint *)
Theorem strict_iff bs v rest : wf_bytes bs = true ->
  (read_varint true bs = VOk v rest <-> exists e, write_varint v = Some e /\ bs = e ++ rest).
Proof.
  intros Hwf. split.
  - intros H. destruct bs as [|b0 r]; [discriminate|]. rewrite read_char in H by assumption.
    cbv zeta in H. set (k := leading_ones (Z.of_N b0)) in *.
    destruct (Z.leb_spec 8 k) as [|Hk8]; [discriminate|].
    destruct (take_exact _ r) as [[extra rest']|] eqn:Et; [|discriminate].
    destruct (size_ok true k _) eqn:Es; [|discriminate]. injection H as H1 Hrest'. subst rest'.
    apply take_exact_spec in Et. destruct Et as [-> Hlen].
    rewrite wf_bytes_cons, wf_bytes_app in Hwf. apply andb_prop in Hwf. destruct Hwf as [Hb0 Hr].
    apply andb_prop in Hr. destruct Hr as [Hex Hrest]. unfold wf_byte in Hb0.
    pose proof (leading_ones_spec (Z.of_N b0) ltac:(lia)) as Hs. cbv zeta in Hs. fold k in Hs.
    destruct Hs as (Hk & _ & Hlt). destruct (Hlt Hk8) as [Hrange _]. clear Hlt.
    pose proof (payload_range k b0 extra ltac:(lia) Hex Hlen Hrange) as Hp.
    cbn [size_ok] in Es. destruct (find_class 8 0 _) as [k'|] eqn:Ef; [|discriminate].
    apply Z.eqb_eq in Es. subst k'.
    rewrite H1 in Ef. rewrite write_char, Ef. eexists. split; [reflexivity|].
    rewrite <- H1. rewrite sext_uval by lia.
    cbn [app]. f_equal.
    + unfold payload. assert (0 < 256 ^ k) by (apply Z.pow_pos_nonneg; lia).
      pose proof (be_value_bound extra Hex) as HB. rewrite Hlen in HB.
      assert (Z.of_N (be_value extra) < 256 ^ k).
      { apply N2Z.inj_lt in HB. rewrite N2Z.inj_pow, Z_nat_N, Z2N.id in HB by lia. exact HB. }
      rewrite Z.div_add_l by lia. rewrite Z.div_small by lia. 
      replace (prefix_of k + (Z.of_N b0 - prefix_of k + 0)) with (Z.of_N b0) by lia. symmetry. apply N2Z.id.
    + f_equal. symmetry. apply be_value_inj.
      * apply tail_bytes_wf.
      * assumption.
      * rewrite tail_bytes_length. lia.
      * apply N2Z.inj. rewrite tail_bytes_value by lia. rewrite Z2Nat.id by lia.
        unfold payload. assert (0 < 256 ^ k) by (apply Z.pow_pos_nonneg; lia).
        pose proof (be_value_bound extra Hex) as HB. rewrite Hlen in HB.
        assert (Z.of_N (be_value extra) < 256 ^ k).
        { apply N2Z.inj_lt in HB. rewrite N2Z.inj_pow, Z_nat_N, Z2N.id in HB by lia. exact HB. }
        rewrite Z.add_comm, Z.mod_add by lia. apply Z.mod_small. lia.
  - intros (e & Hw & ->). rewrite wf_bytes_app in Hwf. apply andb_prop in Hwf.
    apply write_read; tauto.
Qed.

(* minimality: no encoding that denotes v is shorter than write_varint v *)
Theorem write_minimal v e bs rest : wf_bytes bs = true ->
  write_varint v = Some e -> read_varint false bs = VOk v rest ->
  (length e + length rest <= length bs)%nat.
Proof.
  intros Hwf Hw Hr. rewrite write_char in Hw.
  destruct (find_class 8 0 v) as [k|] eqn:Ef; [|discriminate]. inversion Hw; subst e; clear Hw.
  cbn [length]. rewrite tail_bytes_length.
  destruct bs as [|b0 r]; [discriminate|]. rewrite read_char in Hr by assumption. cbv zeta in Hr.
  set (k' := leading_ones (Z.of_N b0)) in *.
  destruct (Z.leb_spec 8 k') as [|Hk8]; [discriminate|].
  destruct (take_exact _ r) as [[extra rest']|] eqn:Et; [|discriminate].
  cbn [size_ok] in Hr. injection Hr as H0 Hrest'. subst rest'.
  apply take_exact_spec in Et. destruct Et as [-> Hlen].
  rewrite wf_bytes_cons, wf_bytes_app in Hwf. apply andb_prop in Hwf. destruct Hwf as [Hb0 Hr].
  apply andb_prop in Hr. destruct Hr as [Hex Hrest]. unfold wf_byte in Hb0.
  pose proof (leading_ones_spec (Z.of_N b0) ltac:(lia)) as Hs. cbv zeta in Hs. fold k' in Hs.
  destruct Hs as (Hk & _ & Hlt). destruct (Hlt Hk8) as [Hrange _]. clear Hlt.
  pose proof (payload_range k' b0 extra ltac:(lia) Hex Hlen Hrange) as Hp.
  pose proof (sext_range k' _ ltac:(lia) Hp) as Hv. rewrite H0 in Hv.
  apply find_class_least in Ef. destruct Ef as (Hkr & Hf & Hm).
  assert (k <= k').
  { destruct Hm as [->|Hm]; [lia|]. destruct (Z.le_gt_cases k k') as [|Hgt]; [assumption|].
    exfalso. apply Hm. pose proof (bound_mono k' (k - 1) ltac:(lia)). lia. }
  cbn [length]. rewrite app_length. lia.
Qed.

(* two encodings of the same length that denote the same value are identical *)
Theorem read_injective bs1 bs2 v r1 r2 :
  wf_bytes bs1 = true -> wf_bytes bs2 = true ->
  read_varint false bs1 = VOk v r1 -> read_varint false bs2 = VOk v r2 ->
  (length bs1 - length r1 = length bs2 - length r2)%nat ->
  exists p, bs1 = p ++ r1 /\ bs2 = p ++ r2.
Proof.
  intros Hwf1 Hwf2 H1 H2 Hl.
  destruct bs1 as [|a0 ra]; [discriminate|]. destruct bs2 as [|c0 rc]; [discriminate|].
  rewrite read_char in H1, H2 by assumption. cbv zeta in H1, H2.
  set (k1 := leading_ones (Z.of_N a0)) in *. set (k2 := leading_ones (Z.of_N c0)) in *.
  destruct (Z.leb_spec 8 k1) as [|Hk1]; [discriminate|].
  destruct (Z.leb_spec 8 k2) as [|Hk2]; [discriminate|].
  destruct (take_exact _ ra) as [[ea resta]|] eqn:Eta; [|discriminate].
  destruct (take_exact _ rc) as [[ec restc]|] eqn:Etc; [|discriminate].
  cbn [size_ok] in H1, H2. injection H1 as H0 Hra'. subst resta. injection H2 as H3 Hrc'. subst restc.
  apply take_exact_spec in Eta, Etc. destruct Eta as [-> Hla], Etc as [-> Hlc].
  cbn [length] in Hl. rewrite !app_length in Hl.
  rewrite wf_bytes_cons, wf_bytes_app in Hwf1, Hwf2.
  apply andb_prop in Hwf1, Hwf2. destruct Hwf1 as [Ha0 Hra], Hwf2 as [Hc0 Hrc].
  apply andb_prop in Hra, Hrc. destruct Hra as [Hea _], Hrc as [Hec _]. unfold wf_byte in Ha0, Hc0.
  pose proof (leading_ones_spec (Z.of_N a0) ltac:(lia)) as Hs1. cbv zeta in Hs1. fold k1 in Hs1.
  pose proof (leading_ones_spec (Z.of_N c0) ltac:(lia)) as Hs2. cbv zeta in Hs2. fold k2 in Hs2.
  destruct Hs1 as (Hk1' & _ & Hlt1). destruct (Hlt1 Hk1) as [Hrange1 _]. clear Hlt1.
  destruct Hs2 as (Hk2' & _ & Hlt2). destruct (Hlt2 Hk2) as [Hrange2 _]. clear Hlt2.
  assert (k1 = k2) by lia. 
  pose proof (payload_range k1 a0 ea ltac:(lia) Hea Hla Hrange1) as Hp1.
  pose proof (payload_range k2 c0 ec ltac:(lia) Hec Hlc Hrange2) as Hp2.
  assert (Hpe : payload k1 a0 ea = payload k2 c0 ec).
  { rewrite <- (sext_uval k1 (payload k1 a0 ea)) by lia.
    rewrite <- (sext_uval k2 (payload k2 c0 ec)) by lia. rewrite H0, H3. congruence. }
  unfold payload in Hpe. rewrite <- H in *.
  assert (0 < 256 ^ k1) by (apply Z.pow_pos_nonneg; lia).
  pose proof (be_value_bound ea Hea) as HB1. rewrite Hla in HB1.
  pose proof (be_value_bound ec Hec) as HB2. rewrite Hlc in HB2.
  apply N2Z.inj_lt in HB1, HB2. rewrite N2Z.inj_pow, Z_nat_N, Z2N.id in HB1, HB2 by lia.
  change (Z.of_N 256) with 256 in *.
  assert (Hd : forall a e, 0 <= e < 256 ^ k1 -> (a * 256 ^ k1 + e) / 256 ^ k1 = a).
  { intros a e He. rewrite Z.div_add_l by lia. rewrite Z.div_small by lia. lia. }
  pose proof (f_equal (fun z => z / 256 ^ k1) Hpe) as Hq. cbv beta in Hq.
  rewrite !Hd in Hq by lia.
  assert (Z.of_N a0 = Z.of_N c0 /\ Z.of_N (be_value ea) = Z.of_N (be_value ec)) as [E1 E2] by lia.
  apply N2Z.inj in E1, E2. subst c0.
  assert (ea = ec) by (apply be_value_inj; try assumption; lia). subst ec.
  exists (a0 :: ea). split; reflexivity.
Qed.

(* the lenient value is the two's-complement reading of the consumed bytes *)
Theorem lenient_value bs v rest : wf_bytes bs = true ->
  read_varint false bs = VOk v rest ->
  exists p k, bs = p ++ rest /\ Z.of_nat (length p) = k + 1 /\ 0 <= k < 8 /\
    - 2 ^ (6 + 7 * k) <= v < 2 ^ (6 + 7 * k) /\
    (v - Z.of_N (be_value p)) mod 2 ^ (7 + 7 * k) = 0.
Proof.
  intros Hwf Hr. destruct bs as [|b0 r]; [discriminate|]. rewrite read_char in Hr by assumption.
  cbv zeta in Hr. set (k := leading_ones (Z.of_N b0)) in *.
  destruct (Z.leb_spec 8 k) as [|Hk8]; [discriminate|].
  destruct (take_exact _ r) as [[extra rest']|] eqn:Et; [|discriminate].
  cbn [size_ok] in Hr. injection Hr as H0 Hrest'. subst rest'.
  apply take_exact_spec in Et. destruct Et as [-> Hlen].
  rewrite wf_bytes_cons, wf_bytes_app in Hwf. apply andb_prop in Hwf. destruct Hwf as [Hb0 Hr].
  apply andb_prop in Hr. destruct Hr as [Hex Hrest]. unfold wf_byte in Hb0.
  pose proof (leading_ones_spec (Z.of_N b0) ltac:(lia)) as Hs. cbv zeta in Hs. fold k in Hs.
  destruct Hs as (Hk & _ & Hlt). destruct (Hlt Hk8) as [Hrange _]. clear Hlt.
  pose proof (payload_range k b0 extra ltac:(lia) Hex Hlen Hrange) as Hp.
  pose proof (sext_range k _ ltac:(lia) Hp) as Hv.
  exists (b0 :: extra), k. split; [reflexivity|]. split; [cbn [length]; lia|]. split; [lia|].
  split; [rewrite <- H0; exact Hv|]. rewrite <- H0. clear H0 Hv.
  unfold be_value. cbn [be_acc]. rewrite be_acc_shift. rewrite Hlen. fold (be_value extra).
  rewrite N2Z.inj_add, N2Z.inj_mul, N2Z.inj_pow, Z_nat_N, Z2N.id by lia.
  rewrite N.mul_0_r, N.add_0_l. change (Z.of_N 256) with 256.
  unfold sext, payload in *. set (E := Z.of_N (be_value extra)) in *. set (b := Z.of_N b0) in *.
  clearbody E b. clear Hlen Hex. unfold prefix_of in *.
  destruct (_ >=? _) eqn:Ege; clear Ege; kcases k; cbn in Hp |- *; lia.
Qed.
