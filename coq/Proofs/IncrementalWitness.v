(* C19: the premises of the decode theorem are satisfiable by an oracle that does emit
   back-references: [top_orc] answers "the top of the parse stack" (path 2) whenever the node
   being written is equal to it. *)
From Clvm Require Import Model.Incremental Proofs.InternProofs Proofs.BackRefEmit Proofs.IncrementalUndo
  Proofs.IncrementalDecode.
Open Scope N_scope.

Definition top_orc : oracle := fun s n =>
  match tc_stk s with
  | t :: _ => if sexp_eqb t (to_sexp n) then Some [2] else None
  | [] => None
  end.

Lemma top_orc_valid : orc_valid top_orc.
Proof.
  intros s n p _ H. unfold top_orc in H. destruct (tc_stk s) as [|t rest] eqn:Et; [discriminate|].
  destruct (sexp_eqb t (to_sexp n)) eqn:E; [|discriminate]. injection H as <-.
  apply sexp_eqb_eq in E. subst t. split; [reflexivity|].
  rewrite Et. eexists. reflexivity.
Qed.

Lemma none_orc_valid : orc_valid (fun _ _ => None).
Proof. intros s n p _ H. discriminate. Qed.

Definition w_x : stree := SAtom [1; 2; 3; 4].
Definition w_n0 : stree := SCons w_x SHole.
Definition w_r1 := add top_orc ser_new w_n0.
Definition w_s1 : ser := match w_r1 with Ok (_, _, s) => s | Err _ => ser_new end.
Definition w_u1 : undo_state := match w_r1 with Ok (_, u, _) => u | Err _ => undo_of ser_new end.
Definition w_r2 := add top_orc w_s1 w_x.
Definition w_s2 : ser := match w_r2 with Ok (_, _, s) => s | Err _ => ser_new end.
Definition w_u2 : undo_state := match w_r2 with Ok (_, u, _) => u | Err _ => undo_of ser_new end.

Lemma w_step1 : add top_orc ser_new w_n0 = Ok (false, w_u1, w_s1).
Proof. vm_compute. reflexivity. Qed.

Lemma w_step2 : add top_orc w_s1 w_x = Ok (true, w_u2, w_s2).
Proof. vm_compute. reflexivity. Qed.

Lemma w_reach : reach_ok w_s1 ([] ++ [w_n0]) [(w_u1, ser_new, [])].
Proof.
  eapply (rk_add ser_new [] [] top_orc w_n0 false w_u1 w_s1);
    [apply rk_new|apply top_orc_valid|reflexivity|exact w_step1].
Qed.

Lemma w_bytes : get_ref w_s2 = [255; 132; 1; 2; 3; 4; 254; 2].
Proof. vm_compute. reflexivity. Qed.

Lemma w_assembled : assembled [w_n0; w_x] (Cons (Atom [1; 2; 3; 4]) (Atom [1; 2; 3; 4])).
Proof. apply assemble_assembled. vm_compute. reflexivity. Qed.
