(* op_total for the non-cryptographic operators: every error an operator model can report is a
   user error (InvalidOpArg, CostExceeded, DivisionByZero, ShiftTooLarge, Reserved, Invalid,
   Unimplemented) — never Panic / InternalError / OutOfFuel / Unsupported. The models of the
   operators other than op_unknown have no Overflow outcome (their plain u64 arithmetic is
   modelled on unbounded N, see the header of Model/OpsArith.v for the size bound under which
   the Rust cannot wrap); op_unknown models its plain u64 arithmetic exactly and is total under
   the explicit bound [unknown_bounded]. *)
From Coq Require Import Lia ZifyBool ZifyN ZifyNat.
From Clvm Require Import Model.OpsArith Model.OpsStr Model.OpsBits Model.OpsUnknown.
From Clvm Require Import Proofs.OpContractDefs Proofs.OpContractsCrypto Proofs.UnknownProofs Proofs.OpContractsMore Proofs.OpContractsMore2.
Open Scope N_scope.
Arguments N.add : simpl never.
Arguments N.mul : simpl never.
Arguments N.div : simpl never.
Arguments N.ltb : simpl never.
Arguments N.max : simpl never.

Lemma ures_i32_atom t : ures (i32_atom t).
Proof. destruct t; cbn; auto using ures_ok, ures_bad. match goal with |- context [if ?c then _ else _] => destruct c end; auto using ures_ok, ures_bad. Qed.
Lemma ures_int_atom_lazy t : ures (int_atom_lazy t).
Proof. destruct t; cbn; auto using ures_ok, ures_bad. Qed.
Lemma ures_cost_err {Y} : ures (@Err Y CostExceeded).
Proof. intros e H. inversion H. reflexivity. Qed.
Lemma ures_ok_or_cost {Y} (o : option Y) : ures (ok_or_cost o).
Proof. destruct o; cbn; auto using ures_ok, ures_cost_err. Qed.
Lemma ures_bind {Y Z} (r : res Y) (k : Y -> res Z) : ures r -> (forall y, ures (k y)) -> ures (bind r k).
Proof. intros Hr Hk. destruct r; cbn [bind]; [apply Hk|]. intros e0 H. inversion H; subst. apply Hr. reflexivity. Qed.
Lemma ures_new_div a b : ures (compute_new_div_cost a b).
Proof. unfold compute_new_div_cost. apply ures_bind; [apply ures_ok_or_cost|intros; apply ures_ok]. Qed.
Lemma ures_modpow_cost b e m n : ures (compute_modpow_cost b e m n).
Proof.
  unfold compute_modpow_cost. destruct n; [|apply ures_ok].
  repeat (apply ures_bind; [apply ures_ok_or_cost|intros]). apply ures_ok_or_cost.
Qed.
#[export] Hint Resolve ures_i32_atom ures_int_atom_lazy ures_ok_or_cost ures_new_div ures_modpow_cost ures_get_varargs : ures.

Lemma tot_const {X} (r : res (N * X)) : ures r -> tot (fun _ => r).
Proof. intros H m. exact H. Qed.

Ltac tstep' := cbv zeta; first [ tstep | apply tot_err; reflexivity ].

(* loops *)
Lemma add_loop_tot ncm pa pb a : forall cost acc, tot (fun m => add_loop ncm pa pb a cost acc m).
Proof. induction a as [b|x _ r IH]; intros; cbn [add_loop]; cbv zeta; [tstep|]. destruct x; [|tstep]. tstep. apply IH. Qed.
Lemma sub_loop_tot ncm pa pb a : forall cost acc fst, tot (fun m => sub_loop ncm pa pb a cost acc fst m).
Proof. induction a as [b|x _ r IH]; intros; cbn [sub_loop]; cbv zeta; [tstep|]. tstep. destruct x; [|tstep]. tstep. apply IH. Qed.
Lemma mul_loop_tot lim ncm d a : forall cost total l0, tot (fun m => mul_loop lim ncm d a cost total l0 m).
Proof.
  induction a as [b|x _ r IH]; intros; cbn [mul_loop]; cbv zeta; [tstep|]. destruct x; [|tstep].
  destruct (lim && negb ncm && _); [tstep|]. tstep. destruct (lim && negb ncm && _); [tstep|]. apply IH.
Qed.
Lemma concat_loop_tot a : forall cost terms, tot (fun m => concat_loop a cost terms m).
Proof. induction a as [b|x _ r IH]; intros; cbn [concat_loop]; cbv zeta; [tstep|]. destruct x; [|tstep]. tstep. apply IH. Qed.
Lemma binop_loop_tot ncm opf a : forall cost p n, tot (fun m => binop_loop ncm opf a cost p n m).
Proof.
  induction a as [b|x _ r IH]; intros; cbn [binop_loop]; cbv zeta; [tstep|]. destruct x; [|tstep]. tstep.
  destruct ncm; [apply IH|]. destruct (_ <? _)%Z; apply IH.
Qed.
Lemma bool_loop_tot is_any a : forall cost acc, tot (fun m => bool_loop a cost acc is_any m).
Proof. induction a as [b|x _ r IH]; intros; cbn [bool_loop]; cbv zeta; [tstep|]. tstep. apply IH. Qed.
Lemma tree_hash_walk_tot H pb t : forall cost, tot (fun m => tree_hash_walk H pb t cost m).
Proof.
  induction t as [b|l IHl r IHr]; intros cost; cbn [tree_hash_walk]; cbv zeta.
  - tstep. tstep.
  - tstep. intros m e E.
    destruct (tree_hash_walk H pb r _ m) as [[c1 hr]|e1] eqn:Er; cbn [bind] in E.
    + destruct (tree_hash_walk H pb l c1 m) as [[c2 hl]|e2] eqn:El; cbn [bind] in E; [discriminate E|].
      inversion E; subst. eapply IHl. exact El.
    + inversion E; subst. eapply IHr. exact Er.
Qed.

Ltac post_ok := intros [? ?]; cbn beta iota; try (match goal with |- ures (let (_, _) := ?p in _) => destruct p end); apply ures_ok.

Lemma add_total : op_total (fun _ _ => True) op_add.
Proof.
  apply tot_op. intros f a. unfold op_add. destruct (arith_costs f) as [[bc pa] pb].
  eapply tot_post; [apply add_loop_tot|post_ok].
Qed.
Lemma subtract_total : op_total (fun _ _ => True) op_subtract.
Proof.
  apply tot_op. intros f a. unfold op_subtract. destruct (arith_costs f) as [[bc pa] pb].
  eapply tot_post; [apply sub_loop_tot|post_ok].
Qed.
Lemma multiply_total : op_total (fun _ _ => True) op_multiply.
Proof.
  apply tot_op. intros f a. unfold op_multiply. cbv zeta.
  destruct a as [b|x r]; [tstep|]. destruct x as [b|]; [|tstep].
  destruct (f_limits f && _ && _); [tstep|].
  intros m e E. destruct (f_new_cost_model f); cbn [bind] in E.
  - destruct (cc_cases (NEW_MUL_BASE_COST + blen b * MUL_LINEAR_COST_PER_BYTE) m) as [[_ C]|[_ C]]; rewrite C in E; cbn [bind] in E.
    + destruct (mul_loop _ _ _ _ _ _ _ m) as [[c0 t]|e0] eqn:L; cbn [bind] in E; [discriminate E|].
      inversion E; subst. eapply mul_loop_tot. exact L.
    + inversion E. reflexivity.
  - destruct (mul_loop _ _ _ _ _ _ _ m) as [[c0 t]|e0] eqn:L; cbn [bind] in E; [discriminate E|].
    inversion E; subst. eapply mul_loop_tot. exact L.
Qed.

Ltac div_tot op :=
  apply tot_op; intros f a; unfold op; cbv zeta; repeat tstep';
  try (destruct (f_new_cost_model f); auto with ures).

Lemma div_num_total : op_total (fun _ _ => True) op_div_num. Proof. div_tot op_div_num. Qed.
Lemma divmod_num_total : op_total (fun _ _ => True) op_divmod_num. Proof. div_tot op_divmod_num. Qed.
Lemma mod_num_total : op_total (fun _ _ => True) op_mod_num. Proof. div_tot op_mod_num. Qed.
Lemma modpow_num_total : op_total (fun _ _ => True) op_modpow_num. Proof. div_tot op_modpow_num. Qed.

Lemma total_ext B (op op' : opfn) : (forall f a m, op f a m = op' f a m) -> op_total B op' -> op_total B op.
Proof. intros E H f a m e Hb. rewrite E. apply H. exact Hb. Qed.
Lemma div_total : op_total (fun _ _ => True) op_div.
Proof. eapply total_ext; [apply div_is_num|apply div_num_total]. Qed.
Lemma divmod_total : op_total (fun _ _ => True) op_divmod.
Proof. eapply total_ext; [apply divmod_is_num|apply divmod_num_total]. Qed.
Lemma mod_total : op_total (fun _ _ => True) op_mod.
Proof. eapply total_ext; [apply mod_is_num|apply mod_num_total]. Qed.
Lemma modpow_total : op_total (fun _ _ => True) op_modpow.
Proof. eapply total_ext; [apply modpow_is_num|apply modpow_num_total]. Qed.

Ltac simple_tot op := apply tot_op; intros f a; unfold op; cbv zeta; repeat tstep'.

Lemma gr_total : op_total (fun _ _ => True) op_gr. Proof. simple_tot op_gr. Qed.
Lemma gr_bytes_total : op_total (fun _ _ => True) op_gr_bytes. Proof. simple_tot op_gr_bytes. Qed.
Lemma strlen_total : op_total (fun _ _ => True) op_strlen. Proof. simple_tot op_strlen. Qed.
Lemma substr_total : op_total (fun _ _ => True) op_substr.
Proof.
  apply tot_op. intros f a. unfold op_substr. cbv zeta. apply tot_const.
  apply ures_bind; [auto with ures|intros l]. destruct l as [|a0 [|st tl]]; auto using ures_bad.
  apply ures_bind; [auto with ures|intros b]. apply ures_bind; [auto with ures|intros s].
  apply ures_bind; [destruct tl; auto with ures|intros e]. destruct (_ || _ || _ || _); auto using ures_bad, ures_ok.
Qed.
Lemma ash_total : op_total (fun _ _ => True) op_ash. Proof. simple_tot op_ash. Qed.
Lemma lsh_total : op_total (fun _ _ => True) op_lsh. Proof. simple_tot op_lsh. Qed.
Lemma lognot_total : op_total (fun _ _ => True) op_lognot. Proof. simple_tot op_lognot. Qed.
Lemma not_total : op_total (fun _ _ => True) op_not. Proof. simple_tot op_not. Qed.

Lemma concat_total : op_total (fun _ _ => True) op_concat.
Proof. apply tot_op. intros f a. unfold op_concat. eapply tot_post; [apply concat_loop_tot|post_ok]. Qed.
Lemma binop_reduction_total iv opf : op_total (fun _ _ => True) (binop_reduction iv opf).
Proof.
  apply tot_op. intros f a. unfold binop_reduction. cbv zeta.
  eapply tot_post; [apply binop_loop_tot|]. intros [c [p n]]. apply ures_ok.
Qed.
Lemma logand_total : op_total (fun _ _ => True) op_logand. Proof. apply binop_reduction_total. Qed.
Lemma logior_total : op_total (fun _ _ => True) op_logior. Proof. apply binop_reduction_total. Qed.
Lemma logxor_total : op_total (fun _ _ => True) op_logxor. Proof. apply binop_reduction_total. Qed.
Lemma any_total : op_total (fun _ _ => True) op_any.
Proof. apply tot_op. intros f a. unfold op_any. eapply tot_post; [apply bool_loop_tot|post_ok]. Qed.
Lemma all_total : op_total (fun _ _ => True) op_all.
Proof. apply tot_op. intros f a. unfold op_all. eapply tot_post; [apply bool_loop_tot|post_ok]. Qed.

Lemma sha256_loop_tot pa pb a : forall cost terms,
  tot (fun m => (fix loop (args : sexp) (cost : N) (terms : list bytes) : res (N * list bytes) :=
       match args with
       | Atom _ => Ok (cost, terms)
       | Cons arg rest =>
           let cost := cost + pa in
           match arg with
           | Cons _ _ => bad_arg
           | Atom b => let cost := cost + blen b * pb in do _ <- check_cost cost m; loop rest cost (b :: terms)
           end
       end) a cost terms).
Proof. induction a as [b|x _ r IH]; intros; cbv zeta; [tstep|]. destruct x; [|tstep]. tstep. apply IH. Qed.

Lemma sha256_total H : op_total (fun _ _ => True) (op_sha256 H).
Proof.
  apply tot_op. intros f a. unfold op_sha256.
  destruct (if f_new_cost_model f then _ else _) as [[bc pa] pb]. cbv zeta.
  eapply tot_post; [apply sha256_loop_tot|]. intros [c ts]. unfold atom_and_cost. apply ures_ok.
Qed.

Lemma sha256_tree_total H : op_total (fun _ _ => True) (op_sha256_tree H).
Proof.
  apply tot_op. intros f a. unfold op_sha256_tree, tree_hash_costed. cbv zeta.
  apply tot_bind; [auto with ures|intros n]. intros m e E.
  destruct (tree_hash_walk H _ n _ m) as [[c0 h]|e0] eqn:W; cbn [bind] in E.
  - destruct (cc_cases (c0 + MALLOC_COST_PER_BYTE * 32) m) as [[_ C]|[_ C]]; rewrite C in E; cbn [bind] in E;
      [discriminate E|inversion E; reflexivity].
  - inversion E; subst. eapply tree_hash_walk_tot. exact W.
Qed.

(* op_unknown: total whenever the model reports no u64 overflow of a plain operation *)
Definition unknown_bounded (o : bytes) (a : sexp) (m : N) : Prop :=
  forall ncm s, unknown_cost o (arg_lens a) ncm m <> Err (Overflow s).

Lemma unknown_cost_errors o lens ncm m e :
  unknown_cost o lens ncm m = Err e -> user_error e = true \/ exists s, e = Overflow s.
Proof.
  (* every error is produced by bad_arg, check_cost, ok_or_cost, Reserved, Invalid or a plain op *)
  assert (P1 : forall s a b e, plain_add s a b = Err e -> e = Overflow s).
  { intros s a b e0. unfold plain_add. destruct (_ <? _); intros H; inversion H. reflexivity. }
  assert (P2 : forall s a b e, plain_mul s a b = Err e -> e = Overflow s).
  { intros s a b e0. unfold plain_mul. destruct (_ <? _); intros H; inversion H. reflexivity. }
  assert (P3 : forall (o : option N) e, ok_or_cost o = Err e -> e = CostExceeded).
  { intros o0 e0. destruct o0; cbn; intros H; inversion H. reflexivity. }
  assert (G : forall r : res N, (forall e, r = Err e -> user_error e = true \/ exists s, e = Overflow s) ->
              forall k : N -> res N, (forall y e, k y = Err e -> user_error e = true \/ exists s, e = Overflow s) ->
              forall e, bind r k = Err e -> user_error e = true \/ exists s, e = Overflow s).
  { intros r Hr k Hk e0 H. destruct r; cbn [bind] in H; [eapply Hk; exact H|]. apply Hr. exact H. }
  assert (Gp1 : forall s a b e, plain_add s a b = Err e -> user_error e = true \/ exists s, e = Overflow s).
  { intros. right. eexists. eapply P1. eassumption. }
  assert (Gp2 : forall s a b e, plain_mul s a b = Err e -> user_error e = true \/ exists s, e = Overflow s).
  { intros. right. eexists. eapply P2. eassumption. }
  assert (Gp3 : forall (o : option N) e, ok_or_cost o = Err e -> user_error e = true \/ exists s, e = Overflow s).
  { intros o0 e0 H. left. rewrite (P3 _ _ H). reflexivity. }
  assert (Gc : forall c e, check_cost c m = Err e -> user_error e = true \/ exists s, e = Overflow s).
  { intros c e0 H. left. rewrite (check_cost_err _ _ _ H). reflexivity. }
  assert (Gcu : forall c (k : unit -> res N), (forall y e, k y = Err e -> user_error e = true \/ exists s, e = Overflow s) ->
              forall e, bind (check_cost c m) k = Err e -> user_error e = true \/ exists s, e = Overflow s).
  { intros c k Hk e0 H. destruct (check_cost c m) eqn:E; cbn [bind] in H; [eapply Hk; exact H|]. inversion H; subst. eapply Gc. exact E. }
  assert (Gbad : forall e, @bad_arg N = Err e -> user_error e = true \/ exists s, e = Overflow s).
  { intros e0 H. inversion H. left. reflexivity. }
  assert (L1 : forall lens cost e, unk_add_old lens cost m = Err e -> user_error e = true \/ exists s, e = Overflow s).
  { induction lens0 as [|[len|] r IH]; intros cost; cbn [unk_add_old]; [discriminate| |apply Gbad].
    apply G; [apply Gp1|intros ?]. apply G; [apply Gp2|intros ?]. apply G; [apply Gp1|intros ?].
    apply Gcu. intros _. apply IH. }
  assert (L2 : forall lens cost acc e, unk_add_new lens cost acc m = Err e -> user_error e = true \/ exists s, e = Overflow s).
  { induction lens0 as [|[len|] r IH]; intros cost acc; cbn [unk_add_new]; cbv zeta; [discriminate| |apply Gbad].
    apply G; [apply Gp3|intros ?]. apply G; [apply Gp3|intros ?]. apply G; [apply Gp3|intros ?].
    apply Gcu. intros _. apply IH. }
  assert (L3 : forall lens cost l0 e, unk_mul_old lens cost l0 m = Err e -> user_error e = true \/ exists s, e = Overflow s).
  { induction lens0 as [|[len|] r IH]; intros cost l0; cbn [unk_mul_old]; [discriminate| |apply Gbad].
    apply G; [apply Gp1|intros ?]. apply G; [apply Gp1|intros ?]. apply G; [apply Gp2|intros ?].
    apply G; [apply Gp1|intros ?]. apply G; [apply Gp2|intros ?]. apply G; [apply Gp1|intros ?].
    apply G; [apply Gp1|intros ?]. apply Gcu. intros _. apply IH. }
  assert (L4 : forall lens cost l0 e, unk_mul_new lens cost l0 m = Err e -> user_error e = true \/ exists s, e = Overflow s).
  { induction lens0 as [|[len|] r IH]; intros cost l0; cbn [unk_mul_new]; cbv zeta; [discriminate| |apply Gbad].
    apply G; [apply Gp3|intros ?]. apply G; [apply Gp3|intros ?]. apply G; [apply Gp3|intros ?].
    apply G; [apply Gp3|intros ?]. apply G; [apply Gp3|intros ?]. apply G; [apply Gp3|intros ?].
    apply Gcu. intros _. apply IH. }
  assert (L5 : forall lens cost e, unk_concat lens cost m = Err e -> user_error e = true \/ exists s, e = Overflow s).
  { induction lens0 as [|[len|] r IH]; intros cost; cbn [unk_concat]; [discriminate| |apply Gbad].
    apply G; [apply Gp1|intros ?]. apply G; [apply Gp2|intros ?]. apply G; [apply Gp1|intros ?].
    apply Gcu. intros _. apply IH. }
  unfold unknown_cost.
  destruct (match o with [] => true | _ => starts_ffff o end); [intros H; inversion H; left; reflexivity|].
  destruct (u32_from_u8 (removelast o)) as [mult|]; [|intros H; inversion H; left; reflexivity].
  revert e. apply G.
  - unfold unknown_base. destruct (_ =? 0); [discriminate|].
    destruct (_ =? 1); [destruct ncm; [apply L2|apply L1]|].
    destruct (_ =? 2).
    { destruct lens as [|[l0|] r]; [discriminate| |apply Gbad]. destruct ncm; [|apply L3].
      apply G; [apply Gp3|intros ?]. apply G; [apply Gp3|intros ?]. apply Gcu. intros _. apply L4. }
    destruct (_ =? 3); [apply L5|discriminate].
  - intros base. apply Gcu. intros _. apply G.
    + destruct ncm; [apply Gp3|discriminate].
    + intros c e0. destruct (U32_MAX <? c); intros H; inversion H. left. reflexivity.
Qed.

Lemma unknown_total o : op_total (unknown_bounded o) (op_unknown o).
Proof.
  intros f a m e Hb E. unfold op_unknown in E.
  destruct (unknown_cost o (arg_lens a) (f_new_cost_model f) m) as [c|e0] eqn:U; cbn [bind] in E; [discriminate E|].
  inversion E; subst. destruct (unknown_cost_errors _ _ _ _ _ U) as [H|[s H]]; [exact H|].
  subst. exfalso. eapply Hb. exact U.
Qed.
Lemma unknown_operator_total o : op_total (unknown_bounded o) (unknown_operator o).
Proof.
  intros f a m e Hb E. unfold unknown_operator in E. destruct (f_no_unknown_ops f).
  - inversion E. reflexivity.
  - eapply unknown_total; eassumption.
Qed.
