(* C05: the operator bodies of the default build (fast-path regions present) and of the
   no-fastpath build, transcribed over argument representations in Model/OpsFast.v, equal the
   tree-store operators of Model/OpsArith.v / Model/OpsStr.v on the denoted argument list: same
   cost and value, or the same error, for every flag set and budget. *)
From Clvm Require Import Model.OpsFast Model.Alloc Model.Sha256 Gen.Tables Gen.FastPath
  Proofs.BytesLemmas Proofs.IntEncBasics Proofs.IntEncProofs Proofs.AllocEnc Proofs.C05Table
  Proofs.TableProofs.
From Coq Require Import Lia ZifyBool ZifyN ZifyNat.
Ltac Zify.zify_post_hook ::= Z.div_mod_to_equations.
Open Scope N_scope.
Arguments N.add : simpl never.
Arguments N.sub : simpl never.
Arguments N.mul : simpl never.
Arguments N.div : simpl never.
Arguments N.eqb : simpl never.
Arguments N.ltb : simpl never.
Arguments N.leb : simpl never.
Arguments N.max : simpl never.
Arguments Z.add : simpl never.
Arguments Z.sub : simpl never.
Arguments Z.mul : simpl never.
Arguments Z.ltb : simpl never.
Arguments Z.leb : simpl never.
Arguments bytes_of_int : simpl never.
Arguments int_of_bytes : simpl never.
Arguments len_for_value : simpl never.
Arguments limbs : simpl never.
Arguments OpsFast.limbs_u64 : simpl never.
Arguments OpsFast.limbs_i64 : simpl never.
Arguments u64_bytes : simpl never.
Arguments i64_bytes : simpl never.
Arguments OpsFast.number_bytes : simpl never.

(* ---------------------------------------------------------------- representation reads *)

Lemma small_lt v : (v <? 67108864) = true -> v < 2 ^ 26.
Proof. change (2 ^ 26) with 67108864. lia. Qed.

Lemma blen_small v : v < 2 ^ 26 -> blen (bytes_of_int (Z.of_N v)) = len_for_value v.
Proof. intros Hv. unfold blen. rewrite <- (len_for_value_spec v Hv). lia. Qed.

Lemma denote_term_atom t : exists b, denote_term t = Atom b.
Proof. destruct t; eexists; reflexivity. Qed.

Lemma r_int_atom_denote a : rarg_ok a = true -> r_int_atom a = int_atom (denote_arg a).
Proof.
  destruct a as [v|b|l r]; cbn [rarg_ok r_int_atom denote_arg int_atom]; intros Hok; try reflexivity.
  apply small_lt in Hok. rewrite int_of_bytes_of_int, (blen_small v Hok). reflexivity.
Qed.

(* an operand on which Allocator::small_number answers Some v denotes the canonical bytes of v *)
Lemma r_small_number_some a v : rarg_ok a = true -> r_small_number a = Some v ->
  denote_arg a = Atom (bytes_of_int (Z.of_N v)) /\ v < 2 ^ 26.
Proof.
  destruct a as [w|b|l r]; cbn [rarg_ok r_small_number denote_arg]; intros Hok Hs.
  - apply Some_inj in Hs. subst w. split; [reflexivity|apply small_lt; exact Hok].
  - apply (fits_in_small_atom_spec b v Hok) in Hs. destruct Hs as [-> Hv]. split; [reflexivity|exact Hv].
  - discriminate.
Qed.

Lemma int_atom_small v : v < 2 ^ 26 ->
  int_atom (Atom (bytes_of_int (Z.of_N v))) = Ok (Z.of_N v, len_for_value v).
Proof. intros Hv. cbn [int_atom]. rewrite int_of_bytes_of_int, (blen_small v Hv). reflexivity. Qed.

Lemma number_bytes_spec z : number_bytes z = bytes_of_int z.
Proof.
  unfold number_bytes.
  destruct ((0 <=? z)%Z && (z <=? Z.of_N NODE_PTR_IDX_MASK)%Z) eqn:E.
  - apply andb_prop in E. destruct E as [E0 E1].
    rewrite small_bytes_spec by lia. rewrite Z2N.id by lia. reflexivity.
  - apply strip_to_signed.
Qed.

Lemma forallb_cons {A} (p : A -> bool) x l : forallb p (x :: l) = p x && forallb p l.
Proof. reflexivity. Qed.

Lemma rinput_ok_args l t : rinput_ok (l, t) = true -> forallb rarg_ok l = true.
Proof. unfold rinput_ok. cbn [fst snd]. intros H. apply andb_prop in H. tauto. Qed.

Lemma denote_input_cons a l t : denote_input (a :: l, t) = Cons (denote_arg a) (denote_input (l, t)).
Proof. reflexivity. Qed.
Lemma denote_input_nil t : denote_input ([], t) = denote_term t.
Proof. reflexivity. Qed.

(* ---------------------------------------------------------------- op_gr *)

Lemma get_args2_denote l t :
  get_args2 (denote_input (l, t)) =
  match l with [a; b] => Ok (denote_arg a, denote_arg b) | _ => bad_arg end.
Proof.
  destruct (denote_term_atom t) as [tb Ht].
  destruct l as [|a [|b [|c l]]]; rewrite ?denote_input_cons, ?denote_input_nil, ?Ht; reflexivity.
Qed.

Theorem op_gr_nofast_eq f i m : rinput_ok i = true ->
  op_gr_nofast f i m = op_gr f (denote_input i) m.
Proof.
  destruct i as [l t]. intros Hok. apply rinput_ok_args in Hok.
  unfold op_gr_nofast, op_gr, r_match_args2. rewrite get_args2_denote. cbn [fst].
  destruct l as [|a [|b [|c l]]]; try reflexivity.
  rewrite !forallb_cons in Hok. apply andb_prop in Hok. destruct Hok as [Ha Hb].
  apply andb_prop in Hb. destruct Hb as [Hb _].
  cbn [bind]. unfold gr_costs.
  rewrite (r_int_atom_denote a Ha), (r_int_atom_denote b Hb).
  destruct (f_new_cost_model f); reflexivity.
Qed.

Theorem op_gr_fast_eq f i m : rinput_ok i = true ->
  op_gr_fast f i m = op_gr f (denote_input i) m.
Proof.
  intros Hok. rewrite <- (op_gr_nofast_eq f i m Hok).
  destruct i as [l t]. apply rinput_ok_args in Hok.
  unfold op_gr_fast, op_gr_nofast, r_match_args2. cbn [fst].
  destruct l as [|a [|b [|c l]]]; try reflexivity.
  rewrite !forallb_cons in Hok. apply andb_prop in Hok. destruct Hok as [Ha Hb].
  apply andb_prop in Hb. destruct Hb as [Hb _].
  destruct (gr_costs f) as [base per_byte].
  destruct (r_small_number a) as [lhs|] eqn:Sa; [|reflexivity].
  destruct (r_small_number b) as [rhs|] eqn:Sb; [|reflexivity].
  destruct (r_small_number_some a lhs Ha Sa) as [Da La].
  destruct (r_small_number_some b rhs Hb Sb) as [Db Lb].
  rewrite (r_int_atom_denote a Ha), (r_int_atom_denote b Hb), Da, Db.
  rewrite (int_atom_small lhs La), (int_atom_small rhs Lb). cbn [bind].
  replace (Z.of_N rhs <? Z.of_N lhs)%Z with (rhs <? lhs) by lia. reflexivity.
Qed.


(* ---------------------------------------------------------------- op_sha256 *)
Lemma op_sha256_none H f tb m :
  op_sha256 H f (Atom tb) m = let '(base, _, _) := sha256_costs f in atom_and_cost base (H []).
Proof. unfold op_sha256, sha256_costs. destruct (f_new_cost_model f); timeout 20 reflexivity. Qed.

Lemma len_for_value_lt37 v : v < 37 -> len_for_value v = if 0 <? v then 1 else 0.
Proof. intros Hv. unfold len_for_value.
  destruct (N.eqb_spec v 0); [subst; reflexivity|].
  destruct (N.ltb_spec v 128); [|lia]. destruct (N.ltb_spec 0 v); [reflexivity|lia]. Qed.
Lemma op_sha256_two H f b0 b1 tb m :
  op_sha256 H f (Cons (Atom b0) (Cons (Atom b1) (Atom tb))) m =
  let '(base, per_arg, per_byte) := sha256_costs f in
  let c1 := base + per_arg + blen b0 * per_byte in
  do _ <- check_cost c1 m;
  let c2 := c1 + per_arg + blen b1 * per_byte in
  do _ <- check_cost c2 m;
  atom_and_cost c2 (H (b0 ++ b1)).
Proof.
  unfold op_sha256, sha256_costs.
  destruct (f_new_cost_model f); cbn beta iota zeta delta [bind];
    (match goal with |- context [check_cost ?c m] => destruct (check_cost c m) as [[]|e] end;
     cbn [bind]; [|reflexivity]);
    (match goal with |- context [check_cost ?c m] => destruct (check_cost c m) as [[]|e] end;
     cbn [bind]; [|reflexivity]);
    unfold concat_rev; cbn [fold_left]; rewrite app_nil_r; reflexivity.
Qed.

Lemma table_len_N : N.of_nat (length HashTable.precomputed_hashes) = 37.
Proof. reflexivity. Qed.

Section Sha.
  Variable H : bytes -> bytes.
  Hypothesis H_nil : H [] = src_sha256_nil_literal.
  Hypothesis H_tbl : forall i h, nth_error HashTable.precomputed_hashes i = Some h ->
    h = H (1 :: bytes_of_int (Z.of_N (N.of_nat i))).

  Lemma nofast_sha256_gen f i m : op_sha256_nofast H f i m = op_sha256 H f (denote_input i) m.
  Proof.
    unfold op_sha256_nofast. destruct (sha256_costs f) as [[base per_arg] per_byte] eqn:EC.
    destruct (r_is_nil_ptr i) eqn:EN; [|reflexivity].
    destruct i as [[|a l] [v|b]]; try discriminate. cbn [r_is_nil_ptr] in EN.
    assert (v = 0) as -> by lia.
    change (denote_input ([], TSmall 0)) with (Atom []).
    rewrite op_sha256_none, EC, H_nil. reflexivity.
  Qed.

  Lemma fast_sha256_gen f i m : rinput_ok i = true ->
    op_sha256_fast H f i m = op_sha256 H f (denote_input i) m.
  Proof.
    intros Hok. rewrite <- nofast_sha256_gen.
    unfold op_sha256_fast, op_sha256_nofast.
    destruct (sha256_costs f) as [[base per_arg] per_byte] eqn:EC.
    destruct (r_is_nil_ptr i) eqn:EN; [reflexivity|].
    destruct i as [l t]. apply rinput_ok_args in Hok. unfold r_match_args2. cbn [fst].
    destruct l as [|a [|b [|c l]]]; try reflexivity.
    rewrite !forallb_cons in Hok. apply andb_prop in Hok. destruct Hok as [Ha Hb].
    apply andb_prop in Hb. destruct Hb as [Hb _].
    destruct (r_small_number a) as [one|] eqn:Sa; [|reflexivity].
    destruct (N.eqb_spec one 1) as [E1|E1]; [subst one|reflexivity].
    destruct (r_small_number b) as [val|] eqn:Sb; [|reflexivity].
    rewrite table_len_N.
    destruct (N.ltb_spec val 37) as [Hv|Hv]; [|reflexivity].
    destruct (r_small_number_some a 1 Ha Sa) as [Da _].
    destruct (r_small_number_some b val Hb Sb) as [Db Lb].
    destruct (denote_term_atom t) as [tb Ht].
    rewrite !denote_input_cons, denote_input_nil, Da, Db, Ht.
    change (bytes_of_int (Z.of_N 1)) with [1].
    rewrite op_sha256_two, EC. cbn beta iota zeta.
    rewrite (blen_small val Lb), (len_for_value_lt37 val Hv).
    change (blen [1]) with 1.
    destruct (nth_error HashTable.precomputed_hashes (N.to_nat val)) as [h|] eqn:En.
    - apply H_tbl in En. rewrite Nnat.N2Nat.id in En. subst h.
      unfold check_cost. cbn [app].
      destruct (N.ltb_spec 0 val) as [Hp|Hp];
        repeat match goal with |- context [N.ltb ?x ?y] => destruct (N.ltb_spec x y) end;
        cbn [bind]; try reflexivity; try lia; (f_equal; lia).
    - exfalso. apply nth_error_None in En.
      assert (length HashTable.precomputed_hashes = 37%nat) as L by reflexivity. lia.
  Qed.
End Sha.

Lemma sha256_nil_literal : sha256 [] = src_sha256_nil_literal.
Proof. vm_compute. reflexivity. Qed.

Theorem op_sha256_nofast_eq f i m :
  op_sha256_nofast sha256 f i m = op_sha256 sha256 f (denote_input i) m.
Proof. apply nofast_sha256_gen. exact sha256_nil_literal. Qed.

Theorem op_sha256_fast_eq f i m : rinput_ok i = true ->
  op_sha256_fast sha256 f i m = op_sha256 sha256 f (denote_input i) m.
Proof. apply fast_sha256_gen; [exact sha256_nil_literal|exact precomputed_nth]. Qed.

(* ---------------------------------------------------------------- op_multiply *)
Lemma len_for_value_le5 v : len_for_value v <= 5.
Proof. unfold len_for_value. repeat match goal with |- context [if ?c then _ else _] => destruct c end; lia. Qed.

Lemma mul_loop_r_eq fast limits ncm sq t m : forall l, forallb rarg_ok l = true ->
  forall cost total l0,
  mul_loop_r fast limits ncm sq l cost total l0 m =
  mul_loop limits ncm sq (denote_input (l, t)) cost total l0 m.
Proof.
  induction l as [|a l IH]; intros Hok cost total l0.
  - rewrite denote_input_nil. destruct (denote_term_atom t) as [tb ->]. reflexivity.
  - rewrite forallb_cons in Hok. apply andb_prop in Hok. destruct Hok as [Ha Hl].
    rewrite denote_input_cons. cbn [mul_loop_r mul_loop].
    destruct a as [v|b|pl pr]; cbn [denote_arg r_int_atom rarg_ok] in *.
    + apply small_lt in Ha. rewrite (blen_small v Ha), int_of_bytes_of_int.
      pose proof (len_for_value_le5 v) as L5.
      destruct fast; cbn [bind];
        replace (256 <? len_for_value v) with false by lia;
        rewrite ?andb_false_r;
        (destruct (check_cost _ m) as [[]|e]; cbn [bind]; [|reflexivity]);
        (destruct (limits && negb ncm && (1024 <? limbs (total * Z.of_N v))); [reflexivity|]);
        apply IH; exact Hl.
    + destruct fast; cbn [bind];
        (destruct (limits && negb ncm && (256 <? blen b)); [reflexivity|]);
        (destruct (check_cost _ m) as [[]|e]; cbn [bind]; [|reflexivity]);
        (destruct (limits && negb ncm && (1024 <? limbs (total * int_of_bytes b))); [reflexivity|]);
        apply IH; exact Hl.
    + destruct fast; reflexivity.
Qed.

Theorem op_multiply_r_eq fast f i m : rinput_ok i = true ->
  op_multiply_r fast f i m = op_multiply f (denote_input i) m.
Proof.
  destruct i as [l t]. intros Hok. apply rinput_ok_args in Hok.
  unfold op_multiply_r, op_multiply. cbn [fst].
  destruct l as [|a l].
  - rewrite denote_input_nil. destruct (denote_term_atom t) as [tb ->].
    rewrite number_bytes_spec. reflexivity.
  - rewrite forallb_cons in Hok. apply andb_prop in Hok. destruct Hok as [Ha Hl].
    rewrite denote_input_cons.
    rewrite (r_int_atom_denote a Ha).
    destruct (denote_arg a) as [b|pl pr]; cbn [int_atom bind]; [|reflexivity].
    destruct (f_limits f && negb (f_new_cost_model f) && (256 <? blen b)); [reflexivity|].
    match goal with |- bind ?x _ = bind ?x _ => destruct x as [c|e]; cbn [bind]; [|reflexivity] end.
    rewrite (mul_loop_r_eq fast _ _ _ t m l Hl).
    match goal with |- bind ?x _ = bind ?x _ => destruct x as [[c' tot]|e]; cbn [bind]; [|reflexivity] end.
    rewrite number_bytes_spec. reflexivity.
Qed.

Corollary op_multiply_fast_eq f i m : rinput_ok i = true ->
  op_multiply_fast f i m = op_multiply f (denote_input i) m.
Proof. apply op_multiply_r_eq. Qed.
Corollary op_multiply_nofast_eq f i m : rinput_ok i = true ->
  op_multiply_nofast f i m = op_multiply f (denote_input i) m.
Proof. apply op_multiply_r_eq. Qed.

(* ---------------------------------------------------------------- op_add *)
Lemma add_loop_r_eq ncm pa pb t m : forall l, forallb rarg_ok l = true ->
  forall cost acc,
  add_loop_r ncm pa pb l cost acc m = add_loop ncm pa pb (denote_input (l, t)) cost acc m.
Proof.
  induction l as [|a l IH]; intros Hok cost acc.
  - rewrite denote_input_nil. destruct (denote_term_atom t) as [tb ->]. reflexivity.
  - rewrite forallb_cons in Hok. apply andb_prop in Hok. destruct Hok as [Ha Hl].
    rewrite denote_input_cons. cbn [add_loop_r add_loop].
    destruct a as [v|b|pl pr]; cbn [denote_arg rarg_ok] in *.
    + apply small_lt in Ha. rewrite (blen_small v Ha), int_of_bytes_of_int.
      destruct (check_cost _ m) as [[]|e]; cbn [bind]; [|reflexivity]. apply IH; exact Hl.
    + destruct (check_cost _ m) as [[]|e]; cbn [bind]; [|reflexivity]. apply IH; exact Hl.
    + reflexivity.
Qed.

Theorem op_add_nofast_eq f i m : rinput_ok i = true ->
  op_add_nofast f i m = op_add f (denote_input i) m.
Proof.
  destruct i as [l t]. intros Hok. apply rinput_ok_args in Hok.
  unfold op_add_nofast, op_add. cbn [fst].
  destruct (arith_costs f) as [[base pa] pb].
  rewrite (add_loop_r_eq _ _ _ t m l Hok).
  destruct (add_loop _ _ _ _ _ _ _) as [[c tot]|e]; cbn [bind]; [|reflexivity].
  rewrite number_bytes_spec. reflexivity.
Qed.

Lemma limbs_u64_eq v : limbs_u64 v = limbs (Z.of_N v).
Proof.
  unfold limbs_u64, limbs. replace (Z.abs_N (Z.of_N v)) with v by lia.
  destruct (N.eqb_spec v 0) as [->|]; reflexivity.
Qed.

(* the u64 closure agrees with the generic loop whenever it does not ask for the fall-back *)
Lemma add_fast_sound ncm pa pb m : forall l cost total, total < two64 ->
  match add_fast_loop ncm pa pb l cost total m with
  | Ok (Some (c, t')) => add_loop_r ncm pa pb l cost (Z.of_N total) m = Ok (c, Z.of_N t') /\ t' < two64
  | Ok None => True
  | Err e => add_loop_r ncm pa pb l cost (Z.of_N total) m = Err e
  end.
Proof.
  induction l as [|a l IH]; intros cost total Ht.
  - cbn [add_fast_loop add_loop_r]. split; [reflexivity|exact Ht].
  - cbn [add_fast_loop add_loop_r]. destruct a as [v|b|pl pr]; [|exact I|exact I].
    rewrite limbs_u64_eq.
    destruct (check_cost _ m) as [[]|e]; cbn [bind]; [|reflexivity].
    unfold checked_add. destruct (N.ltb_spec (total + v) two64) as [Hs|Hs]; [|exact I].
    replace (Z.of_N total + Z.of_N v)%Z with (Z.of_N (total + v)) by lia.
    apply IH. exact Hs.
Qed.

Theorem op_add_fast_nofast f i m : op_add_fast f i m = op_add_nofast f i m.
Proof.
  unfold op_add_fast. unfold op_add_nofast at 2.
  destruct (arith_costs f) as [[base pa] pb] eqn:EC.
  pose proof (add_fast_sound (f_new_cost_model f) pa pb m (fst i) base 0) as S.
  change (Z.of_N 0) with 0%Z in S.
  destruct (add_fast_loop _ _ _ _ _ _ _) as [[[c t']|]|e]; cbn [bind].
  - destruct S as [S Ht]; [reflexivity|]. rewrite S. cbn [bind].
    rewrite number_bytes_spec, u64_bytes_spec; [reflexivity|exact Ht].
  - unfold op_add_nofast. rewrite EC. reflexivity.
  - rewrite S by reflexivity. reflexivity.
Qed.

Theorem op_add_fast_eq f i m : rinput_ok i = true ->
  op_add_fast f i m = op_add f (denote_input i) m.
Proof. intros Hok. rewrite op_add_fast_nofast. apply op_add_nofast_eq. exact Hok. Qed.

(* ---------------------------------------------------------------- op_subtract *)
Lemma sub_loop_r_eq ncm pa pb t m : forall l, forallb rarg_ok l = true ->
  forall cost acc fst,
  sub_loop_r ncm pa pb l cost acc fst m = sub_loop ncm pa pb (denote_input (l, t)) cost acc fst m.
Proof.
  induction l as [|a l IH]; intros Hok cost acc fst.
  - rewrite denote_input_nil. destruct (denote_term_atom t) as [tb ->]. reflexivity.
  - rewrite forallb_cons in Hok. apply andb_prop in Hok. destruct Hok as [Ha Hl].
    rewrite denote_input_cons. cbn [sub_loop_r sub_loop].
    destruct (check_cost (cost + pa) m) as [[]|e]; cbn [bind]; [|reflexivity].
    destruct a as [v|b|pl pr]; cbn [denote_arg rarg_ok] in *.
    + apply small_lt in Ha. rewrite (blen_small v Ha), int_of_bytes_of_int.
      destruct (check_cost _ m) as [[]|e]; cbn [bind]; [|reflexivity]. apply IH; exact Hl.
    + destruct (check_cost _ m) as [[]|e]; cbn [bind]; [|reflexivity]. apply IH; exact Hl.
    + reflexivity.
Qed.

Theorem op_subtract_nofast_eq f i m : rinput_ok i = true ->
  op_subtract_nofast f i m = op_subtract f (denote_input i) m.
Proof.
  destruct i as [l t]. intros Hok. apply rinput_ok_args in Hok.
  unfold op_subtract_nofast, op_subtract. cbn [fst].
  destruct (arith_costs f) as [[base pa] pb].
  rewrite (sub_loop_r_eq _ _ _ t m l Hok).
  destruct (sub_loop _ _ _ _ _ _ _ _) as [[c tot]|e]; cbn [bind]; [|reflexivity].
  rewrite number_bytes_spec. reflexivity.
Qed.

Lemma limbs_i64_eq z : limbs_i64 z = limbs z.
Proof.
  unfold limbs_i64, limbs_u64, limbs.
  destruct (Z.eqb_spec z 0) as [->|Hz]; [reflexivity|].
  destruct (N.eqb_spec (Z.abs_N z) 0) as [E|E]; [lia|reflexivity].
Qed.

Definition in_i64 (z : Z) : Prop := (I64_MIN <= z <= I64_MAX)%Z.

Lemma sub_fast_sound ncm pa pb m : forall l, forallb rarg_ok l = true ->
  forall cost total is_first, in_i64 total -> (is_first = true -> total = 0%Z) ->
  match sub_fast_loop ncm pa pb l cost total is_first m with
  | Ok (Some (c, t')) => sub_loop_r ncm pa pb l cost total is_first m = Ok (c, t') /\ in_i64 t'
  | Ok None => True
  | Err e => sub_loop_r ncm pa pb l cost total is_first m = Err e
  end.
Proof.
  induction l as [|a l IH]; intros Hok cost total is_first Ht Hf.
  - cbn [sub_fast_loop sub_loop_r]. split; [reflexivity|exact Ht].
  - rewrite forallb_cons in Hok. apply andb_prop in Hok. destruct Hok as [Ha Hl].
    cbn [sub_fast_loop sub_loop_r]. destruct a as [v|b|pl pr]; [|exact I|exact I].
    cbn [rarg_ok] in Ha. apply small_lt in Ha. change (2 ^ 26) with 67108864 in Ha.
    rewrite limbs_i64_eq.
    set (x := (if ncm then N.max (limbs total) (len_for_value v) else len_for_value v) * pb).
    unfold check_cost.
    destruct (N.ltb_spec m (cost + pa + x)) as [C2|C2]; cbn [bind].
    + destruct (N.ltb_spec m (cost + pa)); reflexivity.
    + destruct (N.ltb_spec m (cost + pa)) as [C1|C1]; [lia|]. cbn [bind].
      destruct is_first.
      * rewrite (Hf eq_refl). change (0 + Z.of_N v)%Z with (Z.of_N v).
        apply (IH Hl); [|discriminate]. unfold in_i64, I64_MIN, I64_MAX. lia.
      * unfold checked_sub_i64.
        destruct ((I64_MIN <=? total - Z.of_N v)%Z && (total - Z.of_N v <=? I64_MAX)%Z) eqn:R; [|exact I].
        apply (IH Hl); [|discriminate]. unfold in_i64. lia.
Qed.

Theorem op_subtract_fast_nofast f i m : rinput_ok i = true ->
  op_subtract_fast f i m = op_subtract_nofast f i m.
Proof.
  intros Hok. destruct i as [l t]. apply rinput_ok_args in Hok.
  unfold op_subtract_fast. unfold op_subtract_nofast at 2. cbn [fst].
  destruct (arith_costs f) as [[base pa] pb] eqn:EC.
  assert (in_i64 0%Z) as H0 by (unfold in_i64, I64_MIN, I64_MAX; lia).
  pose proof (sub_fast_sound (f_new_cost_model f) pa pb m l Hok base 0%Z true H0 (fun _ => eq_refl)) as S.
  destruct (sub_fast_loop _ _ _ _ _ _ _ _) as [[[c t']|]|e]; cbn [bind].
  - destruct S as [S Ht]. rewrite S. cbn [bind].
    rewrite number_bytes_spec, i64_bytes_spec; [reflexivity|].
    unfold in_i64, I64_MIN, I64_MAX in Ht. lia.
  - unfold op_subtract_nofast. cbn [fst]. rewrite EC. reflexivity.
  - rewrite S. reflexivity.
Qed.

Theorem op_subtract_fast_eq f i m : rinput_ok i = true ->
  op_subtract_fast f i m = op_subtract f (denote_input i) m.
Proof. intros Hok. rewrite (op_subtract_fast_nofast f i m Hok). apply op_subtract_nofast_eq. exact Hok. Qed.

(* ---------------------------------------------------------------- result nodes *)
(* the result node: new_u64 / new_i64 of the fast paths and new_number of the generic path leave
   the allocator in the same state (same counters, same inline/heap choice) *)
Lemma new_u64_is_new_number a v : u8_len a <= U32_MAX -> v < 2 ^ 64 ->
  new_u64 a v = new_number a (Z.of_N v).
Proof.
  intros Hu Hv. unfold new_u64, new_number. rewrite (u64_bytes_spec v Hv).
  destruct ((0 <=? Z.of_N v)%Z && (Z.of_N v <=? Z.of_N NODE_PTR_IDX_MASK)%Z) eqn:E.
  - apply andb_prop in E. destruct E as [_ E]. rewrite N2Z.id.
    assert (v <= NODE_PTR_IDX_MASK) as Hm by lia.
    unfold new_atom, new_small_number. rewrite (fits_small_roundtrip v Hm).
    assert (v < 2 ^ 26) as H26 by (unfold NODE_PTR_IDX_MASK in Hm; change (2 ^ 26) with 67108864; lia).
    rewrite (blen_small v H26).
    replace (NODE_PTR_IDX_MASK <? v) with false by lia.
    replace (u32 (u8_len a)) with (u8_len a) by (unfold u32, U32_MAX in *; lia).
    reflexivity.
  - rewrite strip_to_signed. reflexivity.
Qed.

Lemma new_i64_is_new_number a z : u8_len a <= U32_MAX -> (- 2 ^ 63 <= z < 2 ^ 63)%Z ->
  new_i64 a z = new_number a z.
Proof.
  intros Hu Hz. destruct (Z.leb_spec 0 z) as [Hp|Hn].
  - rewrite <- (Z2N.id z Hp) at 2. rewrite <- new_u64_is_new_number; [|exact Hu|].
    + unfold new_i64, new_u64, i64_bytes. destruct (Z.leb_spec 0 z); [reflexivity|lia].
    + change (2 ^ 64) with 18446744073709551616. change (2 ^ 63)%Z with 9223372036854775808%Z in Hz. lia.
  - unfold new_i64, new_number. rewrite (i64_bytes_spec z Hz).
    destruct (Z.leb_spec 0 z); [lia|]. cbn [andb]. rewrite strip_to_signed. reflexivity.
Qed.
