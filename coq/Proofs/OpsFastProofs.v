(* C05: the operator bodies of the default build (fast-path regions present) and of the
   no-fastpath build, transcribed over argument representations in Model/OpsFast.v, equal the
   tree-store operators of Model/OpsArith.v / Model/OpsStr.v on the denoted argument list: same
   cost and value, or the same error, for every flag set and budget. *)
From Clvm Require Import Model.OpsFast Model.Alloc Model.Sha256 Gen.Tables Gen.FastPath
  Proofs.BytesLemmas Proofs.IntEncBasics Proofs.IntEncProofs Proofs.AllocEnc Proofs.C05Table
  Proofs.TableProofs.
From Coq Require Import Lia ZifyBool ZifyN ZifyNat.
Ltac Zify.zify_post_hook ::= Z.div_mod_to_equations.
Open Scope N_scope.
Arguments N.add : simpl never.
Arguments N.sub : simpl never.
Arguments N.mul : simpl never.
Arguments N.div : simpl never.
Arguments N.eqb : simpl never.
Arguments N.ltb : simpl never.
Arguments N.leb : simpl never.
Arguments N.max : simpl never.
Arguments Z.add : simpl never.
Arguments Z.sub : simpl never.
Arguments Z.mul : simpl never.
Arguments Z.ltb : simpl never.
Arguments Z.leb : simpl never.
Arguments bytes_of_int : simpl never.
Arguments int_of_bytes : simpl never.
Arguments len_for_value : simpl never.
Arguments limbs : simpl never.
Arguments OpsFast.limbs_u64 : simpl never.
Arguments OpsFast.limbs_i64 : simpl never.
Arguments u64_bytes : simpl never.
Arguments i64_bytes : simpl never.
Arguments OpsFast.number_bytes : simpl never.

(* ---------------------------------------------------------------- representation reads *)

Lemma small_lt v : (v <? 67108864) = true -> v < 2 ^ 26.
Proof. change (2 ^ 26) with 67108864. lia. Qed.

Lemma blen_small v : v < 2 ^ 26 -> blen (bytes_of_int (Z.of_N v)) = len_for_value v.
Proof. intros Hv. unfold blen. rewrite <- (len_for_value_spec v Hv). lia. Qed.

Lemma denote_term_atom t : exists b, denote_term t = Atom b.
Proof. destruct t; eexists; reflexivity. Qed.

Lemma r_int_atom_denote a : rarg_ok a = true -> r_int_atom a = int_atom (denote_arg a).
Proof.
  destruct a as [v|b|l r]; cbn [rarg_ok r_int_atom denote_arg int_atom]; intros Hok; try reflexivity.
  apply small_lt in Hok. rewrite int_of_bytes_of_int, (blen_small v Hok). reflexivity.
Qed.

(* an operand on which Allocator::small_number answers Some v denotes the canonical bytes of v *)
Lemma r_small_number_some a v : rarg_ok a = true -> r_small_number a = Some v ->
  denote_arg a = Atom (bytes_of_int (Z.of_N v)) /\ v < 2 ^ 26.
Proof.
  destruct a as [w|b|l r]; cbn [rarg_ok r_small_number denote_arg]; intros Hok Hs.
  - apply Some_inj in Hs. subst w. split; [reflexivity|apply small_lt; exact Hok].
  - apply (fits_in_small_atom_spec b v Hok) in Hs. destruct Hs as [-> Hv]. split; [reflexivity|exact Hv].
  - discriminate.
Qed.

Lemma int_atom_small v : v < 2 ^ 26 ->
  int_atom (Atom (bytes_of_int (Z.of_N v))) = Ok (Z.of_N v, len_for_value v).
Proof. intros Hv. cbn [int_atom]. rewrite int_of_bytes_of_int, (blen_small v Hv). reflexivity. Qed.

Lemma number_bytes_spec z : number_bytes z = bytes_of_int z.
Proof.
  unfold number_bytes.
  destruct ((0 <=? z)%Z && (z <=? Z.of_N NODE_PTR_IDX_MASK)%Z) eqn:E.
  - apply andb_prop in E. destruct E as [E0 E1].
    rewrite small_bytes_spec by lia. rewrite Z2N.id by lia. reflexivity.
  - apply strip_to_signed.
Qed.

Lemma forallb_cons {A} (p : A -> bool) x l : forallb p (x :: l) = p x && forallb p l.
Proof. reflexivity. Qed.

Lemma rinput_ok_args l t : rinput_ok (l, t) = true -> forallb rarg_ok l = true.
Proof. unfold rinput_ok. cbn [fst snd]. intros H. apply andb_prop in H. tauto. Qed.

Lemma denote_input_cons a l t : denote_input (a :: l, t) = Cons (denote_arg a) (denote_input (l, t)).
Proof. reflexivity. Qed.
Lemma denote_input_nil t : denote_input ([], t) = denote_term t.
Proof. reflexivity. Qed.

(* ---------------------------------------------------------------- op_gr *)

Lemma get_args2_denote l t :
  get_args2 (denote_input (l, t)) =
  match l with [a; b] => Ok (denote_arg a, denote_arg b) | _ => bad_arg end.
Proof.
  destruct (denote_term_atom t) as [tb Ht].
  destruct l as [|a [|b [|c l]]]; rewrite ?denote_input_cons, ?denote_input_nil, ?Ht; reflexivity.
Qed.

Theorem op_gr_nofast_eq f i m : rinput_ok i = true ->
  op_gr_nofast f i m = op_gr f (denote_input i) m.
Proof.
  destruct i as [l t]. intros Hok. apply rinput_ok_args in Hok.
  unfold op_gr_nofast, op_gr, r_match_args2. rewrite get_args2_denote. cbn [fst].
  destruct l as [|a [|b [|c l]]]; try reflexivity.
  rewrite !forallb_cons in Hok. apply andb_prop in Hok. destruct Hok as [Ha Hb].
  apply andb_prop in Hb. destruct Hb as [Hb _].
  cbn [bind]. unfold gr_costs.
  rewrite (r_int_atom_denote a Ha), (r_int_atom_denote b Hb).
  destruct (f_new_cost_model f); reflexivity.
Qed.

Theorem op_gr_fast_eq f i m : rinput_ok i = true ->
  op_gr_fast f i m = op_gr f (denote_input i) m.
Proof.
  intros Hok. rewrite <- (op_gr_nofast_eq f i m Hok).
  destruct i as [l t]. apply rinput_ok_args in Hok.
  unfold op_gr_fast, op_gr_nofast, r_match_args2. cbn [fst].
  destruct l as [|a [|b [|c l]]]; try reflexivity.
  rewrite !forallb_cons in Hok. apply andb_prop in Hok. destruct Hok as [Ha Hb].
  apply andb_prop in Hb. destruct Hb as [Hb _].
  destruct (gr_costs f) as [base per_byte].
  destruct (r_small_number a) as [lhs|] eqn:Sa; [|reflexivity].
  destruct (r_small_number b) as [rhs|] eqn:Sb; [|reflexivity].
  destruct (r_small_number_some a lhs Ha Sa) as [Da La].
  destruct (r_small_number_some b rhs Hb Sb) as [Db Lb].
  rewrite (r_int_atom_denote a Ha), (r_int_atom_denote b Hb), Da, Db.
  rewrite (int_atom_small lhs La), (int_atom_small rhs Lb). cbn [bind].
  replace (Z.of_N rhs <? Z.of_N lhs)%Z with (rhs <? lhs) by lia. reflexivity.
Qed.
