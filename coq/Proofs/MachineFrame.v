(* The frame lemma of the stack machine of Model/Machine.v.

   A state is split into an upper part u and a frame F = (values, environments, operations)
   lying below it: [under F u]. The guard stack is NOT split: the upper part sees the whole guard
   stack, because guard entry reads its length (LIMIT_SOFTFORK nesting limit), its top operator
   set and its top expected cost (the effective budget). So "the upper part run alone" is the run
   of [u] itself - same guard stack, same budget - and the frame lemma says

       as long as the upper operation stack is not empty, one step of [under F u] is one step of
       [u] with the frame put back under the result, errors included              (step_under)

   provided the upper part never underflows into the frame: [upper gb u] = the stack discipline
   of Proofs/MachineTotal.v ([ok_stacks]) for the upper stacks alone, counting only the guards
   above a base guard stack [gb] (the guards that were there when the upper part started). The
   invariant is established by [eval_pair] from an empty upper part ([eval_pair_upper0]) and
   preserved by every step ([step_upper]).

   Multi-step form: [run_upper] iterates [step] on the upper part until its operation stack is
   empty; then the state is exactly one value, no environment, the base guard stack
   ([run_upper_final]) and
       run_loop (under F u) = run_loop (under F (final state of run_upper u))    (run_loop_frame)
   as an equation between outcomes (successes, errors and fuel alike). *)
From Coq Require Import Lia ZifyBool ZifyN ZifyNat.
From Clvm Require Import Model.Machine Proofs.MachineBasics Proofs.MachineTotal.
Open Scope N_scope.

Record frame := { fr_vals : list sexp; fr_envs : list sexp; fr_ops : list operation }.

Definition under (F : frame) (u : mstate) : mstate :=
  {| vals := vals u ++ fr_vals F; envs := envs u ++ fr_envs F; ops := ops u ++ fr_ops F;
     guards := guards u |}.

Definition empty_frame : frame := {| fr_vals := []; fr_envs := []; fr_ops := [] |}.

Lemma under_empty u : under empty_frame u = u.
Proof. destruct u; unfold under; cbn. rewrite !app_nil_r. reflexivity. Qed.

Definition lift_f {A} (F : frame) (r : res (A * mstate)) : res (A * mstate) :=
  match r with Ok (a, s) => Ok (a, under F s) | Err e => Err e end.

Definition lift_r (F : frame) (r : res ((N * mstate) + (N * mstate))) : res ((N * mstate) + (N * mstate)) :=
  match r with
  | Ok (inl (c, s)) => Ok (inl (c, under F s))
  | Ok (inr (c, s)) => Ok (inr (c, under F s))
  | Err e => Err e
  end.

(* ------------------------------------------------------------------ frame parametricity *)
Lemma push_under v F u : push v (under F u) = under F (push v u).
Proof. reflexivity. Qed.
Lemma push_env_under v F u : push_env v (under F u) = under F (push_env v u).
Proof. reflexivity. Qed.
Lemma push_op_under o F u : push_op o (under F u) = under F (push_op o u).
Proof. reflexivity. Qed.

Lemma push_operands_under F o : forall u,
  push_operands o (under F u) = res_map (under F) (push_operands o u).
Proof.
  induction o as [b | a _ r IHr]; intros u; cbn [push_operands].
  - destruct b; reflexivity.
  - rewrite push_op_under, push_under. apply IHr.
Qed.

Lemma eval_op_atom_under d F u o l e :
  eval_op_atom d (under F u) o l e = lift_f F (eval_op_atom d u o l e).
Proof.
  unfold eval_op_atom. destruct (is_kw o (d_quote d)); [reflexivity|].
  destruct (d_gc d o).
  - rewrite push_op_under, push_env_under, push_op_under, push_under, push_operands_under.
    destruct (push_operands l _); reflexivity.
  - rewrite push_env_under, push_op_under, push_under, push_operands_under.
    destruct (push_operands l _); reflexivity.
Qed.

Lemma eval_pair_under d F u p e :
  eval_pair d (under F u) p e = lift_f F (eval_pair d u p e).
Proof.
  unfold eval_pair. destruct p as [b | opn opl].
  - destruct (traverse_path b e) as [[c v]|]; reflexivity.
  - destruct opn as [b | no tl].
    + apply eval_op_atom_under.
    + destruct tl; [destruct no|]; reflexivity.
Qed.

Lemma enter_guard_under d F u ol cost m :
  enter_guard d (under F u) ol cost m = lift_f F (enter_guard d u ol cost m).
Proof.
  unfold enter_guard.
  destruct (first ol) as [fa|]; cbn [bind]; [|reflexivity].
  destruct (uint_atom 8 _ fa) as [ec|]; cbn [bind]; [|reflexivity].
  destruct (m <? ec); [reflexivity|]. destruct (ec =? 0); [reflexivity|].
  destruct (parse_softfork_arguments d ol) as [[[ext prg] env]|err].
  2:{ destruct (d_allow_unknown d); reflexivity. }
  cbn [guards under].
  destruct (_ && _)%bool; [reflexivity|].
  cbn [vals envs ops].
  match goal with |- (do '(c, s5) <- eval_pair d ?S1 prg env; _) = lift_f F (do '(c, s5) <- eval_pair d ?S2 prg env; _) =>
    change S1 with (under F S2); rewrite (eval_pair_under d F S2 prg env);
    destruct (eval_pair d S2 prg env) as [[c s5]|]; reflexivity end.
Qed.

(* the operations that pop: they commute with the frame when the upper part holds what they pop *)
Lemma apply_op_under d F u ol opr vs e0 es cost m :
  vals u = ol :: opr :: vs -> envs u = e0 :: es ->
  apply_op d (under F u) cost m = lift_f F (apply_op d u cost m).
Proof.
  intros Hv He. unfold apply_op, pop. cbn [under vals envs ops guards]. rewrite Hv, He.
  cbn [app bind vals envs ops guards].
  set (s3 := {| vals := vs; envs := es; ops := ops u; guards := guards u |}).
  change {| vals := vs ++ fr_vals F; envs := es ++ fr_envs F; ops := ops u ++ fr_ops F; guards := guards u |}
    with (under F s3).
  destruct (is_kw opr (d_apply d)).
  - destruct (get_args2 ol) as [[no env]|]; cbn [bind]; [|reflexivity].
    rewrite eval_pair_under. destruct (eval_pair d s3 no env) as [[c s4]|]; reflexivity.
  - destruct (is_kw opr (d_softfork d)).
    + apply enter_guard_under.
    + change (current_extensions (under F s3)) with (current_extensions s3).
      destruct (d_op d opr ol m _) as [[c v]|]; reflexivity.
Qed.

Lemma cons_op_under F u v1 v2 vs : vals u = v1 :: v2 :: vs ->
  cons_op (under F u) = lift_f F (cons_op u).
Proof.
  intros Hv. unfold cons_op, pop. cbn [under vals envs ops guards]. rewrite Hv. reflexivity.
Qed.

Lemma swap_eval_op_under d F u v2 prog vs e0 es : vals u = v2 :: prog :: vs -> envs u = e0 :: es ->
  swap_eval_op d (under F u) = lift_f F (swap_eval_op d u).
Proof.
  intros Hv He. unfold swap_eval_op, pop. cbn [under vals envs ops guards]. rewrite Hv, He.
  cbn [app bind vals envs ops guards].
  match goal with |- eval_pair d ?S1 prog e0 = lift_f F (eval_pair d ?S2 prog e0) =>
    change S1 with (under F S2) end.
  apply eval_pair_under.
Qed.

Lemma exit_guard_under F u v vs cost : vals u = v :: vs ->
  exit_guard (under F u) cost = lift_f F (exit_guard u cost).
Proof.
  intros Hv. unfold exit_guard. cbn [under vals envs ops guards]. rewrite Hv.
  destruct (guards u) as [|g gs]; [reflexivity|].
  destruct (_ && _)%bool; reflexivity.
Qed.

(* ------------------------------------------------------------------ the upper-part invariant *)
Definition upper (gb : list guard) (u : mstate) : Prop :=
  exists ug, guards u = ug ++ gb /\
             ok_stacks (ops u) (length (vals u)) (length (envs u)) (length ug) = true.

Lemma eval_pair_ok_gen d s p e c s' ng : eval_pair d s p e = Ok (c, s') ->
  ok_stacks (ops s') (length (vals s')) (length (envs s')) ng =
  ok_stacks (ops s) (S (length (vals s))) (length (envs s)) ng.
Proof.
  intros H. pose (gs := repeat {| g_expected := 0; g_opset := OsDefault |} ng).
  pose proof (eval_pair_set_guards d s gs p e) as E. rewrite H in E. cbn [lift_s] in E.
  apply eval_pair_oks in E. unfold oks in E. cbn [set_guards ops vals envs guards] in E.
  subst gs. rewrite repeat_length in E. exact E.
Qed.

Lemma eval_pair_upper d gb s p e c s' ug : eval_pair d s p e = Ok (c, s') ->
  guards s = ug ++ gb ->
  ok_stacks (ops s) (S (length (vals s))) (length (envs s)) (length ug) = true ->
  upper gb s'.
Proof.
  intros H Hg Hk. exists ug. split.
  - rewrite (eval_pair_guards _ _ _ _ _ _ H). exact Hg.
  - rewrite (eval_pair_ok_gen _ _ _ _ _ _ _ H). exact Hk.
Qed.

(* what eval_pair builds on top of nothing is an upper part over the guard stack it started on *)
Lemma eval_pair_upper0 d gb p e c u :
  eval_pair d {| vals := []; envs := []; ops := []; guards := gb |} p e = Ok (c, u) -> upper gb u.
Proof.
  intros H. apply (eval_pair_upper _ _ _ _ _ _ _ [] H); reflexivity.
Qed.

Lemma upper_final gb u : upper gb u -> ops u = [] ->
  exists v, u = {| vals := [v]; envs := []; ops := []; guards := gb |}.
Proof.
  intros (ug & Hg & Hk) Ho. rewrite Ho in Hk. cbn [ok_stacks] in Hk.
  destruct u as [vs es os gs]; cbn in *. subst os.
  destruct vs as [|v [|? ?]]; cbn in Hk; try discriminate.
  destruct es; cbn in Hk; try discriminate.
  destruct ug; cbn in Hk; try discriminate. cbn in Hg. subst gs. exists v. reflexivity.
Qed.

Section Frame.
  Variable d : dialect.

  (* one step of the upper part: same step under the frame; the invariant is kept *)
  Lemma step_under F gb M cost u : upper gb u -> ops u <> [] ->
    step d M cost (under F u) = lift_r F (step d M cost u) /\
    forall c' u', step d M cost u = Ok (inl (c', u')) -> upper gb u'.
  Proof.
    intros (ug & Hg & Hk) Hne. unfold step.
    change (effective_max (under F u) M) with (effective_max u M).
    destruct (effective_max u M <? cost); [split; [reflexivity|discriminate]|].
    change (ops (under F u)) with (ops u ++ fr_ops F).
    destruct (ops u) as [|o rest_ops] eqn:Eo; [contradiction|]. clear Hne.
    cbn [app].
    set (s0 := {| vals := vals u; envs := envs u; ops := rest_ops; guards := guards u |}).
    change {| vals := vals (under F u); envs := envs (under F u); ops := rest_ops ++ fr_ops F; guards := guards (under F u) |}
      with (under F s0).
    destruct o; cbn [ok_stacks] in Hk.
    - (* apply *)
      apply andb_prop in Hk as [Hk H3]. apply andb_prop in Hk as [H1 H2].
      destruct (vals u) as [|ol [|opr vs]] eqn:Ev; cbn in H1; try discriminate.
      destruct (envs u) as [|e0 es] eqn:Ee; cbn in H2; [discriminate|].
      cbn [length] in H3.
      replace (S (S (length vs)) - 1)%nat with (S (length vs)) in H3 by lia.
      replace (S (length es) - 1)%nat with (length es) in H3 by lia.
      rewrite (apply_op_under d F s0 ol opr vs e0 es) by reflexivity.
      split.
      { destruct (apply_op d s0 cost _) as [[c s'']|]; reflexivity. }
      intros c' u' H.
      destruct (apply_op d s0 cost _) as [[c s'']|] eqn:E; cbn [bind] in H; [|discriminate].
      injection H as _ <-. unfold apply_op, pop in E. cbn [s0 vals envs ops guards bind] in E.
      set (s3 := {| vals := vs; envs := es; ops := rest_ops; guards := guards u |}) in *.
      destruct (is_kw opr (d_apply d)).
      + destruct (get_args2 ol) as [[no env]|]; cbn [bind] in E; [|discriminate].
        destruct (eval_pair d s3 no env) as [[c0 s4]|] eqn:EP; cbn [bind] in E; [|discriminate].
        injection E as _ <-. apply (eval_pair_upper _ _ _ _ _ _ _ ug EP); [exact Hg|exact H3].
      + destruct (is_kw opr (d_softfork d)).
        * unfold enter_guard in E.
          destruct (first ol); cbn [bind] in E; [|discriminate].
          destruct (uint_atom 8 _ _); cbn [bind] in E; [|discriminate].
          destruct (_ <? _); [discriminate|]. destruct (_ =? 0); [discriminate|].
          destruct (parse_softfork_arguments d ol) as [[[ext prg] env]|].
          2:{ destruct (d_allow_unknown d); [|discriminate]. injection E as _ <-.
              exists ug. split; [exact Hg|]. cbn [push s3 vals envs ops guards length]. exact H3. }
          destruct (_ && _)%bool; [discriminate|].
          match type of E with (do '(c, s5) <- eval_pair d ?S prg env; _) = _ =>
            destruct (eval_pair d S prg env) as [[c0 s5]|] eqn:EP; cbn [bind] in E; [|discriminate] end.
          injection E as _ <-.
          eapply (eval_pair_upper d gb _ prg env c0 s5 (_ :: ug) EP).
          -- cbn [guards s3]. rewrite Hg. reflexivity.
          -- cbn [ops vals envs s3 length ok_stacks].
             replace (S (length ug) - 1)%nat with (length ug) by lia. exact H3.
        * destruct (d_op d opr ol _ _) as [[c0 v]|]; cbn [bind] in E; [|discriminate].
          injection E as _ <-. exists ug. split; [exact Hg|].
          cbn [push s3 vals envs ops guards length]. exact H3.
    - (* cons *)
      apply andb_prop in Hk as [H1 H3].
      destruct (vals u) as [|v1 [|v2 vs]] eqn:Ev; cbn in H1; try discriminate.
      rewrite (cons_op_under F s0 v1 v2 vs) by reflexivity.
      unfold cons_op, pop. cbn [s0 vals envs ops guards bind lift_f lift_r].
      split; [reflexivity|]. intros c' u' H. injection H as _ <-.
      exists ug. split; [exact Hg|]. cbn [push vals envs ops guards length] in *.
      replace (S (S (length vs)) - 1)%nat with (S (length vs)) in H3 by lia. exact H3.
    - (* exit guard *)
      apply andb_prop in Hk as [Hk H3]. apply andb_prop in Hk as [H1 H2].
      destruct (vals u) as [|v vs] eqn:Ev; cbn in H1; [discriminate|].
      rewrite (exit_guard_under F s0 v vs) by reflexivity.
      split.
      { destruct (exit_guard s0 cost) as [[c s'']|]; reflexivity. }
      intros c' u' H.
      destruct (exit_guard s0 cost) as [[c s'']|] eqn:E; cbn [bind] in H; [|discriminate].
      injection H as _ <-. unfold exit_guard in E. cbn [s0 vals envs ops guards] in E.
      destruct ug as [|g ug']; cbn in H2; [discriminate|]. rewrite Hg in E. cbn [app] in E.
      destruct (_ && _)%bool; [discriminate|]. injection E as _ <-.
      exists ug'. split; [reflexivity|]. cbn [vals envs ops guards length] in *.
      replace (S (length ug') - 1)%nat with (length ug') in H3 by lia. exact H3.
    - (* swap eval *)
      apply andb_prop in Hk as [Hk H3]. apply andb_prop in Hk as [H1 H2].
      destruct (vals u) as [|v2 [|prog vs]] eqn:Ev; cbn in H1; try discriminate.
      destruct (envs u) as [|e0 es] eqn:Ee; cbn in H2; [discriminate|].
      rewrite (swap_eval_op_under d F s0 v2 prog vs e0 es) by reflexivity.
      split.
      { destruct (swap_eval_op d s0) as [[c s'']|]; reflexivity. }
      intros c' u' H.
      destruct (swap_eval_op d s0) as [[c s'']|] eqn:E; cbn [bind] in H; [|discriminate].
      injection H as _ <-. unfold swap_eval_op, pop in E. cbn [s0 vals envs ops guards bind] in E.
      apply (eval_pair_upper _ _ _ _ _ _ _ ug E); [exact Hg|].
      cbn [push push_op ops vals envs guards length ok_stacks]. cbn [length] in H3.
      replace (S (S (length vs)) - 1)%nat with (S (length vs)) in * by lia.
      replace (S (S (length vs)) - 1)%nat with (S (length vs)) by lia.
      exact H3.
    - (* restore *)
      apply andb_prop in Hk as [H1 H3].
      destruct (vals u) as [|v vs] eqn:Ev; cbn in H1; [discriminate|].
      cbn [under s0 vals app bind lift_r].
      split; [reflexivity|]. intros c' u' H. injection H as _ <-.
      exists ug. split; [exact Hg|]. cbn [vals envs ops guards]. exact H3.
  Qed.

  Lemma step_upper gb M cost u c' u' : upper gb u ->
    step d M cost u = Ok (inl (c', u')) -> upper gb u'.
  Proof.
    intros Hu H. assert (Hne : ops u <> []).
    { intros Ho. unfold step in H. rewrite Ho in H. destruct (_ <? _); discriminate. }
    exact (proj2 (step_under empty_frame gb M cost u Hu Hne) c' u' H).
  Qed.

  Lemma step_cost_mono M cost s c' s' : step d M cost s = Ok (inl (c', s')) -> cost <= c'.
  Proof.
    unfold step. destruct (_ <? _); [discriminate|]. destruct (ops s); [discriminate|].
    match goal with |- (do '(c, s'') <- ?X ; _) = _ -> _ => destruct X as [[c0 s0]|]; cbn [bind]; [|discriminate] end.
    intros H; injection H as <- _. lia.
  Qed.

  Lemma step_inr M cost s c' s' : step d M cost s = Ok (inr (c', s')) ->
    ops s = [] /\ c' = cost /\ s' = s /\ (effective_max s M <? cost) = false.
  Proof.
    unfold step. destruct (_ <? _); [discriminate|]. destruct (ops s).
    - intros H; injection H as <- <-. repeat split.
    - match goal with |- (do '(c, s'') <- ?X ; _) = _ -> _ => destruct X as [[c0 s0]|]; cbn [bind]; discriminate end.
  Qed.

  (* ---------------------------------------------------------------- running the upper part *)
  (* iterate [step] until the operation stack of [u] is empty; returns the unused fuel *)
  Fixpoint run_upper (fuel : nat) (M cost : N) (u : mstate) : res (nat * N * mstate) :=
    match ops u with
    | [] => Ok (fuel, cost, u)
    | _ :: _ =>
        match fuel with
        | O => Err OutOfFuel
        | S f =>
            do r <- step d M cost u;
            match r with
            | inl (c', u') => run_upper f M c' u'
            | inr (c', u') => Ok (f, c', u')
            end
        end
    end.

  Lemma run_upper_done fuel M cost u : ops u = [] -> run_upper fuel M cost u = Ok (fuel, cost, u).
  Proof. intros H. destruct fuel; cbn [run_upper]; rewrite H; reflexivity. Qed.

  Lemma run_upper_final gb fuel : forall M cost u f' c' u', upper gb u ->
    run_upper fuel M cost u = Ok (f', c', u') ->
    (exists v, u' = {| vals := [v]; envs := []; ops := []; guards := gb |}) /\
    (f' <= fuel)%nat /\ cost <= c'.
  Proof.
    induction fuel as [|fuel IH]; intros M cost u f' c' u' Hu H.
    - cbn [run_upper] in H. destruct (ops u) eqn:Eo; [|discriminate].
      injection H as <- <- <-. split; [apply upper_final; assumption|]. split; lia.
    - cbn [run_upper] in H. destruct (ops u) eqn:Eo.
      + injection H as <- <- <-. split; [apply upper_final; assumption|]. split; lia.
      + destruct (step d M cost u) as [[[c1 u1]|[c1 u1]]|] eqn:E; cbn [bind] in H; try discriminate.
        * pose proof (step_upper _ _ _ _ _ _ Hu E) as Hu1. pose proof (step_cost_mono _ _ _ _ _ E) as Hc.
          destruct (IH _ _ _ _ _ _ Hu1 H) as (Hv & Hf & Hc'). split; [exact Hv|]. split; lia.
        * apply step_inr in E. destruct E as (Ho & _). congruence.
  Qed.

  (* THE FRAME LEMMA: a framed run is the run of the upper part followed by the run of the
     frame with the upper part's single result on top - same outcome, same fuel accounting. *)
  Theorem run_loop_frame F gb fuel : forall M cost u, upper gb u ->
    run_loop d fuel M cost (under F u) =
    match run_upper fuel M cost u with
    | Ok (f', c', u') => run_loop d f' M c' (under F u')
    | Err e => Err e
    end.
  Proof.
    induction fuel as [|fuel IH]; intros M cost u Hu.
    - cbn [run_upper]. destruct (ops u); reflexivity.
    - cbn [run_upper]. destruct (ops u) as [|o r] eqn:Eo; [reflexivity|].
      assert (Hne : ops u <> []) by (rewrite Eo; discriminate).
      destruct (step_under F gb M cost u Hu Hne) as [Hs Hinv].
      cbn [run_loop]. rewrite Hs.
      destruct (step d M cost u) as [[[c1 u1]|[c1 u1]]|] eqn:E; cbn [lift_r bind].
      + apply IH. exact (Hinv _ _ eq_refl).
      + apply step_inr in E. destruct E as (Ho & _). congruence.
      + reflexivity.
  Qed.

  (* the same with an explicit final state *)
  Corollary run_loop_frame_ok F gb fuel M cost u f' c' u' : upper gb u ->
    run_upper fuel M cost u = Ok (f', c', u') ->
    exists v, u' = {| vals := [v]; envs := []; ops := []; guards := gb |} /\
      (f' <= fuel)%nat /\ cost <= c' /\
      run_loop d fuel M cost (under F u) =
      run_loop d f' M c' {| vals := v :: fr_vals F; envs := fr_envs F; ops := fr_ops F; guards := gb |}.
  Proof.
    intros Hu H. destruct (run_upper_final gb fuel M cost u f' c' u' Hu H) as ((v & ->) & Hf & Hc).
    exists v. repeat split; try assumption.
    rewrite (run_loop_frame F gb fuel M cost u Hu), H. reflexivity.
  Qed.

  Corollary run_loop_frame_err F gb fuel M cost u e : upper gb u ->
    run_upper fuel M cost u = Err e -> run_loop d fuel M cost (under F u) = Err e.
  Proof. intros Hu H. rewrite (run_loop_frame F gb fuel M cost u Hu), H. reflexivity. Qed.

  (* the run of the upper part alone, in terms of run_upper: it ends with the budget check of the
     last step and returns the single value *)
  Lemma run_loop_upper gb fuel M cost u : upper gb u ->
    run_loop d fuel M cost u =
    match run_upper fuel M cost u with
    | Ok (f', c', u') =>
        match f' with
        | O => Err OutOfFuel
        | S _ => if effective_max u' M <? c' then Err CostExceeded
                 else match vals u' with v :: _ => Ok (c', v) | [] => Err (InternalError 1) end
        end
    | Err e => Err e
    end.
  Proof.
    intros Hu. pose proof (run_loop_frame empty_frame gb fuel M cost u Hu) as H.
    rewrite under_empty in H. rewrite H.
    destruct (run_upper fuel M cost u) as [[[f' c'] u']|] eqn:E; [|reflexivity].
    destruct (run_upper_final gb fuel M cost u f' c' u' Hu E) as ((v & ->) & _).
    rewrite under_empty. destruct f'; [reflexivity|].
    cbn [run_loop]. unfold step. cbn [ops vals]. destruct (_ <? _); reflexivity.
  Qed.

  (* The form in which the lemma is used: if the upper part run alone (same guard stack, same
     budget) succeeds with (C, v), the framed run continues, with less fuel, from the frame with v
     pushed, at cost C; if it fails (other than by fuel or by the final budget check, which the
     frame's next step repeats), the framed run fails in the same way. *)
  Theorem frame_ok F gb fuel M cost u C v : upper gb u ->
    run_loop d fuel M cost u = Ok (C, v) ->
    exists f', (f' < fuel)%nat /\ cost <= C /\
      C <= effective_max {| vals := [v]; envs := []; ops := []; guards := gb |} M /\
      run_upper fuel M cost u = Ok (S f', C, {| vals := [v]; envs := []; ops := []; guards := gb |}) /\
      run_loop d fuel M cost (under F u) =
      run_loop d (S f') M C {| vals := v :: fr_vals F; envs := fr_envs F; ops := fr_ops F; guards := gb |}.
  Proof.
    intros Hu H. rewrite (run_loop_upper gb fuel M cost u Hu) in H.
    destruct (run_upper fuel M cost u) as [[[f' c'] u']|] eqn:E; [|discriminate].
    destruct (run_loop_frame_ok F gb fuel M cost u f' c' u' Hu E) as (v' & -> & Hf & Hc & Hrun).
    destruct f' as [|f']; [discriminate|]. cbn [vals guards] in H.
    destruct (_ <? _) eqn:Eb; [discriminate|]. injection H as <- <-.
    exists f'. split; [lia|]. split; [exact Hc|]. split.
    - lia.
    - split; [reflexivity|exact Hrun].
  Qed.
End Frame.
