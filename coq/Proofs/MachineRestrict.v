(* Two dialects run on the same program, where the first is "the second with some successes
   removed": every success of the first is the same success of the second, and an error of the
   first is either matched by the same error of the second or belongs to a class E of errors that
   need no matching. Instances: restriction flags (C07; E = every error), a dialect cut down to
   the opcodes two dialects share (C30; E = the barrier error), a dialect without wrapping
   unknown-operator costs (C02 tightness; E = the barrier error). The two runs go through the
   SAME machine states, so no state relation is needed. *)
From Coq Require Import Lia ZifyBool ZifyN ZifyNat.
From Clvm Require Import Model.Machine Proofs.MachineBasics.
Open Scope N_scope.

Section Restrict.
  Variables d1 d2 : dialect.
  Variable E : errkind -> Prop.

  Definition rr {X} (r1 r2 : res X) : Prop :=
    match r1 with
    | Ok a => r2 = Ok a
    | Err e => E e \/ r2 = Err e
    end.

  Hypothesis Hq : d_quote d1 = d_quote d2.
  Hypothesis Ha : d_apply d1 = d_apply d2.
  Hypothesis Hgc : forall o, d_gc d1 o = d_gc d2 o.
  Hypothesis Hop : forall o a m ext, rr (d_op d1 o a m ext) (d_op d2 o a m ext).

  (* softfork guards: either the first dialect never recognises the softfork keyword and fails
     (with an error of class E) on every operator the second one treats as softfork, or both
     agree on everything guard entry reads *)
  Definition guards_agree : Prop :=
    d_softfork d1 = d_softfork d2 /\
    (forall x, d_ext d1 x = d_ext d2 x) /\
    f_new_cost_model (d_flags d1) = f_new_cost_model (d_flags d2) /\
    (forall size t, rr (uint_atom size (f_canonical_ints (d_flags d1)) t)
                       (uint_atom size (f_canonical_ints (d_flags d2)) t)) /\
    (* a guard argument that the first dialect rejects and the second parses must be fatal in the
       first dialect (this is what finding F8 violates) *)
    (f_canonical_ints (d_flags d1) = f_canonical_ints (d_flags d2) \/ d_allow_unknown d1 = false) /\
    (d_allow_unknown d1 = d_allow_unknown d2 \/ (d_allow_unknown d2 = true /\ forall e, E e)) /\
    (f_limit_softfork (d_flags d1) = f_limit_softfork (d_flags d2) \/
     (f_limit_softfork (d_flags d2) = false /\ E SoftforkStackDepth)).
  Definition guards_barred : Prop :=
    (forall opr, is_kw opr (d_softfork d1) = false) /\
    (forall opr a m ext, is_kw opr (d_softfork d2) = true -> exists e, d_op d1 opr a m ext = Err e /\ E e).
  Hypothesis Hguards : guards_barred \/ guards_agree.

  Lemma rr_refl {X} (r : res X) : rr r r.
  Proof. destruct r; cbn; auto. Qed.

  Lemma rr_bind {X Y} (m1 m2 : res X) (f1 f2 : X -> res Y) :
    rr m1 m2 -> (forall x, rr (f1 x) (f2 x)) -> rr (bind m1 f1) (bind m2 f2).
  Proof.
    intros Hm Hf. destruct m1 as [a|e]; cbn in *.
    - subst m2; cbn. apply Hf.
    - destruct Hm as [He| ->]; [left; exact He|right; reflexivity].
  Qed.

  Lemma eval_pair_eq s p e : eval_pair d1 s p e = eval_pair d2 s p e.
  Proof.
    unfold eval_pair. destruct p as [b|opn opl]; [reflexivity|].
    destruct opn; [|reflexivity]. unfold eval_op_atom. rewrite Hq, Hgc. reflexivity.
  Qed.

  Section Agree.
  Hypothesis HG : guards_agree.
  Lemma parse_rel ol : rr (parse_softfork_arguments d1 ol) (parse_softfork_arguments d2 ol).
  Proof.
    destruct HG as (Hs & Hext & Hncm & Huint & Hcanon & Hallow & Hlsf).
    unfold parse_softfork_arguments. apply rr_bind; [apply rr_refl|]. intros [[[a b] c] e0].
    apply rr_bind; [apply Huint|]. intros x. rewrite Hext. apply rr_refl.
  Qed.

  Lemma enter_guard_rel s ol cost m : rr (enter_guard d1 s ol cost m) (enter_guard d2 s ol cost m).
  Proof.
    pose proof (parse_rel ol) as Hp.
    destruct HG as (Hs & Hext & Hncm & Huint & Hcanon & Hallow & Hlsf).
    unfold enter_guard. apply rr_bind; [apply rr_refl|]. intros fa.
    apply rr_bind; [apply Huint|]. intros ec.
    destruct (m <? ec); [apply rr_refl|]. destruct (ec =? 0); [apply rr_refl|].
    destruct (parse_softfork_arguments d1 ol) as [[[ext prg] env]|err1] eqn:P1; cbn in Hp.
    - rewrite Hp.
      destruct Hlsf as [El|[El Ee]].
      + rewrite El, Hncm. destruct (_ && _)%bool; [apply rr_refl|].
        rewrite eval_pair_eq. apply rr_refl.
      + rewrite El. cbn [andb].
        destruct (f_limit_softfork (d_flags d1) && _)%bool; [left; exact Ee|].
        rewrite Hncm, eval_pair_eq. apply rr_refl.
    - (* the first dialect does not parse the guard *)
      destruct (d_allow_unknown d1) eqn:A1.
      + (* it skips the guard: then the second must not parse it either *)
        destruct Hcanon as [Ec|Ec]; [|discriminate].
        assert (P2 : parse_softfork_arguments d2 ol = Err err1).
        { rewrite <- P1. unfold parse_softfork_arguments. rewrite Ec.
          destruct (get_args4 ol) as [[[[a b] c] e0]|]; cbn [bind]; [|reflexivity].
          destruct (uint_atom 4 _ b); cbn [bind]; [|reflexivity]. rewrite Hext. reflexivity. }
        rewrite P2.
        destruct Hallow as [Eal|[Eal _]]; [rewrite <- Eal; try rewrite A1|rewrite Eal]; cbn; reflexivity.
      + (* it fails *)
        destruct Hp as [He|Hp]; [left; exact He|]. rewrite Hp.
        destruct Hallow as [Eal|[Eal Eall]]; [rewrite <- Eal; try rewrite A1; right; reflexivity|left; apply Eall].
  Qed.

  End Agree.

  Lemma apply_op_rel s cost m : rr (apply_op d1 s cost m) (apply_op d2 s cost m).
  Proof.
    unfold apply_op. apply rr_bind; [apply rr_refl|]. intros [ol sa].
    apply rr_bind; [apply rr_refl|]. intros [opr sb].
    destruct (envs sb); [apply rr_refl|].
    rewrite Ha. destruct (is_kw opr (d_apply d2)).
    - apply rr_bind; [apply rr_refl|]. intros [no env]. rewrite eval_pair_eq. apply rr_refl.
    - destruct Hguards as [[Hb1 Hb2]|HG].
      + rewrite Hb1. destruct (is_kw opr (d_softfork d2)) eqn:K2.
        * destruct (Hb2 opr ol m (current_extensions {| vals := vals sb; envs := l; ops := ops sb; guards := guards sb |}) K2) as (e & -> & He).
          cbn. left; exact He.
        * apply rr_bind; [apply Hop|]. intros [c v]. apply rr_refl.
      + rewrite (proj1 HG). destruct (is_kw opr (d_softfork d2)); [apply enter_guard_rel; exact HG|].
        apply rr_bind; [apply Hop|]. intros [c v]. apply rr_refl.
  Qed.

  Lemma step_rel M cost s : rr (step d1 M cost s) (step d2 M cost s).
  Proof.
    unfold step. destruct (_ <? _); [apply rr_refl|]. destruct (ops s) as [|o rest_ops]; [apply rr_refl|].
    apply rr_bind; [|intros [c s'']; apply rr_refl].
    destruct o; try apply rr_refl.
    - apply apply_op_rel.
    - unfold swap_eval_op. apply rr_bind; [apply rr_refl|]. intros [v2 s1].
      apply rr_bind; [apply rr_refl|]. intros [prog s2]. destruct (envs s2); [apply rr_refl|].
      rewrite eval_pair_eq. apply rr_refl.
  Qed.

  Lemma run_loop_rel fuel : forall M cost s, rr (run_loop d1 fuel M cost s) (run_loop d2 fuel M cost s).
  Proof.
    induction fuel as [|fuel IH]; intros M cost s; [apply rr_refl|].
    cbn [run_loop]. apply rr_bind; [apply step_rel|].
    intros [[c s']|[c s']]; [apply IH|apply rr_refl].
  Qed.

  Theorem run_program_rel fuel p e M : rr (run_program d1 fuel p e M) (run_program d2 fuel p e M).
  Proof.
    unfold run_program. rewrite eval_pair_eq. apply rr_bind; [apply rr_refl|].
    intros [c s]. apply run_loop_rel.
  Qed.
End Restrict.
