(* Per-operation specifications of the arena model: exact failure conditions (C13), effect on the
   three counts (C12), preservation of well-formedness, and the tree the returned node denotes (C14). *)
From Clvm Require Import Model.AllocHist Proofs.BytesLemmas Proofs.IntEncBasics Proofs.AllocHeap.
From Coq Require Import Lia ZifyBool ZifyN ZifyNat.
Open Scope N_scope.
Arguments N.add : simpl never.
Arguments N.sub : simpl never.
Arguments N.mul : simpl never.
Arguments N.eqb : simpl never.
Arguments N.ltb : simpl never.
Arguments N.leb : simpl never.
Arguments N.modulo : simpl never.
Arguments N.div : simpl never.
Ltac Zify.zify_post_hook ::= Z.div_mod_to_equations.

Lemma Some_inj {A} (x y : A) : Some x = Some y -> x = y.
Proof. intros H. inversion H. reflexivity. Qed.
Lemma Ok_inj {A} (x y : A) : Ok x = Ok y -> x = y.
Proof. intros H. inversion H. reflexivity. Qed.

(* ------------------------------------------------------------------ the state invariant *)

Definition counts_ok (a : alloc) : Prop :=
  heap_limit a <= U32_MAX /\ atom_count a <= MAX_NUM_ATOMS /\ pair_count a <= MAX_NUM_PAIRS /\
  heap_size a <= heap_limit a.

Record AOK (a : alloc) : Prop := mkAOK { aok_wf : WF (hp a); aok_counts : counts_ok a }.

Lemma u32_id x : x <= U32_MAX -> u32 x = x.
Proof. unfold u32, U32_MAX. intros H. apply N.mod_small. lia. Qed.

Ltac unf := unfold counts_ok, atom_count, pair_count, heap_size, u8_len, atoms_len, pairs_len,
  MAX_NUM_ATOMS, MAX_NUM_PAIRS, U32_MAX, NODE_PTR_IDX_MASK, counts in *.

Lemma counts_u32 a : counts_ok a ->
  u32 (u8_len a) = u8_len a /\ u32 (atoms_len a) = atoms_len a /\ u32 (pairs_len a) = pairs_len a.
Proof. intros H. repeat split; apply u32_id; unf; lia. Qed.

(* new_limited(0) is the one degenerate start: heap_size is 1 (the ghost byte of one()) > 0 *)
Lemma new_limited_ok limit a : new_limited limit = Ok a -> 1 <= limit ->
  AOK a /\ heap_limit a = limit /\ counts a = (2, 0, 1).
Proof.
  unfold new_limited. destruct (U32_MAX <? limit) eqn:E; [discriminate|]. intros H Hl.
  apply Ok_inj in H. subst a. split; [|cbn; split; reflexivity].
  split; cbn.
  - split; cbn; [reflexivity|constructor|]. intros i l r Hi. destruct i; discriminate.
  - unf. cbn. lia.
Qed.

(* ------------------------------------------------------------------ small atoms *)

Lemma be_bytes_acc_app n v acc : be_bytes_acc n v acc = be_bytes_acc n v [] ++ acc.
Proof.
  revert v acc. induction n as [|n IH]; intros v acc; [reflexivity|].
  rewrite !be_bytes_acc_S. rewrite IH, (IH _ [v mod 256]). rewrite <- app_assoc. reflexivity.
Qed.

Lemma be_bytes_S n v : be_bytes (S n) v = be_bytes n (v / 256) ++ [v mod 256].
Proof. unfold be_bytes. rewrite be_bytes_acc_S. apply be_bytes_acc_app. Qed.

Lemma be_bytes_length n v : length (be_bytes n v) = n.
Proof.
  revert v. induction n as [|n IH]; intros v; [reflexivity|].
  rewrite be_bytes_S, app_length, IH. cbn. lia.
Qed.

Lemma be_bytes_wf n v : wf_bytes (be_bytes n v) = true.
Proof.
  revert v. induction n as [|n IH]; intros v; [reflexivity|].
  rewrite be_bytes_S, wf_bytes_app, IH. cbn. unfold wf_byte.
  assert (v mod 256 < 256) by (apply N.mod_lt; lia). replace (v mod 256 <? 256) with true by lia. reflexivity.
Qed.

(* an inline atom stands for exactly the bytes it was made from *)
Lemma fits_small_bytes b r :
  wf_bytes b = true -> fits_in_small_atom b = Some r ->
  r <= NODE_PTR_IDX_MASK /\ len_for_value r = blen b /\ be_bytes (N.to_nat (len_for_value r)) r = b.
Proof.
  intros Hw H. unfold fits_in_small_atom in H.
  destruct b as [|x0 rest].
  { apply Some_inj in H. subst r. repeat split; unf; cbn; lia. }
  destruct ((4 <? blen (x0 :: rest)) || ((blen (x0 :: rest) =? 1) && (x0 =? 0)) || (128 <=? x0)
            || ((x0 =? 0) && match rest with y :: _ => y <? 128 | [] => false end)
            || ((blen (x0 :: rest) =? 4) && (3 <? x0))) eqn:E; [discriminate|].
  apply Some_inj in H. subst r.
  unfold wf_bytes in Hw.
  destruct rest as [|x1 rest].
  { cbn in *. unfold wf_byte in *. unfold be_value, len_for_value. cbn [be_acc].
    assert (x0 <> 0 /\ x0 < 128) as [A B] by lia.
    replace (256 * 0 + x0 =? 0) with false by lia. replace (256 * 0 + x0 <? 128) with true by lia.
    repeat split; unf; try lia. change (N.to_nat 1) with 1%nat.
    rewrite !be_bytes_S. cbn [be_bytes be_bytes_acc app]. f_equal; lia. }
  destruct rest as [|x2 rest].
  { cbn in *. unfold wf_byte in *. unfold be_value, len_for_value. cbn [be_acc].
    assert (x0 < 128 /\ x1 < 256 /\ (x0 <> 0 \/ 128 <= x1)) as (A & B & C) by lia.
    set (v := 256 * (256 * 0 + x0) + x1).
    replace (v =? 0) with false by lia. replace (v <? 128) with false by lia.
    replace (v <? 32768) with true by lia.
    repeat split; unf; try lia. change (N.to_nat 2) with 2%nat.
    rewrite !be_bytes_S. cbn [be_bytes be_bytes_acc app]. f_equal; [|f_equal]; lia. }
  destruct rest as [|x3 rest].
  { cbn in *. unfold wf_byte in *. unfold be_value, len_for_value. cbn [be_acc].
    assert (x0 < 128 /\ x1 < 256 /\ x2 < 256 /\ (x0 <> 0 \/ 128 <= x1)) as (A & B & C & D) by lia.
    set (v := 256 * (256 * (256 * 0 + x0) + x1) + x2).
    replace (v =? 0) with false by lia. replace (v <? 128) with false by lia.
    replace (v <? 32768) with false by lia. replace (v <? 8388608) with true by lia.
    repeat split; unf; try lia. change (N.to_nat 3) with 3%nat.
    rewrite !be_bytes_S. cbn [be_bytes be_bytes_acc app]. f_equal; [|f_equal; [|f_equal]]; lia. }
  destruct rest as [|x4 rest].
  { cbn in *. unfold wf_byte in *. unfold be_value, len_for_value. cbn [be_acc].
    assert (x0 <= 3 /\ x1 < 256 /\ x2 < 256 /\ x3 < 256 /\ (x0 <> 0 \/ 128 <= x1)) as (A & B & C & D & F) by lia.
    set (v := 256 * (256 * (256 * (256 * 0 + x0) + x1) + x2) + x3).
    replace (v =? 0) with false by lia. replace (v <? 128) with false by lia.
    replace (v <? 32768) with false by lia. replace (v <? 8388608) with false by lia.
    replace (v <? 2147483648) with true by lia.
    repeat split; unf; try lia. change (N.to_nat 4) with 4%nat.
    rewrite !be_bytes_S. cbn [be_bytes be_bytes_acc app].
    f_equal; [|f_equal; [|f_equal; [|f_equal]]]; lia. }
  exfalso. unfold blen in E. cbn [length] in E. lia.
Qed.

Lemma denote_small h v : v <= NODE_PTR_IDX_MASK ->
  denote h (SmallP v) = Some (Atom (be_bytes (N.to_nat (len_for_value v)) v)).
Proof. intros H. unfold denote. cbn. replace (NODE_PTR_IDX_MASK <? v) with false by lia. reflexivity. Qed.

Lemma len_for_value_le4 v : v <= NODE_PTR_IDX_MASK -> len_for_value v <= 4.
Proof.
  intros H. unfold len_for_value. unf.
  destruct (v =? 0); [lia|]. destruct (v <? 128); [lia|]. destruct (v <? 32768); [lia|].
  destruct (v <? 8388608); [lia|]. replace (v <? 2147483648) with true by lia. lia.
Qed.

Lemma small_bytes_ok v : v <= NODE_PTR_IDX_MASK ->
  small_bytes v = Ok (be_bytes (N.to_nat (len_for_value v)) v).
Proof.
  intros H. unfold small_bytes. pose proof (len_for_value_le4 v H).
  replace (4 <? len_for_value v) with false by lia. reflexivity.
Qed.

Lemma small_bytes_blen v : blen (be_bytes (N.to_nat (len_for_value v)) v) = len_for_value v.
Proof. unfold blen. rewrite be_bytes_length. lia. Qed.

(* ------------------------------------------------------------------ reading atoms *)

Lemma denote_bytes h i t : denote h (BytesP i) = Some t ->
  exists s e b, nth_N (atoms h) i = Some (s, e) /\ slice (u8 h) s e = Some b /\ t = Atom b.
Proof.
  unfold denote. cbn. destruct (nth_N (atoms h) i) as [[s e]|] eqn:E; [|discriminate].
  destruct (slice (u8 h) s e) as [b|] eqn:S; [|discriminate]. intros H. apply Some_inj in H.
  exists s, e, b. subst. repeat split; assumption.
Qed.

(* atom() returns the bytes of the denotation *)
Lemma atom_spec a n b : denote (hp a) n = Some (Atom b) -> atom a n = Ok b.
Proof.
  intros H. destruct n as [i|i|v].
  - unfold denote in H. cbn in H. destruct (nth_N (pairs (hp a)) i) as [[l r]|]; [|discriminate].
    destruct (denote_fuel _ _ l); [|discriminate]. destruct (denote_fuel _ _ r); discriminate.
  - destruct (denote_bytes _ _ _ H) as (s & e & b' & E & S & T). apply (f_equal (fun t => match t with Atom x => x | _ => [] end)) in T.
    cbn in T. subst b'. unfold atom, get_atom. rewrite E. cbn. unfold buf_bytes. cbn. rewrite S. reflexivity.
  - unfold denote in H. cbn in H. destruct (NODE_PTR_IDX_MASK <? v) eqn:E; [discriminate|].
    apply Some_inj in H. apply (f_equal (fun t => match t with Atom x => x | _ => [] end)) in H. cbn in H.
    subst b. cbn. apply small_bytes_ok. lia.
Qed.

Lemma atom_len_spec a n b : denote (hp a) n = Some (Atom b) -> atom_len a n = Ok (blen b).
Proof.
  intros H. destruct n as [i|i|v].
  - unfold denote in H. cbn in H. destruct (nth_N (pairs (hp a)) i) as [[l r]|]; [|discriminate].
    destruct (denote_fuel _ _ l); [|discriminate]. destruct (denote_fuel _ _ r); discriminate.
  - destruct (denote_bytes _ _ _ H) as (s & e & b' & E & S & T). apply (f_equal (fun t => match t with Atom x => x | _ => [] end)) in T.
    cbn in T. subst b'. unfold atom_len, get_atom. rewrite E. cbn. unfold buf_len. cbn.
    destruct (slice_some _ _ _ _ S) as (A & B & _). replace (e <? s) with false by lia.
    rewrite (slice_len _ _ _ _ S). reflexivity.
  - unfold denote in H. cbn in H. destruct (NODE_PTR_IDX_MASK <? v) eqn:E; [discriminate|].
    apply Some_inj in H. apply (f_equal (fun t => match t with Atom x => x | _ => [] end)) in H. cbn in H.
    subst b. cbn. rewrite small_bytes_blen. reflexivity.
Qed.

Lemma denote_atom_or_pair h n t : denote h n = Some t ->
  match n with PairP _ => exists l r, t = Cons l r | _ => exists b, t = Atom b end.
Proof.
  intros H. destruct n as [i|i|v].
  - unfold denote in H. cbn in H. destruct (nth_N (pairs h) i) as [[l r]|]; [|discriminate].
    destruct (denote_fuel _ _ l); [|discriminate]. destruct (denote_fuel _ _ r); [|discriminate].
    apply Some_inj in H. eauto.
  - destruct (denote_bytes _ _ _ H) as (s & e & b' & _ & _ & T). eauto.
  - unfold denote in H. cbn in H. destruct (NODE_PTR_IDX_MASK <? v); [discriminate|].
    apply Some_inj in H. eauto.
Qed.

(* ------------------------------------------------------------------ new_atom and the integer constructors *)

Definition bump (a a' : alloc) (da dp dh : N) : Prop :=
  heap_limit a' = heap_limit a /\ atom_count a' = atom_count a + da /\
  pair_count a' = pair_count a + dp /\ heap_size a' = heap_size a + dh.

Lemma new_atom_spec a b : AOK a -> wf_bytes b = true ->
  match new_atom a b with
  | Err e => (e = OutOfMemory /\ heap_limit a < heap_size a + blen b) \/
             (e = TooManyAtoms /\ heap_size a + blen b <= heap_limit a /\ atom_count a = MAX_NUM_ATOMS)
  | Ok (a', n) => heap_size a + blen b <= heap_limit a /\ atom_count a < MAX_NUM_ATOMS /\
                  AOK a' /\ ext (hp a) (hp a') /\ vnode (hp a') n /\ denote (hp a') n = Some (Atom b) /\
                  bump a a' 1 0 (blen b)
  end.
Proof.
  intros [Hw Hc] Hb. destruct (counts_u32 a Hc) as (U1 & U2 & U3).
  unfold new_atom. rewrite U1.
  destruct (heap_limit a <? u8_len a + ghost_heap a + blen b) eqn:E1.
  { left. split; [reflexivity|]. unf. lia. }
  unfold check_atom_limit. destruct (atoms_len a + ghost_atoms a =? MAX_NUM_ATOMS) eqn:E2.
  { cbn. right. split; [reflexivity|]. unf. lia. }
  cbn [bind]. destruct (fits_in_small_atom b) as [r|] eqn:F.
  - destruct (fits_small_bytes b r Hb F) as (R1 & R2 & R3).
    assert (P1 : heap_size a + blen b <= heap_limit a) by (unf; lia).
    assert (P2 : atom_count a < MAX_NUM_ATOMS) by (unf; lia).
    refine (conj P1 (conj P2 (conj _ (conj (ext_refl _) (conj _ (conj _ _)))))).
    + split; [exact Hw|]. unf. cbn. lia.
    + exact R1.
    + cbn [hp set_ghosts]. rewrite denote_small by exact R1. rewrite R3. reflexivity.
    + unfold bump. unf. cbn. lia.
  - assert (Hle : u8_len a + blen b <= U32_MAX) by (unf; lia).
    rewrite (u32_id _ Hle).
    assert (Hw' : WF (push_atom (push_u8 (hp a) b) (u8_len a) (u8_len a + blen b))).
    { apply WF_push_atom; [apply WF_push_u8; assumption|lia|].
      cbn. unfold u8_len, blen. rewrite app_length. lia. }
    assert (P1 : heap_size a + blen b <= heap_limit a) by (unf; lia).
    assert (P2 : atom_count a < MAX_NUM_ATOMS) by (unf; lia).
    assert (L1 : nlen (atoms (hp a) ++ [(u8_len a, u8_len a + blen b)]) = atoms_len a + 1)
      by (rewrite nlen_app; reflexivity).
    assert (L2 : blen (u8 (hp a) ++ b) = u8_len a + blen b)
      by (unfold u8_len, blen; rewrite app_length; lia).
    refine (conj P1 (conj P2 (conj _ (conj _ (conj _ (conj _ _)))))).
    + split; [exact Hw'|]. unf. cbn. rewrite L1, L2. unfold atoms_len, u8_len. lia.
    + eapply ext_trans; [apply ext_push_u8|apply ext_push_atom].
    + cbn. rewrite L1. lia.
    + unfold denote. cbn. unfold atoms_len. rewrite nth_N_app_end.
      unfold slice. rewrite L2. unfold u8_len.
      replace ((blen (u8 (hp a)) <=? blen (u8 (hp a)) + blen b) && (blen (u8 (hp a)) + blen b <=? blen (u8 (hp a)) + blen b)) with true by lia.
      replace (N.to_nat (blen (u8 (hp a)) + blen b - blen (u8 (hp a)))) with (length b) by (unfold blen; lia).
      replace (N.to_nat (blen (u8 (hp a)))) with (length (u8 (hp a))) by (unfold blen; lia).
      rewrite skipn_app, skipn_all, Nat.sub_diag. cbn [skipn app].
      rewrite firstn_all. reflexivity.
    + unfold bump. unf. cbn. rewrite L1, L2. unfold atoms_len, u8_len. lia.
Qed.

Lemma new_small_number_spec a v : AOK a -> v <= NODE_PTR_IDX_MASK ->
  new_small_number a v = new_atom a (be_bytes (N.to_nat (len_for_value v)) v).
Proof.
  intros [Hw Hc] Hv. destruct (counts_u32 a Hc) as (U1 & _).
  unfold new_small_number, new_atom. rewrite U1, small_bytes_blen.
  replace (NODE_PTR_IDX_MASK <? v) with false by lia.
  destruct (heap_limit a <? u8_len a + ghost_heap a + len_for_value v); [reflexivity|].
  destruct (check_atom_limit a); [|reflexivity]. cbn [bind].
  (* the bytes of a small value fit back into the same small value *)
  assert (F : fits_in_small_atom (be_bytes (N.to_nat (len_for_value v)) v) = Some v).
  { unfold len_for_value. unf.
    destruct (v =? 0) eqn:E0. { assert (v = 0) by lia. subst. reflexivity. }
    destruct (v <? 128) eqn:E1.
    { change (N.to_nat 1) with 1%nat. rewrite !be_bytes_S. cbn [be_bytes be_bytes_acc app].
      unfold fits_in_small_atom, be_value. cbn [blen length be_acc N.of_nat Pos.of_succ_nat].
      assert (v mod 256 = v) by lia. rewrite H.
      replace ((4 <? 1) || (1 =? 1) && (v =? 0) || (128 <=? v) || (v =? 0) && false || (1 =? 4) && (3 <? v)) with false by lia.
      f_equal; lia. }
    destruct (v <? 32768) eqn:E2.
    { change (N.to_nat 2) with 2%nat. rewrite !be_bytes_S. cbn [be_bytes be_bytes_acc app].
      unfold fits_in_small_atom, be_value. cbn [blen length be_acc N.of_nat Pos.of_succ_nat Pos.succ].
      set (x0 := v / 256 mod 256). set (x1 := v mod 256).
      assert (x0 = v / 256) by (unfold x0; lia).
      replace ((4 <? 2) || (2 =? 1) && (x0 =? 0) || (128 <=? x0) || (x0 =? 0) && (x1 <? 128) || (2 =? 4) && (3 <? x0)) with false by (unfold x1; lia).
      f_equal; unfold x1; lia. }
    destruct (v <? 8388608) eqn:E3.
    { change (N.to_nat 3) with 3%nat. rewrite !be_bytes_S. cbn [be_bytes be_bytes_acc app].
      unfold fits_in_small_atom, be_value. cbn [blen length be_acc N.of_nat Pos.of_succ_nat Pos.succ].
      set (x0 := v / 256 / 256 mod 256). set (x1 := v / 256 mod 256). set (x2 := v mod 256).
      assert (x0 = v / 256 / 256) by (unfold x0; lia).
      replace ((4 <? 3) || (3 =? 1) && (x0 =? 0) || (128 <=? x0) || (x0 =? 0) && (x1 <? 128) || (3 =? 4) && (3 <? x0)) with false by (unfold x1; lia).
      f_equal; unfold x1, x2; lia. }
    replace (v <? 2147483648) with true by lia.
    change (N.to_nat 4) with 4%nat. rewrite !be_bytes_S. cbn [be_bytes be_bytes_acc app].
    unfold fits_in_small_atom, be_value. cbn [blen length be_acc N.of_nat Pos.of_succ_nat Pos.succ].
    set (x0 := v / 256 / 256 / 256 mod 256). set (x1 := v / 256 / 256 mod 256).
    set (x2 := v / 256 mod 256). set (x3 := v mod 256).
    assert (x0 = v / 256 / 256 / 256) by (unfold x0; lia).
    replace ((4 <? 4) || (4 =? 1) && (x0 =? 0) || (128 <=? x0) || (x0 =? 0) && (x1 <? 128) || (4 =? 4) && (3 <? x0)) with false by (unfold x1; lia).
    f_equal; unfold x1, x2, x3; lia. }
  rewrite F. reflexivity.
Qed.

(* ------------------------------------------------------------------ pairs and ghost counters *)

Lemma new_pair_spec a l r : AOK a -> vnode (hp a) l -> vnode (hp a) r ->
  match new_pair a l r with
  | Err e => e = TooManyPairs /\ pair_count a = MAX_NUM_PAIRS
  | Ok (a', n) => pair_count a < MAX_NUM_PAIRS /\ AOK a' /\ ext (hp a) (hp a') /\ vnode (hp a') n /\
                  n = PairP (pairs_len a) /\ nth_N (pairs (hp a')) (pairs_len a) = Some (l, r) /\
                  bump a a' 0 1 0
  end.
Proof.
  intros [Hw Hc] Hl Hr. unfold new_pair.
  replace (MAX_NUM_PAIRS <? ghost_pairs a) with false by (unf; lia).
  destruct (MAX_NUM_PAIRS - ghost_pairs a <=? pairs_len a) eqn:E.
  { split; [reflexivity|]. unf. lia. }
  assert (L : nlen (pairs (hp a) ++ [(l, r)]) = pairs_len a + 1) by (rewrite nlen_app; reflexivity).
  refine (conj _ (conj _ (conj (ext_push_pair _ _ _) (conj _ (conj eq_refl (conj _ _)))))).
  - unf. lia.
  - split; [apply WF_push_pair; assumption|]. unf. cbn. rewrite L. unfold pairs_len. lia.
  - cbn. rewrite L. lia.
  - cbn. apply nth_N_app_end.
  - unfold bump. unf. cbn. rewrite L. unfold pairs_len. lia.
Qed.

Lemma add_ghost_atom_spec a n : AOK a ->
  match add_ghost_atom a n with
  | Err e => e = TooManyAtoms /\ MAX_NUM_ATOMS < atom_count a + n
  | Ok a' => atom_count a + n <= MAX_NUM_ATOMS /\ AOK a' /\ hp a' = hp a /\ bump a a' n 0 0
  end.
Proof.
  intros [Hw Hc]. unfold add_ghost_atom.
  replace (MAX_NUM_ATOMS <? ghost_atoms a + atoms_len a) with false by (unf; lia).
  destruct (MAX_NUM_ATOMS - ghost_atoms a - atoms_len a <? n) eqn:E.
  { split; [reflexivity|]. unf. lia. }
  refine (conj _ (conj _ (conj eq_refl _))).
  - unf. lia.
  - split; [exact Hw|]. unf. cbn. lia.
  - unfold bump. unf. cbn. lia.
Qed.

Lemma add_ghost_pair_spec a n : AOK a ->
  match add_ghost_pair a n with
  | Err e => e = TooManyPairs /\ MAX_NUM_PAIRS < pair_count a + n
  | Ok a' => pair_count a + n <= MAX_NUM_PAIRS /\ AOK a' /\ hp a' = hp a /\ bump a a' 0 n 0
  end.
Proof.
  intros [Hw Hc]. unfold add_ghost_pair.
  replace (MAX_NUM_PAIRS <? ghost_pairs a + pairs_len a) with false by (unf; lia).
  destruct (MAX_NUM_PAIRS - ghost_pairs a - pairs_len a <? n) eqn:E.
  { split; [reflexivity|]. unf. lia. }
  refine (conj _ (conj _ (conj eq_refl _))).
  - unf. lia.
  - split; [exact Hw|]. unf. cbn. lia.
  - unfold bump. unf. cbn. lia.
Qed.

Lemma remove_ghost_pair_spec a n : AOK a ->
  match remove_ghost_pair a n with
  | Err e => e = Panic 10
  | Ok a' => AOK a' /\ hp a' = hp a /\ heap_limit a' = heap_limit a /\
             counts a' = (atom_count a, pair_count a - n, heap_size a) /\ n <= pair_count a
  end.
Proof.
  intros [Hw Hc]. unfold remove_ghost_pair. destruct (ghost_pairs a <? n) eqn:E; [reflexivity|].
  refine (conj _ (conj eq_refl (conj eq_refl (conj _ _)))).
  - split; [exact Hw|]. unf. cbn. lia.
  - unfold counts. unf. cbn. apply f_equal2; [apply f_equal2|]; lia.
  - unf. lia.
Qed.

(* ------------------------------------------------------------------ substrings *)

Lemma sub_bytes_slice b s e : s <= e -> e <= blen b -> slice b s e = Some (sub_bytes b s e).
Proof.
  intros A B. unfold slice, sub_bytes. replace ((s <=? e) && (e <=? blen b)) with true by lia. reflexivity.
Qed.

Lemma slice_slice b s e x s2 e2 :
  slice b s e = Some x -> s2 <= e2 -> e2 <= e - s -> slice b (s + s2) (s + e2) = Some (sub_bytes x s2 e2).
Proof.
  intros H A B. destruct (slice_some _ _ _ _ H) as (C & D & ->).
  unfold slice, sub_bytes. replace ((s + s2 <=? s + e2) && (s + e2 <=? blen b)) with true by lia.
  f_equal. replace (s + e2 - (s + s2)) with (e2 - s2) by lia.
  rewrite <- (firstn_skipn (N.to_nat s) b) at 1.
  assert (Ls : length (firstn (N.to_nat s) b) = N.to_nat s) by (rewrite firstn_length; unfold blen in *; lia).
  rewrite skipn_app, Ls.
  replace (N.to_nat (s + s2)) with (N.to_nat s + N.to_nat s2)%nat by lia.
  rewrite skipn_all2 by lia. cbn [app].
  replace (N.to_nat s + N.to_nat s2 - N.to_nat s)%nat with (N.to_nat s2) by lia.
  (* firstn k (skipn j l) vs firstn k (skipn j (firstn m l)) with j + k <= m *)
  set (l := skipn (N.to_nat s) b).
  rewrite <- (firstn_skipn (N.to_nat (e - s)) l) at 1.
  assert (Ll : length (firstn (N.to_nat (e - s)) l) = N.to_nat (e - s)).
  { rewrite firstn_length. unfold l. rewrite skipn_length. unfold blen in *. lia. }
  rewrite skipn_app, Ll. rewrite firstn_app, skipn_length, Ll.
  replace (N.to_nat (e2 - s2) - (N.to_nat (e - s) - N.to_nat s2))%nat with O by lia.
  replace (N.to_nat s2 - N.to_nat (e - s))%nat with O by lia.
  cbn [skipn firstn]. rewrite app_nil_r. reflexivity.
Qed.

(* new_substr: the copy-to-heap path (F2) is characterised by [path]; with the fix it checks the limit *)
Lemma new_substr_spec fx a n b s e : AOK a -> vnode (hp a) n -> denote (hp a) n = Some (Atom b) ->
  match new_substr_gen fx a n s e with
  | Err er => (er = TooManyAtoms /\ atom_count a = MAX_NUM_ATOMS) \/
              (atom_count a < MAX_NUM_ATOMS /\
               ((er = InvalidAllocArg 1 /\ blen b < s) \/ (er = InvalidAllocArg 2 /\ s <= blen b < e) \/
                (er = InvalidAllocArg 3 /\ e < s /\ e <= blen b) \/
                (er = OutOfMemory /\ fx = true /\ s <= e <= blen b /\ heap_limit a < heap_size a + (e - s))))
  | Ok (a', m, path) =>
      atom_count a < MAX_NUM_ATOMS /\ s <= e /\ e <= blen b /\
      match path with
      | SubSmallHeap =>
          fx = true ->
          ext (hp a) (hp a') /\ vnode (hp a') m /\ denote (hp a') m = Some (Atom (sub_bytes b s e)) /\
          AOK a' /\ bump a a' 1 0 (e - s)
      | _ => ext (hp a) (hp a') /\ vnode (hp a') m /\ denote (hp a') m = Some (Atom (sub_bytes b s e)) /\
             AOK a' /\ bump a a' 1 0 0
      end
  end.
Proof.
  intros [Hw Hc] Hv Hd. destruct (counts_u32 a Hc) as (U1 & U2 & U3).
  unfold new_substr_gen, check_atom_limit.
  destruct (atoms_len a + ghost_atoms a =? MAX_NUM_ATOMS) eqn:E0.
  { left. split; [reflexivity|]. unf. lia. }
  assert (P0 : atom_count a < MAX_NUM_ATOMS) by (unf; lia).
  cbn [bind]. destruct n as [i|i|v].
  - apply denote_atom_or_pair in Hd. destruct Hd as (l & r & Hd). discriminate.
  - destruct (denote_bytes _ _ _ Hd) as (s0 & e0 & b' & En & Sl & T).
    apply (f_equal (fun t => match t with Atom x => x | _ => [] end)) in T. cbn in T. subst b'.
    unfold get_atom. rewrite En. cbn [bind]. unfold buf_len. cbn [fst snd].
    destruct (slice_some _ _ _ _ Sl) as (A & B & _). pose proof (slice_len _ _ _ _ Sl) as Lb.
    replace (e0 <? s0) with false by lia. cbn [bind]. unfold bounds_check. rewrite <- Lb.
    destruct (blen b <? s) eqn:B1. { right. split; [exact P0|]. left. split; [reflexivity|lia]. }
    destruct (blen b <? e) eqn:B2. { right. split; [exact P0|]. right. left. split; [reflexivity|lia]. }
    destruct (e <? s) eqn:B3. { right. split; [exact P0|]. right. right. left. split; [reflexivity|lia]. }
    cbn [bind].
    assert (L1 : nlen (atoms (hp a) ++ [(s0 + s, s0 + e)]) = atoms_len a + 1) by (rewrite nlen_app; reflexivity).
    refine (conj P0 (conj _ (conj _ (conj (ext_push_atom _ _ _) (conj _ (conj _ (conj _ _))))))); try lia.
    + cbn. rewrite L1. lia.
    + unfold denote. cbn. unfold atoms_len. rewrite nth_N_app_end.
      rewrite (slice_slice _ _ _ _ s e Sl) by lia. reflexivity.
    + split; [apply WF_push_atom; [exact Hw|lia|lia]|]. unf. cbn. rewrite L1. unfold atoms_len. lia.
    + unfold bump. unf. cbn. rewrite L1. unfold atoms_len. lia.
  - cbn in Hv. rewrite denote_small in Hd by exact Hv. apply Some_inj in Hd.
    apply (f_equal (fun t => match t with Atom x => x | _ => [] end)) in Hd. cbn in Hd.
    assert (Lb : blen b = len_for_value v) by (rewrite <- Hd; apply small_bytes_blen).
    unfold bounds_check. rewrite <- Lb.
    destruct (blen b <? s) eqn:B1. { right. split; [exact P0|]. left. split; [reflexivity|lia]. }
    destruct (blen b <? e) eqn:B2. { right. split; [exact P0|]. right. left. split; [reflexivity|lia]. }
    destruct (e <? s) eqn:B3. { right. split; [exact P0|]. right. right. left. split; [reflexivity|lia]. }
    cbn [bind]. rewrite small_bytes_ok by exact Hv. cbn [bind]. rewrite Hd.
    rewrite (sub_bytes_slice b s e) by lia.
    assert (Wb : wf_bytes b = true) by (rewrite <- Hd; apply be_bytes_wf).
    assert (Ws : wf_bytes (sub_bytes b s e) = true).
    { eapply slice_wf; [exact Wb|apply sub_bytes_slice; lia]. }
    assert (Ls : blen (sub_bytes b s e) = e - s).
    { eapply slice_len. apply sub_bytes_slice; lia. }
    destruct (fits_in_small_atom (sub_bytes b s e)) as [nv|] eqn:F.
    + destruct (fits_small_bytes _ _ Ws F) as (R1 & R2 & R3).
      refine (conj P0 (conj _ (conj _ (conj (ext_refl _) (conj R1 (conj _ (conj _ _))))))); try lia.
      * cbn [hp set_ghosts]. rewrite denote_small by exact R1. rewrite R3. reflexivity.
      * split; [exact Hw|]. unf. cbn. lia.
      * unfold bump. unf. cbn. lia.
    + rewrite Ls.
      destruct (fx && (heap_limit a <? u8_len a + ghost_heap a + (e - s))) eqn:FX.
      { right. split; [exact P0|]. right. right. right.
        apply andb_prop in FX. destruct FX as [F1 F2]. repeat split; try assumption; try lia. unf. lia. }
      refine (conj P0 (conj _ (conj _ _))); try lia. intros ->. cbn [andb] in FX.
      assert (Hle1 : u8_len a <= U32_MAX) by (unf; lia).
      assert (Hle2 : u8_len a + (e - s) <= U32_MAX) by (unf; lia).
      rewrite (u32_id _ Hle1), (u32_id _ Hle2).
      assert (L1 : nlen (atoms (hp a) ++ [(u8_len a, u8_len a + (e - s))]) = atoms_len a + 1) by (rewrite nlen_app; reflexivity).
      assert (L2 : blen (u8 (hp a) ++ sub_bytes b s e) = u8_len a + (e - s))
        by (unfold u8_len, blen in *; rewrite app_length; lia).
      assert (Hw' : WF (push_atom (push_u8 (hp a) (sub_bytes b s e)) (u8_len a) (u8_len a + (e - s)))).
      { apply WF_push_atom; [apply WF_push_u8; assumption|lia|]. cbn. rewrite L2. lia. }
      refine (conj _ (conj _ (conj _ (conj _ _)))).
      * eapply ext_trans; [apply ext_push_u8|apply ext_push_atom].
      * cbn. rewrite L1. lia.
      * unfold denote. cbn. unfold atoms_len. rewrite nth_N_app_end.
        unfold slice. rewrite L2. unfold u8_len.
        replace ((blen (u8 (hp a)) <=? blen (u8 (hp a)) + (e - s)) && (blen (u8 (hp a)) + (e - s) <=? blen (u8 (hp a)) + (e - s))) with true by lia.
        replace (N.to_nat (blen (u8 (hp a)) + (e - s) - blen (u8 (hp a)))) with (length (sub_bytes b s e)) by (unfold blen in *; lia).
        replace (N.to_nat (blen (u8 (hp a)))) with (length (u8 (hp a))) by (unfold blen; lia).
        rewrite skipn_app, skipn_all, Nat.sub_diag. cbn [skipn app]. rewrite firstn_all. reflexivity.
      * split; [exact Hw'|]. unf. cbn. rewrite L1, L2. unfold atoms_len, u8_len. lia.
      * unfold bump. unf. cbn. rewrite L1, L2. unfold atoms_len, u8_len. lia.
Qed.

(* ------------------------------------------------------------------ checkpoints *)

Lemma restore_t_spec a c : AOK a -> tcp_le c (hp a) -> WF (trunc (hp a) c) ->
  exists a1, restore_transparent_checkpoint a c = Ok a1 /\ hp a1 = trunc (hp a) c /\ AOK a1 /\
             bump a a1 0 0 0 /\ ghost_atoms a1 = ghost_atoms a + (atoms_len a - c_atoms c) /\
             ghost_heap a1 = ghost_heap a + (u8_len a - c_u8s c) /\ ghost_pairs a1 = ghost_pairs a + (pairs_len a - c_pairs c).
Proof.
  intros [Hw Hc] (A & B & C) Hw'. unfold restore_transparent_checkpoint.
  replace ((u8_len a <? c_u8s c) || (pairs_len a <? c_pairs c) || (atoms_len a <? c_atoms c)) with false
    by (unfold u8_len, pairs_len, atoms_len; lia).
  eexists. split; [reflexivity|]. cbn [hp ghost_atoms ghost_heap ghost_pairs].
  destruct (trunc_lens (hp a) c (conj A (conj B C))) as (L1 & L2 & L3).
  refine (conj eq_refl (conj _ (conj _ (conj eq_refl (conj eq_refl eq_refl))))).
  - split; [exact Hw'|]. unf. cbn [hp heap_limit ghost_atoms ghost_pairs ghost_heap].
    rewrite L1, L2, L3. lia.
  - unfold bump. unf. cbn [hp heap_limit ghost_atoms ghost_pairs ghost_heap]. rewrite L1, L2, L3. lia.
Qed.

(* a full restore brings the three counts back to what the checkpoint recorded *)
Lemma restore_spec a c : AOK a -> tcp_le (c_inner c) (hp a) -> WF (trunc (hp a) (c_inner c)) ->
  c_atoms (c_inner c) + c_ga c <= MAX_NUM_ATOMS -> c_pairs (c_inner c) + c_gp c <= MAX_NUM_PAIRS ->
  c_u8s (c_inner c) + c_gh c <= heap_limit a ->
  exists a1, restore_checkpoint a c = Ok a1 /\ hp a1 = trunc (hp a) (c_inner c) /\ AOK a1 /\
             heap_limit a1 = heap_limit a /\
             counts a1 = (c_atoms (c_inner c) + c_ga c, c_pairs (c_inner c) + c_gp c, c_u8s (c_inner c) + c_gh c).
Proof.
  intros Ha Hle Hw' B1 B2 B3. destruct (restore_t_spec a (c_inner c) Ha Hle Hw') as (a1 & E & Hh & Ha1 & Hb & _).
  unfold restore_checkpoint. rewrite E. cbn [bind]. eexists. split; [reflexivity|].
  destruct (trunc_lens _ _ Hle) as (L1 & L2 & L3). destruct Ha as [_ Hc]. destruct Hb as (Hl & _).
  cbn [hp set_ghosts heap_limit]. rewrite Hh.
  refine (conj eq_refl (conj _ (conj Hl _))).
  - split; [cbn [hp set_ghosts]; rewrite Hh; exact Hw'|]. unf.
    cbn [hp set_ghosts heap_limit ghost_atoms ghost_pairs ghost_heap]. rewrite Hh, L1, L2, L3, Hl. lia.
  - unfold counts. unf. cbn [hp set_ghosts heap_limit ghost_atoms ghost_pairs ghost_heap].
    rewrite Hh, L1, L2, L3. reflexivity.
Qed.

Lemma checkpoint_of_counts a : counts_ok a ->
  let c := checkpoint_of a in
  (c_atoms (c_inner c) + c_ga c, c_pairs (c_inner c) + c_gp c, c_u8s (c_inner c) + c_gh c) = counts a /\
  c_u8s (c_inner c) = u8_len a /\ c_atoms (c_inner c) = atoms_len a /\ c_pairs (c_inner c) = pairs_len a.
Proof.
  intros Hc. destruct (counts_u32 a Hc) as (U1 & U2 & U3). cbn. rewrite U1, U2, U3.
  repeat split.
Qed.

(* ------------------------------------------------------------------ concatenation *)

Lemma concat_loop_spec a size : WF (hp a) -> forall nodes acc counter acc' counter',
  Forall (vnode (hp a)) nodes -> (exists y, acc = u8 (hp a) ++ y) ->
  concat_loop a size nodes acc counter = Ok (acc', counter') ->
  exists x, acc' = acc ++ x /\ counter' = counter + blen x /\ wf_bytes x = true /\
            (forall ts, Forall2 (fun n t => denote (hp a) n = Some t) nodes ts ->
                        exists bs, all_atoms ts = Some bs /\ x = bs).
Proof.
  intros Hw. induction nodes as [|n rest IH]; intros acc counter acc' counter' Hv Hacc H.
  - cbn in H. apply Ok_inj in H. inversion H; subst. exists []. rewrite app_nil_r.
    repeat split; [unfold blen; cbn; lia|]. intros ts Hts. inversion Hts; subst. exists []. split; reflexivity.
  - inversion Hv as [|? ? Hn Hrest]; subst. destruct n as [i|i|v]; cbn [concat_loop] in H.
    + discriminate.
    + cbn in Hn. destruct (nth_N_lt _ _ Hn) as [[s e] E]. unfold get_atom in H. rewrite E in H.
      cbn [bind] in H. unfold buf_len in H. cbn [fst snd] in H.
      destruct Hw as [W1 W2 W3].
      assert (Hin : In (s, e) (atoms (hp a))) by (eapply nth_error_In; exact E).
      rewrite Forall_forall in W2. destruct (W2 _ Hin) as [A B]. cbn in A, B.
      replace (e <? s) with false in H by lia. cbn [bind] in H.
      destruct (size <? counter + (e - s)); [discriminate|].
      destruct (slice_ok _ _ _ A B) as (b & Sb & Lb).
      destruct Hacc as [y Hy]. rewrite Hy in H at 1. rewrite (slice_app_l _ y _ _ _ Sb) in H.
      destruct (IH (acc ++ b) (counter + (e - s)) acc' counter' Hrest) as (x & X1 & X2 & X3 & X4).
      { exists (y ++ b). rewrite Hy, app_assoc. reflexivity. }
      { exact H. }
      exists (b ++ x). rewrite app_assoc. split; [exact X1|]. split.
      { unfold blen in *. rewrite app_length. lia. }
      split. { rewrite wf_bytes_app, X3, (slice_wf _ _ _ _ W1 Sb). reflexivity. }
      intros ts Hts. inversion Hts as [|? t ? ts' Ht Hts']; subst.
      destruct (X4 _ Hts') as (bs & B1 & B2).
      unfold denote in Ht. cbn in Ht. rewrite E, Sb in Ht. apply Some_inj in Ht. subst t.
      cbn. rewrite B1. exists (b ++ bs). split; [reflexivity|]. now rewrite B2.
    + cbn in Hn. rewrite small_bytes_ok in H by exact Hn. cbn [bind] in H.
      destruct (IH (acc ++ be_bytes (N.to_nat (len_for_value v)) v) (counter + len_for_value v) acc' counter' Hrest)
        as (x & X1 & X2 & X3 & X4).
      { destruct Hacc as [y Hy]. exists (y ++ be_bytes (N.to_nat (len_for_value v)) v). rewrite Hy, app_assoc. reflexivity. }
      { exact H. }
      exists (be_bytes (N.to_nat (len_for_value v)) v ++ x). rewrite app_assoc. split; [exact X1|]. split.
      { rewrite X2. unfold blen. rewrite app_length, be_bytes_length. lia. }
      split. { rewrite wf_bytes_app, X3, be_bytes_wf. reflexivity. }
      intros ts Hts. inversion Hts as [|? t ? ts' Ht Hts']; subst.
      destruct (X4 _ Hts') as (bs & B1 & B2).
      rewrite denote_small in Ht by exact Hn. apply Some_inj in Ht. subst t.
      cbn. rewrite B1. eexists. split; [reflexivity|]. now rewrite B2.
Qed.

Lemma concat_loop_err a size e : WF (hp a) -> forall nodes, Forall (vnode (hp a)) nodes ->
  forall counter acc, (exists y, acc = u8 (hp a) ++ y) ->
  concat_loop a size nodes acc counter = Err e -> exists k, e = InternalError k.
Proof.
  intros Hw. induction nodes as [|m ms IH]; intros Hms counter acc Hacc H; [discriminate|].
  inversion Hms as [|? ? Hm Hms']; subst. destruct m as [i|i|v]; cbn [concat_loop] in H.
  - apply (f_equal (fun r => match r with Err x => x | Ok _ => OutOfFuel end)) in H. cbn in H. subst e. exists 3. reflexivity.
  - cbn in Hm. destruct (nth_N_lt _ _ Hm) as [[s e'] E]. unfold get_atom in H. rewrite E in H.
    cbn [bind] in H. unfold buf_len in H. cbn [fst snd] in H. destruct Hw as [W1 W2 W3].
    assert (Hin : In (s, e') (atoms (hp a))) by (eapply nth_error_In; exact E).
    rewrite Forall_forall in W2. destruct (W2 _ Hin) as [A B]. cbn in A, B.
    replace (e' <? s) with false in H by lia. cbn [bind] in H.
    destruct (size <? counter + (e' - s)).
    { apply (f_equal (fun r => match r with Err x => x | Ok _ => OutOfFuel end)) in H. cbn in H. subst e. exists 2. reflexivity. }
    destruct (slice_ok _ _ _ A B) as (b & Sb & Lb). destruct Hacc as [y Hy].
    rewrite Hy in H at 1. rewrite (slice_app_l _ y _ _ _ Sb) in H.
    eapply IH; [exact Hms'| |exact H]. exists (y ++ b). rewrite Hy, app_assoc. reflexivity.
  - cbn in Hm. rewrite small_bytes_ok in H by exact Hm. cbn [bind] in H.
    eapply IH; [exact Hms'| |exact H]. destruct Hacc as [y Hy].
    exists (y ++ be_bytes (N.to_nat (len_for_value v)) v). rewrite Hy, app_assoc. reflexivity.
Qed.

Lemma new_concat_spec a size nodes : AOK a -> Forall (vnode (hp a)) nodes ->
  match new_concat a size nodes with
  | Err e => (e = TooManyAtoms /\ atom_count a = MAX_NUM_ATOMS) \/
             (atom_count a < MAX_NUM_ATOMS /\
              ((e = OutOfMemory /\ heap_limit a < heap_size a + size) \/
               (heap_size a + size <= heap_limit a /\ exists k, e = InternalError k \/ e = Panic 6)))
  | Ok (a', n) => atom_count a < MAX_NUM_ATOMS /\ heap_size a + size <= heap_limit a /\
                  AOK a' /\ ext (hp a) (hp a') /\ vnode (hp a') n /\ bump a a' 1 0 size /\
                  (forall ts, Forall2 (fun n t => denote (hp a) n = Some t) nodes ts ->
                     exists bs, all_atoms ts = Some bs /\ blen bs = size /\ denote (hp a') n = Some (Atom bs))
  end.
Proof.
  intros [Hw Hc] Hv. destruct (counts_u32 a Hc) as (U1 & U2 & U3).
  unfold new_concat, check_atom_limit.
  destruct (atoms_len a + ghost_atoms a =? MAX_NUM_ATOMS) eqn:E0.
  { left. split; [reflexivity|]. unf. lia. }
  assert (P0 : atom_count a < MAX_NUM_ATOMS) by (unf; lia).
  cbn [bind].
  destruct (heap_limit a <? u8_len a + ghost_heap a + size) eqn:E1.
  { right. split; [exact P0|]. left. split; [reflexivity|]. unf. lia. }
  assert (P1 : heap_size a + size <= heap_limit a) by (unf; lia).
  destruct nodes as [|n [|n2 rest]].
  - destruct (size =? 0) eqn:Es; cbn [negb].
    + refine (conj P0 (conj P1 (conj _ (conj (ext_refl _) (conj _ (conj _ _)))))).
      * split; [exact Hw|]. unf. cbn. lia.
      * cbn. unf. lia.
      * unfold bump. unf. cbn. lia.
      * intros ts Hts. inversion Hts; subst. exists [].
        split; [reflexivity|]. split; [unfold blen; cbn; lia|].
        cbn [hp set_ghosts]. unfold nil_node. rewrite denote_small by (unf; lia). reflexivity.
    + right. split; [exact P0|]. right. split; [exact P1|]. exists 2. now left.
  - inversion Hv as [|? ? Hn _]; subst.
    destruct (atom_len a n) as [l|e] eqn:El; cbn [bind].
    + destruct (l =? size) eqn:Es; cbn [negb].
      * refine (conj P0 (conj P1 (conj _ (conj (ext_refl _) (conj Hn (conj _ _)))))).
        -- split; [exact Hw|]. unf. cbn. lia.
        -- unfold bump. unf. cbn. lia.
        -- intros ts Hts. inversion Hts as [|? t ? ? Ht Hnil]; subst. inversion Hnil; subst.
           cbn [hp set_ghosts]. pose proof (denote_atom_or_pair _ _ _ Ht) as K.
           destruct n as [i|i|v].
           { cbn in El. discriminate. }
           { destruct K as [b ->]. rewrite (atom_len_spec _ _ _ Ht) in El. apply Ok_inj in El.
             exists b. cbn. rewrite app_nil_r. repeat split; [lia|exact Ht]. }
           { destruct K as [b ->]. rewrite (atom_len_spec _ _ _ Ht) in El. apply Ok_inj in El.
             exists b. cbn. rewrite app_nil_r. repeat split; [lia|exact Ht]. }
      * right. split; [exact P0|]. right. split; [exact P1|]. exists 2. now left.
    + right. split; [exact P0|]. right. split; [exact P1|].
      destruct n as [i|i|v]; cbn in El.
      * apply (f_equal (fun r => match r with Err x => x | Ok _ => OutOfFuel end)) in El. cbn in El. subst e.
        exists 0. now right.
      * exfalso. cbn in Hn. destruct (nth_N_lt _ _ Hn) as [[s e'] E]. unfold get_atom in El. rewrite E in El.
        cbn in El. unfold buf_len in El. cbn in El. destruct Hw as [W1 W2 W3].
        assert (Hin : In (s, e') (atoms (hp a))) by (eapply nth_error_In; exact E).
        rewrite Forall_forall in W2. destruct (W2 _ Hin) as [A B]. cbn in A, B.
        replace (e' <? s) with false in El by lia. discriminate.
      * discriminate.
  - destruct (concat_loop a size (n :: n2 :: rest) (u8 (hp a)) 0) as [[acc counter]|e] eqn:EL; cbn [bind].
    + destruct (concat_loop_spec a size Hw _ _ _ _ _ Hv ltac:(exists []; now rewrite app_nil_r) EL) as (x & X1 & X2 & X3 & X4).
      destruct (counter =? size) eqn:Es; cbn [negb].
      * assert (Hle : u8_len a + size <= U32_MAX) by (unf; lia).
        assert (L2 : blen acc = u8_len a + size) by (rewrite X1; unfold u8_len, blen in *; rewrite app_length; lia).
        rewrite L2, (u32_id _ Hle), U1.
        assert (L1 : nlen (atoms (hp a) ++ [(u8_len a, u8_len a + size)]) = atoms_len a + 1) by (rewrite nlen_app; reflexivity).
        assert (Hh : mkHeap acc (atoms (hp a)) (pairs (hp a)) = push_u8 (hp a) x) by (unfold push_u8; now rewrite X1).
        rewrite Hh.
        assert (Hw' : WF (push_atom (push_u8 (hp a) x) (u8_len a) (u8_len a + size))).
        { apply WF_push_atom; [apply WF_push_u8; assumption|lia|]. cbn. rewrite <- X1, L2. lia. }
        refine (conj P0 (conj P1 (conj _ (conj _ (conj _ (conj _ _)))))).
        -- split; [exact Hw'|]. unf. cbn. rewrite L1, <- X1, L2. unfold atoms_len, u8_len. lia.
        -- eapply ext_trans; [apply ext_push_u8|apply ext_push_atom].
        -- cbn. rewrite L1. lia.
        -- unfold bump. unf. cbn. rewrite L1, <- X1, L2. unfold atoms_len, u8_len. lia.
        -- intros ts Hts. destruct (X4 _ Hts) as (bs & B1 & B2). exists bs. split; [exact B1|]. subst x.
           assert (Lx : blen bs = size) by lia. split; [exact Lx|].
           unfold denote. cbn. unfold atoms_len. rewrite nth_N_app_end.
           unfold slice. rewrite <- X1, L2. unfold u8_len.
           replace ((blen (u8 (hp a)) <=? blen (u8 (hp a)) + size) && (blen (u8 (hp a)) + size <=? blen (u8 (hp a)) + size)) with true by lia.
           rewrite X1.
           replace (N.to_nat (blen (u8 (hp a)) + size - blen (u8 (hp a)))) with (length bs) by (unfold blen in *; lia).
           replace (N.to_nat (blen (u8 (hp a)))) with (length (u8 (hp a))) by (unfold blen; lia).
           rewrite skipn_app, skipn_all, Nat.sub_diag. cbn [skipn app]. rewrite firstn_all. reflexivity.
      * right. split; [exact P0|]. right. split; [exact P1|]. exists 2. now left.
    + right. split; [exact P0|]. right. split; [exact P1|].
      destruct (concat_loop_err a size e Hw _ Hv 0 (u8 (hp a)) ltac:(exists []; now rewrite app_nil_r) EL) as [k ->].
      exists k. now left.
Qed.
