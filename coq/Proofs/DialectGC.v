(* C04 on the interpreter model: ChiaDialect with and without ENABLE_GC. Two differences: the
   dialect schedules Restore operations for GC-candidate operators (stuttering steps,
   Proofs/MachineGC.v) and every operator is handed a flag set that differs in the ENABLE_GC bit
   (no operator reads it: contracts op_gc_indep). *)
From Coq Require Import Lia ZifyBool ZifyN ZifyNat.
From Clvm Require Import Model.Dialect Proofs.OpContractDefs Proofs.OpContractsMore2 Proofs.OpContractsMore3
  Proofs.OpContractsCrypto Proofs.DialectContracts Proofs.DialectContracts2 Proofs.MachineBasics
  Proofs.MachineRestrict Proofs.MachineTotal Proofs.DialectTotal Proofs.MachineGC.
Open Scope N_scope.

Definition set_gc (f : flagset) (b : bool) : flagset :=
  {| f_canonical_ints := f_canonical_ints f; f_no_unknown_ops := f_no_unknown_ops f;
     f_limit_heap := f_limit_heap f; f_relaxed_bls := f_relaxed_bls f;
     f_limit_softfork := f_limit_softfork f; f_enable_gc := b;
     f_limits := f_limits f; f_keccak_outside_guard := f_keccak_outside_guard f;
     f_disable_op := f_disable_op f; f_sha256_tree := f_sha256_tree f;
     f_secp_ops := f_secp_ops f; f_malachite := f_malachite f;
     f_new_cost_model := f_new_cost_model f |}.

Lemma same_but_gc_set f b1 b2 : same_but_gc (set_gc f b1) (set_gc f b2).
Proof. unfold same_but_gc, set_gc; cbn. repeat split. Qed.

Lemma same_but_gc_dialect f f' : same_but_gc f f' -> same_but_gc (dialect_flags f) (dialect_flags f').
Proof.
  unfold same_but_gc, dialect_flags. intros (A & B & C & D & E & F & G & H & I & J & K & L).
  rewrite <- L. destruct (f_new_cost_model f) eqn:N; cbn; repeat split; auto; congruence.
Qed.

Lemma same_but_gc_op_flags f f' ext : same_but_gc f f' -> same_but_gc (op_flags f ext) (op_flags f' ext).
Proof.
  unfold same_but_gc, op_flags, with_keccak. intros (A & B & C & D & E & F & G & H & I & J & K & L).
  destruct ext; cbn; repeat split; auto.
Qed.

Lemma chia_op_gc_indep P know4 f f' o a m ext : same_but_gc f f' ->
  chia_op P know4 f o a m ext = chia_op P know4 f' o a m ext.
Proof.
  intros Hs. unfold chia_op. destruct o as [b|]; [|reflexivity].
  pose proof (same_but_gc_op_flags f f' ext Hs) as Hf.
  pose proof (all_ops_gc_indep P) as HA. rewrite Forall_forall in HA.
  destruct (length b =? 4)%nat.
  - destruct (know4 && bytes_eqb b SECP256K1_OPCODE)%bool; [exact (secp256k1_verify_gc_indep P _ _ _ _ Hf)|].
    destruct (know4 && bytes_eqb b SECP256R1_OPCODE)%bool; [exact (secp256r1_verify_gc_indep P _ _ _ _ Hf)|].
    exact (unknown_operator_gc_indep b _ _ _ _ Hf).
  - destruct (negb (length b =? 1)%nat); [exact (unknown_operator_gc_indep b _ _ _ _ Hf)|].
    destruct (small_number (Atom b)) as [op|]; [|exact (unknown_operator_gc_indep b _ _ _ _ Hf)].
    assert (T : chia_table P (op_flags f ext) op = chia_table P (op_flags f' ext) op).
    { destruct Hf as (A & B & C & D & E & F & G & H & I & J & K & L).
      unfold chia_table. rewrite H, I, J, G, L. reflexivity. }
    rewrite <- T. destruct (chia_table P (op_flags f ext) op) as [[fn|e]|] eqn:T'.
    + apply chia_table_in in T'. exact (HA _ T' _ _ _ _ Hf).
    + reflexivity.
    + exact (unknown_operator_gc_indep b _ _ _ _ Hf).
Qed.

Lemma rr_false_eq {X} (r1 r2 : res X) : rr (fun _ => False) r1 r2 -> r1 = r2.
Proof. destruct r1; cbn; [intros ->; reflexivity|intros [[]| ->]; reflexivity]. Qed.

(* the GC dialect with its Restore scheduling switched off is the dialect without the flag *)
Lemma no_gc_is_flagless P f fuel p e M :
  run_program (no_gc (chia_dialect P (set_gc f true))) fuel p e M = run_program (chia_dialect P (set_gc f false)) fuel p e M.
Proof.
  apply rr_false_eq.
  pose proof (same_but_gc_dialect _ _ (same_but_gc_set f true false)) as Hd.
  apply run_program_rel; try reflexivity.
  - intros o. cbn [d_gc no_gc chia_dialect]. unfold gc_candidate.
    assert (G : f_enable_gc (dialect_flags (set_gc f false)) = false).
    { unfold dialect_flags, set_gc; cbn. destruct (f_new_cost_model f); reflexivity. }
    rewrite G. reflexivity.
  - intros o a m ext. cbn [d_op no_gc chia_dialect]. rewrite (chia_op_gc_indep P true _ _ o a m ext Hd). apply rr_refl.
  - right. unfold guards_agree. cbn [no_gc chia_dialect d_softfork d_ext d_flags d_allow_unknown].
    destruct Hd as (A & B & C & D & E & F & G & H & I & J & K & L).
    repeat split.
    + intros x. unfold softfork_extension. rewrite L. reflexivity.
    + exact L.
    + intros size t. rewrite A. apply rr_refl.
    + left. exact A.
    + left. rewrite B. reflexivity.
    + left. exact E.
Qed.

Theorem chia_gc_to_nogc P f fuel p e M r :
  run_program (chia_dialect P (set_gc f true)) fuel p e M = r -> r <> Err OutOfFuel ->
  run_program (chia_dialect P (set_gc f false)) fuel p e M = r.
Proof.
  intros H Hr. rewrite <- no_gc_is_flagless. apply gc_to_nogc; try assumption.
  intros b a m ext e0. apply chia_op_nobug.
Qed.

Theorem chia_nogc_to_gc P f fuel p e M r :
  run_program (chia_dialect P (set_gc f false)) fuel p e M = r -> r <> Err OutOfFuel ->
  exists fuel', run_program (chia_dialect P (set_gc f true)) fuel' p e M = r.
Proof.
  intros H Hr. rewrite <- no_gc_is_flagless in H. eapply nogc_to_gc; try eassumption.
  intros b a m ext e0. apply chia_op_nobug.
Qed.
