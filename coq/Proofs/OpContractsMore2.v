(* The remaining contracts (op_restrict, op_cm_indep, op_malachite_indep, op_gc_indep, op_total)
   for the non-cryptographic operators; op_budget and the MALACHITE twins are in
   Proofs/OpContractsMore.v. *)
From Coq Require Import Lia ZifyBool ZifyN ZifyNat.
From Clvm Require Import Model.OpsArith Model.OpsStr Model.OpsBits Model.OpsUnknown.
From Clvm Require Import Proofs.OpContractDefs Proofs.OpContractsCrypto Proofs.UnknownProofs Proofs.OpContractsMore.
Open Scope N_scope.
Arguments N.add : simpl never.
Arguments N.sub : simpl never.
Arguments N.mul : simpl never.
Arguments N.div : simpl never.
Arguments N.eqb : simpl never.
Arguments N.ltb : simpl never.
Arguments N.leb : simpl never.
Arguments N.max : simpl never.

(* ================= which flags are read ================= *)
Ltac rn := intros f f' a m; reflexivity.
Lemma gr_bytes_reads : reads_none op_gr_bytes. Proof. rn. Qed.
Lemma strlen_reads : reads_none op_strlen. Proof. rn. Qed.
Lemma concat_reads : reads_none op_concat. Proof. rn. Qed.
Lemma ash_reads : reads_none op_ash. Proof. rn. Qed.
Lemma lsh_reads : reads_none op_lsh. Proof. rn. Qed.
Lemma lognot_reads : reads_none op_lognot. Proof. rn. Qed.
Lemma not_reads : reads_none op_not. Proof. rn. Qed.
Lemma any_reads : reads_none op_any. Proof. rn. Qed.
Lemma all_reads : reads_none op_all. Proof. rn. Qed.

Ltac rc op := intros f f' a m Hn; unfold op; rewrite Hn; reflexivity.
Lemma add_reads : reads_ncm op_add. Proof. intros f f' a m Hn. unfold op_add, arith_costs. rewrite Hn. reflexivity. Qed.
Lemma subtract_reads : reads_ncm op_subtract. Proof. intros f f' a m Hn. unfold op_subtract, arith_costs. rewrite Hn. reflexivity. Qed.
Lemma gr_reads : reads_ncm op_gr. Proof. rc op_gr. Qed.
Lemma substr_reads : reads_ncm op_substr. Proof. rc op_substr. Qed.
Lemma binop_reads iv opf : reads_ncm (binop_reduction iv opf).
Proof. intros f f' a m Hn. unfold binop_reduction. rewrite Hn. reflexivity. Qed.
Lemma sha256_reads H : reads_ncm (op_sha256 H). Proof. intros f f' a m Hn. unfold op_sha256. rewrite Hn. reflexivity. Qed.
Lemma sha256_tree_reads H : reads_ncm (op_sha256_tree H).
Proof. intros f f' a m Hn. unfold op_sha256_tree, tree_hash_costed. rewrite Hn. reflexivity. Qed.
Lemma unknown_reads o : reads_ncm (op_unknown o). Proof. intros f f' a m Hn. unfold op_unknown. rewrite Hn. reflexivity. Qed.

(* ================= restrict / malachite / gc for the operators above ================= *)
Ltac three name op Hreads :=
  idtac.

Lemma gr_bytes_restrict : op_restrict op_gr_bytes. Proof. apply reads_ncm_restrict, reads_none_ncm, gr_bytes_reads. Qed.
Lemma strlen_restrict : op_restrict op_strlen. Proof. apply reads_ncm_restrict, reads_none_ncm, strlen_reads. Qed.
Lemma concat_restrict : op_restrict op_concat. Proof. apply reads_ncm_restrict, reads_none_ncm, concat_reads. Qed.
Lemma ash_restrict : op_restrict op_ash. Proof. apply reads_ncm_restrict, reads_none_ncm, ash_reads. Qed.
Lemma lsh_restrict : op_restrict op_lsh. Proof. apply reads_ncm_restrict, reads_none_ncm, lsh_reads. Qed.
Lemma lognot_restrict : op_restrict op_lognot. Proof. apply reads_ncm_restrict, reads_none_ncm, lognot_reads. Qed.
Lemma not_restrict : op_restrict op_not. Proof. apply reads_ncm_restrict, reads_none_ncm, not_reads. Qed.
Lemma any_restrict : op_restrict op_any. Proof. apply reads_ncm_restrict, reads_none_ncm, any_reads. Qed.
Lemma all_restrict : op_restrict op_all. Proof. apply reads_ncm_restrict, reads_none_ncm, all_reads. Qed.
Lemma add_restrict : op_restrict op_add. Proof. apply reads_ncm_restrict, add_reads. Qed.
Lemma subtract_restrict : op_restrict op_subtract. Proof. apply reads_ncm_restrict, subtract_reads. Qed.
Lemma gr_restrict : op_restrict op_gr. Proof. apply reads_ncm_restrict, gr_reads. Qed.
Lemma substr_restrict : op_restrict op_substr. Proof. apply reads_ncm_restrict, substr_reads. Qed.
Lemma logand_restrict : op_restrict op_logand. Proof. apply reads_ncm_restrict, binop_reads. Qed.
Lemma logior_restrict : op_restrict op_logior. Proof. apply reads_ncm_restrict, binop_reads. Qed.
Lemma logxor_restrict : op_restrict op_logxor. Proof. apply reads_ncm_restrict, binop_reads. Qed.
Lemma sha256_restrict H : op_restrict (op_sha256 H). Proof. apply reads_ncm_restrict, sha256_reads. Qed.
Lemma sha256_tree_restrict H : op_restrict (op_sha256_tree H). Proof. apply reads_ncm_restrict, sha256_tree_reads. Qed.
Lemma unknown_restrict o : op_restrict (op_unknown o). Proof. apply reads_ncm_restrict, unknown_reads. Qed.

Lemma gr_bytes_malachite_indep : op_malachite_indep op_gr_bytes. Proof. apply reads_ncm_malachite, reads_none_ncm, gr_bytes_reads. Qed.
Lemma strlen_malachite_indep : op_malachite_indep op_strlen. Proof. apply reads_ncm_malachite, reads_none_ncm, strlen_reads. Qed.
Lemma concat_malachite_indep : op_malachite_indep op_concat. Proof. apply reads_ncm_malachite, reads_none_ncm, concat_reads. Qed.
Lemma ash_malachite_indep : op_malachite_indep op_ash. Proof. apply reads_ncm_malachite, reads_none_ncm, ash_reads. Qed.
Lemma lsh_malachite_indep : op_malachite_indep op_lsh. Proof. apply reads_ncm_malachite, reads_none_ncm, lsh_reads. Qed.
Lemma lognot_malachite_indep : op_malachite_indep op_lognot. Proof. apply reads_ncm_malachite, reads_none_ncm, lognot_reads. Qed.
Lemma not_malachite_indep : op_malachite_indep op_not. Proof. apply reads_ncm_malachite, reads_none_ncm, not_reads. Qed.
Lemma any_malachite_indep : op_malachite_indep op_any. Proof. apply reads_ncm_malachite, reads_none_ncm, any_reads. Qed.
Lemma all_malachite_indep : op_malachite_indep op_all. Proof. apply reads_ncm_malachite, reads_none_ncm, all_reads. Qed.
Lemma add_malachite_indep : op_malachite_indep op_add. Proof. apply reads_ncm_malachite, add_reads. Qed.
Lemma subtract_malachite_indep : op_malachite_indep op_subtract. Proof. apply reads_ncm_malachite, subtract_reads. Qed.
Lemma gr_malachite_indep : op_malachite_indep op_gr. Proof. apply reads_ncm_malachite, gr_reads. Qed.
Lemma substr_malachite_indep : op_malachite_indep op_substr. Proof. apply reads_ncm_malachite, substr_reads. Qed.
Lemma logand_malachite_indep : op_malachite_indep op_logand. Proof. apply reads_ncm_malachite, binop_reads. Qed.
Lemma logior_malachite_indep : op_malachite_indep op_logior. Proof. apply reads_ncm_malachite, binop_reads. Qed.
Lemma logxor_malachite_indep : op_malachite_indep op_logxor. Proof. apply reads_ncm_malachite, binop_reads. Qed.
Lemma sha256_malachite_indep H : op_malachite_indep (op_sha256 H). Proof. apply reads_ncm_malachite, sha256_reads. Qed.
Lemma sha256_tree_malachite_indep H : op_malachite_indep (op_sha256_tree H). Proof. apply reads_ncm_malachite, sha256_tree_reads. Qed.
Lemma unknown_malachite_indep o : op_malachite_indep (op_unknown o). Proof. apply reads_ncm_malachite, unknown_reads. Qed.

Lemma gr_bytes_gc_indep : op_gc_indep op_gr_bytes. Proof. apply reads_ncm_gc, reads_none_ncm, gr_bytes_reads. Qed.
Lemma strlen_gc_indep : op_gc_indep op_strlen. Proof. apply reads_ncm_gc, reads_none_ncm, strlen_reads. Qed.
Lemma concat_gc_indep : op_gc_indep op_concat. Proof. apply reads_ncm_gc, reads_none_ncm, concat_reads. Qed.
Lemma ash_gc_indep : op_gc_indep op_ash. Proof. apply reads_ncm_gc, reads_none_ncm, ash_reads. Qed.
Lemma lsh_gc_indep : op_gc_indep op_lsh. Proof. apply reads_ncm_gc, reads_none_ncm, lsh_reads. Qed.
Lemma lognot_gc_indep : op_gc_indep op_lognot. Proof. apply reads_ncm_gc, reads_none_ncm, lognot_reads. Qed.
Lemma not_gc_indep : op_gc_indep op_not. Proof. apply reads_ncm_gc, reads_none_ncm, not_reads. Qed.
Lemma any_gc_indep : op_gc_indep op_any. Proof. apply reads_ncm_gc, reads_none_ncm, any_reads. Qed.
Lemma all_gc_indep : op_gc_indep op_all. Proof. apply reads_ncm_gc, reads_none_ncm, all_reads. Qed.
Lemma add_gc_indep : op_gc_indep op_add. Proof. apply reads_ncm_gc, add_reads. Qed.
Lemma subtract_gc_indep : op_gc_indep op_subtract. Proof. apply reads_ncm_gc, subtract_reads. Qed.
Lemma gr_gc_indep : op_gc_indep op_gr. Proof. apply reads_ncm_gc, gr_reads. Qed.
Lemma substr_gc_indep : op_gc_indep op_substr. Proof. apply reads_ncm_gc, substr_reads. Qed.
Lemma logand_gc_indep : op_gc_indep op_logand. Proof. apply reads_ncm_gc, binop_reads. Qed.
Lemma logior_gc_indep : op_gc_indep op_logior. Proof. apply reads_ncm_gc, binop_reads. Qed.
Lemma logxor_gc_indep : op_gc_indep op_logxor. Proof. apply reads_ncm_gc, binop_reads. Qed.
Lemma sha256_gc_indep H : op_gc_indep (op_sha256 H). Proof. apply reads_ncm_gc, sha256_reads. Qed.
Lemma sha256_tree_gc_indep H : op_gc_indep (op_sha256_tree H). Proof. apply reads_ncm_gc, sha256_tree_reads. Qed.
Lemma unknown_gc_indep o : op_gc_indep (op_unknown o). Proof. apply reads_ncm_gc, unknown_reads. Qed.

(* ---- unknown_operator: reads NO_UNKNOWN_OPS and NEW_COST_MODEL ---- *)
Lemma unknown_operator_restrict o : op_restrict (unknown_operator o).
Proof.
  intros f f' a m r Hle E. unfold unknown_operator in *.
  destruct (f_no_unknown_ops f') eqn:E'; [discriminate E|].
  destruct (f_no_unknown_ops f) eqn:E0.
  - destruct Hle as (_ & H2 & _). rewrite (H2 E0) in E'. discriminate E'.
  - eapply unknown_restrict; eassumption.
Qed.
Lemma unknown_operator_malachite_indep o : op_malachite_indep (unknown_operator o).
Proof.
  intros f f' a m Hs. unfold unknown_operator. pose proof (unknown_malachite_indep o f f' a m Hs) as E.
  destruct Hs as (_ & H2 & _). rewrite H2, E. reflexivity.
Qed.
Lemma unknown_operator_gc_indep o : op_gc_indep (unknown_operator o).
Proof.
  intros f f' a m Hs. unfold unknown_operator. pose proof (unknown_gc_indep o f f' a m Hs) as E.
  destruct Hs as (_ & H2 & _). rewrite H2, E. reflexivity.
Qed.

(* ---- multiply: reads NEW_COST_MODEL and LIMITS ---- *)
Lemma mul_loop_unlimit ncm d a : forall cost total l0 m r,
  mul_loop true ncm d a cost total l0 m = Ok r -> mul_loop false ncm d a cost total l0 m = Ok r.
Proof.
  induction a as [b|x _ r0 IH]; intros cost total l0 m r H; cbn [mul_loop] in *; [exact H|].
  destruct x as [b|]; [|exact H]. cbv zeta in *. cbn [andb] in *.
  destruct (negb ncm && (256 <? blen b)); [discriminate H|].
  destruct (check_cost _ m); cbn [bind] in *; [|exact H].
  destruct (negb ncm && (1024 <? _)); [discriminate H|]. apply IH. exact H.
Qed.

Lemma multiply_flags f f' a m :
  f_new_cost_model f = f_new_cost_model f' -> f_limits f = f_limits f' -> op_multiply f a m = op_multiply f' a m.
Proof. intros H1 H2. unfold op_multiply. rewrite H1, H2. reflexivity. Qed.

Lemma multiply_restrict : op_restrict op_multiply.
Proof.
  intros f f' a m r Hle E. pose proof Hle as (_ & _ & _ & _ & Hlim & _ & _ & _ & _ & _ & _ & _ & Hn).
  destruct (f_limits f) eqn:El.
  - rewrite (multiply_flags f f' a m Hn); [exact E|]. rewrite El, (Hlim eq_refl). reflexivity.
  - destruct (f_limits f') eqn:El'; [|rewrite (multiply_flags f f' a m Hn); [exact E|congruence]].
    unfold op_multiply in *. rewrite El, El' in *. rewrite Hn. cbv zeta in *.
    destruct a as [b|x r0]; [exact E|]. destruct x as [b|]; [|exact E]. cbn [andb] in *.
    destruct (negb (f_new_cost_model f') && (256 <? blen b)); [discriminate E|].
    destruct (f_new_cost_model f'); cbn [bind] in *.
    + destruct (check_cost _ m); cbn [bind] in *; [|exact E].
      destruct (mul_loop true _ _ _ _ _ _ m) as [[c0 t]|] eqn:EL; cbn [bind] in E; [|discriminate E].
      rewrite (mul_loop_unlimit _ _ _ _ _ _ _ _ EL). exact E.
    + destruct (mul_loop true _ _ _ _ _ _ m) as [[c0 t]|] eqn:EL; cbn [bind] in E; [|discriminate E].
      rewrite (mul_loop_unlimit _ _ _ _ _ _ _ _ EL). exact E.
Qed.
Lemma multiply_malachite_indep : op_malachite_indep op_multiply.
Proof. intros f f' a m Hs. apply multiply_flags; apply Hs. Qed.
Lemma multiply_gc_indep : op_gc_indep op_multiply.
Proof. intros f f' a m Hs. apply multiply_flags; apply Hs. Qed.

(* ---- division family: NEW_COST_MODEL, LIMITS, DISABLE_OP (and MALACHITE, proved unobservable) ---- *)
Ltac div_restrict_num op :=
  intros f f' a m r Hle E;
  pose proof Hle as (_ & _ & _ & _ & Hlim & Hdis & _ & _ & _ & _ & _ & _ & Hn);
  unfold op in *; rewrite Hn;
  destruct (get_args2 a) as [[v0 v1]|]; cbn [bind] in *; [|discriminate E];
  destruct (int_atom_lazy v0) as [[b0 l0]|]; cbn [bind] in *; [|discriminate E];
  destruct (int_atom_lazy v1) as [[b1 l1]|]; cbn [bind] in *; [|discriminate E];
  destruct (f_disable_op f) eqn:Ed; [rewrite (Hdis eq_refl) in E|];
  (destruct (f_limits f) eqn:El; [rewrite (Hlim eq_refl) in E|]);
  try exact E;
  repeat match type of E with
         | context [f_disable_op f'] => destruct (f_disable_op f')
         | context [f_limits f'] => destruct (f_limits f')
         end;
  cbn [andb] in *;
  repeat match type of E with
         | context [if ?c then bad_arg else _] => destruct c eqn:?; [discriminate E|]
         end;
  repeat match goal with
         | H : (_ && _) = false |- _ => rewrite H
         | H : (_ || _) = false |- _ => rewrite H
         end;
  try exact E.

Lemma div_num_restrict : op_restrict op_div_num.
Proof.
  div_restrict_num op_div_num;
    repeat match goal with |- context [if ?c then bad_arg else _] => destruct c eqn:? end;
    try exact E; try discriminate; try congruence.
Qed.

Lemma divmod_num_restrict : op_restrict op_divmod_num.
Proof.
  div_restrict_num op_divmod_num;
    repeat match goal with |- context [if ?c then bad_arg else _] => destruct c eqn:? end;
    try exact E; try discriminate; try congruence.
Qed.
Lemma mod_num_restrict : op_restrict op_mod_num.
Proof.
  div_restrict_num op_mod_num;
    repeat match goal with |- context [if ?c then bad_arg else _] => destruct c eqn:? end;
    try exact E; try discriminate; try congruence.
Qed.

Lemma modpow_num_restrict : op_restrict op_modpow_num.
Proof.
  intros f f' a m r Hle E.
  pose proof Hle as (_ & _ & _ & _ & Hlim & _ & _ & _ & _ & _ & _ & _ & Hn).
  unfold op_modpow_num in *. cbv zeta in *. rewrite Hn.
  destruct (get_args3 a) as [[[v0 v1] v2]|]; cbn [bind] in *; [|discriminate E].
  destruct (int_atom_lazy v0) as [[b0 l0]|]; cbn [bind] in *; [|discriminate E].
  destruct (int_atom_lazy v1) as [[b1 l1]|]; cbn [bind] in *; [|discriminate E].
  destruct (int_atom_lazy v2) as [[b2 l2]|]; cbn [bind] in *; [|discriminate E].
  destruct (compute_modpow_cost _ _ _ _); cbn [bind] in *; [|discriminate E].
  destruct (check_cost _ m); cbn [bind] in *; [|discriminate E].
  destruct (f_limits f) eqn:El; [rewrite (Hlim eq_refl) in E; exact E|].
  destruct (f_limits f'); [|exact E]. cbn [andb] in *.
  destruct (negb _ && _); [discriminate E|exact E].
Qed.

(* the exported operators are their num-bigint transcription *)
Lemma div_is_num f a m : op_div f a m = op_div_num f a m.
Proof. unfold op_div, op_div_malachite. rewrite (div_twins _ malachite_lib_ok). destruct (f_malachite f); reflexivity. Qed.
Lemma divmod_is_num f a m : op_divmod f a m = op_divmod_num f a m.
Proof. unfold op_divmod, op_divmod_malachite. rewrite (divmod_twins _ malachite_lib_ok). destruct (f_malachite f); reflexivity. Qed.
Lemma mod_is_num f a m : op_mod f a m = op_mod_num f a m.
Proof. unfold op_mod, op_mod_malachite. rewrite (mod_twins _ malachite_lib_ok). destruct (f_malachite f); reflexivity. Qed.
Lemma modpow_is_num f a m : op_modpow f a m = op_modpow_num f a m.
Proof. unfold op_modpow, op_modpow_malachite. rewrite (modpow_twins _ malachite_lib_ok). destruct (f_malachite f); reflexivity. Qed.

Lemma restrict_ext (op op' : opfn) : (forall f a m, op f a m = op' f a m) -> op_restrict op' -> op_restrict op.
Proof. intros E H f f' a m r Hle. rewrite !E. apply H. exact Hle. Qed.
Lemma div_restrict : op_restrict op_div. Proof. eapply restrict_ext; [apply div_is_num|apply div_num_restrict]. Qed.
Lemma divmod_restrict : op_restrict op_divmod. Proof. eapply restrict_ext; [apply divmod_is_num|apply divmod_num_restrict]. Qed.
Lemma mod_restrict : op_restrict op_mod. Proof. eapply restrict_ext; [apply mod_is_num|apply mod_num_restrict]. Qed.
Lemma modpow_restrict : op_restrict op_modpow. Proof. eapply restrict_ext; [apply modpow_is_num|apply modpow_num_restrict]. Qed.

Lemma div_gc_indep : op_gc_indep op_div.
Proof. intros f f' a m Hs. rewrite !div_is_num. unfold op_div_num. destruct Hs as (_&_&_&_&_&H6&_&H8&_&_&_&H12). rewrite H6, H8, H12. reflexivity. Qed.
Lemma divmod_gc_indep : op_gc_indep op_divmod.
Proof. intros f f' a m Hs. rewrite !divmod_is_num. unfold op_divmod_num. destruct Hs as (_&_&_&_&_&H6&_&H8&_&_&_&H12). rewrite H6, H8, H12. reflexivity. Qed.
Lemma mod_gc_indep : op_gc_indep op_mod.
Proof. intros f f' a m Hs. rewrite !mod_is_num. unfold op_mod_num. destruct Hs as (_&_&_&_&_&H6&_&H8&_&_&_&H12). rewrite H6, H8, H12. reflexivity. Qed.
Lemma modpow_gc_indep : op_gc_indep op_modpow.
Proof. intros f f' a m Hs. rewrite !modpow_is_num. unfold op_modpow_num. destruct Hs as (_&_&_&_&_&H6&_&H8&_&_&_&H12). rewrite H6, H12. reflexivity. Qed.

(* ================= the value does not depend on the cost model ================= *)
Lemma gr_bytes_cm_indep : op_cm_indep op_gr_bytes. Proof. apply reads_none_cm; [apply gr_bytes_reads|apply gr_bytes_budget]. Qed.
Lemma strlen_cm_indep : op_cm_indep op_strlen. Proof. apply reads_none_cm; [apply strlen_reads|apply strlen_budget]. Qed.
Lemma concat_cm_indep : op_cm_indep op_concat. Proof. apply reads_none_cm; [apply concat_reads|apply concat_budget]. Qed.
Lemma ash_cm_indep : op_cm_indep op_ash. Proof. apply reads_none_cm; [apply ash_reads|apply ash_budget]. Qed.
Lemma lsh_cm_indep : op_cm_indep op_lsh. Proof. apply reads_none_cm; [apply lsh_reads|apply lsh_budget]. Qed.
Lemma lognot_cm_indep : op_cm_indep op_lognot. Proof. apply reads_none_cm; [apply lognot_reads|apply lognot_budget]. Qed.
Lemma not_cm_indep : op_cm_indep op_not. Proof. apply reads_none_cm; [apply not_reads|apply not_budget]. Qed.
Lemma any_cm_indep : op_cm_indep op_any. Proof. apply reads_none_cm; [apply any_reads|apply any_budget]. Qed.
Lemma all_cm_indep : op_cm_indep op_all. Proof. apply reads_none_cm; [apply all_reads|apply all_budget]. Qed.

Lemma unknown_cm_indep o : op_cm_indep (op_unknown o).
Proof.
  apply cm_from_nil. intros f a m c v H. unfold op_unknown in H.
  destruct (unknown_cost _ _ _ _); cbn [bind] in H; [|discriminate H]. apply Ok_inj2 in H. inversion H. reflexivity.
Qed.
Lemma unknown_operator_cm_indep o : op_cm_indep (unknown_operator o).
Proof.
  apply cm_from_nil. intros f a m c v H. unfold unknown_operator, op_unknown in H.
  destruct (f_no_unknown_ops f); [discriminate H|].
  destruct (unknown_cost _ _ _ _); cbn [bind] in H; [|discriminate H]. apply Ok_inj2 in H. inversion H. reflexivity.
Qed.

(* binds whose first steps differ (only the continuation's value matters) *)
Lemma valrel_bind2 {X Y} (r r' : res Y) (g g' : Y -> N -> res (N * X)) :
  (forall y y', valrel (g y) (g' y')) -> valrel (fun m => do y <- r; g y m) (fun m => do y <- r'; g' y m).
Proof.
  intros Hg. destruct r as [y|e]; cbn [bind]; [|apply valrel_err_l].
  destruct r' as [y'|e']; cbn [bind]; [apply Hg|apply valrel_err_r].
Qed.

Lemma gr_cm_indep : op_cm_indep op_gr.
Proof.
  apply valrel_op. intros f f' a _. unfold op_gr.
  destruct (get_args2 a) as [[v0 v1]|]; cbn [bind]; [|apply valrel_err_l].
  destruct (if f_new_cost_model f then _ else _) as [bc pb].
  destruct (if f_new_cost_model f' then _ else _) as [bc' pb'].
  destruct (int_atom v0) as [[n0 l0]|]; cbn [bind]; [|apply valrel_err_l].
  destruct (int_atom v1) as [[n1 l1]|]; cbn [bind]; [|apply valrel_err_l].
  apply valrel_ret.
Qed.

Lemma substr_cm_indep : op_cm_indep op_substr.
Proof.
  apply valrel_op. intros f f' a _. unfold op_substr. cbv zeta.
  destruct (get_varargs 3 a) as [[|a0 [|st tl]]|]; cbn [bind]; try apply valrel_err_l.
  destruct (atom_of a0); cbn [bind]; [|apply valrel_err_l].
  destruct (i32_atom st); cbn [bind]; [|apply valrel_err_l].
  destruct (match tl with [] => _ | _ => _ end); cbn [bind]; [|apply valrel_err_l].
  destruct (_ || _ || _ || _); [apply valrel_err_l|]. apply valrel_ret.
Qed.

Lemma add_loop_valrel a : forall ncm pa pb cost ncm' pa' pb' cost' acc,
  valrel (fun m => add_loop ncm pa pb a cost acc m) (fun m => add_loop ncm' pa' pb' a cost' acc m).
Proof.
  induction a as [b|x _ r IH]; intros; cbn [add_loop]; cbv zeta.
  - apply valrel_ret.
  - destruct x as [b|]; [|apply valrel_err_l]. apply valrel_check. apply IH.
Qed.
Lemma sub_loop_valrel a : forall ncm pa pb cost ncm' pa' pb' cost' acc fst,
  valrel (fun m => sub_loop ncm pa pb a cost acc fst m) (fun m => sub_loop ncm' pa' pb' a cost' acc fst m).
Proof.
  induction a as [b|x _ r IH]; intros; cbn [sub_loop]; cbv zeta.
  - apply valrel_ret.
  - apply valrel_check. destruct x as [b|]; [|apply valrel_err_l]. apply valrel_check. apply IH.
Qed.

Ltac post_same :=
  let H := fresh "H" in let H' := fresh "H'" in
  intros ? ? ? ? ? ? ? H H'; cbn beta iota in H, H'; unfold malloc_cost in *;
  apply Ok_inj2 in H; apply Ok_inj2 in H'; congruence.

Lemma add_cm_indep : op_cm_indep op_add.
Proof.
  apply valrel_op. intros f f' a _. unfold op_add.
  destruct (arith_costs f) as [[bc pa] pb]. destruct (arith_costs f') as [[bc' pa'] pb'].
  eapply valrel_post; [apply add_loop_valrel|post_same].
Qed.
Lemma subtract_cm_indep : op_cm_indep op_subtract.
Proof.
  apply valrel_op. intros f f' a _. unfold op_subtract.
  destruct (arith_costs f) as [[bc pa] pb]. destruct (arith_costs f') as [[bc' pa'] pb'].
  eapply valrel_post; [apply sub_loop_valrel|post_same].
Qed.

Lemma mul_loop_valrel a : forall lim ncm d cost lim' ncm' d' cost' total l0,
  valrel (fun m => mul_loop lim ncm d a cost total l0 m) (fun m => mul_loop lim' ncm' d' a cost' total l0 m).
Proof.
  induction a as [b|x _ r IH]; intros; cbn [mul_loop]; cbv zeta.
  - apply valrel_ret.
  - destruct x as [b|]; [|apply valrel_err_l].
    destruct (lim && negb ncm && _); [apply valrel_err_l|].
    destruct (lim' && negb ncm' && _); [apply valrel_err_r|].
    apply valrel_check.
    destruct (lim && negb ncm && _); [apply valrel_err_l|].
    destruct (lim' && negb ncm' && _); [apply valrel_err_r|]. apply IH.
Qed.

Lemma valrel_ext {X} (g g1 g' g1' : N -> res (N * X)) :
  (forall m, g m = g1 m) -> (forall m, g' m = g1' m) -> valrel g1 g1' -> valrel g g'.
Proof. intros E E' H m m' c x c' x'. rewrite E, E'. apply H. Qed.

Lemma multiply_cm_indep : op_cm_indep op_multiply.
Proof.
  apply valrel_op. intros f f' a _. unfold op_multiply. cbv zeta.
  destruct a as [b|x r]; [apply valrel_ret|]. destruct x as [b|]; [|apply valrel_err_l].
  destruct (f_limits f && _ && _); [apply valrel_err_l|].
  destruct (f_limits f' && _ && _); [apply valrel_err_r|].
  (* normalise the optional first check *)
  set (K := fun (lim ncm : bool) (d cost : N) (m : N) =>
              do x <- mul_loop lim ncm d r cost (int_of_bytes b) (blen b) m;
              let (c0, t) := x in Ok (malloc_cost c0 (bytes_of_int t))).
  assert (HK : forall lim ncm d cost lim' ncm' d' cost', valrel (K lim ncm d cost) (K lim' ncm' d' cost')).
  { intros. unfold K. eapply valrel_post; [apply mul_loop_valrel|post_same]. }
  destruct (f_new_cost_model f), (f_new_cost_model f'); cbn [bind].
  - eapply valrel_ext with
      (g1 := fun m => do _ <- check_cost (NEW_MUL_BASE_COST + blen b * MUL_LINEAR_COST_PER_BYTE) m; K _ _ _ _ m)
      (g1' := fun m => do _ <- check_cost (NEW_MUL_BASE_COST + blen b * MUL_LINEAR_COST_PER_BYTE) m; K _ _ _ _ m);
      [intros m; destruct (check_cost _ m); reflexivity..|]. apply valrel_check. apply HK.
  - eapply valrel_ext with
      (g1 := fun m => do _ <- check_cost (NEW_MUL_BASE_COST + blen b * MUL_LINEAR_COST_PER_BYTE) m; K _ _ _ _ m)
      (g1' := K _ _ _ _); [intros m; destruct (check_cost _ m); reflexivity|reflexivity|].
    apply valrel_check_l. apply HK.
  - intros m m' c x c' x' E E'. symmetry.
    assert (V : valrel (fun m => do _ <- check_cost (NEW_MUL_BASE_COST + blen b * MUL_LINEAR_COST_PER_BYTE) m;
                                 K (f_limits f') true NEW_MUL_SQUARE_COST_PER_BYTE_DIVIDER
                                   (NEW_MUL_BASE_COST + blen b * MUL_LINEAR_COST_PER_BYTE) m)
                       (K (f_limits f) false MUL_SQUARE_COST_PER_BYTE_DIVIDER MUL_BASE_COST)).
    { apply valrel_check_l. apply HK. }
    eapply (V m' m); [|exact E]. destruct (check_cost _ m'); cbn [bind] in *; [exact E'|discriminate E'].
  - apply HK.
Qed.

(* ---- division family ---- *)
Ltac div_cm op :=
  apply valrel_op; intros f f' a _; unfold op; cbv zeta;
  destruct (get_args2 a) as [[v0 v1]|]; cbn [bind]; [|apply valrel_err_l];
  destruct (int_atom_lazy v0) as [[b0 l0]|]; cbn [bind]; [|apply valrel_err_l];
  destruct (int_atom_lazy v1) as [[b1 l1]|]; cbn [bind]; [|apply valrel_err_l];
  destruct (f_disable_op f && _ && _); [apply valrel_err_l|];
  destruct (f_limits f && _ && _); [apply valrel_err_l|];
  destruct (f_disable_op f' && _ && _); [apply valrel_err_r|];
  destruct (f_limits f' && _ && _); [apply valrel_err_r|];
  apply valrel_bind2; intros cost cost'; apply valrel_check;
  destruct (_ =? _)%Z; [apply valrel_err_l|]; unfold malloc_cost; apply valrel_ret.

Lemma div_num_cm_indep : op_cm_indep op_div_num. Proof. div_cm op_div_num. Qed.
Lemma divmod_num_cm_indep : op_cm_indep op_divmod_num. Proof. div_cm op_divmod_num. Qed.
Lemma mod_num_cm_indep : op_cm_indep op_mod_num. Proof. div_cm op_mod_num. Qed.

Lemma modpow_num_cm_indep : op_cm_indep op_modpow_num.
Proof.
  apply valrel_op; intros f f' a _; unfold op_modpow_num; cbv zeta.
  destruct (get_args3 a) as [[[v0 v1] v2]|]; cbn [bind]; [|apply valrel_err_l].
  destruct (int_atom_lazy v0) as [[b0 l0]|]; cbn [bind]; [|apply valrel_err_l].
  destruct (int_atom_lazy v1) as [[b1 l1]|]; cbn [bind]; [|apply valrel_err_l].
  destruct (int_atom_lazy v2) as [[b2 l2]|]; cbn [bind]; [|apply valrel_err_l].
  apply valrel_bind2; intros cost cost'; apply valrel_check.
  destruct (f_limits f && _ && _); [apply valrel_err_l|].
  destruct (f_limits f' && _ && _); [apply valrel_err_r|].
  destruct (_ <? _)%Z; [apply valrel_err_l|]. destruct (_ =? _)%Z; [apply valrel_err_l|].
  unfold malloc_cost. apply valrel_ret.
Qed.

Lemma cm_ext (op op' : opfn) : (forall f a m, op f a m = op' f a m) -> op_cm_indep op' -> op_cm_indep op.
Proof. intros E H f f' a m m' c v c' v' Hs. rewrite !E. apply H. exact Hs. Qed.
Lemma div_cm_indep : op_cm_indep op_div. Proof. eapply cm_ext; [apply div_is_num|apply div_num_cm_indep]. Qed.
Lemma divmod_cm_indep : op_cm_indep op_divmod. Proof. eapply cm_ext; [apply divmod_is_num|apply divmod_num_cm_indep]. Qed.
Lemma mod_cm_indep : op_cm_indep op_mod. Proof. eapply cm_ext; [apply mod_is_num|apply mod_num_cm_indep]. Qed.
Lemma modpow_cm_indep : op_cm_indep op_modpow. Proof. eapply cm_ext; [apply modpow_is_num|apply modpow_num_cm_indep]. Qed.

(* ---- sha256 / sha256tree: the hashed bytes do not depend on the cost constants ---- *)
Lemma sha256_loop_valrel a : forall pa pb cost pa' pb' cost' terms,
  valrel
    (fun m => (fix loop (args : sexp) (cost : N) (terms : list bytes) : res (N * list bytes) :=
       match args with
       | Atom _ => Ok (cost, terms)
       | Cons arg rest =>
           let cost := cost + pa in
           match arg with
           | Cons _ _ => bad_arg
           | Atom b => let cost := cost + blen b * pb in do _ <- check_cost cost m; loop rest cost (b :: terms)
           end
       end) a cost terms)
    (fun m => (fix loop (args : sexp) (cost : N) (terms : list bytes) : res (N * list bytes) :=
       match args with
       | Atom _ => Ok (cost, terms)
       | Cons arg rest =>
           let cost := cost + pa' in
           match arg with
           | Cons _ _ => bad_arg
           | Atom b => let cost := cost + blen b * pb' in do _ <- check_cost cost m; loop rest cost (b :: terms)
           end
       end) a cost' terms).
Proof.
  induction a as [b|x _ r IH]; intros; cbv zeta.
  - apply valrel_ret.
  - destruct x as [b|]; [|apply valrel_err_l]. apply valrel_check. apply IH.
Qed.

Lemma sha256_cm_indep H : op_cm_indep (op_sha256 H).
Proof.
  apply valrel_op. intros f f' a _. unfold op_sha256.
  destruct (if f_new_cost_model f then _ else _) as [[bc pa] pb].
  destruct (if f_new_cost_model f' then _ else _) as [[bc' pa'] pb']. cbv zeta.
  eapply valrel_post; [apply sha256_loop_valrel|].
  intros c c' y C V C' V' E E'. cbn beta iota in E, E'. unfold atom_and_cost in *.
  apply Ok_inj2 in E. apply Ok_inj2 in E'. congruence.
Qed.

Lemma tree_hash_walk_value H t : forall pb cost m c h pb' cost' m' c' h',
  tree_hash_walk H pb t cost m = Ok (c, h) -> tree_hash_walk H pb' t cost' m' = Ok (c', h') -> h = h'.
Proof.
  induction t as [b|l IHl r IHr]; intros pb cost m c h pb' cost' m' c' h' E E'; cbn [tree_hash_walk] in *; cbv zeta in *.
  - destruct (check_cost _ m); cbn [bind] in E; [|discriminate E].
    destruct (check_cost _ m'); cbn [bind] in E'; [|discriminate E'].
    apply Ok_inj2 in E. apply Ok_inj2 in E'. congruence.
  - destruct (check_cost _ m); cbn [bind] in E; [|discriminate E].
    destruct (check_cost _ m'); cbn [bind] in E'; [|discriminate E'].
    destruct (tree_hash_walk H pb r _ m) as [[c1 hr]|] eqn:Er; cbn [bind] in E; [|discriminate E].
    destruct (tree_hash_walk H pb' r _ m') as [[c1' hr']|] eqn:Er'; cbn [bind] in E'; [|discriminate E'].
    destruct (tree_hash_walk H pb l _ m) as [[c2 hl]|] eqn:El; cbn [bind] in E; [|discriminate E].
    destruct (tree_hash_walk H pb' l _ m') as [[c2' hl']|] eqn:El'; cbn [bind] in E'; [|discriminate E'].
    apply Ok_inj2 in E. apply Ok_inj2 in E'.
    rewrite (IHr _ _ _ _ _ _ _ _ _ _ Er Er'), (IHl _ _ _ _ _ _ _ _ _ _ El El') in E. congruence.
Qed.

Lemma sha256_tree_cm_indep H : op_cm_indep (op_sha256_tree H).
Proof.
  intros f f' a m m' c v c' v' _ E E'. unfold op_sha256_tree, tree_hash_costed in *. cbv zeta in *.
  destruct (get_args1 a) as [n|]; cbn [bind] in *; [|discriminate E].
  destruct (tree_hash_walk H _ n _ m) as [[c0 h]|] eqn:W; cbn [bind] in E; [|discriminate E].
  destruct (tree_hash_walk H _ n _ m') as [[c0' h']|] eqn:W'; cbn [bind] in E'; [|discriminate E'].
  destruct (check_cost _ m); cbn [bind] in E; [|discriminate E].
  destruct (check_cost _ m'); cbn [bind] in E'; [|discriminate E'].
  apply Ok_inj2 in E. apply Ok_inj2 in E'. rewrite (tree_hash_walk_value _ _ _ _ _ _ _ _ _ _ _ _ W W') in E. congruence.
Qed.

(* ---- logand / logior / logxor: split accumulators (old) vs one accumulator (new) ---- *)
Section Logic.
  Variable opf : Z -> Z -> Z.
  Hypothesis opf_assoc : forall a b c, opf a (opf b c) = opf (opf a b) c.
  Hypothesis opf_comm : forall a b, opf a b = opf b a.

  (* the value an accumulator state stands for *)
  Definition acc_value (ncm : bool) (p n : Z) : Z := if ncm then p else opf p n.

  Lemma binop_loop_value a : forall ncm cost p n m c p1 n1 ncm' cost' p' n' m' c' p1' n1',
    acc_value ncm p n = acc_value ncm' p' n' ->
    binop_loop ncm opf a cost p n m = Ok (c, (p1, n1)) ->
    binop_loop ncm' opf a cost' p' n' m' = Ok (c', (p1', n1')) ->
    acc_value ncm p1 n1 = acc_value ncm' p1' n1'.
  Proof.
    induction a as [b|x _ r IH]; intros ncm cost p n m c p1 n1 ncm' cost' p' n' m' c' p1' n1' Hv E E';
      cbn [binop_loop] in E, E'.
    - apply Ok_inj2 in E. apply Ok_inj2 in E'. inversion E; inversion E'; subst. exact Hv.
    - destruct x as [b|]; [|discriminate E]. cbv zeta in E, E'.
      destruct (check_cost _ m); cbn [bind] in E; [|discriminate E].
      destruct (check_cost _ m'); cbn [bind] in E'; [|discriminate E'].
      set (x := int_of_bytes b) in *.
      assert (Hstep : forall nc p0 n0,
                acc_value nc (if nc then opf p0 x else if (x <? 0)%Z then p0 else opf p0 x)
                             (if nc then n0 else if (x <? 0)%Z then opf n0 x else n0)
                = opf (acc_value nc p0 n0) x).
      { intros nc p0 n0. unfold acc_value. destruct nc; [reflexivity|]. destruct (x <? 0)%Z.
        - apply opf_assoc.
        - rewrite <- !opf_assoc. f_equal. apply opf_comm. }
      destruct ncm, ncm'.
      + eapply IH; [|exact E|exact E']. pose proof (Hstep true p n) as S1. pose proof (Hstep true p' n') as S2.
        cbn in S1, S2. unfold acc_value in *. congruence.
      + destruct (x <? 0)%Z eqn:Ex.
        * eapply IH; [|exact E|exact E']. pose proof (Hstep true p n) as S1. pose proof (Hstep false p' n') as S2.
          try rewrite Ex in S2. unfold acc_value in *. cbn in *. congruence.
        * eapply IH; [|exact E|exact E']. pose proof (Hstep true p n) as S1. pose proof (Hstep false p' n') as S2.
          try rewrite Ex in S2. unfold acc_value in *. cbn in *. congruence.
      + destruct (x <? 0)%Z eqn:Ex.
        * eapply IH; [|exact E|exact E']. pose proof (Hstep false p n) as S1. pose proof (Hstep true p' n') as S2.
          try rewrite Ex in S1. unfold acc_value in *. cbn in *. congruence.
        * eapply IH; [|exact E|exact E']. pose proof (Hstep false p n) as S1. pose proof (Hstep true p' n') as S2.
          try rewrite Ex in S1. unfold acc_value in *. cbn in *. congruence.
      + destruct (x <? 0)%Z eqn:Ex.
        * eapply IH; [|exact E|exact E']. pose proof (Hstep false p n) as S1. pose proof (Hstep false p' n') as S2.
          try rewrite Ex in S1; try rewrite Ex in S2. unfold acc_value in *. cbn in *. congruence.
        * eapply IH; [|exact E|exact E']. pose proof (Hstep false p n) as S1. pose proof (Hstep false p' n') as S2.
          try rewrite Ex in S1; try rewrite Ex in S2. unfold acc_value in *. cbn in *. congruence.
  Qed.

  Lemma binop_reduction_cm_indep iv : opf iv iv = iv -> op_cm_indep (binop_reduction iv opf).
  Proof.
    intros Hiv f f' a m m' c v c' v' _ E E'. unfold binop_reduction in *. cbv zeta in *.
    destruct (binop_loop (f_new_cost_model f) opf a _ _ _ m) as [[c0 [p n]]|] eqn:L; cbn [bind] in E; [|discriminate E].
    destruct (binop_loop (f_new_cost_model f') opf a _ _ _ m') as [[c0' [p' n']]|] eqn:L'; cbn [bind] in E'; [|discriminate E'].
    unfold malloc_cost in *. apply Ok_inj2 in E. apply Ok_inj2 in E'.
    assert (Hv : acc_value (f_new_cost_model f) p n = acc_value (f_new_cost_model f') p' n').
    { eapply binop_loop_value; [|exact L|exact L']. unfold acc_value.
      destruct (f_new_cost_model f), (f_new_cost_model f'); congruence. }
    unfold acc_value in Hv. inversion E; inversion E'; subst. rewrite Hv. reflexivity.
  Qed.
End Logic.

Lemma logand_cm_indep : op_cm_indep op_logand.
Proof. apply binop_reduction_cm_indep; [apply Z.land_assoc|apply Z.land_comm|reflexivity]. Qed.
Lemma logior_cm_indep : op_cm_indep op_logior.
Proof. apply binop_reduction_cm_indep; [apply Z.lor_assoc|apply Z.lor_comm|reflexivity]. Qed.
Lemma logxor_cm_indep : op_cm_indep op_logxor.
Proof.
  apply binop_reduction_cm_indep; [|apply Z.lxor_comm|reflexivity].
  intros a b c. symmetry. apply Z.lxor_assoc.
Qed.
