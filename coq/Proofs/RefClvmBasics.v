(* C01, operator level: vocabulary and small lemmas shared by the per-operator proofs that the
   operator models transcribed from the Rust (Model/Ops*.v, no flags) compute the closed forms of
   the reference (Model/RefClvm.v). *)
From Coq Require Import Lia ZifyBool ZifyN ZifyNat.
From Clvm Require Import Model.Dialect Model.RefClvm.
Open Scope N_scope.
Arguments N.add : simpl never.
Arguments N.sub : simpl never.
Arguments N.mul : simpl never.
Arguments N.div : simpl never.
Arguments N.eqb : simpl never.
Arguments N.ltb : simpl never.
Arguments N.leb : simpl never.
Arguments Z.add : simpl never.
Arguments Z.sub : simpl never.
Arguments Z.mul : simpl never.

(* the budget covers the reference's cost (no condition when the reference fails) *)
Definition covers (M : N) (r : res (N * sexp)) : Prop :=
  forall c v, r = Ok (c, v) -> c <= M.

(* what C01 asks of an outcome: the same cost and tree when the reference succeeds, failure
   (of any kind) when the reference fails *)
Definition agrees {A} (m r : res A) : Prop :=
  match r with
  | Ok x => m = Ok x
  | Err _ => exists e, m = Err e
  end.

Lemma agrees_refl {A} (r : res A) : agrees r r.
Proof. destruct r; cbn; eauto. Qed.

Lemma agrees_err {A} e (r : res A) : (forall x, r <> Ok x) -> agrees (Err e) r.
Proof. intros H. destruct r as [x|e']; cbn; [destruct (H x eq_refl)|eauto]. Qed.

Lemma Ok_inj {A} (a b : A) : Ok a = Ok b -> a = b.
Proof. congruence. Qed.

Lemma ok2 {A B} (a a' : A) (b b' : B) : a = a' -> b = b' -> @Ok (A * B) (a, b) = Ok (a', b').
Proof. intros -> ->. reflexivity. Qed.

Lemma covers_ok M c v : covers M (Ok (c, v)) -> c <= M.
Proof. intros H. exact (H c v eq_refl). Qed.

Lemma check_cost_ok c M : c <= M -> check_cost c M = Ok tt.
Proof. intros H. unfold check_cost. destruct (M <? c) eqn:E; [lia|reflexivity]. Qed.

Lemma check_cost_cases c M : check_cost c M = Ok tt \/ check_cost c M = Err CostExceeded.
Proof. unfold check_cost. destruct (M <? c); auto. Qed.

(* no flags *)
Lemma no_flags_ncm : f_new_cost_model no_flags = false. Proof. reflexivity. Qed.
Lemma no_flags_limits : f_limits no_flags = false. Proof. reflexivity. Qed.
Lemma no_flags_malachite : f_malachite no_flags = false. Proof. reflexivity. Qed.
Lemma no_flags_disable : f_disable_op no_flags = false. Proof. reflexivity. Qed.
Lemma no_flags_strict : f_no_unknown_ops no_flags = false. Proof. reflexivity. Qed.
Lemma no_flags_canonical : f_canonical_ints no_flags = false. Proof. reflexivity. Qed.

(* the flag sets C01 meets: no flags, and no flags + keccak enabled (inside a guard of extension 1) *)
Definition plain_flags (f : flagset) : Prop :=
  f_new_cost_model f = false /\ f_limits f = false /\ f_malachite f = false /\
  f_disable_op f = false /\ f_no_unknown_ops f = false.
Lemma pf_ncm f : plain_flags f -> f_new_cost_model f = false. Proof. intros H; apply H. Qed.
Lemma pf_lim f : plain_flags f -> f_limits f = false. Proof. intros H; apply H. Qed.
Lemma pf_mal f : plain_flags f -> f_malachite f = false. Proof. intros H; apply H. Qed.
Lemma pf_dis f : plain_flags f -> f_disable_op f = false. Proof. intros H; apply H. Qed.
Lemma pf_unk f : plain_flags f -> f_no_unknown_ops f = false. Proof. intros H; apply H. Qed.
Lemma plain_no_flags : plain_flags no_flags.
Proof. repeat split. Qed.
Lemma plain_with_keccak : plain_flags (with_keccak no_flags).
Proof. repeat split. Qed.

(* argument lists *)
Lemma items_arg_list t : items t = arg_list t.
Proof. induction t as [b|a _ r IH]; cbn; [reflexivity|now rewrite IH]. Qed.

Lemma get_args1_items args :
  get_args1 args = match items args with [a] => Ok a | _ => bad_arg end.
Proof. destruct args as [|a [|]]; reflexivity. Qed.
Lemma get_args2_items args :
  get_args2 args = match items args with [a; b] => Ok (a, b) | _ => bad_arg end.
Proof. destruct args as [|a [|b [|]]]; reflexivity. Qed.
Lemma get_args3_items args :
  get_args3 args = match items args with [a; b; c] => Ok (a, b, c) | _ => bad_arg end.
Proof. destruct args as [|a [|b [|c [|]]]]; reflexivity. Qed.
Lemma get_args4_items args :
  get_args4 args = match items args with [a; b; c; d] => Ok (a, b, c, d) | _ => bad_arg end.
Proof. destruct args as [|a [|b [|c [|d [|]]]]]; reflexivity. Qed.

Lemma count_nil {A} : count (@nil A) = 0. Proof. reflexivity. Qed.
Lemma count_cons {A} (x : A) l : count (x :: l) = 1 + count l.
Proof. unfold count. cbn [length]. lia. Qed.
Lemma total_len_cons b bs : total_len (b :: bs) = blen b + total_len bs.
Proof. reflexivity. Qed.
Lemma zsum_cons z zs : zsum (z :: zs) = (z + zsum zs)%Z.
Proof. reflexivity. Qed.

Lemma atoms_cons_atom b l : atoms (Atom b :: l) = match atoms l with Some bs => Some (b :: bs) | None => None end.
Proof. reflexivity. Qed.

Lemma is_nil_nilp t : is_nil t = nilp t.
Proof. reflexivity. Qed.

Lemma ref_limbs_limbs z : ref_limbs z = limbs z.
Proof. unfold ref_limbs, limbs. rewrite N.shiftr_div_pow2. reflexivity. Qed.

(* byte-string comparisons *)
Lemma lex_cmp_eq a : forall b, bytes_eqb a b = match lex_cmp a b with Eq => true | _ => false end.
Proof.
  induction a as [|x a IH]; intros [|y b]; cbn; try reflexivity.
  destruct (N.compare_spec x y) as [E|E|E].
  - subst. rewrite N.eqb_refl. apply IH.
  - assert (H : (x =? y) = false) by lia. rewrite H. reflexivity.
  - assert (H : (x =? y) = false) by lia. rewrite H. reflexivity.
Qed.

Lemma lex_cmp_gt a : forall b, bytes_gtb a b = match lex_cmp a b with Gt => true | _ => false end.
Proof.
  induction a as [|x a IH]; intros [|y b]; cbn; try reflexivity.
  destruct (N.compare_spec x y) as [E|E|E].
  - subst. rewrite N.ltb_irrefl. apply IH.
  - assert (H : (y <? x) = false) by lia. rewrite H. assert (H2 : (x <? y) = true) by lia. rewrite H2. reflexivity.
  - assert (H : (y <? x) = true) by lia. rewrite H. reflexivity.
Qed.
